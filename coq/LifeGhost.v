(** * LifeGhost: the field [dead] of the machine is a ghost: no helper of Machine.v reads it, and
    the only writes prepend to it.  Hence appending ids at its END commutes with everything:
    [h (dl s m) = dl s (h m)] for every closed helper [h] (this file), and for the interpreter
    (LifeGhost2.v). *)
From Coq Require Import NArith Bool List Lia.
From stdpp Require Import base list option.
From RecordUpdate Require Import RecordSet.
From RC Require Import Hdr Machine RunInd.
Import ListNotations RecordSetNotations.

Definition dl (s : list id) (m : machine) : machine := m <| dead ::= fun d => d ++ s |>.

Lemma heap_dl s m : heap (dl s m) = heap m.
Proof. reflexivity. Qed.
Lemma set_heap_dl g s m : set heap g (dl s m) = dl s (set heap g m).
Proof. reflexivity. Qed.
Lemma pc_dl s m : pc (dl s m) = pc m.
Proof. reflexivity. Qed.
Lemma set_pc_dl g s m : set pc g (dl s m) = dl s (set pc g m).
Proof. reflexivity. Qed.
Lemma pc_size_dl s m : pc_size (dl s m) = pc_size m.
Proof. reflexivity. Qed.
Lemma set_pc_size_dl g s m : set pc_size g (dl s m) = dl s (set pc_size g m).
Proof. reflexivity. Qed.
Lemma pc_alive_dl s m : pc_alive (dl s m) = pc_alive m.
Proof. reflexivity. Qed.
Lemma set_pc_alive_dl g s m : set pc_alive g (dl s m) = dl s (set pc_alive g m).
Proof. reflexivity. Qed.
Lemma st_collecting_dl s m : st_collecting (dl s m) = st_collecting m.
Proof. reflexivity. Qed.
Lemma set_st_collecting_dl g s m : set st_collecting g (dl s m) = dl s (set st_collecting g m).
Proof. reflexivity. Qed.
Lemma st_finalizing_dl s m : st_finalizing (dl s m) = st_finalizing m.
Proof. reflexivity. Qed.
Lemma set_st_finalizing_dl g s m : set st_finalizing g (dl s m) = dl s (set st_finalizing g m).
Proof. reflexivity. Qed.
Lemma st_dropping_dl s m : st_dropping (dl s m) = st_dropping m.
Proof. reflexivity. Qed.
Lemma set_st_dropping_dl g s m : set st_dropping g (dl s m) = dl s (set st_dropping g m).
Proof. reflexivity. Qed.
Lemma st_alloc_dl s m : st_alloc (dl s m) = st_alloc m.
Proof. reflexivity. Qed.
Lemma set_st_alloc_dl g s m : set st_alloc g (dl s m) = dl s (set st_alloc g m).
Proof. reflexivity. Qed.
Lemma st_exec_dl s m : st_exec (dl s m) = st_exec m.
Proof. reflexivity. Qed.
Lemma set_st_exec_dl g s m : set st_exec g (dl s m) = dl s (set st_exec g m).
Proof. reflexivity. Qed.
Lemma cf_thr_dl s m : cf_thr (dl s m) = cf_thr m.
Proof. reflexivity. Qed.
Lemma set_cf_thr_dl g s m : set cf_thr g (dl s m) = dl s (set cf_thr g m).
Proof. reflexivity. Qed.
Lemma cf_pnum_dl s m : cf_pnum (dl s m) = cf_pnum m.
Proof. reflexivity. Qed.
Lemma set_cf_pnum_dl g s m : set cf_pnum g (dl s m) = dl s (set cf_pnum g m).
Proof. reflexivity. Qed.
Lemma cf_pexp_dl s m : cf_pexp (dl s m) = cf_pexp m.
Proof. reflexivity. Qed.
Lemma set_cf_pexp_dl g s m : set cf_pexp g (dl s m) = dl s (set cf_pexp g m).
Proof. reflexivity. Qed.
Lemma cf_buf_dl s m : cf_buf (dl s m) = cf_buf m.
Proof. reflexivity. Qed.
Lemma set_cf_buf_dl g s m : set cf_buf g (dl s m) = dl s (set cf_buf g m).
Proof. reflexivity. Qed.
Lemma cf_auto_dl s m : cf_auto (dl s m) = cf_auto m.
Proof. reflexivity. Qed.
Lemma set_cf_auto_dl g s m : set cf_auto g (dl s m) = dl s (set cf_auto g m).
Proof. reflexivity. Qed.
Lemma slots_dl s m : slots (dl s m) = slots m.
Proof. reflexivity. Qed.
Lemma set_slots_dl g s m : set slots g (dl s m) = dl s (set slots g m).
Proof. reflexivity. Qed.
Lemma wslots_dl s m : wslots (dl s m) = wslots m.
Proof. reflexivity. Qed.
Lemma set_wslots_dl g s m : set wslots g (dl s m) = dl s (set wslots g m).
Proof. reflexivity. Qed.
Lemma cslots_dl s m : cslots (dl s m) = cslots m.
Proof. reflexivity. Qed.
Lemma set_cslots_dl g s m : set cslots g (dl s m) = dl s (set cslots g m).
Proof. reflexivity. Qed.
Lemma values_dl s m : values (dl s m) = values m.
Proof. reflexivity. Qed.
Lemma set_values_dl g s m : set values g (dl s m) = dl s (set values g m).
Proof. reflexivity. Qed.
Lemma bag_dl s m : bag (dl s m) = bag m.
Proof. reflexivity. Qed.
Lemma set_bag_dl g s m : set bag g (dl s m) = dl s (set bag g m).
Proof. reflexivity. Qed.
Lemma wparam_dl s m : wparam (dl s m) = wparam m.
Proof. reflexivity. Qed.
Lemma set_wparam_dl g s m : set wparam g (dl s m) = dl s (set wparam g m).
Proof. reflexivity. Qed.
Lemma fuse_trace_dl s m : fuse_trace (dl s m) = fuse_trace m.
Proof. reflexivity. Qed.
Lemma set_fuse_trace_dl g s m : set fuse_trace g (dl s m) = dl s (set fuse_trace g m).
Proof. reflexivity. Qed.
Lemma fuse_fin_dl s m : fuse_fin (dl s m) = fuse_fin m.
Proof. reflexivity. Qed.
Lemma set_fuse_fin_dl g s m : set fuse_fin g (dl s m) = dl s (set fuse_fin g m).
Proof. reflexivity. Qed.
Lemma fuse_drop_dl s m : fuse_drop (dl s m) = fuse_drop m.
Proof. reflexivity. Qed.
Lemma set_fuse_drop_dl g s m : set fuse_drop g (dl s m) = dl s (set fuse_drop g m).
Proof. reflexivity. Qed.
Lemma fuse_action_dl s m : fuse_action (dl s m) = fuse_action m.
Proof. reflexivity. Qed.
Lemma set_fuse_action_dl g s m : set fuse_action g (dl s m) = dl s (set fuse_action g m).
Proof. reflexivity. Qed.
Lemma fuse_closure_dl s m : fuse_closure (dl s m) = fuse_closure m.
Proof. reflexivity. Qed.
Lemma set_fuse_closure_dl g s m : set fuse_closure g (dl s m) = dl s (set fuse_closure g m).
Proof. reflexivity. Qed.
Lemma panicking_dl s m : panicking (dl s m) = panicking m.
Proof. reflexivity. Qed.
Lemma set_panicking_dl g s m : set panicking g (dl s m) = dl s (set panicking g m).
Proof. reflexivity. Qed.
Lemma next_aid_dl s m : next_aid (dl s m) = next_aid m.
Proof. reflexivity. Qed.
Lemma set_next_aid_dl g s m : set next_aid g (dl s m) = dl s (set next_aid g m).
Proof. reflexivity. Qed.
Lemma log_dl s m : log (dl s m) = log m.
Proof. reflexivity. Qed.
Lemma set_log_dl g s m : set log g (dl s m) = dl s (set log g m).
Proof. reflexivity. Qed.
#[export] Hint Rewrite heap_dl set_heap_dl pc_dl set_pc_dl pc_size_dl set_pc_size_dl pc_alive_dl set_pc_alive_dl st_collecting_dl set_st_collecting_dl st_finalizing_dl set_st_finalizing_dl st_dropping_dl set_st_dropping_dl st_alloc_dl set_st_alloc_dl st_exec_dl set_st_exec_dl cf_thr_dl set_cf_thr_dl cf_pnum_dl set_cf_pnum_dl cf_pexp_dl set_cf_pexp_dl cf_buf_dl set_cf_buf_dl cf_auto_dl set_cf_auto_dl slots_dl set_slots_dl wslots_dl set_wslots_dl cslots_dl set_cslots_dl values_dl set_values_dl bag_dl set_bag_dl wparam_dl set_wparam_dl fuse_trace_dl set_fuse_trace_dl fuse_fin_dl set_fuse_fin_dl fuse_drop_dl set_fuse_drop_dl fuse_action_dl set_fuse_action_dl fuse_closure_dl set_fuse_closure_dl panicking_dl set_panicking_dl next_aid_dl set_next_aid_dl log_dl set_log_dl : dlr.

Lemma dead_dl s m : dead (dl s m) = dead m ++ s.
Proof. reflexivity. Qed.
Lemma dl_dl s t m : dl t (dl s m) = dl (s ++ t) m.
Proof. destruct m. unfold dl, set. cbn. rewrite <- app_assoc. reflexivity. Qed.
Lemma dl_nil m : dl [] m = m.
Proof. destruct m. unfold dl, set. cbn. rewrite app_nil_r. reflexivity. Qed.
Lemma set_dead_app_dl L s m : (dl s m) <| dead ::= app L |> = dl s (m <| dead ::= app L |>).
Proof. destruct m. unfold dl, set. cbn. rewrite app_assoc. reflexivity. Qed.
#[export] Hint Rewrite set_dead_app_dl : dlr.

(** derived readers *)
Lemma get_dl s m o : get (dl s m) o = get m o.
Proof. reflexivity. Qed.
Lemma hdr_of_dl s m o : hdr_of (dl s m) o = hdr_of m o.
Proof. reflexivity. Qed.
Lemma is_map_dl s m o : is_map (dl s m) o = is_map m o.
Proof. reflexivity. Qed.
Lemma side_wk_dl s m o : side_wk (dl s m) o = side_wk m o.
Proof. reflexivity. Qed.
Lemma cur_flags_dl K s m : cur_flags K (dl s m) = cur_flags K m.
Proof. reflexivity. Qed.
Lemma get_fuse_dl k s m : get_fuse k (dl s m) = get_fuse k m.
Proof. destruct k; reflexivity. Qed.
Lemma raise_dl s m : raise (dl s m) = raise m.
Proof. reflexivity. Qed.
Lemma should_collect_dl s m : should_collect (dl s m) = should_collect m.
Proof. reflexivity. Qed.
Lemma read_loc_dl r s m : read_loc r (dl s m) = read_loc r m.
Proof. destruct r; reflexivity. Qed.
Lemma read_wloc_dl r s m : read_wloc r (dl s m) = read_wloc r m.
Proof. destruct r; reflexivity. Qed.
Lemma self_node_dl self s m : self_node self (dl s m) = self_node self m.
Proof. reflexivity. Qed.
Lemma pass_fuel_dl s m : pass_fuel (dl s m) = pass_fuel m.
Proof. reflexivity. Qed.
#[export] Hint Rewrite get_dl hdr_of_dl is_map_dl side_wk_dl cur_flags_dl get_fuse_dl raise_dl
  should_collect_dl read_loc_dl read_wloc_dl self_node_dl pass_fuel_dl : dlr.

Ltac dstep_proj :=
  match goal with
  | |- context [fst ?x] =>
    lazymatch x with
    | (_, _) => fail
    | context [match _ with _ => _ end] => fail
    | context [fst _] => fail
    | context [snd _] => fail
    | _ => destruct x
    end
  | |- context [snd ?x] =>
    lazymatch x with
    | (_, _) => fail
    | context [match _ with _ => _ end] => fail
    | context [fst _] => fail
    | context [snd _] => fail
    | _ => destruct x
    end
  end.
Ltac dstep_match :=
  match goal with
  | |- context [match ?x with _ => _ end] =>
    lazymatch x with
    | context [match _ with _ => _ end] => fail
    | _ => destruct x
    end
  end.
Ltac dstep_bind :=
  match goal with
  | |- context [mbind _ ?x] =>
    lazymatch type of x with
    | option _ => first [ is_var x; destruct x | noprojm x; destruct x ]
    end; cbn [mbind option_bind]
  end
with noprojm X :=
  lazymatch X with
  | context [fst _] => fail
  | context [snd _] => fail
  | context [match _ with _ => _ end] => fail
  | context [mbind _ _] => fail
  | _ => idtac
  end.
Ltac dstep_fmap :=
  match goal with
  | |- context [fmap (M:=option) _ ?x] => noprojm x; destruct x; cbn [fmap option_fmap option_map]
  end.
Ltac dstep := first [ dstep_proj | dstep_bind | dstep_match ].
Ltac dlnorm := autorewrite with dlr; cbv beta iota zeta; cbn [fst snd].
Ltac dlgo := dlnorm; repeat (dstep; dlnorm); try reflexivity.

(** ** the helpers *)
Lemma emit_dl e s m : emit e (dl s m) = dl s (emit e m).
Proof. reflexivity. Qed.
Lemma emit_bad_dl b o s m : emit_bad b o (dl s m) = dl s (emit_bad b o m).
Proof. reflexivity. Qed.
Lemma upd_dl o f s m : upd o f (dl s m) = dl s (upd o f m).
Proof. reflexivity. Qed.
Lemma uhdr_dl o f s m : uhdr o f (dl s m) = dl s (uhdr o f m).
Proof. reflexivity. Qed.
Lemma uside_dl o f s m : uside o f (dl s m) = dl s (uside o f m).
Proof. reflexivity. Qed.
Lemma set_fuse_dl k n s m : set_fuse k n (dl s m) = dl s (set_fuse k n m).
Proof. destruct k; reflexivity. Qed.
#[export] Hint Rewrite emit_dl emit_bad_dl upd_dl uhdr_dl uside_dl set_fuse_dl : dlr.

Lemma tick_dl k s m : tick k (dl s m) = (dl s (tick k m).1, (tick k m).2).
Proof. unfold tick. dlgo. Qed.
Lemma dec_size_dl o s m : dec_size o (dl s m) = dl s (dec_size o m).
Proof. unfold dec_size. dlgo. Qed.
#[export] Hint Rewrite tick_dl dec_size_dl : dlr.
Lemma remove_from_list_dl o s m : remove_from_list o (dl s m) = dl s (remove_from_list o m).
Proof. unfold remove_from_list. dlgo. Qed.
Lemma add_to_list_dl o s m : add_to_list o (dl s m) = dl s (add_to_list o m).
Proof. unfold add_to_list. dlgo. Qed.
Lemma dec_rc_m_dl o s m : dec_rc_m o (dl s m) = dl s (dec_rc_m o m).
Proof. unfold dec_rc_m. dlgo. Qed.
Lemma dealloc_dl K o s m : dealloc K o (dl s m) = dl s (dealloc K o m).
Proof. unfold dealloc. dlgo. Qed.
Lemma sfree_dl o s m : sfree o (dl s m) = dl s (sfree o m).
Proof. unfold sfree. dlgo. Qed.
#[export] Hint Rewrite remove_from_list_dl add_to_list_dl dec_rc_m_dl dealloc_dl sfree_dl : dlr.
Lemma drop_metadata_dl K o s m : drop_metadata K o (dl s m) = dl s (drop_metadata K o m).
Proof. unfold drop_metadata. dlgo. Qed.
Lemma init_side_dl o s m : init_side o (dl s m) = dl s (init_side o m).
Proof. unfold init_side. dlgo. Qed.
Lemma weak_strong_count_dl w s m :
  weak_strong_count w (dl s m) = (dl s (weak_strong_count w m).1, (weak_strong_count w m).2).
Proof. unfold weak_strong_count. dlgo. Qed.
Lemma weak_weak_count_dl w s m :
  weak_weak_count w (dl s m) = (dl s (weak_weak_count w m).1, (weak_weak_count w m).2).
Proof. unfold weak_weak_count. dlgo. Qed.
Lemma weak_clone_dl w s m : weak_clone w (dl s m) = dl s <$> weak_clone w m.
Proof. unfold weak_clone. dlgo. Qed.
Lemma weak_drop_dl w s m : weak_drop w (dl s m) = dl s (weak_drop w m).
Proof. unfold weak_drop. dlgo. Qed.
#[export] Hint Rewrite drop_metadata_dl init_side_dl weak_strong_count_dl weak_weak_count_dl
  weak_clone_dl weak_drop_dl : dlr.
Lemma weak_drop_opt_dl w s m : weak_drop_opt w (dl s m) = dl s (weak_drop_opt w m).
Proof. unfold weak_drop_opt. dlgo. Qed.
Lemma node_via_slot_dl i s m :
  node_via_slot i (dl s m) = (dl s (node_via_slot i m).1, (node_via_slot i m).2).
Proof. unfold node_via_slot. dlgo. Qed.
#[export] Hint Rewrite weak_drop_opt_dl node_via_slot_dl : dlr.
Lemma resolve_dl self l s m :
  resolve self l (dl s m) = (dl s (resolve self l m).1, (resolve self l m).2).
Proof. unfold resolve. dlgo. Qed.
Lemma wresolve_dl self l s m :
  wresolve self l (dl s m) = (dl s (wresolve self l m).1, (wresolve self l m).2).
Proof. unfold wresolve. dlgo. Qed.
Lemma nresolve_dl self n s m :
  nresolve self n (dl s m) = (dl s (nresolve self n m).1, (nresolve self n m).2).
Proof. unfold nresolve. dlgo. Qed.
Lemma write_loc_dl r v s m : write_loc r v (dl s m) = dl s (write_loc r v m).
Proof. unfold write_loc. dlgo. Qed.
Lemma write_wloc_dl r v s m : write_wloc r v (dl s m) = dl s (write_wloc r v m).
Proof. unfold write_wloc. dlgo. Qed.
#[export] Hint Rewrite resolve_dl wresolve_dl nresolve_dl write_loc_dl write_wloc_dl : dlr.
Lemma new_node_dl P c s m : new_node P c (dl s m) = (dl s (new_node P c m).1, (new_node P c m).2).
Proof. reflexivity. Qed.
Lemma new_map_dl s m : new_map (dl s m) = (dl s (new_map m).1, (new_map m).2).
Proof. reflexivity. Qed.
Lemma box_alloc_dl K o s m : box_alloc K o (dl s m) = dl s (box_alloc K o m).
Proof. unfold box_alloc. dlgo. Qed.
Lemma adjust_dl K s m : adjust K (dl s m) = dl s (adjust K m).
Proof. unfold adjust. dlgo. Qed.
#[export] Hint Rewrite new_node_dl new_map_dl box_alloc_dl adjust_dl : dlr.
Lemma adjust_trigger_point_dl K s m : adjust_trigger_point K (dl s m) = dl s (adjust_trigger_point K m).
Proof. unfold adjust_trigger_point. dlgo. Qed.
Lemma map_insert_dl mo a sc s m :
  map_insert mo a sc (dl s m) = (dl s (map_insert mo a sc m).1, (map_insert mo a sc m).2).
Proof. unfold map_insert. dlgo. Qed.
Lemma ok_dl r s m : ok (dl s m) r = (dl s (ok m r).1, (ok m r).2).
Proof. reflexivity. Qed.
#[export] Hint Rewrite adjust_trigger_point_dl map_insert_dl ok_dl : dlr.

(** folds *)
Lemma fold_dl {B} (f : machine -> B -> machine) s :
  (forall m a, f (dl s m) a = dl s (f m a)) ->
  forall l m, fold_left f l (dl s m) = dl s (fold_left f l m).
Proof. intros Hf l. induction l as [|a l IH]; intros m; cbn; [reflexivity|]. rewrite Hf. apply IH. Qed.
Lemma unmark_all_dl l s m : unmark_all l (dl s m) = dl s (unmark_all l m).
Proof. unfold unmark_all. apply fold_dl. reflexivity. Qed.
Lemma reset_buffered_dl s m : reset_buffered (dl s m) = dl s (reset_buffered m).
Proof. unfold reset_buffered. rewrite pc_dl. apply fold_dl. reflexivity. Qed.
#[export] Hint Rewrite unmark_all_dl reset_buffered_dl : dlr.

(** ** tracing *)
Lemma traced_children_dl P s m p :
  traced_children P (dl s m) p = (dl s (traced_children P m p).1, (traced_children P m p).2).
Proof. unfold traced_children. dlgo. Qed.
Lemma trace_event_dl K p s m :
  trace_event K p (dl s m) = (dl s (trace_event K p m).1, (trace_event K p m).2).
Proof. unfold trace_event. dlgo. Qed.
#[export] Hint Rewrite traced_children_dl trace_event_dl : dlr.

Definition tdl (s : list id) (t : tstate) : tstate := TState (dl s (t_m t)) (t_root t) (t_non t) (t_q t).
Lemma t_m_tdl s t : t_m (tdl s t) = dl s (t_m t).
Proof. reflexivity. Qed.
Lemma t_root_tdl s t : t_root (tdl s t) = t_root t.
Proof. reflexivity. Qed.
Lemma t_non_tdl s t : t_non (tdl s t) = t_non t.
Proof. reflexivity. Qed.
Lemma t_q_tdl s t : t_q (tdl s t) = t_q t.
Proof. reflexivity. Qed.
Lemma TState_dl s m a b c : TState (dl s m) a b c = tdl s (TState m a b c).
Proof. reflexivity. Qed.
#[export] Hint Rewrite t_m_tdl t_root_tdl t_non_tdl t_q_tdl TState_dl : dlr.

Lemma visit_counting_dl s t c : visit_counting (tdl s t) c = tdl s (visit_counting t c).
Proof. unfold visit_counting. dlgo. Qed.
Lemma visit_root_dl s t c : visit_root (tdl s t) c = tdl s (visit_root t c).
Proof. unfold visit_root. dlgo. Qed.
Lemma fold_visit_counting_dl s l t :
  fold_left visit_counting l (tdl s t) = tdl s (fold_left visit_counting l t).
Proof. revert t. induction l as [|a l IH]; intros t; cbn; [reflexivity|]. rewrite visit_counting_dl. apply IH. Qed.
Lemma fold_visit_root_dl s l t :
  fold_left visit_root l (tdl s t) = tdl s (fold_left visit_root l t).
Proof. revert t. induction l as [|a l IH]; intros t; cbn; [reflexivity|]. rewrite visit_root_dl. apply IH. Qed.
#[export] Hint Rewrite visit_counting_dl visit_root_dl fold_visit_counting_dl fold_visit_root_dl : dlr.

Lemma process_counting_dl K P s t p :
  process_counting K P (tdl s t) p = (tdl s (process_counting K P t p).1, (process_counting K P t p).2).
Proof. unfold process_counting. dlgo. Qed.
Lemma process_root_dl K P s t p :
  process_root K P (tdl s t) p = (tdl s (process_root K P t p).1, (process_root K P t p).2).
Proof. unfold process_root. dlgo. Qed.
#[export] Hint Rewrite process_counting_dl process_root_dl : dlr.

Definition odl (s : list id) (r : option (tstate * bool)) : option (tstate * bool) :=
  match r with Some (t, b) => Some (tdl s t, b) | None => None end.

Lemma counting_dl K P s n : forall t, counting K P n (tdl s t) = odl s (counting K P n t).
Proof.
  induction n as [|n IH]; intros t; [reflexivity|]. cbn [counting]. dlnorm.
  destruct (pc (t_m t)) as [|p rest].
  - destruct (t_q t) as [|p q']; [reflexivity|]. dlnorm.
    destruct (process_counting K P _ p) as [t' boom]. cbn [fst snd].
    destruct boom; [reflexivity | apply IH].
  - dlnorm. destruct (process_counting K P _ p) as [t' boom]. cbn [fst snd].
    destruct boom; [reflexivity | apply IH].
Qed.
Lemma roots_dl K P s n : forall t, roots K P n (tdl s t) = odl s (roots K P n t).
Proof.
  induction n as [|n IH]; intros t; [reflexivity|]. cbn [roots]. dlnorm.
  destruct (t_root t) as [|p rest].
  - destruct (t_q t) as [|p q']; [reflexivity|]. dlnorm.
    destruct (process_root K P _ p) as [t' boom]. cbn [fst snd].
    destruct boom; [reflexivity | apply IH].
  - dlnorm. destruct (process_root K P _ p) as [t' boom]. cbn [fst snd].
    destruct boom; [reflexivity | apply IH].
Qed.

Lemma trace_pass_dl K P s m :
  trace_pass K P (dl s m) = (dl s (trace_pass K P m).1, (trace_pass K P m).2).
Proof.
  unfold trace_pass. dlnorm. rewrite counting_dl.
  destruct (counting K P (pass_fuel m) (TState m [] [] [])) as [[t b]|]; cbn [odl]; [|reflexivity].
  destruct b; [reflexivity|]. rewrite roots_dl.
  destruct (roots K P (pass_fuel m) t) as [[t' b']|]; cbn [odl]; [|reflexivity].
  destruct b'; reflexivity.
Qed.
#[export] Hint Rewrite trace_pass_dl : dlr.
