(** * BufBase: the buffer-and-marks invariant of the machine model: definitions and the
    lemmas about the closed helpers (everything except the tracing phases and the interpreter).

    [Imk Ls Qs m]: the buffer [pc m] is duplicate-free with an exact cached size, the mark of
    every heap object says which collector list it is linked in (mark PC <-> member of [pc m],
    members of the list [Ls] are marked IL and an IL-marked box outside [Ls] has been freed,
    mark IQ <-> member of [Qs], NM otherwise), a box that was never allocated is un-marked, the
    byte counter is the sum of the sizes of the allocated boxes, no counter ever underflowed.
    [Ibuf A m := Imk A [] m] + "a non-empty active list only exists during a collection".

    The invariant is stated modulo [dirty m]: the model has logged a use-after-free, a double
    free, a failed debug assertion or a fuel exhaustion (events that the companion invariants
    I-count / I-ref exclude).  See the header of Buf.v for what is and is not covered. *)
From Coq Require Import NArith Bool List Lia.
From stdpp Require Import base list option sets.
From RecordUpdate Require Import RecordSet.
From RC Require Import Hdr Machine RunInd.
Import ListNotations RecordSetNotations.
Local Open Scope N_scope.
Global Arguments N.add : simpl never.
Global Arguments N.sub : simpl never.
Global Arguments N.of_nat : simpl never.
Global Arguments remove_id : simpl never.

(** ** Projections that matter for this invariant *)
Definition core_eq (m m' : machine) : Prop :=
  heap m' = heap m /\ pc m' = pc m /\ pc_size m' = pc_size m /\ pc_alive m' = pc_alive m /\
  st_collecting m' = st_collecting m /\ st_alloc m' = st_alloc m /\ st_exec m' = st_exec m /\
  log m' = log m.

Lemma core_eq_refl m : core_eq m m.
Proof. repeat split. Qed.

(** ** Events *)
Definition badk (b : bad) : bool :=
  match b with UseAfterFree | DoubleFree | AssertFail | Fuel => true | _ => false end.
Definition bad_ev (e : event) : bool := match e with EBad b _ => badk b | _ => false end.
Definition uf_ev (e : event) : bool := match e with EBad Underflow _ => true | _ => false end.

Definition dirty (m : machine) : Prop := existsb bad_ev (log m) = true.
Definition uflow (m : machine) : bool := existsb uf_ev (log m).

(** the log only grows *)
Definition ext (m m' : machine) : Prop := exists l, log m' = l ++ log m.

Lemma ext_refl m : ext m m.
Proof. exists []. reflexivity. Qed.
Lemma ext_trans m1 m2 m3 : ext m1 m2 -> ext m2 m3 -> ext m1 m3.
Proof. intros [l1 E1] [l2 E2]. exists (l2 ++ l1). rewrite E2, E1, app_assoc. reflexivity. Qed.
Lemma dirty_ext m m' : ext m m' -> dirty m -> dirty m'.
Proof. intros [l E] H. unfold dirty in *. rewrite E, existsb_app, H, orb_true_r. reflexivity. Qed.
Lemma ext_log_eq m m' : log m' = log m -> ext m m'.
Proof. intros E. exists []. exact E. Qed.
Lemma ext_emit e m : ext m (emit e m).
Proof. exists [e]. reflexivity. Qed.

(** ** Heap access *)
Lemma get_upd o f m o' :
  get (upd o f m) o' = if decide (o = o') then f <$> get m o' else get m o'.
Proof.
  unfold get, upd. cbn. destruct (decide (o = o')) as [->|Hne].
  - apply list_lookup_alter.
  - apply list_lookup_alter_ne, Hne.
Qed.
Lemma get_upd_eq o f m x : get m o = Some x -> get (upd o f m) o = Some (f x).
Proof. intros E. rewrite get_upd, decide_True, E by reflexivity. reflexivity. Qed.
Lemma get_upd_ne o f m o' : o <> o' -> get (upd o f m) o' = get m o'.
Proof. intros. rewrite get_upd, decide_False by assumption. reflexivity. Qed.
Lemma get_uhdr o f m o' :
  get (uhdr o f m) o' =
  if decide (o = o') then (fun x => x <| o_hdr ::= f |>) <$> get m o' else get m o'.
Proof. apply get_upd. Qed.
Lemma get_upd_Some o f m o' y :
  get (upd o f m) o' = Some y ->
  exists x, get m o' = Some x /\ y = if decide (o = o') then f x else x.
Proof.
  rewrite get_upd. destruct (decide (o = o')); [|eauto].
  destruct (get m o') as [x|]; cbn; [|discriminate]. intros [= <-]. eauto.
Qed.
Lemma get_lt m o x : get m o = Some x -> (o < length (heap m))%nat.
Proof. apply lookup_lt_Some. Qed.
Lemma get_ge m o : get m o = None -> (length (heap m) <= o)%nat.
Proof. apply lookup_ge_None_1. Qed.
Lemma hdr_of_get m o x : get m o = Some x -> hdr_of m o = o_hdr x.
Proof. unfold hdr_of. intros ->. reflexivity. Qed.

Definition remove_id_spec x y l : y ∈ remove_id x l <-> y ∈ l /\ y <> x.
Proof. unfold remove_id. rewrite elem_of_list_filter. tauto. Qed.
Global Instance set_unfold_remove_id x y l P :
  SetUnfoldElemOf y l P -> SetUnfoldElemOf y (remove_id x l) (P /\ y <> x).
Proof. intros [H]. constructor. rewrite remove_id_spec, H. reflexivity. Qed.
Lemma NoDup_remove_id x l : NoDup l -> NoDup (remove_id x l).
Proof. apply NoDup_filter. Qed.
Lemma length_remove_id x l :
  NoDup l -> x ∈ l -> length l = S (length (remove_id x l)).
Proof.
  induction l as [|a l IH]; intros Hnd Hin; [inversion Hin|].
  apply NoDup_cons in Hnd as [Ha Hnd]. unfold remove_id in *.
  destruct (decide (a = x)) as [->|Hne].
  - rewrite filter_cons_False by (intros ?; congruence). f_equal.
    clear IH Hin Hnd. induction l as [|b l IH]; [reflexivity|].
    apply not_elem_of_cons in Ha as [? ?]. rewrite filter_cons_True by congruence.
    cbn. f_equal. apply IH. assumption.
  - rewrite filter_cons_True by assumption. cbn. f_equal.
    apply elem_of_cons in Hin as [->|Hin]; [congruence|]. apply IH; assumption.
Qed.

Section Buf.
  Context (K : conf).

  (** ** The definitions of the statement *)
  Definition alloc (m : machine) (o : id) (x : obj) : Prop := get m o = Some x /\ o_box x = BAlloc.

  Definition osize (x : obj) : N :=
    match o_box x with BAlloc => (box_layout K x).1 | _ => 0 end.
  Definition bytes_of (h : list obj) : N := foldr (fun x a => osize x + a) 0 h.
  (** the sum of the sizes of the managed allocations that currently exist *)
  Definition bytes (m : machine) : N := bytes_of (heap m).

  Lemma bytes_of_cons x h : bytes_of (x :: h) = osize x + bytes_of h.
  Proof. reflexivity. Qed.
  Global Arguments bytes_of : simpl never.
  Global Arguments osize : simpl never.

  Lemma bytes_of_app h1 h2 : bytes_of (h1 ++ h2) = bytes_of h1 + bytes_of h2.
  Proof.
    induction h1 as [|x h1 IH]; [reflexivity|].
    change (bytes_of ((x :: h1) ++ h2)) with (osize x + bytes_of (h1 ++ h2)).
    change (bytes_of (x :: h1)) with (osize x + bytes_of h1). rewrite IH. lia.
  Qed.

  Lemma bytes_of_alter f o h x :
    h !! o = Some x -> bytes_of (alter f o h) + osize x = bytes_of h + osize (f x).
  Proof.
    revert o. induction h as [|y h IH]; intros [|o] E; cbn in *; try discriminate.
    - injection E as ->. rewrite !bytes_of_cons. lia.
    - specialize (IH o E). rewrite !bytes_of_cons. lia.
  Qed.
  Lemma bytes_of_alter_same f o h :
    (forall x, osize (f x) = osize x) -> bytes_of (alter f o h) = bytes_of h.
  Proof.
    intros Hf. revert o. induction h as [|y h IH]; intros [|o]; cbn; try reflexivity.
    - rewrite !bytes_of_cons, Hf. reflexivity.
    - rewrite !bytes_of_cons, IH. reflexivity.
  Qed.
  Lemma bytes_of_ge h o x : h !! o = Some x -> osize x <= bytes_of h.
  Proof.
    revert o. induction h as [|y h IH]; intros [|o] E; cbn in *; try discriminate.
    - injection E as ->. rewrite bytes_of_cons. lia.
    - specialize (IH o E). rewrite bytes_of_cons. lia.
  Qed.

  Record Imk (Ls Qs : list id) (m : machine) : Prop := {
    ik_nodup : NoDup (pc m);
    ik_size : pc_size m = N.of_nat (length (pc m));
    ik_lists : NoDup (Ls ++ Qs);
    ik_valid : forall o, o ∈ pc m ++ Ls ++ Qs -> is_Some (get m o);
    ik_pc : forall o x, get m o = Some x -> (h_mark (o_hdr x) = PC <-> o ∈ pc m);
    (* members are marked IL; an IL-marked box that is not a member has been freed (the drop
       pass frees its list without touching the headers) *)
    ik_il : forall o x, get m o = Some x ->
              (o ∈ Ls -> h_mark (o_hdr x) = IL) /\
              (h_mark (o_hdr x) = IL -> o ∈ Ls \/ o_box x = BFreed);
    ik_iq : forall o x, get m o = Some x -> (h_mark (o_hdr x) = IQ <-> o ∈ Qs);
    ik_box : forall o x, get m o = Some x -> o_box x = BNotYet -> h_mark (o_hdr x) = NM;
    ik_bytes : st_alloc m = bytes m;
    ik_alive : pc_alive m = true;
    ik_uflow : uflow m = false;
  }.

  (** [A]: the active list of the running collection pass ([[]] outside the finalization and
      drop passes). *)
  (** I-tc: every buffered object has tracing counter 0 (what trace_counting relies on when it
      pops the buffer; the conjunct defect F1 broke).  Stated on the mark: under [Imk] the
      PC-marked objects are exactly the members of [pc m]. *)
  Definition tcz (m : machine) : Prop :=
    forall o x, get m o = Some x -> h_mark (o_hdr x) = PC -> h_tc (o_hdr x) = 0.

  Definition Ibuf (A : list id) (m : machine) : Prop :=
    Imk A [] m /\ (A <> [] -> st_collecting m = true) /\ tcz m.

  (** the invariant modulo model-detected misbehaviour *)
  Definition GI (Ls Qs : list id) (m : machine) : Prop := dirty m \/ Imk Ls Qs m.
  Definition G (A : list id) (m : machine) : Prop := dirty m \/ Ibuf A m.

  (** ** What every activation preserves whatever its outcome *)
  Record frame (m m' : machine) : Prop := {
    fr_ext : ext m m';
    fr_coll : st_collecting m' = st_collecting m;
    fr_exec_le : st_exec m <= st_exec m';
    fr_exec_eq : st_collecting m = true -> st_exec m' = st_exec m;
    fr_obj : forall o x, get m o = Some x ->
       exists x', get m' o = Some x' /\ (o_box x <> BNotYet -> o_box x' <> BNotYet) /\
                  (o_box x = BNotYet -> o_box x' = BNotYet \/ dirty m');
  }.

  Lemma frame_refl m : frame m m.
  Proof.
    split; try reflexivity; try apply ext_refl; try lia.
    intros o x E. exists x. auto.
  Qed.
  Lemma frame_trans m1 m2 m3 : frame m1 m2 -> frame m2 m3 -> frame m1 m3.
  Proof.
    intros [A1 A2 A3 A4 A5] [B1 B2 B3 B4 B5]. split.
    - eapply ext_trans; eassumption.
    - congruence.
    - lia.
    - intros H. rewrite B4, A4; congruence.
    - intros o x E. destruct (A5 o x E) as (x' & E' & N1 & N2).
      destruct (B5 o x' E') as (x'' & E'' & N3 & N4). exists x''. split; [exact E''|]. split.
      + auto.
      + intros Hb. destruct (N2 Hb) as [Hb'|Hd].
        * auto.
        * right. eapply dirty_ext; eassumption.
  Qed.
  Lemma frame_len m m' : frame m m' -> (length (heap m) <= length (heap m'))%nat.
  Proof.
    intros F. destruct (heap m) as [|x0 h] eqn:Eh using rev_ind; [cbn; lia|]. clear IHh.
    destruct (fr_obj _ _ F (length h) x0) as (x' & E' & _).
    - unfold get. rewrite Eh. apply list_lookup_middle. reflexivity.
    - apply get_lt in E'. rewrite app_length. cbn. lia.
  Qed.
  Lemma frame_dirty m m' : frame m m' -> dirty m -> dirty m'.
  Proof. intros F. apply dirty_ext, F. Qed.

  (** a state that agrees on the relevant projections *)
  Lemma frame_core m m' : core_eq m m' -> frame m m'.
  Proof.
    intros (Eh & _ & _ & _ & Ec & _ & Ee & El). split.
    - apply ext_log_eq, El.
    - exact Ec.
    - rewrite Ee. lia.
    - intros _. exact Ee.
    - intros o x E. exists x. unfold get in *. rewrite Eh. auto.
  Qed.
  Lemma Imk_core Ls Qs m m' : core_eq m m' -> Imk Ls Qs m -> Imk Ls Qs m'.
  Proof.
    intros (Eh & Ep & Es & Ea & _ & Eb & _ & El) [H1 H2 H3 H4 H5 H6 H7 H8 H9 H10 H11].
    unfold get, bytes, uflow in *. split; unfold get, bytes, uflow; rewrite ?Eh, ?Ep, ?Es, ?Ea, ?Eb, ?El; assumption.
  Qed.
  Lemma dirty_core m m' : core_eq m m' -> dirty m -> dirty m'.
  Proof. intros C. apply dirty_ext, ext_log_eq, C. Qed.
  Lemma GI_core Ls Qs m m' : core_eq m m' -> GI Ls Qs m -> GI Ls Qs m'.
  Proof. intros C [D|I]; [left; eapply dirty_core | right; eapply Imk_core]; eassumption. Qed.
  Lemma G_core A m m' : core_eq m m' -> G A m -> G A m'.
  Proof.
    intros C [D|(I & HA & Hz)]; [left; eapply dirty_core; eassumption|right].
    split; [eapply Imk_core; eassumption|]. destruct C as (Eh & _ & _ & _ & -> & _).
    split; [exact HA|]. intros o x E. unfold get in *. rewrite Eh in E. eauto.
  Qed.

  (** ** Emitting events *)
  Lemma frame_emit e m : frame m (emit e m).
  Proof.
    split; [apply ext_emit|reflexivity|apply N.le_refl|reflexivity|].
    intros o x E. exists x. auto.
  Qed.
  Lemma Imk_emit Ls Qs e m : uf_ev e = false -> Imk Ls Qs m -> Imk Ls Qs (emit e m).
  Proof.
    intros He [H1 H2 H3 H4 H5 H6 H7 H8 H9 H10 H11]. split; try assumption.
    unfold uflow in *. cbn. rewrite He, H11. reflexivity.
  Qed.
  Lemma dirty_emit e m : dirty m -> dirty (emit e m).
  Proof. apply dirty_ext, ext_emit. Qed.
  Lemma dirty_emit_bad b o m : badk b = true -> dirty (emit_bad b o m).
  Proof. intros H. unfold dirty. cbn. rewrite H. reflexivity. Qed.
  Lemma GI_emit Ls Qs e m : uf_ev e = false -> GI Ls Qs m -> GI Ls Qs (emit e m).
  Proof. intros He [D|I]; [left; apply dirty_emit, D | right; apply Imk_emit; assumption]. Qed.

  (** ** Updates that keep marks, box states and sizes *)
  Definition keeps (f : obj -> obj) : Prop :=
    forall x, h_mark (o_hdr (f x)) = h_mark (o_hdr x) /\ o_box (f x) = o_box x /\
              o_ismap (f x) = o_ismap x.

  Lemma keeps_osize f x : keeps f -> osize (f x) = osize x.
  Proof.
    intros Hf. destruct (Hf x) as (_ & Hb & Hm). unfold osize, box_layout. rewrite Hb, Hm.
    reflexivity.
  Qed.

  Definition keeps_at (m : machine) (o : id) (f : obj -> obj) : Prop :=
    forall x, get m o = Some x ->
              h_mark (o_hdr (f x)) = h_mark (o_hdr x) /\ o_box (f x) = o_box x /\
              o_ismap (f x) = o_ismap x.
  Lemma keeps_keeps_at m o f : keeps f -> keeps_at m o f.
  Proof. intros H x _. apply H. Qed.

  Lemma frame_upd o f m : (forall x, get m o = Some x -> o_box (f x) = o_box x) -> frame m (upd o f m).
  Proof.
    intros Hf. split; [apply ext_log_eq; reflexivity|reflexivity|apply N.le_refl|reflexivity|].
    intros o' x E. rewrite get_upd. destruct (decide (o = o')) as [->|].
    - rewrite E. cbn. exists (f x). rewrite (Hf x E). auto.
    - exists x. auto.
  Qed.

  Lemma Imk_upd Ls Qs o f m : keeps_at m o f -> Imk Ls Qs m -> Imk Ls Qs (upd o f m).
  Proof.
    intros Hf [H1 H2 H3 H4 H5 H6 H7 H8 H9 H10 H11].
    assert (Hg : forall o' y, get (upd o f m) o' = Some y ->
              exists x, get m o' = Some x /\ h_mark (o_hdr y) = h_mark (o_hdr x) /\ o_box y = o_box x).
    { intros o' y E. apply get_upd_Some in E as (x & E & ->). exists x. split; [exact E|].
      destruct (decide (o = o')) as [->|]; [|auto]. destruct (Hf x E) as (? & ? & ?). auto. }
    split; try assumption.
    - intros o' Ho'. destruct (H4 o' Ho') as [x E]. rewrite get_upd, E.
      destruct (decide (o = o')); cbn; eauto.
    - intros o' y E. destruct (Hg o' y E) as (x & E' & -> & _). eauto.
    - intros o' y E. destruct (Hg o' y E) as (x & E' & -> & ->). eauto.
    - intros o' y E. destruct (Hg o' y E) as (x & E' & -> & _). eauto.
    - intros o' y E. destruct (Hg o' y E) as (x & E' & -> & ->). eauto.
    - unfold bytes in *. cbn. destruct (get m o) as [x|] eqn:E.
      + pose proof (bytes_of_alter f o (heap m) x E) as Hb.
        assert (osize (f x) = osize x) as Hs.
        { destruct (Hf x E) as (_ & Hb' & Hm). unfold osize, box_layout. rewrite Hb', Hm. reflexivity. }
        unfold id in *. lia.
      + rewrite H9. f_equal. symmetry. apply list_eq. intros i. unfold get, id in *.
        destruct (decide (o = i)) as [->|Hne].
        * rewrite list_lookup_alter, E. reflexivity.
        * apply list_lookup_alter_ne, Hne.
  Qed.
  Lemma GI_upd Ls Qs o f m : keeps_at m o f -> GI Ls Qs m -> GI Ls Qs (upd o f m).
  Proof. intros Hf [D|I]; [left; exact D | right; apply Imk_upd; assumption]. Qed.

  Lemma keeps_hdr f : (forall h, h_mark (f h) = h_mark h) -> keeps (fun x => x <| o_hdr ::= f |>).
  Proof. intros Hf x. cbn. auto. Qed.
  Lemma frame_uhdr o f m : frame m (uhdr o f m).
  Proof. apply frame_upd. reflexivity. Qed.
  Lemma GI_uhdr Ls Qs o f m :
    (forall h, h_mark (f h) = h_mark h) -> GI Ls Qs m -> GI Ls Qs (uhdr o f m).
  Proof. intros Hf. apply GI_upd, keeps_keeps_at, keeps_hdr, Hf. Qed.


  (** ** Generic transfer lemmas *)
  Lemma frame_same m m' :
    heap m' = heap m -> st_collecting m' = st_collecting m -> st_exec m' = st_exec m ->
    ext m m' -> frame m m'.
  Proof.
    intros Eh Ec Ee El. split; [exact El|exact Ec|rewrite Ee; apply N.le_refl|intros _; exact Ee|].
    intros o x E. exists x. unfold get in *. rewrite Eh. auto.
  Qed.
  Lemma frame_alter m m' f o :
    heap m' = alter f o (heap m) -> (forall x, o_box (f x) = o_box x) ->
    st_collecting m' = st_collecting m -> st_exec m' = st_exec m -> ext m m' -> frame m m'.
  Proof.
    intros Eh Hf Ec Ee El. split; [exact El|exact Ec|rewrite Ee; apply N.le_refl|intros _; exact Ee|].
    intros o' x E. unfold get, id in *. rewrite Eh. destruct (decide (o = o')) as [->|Hne].
    - exists (f x). rewrite list_lookup_alter, E, Hf. cbn. auto.
    - exists x. rewrite list_lookup_alter_ne by exact Hne. auto.
  Qed.

  Lemma GI_from Ls Qs Ls' Qs' m m' :
    frame m m' -> (Imk Ls Qs m -> GI Ls' Qs' m') -> GI Ls Qs m -> GI Ls' Qs' m'.
  Proof. intros F H [D|I]; [left; eapply frame_dirty; eassumption | auto]. Qed.

  Lemma Imk_equiv Ls Qs Ls' Qs' m :
    Imk Ls Qs m -> NoDup (Ls' ++ Qs') ->
    (forall o, o ∈ Ls' <-> o ∈ Ls) -> (forall o, o ∈ Qs' <-> o ∈ Qs) -> Imk Ls' Qs' m.
  Proof.
    intros [H1 H2 H3 H4 H5 H6 H7 H8 H9 H10 H11] Hnd HL HQ. split; try assumption.
    - intros o Ho. apply H4. rewrite !elem_of_app in *. rewrite <- HL, <- HQ. exact Ho.
    - intros o x E. rewrite HL. eauto.
    - intros o x E. rewrite HQ. eauto.
  Qed.

  (** one object changes (marks, box state), the lists change accordingly *)
  Lemma Imk_reobj' Ls Qs Ls' Qs' m m' o x g :
    Imk Ls Qs m -> get m o = Some x ->
    heap m' = alter g o (heap m) ->
    pc_size m' = N.of_nat (length (pc m')) -> pc_alive m' = pc_alive m ->
    st_alloc m' + osize x = st_alloc m + osize (g x) -> uflow m' = false ->
    NoDup (pc m') -> NoDup (Ls' ++ Qs') ->
    (forall o', o' <> o -> (o' ∈ pc m' <-> o' ∈ pc m) /\ (o' ∈ Ls' <-> o' ∈ Ls) /\
                           (o' ∈ Qs' <-> o' ∈ Qs)) ->
    (h_mark (o_hdr (g x)) = PC <-> o ∈ pc m') ->
    ((o ∈ Ls' -> h_mark (o_hdr (g x)) = IL) /\
     (h_mark (o_hdr (g x)) = IL -> o ∈ Ls' \/ o_box (g x) = BFreed)) ->
    (h_mark (o_hdr (g x)) = IQ <-> o ∈ Qs') ->
    (o_box (g x) = BNotYet -> h_mark (o_hdr (g x)) = NM) ->
    Imk Ls' Qs' m'.
  Proof.
    intros [H1 H2 H3 H4 H5 H6 H7 H8 H9 H10 H11] Ex Eh Es Ea Eb Eu Hnd Hnd' Hoth Hpc Hil Hiq Hbx.
    assert (Hg : forall o', get m' o' = if decide (o = o') then g <$> get m o' else get m o').
    { intros o'. unfold get. rewrite Eh. destruct (decide (o = o')) as [->|Hne].
      - apply list_lookup_alter.
      - apply list_lookup_alter_ne, Hne. }
    assert (Hgo : get m' o = Some (g x)).
    { rewrite Hg, decide_True, Ex by reflexivity. reflexivity. }
    assert (Hgn : forall o', o' <> o -> get m' o' = get m o').
    { intros o' Hne. rewrite Hg, decide_False by congruence. reflexivity. }
    split; try assumption.
    - intros o' Ho'. destruct (decide (o' = o)) as [->|Hne]; [rewrite Hgo; eauto|].
      rewrite Hgn by exact Hne. apply H4. destruct (Hoth o' Hne) as (A1 & A2 & A3).
      rewrite !elem_of_app in *. rewrite <- A1, <- A2, <- A3. exact Ho'.
    - intros o' y E. destruct (decide (o' = o)) as [->|Hne].
      + rewrite Hgo in E. injection E as <-. exact Hpc.
      + rewrite Hgn in E by exact Hne. destruct (Hoth o' Hne) as (A1 & A2 & A3).
        rewrite A1. eauto.
    - intros o' y E. destruct (decide (o' = o)) as [->|Hne].
      + rewrite Hgo in E. injection E as <-. exact Hil.
      + rewrite Hgn in E by exact Hne. destruct (Hoth o' Hne) as (A1 & A2 & A3).
        rewrite A2. eauto.
    - intros o' y E. destruct (decide (o' = o)) as [->|Hne].
      + rewrite Hgo in E. injection E as <-. exact Hiq.
      + rewrite Hgn in E by exact Hne. destruct (Hoth o' Hne) as (A1 & A2 & A3).
        rewrite A3. eauto.
    - intros o' y E. destruct (decide (o' = o)) as [->|Hne].
      + rewrite Hgo in E. injection E as <-. exact Hbx.
      + rewrite Hgn in E by exact Hne. eauto.
    - unfold bytes in *. rewrite Eh.
      pose proof (bytes_of_alter g o (heap m) x Ex) as Hb. unfold id in *. lia.
    - rewrite Ea. exact H10.
  Qed.

  Lemma Imk_reobj Ls Qs Ls' Qs' m m' o x g :
    Imk Ls Qs m -> get m o = Some x ->
    heap m' = alter g o (heap m) ->
    pc_size m' = N.of_nat (length (pc m')) -> pc_alive m' = pc_alive m ->
    st_alloc m' + osize x = st_alloc m + osize (g x) -> uflow m' = false ->
    NoDup (pc m') -> NoDup (Ls' ++ Qs') ->
    (forall o', o' <> o -> (o' ∈ pc m' <-> o' ∈ pc m) /\ (o' ∈ Ls' <-> o' ∈ Ls) /\
                           (o' ∈ Qs' <-> o' ∈ Qs)) ->
    (h_mark (o_hdr (g x)) = PC <-> o ∈ pc m') ->
    (h_mark (o_hdr (g x)) = IL <-> o ∈ Ls') ->
    (h_mark (o_hdr (g x)) = IQ <-> o ∈ Qs') ->
    (o_box (g x) = BNotYet -> h_mark (o_hdr (g x)) = NM) ->
    Imk Ls' Qs' m'.
  Proof.
    intros I Ex Eh Es Ea Eb Eu Hnd Hnd' Hoth Hpc Hil Hiq Hbx.
    eapply Imk_reobj'; try eassumption. split; [apply Hil|]. intros H. left. apply Hil, H.
  Qed.

  (** marks of the three kinds are exclusive *)
  Lemma Imk_mark_cases Ls Qs m o x :
    Imk Ls Qs m -> get m o = Some x ->
    match h_mark (o_hdr x) with
    | NM => o ∉ pc m /\ o ∉ Ls /\ o ∉ Qs
    | PC => o ∈ pc m /\ o ∉ Ls /\ o ∉ Qs
    | IL => o ∉ pc m /\ (o ∈ Ls \/ o_box x = BFreed) /\ o ∉ Qs
    | IQ => o ∉ pc m /\ o ∉ Ls /\ o ∈ Qs
    end.
  Proof.
    intros I E. pose proof (ik_pc _ _ _ I o x E) as A1. destruct (ik_il _ _ _ I o x E) as [A2 A2'].
    pose proof (ik_iq _ _ _ I o x E) as A3.
    destruct (h_mark (o_hdr x)); repeat split;
      try (apply A1; reflexivity); try (apply A2'; reflexivity); try (apply A3; reflexivity);
      try (rewrite <- ?A1, <- ?A3; discriminate);
      try (intros H; specialize (A2 H); discriminate).
  Qed.


  (** ** [mild]: steps that preserve the frame, the invariant for every pair of lists, and I-tc *)
  Definition mild (m m' : machine) : Prop :=
    frame m m' /\ (forall Ls Qs, GI Ls Qs m -> GI Ls Qs m') /\
    (forall Ls Qs, Imk Ls Qs m -> tcz m -> dirty m' \/ tcz m').

  Lemma mild_intro m m' :
    frame m m' -> (forall Ls Qs, GI Ls Qs m -> GI Ls Qs m') -> (tcz m -> tcz m') -> mild m m'.
  Proof. intros F H Hz. split; [exact F|]. split; [exact H|]. intros _ _ _ Z. right. auto. Qed.

  Lemma mild_refl m : mild m m.
  Proof. apply mild_intro; [apply frame_refl|auto|auto]. Qed.
  Lemma mild_trans m1 m2 m3 : mild m1 m2 -> mild m2 m3 -> mild m1 m3.
  Proof.
    intros (F1 & H1 & Z1) (F2 & H2 & Z2). split; [eapply frame_trans; eassumption|]. split; [auto|].
    intros Ls Qs I Z. destruct (Z1 Ls Qs I Z) as [D|Z']; [left; eapply frame_dirty; eassumption|].
    destruct (H1 Ls Qs (or_intror I)) as [D|I']; [left; eapply frame_dirty; eassumption|].
    eapply Z2; eassumption.
  Qed.
  Lemma mild_frame m m' : mild m m' -> frame m m'.
  Proof. intros [F _]. exact F. Qed.
  Lemma mild_GI Ls Qs m m' : mild m m' -> GI Ls Qs m -> GI Ls Qs m'.
  Proof. intros (_ & H & _). apply H. Qed.
  Lemma mild_G A m m' : mild m m' -> G A m -> G A m'.
  Proof.
    intros (F & H & Z) [D|(I & HA & Hz)]; [left; eapply frame_dirty; eassumption|].
    destruct (H A [] (or_intror I)) as [D|I']; [left; exact D|].
    destruct (Z A [] I Hz) as [D|Hz']; [left; exact D|right].
    split; [exact I'|]. split; [|exact Hz']. rewrite (fr_coll _ _ F). exact HA.
  Qed.

  Lemma tcz_heap m m' : heap m' = heap m -> tcz m -> tcz m'.
  Proof. intros Eh Z o x E. unfold get in *. rewrite Eh in E. eauto. Qed.
  Lemma tcz_upd o f m :
    tcz m ->
    (forall x, get m o = Some x -> h_mark (o_hdr (f x)) = PC -> h_tc (o_hdr (f x)) = 0) ->
    tcz (upd o f m).
  Proof.
    intros Z Hf o' y E Hm. apply get_upd_Some in E as (x & E & ->).
    destruct (decide (o = o')) as [<-|]; [apply (Hf x E Hm)|eauto].
  Qed.

  Lemma mild_core m m' : core_eq m m' -> mild m m'.
  Proof.
    intros C. apply mild_intro; [apply frame_core, C|intros Ls Qs; apply GI_core, C|].
    apply tcz_heap, C.
  Qed.
  Lemma mild_emit e m : uf_ev e = false -> mild m (emit e m).
  Proof.
    intros He. apply mild_intro; [apply frame_emit|intros Ls Qs; apply GI_emit, He|].
    apply tcz_heap. reflexivity.
  Qed.
  Lemma mild_emit_bad b o m : b <> Underflow -> mild m (emit_bad b o m).
  Proof. intros Hb. apply mild_emit. destruct b; try reflexivity. congruence. Qed.

  (** the update does not create a buffered object with a non-zero tracing counter *)
  Definition tc_ok_at (m : machine) (o : id) (f : obj -> obj) : Prop :=
    forall x, get m o = Some x -> h_mark (o_hdr x) = PC -> h_tc (o_hdr x) = 0 ->
              h_tc (o_hdr (f x)) = 0.

  Lemma mild_upd_at o f m : keeps_at m o f -> tc_ok_at m o f -> mild m (upd o f m).
  Proof.
    intros Hf Ht. apply mild_intro;
      [apply frame_upd; intros x E; apply (Hf x E)|intros Ls Qs; apply GI_upd, Hf|].
    intros Z. apply tcz_upd; [exact Z|]. intros x E Hm. destruct (Hf x E) as (Hmk & _).
    rewrite Hmk in Hm. apply (Ht x E Hm), (Z _ _ E Hm).
  Qed.
  Lemma mild_upd o f m :
    keeps f -> (forall x, h_tc (o_hdr x) = 0 -> h_tc (o_hdr (f x)) = 0) -> mild m (upd o f m).
  Proof. intros Hf Ht. apply mild_upd_at; [apply keeps_keeps_at, Hf|]. intros x _ _. apply Ht. Qed.
  Lemma mild_uhdr o f m :
    (forall h, h_mark (f h) = h_mark h) -> (forall h, h_tc h = 0 -> h_tc (f h) = 0) ->
    mild m (uhdr o f m).
  Proof. intros Hf Ht. apply mild_upd; [apply keeps_hdr, Hf|]. intros x. cbn. apply Ht. Qed.
  Lemma mild_uhdr_at o f m :
    (forall x, get m o = Some x -> h_mark (f (o_hdr x)) = h_mark (o_hdr x)) ->
    (forall x, get m o = Some x -> h_tc (f (o_hdr x)) = h_tc (o_hdr x)) ->
    mild m (uhdr o f m).
  Proof.
    intros Hf Ht. apply mild_upd_at.
    - intros x E. cbn. auto.
    - intros x E _ Hz. cbn. rewrite (Ht x E). exact Hz.
  Qed.
  (** a header update on an object that is not buffered *)
  Lemma mild_uhdr_notpc o f m :
    (forall h, h_mark (f h) = h_mark h) ->
    (dirty m \/ forall x, get m o = Some x -> h_mark (o_hdr x) <> PC) ->
    mild m (uhdr o f m).
  Proof.
    intros Hf Hn. split; [apply frame_uhdr|]. split; [intros Ls Qs; apply GI_uhdr, Hf|].
    intros Ls Qs _ Z. destruct Hn as [D|Hn]; [left; exact D|right].
    apply tcz_upd; [exact Z|]. intros x E Hm. cbn in Hm. rewrite Hf in Hm. destruct (Hn x E Hm).
  Qed.

  (** *** remove_from_list / add_to_list *)
  Lemma is_in_pc_get m o :
    is_in_pc (hdr_of m o) = true -> exists x, get m o = Some x /\ h_mark (o_hdr x) = PC.
  Proof.
    unfold is_in_pc, hdr_of. destruct (get m o) as [x|]; [|discriminate].
    intros H. exists x. split; [reflexivity|]. destruct (mark_eqb_spec (h_mark (o_hdr x)) PC); congruence.
  Qed.
  Lemma is_in_pc_false m o x :
    get m o = Some x -> is_in_pc (hdr_of m o) = false -> h_mark (o_hdr x) <> PC.
  Proof.
    intros E. unfold is_in_pc. rewrite (hdr_of_get _ _ _ E).
    destruct (mark_eqb_spec (h_mark (o_hdr x)) PC); congruence.
  Qed.

  Lemma frame_dec_size o m : frame m (dec_size o m).
  Proof.
    unfold dec_size. destruct (pc_size m =? 0); [apply frame_emit|].
    apply frame_same; try reflexivity. apply ext_log_eq. reflexivity.
  Qed.

  Lemma frame_remove_from_list o m : frame m (remove_from_list o m).
  Proof.
    unfold remove_from_list. destruct (is_in_pc (hdr_of m o)); [|apply frame_refl].
    destruct (pc_alive m); [|apply frame_refl].
    eapply frame_trans; [|apply frame_dec_size].
    eapply frame_trans; [apply (frame_uhdr o (set_mark NM))|].
    apply frame_same; try reflexivity. apply ext_log_eq. reflexivity.
  Qed.

  Lemma Imk_remove_from_list Ls Qs o m :
    Imk Ls Qs m -> Imk Ls Qs (remove_from_list o m).
  Proof.
    intros I. unfold remove_from_list.
    destruct (is_in_pc (hdr_of m o)) eqn:Epc; [|exact I].
    rewrite (ik_alive _ _ _ I).
    destruct (is_in_pc_get _ _ Epc) as (x & Ex & Hm).
    pose proof (Imk_mark_cases _ _ _ _ _ I Ex) as Hc. rewrite Hm in Hc. destruct Hc as (Hin & HnL & HnQ).
    pose proof (length_remove_id o (pc m) (ik_nodup _ _ _ I) Hin) as Hlen.
    pose proof (ik_size _ _ _ I) as Hsz.
    unfold dec_size. cbn [pc_size set]. 
    change (pc_size (uhdr o (set_mark NM) m)) with (pc_size m).
    destruct (pc_size m =? 0) eqn:Ez; [apply N.eqb_eq in Ez; lia|].
    eapply (Imk_reobj Ls Qs Ls Qs m _ o x (fun x => x <| o_hdr ::= set_mark NM |>)); try exact I;
      try exact Ex; try reflexivity.
    - cbn. rewrite Hsz, Hlen. lia.
    - exact (ik_uflow _ _ _ I).
    - cbn. apply NoDup_remove_id, (ik_nodup _ _ _ I).
    - exact (ik_lists _ _ _ I).
    - intros o' Hne. cbn. rewrite remove_id_spec. tauto.
    - cbn. rewrite remove_id_spec. split; [discriminate|tauto].
    - cbn. split; [discriminate|tauto].
    - cbn. split; [discriminate|tauto].
  Qed.

  Lemma tcz_remove_from_list o m : tcz m -> tcz (remove_from_list o m).
  Proof.
    intros Z. unfold remove_from_list. destruct (is_in_pc (hdr_of m o)); [|exact Z].
    destruct (pc_alive m); [|exact Z].
    apply (tcz_heap (uhdr o (set_mark NM) m)).
    - unfold dec_size. destruct (_ =? _); reflexivity.
    - apply tcz_upd; [exact Z|]. intros x _ Hm. discriminate Hm.
  Qed.
  Lemma mild_remove_from_list o m : mild m (remove_from_list o m).
  Proof.
    apply mild_intro; [apply frame_remove_from_list| |apply tcz_remove_from_list].
    intros Ls Qs. apply GI_from.
    - apply frame_remove_from_list.
    - intros I. right. apply Imk_remove_from_list, I.
  Qed.
  (** after [remove_from_list o] the object is not marked PC *)
  Lemma remove_from_list_notpc o m x :
    pc_alive m = true -> get (remove_from_list o m) o = Some x -> h_mark (o_hdr x) <> PC.
  Proof.
    intros Ha. unfold remove_from_list. destruct (is_in_pc (hdr_of m o)) eqn:Epc.
    - rewrite Ha. intros E Hm.
      assert (E' : get (uhdr o (set_mark NM) m) o = Some x).
      { unfold dec_size in E. destruct (_ =? _); exact E. }
      apply get_upd_Some in E' as (x0 & _ & ->). rewrite decide_True in Hm by reflexivity.
      discriminate Hm.
    - intros E. eapply is_in_pc_false; eassumption.
  Qed.


  Lemma frame_add_to_list o m : frame m (add_to_list o m).
  Proof.
    unfold add_to_list. destruct (is_in_pc (hdr_of m o)); [apply frame_refl|].
    destruct (pc_alive m); [|apply frame_refl].
    eapply frame_trans; [|apply frame_uhdr].
    match goal with |- frame m (set pc_size _ (set pc _ ?m1)) => assert (frame m m1) as F1 end.
    { destruct (_ && _); [apply frame_refl|apply frame_emit]. }
    eapply frame_trans; [exact F1|]. apply frame_same; try reflexivity. apply ext_log_eq. reflexivity.
  Qed.

  Lemma Imk_add_to_list Ls Qs o m x :
    get m o = Some x -> o_box x <> BNotYet ->
    Imk Ls Qs m -> GI Ls Qs (add_to_list o m).
  Proof.
    intros Ex Hbx I. unfold add_to_list.
    destruct (is_in_pc (hdr_of m o)) eqn:Epc; [right; exact I|].
    rewrite (ik_alive _ _ _ I).
    pose proof (is_in_pc_false _ _ _ Ex Epc) as HnPC.
    destruct (is_not_marked (hdr_of m o) && negb (is_dropped (hdr_of m o))) eqn:Ec.
    - right. apply andb_true_iff in Ec as [Enm _]. unfold is_not_marked in Enm.
      rewrite (hdr_of_get _ _ _ Ex) in Enm.
      assert (Hm : h_mark (o_hdr x) = NM) by (destruct (h_mark (o_hdr x)); congruence).
      pose proof (Imk_mark_cases _ _ _ _ _ I Ex) as Hc. rewrite Hm in Hc. destruct Hc as (Hin & HnL & HnQ).
      eapply (Imk_reobj Ls Qs Ls Qs m _ o x (fun x => x <| o_hdr ::= fun h => set_mark PC (reset_tc h) |>));
        try exact I; try exact Ex; try reflexivity.
      + cbn. rewrite (ik_size _ _ _ I). lia.
      + exact (ik_uflow _ _ _ I).
      + cbn. apply NoDup_cons. split; [exact Hin|exact (ik_nodup _ _ _ I)].
      + exact (ik_lists _ _ _ I).
      + intros o' Hne. cbn. rewrite elem_of_cons. tauto.
      + cbn. rewrite elem_of_cons. tauto.
      + cbn. split; [discriminate|tauto].
      + cbn. split; [discriminate|tauto].
      + cbn. intros Hb. congruence.
    - left. eapply dirty_ext; [|apply (dirty_emit_bad AssertFail o m); reflexivity].
      eapply ext_trans; [|apply fr_ext, frame_uhdr]. apply ext_log_eq. reflexivity.
  Qed.

  Lemma tcz_add_to_list o m : tcz m -> tcz (add_to_list o m).
  Proof.
    intros Z. unfold add_to_list. destruct (is_in_pc (hdr_of m o)); [exact Z|].
    destruct (pc_alive m); [|exact Z].
    apply tcz_upd; [|intros x _ _; reflexivity].
    eapply tcz_heap; [|exact Z]. destruct (_ && _); reflexivity.
  Qed.
  Lemma mild_add_to_list o m x :
    get m o = Some x -> o_box x <> BNotYet -> mild m (add_to_list o m).
  Proof.
    intros Ex Hbx. apply mild_intro; [apply frame_add_to_list| |apply tcz_add_to_list].
    intros Ls Qs. apply GI_from.
    - apply frame_add_to_list.
    - apply (Imk_add_to_list _ _ _ _ x); assumption.
  Qed.

  (** *** counters *)
  Lemma dec_rc_mark h h' : dec_rc h = Some h' -> h_mark h' = h_mark h.
  Proof. unfold dec_rc. destruct (h_rc h =? 0); [discriminate|]. intros [= <-]. reflexivity. Qed.
  Lemma inc_rc_mark h h' : inc_rc h = Some h' -> h_mark h' = h_mark h.
  Proof. unfold inc_rc. destruct (h_rc h =? max_rc); [discriminate|]. intros [= <-]. reflexivity. Qed.
  Lemma inc_tc_mark h h' : inc_tc h = Some h' -> h_mark h' = h_mark h.
  Proof. unfold inc_tc. destruct (h_tc h =? max_rc); [discriminate|]. intros [= <-]. reflexivity. Qed.

  Lemma inc_rc_default_mark h : h_mark (default h (inc_rc h)) = h_mark h.
  Proof. destruct (inc_rc h) as [h'|] eqn:E; [apply (inc_rc_mark _ _ E)|reflexivity]. Qed.

  Lemma dec_rc_tc h h' : dec_rc h = Some h' -> h_tc h' = h_tc h.
  Proof. unfold dec_rc. destruct (h_rc h =? 0); [discriminate|]. intros [= <-]. reflexivity. Qed.
  Lemma inc_rc_tc h h' : inc_rc h = Some h' -> h_tc h' = h_tc h.
  Proof. unfold inc_rc. destruct (h_rc h =? max_rc); [discriminate|]. intros [= <-]. reflexivity. Qed.
  Lemma inc_rc_default_tc h : h_tc (default h (inc_rc h)) = h_tc h.
  Proof. destruct (inc_rc h) as [h'|] eqn:E; [apply (inc_rc_tc _ _ E)|reflexivity]. Qed.

  Lemma mild_uhdr_const o h m :
    h_mark h = h_mark (hdr_of m o) -> h_tc h = h_tc (hdr_of m o) -> mild m (uhdr o (fun _ => h) m).
  Proof.
    intros Hm Ht. apply mild_uhdr_at; intros x E; rewrite ?Hm, ?Ht, (hdr_of_get _ _ _ E); reflexivity.
  Qed.

  Lemma mild_dec_rc_m o m : mild m (dec_rc_m o m).
  Proof.
    unfold dec_rc_m. destruct (dec_rc (hdr_of m o)) as [h|] eqn:E.
    - apply mild_uhdr_const; [apply (dec_rc_mark _ _ E)|apply (dec_rc_tc _ _ E)].
    - apply mild_emit_bad. discriminate.
  Qed.

  (** *** dealloc *)
  Lemma frame_dealloc o m : frame m (dealloc K o m).
  Proof.
    unfold dealloc. destruct (get m o) as [x|] eqn:Ex; [|apply frame_emit].
    destruct (box_layout K x) as [sz al].
    set (m1 := match o_box x with BAlloc => m | _ => emit_bad DoubleFree o m end).
    set (m2 := if st_alloc m1 <? sz then emit_bad Underflow o m1 else m1).
    assert (E1 : ext m m1) by (subst m1; destruct (o_box x); first [apply ext_refl|apply ext_emit]).
    assert (E2 : ext m1 m2) by (subst m2; destruct (_ <? _); first [apply ext_refl|apply ext_emit]).
    assert (Hh : heap m2 = heap m).
    { subst m2 m1. destruct (_ <? _); destruct (o_box x); reflexivity. }
    assert (Hc : st_collecting m2 = st_collecting m).
    { subst m2 m1. destruct (_ <? _); destruct (o_box x); reflexivity. }
    assert (He : st_exec m2 = st_exec m).
    { subst m2 m1. destruct (_ <? _); destruct (o_box x); reflexivity. }
    assert (Hd : o_box x = BNotYet -> dirty m2).
    { intros Hb. eapply dirty_ext; [exact E2|]. subst m1. rewrite Hb. apply dirty_emit_bad. reflexivity. }
    assert (E12 : ext m m2) by (eapply ext_trans; eassumption).
    clearbody m2.
    split.
    - eapply ext_trans; [|apply ext_emit]. destruct E12 as [l1 E12].
      exists l1. exact E12.
    - exact Hc.
    - cbn. rewrite He. apply N.le_refl.
    - intros _. exact He.
    - intros o' y Ey. cbn. unfold get, upd. cbn. rewrite Hh. fold (get m o').
      destruct (decide (o = o')) as [<-|Hne].
      + unfold get, id in *. rewrite list_lookup_alter, Ey. cbn. eexists. split; [reflexivity|]. cbn.
        split; [discriminate|]. intros Hb. right. apply dirty_emit. rewrite Ex in Ey. injection Ey as <-.
        exact (Hd Hb).
      + unfold get, id in *. rewrite list_lookup_alter_ne by exact Hne. exists y. auto.
  Qed.

  Lemma Imk_dealloc Ls Qs o m : Imk Ls Qs m -> GI Ls Qs (dealloc K o m).
  Proof.
    intros I. unfold dealloc. destruct (get m o) as [x|] eqn:Ex.
    2:{ right. apply Imk_emit; [reflexivity|exact I]. }
    destruct (box_layout K x) as [sz al] eqn:El.
    destruct (o_box x) eqn:Eb.
    - left. unfold dirty. destruct (_ <? _); cbn; rewrite ?orb_true_r; reflexivity.
    - right.
      assert (Hsz : osize x = sz) by (unfold osize; rewrite Eb, El; reflexivity).
      pose proof (bytes_of_ge (heap m) o x Ex) as Hge. fold (bytes m) in Hge.
      rewrite <- (ik_bytes _ _ _ I), Hsz in Hge.
      destruct (st_alloc m <? sz) eqn:Elt; [apply N.ltb_lt in Elt; lia|].
      pose proof (Imk_mark_cases _ _ _ _ _ I Ex) as Hc.
      eapply (Imk_reobj' Ls Qs Ls Qs m _ o x (fun x => x <| o_box := BFreed |>));
        try exact I; try exact Ex; try reflexivity.
      + exact (ik_size _ _ _ I).
      + cbn. rewrite Hsz. unfold osize. cbn. lia.
      + unfold uflow. cbn. exact (ik_uflow _ _ _ I).
      + exact (ik_nodup _ _ _ I).
      + exact (ik_lists _ _ _ I).
      + intros o' _. tauto.
      + cbn. apply (ik_pc _ _ _ I o x Ex).
      + cbn. split; [apply (ik_il _ _ _ I o x Ex)|intros _; right; reflexivity].
      + cbn. apply (ik_iq _ _ _ I o x Ex).
      + cbn. discriminate.
    - left. unfold dirty. destruct (_ <? _); cbn; rewrite ?orb_true_r; reflexivity.
  Qed.

  Lemma mild_dealloc o m : mild m (dealloc K o m).
  Proof.
    apply mild_intro; [apply frame_dealloc| |].
    - intros Ls Qs. apply GI_from; [apply frame_dealloc|]. apply Imk_dealloc.
    - intros Z. unfold dealloc. destruct (get m o) as [x|] eqn:Ex; [|exact Z].
      destruct (box_layout K x) as [sz al].
      match goal with |- tcz (emit _ (upd o ?f ?m1)) =>
        apply (tcz_heap (upd o f m1)); [reflexivity|]; apply tcz_upd;
        [apply (tcz_heap m); [destruct (o_box x); destruct (_ <? _); reflexivity|exact Z]|]
      end.
      intros y Ey Hm.
      assert (Ey' : get m o = Some y) by (destruct (o_box x); destruct (_ <? _); exact Ey).
      exact (Z _ _ Ey' Hm).
  Qed.

  (** *** box_alloc: only ever applied to the object created just before *)
  Lemma box_alloc_ext o m : ext m (box_alloc K o m).
  Proof.
    unfold box_alloc. destruct (get m o) as [x|]; [|apply ext_emit].
    destruct (box_layout K x). eapply ext_trans; [|apply ext_emit]. apply ext_log_eq. reflexivity.
  Qed.
  Lemma box_alloc_coll o m : st_collecting (box_alloc K o m) = st_collecting m.
  Proof. unfold box_alloc. destruct (get m o) as [x|]; [|reflexivity]. destruct (box_layout K x). reflexivity. Qed.
  Lemma box_alloc_exec o m : st_exec (box_alloc K o m) = st_exec m.
  Proof. unfold box_alloc. destruct (get m o) as [x|]; [|reflexivity]. destruct (box_layout K x). reflexivity. Qed.
  Lemma box_alloc_get_ne o m o' : o <> o' -> get (box_alloc K o m) o' = get m o'.
  Proof.
    intros Hne. unfold box_alloc. destruct (get m o) as [x|]; [|reflexivity]. destruct (box_layout K x).
    unfold get, id. cbn. apply list_lookup_alter_ne, Hne.
  Qed.

  Lemma frame_box_alloc m m1 o :
    frame m m1 -> (length (heap m) <= o)%nat -> frame m (box_alloc K o m1).
  Proof.
    intros [F1 F2 F3 F4 F5] Hlen. split.
    - eapply ext_trans; [exact F1|apply box_alloc_ext].
    - rewrite box_alloc_coll. exact F2.
    - rewrite box_alloc_exec. exact F3.
    - rewrite box_alloc_exec. exact F4.
    - intros o' x E. pose proof (get_lt _ _ _ E) as Hlt.
      destruct (F5 o' x E) as (x' & E' & N1 & N2). exists x'.
      rewrite box_alloc_get_ne by lia. split; [exact E'|]. split; [exact N1|].
      intros Hb. destruct (N2 Hb) as [?|D]; [auto|]. right.
      eapply dirty_ext; [apply box_alloc_ext|exact D].
  Qed.

  Lemma GI_box_alloc Ls Qs o m :
    (forall x, get m o = Some x -> o_box x = BNotYet \/ dirty m) ->
    GI Ls Qs m -> GI Ls Qs (box_alloc K o m).
  Proof.
    intros Hbx [D|I]; [left; eapply dirty_ext; [apply box_alloc_ext|exact D]|].
    unfold box_alloc. destruct (get m o) as [x|] eqn:Ex.
    2:{ right. apply Imk_emit; [reflexivity|exact I]. }
    destruct (Hbx x eq_refl) as [Eb|D].
    2:{ left. destruct (box_layout K x). apply dirty_emit. exact D. }
    destruct (box_layout K x) as [sz al] eqn:El. right.
    pose proof (ik_box _ _ _ I o x Ex Eb) as Hm.
    pose proof (Imk_mark_cases _ _ _ _ _ I Ex) as Hc. rewrite Hm in Hc. destruct Hc as (Hin & HnL & HnQ).
    eapply (Imk_reobj Ls Qs Ls Qs m _ o x
              (fun x => x <| o_box := BAlloc |> <| o_hdr := hdr_new (k_fin K && st_finalizing m) |>));
      try exact I; try exact Ex; try reflexivity.
    - exact (ik_size _ _ _ I).
    - cbn. unfold osize. rewrite Eb. cbn. unfold box_layout in *. cbn. rewrite El. cbn. lia.
    - unfold uflow. cbn. exact (ik_uflow _ _ _ I).
    - exact (ik_nodup _ _ _ I).
    - exact (ik_lists _ _ _ I).
    - intros o' _. tauto.
    - cbn. split; [discriminate|tauto].
    - cbn. split; [discriminate|tauto].
    - cbn. split; [discriminate|tauto].
  Qed.

  (** *** a new heap object *)
  Lemma mild_push y m :
    h_mark (o_hdr y) = NM -> o_box y = BNotYet -> mild m (m <| heap ::= fun h => h ++ [y] |>).
  Proof.
    intros Hm Hb.
    assert (Hold : forall o x, get m o = Some x -> get (m <| heap ::= fun h => h ++ [y] |>) o = Some x).
    { intros o x E. unfold get, id in *. cbn. rewrite lookup_app_l; [exact E|]. eapply lookup_lt_Some, E. }
    assert (Hnew : forall o z, get (m <| heap ::= fun h => h ++ [y] |>) o = Some z ->
                     get m o = Some z \/ (get m o = None /\ z = y)).
    { intros o z E. unfold get, id in *. cbn in E. destruct (heap m !! o) as [x|] eqn:Eo.
      - rewrite lookup_app_l in E by (eapply lookup_lt_Some, Eo). left. congruence.
      - right. split; [reflexivity|]. apply lookup_ge_None_1 in Eo.
        rewrite lookup_app_r in E by exact Eo. destruct (o - length (heap m))%nat; cbn in E; [congruence|discriminate]. }
    apply mild_intro.
    - split; [apply ext_log_eq; reflexivity|reflexivity|apply N.le_refl|reflexivity|].
      intros o x E. exists x. auto.
    - intros Ls Qs [D|I]; [left; exact D|right].
      destruct I as [H1 H2 H3 H4 H5 H6 H7 H8 H9 H10 H11].
      assert (Hnot : forall o, get m o = None -> o ∉ pc m /\ o ∉ Ls /\ o ∉ Qs).
      { intros o En. repeat split; intros Hin; destruct (H4 o) as [x Ex]; try congruence;
          rewrite !elem_of_app; auto. }
      split; try assumption.
      + intros o Ho. destruct (H4 o Ho) as [x Ex]. exists x. auto.
      + intros o z E. destruct (Hnew o z E) as [E'|[En ->]]; [eauto|].
        destruct (Hnot o En) as (? & ? & ?). rewrite Hm. split; [discriminate|tauto].
      + intros o z E. destruct (Hnew o z E) as [E'|[En ->]]; [eauto|].
        destruct (Hnot o En) as (? & ? & ?). rewrite Hm. split; [tauto|discriminate].
      + intros o z E. destruct (Hnew o z E) as [E'|[En ->]]; [eauto|].
        destruct (Hnot o En) as (? & ? & ?). rewrite Hm. split; [discriminate|tauto].
      + intros o z E. destruct (Hnew o z E) as [E'|[En ->]]; [eauto|]. auto.
      + unfold bytes in *. cbn. rewrite bytes_of_app, H9. rewrite bytes_of_cons.
        unfold osize at 1. rewrite Hb. change (bytes_of []) with 0. lia.
    - intros Z o z E Hz. destruct (Hnew o z E) as [E'|[_ ->]]; [eauto|congruence].
  Qed.

  Lemma mild_new_node P cls m : mild m (new_node P cls m).1.
  Proof. unfold new_node. cbn [fst]. apply mild_push; reflexivity. Qed.
  Lemma mild_new_map m : mild m (new_map m).1.
  Proof. unfold new_map. cbn [fst]. apply mild_push; reflexivity. Qed.
  Lemma new_node_id P cls m : (new_node P cls m).2 = length (heap m).
  Proof. reflexivity. Qed.
  Lemma new_map_id m : (new_map m).2 = length (heap m).
  Proof. reflexivity. Qed.
  Lemma new_node_get P cls m :
    exists y, get (new_node P cls m).1 (length (heap m)) = Some y /\ o_box y = BNotYet.
  Proof.
    unfold new_node, get. cbn. eexists. rewrite lookup_app_r by lia.
    rewrite Nat.sub_diag. cbn. split; reflexivity.
  Qed.
  Lemma new_map_get m :
    exists y, get (new_map m).1 (length (heap m)) = Some y /\ o_box y = BNotYet.
  Proof.
    unfold new_map, get. cbn. eexists. rewrite lookup_app_r by lia.
    rewrite Nat.sub_diag. cbn. split; reflexivity.
  Qed.

End Buf.

(** ** Automation: [mild m E] by peeling the helpers off [E] from the outside *)
Create HintDb mild discriminated.

Ltac brk :=
  repeat match goal with
         | |- context [match ?x with _ => _ end] =>
           lazymatch x with
           | context [match _ with _ => _ end] => fail
           | _ => destruct x eqn:?
           end
         end.


(** setters of fields the invariant does not read *)
Section Setters.
  Context (K : conf).
  Lemma mild_set_st_finalizing g m : mild K m (set st_finalizing g m).
  Proof. apply mild_core. repeat split; reflexivity. Qed.
  Lemma mild_set_st_dropping g m : mild K m (set st_dropping g m).
  Proof. apply mild_core. repeat split; reflexivity. Qed.
  Lemma mild_set_cf_thr g m : mild K m (set cf_thr g m).
  Proof. apply mild_core. repeat split; reflexivity. Qed.
  Lemma mild_set_cf_pnum g m : mild K m (set cf_pnum g m).
  Proof. apply mild_core. repeat split; reflexivity. Qed.
  Lemma mild_set_cf_pexp g m : mild K m (set cf_pexp g m).
  Proof. apply mild_core. repeat split; reflexivity. Qed.
  Lemma mild_set_cf_buf g m : mild K m (set cf_buf g m).
  Proof. apply mild_core. repeat split; reflexivity. Qed.
  Lemma mild_set_cf_auto g m : mild K m (set cf_auto g m).
  Proof. apply mild_core. repeat split; reflexivity. Qed.
  Lemma mild_set_slots g m : mild K m (set slots g m).
  Proof. apply mild_core. repeat split; reflexivity. Qed.
  Lemma mild_set_wslots g m : mild K m (set wslots g m).
  Proof. apply mild_core. repeat split; reflexivity. Qed.
  Lemma mild_set_cslots g m : mild K m (set cslots g m).
  Proof. apply mild_core. repeat split; reflexivity. Qed.
  Lemma mild_set_values g m : mild K m (set values g m).
  Proof. apply mild_core. repeat split; reflexivity. Qed.
  Lemma mild_set_bag g m : mild K m (set bag g m).
  Proof. apply mild_core. repeat split; reflexivity. Qed.
  Lemma mild_set_wparam g m : mild K m (set wparam g m).
  Proof. apply mild_core. repeat split; reflexivity. Qed.
  Lemma mild_set_fuse_trace g m : mild K m (set fuse_trace g m).
  Proof. apply mild_core. repeat split; reflexivity. Qed.
  Lemma mild_set_fuse_fin g m : mild K m (set fuse_fin g m).
  Proof. apply mild_core. repeat split; reflexivity. Qed.
  Lemma mild_set_fuse_drop g m : mild K m (set fuse_drop g m).
  Proof. apply mild_core. repeat split; reflexivity. Qed.
  Lemma mild_set_fuse_action g m : mild K m (set fuse_action g m).
  Proof. apply mild_core. repeat split; reflexivity. Qed.
  Lemma mild_set_fuse_closure g m : mild K m (set fuse_closure g m).
  Proof. apply mild_core. repeat split; reflexivity. Qed.
  Lemma mild_set_panicking g m : mild K m (set panicking g m).
  Proof. apply mild_core. repeat split; reflexivity. Qed.
  Lemma mild_set_next_aid g m : mild K m (set next_aid g m).
  Proof. apply mild_core. repeat split; reflexivity. Qed.
  Lemma mild_set_dead g m : mild K m (set dead g m).
  Proof. apply mild_core. repeat split; reflexivity. Qed.
End Setters.
Create HintDb mildset discriminated.
#[export] Hint Resolve mild_set_st_finalizing mild_set_st_dropping mild_set_cf_thr mild_set_cf_pnum mild_set_cf_pexp mild_set_cf_buf mild_set_cf_auto mild_set_slots mild_set_wslots mild_set_cslots mild_set_values mild_set_bag mild_set_wparam mild_set_fuse_trace mild_set_fuse_fin mild_set_fuse_drop mild_set_fuse_action mild_set_fuse_closure mild_set_panicking mild_set_next_aid mild_set_dead : mildset.
Ltac mild_core_tac := solve [auto 1 with mildset nocore].

#[export] Hint Resolve mild_refl : mild.
#[export] Hint Extern 2 (mild ?K _ (set _ _ ?X)) =>
  (apply (mild_trans K _ X); [|mild_core_tac]) : mild.
#[export] Hint Extern 1 (mild _ _ (emit _ _)) =>
  (eapply mild_trans; [|apply mild_emit; reflexivity]) : mild.
#[export] Hint Extern 1 (mild _ _ (emit_bad _ _ _)) =>
  (eapply mild_trans; [|apply mild_emit_bad; discriminate]) : mild.
#[export] Hint Extern 1 (mild _ _ (remove_from_list _ _)) =>
  (eapply mild_trans; [|apply mild_remove_from_list]) : mild.
#[export] Hint Extern 1 (mild _ _ (dec_rc_m _ _)) =>
  (eapply mild_trans; [|apply mild_dec_rc_m]) : mild.
#[export] Hint Extern 1 (mild _ _ (dealloc _ _ _)) =>
  (eapply mild_trans; [|apply mild_dealloc]) : mild.
#[export] Hint Extern 1 (mild _ _ (fst (new_node _ _ _))) =>
  (eapply mild_trans; [|apply mild_new_node]) : mild.
#[export] Hint Extern 1 (mild _ _ (fst (new_map _))) =>
  (eapply mild_trans; [|apply mild_new_map]) : mild.
(** updates of non-header, non-box object fields, and of header fields other than the mark *)
#[export] Hint Extern 3 (mild _ _ (upd _ _ _)) =>
  (eapply mild_trans;
   [|solve [apply mild_upd; [intros ?; repeat split; reflexivity|intros ? Htc; exact Htc]]]) : mild.
#[export] Hint Extern 3 (mild _ _ (uhdr _ _ _)) =>
  (eapply mild_trans;
   [|solve [apply mild_uhdr;
            [intros ?; first [reflexivity|apply inc_rc_default_mark]
            |intros ? Htc; first [exact Htc|reflexivity|rewrite inc_rc_default_tc; exact Htc]]]]) : mild.

Ltac mild_solve := solve [eauto 40 with mild].

Section Helpers.
  Context (K : conf) (P : prog).
  Implicit Types (m : machine).
  Notation mild := (mild K).

  Lemma mild_sfree o m : mild m (sfree o m).
  Proof. unfold sfree. brk; mild_solve. Qed.
  Lemma mild_uside o f m : mild m (uside o f m).
  Proof. unfold uside. mild_solve. Qed.
  Hint Extern 1 (mild _ (sfree _ _)) => (eapply mild_trans; [|apply mild_sfree]) : mild.
  Hint Extern 1 (mild _ (uside _ _ _)) => (eapply mild_trans; [|apply mild_uside]) : mild.
  Lemma mild_drop_metadata o m : mild m (drop_metadata K o m).
  Proof. unfold drop_metadata. brk; mild_solve. Qed.
  Lemma mild_init_side o m : mild m (init_side o m).
  Proof.
    unfold init_side. brk; mild_solve.
  Qed.
  Lemma mild_weak_strong_count w m : mild m (weak_strong_count w m).1.
  Proof. unfold weak_strong_count. brk; cbn [fst]; mild_solve. Qed.
  Lemma mild_weak_weak_count w m : mild m (weak_weak_count w m).1.
  Proof. unfold weak_weak_count. brk; cbn [fst]; mild_solve. Qed.
  Lemma mild_weak_clone w m m' : weak_clone w m = Some m' -> mild m m'.
  Proof. unfold weak_clone. brk; intros [= <-]; mild_solve. Qed.
  Lemma mild_weak_drop w m : mild m (weak_drop w m).
  Proof. unfold weak_drop. brk; mild_solve. Qed.
  Hint Extern 1 (mild _ (weak_drop _ _)) => (eapply mild_trans; [|apply mild_weak_drop]) : mild.
  Lemma mild_weak_drop_opt w m : mild m (weak_drop_opt w m).
  Proof. unfold weak_drop_opt. brk; mild_solve. Qed.

  Lemma mild_node_via_slot i m : mild m (node_via_slot i m).1.
  Proof. unfold node_via_slot. brk; cbn [fst]; mild_solve. Qed.
  Lemma mild_resolve self l m : mild m (resolve self l m).1.
  Proof.
    unfold resolve. destruct l as [i|j|i j]; cbn [fst]; try apply mild_refl.
    - brk; cbn [fst]; apply mild_refl.
    - pose proof (mild_node_via_slot i m) as H.
      destruct (node_via_slot i m) as [m1 n]. cbn [fst] in H. brk; cbn [fst]; exact H.
  Qed.
  Lemma mild_wresolve self l m : mild m (wresolve self l m).1.
  Proof.
    unfold wresolve. destruct l as [i|j|i j|]; cbn [fst]; try apply mild_refl.
    - brk; cbn [fst]; apply mild_refl.
    - pose proof (mild_node_via_slot i m) as H.
      destruct (node_via_slot i m) as [m1 n]. cbn [fst] in H. brk; cbn [fst]; exact H.
  Qed.
  Lemma mild_nresolve self n m : mild m (nresolve self n m).1.
  Proof.
    unfold nresolve. destruct n; cbn [fst]; [apply mild_refl|apply mild_node_via_slot].
  Qed.
  Lemma mild_write_loc r v m : mild m (write_loc r v m).
  Proof. unfold write_loc. brk; mild_solve. Qed.
  Lemma mild_write_wloc r v m : mild m (write_wloc r v m).
  Proof. unfold write_wloc. brk; mild_solve. Qed.
  Lemma mild_set_fuse k n m : mild m (set_fuse k n m).
  Proof. unfold set_fuse. brk; mild_solve. Qed.
  Hint Extern 1 (mild _ (set_fuse _ _ _)) => (eapply mild_trans; [|apply mild_set_fuse]) : mild.
  Lemma mild_tick k m : mild m (tick k m).1.
  Proof. unfold tick. brk; cbn [fst]; mild_solve. Qed.
  Lemma mild_adjust_trigger_point m : mild m (adjust_trigger_point K m).
  Proof. unfold adjust_trigger_point, adjust. brk; mild_solve. Qed.
  Lemma mild_map_insert mo a sc m : mild m (map_insert mo a sc m).1.
  Proof. unfold map_insert. brk; cbn [fst]; mild_solve. Qed.
  Lemma mild_ok m r : mild m (ok m r).1.
  Proof. unfold ok. cbn [fst]. mild_solve. Qed.
  Lemma mild_traced_children m o : mild m (traced_children P m o).1.
  Proof. unfold traced_children. brk; cbn [fst]; mild_solve. Qed.
  Lemma mild_trace_event o m : mild m (trace_event K o m).1.
  Proof.
    unfold trace_event. destruct (is_map m o); cbn [fst]; [apply mild_refl|].
    eapply mild_trans; [|apply mild_tick]. mild_solve.
  Qed.

  Lemma mild_fold {B} (f : machine -> B -> machine) :
    (forall m a, mild m (f m a)) -> forall l m, mild m (fold_left f l m).
  Proof.
    intros Hf l. induction l as [|a l IH]; cbn; intros m; [apply mild_refl|].
    eapply mild_trans; [apply Hf|apply IH].
  Qed.
  Lemma mild_reset_buffered m : mild m (reset_buffered m).
  Proof. unfold reset_buffered. apply mild_fold. intros; mild_solve. Qed.
  Lemma mild_fold_weak_drop l m : mild m (fold_left (fun m w => weak_drop_opt w m) l m).
  Proof. apply mild_fold. intros. apply mild_weak_drop_opt. Qed.
End Helpers.

#[export] Hint Extern 1 (mild _ _ (sfree _ _)) => (eapply mild_trans; [|apply mild_sfree]) : mild.
#[export] Hint Extern 1 (mild _ _ (uside _ _ _)) => (eapply mild_trans; [|apply mild_uside]) : mild.
#[export] Hint Extern 1 (mild _ _ (drop_metadata _ _ _)) => (eapply mild_trans; [|apply mild_drop_metadata]) : mild.
#[export] Hint Extern 1 (mild _ _ (init_side _ _)) => (eapply mild_trans; [|apply mild_init_side]) : mild.
#[export] Hint Extern 1 (mild _ _ (fst (weak_strong_count _ _))) => (eapply mild_trans; [|apply mild_weak_strong_count]) : mild.
#[export] Hint Extern 1 (mild _ _ (fst (weak_weak_count _ _))) => (eapply mild_trans; [|apply mild_weak_weak_count]) : mild.
#[export] Hint Extern 1 (mild _ _ (weak_drop _ _)) => (eapply mild_trans; [|apply mild_weak_drop]) : mild.
#[export] Hint Extern 1 (mild _ _ (weak_drop_opt _ _)) => (eapply mild_trans; [|apply mild_weak_drop_opt]) : mild.
#[export] Hint Extern 1 (mild _ _ (fst (node_via_slot _ _))) => (eapply mild_trans; [|apply mild_node_via_slot]) : mild.
#[export] Hint Extern 1 (mild _ _ (fst (resolve _ _ _))) => (eapply mild_trans; [|apply mild_resolve]) : mild.
#[export] Hint Extern 1 (mild _ _ (fst (wresolve _ _ _))) => (eapply mild_trans; [|apply mild_wresolve]) : mild.
#[export] Hint Extern 1 (mild _ _ (fst (nresolve _ _ _))) => (eapply mild_trans; [|apply mild_nresolve]) : mild.
#[export] Hint Extern 1 (mild _ _ (write_loc _ _ _)) => (eapply mild_trans; [|apply mild_write_loc]) : mild.
#[export] Hint Extern 1 (mild _ _ (write_wloc _ _ _)) => (eapply mild_trans; [|apply mild_write_wloc]) : mild.
#[export] Hint Extern 1 (mild _ _ (set_fuse _ _ _)) => (eapply mild_trans; [|apply mild_set_fuse]) : mild.
#[export] Hint Extern 1 (mild _ _ (fst (tick _ _))) => (eapply mild_trans; [|apply mild_tick]) : mild.
#[export] Hint Extern 1 (mild _ _ (adjust_trigger_point _ _)) => (eapply mild_trans; [|apply mild_adjust_trigger_point]) : mild.
#[export] Hint Extern 1 (mild _ _ (fst (map_insert _ _ _ _))) => (eapply mild_trans; [|apply mild_map_insert]) : mild.
#[export] Hint Extern 1 (mild _ _ (fst (ok _ _))) => (eapply mild_trans; [|apply mild_ok]) : mild.
#[export] Hint Extern 1 (mild _ _ (fst (traced_children _ _ _))) => (eapply mild_trans; [|apply mild_traced_children]) : mild.
#[export] Hint Extern 1 (mild _ _ (fst (trace_event _ _ _))) => (eapply mild_trans; [|apply mild_trace_event]) : mild.
#[export] Hint Extern 1 (mild _ _ (reset_buffered _)) => (eapply mild_trans; [|apply mild_reset_buffered]) : mild.
#[export] Hint Extern 1 (mild _ _ (fold_left (fun m w => weak_drop_opt w m) _ _)) => (eapply mild_trans; [|apply mild_fold_weak_drop]) : mild.

(** ** Bulk re-marking: the guards that unlink whole lists *)
Section Bulk.
  Context (K : conf).
  Notation Imk := (Imk K).

  Lemma frame_fold {B} (f : machine -> B -> machine) :
    (forall m a, frame m (f m a)) -> forall l m, frame m (fold_left f l m).
  Proof.
    intros Hf l. induction l as [|a l IH]; cbn; intros m; [apply frame_refl|].
    eapply frame_trans; [apply Hf|apply IH].
  Qed.
  Lemma frame_fold_uhdr f L m : frame m (fold_left (fun m g => uhdr g f m) L m).
  Proof. apply frame_fold. intros. apply frame_uhdr. Qed.
  Lemma frame_unmark_all L m : frame m (unmark_all L m).
  Proof. apply frame_fold_uhdr. Qed.

  Lemma fold_uhdr_proj f L m :
    let m' := fold_left (fun m g => uhdr g f m) L m in
    pc m' = pc m /\ pc_size m' = pc_size m /\ pc_alive m' = pc_alive m /\
    st_alloc m' = st_alloc m /\ log m' = log m /\ st_collecting m' = st_collecting m.
  Proof.
    revert m. induction L as [|a L IH]; intros m; cbn; [repeat split|].
    destruct (IH (uhdr a f m)) as (A1 & A2 & A3 & A4 & A5 & A6). repeat split; assumption.
  Qed.

  Lemma get_fold_uhdr f L m o :
    (forall h, f (f h) = f h) ->
    get (fold_left (fun m g => uhdr g f m) L m) o =
    if decide (o ∈ L) then (fun x => x <| o_hdr ::= f |>) <$> get m o else get m o.
  Proof.
    intros Hf. revert m. induction L as [|a L IH]; intros m; cbn.
    - rewrite decide_False by (apply not_elem_of_nil). reflexivity.
    - rewrite IH, get_uhdr.
      destruct (decide (o ∈ L)) as [HL|HL], (decide (a = o)) as [->|Hne].
      + rewrite decide_True by (apply elem_of_cons; auto).
        destruct (get m o) as [x|]; [|reflexivity]. cbn. f_equal. destruct x. unfold set. cbn. rewrite Hf. reflexivity.
      + rewrite decide_True by (apply elem_of_cons; auto). reflexivity.
      + rewrite decide_True by (apply elem_of_cons; auto). reflexivity.
      + rewrite decide_False; [reflexivity|]. rewrite elem_of_cons. intros [?|?]; congruence.
  Qed.

  Lemma bytes_fold_uhdr f L m : bytes K (fold_left (fun m g => uhdr g f m) L m) = bytes K m.
  Proof.
    revert m. induction L as [|a L IH]; intros m; cbn; [reflexivity|]. rewrite IH.
    unfold bytes, uhdr, upd. cbn. apply bytes_of_alter_same. intros x. reflexivity.
  Qed.

  Lemma Imk_bulk Ls Qs Ls' Qs' m m' f L :
    Imk Ls Qs m -> (forall h, f (f h) = f h) ->
    heap m' = heap (fold_left (fun m g => uhdr g f m) L m) ->
    pc_size m' = N.of_nat (length (pc m')) -> pc_alive m' = pc_alive m ->
    st_alloc m' = st_alloc m -> uflow m' = false ->
    NoDup (pc m') -> NoDup (Ls' ++ Qs') ->
    (forall o, o ∈ pc m' ++ Ls' ++ Qs' -> o ∈ pc m ++ Ls ++ Qs) ->
    (forall o x, get m o = Some x ->
       let mk := if decide (o ∈ L) then h_mark (f (o_hdr x)) else h_mark (o_hdr x) in
       (mk = PC <-> o ∈ pc m') /\
       ((o ∈ Ls' -> mk = IL) /\ (mk = IL -> o ∈ Ls' \/ o_box x = BFreed)) /\
       (mk = IQ <-> o ∈ Qs') /\
       (o_box x = BNotYet -> mk = NM)) ->
    Imk Ls' Qs' m'.
  Proof.
    intros I Hf Eh Es Ea Eb Eu Hnd Hnd' Hval Hmk.
    assert (Hg : forall o y, get m' o = Some y -> exists x, get m o = Some x /\ o_box y = o_box x /\
               h_mark (o_hdr y) = if decide (o ∈ L) then h_mark (f (o_hdr x)) else h_mark (o_hdr x)).
    { intros o y E. unfold get in E. rewrite Eh in E. fold (get (fold_left (fun m g => uhdr g f m) L m) o) in E.
      rewrite get_fold_uhdr in E by exact Hf. destruct (decide (o ∈ L)).
      - destruct (get m o) as [x|]; [|discriminate]. cbn in E. injection E as <-. exists x. auto.
      - exists y. auto. }
    split; try assumption.
    - intros o Ho. destruct (ik_valid _ _ _ _ I o (Hval o Ho)) as [x Ex].
      unfold get. rewrite Eh. fold (get (fold_left (fun m g => uhdr g f m) L m) o).
      rewrite get_fold_uhdr, Ex by exact Hf. destruct (decide (o ∈ L)); cbn; eauto.
    - intros o y E. destruct (Hg o y E) as (x & Ex & _ & ->). apply (Hmk o x Ex).
    - intros o y E. destruct (Hg o y E) as (x & Ex & -> & ->). apply (Hmk o x Ex).
    - intros o y E. destruct (Hg o y E) as (x & Ex & _ & ->). apply (Hmk o x Ex).
    - intros o y E. destruct (Hg o y E) as (x & Ex & -> & ->). apply (Hmk o x Ex).
    - rewrite Eb, (ik_bytes _ _ _ _ I). unfold bytes at 2. rewrite Eh.
      symmetry. apply bytes_fold_uhdr.
    - rewrite Ea. exact (ik_alive _ _ _ _ I).
  Qed.

  (** dropping the collector lists: every linked object is un-marked *)
  Lemma Imk_unlink_all Ls Qs m f L :
    Imk Ls Qs m -> (forall h, f (f h) = f h) -> (forall h, h_mark (f h) = NM) ->
    (forall o, o ∈ L <-> o ∈ Ls ++ Qs) ->
    Imk [] [] (fold_left (fun m g => uhdr g f m) L m).
  Proof.
    intros I Hf Hnm HL.
    destruct (fold_uhdr_proj f L m) as (A1 & A2 & A3 & A4 & A5 & A6).
    eapply (Imk_bulk Ls Qs [] [] m _ f L I Hf); try reflexivity.
    - rewrite A2, A1. exact (ik_size _ _ _ _ I).
    - exact A3.
    - exact A4.
    - unfold uflow. rewrite A5. exact (ik_uflow _ _ _ _ I).
    - rewrite A1. exact (ik_nodup _ _ _ _ I).
    - constructor.
    - intros o. rewrite A1, !elem_of_app. intros [?|[H|H]]; [auto|inversion H|inversion H].
    - intros o x Ex. cbn zeta. rewrite A1.
      pose proof (Imk_mark_cases _ _ _ _ _ _ I Ex) as Hc. rewrite Hnm.
      destruct (decide (o ∈ L)) as [Hin|Hin].
      + apply HL, elem_of_app in Hin.
        repeat split; try discriminate; try (intros H; inversion H; fail).
        intros Hpc. exfalso. destruct (h_mark (o_hdr x)); tauto.
      + rewrite HL, elem_of_app in Hin.
        repeat split; try (intros H; inversion H; fail).
        * intros Hm. rewrite Hm in Hc. tauto.
        * intros Hp. destruct (h_mark (o_hdr x)); tauto.
        * intros Hm. rewrite Hm in Hc. tauto.
        * intros Hm. rewrite Hm in Hc. tauto.
        * apply (ik_box _ _ _ _ I o x Ex).
  Qed.

  Lemma Imk_unmark_all Ls Qs m L :
    Imk Ls Qs m -> (forall o, o ∈ L <-> o ∈ Ls ++ Qs) -> Imk [] [] (unmark_all L m).
  Proof. intros I HL. apply (Imk_unlink_all Ls Qs); auto. Qed.

  (** swap_list + mark_self_and_append: the finalized list goes back to the buffer *)
  Lemma Imk_rebuffer L m :
    Imk L [] m ->
    Imk [] [] (fold_left (fun m g => uhdr g (fun h => set_mark PC (reset_tc h)) m) L m
                 <| pc ::= fun old => L ++ old |> <| pc_size ::= fun s => N.of_nat (length L) + s |>).
  Proof.
    intros I. set (f := fun h => set_mark PC (reset_tc h)).
    destruct (fold_uhdr_proj f L m) as (A1 & A2 & A3 & A4 & A5 & A6).
    assert (HndL : NoDup L).
    { pose proof (ik_lists _ _ _ _ I) as H. rewrite app_nil_r in H. exact H. }
    assert (Hdisj : forall o, o ∈ L -> o ∉ pc m).
    { intros o Ho Hp. destruct (ik_valid _ _ _ _ I o) as [x Ex]; [rewrite !elem_of_app; auto|].
      pose proof (Imk_mark_cases _ _ _ _ _ _ I Ex) as Hc. destruct (h_mark (o_hdr x)); tauto. }
    eapply (Imk_bulk L [] [] [] m _ f L I); try reflexivity.
    - cbn. rewrite A2, A1, app_length, (ik_size _ _ _ _ I). lia.
    - exact A3.
    - exact A4.
    - unfold uflow. cbn. rewrite A5. exact (ik_uflow _ _ _ _ I).
    - cbn. rewrite A1. apply NoDup_app. split; [exact HndL|]. split; [exact Hdisj|exact (ik_nodup _ _ _ _ I)].
    - constructor.
    - intros o. cbn. rewrite A1, !elem_of_app. tauto.
    - intros o x Ex. cbn zeta. cbn [pc set]. rewrite A1, elem_of_app.
      pose proof (Imk_mark_cases _ _ _ _ _ _ I Ex) as Hc.
      destruct (decide (o ∈ L)) as [Hin|Hin]; cbn.
      + repeat split; try discriminate; try (intros H; inversion H; fail); auto.
        intros Hb. pose proof (ik_box _ _ _ _ I o x Ex Hb) as Hm. rewrite Hm in Hc. tauto.
      + repeat split; try (intros H; inversion H; fail).
        * intros Hm. rewrite Hm in Hc. tauto.
        * intros [?|Hp]; [tauto|]. destruct (h_mark (o_hdr x)); tauto.
        * intros Hm. rewrite Hm in Hc. tauto.
        * intros Hm. rewrite Hm in Hc. destruct Hc as (_ & _ & Hq). inversion Hq.
        * apply (ik_box _ _ _ _ I o x Ex).
  Qed.
End Bulk.
