(** * SafeGlue: [weak_drop] commutes with updates of the Weak fields; the Weak part of the drop glue. *)
From Coq Require Import NArith Bool List Lia.
From stdpp Require Import base list option.
From RecordUpdate Require Import RecordSet.
From RC Require Import Hdr Machine RunInd Inv InvP SafeHelpers SafePrims SafeCalls.
Import ListNotations RecordSetNotations.
Local Open Scope N_scope.

(** ** [weak_drop] commutes with an update of the Weak fields (used for the drop glue, which
    drops all Weak fields and then clears them) *)
Section Comm.
  Implicit Types (m : machine) (o : id).
  Variable F : obj -> obj.
  Hypothesis F_side : forall y, o_side (F y) = o_side y.
  Hypothesis F_comm : forall y g, F (y <| o_side ::= g |>) = (F y) <| o_side ::= g |>.

  Lemma emit_upd e o m : emit e (upd o F m) = upd o F (emit e m).
  Proof. apply machine_ext; reflexivity. Qed.

  Lemma alter_side_comm o o' g (h : list obj) :
    alter (fun y => y <| o_side ::= g |>) o' (alter F o h) = alter F o (alter (fun y => y <| o_side ::= g |>) o' h).
  Proof.
    destruct (decide (o = o')) as [->|Hne].
    - rewrite <- !list_alter_compose. apply list_alter_ext; [|reflexivity]. intros y _. cbn. symmetry. apply F_comm.
    - apply list_alter_commute. congruence.
  Qed.
  Lemma upd_side_comm o o' g m :
    upd o' (fun y => y <| o_side ::= g |>) (upd o F m) = upd o F (upd o' (fun y => y <| o_side ::= g |>) m).
  Proof. apply machine_ext; try reflexivity. cbn. apply alter_side_comm. Qed.

  Lemma sfree_upd o o' m : sfree o' (upd o F m) = upd o F (sfree o' m).
  Proof.
    unfold sfree.
    assert (Hg : match get (upd o F m) o' with Some x => Some (o_side x) | None => None end =
                 match get m o' with Some x => Some (o_side x) | None => None end).
    { rewrite get_upd. destruct (decide (o = o')); [|reflexivity]. destruct (get m o'); cbn; [rewrite F_side|]; reflexivity. }
    destruct (get (upd o F m) o') as [x'|] eqn:E1; destruct (get m o') as [x|] eqn:E2; try discriminate; [|apply emit_upd].
    injection Hg as Hg. rewrite Hg. destruct (o_side x) as [s|]; [|apply emit_upd].
    destruct (sd_freed s); apply machine_ext; try reflexivity; cbn;
      apply (alter_side_comm o o' (fun _ => Some (Side (sd_wk s) true))).
  Qed.

  Lemma weak_drop_upd w o m : weak_drop w (upd o F m) = upd o F (weak_drop w m).
  Proof.
    destruct w as [|o']; [reflexivity|]. unfold weak_drop.
    assert (Hg : match get (upd o F m) o' with Some x => Some (o_side x) | None => None end =
                 match get m o' with Some x => Some (o_side x) | None => None end).
    { rewrite get_upd. destruct (decide (o = o')); [|reflexivity]. destruct (get m o'); cbn; [rewrite F_side|]; reflexivity. }
    destruct (get (upd o F m) o') as [x'|] eqn:E1; destruct (get m o') as [x|] eqn:E2; try discriminate; [|apply emit_upd].
    injection Hg as Hg. rewrite Hg. destruct (o_side x) as [s|]; [|apply emit_upd].
    assert (Hmid : (if sd_freed s then emit_bad UseAfterFree o' (upd o F m) else upd o F m) =
                   upd o F (if sd_freed s then emit_bad UseAfterFree o' m else m)).
    { destruct (sd_freed s); [apply emit_upd | reflexivity]. }
    rewrite Hmid. destruct (dec_wk (sd_wk s)) as [k'|]; [|apply emit_upd].
    unfold uside. rewrite upd_side_comm.
    destruct ((w_cnt k' =? 0) && negb (w_acc k')); [apply sfree_upd | reflexivity].
  Qed.

  Lemma fold_weak_drop_upd l o m :
    fold_left (fun m w => weak_drop_opt w m) l (upd o F m) = upd o F (fold_left (fun m w => weak_drop_opt w m) l m).
  Proof.
    revert m. induction l as [|w l IH]; intros m; [reflexivity|]. cbn [fold_left].
    destruct w as [w|]; cbn [weak_drop_opt]; [rewrite weak_drop_upd|]; apply IH.
  Qed.
End Comm.

(** ** The Weak part of the drop glue *)
Definition wl (l : list (option wref)) : list wref := omap (fun a => a) l.
Lemma cnt_wr_wl o l : cnt_wr o (wl l) = cnt_w o l.
Proof.
  induction l as [|a l IH]; [reflexivity|]. rewrite cnt_w_cons. destruct a as [w|]; cbn.
  - unfold wl in *. cbn [omap]. rewrite cnt_wr_cons, IH. reflexivity.
  - unfold wl in *. cbn [omap]. rewrite IH. reflexivity.
Qed.

Section DropWeak.
  Context (K : conf).
  Implicit Types (m : machine) (o : id) (x : obj).

  Lemma Cur_fold_weak_drop b n E0 ex m0 E l : forall W m,
    k_weak K = true -> Cur K b n E0 ex m0 E (wl l ++ W) m ->
    Cur K b n E0 ex m0 E W (fold_left (fun m w => weak_drop_opt w m) l m).
  Proof.
    induction l as [|a l IH]; intros W m Hk C; [exact C|]. cbn [fold_left]. apply IH; [exact Hk|].
    destruct a as [w|]; cbn [weak_drop_opt]; [|exact C]. apply Cur_weak_drop; [|exact Hk]. exact C.
  Qed.

  Lemma no_weak_refs b E W m p xp j t :
    SInv K b E W m -> k_weak K = false -> get m p = Some xp -> o_wfields xp !! j = Some (Some (WTo t)) -> False.
  Proof.
    intros HI Hk Hp Hj.
    assert (Hpos : (0 < wrefs m t + cnt_wr t W)%nat).
    { rewrite wrefs_unfold. assert (0 < hsum (fun x => cnt_w t (o_wfields x)) (heap m))%nat; [|lia].
      apply hsum_pos. exists p, xp. split; [exact Hp|]. apply cnt_w_pos. eauto. }
    destruct (sv_wex _ _ _ _ _ HI t Hpos) as [y Hy].
    pose proof (sv_obj _ _ _ _ _ HI _ _ Hy) as Hok.
    destruct (sv_objx _ _ _ _ _ HI _ _ Hy) as [_ _ _ X4 _ _]. specialize (X4 Hk).
    destruct (o_box y) eqn:Eb.
    - apply okN_notyet in Hok; [|exact Eb]. lia.
    - destruct (okN_alloc K _ _ _ _ _ Hok Eb) as (_ & _ & _ & _ & O5 & _). rewrite X4 in O5. lia.
    - apply okN_freed in Hok; [|exact Eb]. destruct Hok as (_ & _ & O). rewrite X4 in O. lia.
  Qed.

  Lemma fold_weak_drop_nowto l m :
    (forall j t, l !! j = Some (Some (WTo t)) -> False) ->
    fold_left (fun m w => weak_drop_opt w m) l m = m.
  Proof.
    revert m. induction l as [|a l IH]; intros m Hn; [reflexivity|]. cbn [fold_left].
    rewrite IH; [|intros j t Hj; apply (Hn (S j) t Hj)].
    destruct a as [[|t]|]; cbn; try reflexivity. exfalso. apply (Hn 0%nat t). reflexivity.
  Qed.

  (** all Weak fields are dropped, then cleared *)
  Lemma Cur_drop_wfields b n E0 ex m0 E W m o x :
    Cur K b n E0 ex m0 E W m -> get m o = Some x -> (o_box x <> BNotYet \/ o_vst x = VDropping) ->
    (o_vst x <> VUninit \/ ex = Some o) ->
    Cur K b n E0 ex m0 E W
        (upd o (fun x => x <| o_wfields ::= fmap (fun _ => None) |>)
             (fold_left (fun m w => weak_drop_opt w m) (o_wfields x) m)).
  Proof.
    intros C Hx Hbx Hnu. pose proof (cur_inv _ _ _ _ _ _ _ _ _ C) as HI.
    set (F := fun y : obj => y <| o_wfields ::= fmap (fun _ => None) |>).
    assert (C1 : Cur K b n E0 ex m0 E (wl (o_wfields x) ++ W) (upd o F m)).
    { eapply (Cur_wmove K b n E0 ex m0 E W (wl (o_wfields x) ++ W) m _ o F C); try reflexivity.
      - eapply NoBad_log; [reflexivity | apply C].
      - intros y Hy. assert (y = x) by congruence. subst y. unfold F. cbn. repeat split; auto.
        intros Hm. destruct (sv_objx _ _ _ _ _ HI _ _ Hx) as [_ _ _ _ X5 _]. destruct (X5 Hm) as (_ & _ & ->). reflexivity.
      - intros o'. rewrite cnt_wr_app, cnt_wr_wl.
        pose proof (wrefs_upd m o F x o' Hx) as H1. unfold F in H1 at 2. cbn in H1.
        change (o_wfields (x <| o_wfields ::= fmap (fun _ => None) |>)) with (fmap (fun _ : option wref => @None wref) (o_wfields x)) in H1.
        rewrite cnt_w_map_none in H1. lia.
      - intros i w Hi. eauto.
      - auto.
      - intros y j w Hy Hj. assert (y = x) by congruence. subst y. unfold F in Hj. cbn in Hj.
        rewrite list_lookup_fmap in Hj. destruct (o_wfields x !! j); cbn in Hj; [|discriminate]. injection Hj as <-.
        right. intros o' Ho'. discriminate. }
    destruct (k_weak K) eqn:Hk.
    - rewrite <- (fold_weak_drop_upd F); [|reflexivity|reflexivity].
      apply Cur_fold_weak_drop; [exact Hk | exact C1].
    - rewrite fold_weak_drop_nowto by (intros j t Hj; eapply no_weak_refs; eauto).
      eapply Cur_EW_ext; [exact C1 | reflexivity|]. intros o'. rewrite cnt_wr_app, cnt_wr_wl.
      destruct (cnt_w o' (o_wfields x)) eqn:Ec; [reflexivity|]. exfalso.
      destruct (proj1 (cnt_w_pos o' (o_wfields x))) as [j Hj]; [lia|]. eapply no_weak_refs; eauto.
  Qed.
End DropWeak.

(** [weak_drop] only touches side records *)
Definition same_but_side (y y' : obj) : Prop :=
  o_hdr y' = o_hdr y /\ o_vst y' = o_vst y /\ o_box y' = o_box y /\ o_cls y' = o_cls y /\
  o_ismap y' = o_ismap y /\ o_fields y' = o_fields y /\ o_wfields y' = o_wfields y /\ o_cleaner y' = o_cleaner y.
Lemma same_but_side_refl y : same_but_side y y.
Proof. repeat split. Qed.
Lemma same_but_side_trans a b c : same_but_side a b -> same_but_side b c -> same_but_side a c.
Proof. unfold same_but_side. intuition congruence. Qed.

Lemma upd_side_keep o' g m o y :
  get m o = Some y -> exists y', get (upd o' (fun x => x <| o_side ::= g |>) m) o = Some y' /\ same_but_side y y'.
Proof.
  intros Hy. rewrite get_upd. destruct (decide (o' = o)) as [->|]; [rewrite Hy; cbn|rewrite Hy]; eexists; split; try reflexivity; repeat split.
Qed.
Lemma sfree_keep o' m o y : get m o = Some y -> exists y', get (sfree o' m) o = Some y' /\ same_but_side y y'.
Proof.
  intros Hy. unfold sfree. destruct (get m o') as [x|]; [|exists y; split; [exact Hy | apply same_but_side_refl]].
  destruct (o_side x) as [s|]; [|exists y; split; [exact Hy | apply same_but_side_refl]].
  destruct (sd_freed s); change (get (emit ?e ?mm) o) with (get mm o);
    change (fun x0 : obj => x0 <| o_side := Some (Side (sd_wk s) true) |>) with (fun y : obj => y <| o_side ::= fun _ => Some (Side (sd_wk s) true) |>);
    apply upd_side_keep; exact Hy.
Qed.
Lemma weak_drop_keep w m o y : get m o = Some y -> exists y', get (weak_drop w m) o = Some y' /\ same_but_side y y'.
Proof.
  intros Hy. assert (Hrefl : exists y', get m o = Some y' /\ same_but_side y y') by (exists y; split; [exact Hy | apply same_but_side_refl]).
  destruct w as [|o']; [exact Hrefl|]. unfold weak_drop.
  destruct (get m o') as [x|]; [|exact Hrefl]. destruct (o_side x) as [s|]; [|exact Hrefl].
  destruct (dec_wk (sd_wk s)) as [k'|]; [|destruct (sd_freed s); exact Hrefl].
  assert (H1 : exists y1, get (uside o' (fun _ => k') (if sd_freed s then emit_bad UseAfterFree o' m else m)) o = Some y1 /\ same_but_side y y1).
  { unfold uside. apply upd_side_keep. destruct (sd_freed s); exact Hy. }
  destruct ((w_cnt k' =? 0) && negb (w_acc k')); [|exact H1].
  destruct H1 as (y1 & Hy1 & S1). destruct (sfree_keep o' _ o y1 Hy1) as (y2 & Hy2 & S2).
  exists y2. split; [exact Hy2 | eapply same_but_side_trans; eauto].
Qed.
Lemma fold_weak_drop_keep l : forall m o y, get m o = Some y ->
  exists y', get (fold_left (fun m w => weak_drop_opt w m) l m) o = Some y' /\ same_but_side y y'.
Proof.
  induction l as [|a l IH]; intros m o y Hy; [exists y; split; [exact Hy | apply same_but_side_refl]|].
  cbn [fold_left]. destruct a as [w|]; cbn [weak_drop_opt]; [|apply IH, Hy].
  destruct (weak_drop_keep w m o y Hy) as (y1 & Hy1 & S1). destruct (IH _ o y1 Hy1) as (y2 & Hy2 & S2).
  exists y2. split; [exact Hy2 | eapply same_but_side_trans; eauto].
Qed.

Lemma dead_weak_drop w m : dead (weak_drop w m) = dead m.
Proof.
  destruct w as [|o']; [reflexivity|]. unfold weak_drop.
  destruct (get m o') as [x|]; [|reflexivity]. destruct (o_side x) as [s|]; [|reflexivity].
  destruct (dec_wk (sd_wk s)) as [k'|]; [|destruct (sd_freed s); reflexivity].
  destruct ((w_cnt k' =? 0) && negb (w_acc k')).
  - unfold sfree. match goal with |- context [get ?mm o'] => destruct (get mm o') as [y|] end; [|destruct (sd_freed s); reflexivity].
    destruct (o_side y) as [s'|]; [|destruct (sd_freed s); reflexivity].
    destruct (sd_freed s'), (sd_freed s); reflexivity.
  - destruct (sd_freed s); reflexivity.
Qed.
Lemma dead_fold_weak_drop l : forall m, dead (fold_left (fun m w => weak_drop_opt w m) l m) = dead m.
Proof.
  induction l as [|a l IH]; intros m; [reflexivity|]. cbn [fold_left]. rewrite IH.
  destruct a; [apply dead_weak_drop | reflexivity].
Qed.

(** ** Rebasing and closing the frame *)
Section Rebase.
  Context (K : conf).
  Implicit Types (m : machine) (o : id) (x : obj).

  Lemma Cur_join b b' n n' E0 ex m0 E1 W1 mx E W m :
    Cur K b n E0 ex m0 E1 W1 mx -> Cur K b' n' E0 ex mx E W m -> Cur K b' (n && n') E0 ex m0 E W m.
  Proof.
    intros [A1 A2 A3 A4] [B1 B2 B3 B4]. split; auto.
    - eapply Fr_trans; eauto.
    - intros Hn. apply andb_true_iff in Hn as [Hn1 Hn2].
      eapply NDD_trans; [apply (sv_dead _ _ _ _ _ A2) | apply A4, Hn1 | exact B3 | apply B4, Hn2].
  Qed.

  Lemma ObjFr_close E o m m' x x' :
    ObjFr E (Some o) m m' o x x' -> o_box x <> BNotYet -> o_vst x <> VDropping -> o_vst x <> VUninit -> o_vst x' <> VDropping ->
    (o_box x = BAlloc -> ~ protected E m o x) -> (inD m o = true -> o_vst x' = VDropped) -> ObjFr E None m m' o x x'.
  Proof.
    intros [F1 F2 F3 F4 F5 F6 F7 F8 F8' Fu Fn Fd F9 F10] Hb Hv Hnu Hv' Hp Hdd. split; auto; try congruence; try tauto.
  Qed.

  Lemma Cur_close_ex b n E0 o m0 E W m :
    Cur K b n E0 (Some o) m0 E W m ->
    (forall x x', get m0 o = Some x -> get m o = Some x' ->
       o_box x <> BNotYet /\ o_vst x <> VDropping /\ o_vst x <> VUninit /\ o_vst x' <> VDropping /\
       (o_box x = BAlloc -> ~ protected E0 m0 o x) /\ (inD m0 o = true -> o_vst x' = VDropped)) ->
    Cur K b n E0 None m0 E W m.
  Proof.
    intros [C1 C2 C3 C4] Ho. split; auto.
    destruct C3 as [F1 Fw F2 Fc F3 F4]. split; auto.
    intros o' x Hx. destruct (F3 o' x Hx) as (x' & Hx' & OF). exists x'. split; [exact Hx'|].
    destruct (decide (o' = o)) as [->|Hne].
    - destruct (Ho x x' Hx Hx') as (H1 & H2 & H2' & H3 & H4 & H5). apply ObjFr_close; auto.
    - destruct OF as [G1 G2 G3 G4 G5 G6 G7 G8 G8' Gu Gn Gd G9 G10]. split; auto.
      + intros Hb Hv _. apply G7; auto. congruence.
      + intros Hv _. apply G8; auto. congruence.
      + intros _ Hv. apply G8'; auto. congruence.
      + intros _ Hv Hb. apply Gu; auto. congruence.
      + intros Hi _ Hv. apply Gd; auto. congruence.
      + intros _ Hb Hp. apply G10; auto. congruence.
  Qed.

  (** the shape of the results of the counter / buffer helpers on the object itself *)
  Lemma dec_rc_m_eq m o x : get m o = Some x -> h_rc (o_hdr x) <> 0 ->
    dec_rc_m o m = uhdr o (fun _ => set_rc (h_rc (o_hdr x) - 1) (o_hdr x)) m.
  Proof.
    intros Hx Hnz. unfold dec_rc_m. rewrite (hdr_of_get _ _ _ Hx). unfold dec_rc.
    destruct (h_rc (o_hdr x) =? 0) eqn:E; [apply N.eqb_eq in E; congruence | reflexivity].
  Qed.

  Definition same_but_hdr (y y' : obj) : Prop :=
    o_vst y' = o_vst y /\ o_box y' = o_box y /\ o_side y' = o_side y /\ o_cls y' = o_cls y /\
    o_ismap y' = o_ismap y /\ o_fields y' = o_fields y /\ o_wfields y' = o_wfields y /\ o_cleaner y' = o_cleaner y /\
    o_mslots y' = o_mslots y.

  Lemma remove_from_list_obj m o x : get m o = Some x ->
    exists x', get (remove_from_list o m) o = Some x' /\ same_but_hdr x x' /\
      h_rc (o_hdr x') = h_rc (o_hdr x) /\ h_tc (o_hdr x') = h_tc (o_hdr x) /\ h_side (o_hdr x') = h_side (o_hdr x) /\
      (marked x = false -> marked x' = false) /\
      st_dropping (remove_from_list o m) = st_dropping m /\ dead (remove_from_list o m) = dead m.
  Proof.
    intros Hx. unfold remove_from_list.
    assert (Hsame : exists x', get m o = Some x' /\ same_but_hdr x x' /\
      h_rc (o_hdr x') = h_rc (o_hdr x) /\ h_tc (o_hdr x') = h_tc (o_hdr x) /\ h_side (o_hdr x') = h_side (o_hdr x) /\
      (marked x = false -> marked x' = false) /\ st_dropping m = st_dropping m /\ dead m = dead m).
    { exists x. repeat split; auto. }
    destruct (is_in_pc (hdr_of m o)); [|exact Hsame]. destruct (pc_alive m); [|exact Hsame].
    exists (x <| o_hdr ::= set_mark NM |>).
    assert (Hg : forall mm, get (dec_size o mm) o = get mm o) by (intros; unfold dec_size; destruct (pc_size mm =? 0); reflexivity).
    assert (Hs : forall mm, st_dropping (dec_size o mm) = st_dropping mm /\ dead (dec_size o mm) = dead mm)
      by (intros; unfold dec_size; destruct (pc_size mm =? 0); split; reflexivity).
    rewrite Hg. destruct (Hs (uhdr o (set_mark NM) m <| pc ::= remove_id o |>)) as [-> ->].
    split; [change (get (uhdr o (set_mark NM) m <| pc ::= remove_id o |>) o) with (get (uhdr o (set_mark NM) m) o); apply get_upd_eq, Hx|].
    repeat split; auto.
  Qed.
  Lemma dealloc_vst m o y : get m o = Some y ->
    exists y', get (dealloc K o m) o = Some y' /\ o_vst y' = o_vst y.
  Proof.
    intros Hy. unfold dealloc. rewrite Hy. destruct (box_layout K y) as [sz al].
    exists (y <| o_box := BFreed |>). split; [|reflexivity].
    match goal with |- get (emit _ (upd o ?f ?mm)) o = _ =>
      change (get (emit (EFree o sz al) (upd o f mm)) o) with (get (upd o f mm) o) end.
    apply get_upd_eq.
    destruct (o_box y); repeat (match goal with |- context [if ?c then _ else _] => destruct c end); exact Hy.
  Qed.
  Lemma drop_metadata_vst m o y : get m o = Some y ->
    exists y', get (drop_metadata K o m) o = Some y' /\ o_vst y' = o_vst y.
  Proof.
    intros Hy. assert (Hrefl : exists y', get m o = Some y' /\ o_vst y' = o_vst y) by eauto.
    unfold drop_metadata. destruct (negb (k_weak K)); [exact Hrefl|]. rewrite Hy.
    destruct (h_side (o_hdr y)); [|exact Hrefl]. destruct (o_side y) as [s|] eqn:Es; [|exact Hrefl].
    destruct (w_cnt (sd_wk s) =? 0).
    - unfold sfree. assert (Hg : get (if sd_freed s then emit_bad UseAfterFree o m else m) o = Some y) by (destruct (sd_freed s); exact Hy).
      rewrite Hg, Es. exists (y <| o_side := Some (Side (sd_wk s) true) |>). split; [|reflexivity].
      match goal with |- get (emit ?e (upd o ?f ?mm)) o = _ =>
        change (get (emit e (upd o f mm)) o) with (get (upd o f mm) o) end.
      apply get_upd_eq. destruct (sd_freed s); exact Hy.
    - unfold uside. exists (y <| o_side ::= fmap (fun s0 => Side (set_acc false (sd_wk s0)) (sd_freed s0)) |>).
      split; [apply get_upd_eq; destruct (sd_freed s); exact Hy | reflexivity].
  Qed.
End Rebase.

(** ** [values] is not read by the allocation helpers *)
Section ValuesComm.
  Context (K : conf).
  Variable g : list (option id) -> list (option id).
  Notation V mm := (mm <| values ::= g |>).

  Lemma sfree_values o m : sfree o (V m) = V (sfree o m).
  Proof.
    unfold sfree. change (get (V m) o) with (get m o). destruct (get m o) as [x|]; [|apply machine_ext; reflexivity].
    destruct (o_side x) as [s|]; [|apply machine_ext; reflexivity]. destruct (sd_freed s); apply machine_ext; reflexivity.
  Qed.
  Lemma drop_metadata_values o m : drop_metadata K o (V m) = V (drop_metadata K o m).
  Proof.
    unfold drop_metadata. destruct (negb (k_weak K)); [reflexivity|]. change (get (V m) o) with (get m o).
    destruct (get m o) as [x|]; [|apply machine_ext; reflexivity]. destruct (h_side (o_hdr x)); [|reflexivity].
    destruct (o_side x) as [s|]; [|apply machine_ext; reflexivity].
    destruct (w_cnt (sd_wk s) =? 0).
    - destruct (sd_freed s); [|apply sfree_values].
      change (emit_bad UseAfterFree o (V m)) with (V (emit_bad UseAfterFree o m)). apply sfree_values.
    - destruct (sd_freed s); apply machine_ext; reflexivity.
  Qed.
  Lemma dealloc_values o m : dealloc K o (V m) = V (dealloc K o m).
  Proof.
    unfold dealloc. change (get (V m) o) with (get m o). destruct (get m o) as [x|]; [|apply machine_ext; reflexivity].
    destruct (box_layout K x) as [sz al].
    destruct (o_box x);
      change (st_alloc (V m)) with (st_alloc m);
      change (st_alloc (emit_bad DoubleFree o (V m))) with (st_alloc m);
      change (st_alloc (emit_bad DoubleFree o m)) with (st_alloc m);
      destruct (st_alloc m <? sz); apply machine_ext; reflexivity.
  Qed.
End ValuesComm.

