(** * WeakSpec: the code generated from src/weak/weak_counter_marker.rs implements [Hdr.wk].

    Single 16-bit word: every statement is an exhaustive [vm_compute] check over all 65536 values
    lifted with [Word.forall_below]. *)
From Coq Require Import NArith Bool List Lia.
From RC Require Import Hdr Word.
From RC.gen Require WeakCounterGen.
Module W := WeakCounterGen.
Local Open Scope N_scope.

Local Notation wm := W.weak_counter_marker.
Local Notation mkw := W.mk_weak_counter_marker.
Local Notation wwd := W.weak_counter_cell.

Definition wdecode (s : wm) : wk := wk_decode (wwd s).
Definition wwf (s : wm) : Prop := wwd s < 65536.

Definition wk_eqb (a b : wk) : bool := (w_cnt a =? w_cnt b) && Bool.eqb (w_acc a) (w_acc b).
Lemma wk_eqb_eq a b : wk_eqb a b = true -> a = b.
Proof.
  destruct a, b; unfold wk_eqb; cbn. rewrite andb_true_iff, N.eqb_eq, eqb_true_iff.
  intros [-> ->]; reflexivity.
Qed.

Ltac exhaustive := vm_cast_no_check (eq_refl true).

Lemma wm_eta s : s = mkw (wwd s). Proof. destruct s; reflexivity. Qed.

(** Generic lifting: a boolean property of the word, checked exhaustively. *)
Lemma lift_w (P : N -> bool) :
  forallb P all_u16 = true -> forall s, wwf s -> P (wwd s) = true.
Proof. intros H s Hs. exact (forall_u16 _ H _ Hs). Qed.

(** ** Constants *)
Theorem gen_wk_max_spec : W.MAX = max_weak /\ W.COUNTER_MASK = 32767 /\ W.ACCESSIBLE_MASK = 32768.
Proof. repeat split; vm_compute; reflexivity. Qed.

(** ** Encode / decode *)
Lemma wk_encode_ok :
  forallb (fun c => forallb (fun a => wk_eqb (wk_decode (wk_encode (Wk c a))) (Wk c a))
                            (true :: false :: nil)) (below 32768) = true.
Proof. exhaustive. Qed.

Theorem wk_decode_encode w : wk_wf w -> wk_decode (wk_encode w) = w.
Proof.
  destruct w as [c a]; unfold wk_wf; cbn [w_cnt]; intros Hc.
  pose proof (forall_below _ _ wk_encode_ok c Hc) as H; cbn beta in H.
  rewrite forallb_forall in H. apply wk_eqb_eq, H. destruct a; cbn; auto.
Qed.

Lemma wk_encode_lt w : wk_wf w -> wk_encode w < 65536.
Proof. destruct w as [c []]; unfold wk_wf, wk_encode, b2n; cbn [w_cnt w_acc]; lia. Qed.

(** ** new *)
Theorem gen_wk_new_spec b : wdecode (W.new b) = wk_new b /\ wwf (W.new b).
Proof. destruct b; vm_compute; split; reflexivity. Qed.

(** ** increment_counter / decrement_counter *)
Definition res_chk (op : wm -> wm * bool) (abs : wk -> option wk) (w : N) : bool :=
  let r := op (mkw w) in let w' := wwd (fst r) in
  match abs (wk_decode w) with
  | None => snd r && (w' =? w)
  | Some v => negb (snd r) && (w' <? 65536) && wk_eqb (wk_decode w') v
  end.

Lemma lift_res_w op abs :
  forallb (res_chk op abs) all_u16 = true ->
  forall s, wwf s ->
    match abs (wdecode s) with
    | None => op s = (s, true)
    | Some v => snd (op s) = false /\ wdecode (fst (op s)) = v /\ wwf (fst (op s))
    end.
Proof.
  intros Hchk s Hs. pose proof (lift_w _ Hchk s Hs) as H. unfold res_chk in H; cbn zeta in H.
  rewrite <- wm_eta in H. unfold wdecode, wwf.
  destruct (abs (wk_decode (wwd s))) as [v|].
  - rewrite !andb_true_iff in H. destruct H as [[H1 H2] H3].
    apply negb_true_iff in H1. apply N.ltb_lt in H2. apply wk_eqb_eq in H3. auto.
  - rewrite andb_true_iff in H. destruct H as [H1 H2]. apply N.eqb_eq in H2.
    rewrite (surjective_pairing (op s)), H1. f_equal.
    rewrite (wm_eta (fst (op s))), H2. symmetry; apply wm_eta.
Qed.

Lemma wk_inc_chk : forallb (res_chk W.increment_counter inc_wk) all_u16 = true.
Proof. exhaustive. Qed.

Theorem gen_wk_inc_spec s : wwf s ->
  match inc_wk (wdecode s) with
  | None => W.increment_counter s = (s, true)
  | Some v => snd (W.increment_counter s) = false /\
              wdecode (fst (W.increment_counter s)) = v /\ wwf (fst (W.increment_counter s))
  end.
Proof. exact (lift_res_w _ _ wk_inc_chk s). Qed.

Lemma wk_dec_chk : forallb (res_chk W.decrement_counter dec_wk) all_u16 = true.
Proof. exhaustive. Qed.

Theorem gen_wk_dec_spec s : wwf s ->
  match dec_wk (wdecode s) with
  | None => W.decrement_counter s = (s, true)
  | Some v => snd (W.decrement_counter s) = false /\
              wdecode (fst (W.decrement_counter s)) = v /\ wwf (fst (W.decrement_counter s))
  end.
Proof. exact (lift_res_w _ _ wk_dec_chk s). Qed.

(** ** counter / is_accessible / set_accessible *)
Lemma wk_counter_chk :
  forallb (fun w => W.counter (mkw w) =? w_cnt (wk_decode w)) all_u16 = true.
Proof. exhaustive. Qed.

Theorem gen_wk_counter_spec s : wwf s -> W.counter s = w_cnt (wdecode s).
Proof.
  intros Hs. pose proof (lift_w _ wk_counter_chk s Hs) as H; cbn beta in H.
  rewrite <- wm_eta in H. apply N.eqb_eq, H.
Qed.

Lemma wk_is_acc_chk :
  forallb (fun w => Bool.eqb (W.is_accessible (mkw w)) (w_acc (wk_decode w))) all_u16 = true.
Proof. exhaustive. Qed.

Theorem gen_wk_is_accessible_spec s : wwf s -> W.is_accessible s = w_acc (wdecode s).
Proof.
  intros Hs. pose proof (lift_w _ wk_is_acc_chk s Hs) as H; cbn beta in H.
  rewrite <- wm_eta in H. apply eqb_true_iff, H.
Qed.

Lemma wk_set_acc_chk b :
  forallb (fun w => let w' := wwd (W.set_accessible (mkw w) b) in
                    (w' <? 65536) && wk_eqb (wk_decode w') (set_acc b (wk_decode w))) all_u16 = true.
Proof. destruct b; exhaustive. Qed.

Theorem gen_wk_set_acc_spec b s : wwf s ->
  wdecode (W.set_accessible s b) = set_acc b (wdecode s) /\ wwf (W.set_accessible s b).
Proof.
  intros Hs. pose proof (lift_w _ (wk_set_acc_chk b) s Hs) as H; cbn beta zeta in H.
  rewrite <- wm_eta in H. rewrite andb_true_iff in H. destruct H as [H1 H2].
  apply N.ltb_lt in H1. apply wk_eqb_eq in H2. auto.
Qed.

(** ** Debug build: no [debug_assert!] exists in this file; the +1 / -1 never overflow. *)
Lemma wk_noovf_chk :
  forallb (fun w => W.increment_counter_noovf (mkw w) && W.decrement_counter_noovf (mkw w))
          all_u16 = true.
Proof. exhaustive. Qed.

Theorem gen_wk_asserts s b : wwf s ->
  W.increment_counter_noovf s = true /\ W.decrement_counter_noovf s = true /\
  W.increment_counter_asserts s && W.decrement_counter_asserts s && W.counter_asserts s &&
  W.counter_noovf s && W.is_accessible_asserts s && W.is_accessible_noovf s &&
  W.set_accessible_asserts s b && W.set_accessible_noovf s b &&
  W.new_asserts b && W.new_noovf b = true.
Proof.
  intros Hs. pose proof (lift_w _ wk_noovf_chk s Hs) as H; cbn beta in H.
  rewrite <- wm_eta in H. rewrite andb_true_iff in H. destruct H as [H1 H2].
  repeat split; assumption.
Qed.

(** The weak count can neither wrap nor spill into the accessible bit. *)
Corollary gen_wk_inc_flags s : wwf s -> snd (W.increment_counter s) = false ->
  w_cnt (wdecode (fst (W.increment_counter s))) = w_cnt (wdecode s) + 1 /\
  w_cnt (wdecode (fst (W.increment_counter s))) <= max_weak /\
  w_acc (wdecode (fst (W.increment_counter s))) = w_acc (wdecode s).
Proof.
  intros Hs Hok. pose proof (gen_wk_inc_spec s Hs) as H. unfold inc_wk in H.
  destruct (w_cnt (wdecode s) =? max_weak) eqn:E.
  - rewrite H in Hok; discriminate.
  - destruct H as (_ & H & _). rewrite H. cbn [w_cnt w_acc]. apply N.eqb_neq in E.
    assert (w_cnt (wdecode s) < 32768) by (apply N.mod_lt; discriminate).
    set (r := w_cnt (wdecode s)) in *. unfold max_weak in *. repeat split; lia.
Qed.

(** ** Field-level corollaries (property C16 for the weak counter) *)
Lemma gen_wk_max_val : W.MAX = 32767.
Proof. exact (proj1 gen_wk_max_spec). Qed.

Lemma w_cnt_lt s : w_cnt (wdecode s) < 32768.
Proof. apply N.mod_lt; discriminate. Qed.

Theorem wk_inc_saturates s : wwf s -> w_cnt (wdecode s) = max_weak ->
  W.increment_counter s = (s, true).
Proof.
  intros Hs E. pose proof (gen_wk_inc_spec s Hs) as H. unfold inc_wk in H.
  rewrite E, N.eqb_refl in H. exact H.
Qed.

Theorem wk_inc_increments s : wwf s -> w_cnt (wdecode s) < max_weak ->
  let s' := fst (W.increment_counter s) in
  snd (W.increment_counter s) = false /\ w_cnt (wdecode s') = w_cnt (wdecode s) + 1 /\
  w_acc (wdecode s') = w_acc (wdecode s) /\ wwf s'.
Proof.
  intros Hs Hlt. pose proof (gen_wk_inc_spec s Hs) as H. unfold inc_wk in H.
  replace (w_cnt (wdecode s) =? max_weak) with false in H by (symmetry; apply N.eqb_neq; lia).
  destruct H as (H1 & H2 & H3). cbv zeta. rewrite H2. cbn [w_cnt w_acc]. repeat split; assumption.
Qed.

Theorem wk_inc_no_wrap s : wwf s ->
  let s' := fst (W.increment_counter s) in
  w_cnt (wdecode s) <= w_cnt (wdecode s') /\ w_cnt (wdecode s') <= max_weak.
Proof.
  intros Hs. cbv zeta. pose proof (w_cnt_lt s) as Hlt.
  destruct (N.eq_dec (w_cnt (wdecode s)) max_weak) as [E|E].
  - rewrite (wk_inc_saturates s Hs E). cbn [fst]. rewrite E. lia.
  - assert (Hlt' : w_cnt (wdecode s) < max_weak) by (unfold max_weak in *; lia).
    destruct (wk_inc_increments s Hs Hlt') as (_ & H & _). cbv zeta in H. rewrite H.
    unfold max_weak in *. lia.
Qed.

Theorem wk_dec_zero s : wwf s -> w_cnt (wdecode s) = 0 -> W.decrement_counter s = (s, true).
Proof.
  intros Hs E. pose proof (gen_wk_dec_spec s Hs) as H. unfold dec_wk in H. rewrite E in H. exact H.
Qed.

Theorem wk_dec_decrements s : wwf s -> 0 < w_cnt (wdecode s) ->
  let s' := fst (W.decrement_counter s) in
  snd (W.decrement_counter s) = false /\ w_cnt (wdecode s') = w_cnt (wdecode s) - 1 /\
  w_acc (wdecode s') = w_acc (wdecode s) /\ wwf s'.
Proof.
  intros Hs Hpos. pose proof (gen_wk_dec_spec s Hs) as H. unfold dec_wk in H.
  replace (w_cnt (wdecode s) =? 0) with false in H by (symmetry; apply N.eqb_neq; lia).
  destruct H as (H1 & H2 & H3). cbv zeta. rewrite H2. cbn [w_cnt w_acc]. repeat split; assumption.
Qed.
