(** * Lists: the pointer-level model of src/lists.rs and its refinement to abstract lists.

    The machine model (Machine.v) represents the three intrusive lists of the crate
    ([LinkedList], [PossibleCycles], [LinkedQueue], src/lists.rs) as Coq [list id]s
    ([pc m], [t_root], [t_non], [t_q]) and uses [cons], [remove_id], "pop front", [++ [c]] and
    [L ++ pc] for their operations.  This file is the layer below: the [next]/[prev] fields of
    the allocation headers ([CcBox], src/cc.rs:378-391) as two finite maps, every function of
    src/lists.rs transcribed statement by statement over those maps, and the proofs that on a
    well-formed list each function computes exactly the abstract operation the machine uses
    (for lists of any length), never fires a debug assertion, and touches no other node.

    Layout of the file
      1. pointer state, functional updates
      2. the transcription of src/lists.rs (line numbers cited)
      3. representation predicates [dseg]/[dll]/[outside], [sseg]/[sll] and their algebra
      4. refinement theorems: LinkedList, PossibleCycles, LinkedQueue
      5. misuse lemmas (what the debug assertions catch, and what they do not)
      6. bridge to the expressions of Machine.v
      7. an interpreter over several lists sharing one arena, used by tools/check_lists.py to
         compare this model with the real functions operation by operation. *)
From Coq Require Import NArith Bool List Lia Arith PeanoNat.
From stdpp Require Import base list option.
From RC Require Import Hdr.
Import ListNotations.

Definition id := nat.
Definition ptr := option id.          (* Option<NonNull<CcBox<()>>> *)

(** ** 1. Pointer state *)

(** Functional update of a total map. *)
Definition fupd {A} (f : id -> A) (k : id) (v : A) : id -> A :=
  fun i => if Nat.eqb i k then v else f i.

Lemma fupd_eq {A} (f : id -> A) k v : fupd f k v k = v.
Proof. unfold fupd. now rewrite Nat.eqb_refl. Qed.
Lemma fupd_ne {A} (f : id -> A) k v i : i <> k -> fupd f k v i = f i.
Proof. unfold fupd. intros H. destruct (Nat.eqb_spec i k); congruence. Qed.

(** The part of every [CcBox] header the lists read or write: [next], [prev] (cc.rs:379-380), the
    mark and the tracing counter of its [CounterMarker]; [fired] records that a [debug_assert!]
    (or, in a debug build, an arithmetic overflow check) of lists.rs would have failed.  The
    functions below continue after a failed assertion exactly like a release build does; all
    refinement theorems show [fired] unchanged, so on well-formed inputs both builds agree. *)
Record pstate := PState {
  nx : id -> ptr;
  pv : id -> ptr;
  mk : id -> mark;
  tc : id -> N;
  fired : bool;
}.

Definition set_nx (k : id) (v : ptr) (s : pstate) : pstate :=
  PState (fupd (nx s) k v) (pv s) (mk s) (tc s) (fired s).      (* *k.get_next() = v *)
Definition set_pv (k : id) (v : ptr) (s : pstate) : pstate :=
  PState (nx s) (fupd (pv s) k v) (mk s) (tc s) (fired s).      (* *k.get_prev() = v *)
Definition set_mk (k : id) (v : mark) (s : pstate) : pstate :=
  PState (nx s) (pv s) (fupd (mk s) k v) (tc s) (fired s).      (* k.counter_marker().mark(v) *)
Definition set_tc (k : id) (v : N) (s : pstate) : pstate :=
  PState (nx s) (pv s) (mk s) (fupd (tc s) k v) (fired s).
Definition fire (s : pstate) : pstate := PState (nx s) (pv s) (mk s) (tc s) true.
Definition fire_if (b : bool) (s : pstate) : pstate := if b then fire s else s.

(** All nodes fresh: what [CcBox::new] writes (cc.rs:404-413): no links, NonMarked, tracing
    counter = INITIAL_VALUE_TRACING_COUNTER = 1. *)
Definition fresh : pstate := PState (fun _ => None) (fun _ => None) (fun _ => NM) (fun _ => 1%N) false.

(** The list heads. *)
Record LinkedList := LL { ll_first : ptr }.                               (* lists.rs:7-9 *)
Record PossibleCycles := PCL { pc_first : ptr; pc_size : N }.             (* lists.rs:186-189 *)
Record LinkedQueue := LQ { q_first : ptr; q_last : ptr }.                 (* lists.rs:380-383 *)

Definition ll_new : LinkedList := LL None.                                (* lists.rs:13-15 *)
Definition pc_new : PossibleCycles := PCL None 0.                         (* lists.rs:193-198 *)
Definition q_new : LinkedQueue := LQ None None.                           (* lists.rs:387-392 *)

Definition is_none {A} (o : option A) : bool := match o with None => true | Some _ => false end.

Definition usize_max : N := 18446744073709551615.    (* 2^64 - 1 *)
Definition tc_reserved : N := 16383.                 (* COUNTER_MASK, counter_marker.rs:10 *)

(** ** 2. Transcription of src/lists.rs *)

(** debug_assert_nones, lists.rs:465-471 *)
Definition debug_assert_nones (p : id) (s : pstate) : pstate :=
  let s := fire_if (negb (is_none (nx s p))) s in         (* :468 *)
  fire_if (negb (is_none (pv s p))) s.                    (* :469 *)

(** *** LinkedList *)

(** LinkedList::first, lists.rs:18-20 is the projection [ll_first]. *)

(** LinkedList::add, lists.rs:23-34 *)
Definition ll_add (p : id) (L : LinkedList) (s : pstate) : LinkedList * pstate :=
  let s := debug_assert_nones p s in                      (* :24 *)
  let s := match ll_first L with                          (* :26 *)
           | Some first =>
               let s := set_pv first (Some p) s in        (* :28 *)
               set_nx p (Some first) s                    (* :29 *)
           | None => s
           end in
  (LL (Some p), s).                                       (* :33 *)

(** LinkedList::remove, lists.rs:37-71.  The two links of [p] are read once (:39); the writes
    happen in program order, so the function is also meaningful when the links alias. *)
Definition ll_remove (p : id) (L : LinkedList) (s : pstate) : LinkedList * pstate :=
  let '(L, s) :=
    match nx s p, pv s p with                             (* :39 *)
    | Some next, Some prev =>                             (* :40 in between two elements *)
        let s := set_pv next (Some prev) s in             (* :42 *)
        let s := set_nx prev (Some next) s in             (* :43 *)
        let s := set_nx p None s in                       (* :46 *)
        let s := set_pv p None s in                       (* :47 *)
        (L, s)
    | Some next, None =>                                  (* :49 the first element *)
        let s := set_pv next None s in                    (* :51 *)
        let L := LL (Some next) in                        (* :52 *)
        let s := set_nx p None s in                       (* :55 *)
        (L, s)
    | None, Some prev =>                                  (* :57 the last element *)
        let s := set_nx prev None s in                    (* :59 *)
        let s := set_pv p None s in                       (* :62 *)
        (L, s)
    | None, None =>                                       (* :64 the only one in the list *)
        (LL None, s)                                      (* :66 *)
    end in
  (L, debug_assert_nones p s).                            (* :69 *)

(** LinkedList::remove_first, lists.rs:74-93 *)
Definition ll_remove_first (L : LinkedList) (s : pstate) : option id * LinkedList * pstate :=
  match ll_first L with                                   (* :75 *)
  | Some first =>
      let L := LL (nx s first) in                         (* :77 *)
      let s := match ll_first L with                      (* :78 *)
               | Some next => set_pv next None s          (* :79 *)
               | None => s
               end in
      let s := set_nx first None s in                     (* :81 *)
      let s := set_mk first NM s in                       (* :85 *)
      (Some first, L, s)                                  (* :87 *)
  | None => (None, L, s)                                  (* :89-91 *)
  end.

(** LinkedList::is_empty, lists.rs:96-98 *)
Definition ll_is_empty (L : LinkedList) : bool := is_none (ll_first L).

(** Iter, lists.rs:141-171 (the same iterator type serves all three lists: 116-127, 367-378,
    452-463).  [iter_next] is Iter::next (:158-170): the state of the iterator is its [next]
    field.  [walk fuel] collects what the iterator yields ([fuel] bounds the number of steps;
    on a well-formed list of length <= fuel it is the whole list, [walk_dseg]). *)
Definition iter_next (cur : ptr) (s : pstate) : option id * ptr :=
  match cur with                                          (* :159 *)
  | Some p => (Some p, nx s p)                            (* :162, :164 *)
  | None => (None, None)                                  (* :166-168 *)
  end.

Fixpoint walk (fuel : nat) (nxf : id -> ptr) (cur : ptr) : list id :=
  match fuel, cur with
  | S f, Some p => p :: walk f nxf (nxf p)
  | _, _ => []
  end.

Definition ll_iter (fuel : nat) (L : LinkedList) (s : pstate) : list id :=     (* :101-103 *)
  walk fuel (nx s) (ll_first L).

(** Iter::contains, lists.rs:149-151 *)
Definition iter_contains (fuel : nat) (cur : ptr) (s : pstate) (p : id) : bool :=
  existsb (Nat.eqb p) (walk fuel (nx s) cur).

(** Drop for LinkedList, lists.rs:106-114: [while self.remove_first().is_some() {}].  [None] =
    the loop did not finish within [fuel] iterations. *)
Fixpoint ll_drop (fuel : nat) (L : LinkedList) (s : pstate) : option (LinkedList * pstate) :=
  match fuel with
  | 0 => None
  | S f =>
      match ll_remove_first L s with                      (* :110 *)
      | (Some _, L, s) => ll_drop f L s
      | (None, L, s) => Some (L, s)
      end
  end.

(** ListIter (IntoIterator for LinkedList), lists.rs:129-139, 173-184: [next] is
    [ll_remove_first] (:182); dropping the iterator drops the list ([ll_drop]). *)
Definition list_iter_next := ll_remove_first.

(** *** PossibleCycles *)

(** [self.size.set(self.size.get() - 1)]: a debug build panics on underflow (overflow checks),
    a release build wraps. *)
Definition usize_dec (n : N) (s : pstate) : N * pstate :=
  if (n =? 0)%N then (usize_max, fire s) else ((n - 1)%N, s).

(** PossibleCycles::size, lists.rs:208-210 is [pc_size]; ::first, :213-215 is [pc_first]. *)

(** PossibleCycles::add, lists.rs:218-231.  The size cannot overflow: members are distinct
    allocations of at least 24 bytes in a 2^64-byte address space. *)
Definition pc_add (p : id) (P : PossibleCycles) (s : pstate) : PossibleCycles * pstate :=
  let s := debug_assert_nones p s in                      (* :219 *)
  let size := N.succ (pc_size P) in                       (* :221 *)
  let s := match pc_first P with                          (* :223 *)
           | Some first =>
               let s := set_pv first (Some p) s in        (* :225 *)
               set_nx p (Some first) s                    (* :226 *)
           | None => s
           end in
  (PCL (Some p) size, s).                                 (* :230 *)

(** PossibleCycles::remove, lists.rs:234-270 *)
Definition pc_remove (p : id) (P : PossibleCycles) (s : pstate) : PossibleCycles * pstate :=
  let '(size, s) := usize_dec (pc_size P) s in            (* :235 *)
  let '(first, s) :=
    match nx s p, pv s p with                             (* :238 *)
    | Some next, Some prev =>                             (* :239 *)
        let s := set_pv next (Some prev) s in             (* :241 *)
        let s := set_nx prev (Some next) s in             (* :242 *)
        let s := set_nx p None s in                       (* :245 *)
        let s := set_pv p None s in                       (* :246 *)
        (pc_first P, s)
    | Some next, None =>                                  (* :248 *)
        let s := set_pv next None s in                    (* :250 *)
        let first := Some next in                         (* :251 *)
        let s := set_nx p None s in                       (* :254 *)
        (first, s)
    | None, Some prev =>                                  (* :256 *)
        let s := set_nx prev None s in                    (* :258 *)
        let s := set_pv p None s in                       (* :261 *)
        (pc_first P, s)
    | None, None =>                                       (* :263 *)
        (None, s)                                         (* :265 *)
    end in
  (PCL first size, debug_assert_nones p s).               (* :268 *)

(** PossibleCycles::remove_first, lists.rs:273-294 *)
Definition pc_remove_first (P : PossibleCycles) (s : pstate) : option id * PossibleCycles * pstate :=
  match pc_first P with                                   (* :274 *)
  | Some first =>
      let '(size, s) := usize_dec (pc_size P) s in        (* :276 *)
      let new_first := nx s first in                      (* :277 *)
      let s := match new_first with                       (* :278-279 *)
               | Some next => set_pv next None s          (* :280 *)
               | None => s
               end in
      let s := set_nx first None s in                     (* :282 *)
      let s := set_mk first NM s in                       (* :286 *)
      (Some first, PCL new_first size, s)                 (* :288 *)
  | None => (None, P, s)                                  (* :290-292 *)
  end.

(** PossibleCycles::is_empty, lists.rs:297-299 *)
Definition pc_is_empty (P : PossibleCycles) : bool := is_none (pc_first P).

Definition pc_iter (fuel : nat) (P : PossibleCycles) (s : pstate) : list id :=   (* :339-341 *)
  walk fuel (nx s) (pc_first P).

(** CounterMarker::reset_tracing_counter, counter_marker.rs:130-133 (with its debug_assert). *)
Definition reset_tracing_counter (p : id) (s : pstate) : pstate :=
  let s := fire_if (tc s p =? tc_reserved)%N s in         (* cm:131 *)
  set_tc p 0 s.                                           (* cm:132 *)

(** The [for elem in self.iter()] loop of mark_self_and_append, lists.rs:308-314.  [cur] is the
    iterator state, [prev] the local variable; Iter::next reads [elem.next] (:162) before the body
    runs.  [None] = not finished within [fuel] iterations. *)
Fixpoint msa_loop (fuel : nat) (cur : ptr) (prev : id) (m : mark) (s : pstate) : option (id * pstate) :=
  match fuel with
  | 0 => None
  | S f =>
      match cur with
      | None => Some (prev, s)
      | Some elem =>
          let cur := nx s elem in                         (* :162 *)
          let s := reset_tracing_counter elem s in        (* :310 *)
          let s := set_mk elem m s in                     (* :311 *)
          msa_loop f cur elem m s                         (* :313 *)
      end
  end.

(** PossibleCycles::mark_self_and_append, lists.rs:306-327 ([to_append] is consumed and
    forgotten, :326: the caller's variable is dead afterwards). *)
Definition pc_mark_self_and_append (fuel : nat) (m : mark) (to_append : LinkedList) (n : N)
    (P : PossibleCycles) (s : pstate) : option (PossibleCycles * pstate) :=
  match pc_first P with                                   (* :307 *)
  | Some first =>
      match msa_loop fuel (Some first) first m s with     (* :308-314 *)
      | None => None
      | Some (prev, s) =>
          let s := match ll_first to_append with          (* :316 *)
                   | Some p =>
                       let s := set_nx prev (ll_first to_append) s in   (* :317 *)
                       set_pv p (Some prev) s                           (* :318 *)
                   | None => s
                   end in
          Some (PCL (pc_first P) (pc_size P + n)%N, s)    (* :325 *)
      end
  | None =>
      Some (PCL (ll_first to_append) (pc_size P + n)%N, s)   (* :322, :325 *)
  end.

(** PossibleCycles::swap_list, lists.rs:333-336 *)
Definition pc_swap_list (to_swap : LinkedList) (n : N) (P : PossibleCycles)
    : PossibleCycles * LinkedList :=
  (PCL (ll_first to_swap) n,                              (* :334, :335 replace *)
   LL (pc_first P)).                                      (* :335 *)

(** Drop for PossibleCycles, lists.rs:357-365 *)
Fixpoint pc_drop (fuel : nat) (P : PossibleCycles) (s : pstate) : option (PossibleCycles * pstate) :=
  match fuel with
  | 0 => None
  | S f =>
      match pc_remove_first P s with                      (* :361 *)
      | (Some _, P, s) => pc_drop f P s
      | (None, P, s) => Some (P, s)
      end
  end.

(** *** LinkedQueue *)

(** LinkedQueue::add, lists.rs:395-407 *)
Definition q_add (p : id) (Q : LinkedQueue) (s : pstate) : LinkedQueue * pstate :=
  let s := debug_assert_nones p s in                      (* :396 *)
  let '(Q, s) := match q_last Q with                      (* :398 *)
                 | Some last => (Q, set_nx last (Some p) s)        (* :400 *)
                 | None => (LQ (Some p) (q_last Q), s)             (* :403 *)
                 end in
  (LQ (q_first Q) (Some p), s).                           (* :406 *)

(** LinkedQueue::peek, lists.rs:410-412 *)
Definition q_peek (Q : LinkedQueue) : ptr := q_first Q.

(** LinkedQueue::poll, lists.rs:415-434 *)
Definition q_poll (Q : LinkedQueue) (s : pstate) : option id * LinkedQueue * pstate :=
  match q_first Q with                                    (* :416 *)
  | Some first =>
      let Q := LQ (nx s first) (q_last Q) in              (* :418 *)
      let Q := if is_none (q_first Q) then LQ (q_first Q) None else Q in   (* :419-422 *)
      let s := set_nx first None s in                     (* :423 *)
      let s := set_mk first NM s in                       (* :426 *)
      (Some first, Q, s)                                  (* :428 *)
  | None => (None, Q, s)                                  (* :430-432 *)
  end.

(** LinkedQueue::is_empty, lists.rs:437-439 *)
Definition q_is_empty (Q : LinkedQueue) : bool := is_none (q_peek Q).

(** Drop for LinkedQueue, lists.rs:442-450 *)
Fixpoint q_drop (fuel : nat) (Q : LinkedQueue) (s : pstate) : option (LinkedQueue * pstate) :=
  match fuel with
  | 0 => None
  | S f =>
      match q_poll Q s with                               (* :446 *)
      | (Some _, Q, s) => q_drop f Q s
      | (None, Q, s) => Some (Q, s)
      end
  end.

(** ** 3. Representation predicates *)

(** [dseg nxf pvf prev cur l out]: starting at [cur] and following [nxf], one meets exactly the
    nodes of [l] and then [out]; the [prev] link of the first node is [prev], that of every
    other node is its predecessor. *)
Fixpoint dseg (nxf pvf : id -> ptr) (prev cur : ptr) (l : list id) (out : ptr) : Prop :=
  match l with
  | [] => cur = out
  | x :: l' => cur = Some x /\ pvf x = prev /\ dseg nxf pvf (Some x) (nxf x) l' out
  end.

(** [dll first nx pv l]: [l] is the list of node ids from [first] following [nx]; [pv] of the
    head is [None], [pv] of every other node is its predecessor, [nx] of the last is [None], and
    no node occurs twice. *)
Definition dll (first : ptr) (nxf pvf : id -> ptr) (l : list id) : Prop :=
  dseg nxf pvf None first l None /\ NoDup l.

(** Every node that is not in [l] is unlinked. *)
Definition outside (nxf pvf : id -> ptr) (l : list id) : Prop :=
  forall x, x ∉ l -> nxf x = None /\ pvf x = None.

(** The last node of [l], or [d]. *)
Fixpoint lastd (d : id) (l : list id) : id :=
  match l with [] => d | x :: l' => lastd x l' end.
Fixpoint lastp (p : ptr) (l : list id) : ptr :=
  match l with [] => p | x :: l' => lastp (Some x) l' end.

(** The queue uses [next] only. *)
Fixpoint sseg (nxf : id -> ptr) (cur : ptr) (l : list id) (out : ptr) : Prop :=
  match l with
  | [] => cur = out
  | x :: l' => cur = Some x /\ sseg nxf (nxf x) l' out
  end.

Definition sll (first last_ : ptr) (nxf : id -> ptr) (l : list id) : Prop :=
  sseg nxf first l None /\ last_ = lastp None l /\ NoDup l.

(** [s] and [s'] have the same links at every node outside [l]. *)
Definition links_same_outside (l : list id) (s s' : pstate) : Prop :=
  forall y, y ∉ l -> nx s' y = nx s y /\ pv s' y = pv s y.

Lemma lastp_Some d l : lastp (Some d) l = Some (lastd d l).
Proof. revert d; induction l as [|x l IH]; intros d; simpl; auto. Qed.
Lemma lastp_snoc p l z : lastp p (l ++ [z]) = Some z.
Proof. revert p; induction l as [|x l IH]; intros p; simpl; auto. Qed.
Lemma lastd_snoc d l z : lastd d (l ++ [z]) = z.
Proof. revert d; induction l as [|x l IH]; intros d; simpl; auto. Qed.
Lemma lastd_cons_in d l : l <> [] -> lastd d l ∈ l.
Proof.
  revert d; induction l as [|x l IH]; intros d H; [congruence|].
  simpl. destruct l as [|y l]; [simpl; left|]. right. apply IH. congruence.
Qed.

(** *** Algebra of [dseg] *)

Lemma dseg_frame nxf pvf nxf' pvf' prev cur l out :
  (forall x, x ∈ l -> nxf' x = nxf x /\ pvf' x = pvf x) ->
  dseg nxf pvf prev cur l out -> dseg nxf' pvf' prev cur l out.
Proof.
  revert prev cur; induction l as [|x l IH]; intros prev cur Hf H; simpl in *; auto.
  destruct H as (-> & Hp & H). destruct (Hf x) as [E1 E2]; [left|].
  split; [reflexivity|]. split; [congruence|]. rewrite E1. apply IH; auto.
  intros y Hy. apply Hf. now right.
Qed.

Lemma dseg_app nxf pvf prev cur l1 l2 out :
  dseg nxf pvf prev cur (l1 ++ l2) out <->
  exists mid, dseg nxf pvf prev cur l1 mid /\ dseg nxf pvf (lastp prev l1) mid l2 out.
Proof.
  revert prev cur; induction l1 as [|x l1 IH]; intros prev cur; simpl.
  - split; [intros H; exists cur; auto|]. intros (mid & -> & H); auto.
  - rewrite IH. split.
    + intros (-> & Hp & mid & H1 & H2). exists mid; auto.
    + intros (mid & (-> & Hp & H1) & H2). split; [auto|]. split; [auto|]. exists mid; auto.
Qed.

Lemma dseg_snoc nxf pvf prev cur l z out :
  dseg nxf pvf prev cur (l ++ [z]) out <->
  dseg nxf pvf prev cur l (Some z) /\ pvf z = lastp prev l /\ nxf z = out.
Proof.
  rewrite dseg_app. simpl. split.
  - intros (mid & H1 & -> & H2 & H3); auto.
  - intros (H1 & H2 & H3). exists (Some z); auto.
Qed.

(** The list a head represents is unique. *)
Lemma dseg_inj nxf pvf prev cur l l' :
  dseg nxf pvf prev cur l None -> dseg nxf pvf prev cur l' None -> l = l'.
Proof.
  revert prev cur l'; induction l as [|x l IH]; intros prev cur l' H H'.
  - simpl in H; subst. destruct l'; auto. simpl in H'. destruct H' as [? _]; discriminate.
  - simpl in H. destruct H as (-> & _ & H). destruct l' as [|y l']; simpl in H'.
    + discriminate.
    + destruct H' as (E & _ & H'). injection E as <-. f_equal. eapply IH; eauto.
Qed.

Theorem dll_unique first nxf pvf l l' :
  dll first nxf pvf l -> dll first nxf pvf l' -> l = l'.
Proof. intros [H _] [H' _]. eapply dseg_inj; eauto. Qed.

Lemma dll_frame first nxf pvf nxf' pvf' l :
  (forall x, x ∈ l -> nxf' x = nxf x /\ pvf' x = pvf x) ->
  dll first nxf pvf l -> dll first nxf' pvf' l.
Proof. intros Hf [H N]. split; auto. eapply dseg_frame; eauto. Qed.

(** A list disjoint from the footprint of an operation is not disturbed by it. *)
Lemma dll_other first l fp s s' :
  links_same_outside fp s s' -> (forall x, x ∈ l -> x ∉ fp) ->
  dll first (nx s) (pv s) l -> dll first (nx s') (pv s') l.
Proof. intros Hs Hd. apply dll_frame. intros x Hx. apply Hs, Hd, Hx. Qed.

Lemma outside_frame l fp s s' :
  links_same_outside fp s s' -> (forall x, x ∈ fp -> x ∈ l) ->
  (forall x, x ∈ fp -> x ∉ l -> nx s' x = None /\ pv s' x = None) ->
  outside (nx s) (pv s) l -> outside (nx s') (pv s') l.
Proof.
  intros Hs Hsub _ Ho x Hx. destruct (Hs x) as [-> ->]; [|apply Ho, Hx].
  intros Hfp. apply Hx, Hsub, Hfp.
Qed.

Lemma dseg_nil_head nxf pvf prev l : dseg nxf pvf prev None l None -> l = [].
Proof. destruct l; simpl; auto. intros [? _]; discriminate. Qed.

Lemma dll_nil nxf pvf : dll None nxf pvf [].
Proof. split; [reflexivity|constructor]. Qed.

Lemma dll_head first nxf pvf l : dll first nxf pvf l -> first = head l.
Proof. intros [H _]. destruct l; simpl in *; [auto|tauto]. Qed.

(** The iterator yields exactly the represented list. *)
Lemma walk_dseg nxf pvf prev cur l fuel :
  dseg nxf pvf prev cur l None -> length l <= fuel -> walk fuel nxf cur = l.
Proof.
  revert prev cur fuel; induction l as [|x l IH]; intros prev cur fuel H Hl; simpl in *.
  - subst. destruct fuel; reflexivity.
  - destruct H as (-> & _ & H). destruct fuel as [|fuel]; [lia|]. simpl. f_equal.
    eapply IH; eauto. lia.
Qed.

(** *** Algebra of [sseg] *)

Lemma sseg_frame nxf nxf' cur l out :
  (forall x, x ∈ l -> nxf' x = nxf x) -> sseg nxf cur l out -> sseg nxf' cur l out.
Proof.
  revert cur; induction l as [|x l IH]; intros cur Hf H; simpl in *; auto.
  destruct H as (-> & H). split; [reflexivity|]. rewrite (Hf x) by left. apply IH; auto.
  intros y Hy. apply Hf. now right.
Qed.

Lemma sseg_app nxf cur l1 l2 out :
  sseg nxf cur (l1 ++ l2) out <-> exists mid, sseg nxf cur l1 mid /\ sseg nxf mid l2 out.
Proof.
  revert cur; induction l1 as [|x l1 IH]; intros cur; simpl.
  - split; [intros H; exists cur; auto|]. intros (mid & -> & H); auto.
  - rewrite IH. split.
    + intros (-> & mid & H1 & H2). exists mid; auto.
    + intros (mid & (-> & H1) & H2). split; [auto|]. exists mid; auto.
Qed.

Lemma sseg_snoc nxf cur l z out :
  sseg nxf cur (l ++ [z]) out <-> sseg nxf cur l (Some z) /\ nxf z = out.
Proof.
  rewrite sseg_app. simpl. split.
  - intros (mid & H1 & -> & H2); auto.
  - intros (H1 & H2). exists (Some z); auto.
Qed.

Lemma sseg_inj nxf cur l l' : sseg nxf cur l None -> sseg nxf cur l' None -> l = l'.
Proof.
  revert cur l'; induction l as [|x l IH]; intros cur l' H H'.
  - simpl in H; subst. destruct l'; auto. simpl in H'. destruct H' as [? _]; discriminate.
  - simpl in H. destruct H as (-> & H). destruct l' as [|y l']; simpl in H'.
    + discriminate.
    + destruct H' as (E & H'). injection E as <-. f_equal. eapply IH; eauto.
Qed.

Theorem sll_unique first la la' nxf l l' : sll first la nxf l -> sll first la' nxf l' -> l = l'.
Proof. intros [H _] [H' _]. eapply sseg_inj; eauto. Qed.

Lemma dseg_sseg nxf pvf prev cur l out : dseg nxf pvf prev cur l out -> sseg nxf cur l out.
Proof. revert prev cur; induction l; simpl; intros prev cur H; auto. destruct H as (?&?&?); eauto. Qed.

Lemma walk_sseg nxf cur l fuel :
  sseg nxf cur l None -> length l <= fuel -> walk fuel nxf cur = l.
Proof.
  revert cur fuel; induction l as [|x l IH]; intros cur fuel H Hl; simpl in *.
  - subst. destruct fuel; reflexivity.
  - destruct H as (-> & H). destruct fuel as [|fuel]; [lia|]. simpl. f_equal.
    eapply IH; eauto. lia.
Qed.

(** ** 4. Refinement *)

(** [Machine.remove_id], verbatim (Machine.v:213). *)
Definition remove_id (x : id) (l : list id) : list id := filter (fun y => y ≠ x) l.

Lemma remove_id_notin x l : x ∉ l -> remove_id x l = l.
Proof.
  unfold remove_id. induction l as [|a l IH]; intros H; [reflexivity|].
  apply not_elem_of_cons in H as [H1 H2].
  rewrite filter_cons_True by congruence. f_equal; auto.
Qed.

Lemma remove_id_split x l1 l2 :
  x ∉ l1 -> x ∉ l2 -> remove_id x (l1 ++ x :: l2) = l1 ++ l2.
Proof.
  intros H1 H2. unfold remove_id. rewrite list.filter_app, filter_cons_False by tauto.
  f_equal; apply remove_id_notin; auto.
Qed.

Lemma rev_case {A} (l : list A) : l = [] \/ exists l' z, l = l' ++ [z].
Proof. induction l using rev_ind; [left|right]; eauto. Qed.

Lemma debug_assert_nones_ok p s :
  nx s p = None -> pv s p = None -> debug_assert_nones p s = s.
Proof. intros H1 H2. unfold debug_assert_nones. rewrite H1. simpl. rewrite H2. reflexivity. Qed.

Lemma fire_if_nx b s : nx (fire_if b s) = nx s. Proof. destruct b; reflexivity. Qed.
Lemma fire_if_pv b s : pv (fire_if b s) = pv s. Proof. destruct b; reflexivity. Qed.
Lemma fire_if_mk b s : mk (fire_if b s) = mk s. Proof. destruct b; reflexivity. Qed.
Lemma fire_if_tc b s : tc (fire_if b s) = tc s. Proof. destruct b; reflexivity. Qed.
Lemma fire_if_fired b s : fired (fire_if b s) = fired s || b.
Proof. destruct b; simpl; [rewrite orb_true_r|rewrite orb_false_r]; reflexivity. Qed.

Lemma debug_assert_nones_nx p s : nx (debug_assert_nones p s) = nx s.
Proof. unfold debug_assert_nones. now rewrite !fire_if_nx. Qed.
Lemma debug_assert_nones_pv p s : pv (debug_assert_nones p s) = pv s.
Proof. unfold debug_assert_nones. now rewrite !fire_if_pv. Qed.
Lemma debug_assert_nones_mk p s : mk (debug_assert_nones p s) = mk s.
Proof. unfold debug_assert_nones. now rewrite !fire_if_mk. Qed.
Lemma debug_assert_nones_tc p s : tc (debug_assert_nones p s) = tc s.
Proof. unfold debug_assert_nones. now rewrite !fire_if_tc. Qed.
Lemma debug_assert_nones_fired p s :
  fired (debug_assert_nones p s) = fired s || negb (is_none (nx s p)) || negb (is_none (pv s p)).
Proof. unfold debug_assert_nones. now rewrite !fire_if_fired, fire_if_pv. Qed.

Ltac psimpl := cbn [nx pv mk tc fired set_nx set_pv set_mk set_tc fire fire_if
                    ll_first pc_first pc_size q_first q_last fst snd] in *.

(** solve [a <> b] from membership facts *)
Ltac neq := let E := fresh in intros E; subst; (tauto || congruence || (exfalso; eauto using elem_of_list_here, elem_of_list_further)).
Ltac notin_dec := repeat match goal with
  | H : _ ∉ _ ++ _ |- _ => apply not_elem_of_app in H as [? ?]
  | H : _ ∉ _ :: _ |- _ => apply not_elem_of_cons in H as [? ?]
  end.
Ltac splits := repeat match goal with |- _ /\ _ => split end.
Ltac fs := repeat (rewrite fupd_eq || rewrite fupd_ne by neq).

(** *** LinkedList::add = cons *)
Theorem ll_add_refines x L s l L' s' :
  dll (ll_first L) (nx s) (pv s) l -> x ∉ l -> nx s x = None -> pv s x = None ->
  ll_add x L s = (L', s') ->
  dll (ll_first L') (nx s') (pv s') (x :: l) /\
  fired s' = fired s /\ mk s' = mk s /\ tc s' = tc s /\
  links_same_outside (x :: l) s s'.
Proof.
  intros [Hd Hn] Hx Hnx Hpv E. unfold ll_add in E. rewrite debug_assert_nones_ok in E by auto.
  destruct l as [|a l]; simpl in Hd.
  - rewrite Hd in E. injection E as <- <-. psimpl.
    repeat split; simpl; auto. apply NoDup_singleton.
  - destruct Hd as (Hf & Hpa & Hd). rewrite Hf in E. injection E as <- <-. psimpl.
    apply not_elem_of_cons in Hx as [Hxa Hxl]. apply list.NoDup_cons in Hn as [Hal Hn].
    split; [split|].
    + simpl. fs. repeat split; auto.
      eapply dseg_frame; [|exact Hd]. intros y Hy. fs. auto.
    + apply list.NoDup_cons. split; [|apply list.NoDup_cons; auto]. apply not_elem_of_cons; auto.
    + repeat split; auto; fs; auto.
      all: apply not_elem_of_cons in H as [? H]; apply not_elem_of_cons in H as [? H]; psimpl; fs; auto.
Qed.

(** *** LinkedList::remove = remove_id *)

(** what a removed / popped node looks like *)
Definition unlinked (s : pstate) (x : id) : Prop := nx s x = None /\ pv s x = None.

Theorem ll_remove_refines x L s l L' s' :
  dll (ll_first L) (nx s) (pv s) l -> x ∈ l ->
  ll_remove x L s = (L', s') ->
  dll (ll_first L') (nx s') (pv s') (remove_id x l) /\ unlinked s' x /\
  fired s' = fired s /\ mk s' = mk s /\ tc s' = tc s /\
  links_same_outside l s s'.
Proof.
  intros [Hd Hn] Hx E.
  apply elem_of_list_split in Hx as (l1 & l2 & ->).
  apply NoDup_app in Hn as (Hn1 & Hn12 & Hn2). apply list.NoDup_cons in Hn2 as [Hx2 Hn2].
  assert (Hx1 : x ∉ l1) by (intros H; apply (Hn12 _ H); left).
  assert (H12 : forall y, y ∈ l1 -> y ∉ l2) by (intros y H H'; apply (Hn12 _ H); now right).
  rewrite remove_id_split by auto.
  apply dseg_app in Hd as (mid & Hd1 & Hd2). simpl in Hd2. destruct Hd2 as (-> & Hpx & Hd2).
  unfold ll_remove in E.
  destruct (rev_case l1) as [->|(l1' & p & ->)]; simpl in Hpx;
    [|rewrite lastp_snoc in Hpx; apply dseg_snoc in Hd1 as (Hd1 & Hpp & Hnp);
      apply not_elem_of_app in Hx1 as [Hx1 Hxp]; apply not_elem_of_cons in Hxp as [Hxp _];
      apply NoDup_app in Hn1 as (Hn1 & Hn1p & _);
      assert (Hp1 : p ∉ l1') by (intros H; apply (Hn1p _ H); left);
      assert (Hp2 : p ∉ l2) by (apply H12, elem_of_app; right; left);
      assert (H12' : forall y, y ∈ l1' -> y ∉ l2) by (intros y H; apply H12, elem_of_app; now left)];
  (destruct l2 as [|n l2]; simpl in Hd2;
    [|destruct Hd2 as (Hnxx & Hpn & Hd2);
      apply not_elem_of_cons in Hx2 as [Hxn Hx2]; apply list.NoDup_cons in Hn2 as [Hn2n Hn2]]);
  try rewrite Hd2 in E; try rewrite Hnxx in E; rewrite Hpx in E.
  - (* only element *)
    simpl in Hd1. injection E as <- <-. rewrite debug_assert_nones_ok by auto.
    repeat split; auto.
  - (* first element, next = n *)
    simpl in Hd1. injection E as <- <-. rewrite debug_assert_nones_ok by (psimpl; fs; auto).
    repeat split; psimpl; intros; notin_dec; fs; auto.
    + eapply dseg_frame; [|exact Hd2]. intros y Hy. psimpl. fs. auto.
    + apply list.NoDup_cons; auto.
  - (* last element, prev = p *)
    injection E as <- <-. rewrite debug_assert_nones_ok by (psimpl; fs; auto).
    rewrite app_nil_r. repeat split; psimpl; intros; notin_dec; fs; auto.
    + apply dseg_snoc. fs. repeat split; auto.
      eapply dseg_frame; [|exact Hd1]. intros y Hy. fs. auto.
    + apply NoDup_app. repeat split; auto. apply NoDup_singleton.
  - (* in between p and n *)
    injection E as <- <-. rewrite debug_assert_nones_ok by (psimpl; fs; auto).
    assert (Hpn' : p <> n) by (intros ->; apply Hp2; left).
    assert (Hp2' : p ∉ l2) by (intros H; apply Hp2; now right).
    repeat split; psimpl; intros; notin_dec; fs; auto.
    + apply dseg_app. exists (Some n). split.
      * apply dseg_snoc. fs. repeat split; auto.
        eapply dseg_frame; [|exact Hd1]. intros y Hy.
        assert (Hy' : y ∉ n :: l2) by (apply H12'; auto). notin_dec. fs. auto.
      * rewrite lastp_snoc. simpl. fs. repeat split; auto.
        eapply dseg_frame; [|exact Hd2]. intros y Hy. fs. auto.
    + apply NoDup_app. repeat split; auto.
      * apply NoDup_app. repeat split; auto. apply NoDup_singleton.
      * apply list.NoDup_cons; auto.
Qed.

(** *** LinkedList::remove_first = pop front *)
Theorem ll_remove_first_nil L s :
  dll (ll_first L) (nx s) (pv s) [] -> ll_remove_first L s = (None, L, s).
Proof. intros [Hd _]. simpl in Hd. unfold ll_remove_first. now rewrite Hd. Qed.

Theorem ll_remove_first_refines x L s l r L' s' :
  dll (ll_first L) (nx s) (pv s) (x :: l) ->
  ll_remove_first L s = (r, L', s') ->
  r = Some x /\ dll (ll_first L') (nx s') (pv s') l /\ unlinked s' x /\
  mk s' x = NM /\ (forall y, y <> x -> mk s' y = mk s y) /\
  fired s' = fired s /\ tc s' = tc s /\ links_same_outside (x :: l) s s'.
Proof.
  intros [Hd Hn] E. simpl in Hd. destruct Hd as (Hf & Hpx & Hd).
  apply list.NoDup_cons in Hn as [Hxl Hn].
  unfold ll_remove_first in E. rewrite Hf in E. psimpl.
  destruct l as [|n l]; simpl in Hd.
  - rewrite Hd in E. injection E as <- <- <-.
    repeat split; psimpl; intros; notin_dec; fs; auto.
  - destruct Hd as (Hnx & Hpn & Hd). rewrite Hnx in E. injection E as <- <- <-.
    apply list.NoDup_cons in Hn as [Hnl Hn]. 
    repeat split; psimpl; intros; notin_dec; fs; auto.
    + eapply dseg_frame; [|exact Hd]. intros y Hy. fs. auto.
    + apply list.NoDup_cons; auto.
Qed.

(** *** Drop for LinkedList *)
Theorem ll_drop_refines l : forall L s fuel,
  dll (ll_first L) (nx s) (pv s) l -> length l < fuel ->
  exists s', ll_drop fuel L s = Some (LL None, s') /\
    (forall x, x ∈ l -> unlinked s' x /\ mk s' x = NM) /\
    (forall y, y ∉ l -> mk s' y = mk s y) /\
    fired s' = fired s /\ tc s' = tc s /\ links_same_outside l s s'.
Proof.
  induction l as [|x l IH]; intros L s fuel Hd Hl; (destruct fuel as [|fuel]; [simpl in Hl; lia|]).
  - simpl. rewrite ll_remove_first_nil by auto. destruct Hd as [Hd _]. simpl in Hd.
    destruct L as [f]; simpl in Hd; subst. exists s. repeat split; auto; intros; match goal with H : _ ∈ [] |- _ => inversion H end.
  - simpl. destruct (ll_remove_first L s) as [[r L1] s1] eqn:E.
    pose proof Hd as [_ Hn]. apply list.NoDup_cons in Hn as [Hxl Hn].
    destruct (ll_remove_first_refines _ _ _ _ _ _ _ Hd E)
      as (-> & Hd1 & [Hu1 Hu2] & Hm & Hm' & Hf & Ht & Hl1).
    destruct (IH L1 s1 fuel Hd1) as (s' & E' & Hin & Hout & Hf' & Ht' & Hl'); [simpl in Hl; lia|].
    exists s'. split; [exact E'|].
    split; [|split; [|split; [congruence|split; [congruence|]]]].
    + intros y Hy. apply elem_of_cons in Hy as [->|Hy]; [|auto].
      destruct (Hl' x Hxl) as [E1 E2]. split; [split; congruence|]. rewrite Hout; auto.
    + intros y Hy. notin_dec. rewrite Hout, Hm'; auto.
    + intros y Hy. destruct (Hl1 y Hy) as [<- <-]. notin_dec. apply Hl'. auto.
Qed.

(** LinkedList::iter yields the represented list. *)
Theorem ll_iter_refines L s l fuel :
  dll (ll_first L) (nx s) (pv s) l -> length l <= fuel -> ll_iter fuel L s = l.
Proof. intros [Hd _] Hl. eapply walk_dseg; eauto. Qed.

Theorem ll_is_empty_refines L s l :
  dll (ll_first L) (nx s) (pv s) l -> ll_is_empty L = true <-> l = [].
Proof.
  intros [Hd _]. unfold ll_is_empty. destruct l; simpl in Hd.
  - rewrite Hd. simpl. tauto.
  - destruct Hd as [-> _]. simpl. split; discriminate.
Qed.

(** *** PossibleCycles: the same list plus the cached size *)
Definition pcl (P : PossibleCycles) (s : pstate) (l : list id) : Prop :=
  dll (pc_first P) (nx s) (pv s) l /\ pc_size P = N.of_nat (length l).

Lemma pc_add_ll p P s :
  pc_add p P s =
  (PCL (ll_first (ll_add p (LL (pc_first P)) s).1) (N.succ (pc_size P)), (ll_add p (LL (pc_first P)) s).2).
Proof. unfold pc_add, ll_add. simpl. destruct (pc_first P); reflexivity. Qed.

Lemma usize_dec_pos n s : n <> 0%N -> usize_dec n s = ((n - 1)%N, s).
Proof. intros H. unfold usize_dec. destruct (N.eqb_spec n 0); congruence. Qed.

Lemma pc_remove_ll p P s :
  pc_size P <> 0%N ->
  pc_remove p P s =
  (PCL (ll_first (ll_remove p (LL (pc_first P)) s).1) (pc_size P - 1), (ll_remove p (LL (pc_first P)) s).2).
Proof.
  intros H. unfold pc_remove, ll_remove. rewrite usize_dec_pos by auto.
  destruct (nx s p), (pv s p); reflexivity.
Qed.

Lemma pc_remove_first_ll P s :
  pc_size P <> 0%N ->
  pc_remove_first P s =
  let '(r, L, s') := ll_remove_first (LL (pc_first P)) s in
  (r, PCL (ll_first L) (match r with Some _ => pc_size P - 1 | None => pc_size P end), s').
Proof.
  intros H. unfold pc_remove_first, ll_remove_first. simpl.
  destruct P as [f n]; simpl in *. destruct f; [|reflexivity].
  rewrite usize_dec_pos by auto. reflexivity.
Qed.

Theorem pc_add_refines x P s l P' s' :
  pcl P s l -> x ∉ l -> nx s x = None -> pv s x = None ->
  pc_add x P s = (P', s') ->
  pcl P' s' (x :: l) /\ pc_size P' = N.succ (pc_size P) /\
  fired s' = fired s /\ mk s' = mk s /\ tc s' = tc s /\
  links_same_outside (x :: l) s s'.
Proof.
  intros [Hd Hs] Hx Hnx Hpv E. rewrite pc_add_ll in E.
  destruct (ll_add x (LL (pc_first P)) s) as [L1 s1] eqn:E1. simpl in E. injection E as <- <-.
  destruct (ll_add_refines x (LL (pc_first P)) s l L1 s1) as (Hd' & R); auto.
  split; [split|]; simpl; auto. rewrite Hs. lia.
Qed.

Theorem pc_remove_refines x P s l P' s' :
  pcl P s l -> x ∈ l ->
  pc_remove x P s = (P', s') ->
  pcl P' s' (remove_id x l) /\ pc_size P' = (pc_size P - 1)%N /\ pc_size P <> 0%N /\
  unlinked s' x /\ fired s' = fired s /\ mk s' = mk s /\ tc s' = tc s /\
  links_same_outside l s s'.
Proof.
  intros [Hd Hs] Hx E.
  assert (Hpos : pc_size P <> 0%N).
  { rewrite Hs. destruct l; [inversion Hx|simpl; lia]. }
  rewrite pc_remove_ll in E by auto.
  destruct (ll_remove x (LL (pc_first P)) s) as [L1 s1] eqn:E1. simpl in E. injection E as <- <-.
  destruct (ll_remove_refines x (LL (pc_first P)) s l L1 s1) as (Hd' & R); auto.
  split; [split|]; simpl; auto.
  pose proof Hd as [_ Hn]. apply elem_of_list_split in Hx as (l1 & l2 & ->).
  apply NoDup_app in Hn as (_ & Hn12 & Hn2). apply list.NoDup_cons in Hn2 as [Hx2 _].
  rewrite remove_id_split; auto.
  - rewrite Hs, !app_length. simpl. lia.
  - intros H; apply (Hn12 _ H); left.
Qed.

Theorem pc_remove_first_nil P s :
  pcl P s [] -> pc_remove_first P s = (None, P, s).
Proof. intros [[Hd _] _]. simpl in Hd. unfold pc_remove_first. now rewrite Hd. Qed.

Theorem pc_remove_first_refines x P s l r P' s' :
  pcl P s (x :: l) ->
  pc_remove_first P s = (r, P', s') ->
  r = Some x /\ pcl P' s' l /\ pc_size P' = (pc_size P - 1)%N /\ unlinked s' x /\
  mk s' x = NM /\ (forall y, y <> x -> mk s' y = mk s y) /\
  fired s' = fired s /\ tc s' = tc s /\ links_same_outside (x :: l) s s'.
Proof.
  intros [Hd Hs] E.
  assert (Hpos : pc_size P <> 0%N) by (rewrite Hs; simpl; lia).
  rewrite pc_remove_first_ll in E by auto.
  destruct (ll_remove_first (LL (pc_first P)) s) as [[r1 L1] s1] eqn:E1.
  destruct (ll_remove_first_refines x (LL (pc_first P)) s l r1 L1 s1) as (-> & Hd' & R); auto.
  injection E as <- <- <-. split; [reflexivity|]. split; [split|]; simpl; auto.
  rewrite Hs. cbn [length]. lia.
Qed.

Theorem pc_drop_refines l : forall P s fuel,
  pcl P s l -> length l < fuel ->
  exists s', pc_drop fuel P s = Some (PCL None 0, s') /\
    (forall x, x ∈ l -> unlinked s' x /\ mk s' x = NM) /\
    (forall y, y ∉ l -> mk s' y = mk s y) /\
    fired s' = fired s /\ tc s' = tc s /\ links_same_outside l s s'.
Proof.
  induction l as [|x l IH]; intros P s fuel Hd Hl; (destruct fuel as [|fuel]; [simpl in Hl; lia|]).
  - simpl. rewrite pc_remove_first_nil by auto. destruct Hd as [[Hd _] Hs]. simpl in Hd, Hs.
    destruct P as [f n]; simpl in Hd, Hs; subst. exists s. repeat split; auto; intros; match goal with H : _ ∈ [] |- _ => inversion H end.
  - simpl. destruct (pc_remove_first P s) as [[r P1] s1] eqn:E.
    pose proof Hd as [[_ Hn] _]. apply list.NoDup_cons in Hn as [Hxl Hn].
    destruct (pc_remove_first_refines _ _ _ _ _ _ _ Hd E)
      as (-> & Hd1 & _ & [Hu1 Hu2] & Hm & Hm' & Hf & Ht & Hl1).
    destruct (IH P1 s1 fuel Hd1) as (s' & E' & Hin & Hout & Hf' & Ht' & Hl'); [simpl in Hl; lia|].
    exists s'. split; [exact E'|].
    split; [|split; [|split; [congruence|split; [congruence|]]]].
    + intros y Hy. apply elem_of_cons in Hy as [->|Hy]; [|auto].
      destruct (Hl' x Hxl) as [E1 E2]. split; [split; congruence|]. rewrite Hout; auto.
    + intros y Hy. notin_dec. rewrite Hout, Hm'; auto.
    + intros y Hy. destruct (Hl1 y Hy) as [<- <-]. notin_dec. apply Hl'. auto.
Qed.

Theorem pc_iter_refines P s l fuel :
  pcl P s l -> length l <= fuel -> pc_iter fuel P s = l.
Proof. intros [[Hd _] _] Hl. eapply walk_dseg; eauto. Qed.

Theorem pc_is_empty_refines P s l : pcl P s l -> pc_is_empty P = true <-> l = [].
Proof.
  intros [[Hd _] _]. unfold pc_is_empty. destruct l; simpl in Hd.
  - rewrite Hd. simpl. tauto.
  - destruct Hd as [-> _]. simpl. split; discriminate.
Qed.

Theorem pc_size_refines P s l : pcl P s l -> pc_size P = N.of_nat (length l).
Proof. now intros [_ H]. Qed.

(** *** swap_list and mark_self_and_append *)

Theorem pc_swap_list_refines P A n s lp la P' A' :
  pcl P s lp -> dll (ll_first A) (nx s) (pv s) la -> n = N.of_nat (length la) ->
  pc_swap_list A n P = (P', A') ->
  pcl P' s la /\ dll (ll_first A') (nx s) (pv s) lp.
Proof. intros [Hp _] Ha -> E. injection E as <- <-. repeat split; simpl; auto; apply Ha || apply Hp. Qed.

Lemma reset_tracing_counter_ok p s :
  tc s p <> tc_reserved -> reset_tracing_counter p s = set_tc p 0 s.
Proof.
  intros H. unfold reset_tracing_counter. destruct (N.eqb_spec (tc s p) tc_reserved); [congruence|reflexivity].
Qed.

(** the marking loop: links untouched, every visited node gets [m] and tracing counter 0, the
    loop variable ends on the last node *)
Lemma msa_loop_spec m l : forall prev cur prev0 s fuel,
  dseg (nx s) (pv s) prev cur l None -> length l < fuel ->
  (forall x, x ∈ l -> tc s x <> tc_reserved) ->
  exists s', msa_loop fuel cur prev0 m s = Some (lastd prev0 l, s') /\
    nx s' = nx s /\ pv s' = pv s /\ fired s' = fired s /\
    (forall x, x ∈ l -> mk s' x = m /\ tc s' x = 0%N) /\
    (forall y, y ∉ l -> mk s' y = mk s y /\ tc s' y = tc s y).
Proof.
  induction l as [|x l IH]; intros prev cur prev0 s fuel Hd Hl Htc;
    (destruct fuel as [|fuel]; [simpl in Hl; lia|]); simpl in Hd.
  - subst. simpl. exists s. repeat split; auto. all: intros; match goal with H : _ ∈ [] |- _ => inversion H end.
  - destruct Hd as (-> & Hp & Hd). simpl.
    rewrite reset_tracing_counter_ok by (apply Htc; left).
    set (s1 := set_mk x m (set_tc x 0 s)).
    destruct (IH (Some x) (nx s x) x s1 fuel) as (s' & E & Hnx & Hpv & Hf & Hin & Hout).
    + exact Hd.
    + simpl in Hl; lia.
    + intros y Hy. subst s1. psimpl. unfold fupd. destruct (Nat.eqb_spec y x); [subst; discriminate|].
      apply Htc. now right.
    + exists s'. split; [exact E|]. split; [exact Hnx|]. split; [exact Hpv|]. split; [exact Hf|]. split.
      * intros y Hy.
        destruct (decide (y ∈ l)) as [Hyl|Hyl]; [apply Hin; auto|].
        apply elem_of_cons in Hy as [->|Hy]; [|tauto].
        destruct (Hout x Hyl) as [-> ->]. subst s1; psimpl; fs; auto.
      * intros y Hy. notin_dec. destruct (Hout y) as [-> ->]; auto. subst s1; psimpl; fs; auto.
Qed.

Theorem pc_mark_self_and_append_refines fuel m A n P s lp la :
  pcl P s lp -> dll (ll_first A) (nx s) (pv s) la ->
  (forall x, x ∈ lp -> x ∉ la) ->
  (forall x, x ∈ lp -> tc s x <> tc_reserved) ->
  length lp < fuel ->
  exists P' s', pc_mark_self_and_append fuel m A n P s = Some (P', s') /\
    dll (pc_first P') (nx s') (pv s') (lp ++ la) /\
    pc_size P' = (pc_size P + n)%N /\
    (forall x, x ∈ lp -> mk s' x = m /\ tc s' x = 0%N) /\
    (forall y, y ∉ lp -> mk s' y = mk s y /\ tc s' y = tc s y) /\
    fired s' = fired s /\ links_same_outside (lp ++ la) s s'.
Proof.
  intros [[Hp Hnp] Hs] [Ha Hna] Hdisj Htc Hl.
  unfold pc_mark_self_and_append.
  destruct lp as [|a lp']; simpl in Hp.
  - rewrite Hp. eexists _, s. split; [reflexivity|]. simpl.
    splits; auto; try (intros; match goal with H : _ ∈ [] |- _ => inversion H end).
    + split; auto.
    + intros y _; auto.
  - destruct Hp as (Hf & Hpa & Hp). rewrite Hf.
    destruct (msa_loop_spec m (a :: lp') None (Some a) a s fuel) as (s1 & E & Hnx & Hpv & Hfi & Hin & Hout); auto.
    { simpl. auto. }
    rewrite E.
    assert (Hdll1 : dseg (nx s1) (pv s1) None (Some a) (a :: lp') None).
    { rewrite Hnx, Hpv. simpl; auto. }
    destruct la as [|b la']; simpl in Ha.
    + rewrite Ha. eexists _, s1. split; [reflexivity|]. rewrite app_nil_r. simpl pc_first.
      splits; auto; [split; auto|]. intros y _. rewrite Hnx, Hpv. auto.
    + destruct Ha as (Hfa & Hpb & Ha). rewrite Hfa.
      eexists _, _. split; [reflexivity|]. simpl pc_first. simpl pc_size.
      set (z := lastd a (a :: lp')).
      destruct (rev_case (a :: lp')) as [Habs|(l0 & z' & El)]; [discriminate|].
      assert (Ez : z = z') by (subst z; rewrite El; apply lastd_snoc). subst z'.
      rewrite El in Hdll1. apply dseg_snoc in Hdll1 as (Hd0 & Hpz & Hnz).
      assert (Hnd : NoDup (l0 ++ [z])) by (rewrite <- El; auto).
      apply NoDup_app in Hnd as (Hn0 & Hn0z & _).
      assert (Hz0 : z ∉ l0) by (intros H; apply (Hn0z _ H); left).
      assert (Hzla : z ∉ b :: la') by (apply Hdisj; rewrite El; apply elem_of_app; right; left).
      assert (H0la : forall y, y ∈ l0 -> y ∉ b :: la')
        by (intros y Hy; apply Hdisj; rewrite El; apply elem_of_app; now left).
      apply list.NoDup_cons in Hna as [Hbla Hna].
      notin_dec.
      split; [split|].
      * change (a :: lp' ++ b :: la') with ((a :: lp') ++ b :: la'). rewrite El.
        apply dseg_app. exists (Some b). split.
        -- apply dseg_snoc. psimpl. fs. repeat split; auto.
           eapply dseg_frame; [|exact Hd0]. intros y Hy. pose proof (H0la y Hy). notin_dec. fs. auto.
        -- rewrite lastp_snoc. simpl. psimpl. fs. repeat split; auto.
           rewrite Hnx, Hpv. eapply dseg_frame; [|exact Ha]. intros y Hy. fs. auto.
      * change (a :: lp' ++ b :: la') with ((a :: lp') ++ b :: la'). apply NoDup_app.
        repeat split; auto. apply list.NoDup_cons; auto.
      * splits; psimpl; auto.
        intros y Hy; change (a :: lp' ++ b :: la') with ((a :: lp') ++ b :: la') in Hy;
          rewrite El in Hy; notin_dec; psimpl; fs; rewrite ?Hnx, ?Hpv; auto.
Qed.

(** The re-buffering of __collect (lib.rs:333-349): [swap_list] then [mark_self_and_append]
    turn the buffer [lp] and the just-finalized list [L] into the buffer [L ++ lp], with every
    member of [L] marked and its tracing counter reset, and the cached size correct: the
    [pc := L ++ pc], [pc_size := length L + pc_size] of [Machine.step_finalize_list]. *)
Theorem rebuffer_refines fuel m P A s lp L P1 A1 :
  pcl P s lp -> dll (ll_first A) (nx s) (pv s) L ->
  (forall x, x ∈ L -> x ∉ lp) ->
  (forall x, x ∈ L -> tc s x <> tc_reserved) ->
  length L < fuel ->
  pc_swap_list A (N.of_nat (length L)) P = (P1, A1) ->
  exists P' s', pc_mark_self_and_append fuel m A1 (pc_size P) P1 s = Some (P', s') /\
    pcl P' s' (L ++ lp) /\
    pc_size P' = (N.of_nat (length L) + pc_size P)%N /\
    (forall x, x ∈ L -> mk s' x = m /\ tc s' x = 0%N) /\
    (forall y, y ∉ L -> mk s' y = mk s y /\ tc s' y = tc s y) /\
    fired s' = fired s /\ links_same_outside (L ++ lp) s s'.
Proof.
  intros Hp Ha Hdisj Htc Hl E.
  destruct (pc_swap_list_refines P A _ s lp L P1 A1 Hp Ha eq_refl E) as [Hp1 Ha1].
  destruct (pc_mark_self_and_append_refines fuel m A1 (pc_size P) P1 s L lp Hp1 Ha1 Hdisj Htc Hl)
    as (P' & s' & E' & Hd & Hsz & R).
  exists P', s'. split; [exact E'|].
  assert (Hs1 : pc_size P1 = N.of_nat (length L)) by apply Hp1.
  destruct Hp as [_ Hsp].
  split; [split; auto|split; auto]; rewrite Hsz, Hs1; auto.
  rewrite app_length, Hsp. lia.
Qed.

Ltac usplits := repeat (unfold sll; match goal with |- _ /\ _ => split end).
(** *** LinkedQueue *)

Theorem q_add_refines x Q s l Q' s' :
  sll (q_first Q) (q_last Q) (nx s) l -> x ∉ l -> nx s x = None -> pv s x = None ->
  q_add x Q s = (Q', s') ->
  sll (q_first Q') (q_last Q') (nx s') (l ++ [x]) /\
  fired s' = fired s /\ mk s' = mk s /\ tc s' = tc s /\ pv s' = pv s /\
  (forall y, y ∉ l -> nx s' y = nx s y).
Proof.
  intros (Hd & Hla & Hn) Hx Hnx Hpv E. unfold q_add in E. rewrite debug_assert_nones_ok in E by auto.
  destruct (rev_case l) as [->|(l0 & z & ->)].
  - simpl in Hd, Hla. rewrite Hla in E. injection E as <- <-.
    usplits; simpl; auto using NoDup_singleton.
  - rewrite lastp_snoc in Hla. rewrite Hla in E. injection E as <- <-. psimpl.
    apply sseg_snoc in Hd as [Hd Hz]. notin_dec.
    apply NoDup_app in Hn as (Hn0 & Hn0z & _).
    assert (Hz0 : z ∉ l0) by (intros H'; apply (Hn0z _ H'); left).
    usplits; auto.
    + apply sseg_snoc. fs. split; auto. apply sseg_snoc. fs. split; auto.
      eapply sseg_frame; [|exact Hd]. intros y Hy. fs. auto.
    + now rewrite lastp_snoc.
    + apply NoDup_app. usplits; auto.
      * apply NoDup_app. usplits; auto. apply NoDup_singleton.
      * intros y Hy Hy'. apply elem_of_list_singleton in Hy'. subst.
        apply elem_of_app in Hy as [Hy|Hy]; [tauto|]. apply elem_of_list_singleton in Hy. congruence.
      * apply NoDup_singleton.
    + intros y Hy. notin_dec. fs. auto.
Qed.

Theorem q_poll_nil Q s :
  sll (q_first Q) (q_last Q) (nx s) [] -> q_poll Q s = (None, Q, s).
Proof. intros (Hd & _). simpl in Hd. unfold q_poll. now rewrite Hd. Qed.

Theorem q_poll_refines x Q s l r Q' s' :
  sll (q_first Q) (q_last Q) (nx s) (x :: l) ->
  q_poll Q s = (r, Q', s') ->
  r = Some x /\ sll (q_first Q') (q_last Q') (nx s') l /\ nx s' x = None /\
  mk s' x = NM /\ (forall y, y <> x -> mk s' y = mk s y /\ nx s' y = nx s y) /\
  fired s' = fired s /\ tc s' = tc s /\ pv s' = pv s.
Proof.
  intros (Hd & Hla & Hn) E. simpl in Hd. destruct Hd as [Hf Hd].
  apply list.NoDup_cons in Hn as [Hxl Hn].
  unfold q_poll in E. rewrite Hf in E. psimpl.
  destruct l as [|n l]; simpl in Hd.
  - rewrite Hd in E. simpl in E. injection E as <- <- <-. psimpl.
    usplits; fs; auto; try reflexivity. intros y Hy. fs. auto.
  - destruct Hd as [Hnx Hd]. rewrite Hnx in E. simpl in E. injection E as <- <- <-. psimpl.
    notin_dec. usplits; fs; auto.
    + simpl. fs. split; auto. apply list.NoDup_cons in Hn as [Hnl Hn].
      eapply sseg_frame; [|exact Hd]. intros y Hy. fs. auto.
    + intros y Hy. fs. auto.
Qed.

Theorem q_drop_refines l : forall Q s fuel,
  sll (q_first Q) (q_last Q) (nx s) l -> length l < fuel ->
  exists s', q_drop fuel Q s = Some (LQ None None, s') /\
    (forall x, x ∈ l -> nx s' x = None /\ mk s' x = NM) /\
    (forall y, y ∉ l -> nx s' y = nx s y /\ mk s' y = mk s y) /\
    fired s' = fired s /\ tc s' = tc s /\ pv s' = pv s.
Proof.
  induction l as [|x l IH]; intros Q s fuel Hd Hl; (destruct fuel as [|fuel]; [simpl in Hl; lia|]).
  - simpl. rewrite q_poll_nil by auto. destruct Hd as (Hd & Hla & _). simpl in Hd, Hla.
    destruct Q as [f la]; simpl in Hd, Hla; subst. exists s.
    usplits; auto. intros; match goal with H : _ ∈ [] |- _ => inversion H end.
  - simpl. destruct (q_poll Q s) as [[r Q1] s1] eqn:E.
    pose proof Hd as (_ & _ & Hn). apply list.NoDup_cons in Hn as [Hxl Hn].
    destruct (q_poll_refines _ _ _ _ _ _ _ Hd E) as (-> & Hd1 & Hu & Hm & Hm' & Hf & Ht & Hp).
    destruct (IH Q1 s1 fuel Hd1) as (s' & E' & Hin & Hout & Hf' & Ht' & Hp'); [simpl in Hl; lia|].
    exists s'. split; [exact E'|].
    split; [|split; [|split; [congruence|split; congruence]]].
    + intros y Hy. apply elem_of_cons in Hy as [->|Hy]; [|auto].
      destruct (Hout x Hxl) as [-> ->]. auto.
    + intros y Hy. notin_dec. destruct (Hout y) as [-> ->]; auto. destruct (Hm' y) as [-> ->]; auto.
Qed.

Theorem q_peek_refines Q s l : sll (q_first Q) (q_last Q) (nx s) l -> q_peek Q = head l.
Proof. intros (Hd & _). destruct l; simpl in *; [auto|tauto]. Qed.

Theorem q_is_empty_refines Q s l :
  sll (q_first Q) (q_last Q) (nx s) l -> q_is_empty Q = true <-> l = [].
Proof.
  intros H. unfold q_is_empty. rewrite (q_peek_refines _ _ _ H). destruct l; simpl; split; auto; discriminate.
Qed.

(** FIFO: whatever is added comes out of [poll] in the order it was added. *)
Fixpoint q_add_all (xs : list id) (Q : LinkedQueue) (s : pstate) : LinkedQueue * pstate :=
  match xs with
  | [] => (Q, s)
  | x :: xs => let '(Q, s) := q_add x Q s in q_add_all xs Q s
  end.

Fixpoint q_poll_n (n : nat) (Q : LinkedQueue) (s : pstate) : list (option id) * LinkedQueue * pstate :=
  match n with
  | 0 => ([], Q, s)
  | S n => let '(r, Q, s) := q_poll Q s in
           let '(rs, Q, s) := q_poll_n n Q s in (r :: rs, Q, s)
  end.

Lemma q_add_all_refines xs : forall Q s l Q' s',
  sll (q_first Q) (q_last Q) (nx s) l -> NoDup (l ++ xs) ->
  (forall x, x ∈ xs -> unlinked s x) ->
  q_add_all xs Q s = (Q', s') ->
  sll (q_first Q') (q_last Q') (nx s') (l ++ xs) /\ fired s' = fired s /\ mk s' = mk s.
Proof.
  induction xs as [|x xs IH]; intros Q s l Q' s' Hd Hn Hu E; simpl in E.
  - injection E as <- <-. rewrite app_nil_r. auto.
  - destruct (q_add x Q s) as [Q1 s1] eqn:E1.
    apply NoDup_app in Hn as (Hnl & Hd' & Hnx). apply list.NoDup_cons in Hnx as [Hxxs Hnxs].
    assert (Hxl : x ∉ l) by (intros H; apply (Hd' _ H); left).
    destruct (Hu x) as [Hux1 Hux2]; [left|].
    destruct (q_add_refines x Q s l Q1 s1 Hd Hxl Hux1 Hux2 E1) as (Hd1 & Hf1 & Hm1 & _ & Hp1 & Hn1).
    destruct (IH Q1 s1 (l ++ [x]) Q' s' Hd1) as (Hd2 & Hf2 & Hm2); auto.
    + rewrite <- app_assoc. simpl. apply NoDup_app. usplits; auto. apply list.NoDup_cons; auto.
    + intros y Hy. destruct (Hu y) as [H1 H2]; [now right|]. split; [|congruence].
      rewrite Hn1; auto. intros H. apply (Hd' _ H). now right.
    + rewrite <- app_assoc in Hd2. simpl in Hd2. split; [exact Hd2|split; congruence].
Qed.

Lemma q_poll_n_refines l : forall Q s rs Q' s',
  sll (q_first Q) (q_last Q) (nx s) l ->
  q_poll_n (length l) Q s = (rs, Q', s') ->
  rs = map Some l /\ sll (q_first Q') (q_last Q') (nx s') [].
Proof.
  induction l as [|x l IH]; intros Q s rs Q' s' Hd E; simpl in E.
  - injection E as <- <- <-. auto.
  - destruct (q_poll Q s) as [[r Q1] s1] eqn:E1.
    destruct (q_poll_n (length l) Q1 s1) as [[rs1 Q2] s2] eqn:E2. injection E as <- <- <-.
    destruct (q_poll_refines _ _ _ _ _ _ _ Hd E1) as (-> & Hd1 & _).
    destruct (IH _ _ _ _ _ Hd1 E2) as [-> Hd2]. auto.
Qed.

Theorem queue_fifo xs s Q1 s1 rs Q2 s2 :
  NoDup xs -> (forall x, x ∈ xs -> unlinked s x) ->
  q_add_all xs q_new s = (Q1, s1) ->
  q_poll_n (length xs) Q1 s1 = (rs, Q2, s2) ->
  rs = map Some xs /\ q_first Q2 = None /\ q_last Q2 = None.
Proof.
  intros Hn Hu E1 E2.
  destruct (q_add_all_refines xs q_new s [] Q1 s1) as (Hd & _); auto.
  { usplits; simpl; auto. constructor. }
  simpl in Hd. destruct (q_poll_n_refines _ _ _ _ _ _ Hd E2) as (-> & Hd2 & Hla & _).
  simpl in Hd2, Hla. auto.
Qed.

(** *** The same statements with [outside]: a single list in an otherwise unlinked arena *)

Lemma elem_of_remove_id y x l : y ∈ remove_id x l <-> y ∈ l /\ y <> x.
Proof. unfold remove_id. rewrite elem_of_list_filter. tauto. Qed.

Theorem ll_add_outside x L s l L' s' :
  dll (ll_first L) (nx s) (pv s) l -> outside (nx s) (pv s) l -> x ∉ l ->
  ll_add x L s = (L', s') ->
  dll (ll_first L') (nx s') (pv s') (x :: l) /\ outside (nx s') (pv s') (x :: l) /\
  fired s' = fired s.
Proof.
  intros Hd Ho Hx E. destruct (Ho x Hx) as [H1 H2].
  destruct (ll_add_refines x L s l L' s' Hd Hx H1 H2 E) as (Hd' & Hf & _ & _ & Hl).
  split; [exact Hd'|]. split; [|exact Hf].
  intros y Hy. destruct (Hl y Hy) as [-> ->]. apply Ho. notin_dec. auto.
Qed.

Theorem ll_remove_outside x L s l L' s' :
  dll (ll_first L) (nx s) (pv s) l -> outside (nx s) (pv s) l -> x ∈ l ->
  ll_remove x L s = (L', s') ->
  dll (ll_first L') (nx s') (pv s') (remove_id x l) /\
  outside (nx s') (pv s') (remove_id x l) /\ fired s' = fired s.
Proof.
  intros Hd Ho Hx E.
  destruct (ll_remove_refines x L s l L' s' Hd Hx E) as (Hd' & Hu & Hf & _ & _ & Hl).
  split; [exact Hd'|]. split; [|exact Hf].
  intros y Hy. destruct (decide (y = x)) as [->|Hyx]; [exact Hu|].
  assert (Hyl : y ∉ l) by (intros H; apply Hy, elem_of_remove_id; auto).
  destruct (Hl y Hyl) as [-> ->]. apply Ho, Hyl.
Qed.

Theorem ll_remove_first_outside x L s l r L' s' :
  dll (ll_first L) (nx s) (pv s) (x :: l) -> outside (nx s) (pv s) (x :: l) ->
  ll_remove_first L s = (r, L', s') ->
  r = Some x /\ dll (ll_first L') (nx s') (pv s') l /\ outside (nx s') (pv s') l /\
  mk s' x = NM /\ fired s' = fired s.
Proof.
  intros Hd Ho E.
  destruct (ll_remove_first_refines x L s l r L' s' Hd E) as (-> & Hd' & Hu & Hm & _ & Hf & _ & Hl).
  splits; auto.
  intros y Hy. destruct (decide (y = x)) as [->|Hyx]; [exact Hu|].
  assert (Hyl : y ∉ x :: l) by (apply not_elem_of_cons; auto).
  destruct (Hl y Hyl) as [-> ->]. apply Ho, Hyl.
Qed.

Theorem ll_drop_outside l L s fuel :
  dll (ll_first L) (nx s) (pv s) l -> outside (nx s) (pv s) l -> length l < fuel ->
  exists s', ll_drop fuel L s = Some (LL None, s') /\
    outside (nx s') (pv s') [] /\ (forall x, x ∈ l -> mk s' x = NM) /\ fired s' = fired s.
Proof.
  intros Hd Ho Hl.
  destruct (ll_drop_refines l L s fuel Hd Hl) as (s' & E & Hin & _ & Hf & _ & Hls).
  exists s'. splits; auto.
  - intros y _. destruct (decide (y ∈ l)) as [Hy|Hy]; [apply Hin, Hy|].
    destruct (Hls y Hy) as [-> ->]. apply Ho, Hy.
  - intros x Hx. apply Hin, Hx.
Qed.

(** *** Several lists in one arena: the frame clauses compose *)

Lemma sll_other first la l fp s s' :
  links_same_outside fp s s' -> (forall x, x ∈ l -> x ∉ fp) ->
  sll first la (nx s) l -> sll first la (nx s') l.
Proof.
  intros Hs Hd (H & Hla & Hn). split; [|split; auto].
  eapply sseg_frame; [|exact H]. intros x Hx. apply Hs, Hd, Hx.
Qed.

(** e.g. adding to one list leaves any disjoint list (of either kind) as it was *)
Corollary ll_add_preserves_others x L s l L' s' firstB lB firstQ lastQ lQ :
  dll (ll_first L) (nx s) (pv s) l -> x ∉ l -> unlinked s x ->
  dll firstB (nx s) (pv s) lB -> sll firstQ lastQ (nx s) lQ ->
  (forall y, y ∈ lB -> y ∉ x :: l) -> (forall y, y ∈ lQ -> y ∉ x :: l) ->
  ll_add x L s = (L', s') ->
  dll firstB (nx s') (pv s') lB /\ sll firstQ lastQ (nx s') lQ.
Proof.
  intros Hd Hx [H1 H2] HB HQ HdB HdQ E.
  destruct (ll_add_refines x L s l L' s' Hd Hx H1 H2 E) as (_ & _ & _ & _ & Hl).
  split; [eapply dll_other|eapply sll_other]; eauto.
Qed.

(** Iter::contains decides membership. *)
Theorem iter_contains_refines first s l fuel p :
  dll first (nx s) (pv s) l -> length l <= fuel ->
  iter_contains fuel first s p = true <-> p ∈ l.
Proof.
  intros [Hd _] Hl. unfold iter_contains. rewrite (walk_dseg _ _ _ _ _ _ Hd Hl).
  rewrite existsb_exists, elem_of_list_In. split.
  - intros (y & Hy & E). apply Nat.eqb_eq in E. now subst.
  - intros H. exists p. split; auto. apply Nat.eqb_refl.
Qed.

(** ** 5. Misuse: what [debug_assert_nones] catches, and what it cannot see *)

Lemma debug_assert_nones_fires p s :
  nx s p <> None \/ pv s p <> None -> fired (debug_assert_nones p s) = true.
Proof.
  intros H. rewrite debug_assert_nones_fired.
  destruct (nx s p), (pv s p), (fired s); simpl; auto. destruct H; congruence.
Qed.

(** Adding a node that is still linked fires the assertion, in all three lists. *)
Theorem ll_add_linked_fires x L s :
  nx s x <> None \/ pv s x <> None -> fired (ll_add x L s).2 = true.
Proof.
  intros H. unfold ll_add. simpl. destruct (ll_first L); psimpl; apply debug_assert_nones_fires, H.
Qed.
Theorem pc_add_linked_fires x P s :
  nx s x <> None \/ pv s x <> None -> fired (pc_add x P s).2 = true.
Proof.
  intros H. unfold pc_add. simpl. destruct (pc_first P); psimpl; apply debug_assert_nones_fires, H.
Qed.
Theorem q_add_linked_fires x Q s :
  nx s x <> None \/ pv s x <> None -> fired (q_add x Q s).2 = true.
Proof.
  intros H. unfold q_add. destruct (q_last Q); psimpl; apply debug_assert_nones_fires, H.
Qed.

(** A member of a list with at least two nodes is linked ... *)
Lemma dll_member_linked first s l x :
  dll first (nx s) (pv s) l -> x ∈ l -> l <> [x] -> nx s x <> None \/ pv s x <> None.
Proof.
  intros [Hd _] Hx Hne. apply elem_of_list_split in Hx as (l1 & l2 & ->).
  apply dseg_app in Hd as (mid & Hd1 & Hd2). simpl in Hd2. destruct Hd2 as (_ & Hp & Hd2).
  destruct (rev_case l1) as [->|(l0 & z & ->)].
  - destruct l2 as [|n l2]; [simpl in Hne; congruence|]. simpl in Hd2. destruct Hd2 as [E _]. left. congruence.
  - rewrite lastp_snoc in Hp. right. congruence.
Qed.

(** ... so adding it twice is caught, in whichever list it is ... *)
Theorem ll_add_member_fires first l x L s :
  dll first (nx s) (pv s) l -> x ∈ l -> l <> [x] -> fired (ll_add x L s).2 = true.
Proof. intros Hd Hx Hne. eapply ll_add_linked_fires, dll_member_linked; eauto. Qed.

(** ... except for the only node of a one-element list, which looks exactly like an unlinked
    node: re-adding it passes the assertion and ties the node to itself; no list is represented
    any more.  ([add_to_list], cc.rs:530, never does this: it checks the PossibleCycles mark
    first.) *)
Theorem ll_add_singleton_again_undetected x L s L' s' :
  dll (ll_first L) (nx s) (pv s) [x] -> ll_add x L s = (L', s') ->
  fired s' = fired s /\ ll_first L' = Some x /\ nx s' x = Some x /\ pv s' x = Some x /\
  forall l, ~ dll (ll_first L') (nx s') (pv s') l.
Proof.
  intros [Hd _] E. simpl in Hd. destruct Hd as (Hf & Hp & Hn).
  unfold ll_add in E. rewrite debug_assert_nones_ok in E by auto. rewrite Hf in E.
  injection E as <- <-. psimpl. fs. splits; auto.
  intros l [Hd _]. destruct l as [|y l]; simpl in Hd; [discriminate|].
  destruct Hd as (E & Hp' & _). injection E as <-. rewrite fupd_eq in Hp'. discriminate.
Qed.

(** Removing an unlinked node (one that is in no list) passes the assertion too, and forgets
    the whole list: its head becomes [None] while its nodes stay linked. *)
Theorem ll_remove_unlinked_undetected x L s :
  unlinked s x -> ll_remove x L s = (LL None, s).
Proof.
  intros [H1 H2]. unfold ll_remove. rewrite H1, H2. now rewrite debug_assert_nones_ok.
Qed.

(** Removing from an empty [PossibleCycles] underflows the cached size (a panic in a debug
    build, [usize::MAX] in a release build): [Machine.dec_size]'s [Underflow]. *)
Theorem pc_remove_empty_underflows x P s :
  pc_size P = 0%N -> fired (pc_remove x P s).2 = true /\ pc_size (pc_remove x P s).1 = usize_max.
Proof.
  intros H. unfold pc_remove, usize_dec. rewrite H. simpl.
  destruct (nx s x), (pv s x); simpl; rewrite debug_assert_nones_fired; psimpl; auto.
Qed.

Theorem pc_remove_first_size_underflows P s x :
  pc_first P = Some x -> pc_size P = 0%N -> fired (pc_remove_first P s).2 = true.
Proof.
  intros Hf H. unfold pc_remove_first, usize_dec. rewrite Hf, H. simpl.
  destruct (nx s x); reflexivity.
Qed.

(** [mark_self_and_append] on a member whose value was already dropped (reserved tracing
    counter) fires the assertion of [reset_tracing_counter]. *)
Theorem reset_tracing_counter_reserved_fires p s :
  tc s p = tc_reserved -> fired (reset_tracing_counter p s) = true.
Proof. intros H. unfold reset_tracing_counter. rewrite H. reflexivity. Qed.

(** ** 6. Bridge to Machine.v

    The abstract operations, written with the very expressions Machine.v uses.  [remove_id] above
    is [Machine.remove_id] (Props/C11lists.v checks the two are convertible). *)
Definition abs_add (x : id) (l : list id) : list id := x :: l.
  (* add_to_list: [pc ::= cons o]; process_counting: [p :: t_non s], [p :: t_root s] *)
Definition abs_remove (x : id) (l : list id) : list id := remove_id x l.
  (* remove_from_list: [pc ::= remove_id o]; visit_counting/visit_root: [remove_id c (t_root s)] *)
Definition abs_pop (l : list id) : option id * list id :=
  match l with [] => (None, []) | x :: l' => (Some x, l') end.
  (* [match t_root s with p :: rest], [match t_q s with c :: q'], the buffer walk of collect *)
Definition abs_enqueue (c : id) (q : list id) : list id := q ++ [c].
  (* visit_counting / visit_root: [t_q s ++ [c]] *)
Definition abs_rebuffer (L old : list id) : list id := L ++ old.
  (* step_finalize_list: [pc ::= fun old => L ++ old], [pc_size ::= fun s => N.of_nat (length L) + s] *)

Corollary bridge_add x P s l P' s' :
  pcl P s l -> x ∉ l -> unlinked s x -> pc_add x P s = (P', s') ->
  pcl P' s' (abs_add x l) /\ pc_size P' = N.succ (pc_size P) /\ fired s' = fired s.
Proof.
  intros H Hx [H1 H2] E. destruct (pc_add_refines x P s l P' s' H Hx H1 H2 E) as (?&?&?&_). auto.
Qed.

Corollary bridge_remove x P s l P' s' :
  pcl P s l -> x ∈ l -> pc_remove x P s = (P', s') ->
  pcl P' s' (abs_remove x l) /\ pc_size P' = (pc_size P - 1)%N /\ pc_size P <> 0%N /\
  unlinked s' x /\ fired s' = fired s.
Proof.
  intros H Hx E. destruct (pc_remove_refines x P s l P' s' H Hx E) as (?&?&?&?&?&_). auto.
Qed.

Corollary bridge_pop L s l r L' s' :
  dll (ll_first L) (nx s) (pv s) l -> ll_remove_first L s = (r, L', s') ->
  r = (abs_pop l).1 /\ dll (ll_first L') (nx s') (pv s') (abs_pop l).2 /\ fired s' = fired s.
Proof.
  intros H E. destruct l as [|x l].
  - rewrite ll_remove_first_nil in E by auto. injection E as <- <- <-. auto.
  - destruct (ll_remove_first_refines x L s l r L' s' H E) as (?&?&_&_&_&?&_). auto.
Qed.

Corollary bridge_enqueue c Q s q Q' s' :
  sll (q_first Q) (q_last Q) (nx s) q -> c ∉ q -> unlinked s c -> q_add c Q s = (Q', s') ->
  sll (q_first Q') (q_last Q') (nx s') (abs_enqueue c q) /\ fired s' = fired s.
Proof.
  intros H Hc [H1 H2] E. destruct (q_add_refines c Q s q Q' s' H Hc H1 H2 E) as (?&?&_). auto.
Qed.

Corollary bridge_dequeue Q s q r Q' s' :
  sll (q_first Q) (q_last Q) (nx s) q -> q_poll Q s = (r, Q', s') ->
  r = (abs_pop q).1 /\ sll (q_first Q') (q_last Q') (nx s') (abs_pop q).2 /\ fired s' = fired s.
Proof.
  intros H E. destruct q as [|x q].
  - rewrite q_poll_nil in E by auto. injection E as <- <- <-. auto.
  - destruct (q_poll_refines x Q s q r Q' s' H E) as (?&?&_&_&_&?&_). auto.
Qed.

Corollary bridge_rebuffer fuel P A s old L P1 A1 :
  pcl P s old -> dll (ll_first A) (nx s) (pv s) L ->
  (forall x, x ∈ L -> x ∉ old) -> (forall x, x ∈ L -> tc s x <> tc_reserved) ->
  length L < fuel ->
  pc_swap_list A (N.of_nat (length L)) P = (P1, A1) ->
  exists P' s', pc_mark_self_and_append fuel PC A1 (pc_size P) P1 s = Some (P', s') /\
    pcl P' s' (abs_rebuffer L old) /\
    pc_size P' = (N.of_nat (length L) + pc_size P)%N /\
    (forall x, x ∈ L -> mk s' x = PC /\ tc s' x = 0%N) /\
    (forall y, y ∉ L -> mk s' y = mk s y /\ tc s' y = tc s y) /\
    fired s' = fired s.
Proof.
  intros Hp Ha Hd Ht Hl E.
  destruct (rebuffer_refines fuel PC P A s old L P1 A1 Hp Ha Hd Ht Hl E)
    as (P' & s' & E' & H1 & H2 & H3 & H4 & H5 & _).
  exists P', s'. auto 10.
Qed.

(** ** Satisfiability of the hypotheses on a concrete state: the list [2; 1; 0] built by three
    [add]s in a fresh arena. *)
Definition ex_built : LinkedList * pstate :=
  let '(L, s) := ll_add 0 ll_new fresh in
  let '(L, s) := ll_add 1 L s in
  ll_add 2 L s.

Example ex_dll : dll (ll_first ex_built.1) (nx ex_built.2) (pv ex_built.2) [2; 1; 0].
Proof.
  split; [vm_compute; auto 10|].
  repeat (apply NoDup_cons_2; [rewrite ?elem_of_cons, elem_of_nil; lia|]). constructor.
Qed.

Example ex_outside : outside (nx ex_built.2) (pv ex_built.2) [2; 1; 0].
Proof.
  intros x Hx. notin_dec. cbn. unfold fupd.
  destruct (Nat.eqb_spec x 2); [lia|]. destruct (Nat.eqb_spec x 1); [lia|].
  destruct (Nat.eqb_spec x 0); [lia|]. auto.
Qed.

Example ex_not_fired : fired ex_built.2 = false.
Proof. reflexivity. Qed.

Example ex_remove_middle :
  let '(L, s) := ll_remove 1 ex_built.1 ex_built.2 in
  walk 5 (nx s) (ll_first L) = [2; 0] /\ pv s 0 = Some 2 /\ unlinked s 1 /\ fired s = false.
Proof. vm_compute. auto. Qed.

(** ** 7. Interpreter for the correspondence check (tools/check_lists.py)

    Several lists of each kind share one arena of [nn] nodes, exactly like the hook module
    [rust_cc::verif::lists] added by build/lists_hooks.patch: an operation names its list by
    index and its node by arena index.  After every operation the checker compares [row] with
    the snapshot printed by the real code. *)
Record world := World {
  w_s : pstate;
  w_ll : list LinkedList;
  w_pc : list PossibleCycles;
  w_q : list LinkedQueue;
}.

Inductive op :=
| OLlAdd (j i : nat) | OLlRemove (j i : nat) | OLlRemoveFirst (j : nat) | OLlDrop (j : nat)
| OPcAdd (j i : nat) | OPcRemove (j i : nat) | OPcRemoveFirst (j : nat) | OPcDrop (j : nat)
| OPcSwap (jp jl : nat) (n : N) | OPcMsa (jp jl : nat) (m : mark) (n : N)
| OQAdd (j i : nat) | OQPoll (j : nat) | OQDrop (j : nat)
| OSetMark (i : nat) (m : mark) | OSetTc (i : nat) (n : N).

Fixpoint set_nth {A} (j : nat) (v : A) (l : list A) : list A :=
  match l, j with
  | [], _ => []
  | _ :: l', 0 => v :: l'
  | a :: l', S j' => a :: set_nth j' v l'
  end.

Definition init_world (nll npc nq : nat) : world :=
  World fresh (repeat ll_new nll) (repeat pc_new npc) (repeat q_new nq).

Definition enc_ptr (p : ptr) : N := match p with None => 0%N | Some i => N.succ (N.of_nat i) end.
Definition enc_bool (b : bool) : N := if b then 1%N else 0%N.
(** returned when a loop of the model ran out of fuel (never on a well-formed list) *)
Definition ret_diverged : N := 4294967295.

(** One operation; the [N] is the value the real function returns ([enc_ptr] of the removed or
    polled node, 0 for [()]). *)
Definition run_op (fuel : nat) (o : op) (w : world) : world * N :=
  let s := w_s w in
  match o with
  | OLlAdd j i =>
      let '(L, s) := ll_add i (nth j (w_ll w) ll_new) s in
      (World s (set_nth j L (w_ll w)) (w_pc w) (w_q w), 0%N)
  | OLlRemove j i =>
      let '(L, s) := ll_remove i (nth j (w_ll w) ll_new) s in
      (World s (set_nth j L (w_ll w)) (w_pc w) (w_q w), 0%N)
  | OLlRemoveFirst j =>
      let '(r, L, s) := ll_remove_first (nth j (w_ll w) ll_new) s in
      (World s (set_nth j L (w_ll w)) (w_pc w) (w_q w), enc_ptr r)
  | OLlDrop j =>
      (* the hook replaces the list by a new one and drops the old value *)
      match ll_drop fuel (nth j (w_ll w) ll_new) s with
      | Some (_, s) => (World s (set_nth j ll_new (w_ll w)) (w_pc w) (w_q w), 0%N)
      | None => (w, ret_diverged)
      end
  | OPcAdd j i =>
      let '(P, s) := pc_add i (nth j (w_pc w) pc_new) s in
      (World s (w_ll w) (set_nth j P (w_pc w)) (w_q w), 0%N)
  | OPcRemove j i =>
      let '(P, s) := pc_remove i (nth j (w_pc w) pc_new) s in
      (World s (w_ll w) (set_nth j P (w_pc w)) (w_q w), 0%N)
  | OPcRemoveFirst j =>
      let '(r, P, s) := pc_remove_first (nth j (w_pc w) pc_new) s in
      (World s (w_ll w) (set_nth j P (w_pc w)) (w_q w), enc_ptr r)
  | OPcDrop j =>
      match pc_drop fuel (nth j (w_pc w) pc_new) s with
      | Some (_, s) => (World s (w_ll w) (set_nth j pc_new (w_pc w)) (w_q w), 0%N)
      | None => (w, ret_diverged)
      end
  | OPcSwap jp jl n =>
      let '(P, L) := pc_swap_list (nth jl (w_ll w) ll_new) n (nth jp (w_pc w) pc_new) in
      (World s (set_nth jl L (w_ll w)) (set_nth jp P (w_pc w)) (w_q w), 0%N)
  | OPcMsa jp jl m n =>
      (* the hook moves the list out (leaving a new one) and passes it by value *)
      match pc_mark_self_and_append fuel m (nth jl (w_ll w) ll_new) n (nth jp (w_pc w) pc_new) s with
      | Some (P, s) => (World s (set_nth jl ll_new (w_ll w)) (set_nth jp P (w_pc w)) (w_q w), 0%N)
      | None => (w, ret_diverged)
      end
  | OQAdd j i =>
      let '(Q, s) := q_add i (nth j (w_q w) q_new) s in
      (World s (w_ll w) (w_pc w) (set_nth j Q (w_q w)), 0%N)
  | OQPoll j =>
      let '(r, Q, s) := q_poll (nth j (w_q w) q_new) s in
      (World s (w_ll w) (w_pc w) (set_nth j Q (w_q w)), enc_ptr r)
  | OQDrop j =>
      match q_drop fuel (nth j (w_q w) q_new) s with
      | Some (_, s) => (World s (w_ll w) (w_pc w) (set_nth j q_new (w_q w)), 0%N)
      | None => (w, ret_diverged)
      end
  | OSetMark i m => (World (set_mk i m s) (w_ll w) (w_pc w) (w_q w), 0%N)
  | OSetTc i n => (World (set_tc i n s) (w_ll w) (w_pc w) (w_q w), 0%N)
  end.

(** The observation after an operation: return value, whether an assertion fired so far, per
    list its head(s), cached size, [is_empty()], what [iter()] yields (length first), then per
    node [next], [prev], mark, tracing counter. *)
Definition enc_iter (fuel : nat) (s : pstate) (first : ptr) : list N :=
  let l := walk fuel (nx s) first in
  N.of_nat (length l) :: map (fun i => N.succ (N.of_nat i)) l.

Definition row (nn fuel : nat) (ret : N) (w : world) : list N :=
  let s := w_s w in
  ret :: enc_bool (fired s) ::
  flat_map (fun L => enc_ptr (ll_first L) :: enc_bool (ll_is_empty L) :: enc_iter fuel s (ll_first L)) (w_ll w) ++
  flat_map (fun P => enc_ptr (pc_first P) :: pc_size P :: enc_bool (pc_is_empty P)
                     :: enc_iter fuel s (pc_first P)) (w_pc w) ++
  flat_map (fun Q => enc_ptr (q_first Q) :: enc_ptr (q_last Q) :: enc_bool (q_is_empty Q)
                     :: enc_iter fuel s (q_first Q)) (w_q w) ++
  flat_map (fun i => [enc_ptr (nx s i); enc_ptr (pv s i); mark_bits (mk s i); tc s i]) (seq 0 nn).

(** All rows of a sequence / only the last one (the checker uses the second form for the
    exhaustive enumeration, where every proper prefix is a case of its own). *)
Fixpoint run_ops (nn fuel : nat) (os : list op) (w : world) : list (list N) :=
  match os with
  | [] => []
  | o :: os' => let '(w', r) := run_op fuel o w in row nn fuel r w' :: run_ops nn fuel os' w'
  end.

Fixpoint run_last (nn fuel : nat) (os : list op) (w : world) (acc : list N) : list N :=
  match os with
  | [] => acc
  | o :: os' => let '(w', r) := run_op fuel o w in run_last nn fuel os' w' (row nn fuel r w')
  end.

Definition case_all (nn nll npc nq : nat) (os : list op) : list (list N) :=
  run_ops nn (S nn) os (init_world nll npc nq).
Definition case_last (nn nll npc nq : nat) (os : list op) : list N :=
  run_last nn (S nn) os (init_world nll npc nq) [].

Example ex_interp :
  case_all 3 1 1 1 [OLlAdd 0 0; OLlAdd 0 1; OPcAdd 0 2; OPcSwap 0 0 2; OPcMsa 0 0 PC 1] =
  [[0; 0; 1; 0; 1; 1;  0; 0; 1; 0;  0; 0; 1; 0;  0; 0; 0; 1;  0; 0; 0; 1;  0; 0; 0; 1];
   [0; 0; 2; 0; 2; 2; 1;  0; 0; 1; 0;  0; 0; 1; 0;  0; 2; 0; 1;  1; 0; 0; 1;  0; 0; 0; 1];
   [0; 0; 2; 0; 2; 2; 1;  3; 1; 0; 1; 3;  0; 0; 1; 0;  0; 2; 0; 1;  1; 0; 0; 1;  0; 0; 0; 1];
   [0; 0; 3; 0; 1; 3;  2; 2; 0; 2; 2; 1;  0; 0; 1; 0;  0; 2; 0; 1;  1; 0; 0; 1;  0; 0; 0; 1];
   [0; 0; 0; 1; 0;  2; 3; 0; 3; 2; 1; 3;  0; 0; 1; 0;  3; 2; 1; 0;  1; 0; 1; 0;  0; 1; 0; 1]]%N.
Proof. vm_compute. reflexivity. Qed.
