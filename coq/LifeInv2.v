(** * LifeInv2: the lifecycle transitions (the non-quiet primitive steps). *)
From Coq Require Import NArith Bool List Lia.
From stdpp Require Import base list option.
From RecordUpdate Require Import RecordSet.
From RC Require Import Hdr Machine RunInd Flags.
From RC Require Import Inv InvP LifeInv.
Import ListNotations RecordSetNotations.
Local Open Scope N_scope.

Definition only_o (o : id) (k : list event) : Prop :=
  Forall (fun e => ev_rel e = false \/ ev_id e = Some o) k.

Lemma other_isA o o' e : o' <> o -> ev_rel e = false \/ ev_id e = Some o -> isA o' e = false.
Proof.
  intros Hne [H|H]; [apply irr_isA, H|]. destruct e as [kk ? ?| | | | | | | | |]; cbn in *; try reflexivity;
    try (injection H as ->; apply Nat.eqb_neq; congruence).
Qed.
Lemma other_isF o o' e : o' <> o -> ev_rel e = false \/ ev_id e = Some o -> isF o' e = false.
Proof.
  intros Hne [H|H]; [apply irr_isF, H|]. destruct e as [kk ? ?| | | | | | | | |]; cbn in *; try reflexivity;
    try (injection H as ->; apply Nat.eqb_neq; congruence).
Qed.
Lemma other_isD o o' e : o' <> o -> ev_rel e = false \/ ev_id e = Some o -> isD o' e = false.
Proof.
  intros Hne [H|H]; [apply irr_isD, H|]. destruct e as [kk ? ?| | | | | | | | |]; cbn in *; try reflexivity.
  destruct kk; cbn in *; try reflexivity; try discriminate; injection H as ->; apply Nat.eqb_neq; congruence.
Qed.
Lemma other_isFi o o' e : o' <> o -> ev_rel e = false \/ ev_id e = Some o -> isFi o' e = false.
Proof.
  intros Hne [H|H]; [apply irr_isFi, H|]. destruct e as [kk ? ?| | | | | | | | |]; cbn in *; try reflexivity.
  destruct kk; cbn in *; try reflexivity; try discriminate; injection H as ->; apply Nat.eqb_neq; congruence.
Qed.

Lemma cnt_other (p : id -> event -> bool) o o' k l :
  (forall e, ev_rel e = false \/ ev_id e = Some o -> p o' e = false) ->
  only_o o k -> cntE (p o') (k ++ l) = cntE (p o') l.
Proof.
  intros Hp Hk. rewrite cntE_app, (cntE_none (p o') k); [reflexivity|].
  eapply Forall_impl; [|exact Hk]. exact Hp.
Qed.

Lemma In_other_app o o' (k l : list event) e : o' <> o -> only_o o k -> ev_id e = Some o' ->
  In e (k ++ l) <-> In e l.
Proof.
  intros Hne Hk He. rewrite in_app_iff. split; [|auto]. intros [H|H]; [|exact H].
  unfold only_o in Hk. rewrite Forall_forall in Hk. destruct (Hk _ H) as [Hr|Hi].
  - rewrite (irr_id _ Hr) in He. discriminate.
  - congruence.
Qed.

Section Tr.
  Context (K : conf) (mu : id) (nfa : bool).
  Notation OKo := (OKo K nfa).
  Notation Linv := (Linv K nfa).
  Notation lwf := (lwf K nfa).
  Notation G := (G mu).
  Notation Ls := (Ls K mu nfa).

  Lemma OKo_other m m' o o' x x' k : o' <> o -> log m' = k ++ log m -> only_o o k ->
    lv x' = lv x -> OKo m o' x -> OKo m' o' x'.
  Proof.
    intros Hne E Hk Hl [H1 H2 H3 H4 H5 H6 H7]. unfold lv in Hl. injection Hl as Hv Hb Hm Hf.
    assert (Hdy : dying x' = dying x) by (unfold dying; rewrite Hv; reflexivity).
    assert (Hlay : box_layout K x' = box_layout K x) by (unfold box_layout; rewrite Hm; reflexivity).
    split; rewrite ?E, ?(cnt_other isA o o' k _ (fun e => other_isA o o' e Hne) Hk), ?(cnt_other isF o o' k _ (fun e => other_isF o o' e Hne) Hk),
             ?(cnt_other isD o o' k _ (fun e => other_isD o o' e Hne) Hk), ?(cnt_other isFi o o' k _ (fun e => other_isFi o o' e Hne) Hk),
             ?Hv, ?Hb, ?Hm, ?Hf, ?Hdy, ?Hlay; try assumption.
    intros s a. rewrite !(In_other_app o o' k) by (assumption || reflexivity). apply H5.
  Qed.

  (** one object changes, the events logged are about it (or irrelevant) *)
  Lemma Linv_one m m' o x x' k :
    length (heap m') = length (heap m) -> log m' = k ++ log m -> only_o o k ->
    (forall o', o' <> o -> lv <$> get m' o' = lv <$> get m o') ->
    get m o = Some x -> get m' o = Some x' ->
    lwf (k ++ log m) -> OKo m' o x' -> Linv m -> Linv m'.
  Proof.
    intros HL E Hk Hoth Hx Hx' Hw Hok (W & S & HO). split; [|split].
    - rewrite E. exact Hw.
    - intros e o1 Hin Hid. rewrite HL. rewrite E in Hin. apply in_app_iff in Hin as [Hin|Hin]; [|eapply S; eauto].
      unfold only_o in Hk. rewrite Forall_forall in Hk. destruct (Hk _ Hin) as [Hr|Hi].
      + rewrite (irr_id _ Hr) in Hid. discriminate.
      + assert (o1 = o) by congruence. subst o1. apply lookup_lt_Some in Hx. exact Hx.
    - intros o' y' Hy'. destruct (decide (o' = o)) as [->|Hne].
      + assert (y' = x') by congruence. subst y'. exact Hok.
      + specialize (Hoth o' Hne). rewrite Hy' in Hoth. destruct (get m o') as [y|] eqn:Hy; [|discriminate].
        cbn in Hoth. assert (Hl : lv y' = lv y) by congruence.
        exact (OKo_other m m' o o' y y' k Hne E Hk Hl (HO o' y Hy)).
  Qed.

  (** the frame for a change of one object *)
  Lemma Frame_one n0 m m' o x x' :
    length (heap m') = length (heap m) ->
    (forall o', o' <> o -> lv <$> get m' o' = lv <$> get m o') ->
    get m o = Some x -> get m' o = Some x' -> ((o < n0)%nat -> ObjF x x') -> Frame n0 m m'.
  Proof.
    intros HL Hoth Hx Hx' HF. split; [lia|]. intros o' y Ho' Hy. destruct (decide (o' = o)) as [->|Hne].
    - assert (y = x) by congruence. subst y. exists x'. split; [exact Hx' | apply HF, Ho'].
    - specialize (Hoth o' Hne). rewrite Hy in Hoth. destruct (get m' o') as [y'|]; [|discriminate].
      cbn in Hoth. assert (Hl : lv y' = lv y) by congruence. exists y'. split; [reflexivity | apply ObjF_lv, Hl].
  Qed.

  Lemma FrameX_one ex n0 m m' o x x' :
    length (heap m') = length (heap m) ->
    (forall o', o' <> o -> lv <$> get m' o' = lv <$> get m o') ->
    get m o = Some x -> get m' o = Some x' -> ((o < n0)%nat -> ObjFx (bool_decide (ex = Some o)) x x') ->
    FrameX ex n0 m m'.
  Proof.
    intros HL Hoth Hx Hx' HF. split; [lia|]. intros o' y Ho' Hy. destruct (decide (o' = o)) as [->|Hne].
    - assert (y = x) by congruence. subst y. exists x'. split; [exact Hx' | apply HF, Ho'].
    - specialize (Hoth o' Hne). rewrite Hy in Hoth. destruct (get m' o') as [y'|]; [|discriminate].
      cbn in Hoth. assert (Hl : lv y' = lv y) by congruence. exists y'. split; [reflexivity | apply ObjF_Fx, ObjF_lv, Hl].
  Qed.

  Lemma G_emit e m : G (emit e m) -> G m /\ match e with EBad b _ => bad_ok b = true | _ => True end.
  Proof.
    intros [H1 H2]. unfold no_badU in H1. cbn in H1. apply andb_true_iff in H1 as [H0 H1].
    split; [split; assumption|]. destruct e; auto.
  Qed.
  Lemma G_upd o f m : G (upd o f m) -> G m.
  Proof. auto. Qed.

  Lemma get_upd_eq o f m x : get m o = Some x -> get (upd o f m) o = Some (f x).
  Proof.
    unfold get, upd. cbn. intros H. transitivity (f <$> heap m !! o); [apply list_lookup_alter | rewrite H; reflexivity].
  Qed.
  Lemma get_upd_ne o o' f m : o' <> o -> get (upd o f m) o' = get m o'.
  Proof. unfold get, upd. cbn. intros H. apply list_lookup_alter_ne. congruence. Qed.
  Lemma len_upd o f m : length (heap (upd o f m)) = length (heap m).
  Proof. unfold upd. cbn. apply alter_length. Qed.

  (** *** a generic single-object transition: [m' = emits k (upd o f m)] *)
  Definition emits (k : list event) (m : machine) : machine := m <| log ::= app k |>.
  Lemma emits_nil m : emits [] m = m.
  Proof. destruct m; reflexivity. Qed.
  Lemma emits_one e m : emits [e] m = emit e m.
  Proof. reflexivity. Qed.

  Lemma G_emits k m : G (emits k m) -> G m.
  Proof.
    intros [H1 H2]. split; [|exact H2]. unfold no_badU in *. cbn in H1. rewrite forallb_app in H1.
    apply andb_true_iff in H1. apply H1.
  Qed.

  Lemma Ls_one n0 m o f k x :
    get m o = Some x -> only_o o k ->
    (Linv m -> lwf (k ++ log m) /\ OKo (emits k (upd o f m)) o (f x)) ->
    ((o < n0)%nat -> ObjF x (f x)) ->
    Ls n0 m (emits k (upd o f m)).
  Proof.
    intros Hx Hk Hok HF.
    assert (Hoth : forall o', o' <> o -> lv <$> get (emits k (upd o f m)) o' = lv <$> get m o').
    { intros o' Hne. change (get (emits k (upd o f m)) o') with (get (upd o f m) o'). rewrite get_upd_ne by exact Hne. reflexivity. }
    assert (Hx' : get (emits k (upd o f m)) o = Some (f x)) by (apply (get_upd_eq o f m x Hx)).
    assert (HL : length (heap (emits k (upd o f m))) = length (heap m)) by apply len_upd.
    split; [intros HG; apply G_emits in HG; exact HG|]. split.
    - intros _ HI. destruct (Hok HI) as [Hw Ho]. eapply (Linv_one m _ o x (f x) k); eauto.
    - intros _. eapply Frame_one; eauto.
  Qed.

  Lemma LsX_one ex n0 m o f k x :
    get m o = Some x -> only_o o k ->
    (Linv m -> lwf (k ++ log m) /\ OKo (emits k (upd o f m)) o (f x)) ->
    ((o < n0)%nat -> ObjFx (bool_decide (ex = Some o)) x (f x)) ->
    LsX K mu nfa ex n0 m (emits k (upd o f m)).
  Proof.
    intros Hx Hk Hok HF.
    assert (Hoth : forall o', o' <> o -> lv <$> get (emits k (upd o f m)) o' = lv <$> get m o').
    { intros o' Hne. change (get (emits k (upd o f m)) o') with (get (upd o f m) o'). rewrite get_upd_ne by exact Hne. reflexivity. }
    assert (Hx' : get (emits k (upd o f m)) o = Some (f x)) by (apply (get_upd_eq o f m x Hx)).
    assert (HL : length (heap (emits k (upd o f m))) = length (heap m)) by apply len_upd.
    split; [intros HG; apply G_emits in HG; exact HG|]. split.
    - intros _ HI. destruct (Hok HI) as [Hw Ho]. eapply (Linv_one m _ o x (f x) k); eauto.
    - intros _. eapply FrameX_one; eauto.
  Qed.

  Lemma Ls_guard n0 m m' : (G m' -> Ls n0 m m') -> Ls n0 m m'.
  Proof.
    intros H. split; [intros HG; apply (proj1 (H HG) HG)|]. split; [intros HG; apply (proj1 (proj2 (H HG)) HG)|].
    intros HG. apply (proj2 (proj2 (H HG)) HG).
  Qed.
  Lemma Ls_vac n0 m m' : ~ G m' -> Ls n0 m m'.
  Proof. intros H. apply Ls_guard. intros HG. contradiction. Qed.
  Lemma not_G_bad b o m : bad_ok b = false -> ~ G (emit_bad b o m).
  Proof. intros Hb [H _]. unfold no_badU in H. cbn in H. rewrite Hb in H. discriminate. Qed.

  (** counting through one consed event *)
  Lemma cnt_cons p e l : cntE p (e :: l) = ((if p e then 1 else 0) + cntE p l)%nat.
  Proof. reflexivity. Qed.

  Ltac okstart H :=
    destruct H as [H1 H2 H3 H4 H5 H6 H7].

  (** *** value destruction begins *)
  Definition f_vst (v : vstate) (x : obj) : obj := x <| o_vst := v |>.

  Lemma tr_dropping n0 m o x fl :
    get m o = Some x -> o_ismap x = false -> (o_vst x = VLive \/ o_vst x = VMoved) ->
    Ls n0 m (emit (ECb KDrop o fl) (upd o (f_vst VDropping) m)).
  Proof.
    intros Hx Hm Hv. change (emit (ECb KDrop o fl) (upd o (f_vst VDropping) m)) with (emits [ECb KDrop o fl] (upd o (f_vst VDropping) m)).
    assert (Hnd : dying x = false) by (unfold dying; destruct Hv as [-> | ->]; reflexivity).
    apply Ls_one with (x := x); [exact Hx | repeat constructor; right; reflexivity | |].
    - intros (W & S & HO). pose proof (HO o x Hx) as H. okstart H. rewrite Hm, Hnd in H3.
      split; [split; [exact H3 | exact W]|].
      split; cbn [log emits upd set app]; rewrite ?cnt_cons; cbn [isA isF isD isFi f_vst o_box o_vst o_ismap o_hdr set];
        rewrite ?Nat.eqb_refl, ?Hm; cbn [dying o_vst f_vst set]; try assumption; try lia.
      + intros _. discriminate.
      + intros s a [[Hin|Hin]|[Hin|Hin]]; try discriminate; apply (H5 s a); auto.
      + intros [Hb|[Hu|[Hmm|Hk]]]; [apply H7; auto | discriminate Hu | discriminate Hmm | apply H7; auto].
    - intros _. split; cbn; auto; try (destruct Hv as [Hv|Hv]; rewrite Hv; discriminate).
  Qed.

  Ltac oksolve H1 H2 H3 H4 H5 H6 H7 :=
    split; cbn [log emits upd uhdr set app]; rewrite ?cnt_cons;
      cbn [isA isF isD isFi f_vst o_box o_vst o_ismap o_hdr set h_fin set_fin];
      rewrite ?Nat.eqb_refl; cbn [dying o_vst f_vst set]; try assumption; try lia.

  Lemma tr_dropping_map n0 m o x :
    get m o = Some x -> o_ismap x = true -> (o_vst x = VLive \/ o_vst x = VMoved) ->
    Ls n0 m (upd o (f_vst VDropping) m).
  Proof.
    intros Hx Hm Hv. rewrite <- (emits_nil (upd o (f_vst VDropping) m)).
    apply Ls_one with (x := x); [exact Hx | constructor | |].
    - intros (W & S & HO). pose proof (HO o x Hx) as H. okstart H. rewrite Hm in H3.
      split; [exact W|]. oksolve H1 H2 H3 H4 H5 H6 H7.
      + rewrite Hm. exact H3.
      + intros _. discriminate.
      + intros [Hb|[Hu|[Hmm|Hk]]]; [apply H7; auto | discriminate Hu | apply H7; auto | apply H7; auto].
    - intros _. split; cbn; auto; try (destruct Hv as [Hv|Hv]; rewrite Hv; discriminate).
  Qed.

  Lemma tr_dropped n0 m o x :
    get m o = Some x -> o_vst x = VDropping -> LsX K mu nfa (Some o) n0 m (upd o (f_vst VDropped) m).
  Proof.
    intros Hx Hv. rewrite <- (emits_nil (upd o (f_vst VDropped) m)).
    apply LsX_one with (x := x); [exact Hx | constructor | |].
    - intros (W & S & HO). pose proof (HO o x Hx) as H. okstart H.
      assert (Hd : dying x = true) by (unfold dying; rewrite Hv; reflexivity). rewrite Hd in H3.
      split; [exact W|]. oksolve H1 H2 H3 H4 H5 H6 H7.
      + intros _. discriminate.
      + intros [Hb|[Hu|[Hmm|Hk]]]; [apply H7; auto | discriminate Hu | apply H7; auto | apply H7; auto].
    - intros _. rewrite bool_decide_eq_true_2 by reflexivity. split; cbn; auto.
  Qed.

  Lemma tr_moved n0 m o x :
    get m o = Some x -> o_vst x = VLive -> Ls n0 m (upd o (f_vst VMoved) m).
  Proof.
    intros Hx Hv. rewrite <- (emits_nil (upd o (f_vst VMoved) m)).
    apply Ls_one with (x := x); [exact Hx | constructor | |].
    - intros (W & S & HO). pose proof (HO o x Hx) as H. okstart H.
      assert (Hd : dying x = false) by (unfold dying; rewrite Hv; reflexivity). rewrite Hd in H3.
      split; [exact W|]. oksolve H1 H2 H3 H4 H5 H6 H7.
      + intros _. discriminate.
      + intros [Hb|[Hu|[Hmm|Hk]]]; [apply H7; auto | discriminate Hu | apply H7; auto | apply H7; auto].
    - intros _. split; cbn; auto; rewrite Hv; discriminate.
  Qed.

  Lemma tr_uninit n0 m o x :
    get m o = Some x -> o_vst x = VLive -> o_box x = BNotYet -> (n0 <= o)%nat ->
    Ls n0 m (upd o (f_vst VUninit) m).
  Proof.
    intros Hx Hv Hb Hn. rewrite <- (emits_nil (upd o (f_vst VUninit) m)).
    apply Ls_one with (x := x); [exact Hx | constructor | |].
    - intros (W & S & HO). pose proof (HO o x Hx) as H. okstart H.
      assert (Hd : dying x = false) by (unfold dying; rewrite Hv; reflexivity). rewrite Hd in H3.
      split; [exact W|]. oksolve H1 H2 H3 H4 H5 H6 H7.
      + intros _. discriminate.
      + intros _. apply H7; auto.
    - intros Hlt. lia.
  Qed.

  Lemma tr_init n0 m o x :
    get m o = Some x -> o_vst x = VUninit -> o_box x = BAlloc -> (n0 <= o)%nat ->
    Ls n0 m (upd o (f_vst VLive) m).
  Proof.
    intros Hx Hv Hb Hn. rewrite <- (emits_nil (upd o (f_vst VLive) m)).
    apply Ls_one with (x := x); [exact Hx | constructor | |].
    - intros (W & S & HO). pose proof (HO o x Hx) as H. okstart H.
      assert (Hd : dying x = false) by (unfold dying; rewrite Hv; reflexivity). rewrite Hd in H3.
      split; [exact W|]. oksolve H1 H2 H3 H4 H5 H6 H7.
      + rewrite Hb. discriminate.
      + intros _. apply H7; auto.
    - intros Hlt. lia.
  Qed.

  (** *** finalization *)
  Definition f_fin (b : bool) (x : obj) : obj := x <| o_hdr ::= set_fin b |>.

  Lemma tr_setfin n0 m o x :
    get m o = Some x -> Ls n0 m (uhdr o (set_fin true) m).
  Proof.
    intros Hx. change (uhdr o (set_fin true) m) with (upd o (f_fin true) m).
    rewrite <- (emits_nil (upd o (f_fin true) m)).
    apply Ls_one with (x := x); [exact Hx | constructor | |].
    - intros (W & S & HO). pose proof (HO o x Hx) as H. okstart H.
      split; [exact W|]. unfold f_fin. oksolve H1 H2 H3 H4 H5 H6 H7.
      intros Hn. split; [apply H6, Hn | reflexivity].
    - intros _. split; cbn; auto.
  Qed.

  Lemma tr_fin n0 m o x fl :
    get m o = Some x -> h_fin (o_hdr x) = false ->
    o_vst x = VLive -> o_box x = BAlloc -> o_ismap x = false -> k_fin K = true ->
    Ls n0 m (emit (ECb KFin o fl) (uhdr o (set_fin true) m)).
  Proof.
    intros Hx Hf Hv Hb Hm Hk.
    change (emit (ECb KFin o fl) (uhdr o (set_fin true) m)) with (emits [ECb KFin o fl] (upd o (f_fin true) m)).
    apply Ls_one with (x := x); [exact Hx | repeat constructor; right; reflexivity | |].
    - intros (W & S & HO). pose proof (HO o x Hx) as H. okstart H.
      assert (Hd : dying x = false) by (unfold dying; rewrite Hv; reflexivity). rewrite Hm, Hd in H3.
      assert (Hz : nfa = true -> cntE (isFi o) (log m) = 0%nat).
      { intros Hn. destruct (H6 Hn) as [Hle H1f]. destruct (cntE (isFi o) (log m)) as [|[|n]]; [reflexivity| |lia].
        rewrite H1f in Hf; [discriminate | reflexivity]. }
      split; [split; [split; [exact H3 | split; [exact Hz | exact Hk]] | exact W]|].
      unfold f_fin. oksolve H1 H2 H3 H4 H5 H6 H7.
      + rewrite Hm. change (dying (x <| o_hdr ::= set_fin true |>)) with (dying x). rewrite Hd. exact H3.
      + intros s a [[Hin|Hin]|[Hin|Hin]]; try discriminate; apply (H5 s a); auto.
      + intros Hn. rewrite (Hz Hn). split; [lia | reflexivity].
      + rewrite Hb, Hv, Hm, Hk. intros [?|[?|[?|?]]]; discriminate.
    - intros _. split; cbn; auto.
  Qed.

  Lemma tr_finagain n0 m o x :
    get m o = Some x -> nfa = false -> Ls n0 m (uhdr o (set_fin false) m).
  Proof.
    intros Hx Hn. change (uhdr o (set_fin false) m) with (upd o (f_fin false) m).
    rewrite <- (emits_nil (upd o (f_fin false) m)).
    apply Ls_one with (x := x); [exact Hx | constructor | |].
    - intros (W & S & HO). pose proof (HO o x Hx) as H. okstart H.
      split; [exact W|]. unfold f_fin. oksolve H1 H2 H3 H4 H5 H6 H7.
      rewrite Hn. discriminate.
    - intros _. split; cbn; auto.
  Qed.

  (** *** allocation *)
  Lemma box_alloc_eq m o x : get m o = Some x ->
    box_alloc K o m =
    emits [EAlloc o (box_layout K x).1 (box_layout K x).2]
      (upd o (fun x => x <| o_box := BAlloc |> <| o_hdr := hdr_new (k_fin K && st_finalizing m) |>)
           (m <| st_alloc ::= fun a => a + (box_layout K x).1 |>)).
  Proof. intros Hx. unfold box_alloc. rewrite Hx. destruct (box_layout K x). reflexivity. Qed.

  Lemma tr_alloc n0 m o :
    (n0 <= o)%nat -> (G m -> forall x, get m o = Some x -> o_box x = BNotYet) ->
    Ls n0 m (box_alloc K o m).
  Proof.
    intros Hn Hb. destruct (get m o) as [x|] eqn:Hx.
    2:{ unfold box_alloc. rewrite Hx. apply Ls_vac, not_G_bad. reflexivity. }
    rewrite (box_alloc_eq m o x Hx). apply Ls_guard. intros HG. apply G_emits in HG.
    assert (HGm : G m) by exact HG. specialize (Hb HGm x eq_refl).
    set (m1 := m <| st_alloc ::= fun a => a + (box_layout K x).1 |>).
    eapply Ls_trans; [apply (Quiet_Ls K mu nfa n0 m m1); unfold m1; lq|].
    apply Ls_one with (x := x); [exact Hx | repeat constructor; right; reflexivity | |].
    - intros (W & S & HO). pose proof (HO o x Hx) as H. okstart H. rewrite Hb in H1, H2. cbn in H1, H2.
      assert (Hz : cntE (isFi o) (log m) = 0%nat) by (apply H7; auto).
      split; [split; [exact H1 | exact W]|].
      split; cbn [log emits upd set app m1]; rewrite ?cnt_cons; cbn [isA isF isD isFi o_box o_vst o_ismap o_hdr set];
        rewrite ?Nat.eqb_refl; try assumption; try lia.
      + intros Hf. discriminate.
      + intros s a [[Hin|Hin]|[Hin|Hin]]; try discriminate.
        * injection Hin as <- <-. unfold box_layout. cbn. destruct (o_ismap x); reflexivity.
        * apply (H5 s a); auto.
        * apply (H5 s a); auto.
    - intros Hlt. lia.
  Qed.

  (** *** deallocation *)
  Lemma tr_free n0 m o :
    (G m -> forall x, get m o = Some x -> o_vst x <> VLive /\ ((o < n0)%nat -> o_vst x <> VUninit)) ->
    Ls n0 m (dealloc K o m).
  Proof.
    intros Hv. destruct (get m o) as [x|] eqn:Hx.
    2:{ unfold dealloc. rewrite Hx. apply Ls_vac, not_G_bad. reflexivity. }
    unfold dealloc. rewrite Hx. destruct (box_layout K x) as [sz al] eqn:El.
    destruct (o_box x) eqn:Hb.
    1,3: apply Ls_vac; intros HG; apply G_emit in HG as [HG _];
         match type of HG with G (upd _ _ ?mm) => assert (HG2 : G mm) by exact HG end;
         destruct (st_alloc (emit_bad DoubleFree o m) <? sz) in HG2;
         [apply G_emit in HG2 as [HG2 _] | ]; apply (not_G_bad DoubleFree o m eq_refl HG2).
    cbv zeta.
    set (m1 := (if st_alloc m <? sz then emit_bad Underflow o m else m) <| st_alloc ::= fun a => a - sz |>).
    assert (HQ : Quiet m m1) by (unfold m1; destruct (st_alloc m <? sz); lq).
    apply Ls_guard. intros HG.
    assert (HGm : G m) by (apply (Quiet_G mu m m1 HQ); apply G_emit in HG as [HG _]; exact HG).
    destruct (Hv HGm x eq_refl) as [Hlive Hun].
    assert (Hx1 : get m1 o = Some x) by (unfold m1; destruct (st_alloc m <? sz); exact Hx).
    eapply Ls_trans; [apply (Quiet_Ls K mu nfa n0 m m1 HQ)|]. clear HQ. clearbody m1.
    change (emit (EFree o sz al) (upd o (fun x0 => x0 <| o_box := BFreed |>) m1))
      with (emits [EFree o sz al] (upd o (fun x0 => x0 <| o_box := BFreed |>) m1)).
    apply Ls_one with (x := x); [exact Hx1 | repeat constructor; right; reflexivity | |].
    - intros (W & S & HO). pose proof (HO o x Hx1) as H. okstart H. rewrite Hb in H1, H2. cbn in H1, H2.
      assert (Hin : In (EAlloc o sz al) (log m1)).
      { assert (Hp : (0 < cntE (isA o) (log m1))%nat) by lia. apply cntE_pos in Hp as (e & Hin & He).
        destruct e as [| o' s a | | | | | | | |]; try discriminate. cbn in He. apply Nat.eqb_eq in He. subst o'.
        assert (Hsa : (s, a) = (sz, al)) by (rewrite <- El; apply (H5 s a); auto). injection Hsa as -> ->. exact Hin. }
      split; [split; [split; [exact Hin | exact H2] | exact W]|].
      split; cbn [log emits upd set app]; rewrite ?cnt_cons; cbn [isA isF isD isFi o_box o_vst o_ismap o_hdr set];
        rewrite ?Nat.eqb_refl; try assumption; try lia.
      + intros _. exact Hlive.
      + intros s a [[Hi|Hi]|[Hi|Hi]]; try discriminate.
        * apply (H5 s a); auto.
        * injection Hi as <- <-. rewrite <- El. reflexivity.
        * apply (H5 s a); auto.
      + intros [Hc|[Hc|[Hc|Hc]]]; [discriminate Hc | apply H7; auto | apply H7; auto | apply H7; auto].
    - intros Hlt. split; cbn; auto; try (rewrite Hb; discriminate). intros Hu. destruct (Hun Hlt Hu).
  Qed.

  (** *** a new object *)
  Lemma scoped_zero m p o : scoped m -> (forall e, p e = true -> ev_id e = Some o) -> (length (heap m) <= o)%nat ->
    cntE p (log m) = 0%nat.
  Proof.
    intros S Hp Hn. destruct (cntE p (log m)) eqn:E; [reflexivity|]. exfalso.
    assert (Hpos : (0 < cntE p (log m))%nat) by lia. apply cntE_pos in Hpos as (e & Hin & He).
    specialize (S e o Hin (Hp e He)). lia.
  Qed.
  Lemma isA_id o e : isA o e = true -> ev_id e = Some o.
  Proof. destruct e; try discriminate; cbn; intros H; apply Nat.eqb_eq in H; subst; reflexivity. Qed.
  Lemma isF_id o e : isF o e = true -> ev_id e = Some o.
  Proof. destruct e; try discriminate; cbn; intros H; apply Nat.eqb_eq in H; subst; reflexivity. Qed.
  Lemma isD_id o e : isD o e = true -> ev_id e = Some o.
  Proof. destruct e as [k ? ?| | | | | | | | |]; try discriminate. destruct k; try discriminate; cbn; intros H; apply Nat.eqb_eq in H; subst; reflexivity. Qed.
  Lemma isFi_id o e : isFi o e = true -> ev_id e = Some o.
  Proof. destruct e as [k ? ?| | | | | | | | |]; try discriminate. destruct k; try discriminate; cbn; intros H; apply Nat.eqb_eq in H; subst; reflexivity. Qed.

  Lemma tr_new n0 m x0 : o_box x0 = BNotYet -> o_vst x0 = VLive ->
    Ls n0 m (m <| heap ::= fun h => h ++ [x0] |>).
  Proof.
    intros Hb Hv. set (m' := m <| heap ::= fun h => h ++ [x0] |>).
    assert (Hold : forall o x, get m o = Some x -> get m' o = Some x).
    { intros o x Hx. unfold get, m'. cbn. rewrite lookup_app_l; [exact Hx | apply lookup_lt_Some in Hx; exact Hx]. }
    split; [auto|]. split.
    - intros _ (W & S & HO). split; [exact W|]. split.
      + intros e o Hin Hid. unfold m'. cbn. rewrite app_length. specialize (S e o Hin Hid). lia.
      + intros o x' Hx'. unfold get, m' in Hx'. cbn in Hx'.
        destruct (decide (o < length (heap m))%nat) as [Hlt|Hge].
        * rewrite lookup_app_l in Hx' by exact Hlt.
          eapply (OKo_quiet K nfa m m' o x' x' []); [reflexivity | constructor | reflexivity | apply HO, Hx'].
        * rewrite lookup_app_r in Hx' by lia.
          destruct (o - length (heap m))%nat as [|n] eqn:En; [|destruct n; discriminate]. injection Hx' as <-.
          assert (Hge' : (length (heap m) <= o)%nat) by lia.
          assert (Hd : dying x0 = false) by (unfold dying; rewrite Hv; reflexivity).
          split; change (log m') with (log m);
            rewrite ?(scoped_zero m _ o S (isA_id o) Hge'), ?(scoped_zero m _ o S (isF_id o) Hge'),
                    ?(scoped_zero m _ o S (isD_id o) Hge'), ?(scoped_zero m _ o S (isFi_id o) Hge'), ?Hb, ?Hd;
            try reflexivity; try (intros; discriminate); try (destruct (o_ismap x0); reflexivity); auto.
          -- intros s a [Hin|Hin]; exfalso; [specialize (S _ o Hin eq_refl) | specialize (S _ o Hin eq_refl)]; lia.
          -- intros _. split; [lia | discriminate].
    - intros _. split; [unfold m'; cbn; rewrite app_length; lia|]. intros o x _ Hx. exists x. split; [apply Hold, Hx | apply ObjF_refl].
  Qed.
End Tr.
