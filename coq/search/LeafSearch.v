(** * LeafSearch: failing-input search for the header refinement obligations (NOT a proof, NOT part
    of the official build).  When [CounterSpec] / [WeakSpec] no longer check, ./check compiles this
    file against the freshly generated code and prints, per operation, the first header word on
    which the generated code differs from the abstract operation of [Hdr.v] it is supposed to
    implement (the statements of the [gen_*_spec] theorems, as boolean tests). *)
From Coq Require Import NArith Bool List.
From RC Require Import Hdr Word.
From RC.gen Require CounterMarkerGen WeakCounterGen.
Module G := CounterMarkerGen.
Module W := WeakCounterGen.
Import ListNotations.
Local Open Scope N_scope.

Notation mk := G.mk_counter_marker.
Notation twd := G.tracing_counter_cell.
Notation cwd := G.counter_cell.
Definition dec (s : G.counter_marker) : hdr := hdr_decode (twd s) (cwd s).
Definition wfb (s : G.counter_marker) : bool := (twd s <? 65536) && (cwd s <? 65536).
Definition hdr_eqb (a b : hdr) : bool :=
  (h_rc a =? h_rc b) && (h_tc a =? h_tc b) && mark_eqb (h_mark a) (h_mark b)
  && Bool.eqb (h_fin a) (h_fin b) && Bool.eqb (h_side a) (h_side b).
Definition cm_eqb (a b : G.counter_marker) : bool := (twd a =? twd b) && (cwd a =? cwd b).
Definition mut_ok (r : G.counter_marker) (h : hdr) : bool := hdr_eqb (dec r) h && wfb r.
Definition res_ok (s : G.counter_marker) (r : G.counter_marker * bool) (h : option hdr) : bool :=
  match h with
  | None => snd r && cm_eqb (fst r) s
  | Some h' => negb (snd r) && mut_ok (fst r) h'
  end.
Definition mark_of (m : mark) : G.Mark :=
  match m with NM => G.NonMarked | PC => G.PossibleCycles | IL => G.InList | IQ => G.InQueue end.

(** the words paired with the swept one *)
Definition others : list N := [1; 65535].

(* third component: true = the operation works on the counter word, false = on the tracing word *)
Definition tests : list (nat * bool * (G.counter_marker -> bool)) :=
  [ (1%nat, true, fun s => implb (negb (h_rc (dec s) =? 16383)) (res_ok s (G.increment_counter s) (inc_rc (dec s))));
    (2%nat, true, fun s => res_ok s (G.decrement_counter s) (dec_rc (dec s)));
    (3%nat, false, fun s => implb (negb (h_tc (dec s) =? 16383)) (res_ok s (G.increment_tracing_counter s) (inc_tc (dec s))));
    (4%nat, false, fun s => mut_ok (G.reset_tracing_counter s) (reset_tc (dec s)));
    (5%nat, false, fun s => Bool.eqb (G.is_dropped s) (is_dropped (dec s)));
    (6%nat, false, fun s => mut_ok (G.set_dropped s true) (set_dropped (dec s)) && mut_ok (G.set_dropped s false) (set_tc 0 (dec s)));
    (7%nat, false, fun s => forallb (fun m => mut_ok (G.mark s (mark_of m)) (set_mark m (dec s))) [NM; PC; IL; IQ]);
    (8%nat, true, fun s => forallb (fun b => mut_ok (G.set_finalized s b) (set_fin b (dec s))) [true; false]);
    (9%nat, true, fun s => forallb (fun b => mut_ok (G.set_allocated_for_metadata s b) (set_side b (dec s))) [true; false]);
    (10%nat, false, fun s => Bool.eqb (G.is_not_marked s) (is_not_marked (dec s)));
    (11%nat, false, fun s => Bool.eqb (G.is_in_possible_cycles s) (is_in_pc (dec s)));
    (12%nat, false, fun s => Bool.eqb (G.is_in_list s) (is_in_list (dec s)));
    (13%nat, false, fun s => Bool.eqb (G.is_in_list_or_queue s) (is_in_list_or_queue (dec s)));
    (14%nat, true, fun s => Bool.eqb (G.needs_finalization s) (needs_fin (dec s)));
    (15%nat, true, fun s => Bool.eqb (G.has_allocated_for_metadata s) (h_side (dec s)));
    (16%nat, true, fun s => G.counter s =? h_rc (dec s));
    (17%nat, false, fun s => G.tracing_counter s =? h_tc (dec s)) ].

Definition first_fail (cword : bool) (f : G.counter_marker -> bool) : option (N * N) :=
  let pair w o := if cword then (o, w) else (w, o) in
  fold_left (fun acc o => match acc with
                          | Some _ => acc
                          | None => match find (fun w => negb (f (mk (fst (pair w o)) (snd (pair w o))))) all_u16 with
                                    | Some w => Some (pair w o)
                                    | None => None
                                    end
                          end) others None.

Definition new_ok : bool :=
  forallb (fun b => hdr_eqb (dec (G.new_with_counter_to_one b)) (hdr_new b)) [true; false].

(** weak side-record word *)
Notation mkw := W.mk_weak_counter_marker.
Notation wwd := W.weak_counter_cell.
Definition wdec (s : W.weak_counter_marker) : wk := wk_decode (wwd s).
Definition wk_eqb (a b : wk) : bool := (w_cnt a =? w_cnt b) && Bool.eqb (w_acc a) (w_acc b).
Definition wres_ok (s : W.weak_counter_marker) (r : W.weak_counter_marker * bool) (v : option wk) : bool :=
  match v with
  | None => snd r && (wwd (fst r) =? wwd s)
  | Some v' => negb (snd r) && wk_eqb (wdec (fst r)) v' && (wwd (fst r) <? 65536)
  end.
Definition wtests : list (nat * (W.weak_counter_marker -> bool)) :=
  [ (21%nat, fun s => wres_ok s (W.increment_counter s) (inc_wk (wdec s)));
    (22%nat, fun s => wres_ok s (W.decrement_counter s) (dec_wk (wdec s)));
    (23%nat, fun s => W.counter s =? w_cnt (wdec s));
    (24%nat, fun s => Bool.eqb (W.is_accessible s) (w_acc (wdec s)));
    (25%nat, fun s => forallb (fun b => wk_eqb (wdec (W.set_accessible s b)) (set_acc b (wdec s))) [true; false]) ].
Definition wfirst_fail (f : W.weak_counter_marker -> bool) : option N :=
  find (fun w => negb (f (mkw w))) all_u16.

Definition report : list (nat * option (N * N)) :=
  (0%nat, if new_ok then None else Some (0, 0))
  :: map (fun t => (fst (fst t), first_fail (snd (fst t)) (snd t))) tests
  ++ map (fun t => (fst t, match wfirst_fail (snd t) with Some w => Some (w, 0) | None => None end)) wtests.

Eval vm_compute in filter (fun r => match snd r with Some _ => true | None => false end) report.
