(** * SafeCollDrop: the drop pass ([KDropList]): auxiliary lemmas. *)
From Coq Require Import NArith Bool List Lia.
From stdpp Require Import base list option.
From RecordUpdate Require Import RecordSet.
From RC Require Import Hdr Machine RunInd.
From RC Require BufBase BufPass BufStep Buf.
From RC Require Import Inv InvP SafeHelpers SafePrims SafeCalls SafeGlue SafeDrop SafeCmd SafeCyclic SafeMain.
From RC Require Import SafeColl SafeCollFr SafeCollHdr SafeCollTop SafeCollPass SafeCollDead SafeCollOnce SafeCollFin.
Import ListNotations RecordSetNotations.
Local Open Scope N_scope.

Section DropSmall.
  Context (K : conf).
  Implicit Types (m : machine) (o : id) (x : obj).

  (** *** no fuel event from the allocator helpers *)
  Lemma nofuel_sfree o m : nofuel m -> nofuel (sfree o m).
  Proof.
    intros H. unfold sfree. destruct (get m o) as [x|]; [|apply nofuel_emit; auto].
    destruct (o_side x) as [s|]; [|apply nofuel_emit; auto].
    destruct (sd_freed s); repeat (apply nofuel_emit; [reflexivity|]); exact H.
  Qed.
  Lemma nofuel_drop_metadata o m : nofuel m -> nofuel (drop_metadata K o m).
  Proof.
    intros H. unfold drop_metadata. destruct (negb (k_weak K)); [exact H|].
    destruct (get m o) as [x|]; [|apply nofuel_emit; auto].
    destruct (h_side (o_hdr x)); [|exact H]. destruct (o_side x) as [s|]; [|apply nofuel_emit; auto].
    destruct (sd_freed s); destruct (w_cnt (sd_wk s) =? 0);
      try apply nofuel_sfree; try (apply nofuel_emit; [reflexivity|]); exact H.
  Qed.
  Lemma nofuel_dealloc o m : nofuel m -> nofuel (dealloc K o m).
  Proof.
    intros H. unfold dealloc. destruct (get m o) as [x|]; [|apply nofuel_emit; auto].
    destruct (box_layout K x) as [sz al].
    apply nofuel_emit; [reflexivity|]. unfold nofuel. cbn.
    destruct (o_box x); cbn; match goal with |- context [if ?c then _ else _] => destruct c end; cbn; exact H.
  Qed.

  (** *** with weak-ptrs, the un-dropped allocated members of the dying set are in the active list *)
  Lemma undropped_in_L b E L m o x :
    SInv K b E [] m -> BufBase.Ibuf K L m -> k_weak K = true ->
    get m o = Some x -> inD m o = true -> o_box x = BAlloc -> is_dropped (o_hdr x) = false -> o ∈ L.
  Proof.
    intros HI HB Hk Hx Hi Hb Hd.
    destruct (sv_objx _ _ _ _ _ HI o x Hx) as [_ _ X3 _ _ _]. destruct (X3 Hk Hi Hb Hd) as [Hmk _].
    eapply Ibuf_IL_member; eauto.
  Qed.

  (** *** the list invariants across an activation run by the pass *)
  Lemma holder_in_dead b E m h c o : SInv K b E [] m -> hloc m h c o -> inD m o = true ->
    exists p xp, h = Some p /\ get m p = Some xp /\ inD m p = true /\ o_vst xp <> VDropped.
  Proof.
    intros HI Hl Hi. destruct (sv_loc _ _ _ _ _ HI _ _ _ Hl) as (xt & Hxt & _ & _ & Hm).
    destruct h as [p|]; [|destruct Hm; congruence].
    assert (Hp : exists xp, get m p = Some xp).
    { inversion Hl; subst; eauto. }
    destruct Hp as [xp Hp]. destruct (Hm xp Hp) as [_ M2]. destruct (M2 Hi) as (N1 & N2 & _).
    exists p, xp. auto.
  Qed.

  Lemma hloc_fields m m' p x x' c t :
    get m p = Some x -> get m' p = Some x' -> o_fields x' = o_fields x -> o_cleaner x' = o_cleaner x ->
    hloc m' (Some p) c t -> hloc m (Some p) c t.
  Proof.
    intros Hx Hx' Hf Hc Hl. inversion Hl as [| | p0 xp j t0 Hp Hj | p0 xp t0 Hp Hcl]; subst.
    - assert (xp = x') by congruence. subst xp. rewrite Hf in Hj. econstructor 3; eauto.
    - assert (xp = x') by congruence. subst xp. rewrite Hc in Hcl. econstructor 4; eauto.
  Qed.

  Lemma DeadClosed_fr b' E ex L m m' :
    Fr K E ex m m' -> st_collecting m = true -> SInv K b' E [] m' ->
    (forall o, inD m o = true -> is_Some (get m o)) ->
    (forall g, ex = Some g -> g ∈ L) ->
    (forall o, o ∈ L -> inD m' o = true) ->
    DeadClosed L m -> DeadClosed L m'.
  Proof.
    intros F Hc HI' Hex0 Hexg HLd HC o Ho h c Hl.
    destruct (holder_in_dead _ _ _ _ _ _ HI' Hl (HLd o Ho)) as (p & xp' & -> & Hp' & Hip' & Hvp').
    exists p. split; [reflexivity|].
    destruct (decide (ex = Some p)) as [He|Hne]; [apply Hexg, He|].
    pose proof (fr_deadc _ _ _ _ _ F Hc p Hip') as Hip.
    destruct (Hex0 p Hip) as [xp Hp].
    destruct (fr_obj _ _ _ _ _ F p xp Hp) as (y & Hy & OF). assert (y = xp') by congruence. subst y.
    destruct (of_dead _ _ _ _ _ _ _ OF Hip Hne Hvp') as [Hf Hcl].
    destruct (HC o Ho (Some p) c (hloc_fields m m' p xp xp' c o Hp Hp' Hf Hcl Hl)) as (p' & [= <-] & Hin).
    exact Hin.
  Qed.

  Lemma TargetsIn_fr E ex L rest rest' m m' :
    Fr K E ex m m' -> st_collecting m = true ->
    (forall o, inD m o = true -> is_Some (get m o)) ->
    (forall g, g ∈ rest' -> g ∈ rest /\ ex <> Some g /\ inD m g = true) ->
    (forall g x', g ∈ rest' -> get m' g = Some x' -> o_vst x' <> VDropped) ->
    TargetsIn L rest m -> TargetsIn L rest' m'.
  Proof.
    intros F Hc Hex0 Hsub Hv HT g x' t Hg Hx' Ht Hi.
    destruct (Hsub g Hg) as (Hg0 & Hne & Hig). destruct (Hex0 g Hig) as [x Hx].
    destruct (fr_obj _ _ _ _ _ F g x Hx) as (y & Hy & OF). assert (y = x') by congruence. subst y.
    destruct (of_dead _ _ _ _ _ _ _ OF Hig Hne (Hv g x' Hg Hx')) as [Hf Hcl].
    apply (HT g x t Hg0 Hx); [rewrite <- Hf, <- Hcl; exact Ht|].
    apply (fr_deadc _ _ _ _ _ F Hc t Hi).
  Qed.

  (** a frame modulo marks for header updates that may also set the dropped marker *)
  Lemma FrM_hdrs E m m' :
    length (heap m') = length (heap m) -> dead m' = dead m -> wparam m' = wparam m ->
    (forall o x, get m o = Some x -> exists h', get m' o = Some (x <| o_hdr := h' |>) /\
        (o_box x = BNotYet -> h' = o_hdr x) /\
        (k_weak K = true -> inD m o = true -> is_dropped h' = false -> h' = o_hdr x)) ->
    FrM K E m m'.
  Proof.
    intros Hlen Hd Hw Hp. unfold FrM.
    assert (HD : forall o, inD (strip m') o = inD (strip m) o) by (intros o; apply (inD_eq m m' o Hd)).
    assert (Hr : forall o x', get m' o = Some x' -> exists x, get m o = Some x).
    { intros o x' Hx'. destruct (get m o) as [x|] eqn:Ex; [eauto|]. exfalso.
      apply lookup_ge_None_1 in Ex. apply lookup_lt_Some in Hx'. lia. }
    split.
    - reflexivity.
    - exact Hw.
    - intros o. rewrite HD. auto.
    - intros Hc. discriminate Hc.
    - intros o y Hy. apply get_strip_Some in Hy as (x & Hx & ->).
      destruct (Hp o x Hx) as (h' & Hx' & Hny & _). exists (norm_obj (x <| o_hdr := h' |>)).
      split; [rewrite get_strip, Hx'; reflexivity|].
      destruct (o_box x) eqn:Eb.
      + rewrite (Hny eq_refl). assert (Hxx : x <| o_hdr := o_hdr x |> = x) by (destruct x; reflexivity). rewrite Hxx.
        apply ObjFr_refl. intros o'. rewrite HD. auto.
      + apply ObjFr_hs; rewrite ?norm_cls, ?norm_ismap, ?norm_fields, ?norm_cleaner, ?norm_wfields, ?norm_vst, ?norm_box;
          first [ reflexivity | intros o'; rewrite HD; solve [auto] | left; cbn; congruence
                | intros _; apply norm_marked; cbn; congruence | rewrite norm_marked by congruence; discriminate | congruence ].
      + apply ObjFr_hs; rewrite ?norm_cls, ?norm_ismap, ?norm_fields, ?norm_cleaner, ?norm_wfields, ?norm_vst, ?norm_box;
          first [ reflexivity | intros o'; rewrite HD; solve [auto] | left; cbn; congruence
                | intros _; apply norm_marked; cbn; congruence | rewrite norm_marked by congruence; discriminate | congruence ].
    - intros Hk o y' Hy' Hi Hb Hdr. apply get_strip_Some in Hy' as (x' & Hx' & ->).
      destruct (Hr o x' Hx') as [x Hx]. destruct (Hp o x Hx) as (h' & Hx'' & _ & Hud).
      assert (x' = x <| o_hdr := h' |>) by congruence. subst x'.
      rewrite HD in Hi. rewrite inD_strip in Hi. rewrite norm_dropped in Hdr. cbn in Hdr.
      rewrite (Hud Hk Hi Hdr) in *. assert (Hxx : x <| o_hdr := o_hdr x |> = x) by (destruct x; reflexivity). rewrite Hxx in *.
      exists (norm_obj x). rewrite get_strip, Hx, inD_strip. rewrite norm_dropped.
      split; [reflexivity|]. split; [exact Hi|]. split; [exact Hb | rewrite <- (Hud Hk Hi Hdr); exact Hdr].
  Qed.
End DropSmall.

(** ** Header-only updates without any constraint on the new header *)
Definition fsim (x x' : obj) : Prop := exists h', x' = x <| o_hdr := h' |>.
Lemma fsim_proj x x' : fsim x x' ->
  o_box x' = o_box x /\ o_vst x' = o_vst x /\ o_ismap x' = o_ismap x /\ o_fields x' = o_fields x /\
  o_cleaner x' = o_cleaner x /\ o_wfields x' = o_wfields x /\ o_side x' = o_side x /\ o_cls x' = o_cls x.
Proof. intros (h' & ->). repeat split. Qed.

Section Fsim.
  Context (K : conf).
  Implicit Types (m : machine) (o : id) (x : obj).

  Definition heaps_fsim m m' : Prop := Forall2 fsim (heap m) (heap m').
  Lemma fs_l m m' o x : heaps_fsim m m' -> get m o = Some x -> exists x', get m' o = Some x' /\ fsim x x'.
  Proof. intros HF Hx. apply (Forall2_lookup_l _ _ _ _ _ HF Hx). Qed.
  Lemma fs_r m m' o x' : heaps_fsim m m' -> get m' o = Some x' -> exists x, get m o = Some x /\ fsim x x'.
  Proof. intros HF Hx. apply (Forall2_lookup_r _ _ _ _ _ HF Hx). Qed.
  Lemma heaps_fsim_intro m m' :
    length (heap m') = length (heap m) ->
    (forall o x, get m o = Some x -> exists x', get m' o = Some x' /\ fsim x x') ->
    heaps_fsim m m'.
  Proof.
    intros Hlen Hp. apply Forall2_same_length_lookup. split; [symmetry; exact Hlen|].
    intros i x x' Hx Hx'. destruct (Hp i x Hx) as (y & Hy & Hs). unfold get, Machine.id in Hy. rewrite Hx' in Hy. injection Hy as ->. exact Hs.
  Qed.
  Lemma refs_fsim m m' o : heaps_fsim m m' -> slots m' = slots m -> bag m' = bag m -> refs m' o = refs m o.
  Proof.
    intros HF Hs Hb. rewrite !refs_unfold, Hs, Hb. f_equal.
    apply (hsum_Forall2 fsim); [exact HF|]. intros x x' Hx. destruct (fsim_proj _ _ Hx) as (_ & _ & _ & Hf & Hc & _).
    unfold obj_refs. rewrite Hf, Hc. reflexivity.
  Qed.
  Lemma wrefs_fsim m m' o : heaps_fsim m m' -> wslots m' = wslots m -> wparam m' = wparam m -> cslots m' = cslots m ->
    wrefs m' o = wrefs m o.
  Proof.
    intros HF H1 H2 H3. rewrite !wrefs_unfold, H1, H2, H3. f_equal.
    apply (hsum_Forall2 fsim); [exact HF|]. intros x x' Hx. destruct (fsim_proj _ _ Hx) as (_ & _ & _ & _ & _ & Hw & _).
    rewrite Hw. reflexivity.
  Qed.
  Lemma hloc_fsim m m' h c t : heaps_fsim m m' -> slots m' = slots m -> bag m' = bag m -> hloc m' h c t -> hloc m h c t.
  Proof.
    intros HF Hs Hb [i t' H | t' H | p xp' j t' Hp Hj | p xp' t' Hp Hc].
    - econstructor 1. rewrite <- Hs. eauto.
    - constructor 2. rewrite <- Hb. exact H.
    - destruct (fs_r _ _ _ _ HF Hp) as (xp & Hxp & Hsim). destruct (fsim_proj _ _ Hsim) as (_ & _ & _ & Hf & _).
      rewrite Hf in Hj. econstructor 3; eauto.
    - destruct (fs_r _ _ _ _ HF Hp) as (xp & Hxp & Hsim). destruct (fsim_proj _ _ Hsim) as (_ & _ & _ & _ & Hcl & _).
      rewrite Hcl in Hc. econstructor 4; eauto.
  Qed.
  Lemma is_map_fsim m m' o : heaps_fsim m m' -> is_map m' o = is_map m o.
  Proof.
    intros HF. unfold is_map. destruct (get m o) as [x|] eqn:Ex.
    - destruct (fs_l _ _ _ _ HF Ex) as (x' & -> & Hs). apply (fsim_proj _ _ Hs).
    - destruct (get m' o) as [x'|] eqn:Ex'; [|reflexivity]. destruct (fs_r _ _ _ _ HF Ex') as (x & Hx & _). congruence.
  Qed.

  (** *** the drop pass unwinds: its list is un-marked (and marked dropped with weak-ptrs) and
      abandoned inside the dying set; the [dropping] flag is restored *)
  Definition abandon_hdr (h : hdr) : hdr :=
    let h := set_mark NM h in if k_weak K then set_dropped h else h.

  Definition AMember (m : machine) (g : id) : Prop :=
    inD m g = true /\ exists x, get m g = Some x /\ o_box x = BAlloc /\ h_mark (o_hdr x) = IL /\
                               (o_vst x = VLive \/ o_vst x = VDropped).

  Lemma abandon_ok b E L old_d m :
    NoBad m -> SInv K b E [] m -> BufBase.Ibuf K L m -> NoDup L ->
    (forall g, g ∈ L -> AMember m g) -> DeadClosed L m ->
    let m' := fold_left (fun m g => uhdr g abandon_hdr m) L m <| st_dropping := old_d |> in
    NoBad m' /\ SInv K b E [] m' /\ FrM K E m m' /\ LDone K L m' /\ dead m' = dead m.
  Proof.
    intros Hnb HI HB Hnd HM HC. cbv zeta.
    set (m2 := fold_left (fun m g => uhdr g abandon_hdr m) L m).
    set (m' := m2 <| st_dropping := old_d |>).
    destruct (fold_uhdr_proj abandon_hdr L m) as (P1 & P2 & P3 & P4 & P5 & P6 & P7 & P8 & P9 & P10 & P11 & P12 & P13 & P14 & P15).
    fold m2 in P1, P2, P3, P4, P5, P6, P7, P8, P9, P10, P11, P12, P13, P14, P15.
    assert (Hget : forall o, get m' o = if decide (o ∈ L) then (fun x => x <| o_hdr ::= abandon_hdr |>) <$> get m o else get m o).
    { intros o. change (get m' o) with (get m2 o). unfold m2. apply (get_fold_uhdr_nodup abandon_hdr L Hnd m o). }
    assert (HF : heaps_fsim m m').
    { apply heaps_fsim_intro; [exact P15|]. intros o x Hx. rewrite Hget, Hx. destruct (decide (o ∈ L)); cbn.
      - eexists. split; [reflexivity|]. exists (abandon_hdr (o_hdr x)). destruct x; reflexivity.
      - eexists. split; [reflexivity|]. exists (o_hdr x). destruct x; reflexivity. }
    assert (HR : forall o, refs m' o = refs m o) by (intros; apply refs_fsim; auto).
    assert (HW : forall o, wrefs m' o = wrefs m o) by (intros; apply wrefs_fsim; auto).
    assert (HD : forall o, inD m' o = inD m o) by (intros; apply inD_eq; exact P8).
    assert (Hwn : forall w, wnomap m w -> wnomap m' w).
    { intros w Hw o Ho. rewrite (is_map_fsim _ _ _ HF). apply Hw, Ho. }
    assert (Hout : forall o x', get m' o = Some x' -> o ∉ L -> get m o = Some x').
    { intros o x' Hx' Hn. rewrite Hget, decide_False in Hx' by exact Hn. exact Hx'. }
    assert (Hin : forall o x', get m' o = Some x' -> o ∈ L ->
              exists x, get m o = Some x /\ x' = x <| o_hdr := abandon_hdr (o_hdr x) |> /\ o_box x = BAlloc /\
                        h_mark (o_hdr x) = IL /\ (o_vst x = VLive \/ o_vst x = VDropped) /\ inD m o = true).
    { intros o x' Hx' Hi. rewrite Hget, decide_True in Hx' by exact Hi. destruct (HM o Hi) as (Hid & x & Hx & Hb & Hmk & Hv).
      rewrite Hx in Hx'. cbn in Hx'. injection Hx' as <-. exists x. repeat split; auto; try (destruct x; reflexivity). }
    assert (Hside : forall h, h_side (abandon_hdr h) = h_side h /\ h_rc (abandon_hdr h) = h_rc h).
    { intros h. unfold abandon_hdr. destruct (k_weak K); split; reflexivity. }
    assert (Hdrop : forall h, is_dropped (abandon_hdr h) = if k_weak K then true else is_dropped h).
    { intros h. unfold abandon_hdr. destruct (k_weak K); reflexivity. }
    assert (Hsv : SInv K b E [] m').
    { split.
      - (* sv_obj *)
        intros o x' Hx'. rewrite HR, HW, HD. destruct (decide (o ∈ L)) as [Hi|Hn]; [|apply (sv_obj _ _ _ _ _ HI), Hout; assumption].
        destruct (Hin o x' Hx' Hi) as (x & Hx & -> & Hb & Hmk & Hv & Hid).
        pose proof (sv_obj _ _ _ _ _ HI o x Hx) as Hok.
        destruct (okN_alloc K _ _ _ _ _ Hok Hb) as (O1 & O2 & O3 & O4 & _).
        destruct (Hside (o_hdr x)) as [S1 S2].
        eapply okN_alloc_hdr; eauto; rewrite ?S2; auto. rewrite Hdrop, Hid.
        destruct (k_weak K); [split; auto|exact O4].
      - (* sv_objx *)
        intros o x' Hx'. unfold ObjX. rewrite HD. destruct (decide (o ∈ L)) as [Hi|Hn].
        + destruct (Hin o x' Hx' Hi) as (x & Hx & -> & Hb & Hmk & Hv & Hid).
          destruct (sv_objx _ _ _ _ _ HI o x Hx) as [X1 X2 X3 X4 X5 X6]. destruct (Hside (o_hdr x)) as [S1 S2].
          rewrite Hid. split; cbn.
          * intros _ Hvu. destruct Hv; congruence.
          * intros _ _ Hf. discriminate Hf.
          * intros Hk _ _ Hd. rewrite Hdrop, Hk in Hd. discriminate.
          * exact X4.
          * exact X5.
          * intros _. apply X6. exact Hid.
        + pose proof (Hout o x' Hx' Hn) as Hx. destruct (sv_objx _ _ _ _ _ HI o x' Hx) as [X1 X2 X3 X4 X5 X6]. split; auto.
          intros Hk Hi Hb Hd. exfalso. apply Hn. eapply undropped_in_L; eauto.
      - (* sv_loc *)
        intros h c t Hl. apply (hloc_fsim _ _ _ _ _ HF P1 P2) in Hl.
        destruct (sv_loc _ _ _ _ _ HI _ _ _ Hl) as (xt & Hxt & Hbt & Hct & Hm).
        destruct (fs_l _ _ _ _ HF Hxt) as (xt' & Hxt' & Hst). destruct (fsim_proj _ _ Hst) as (Pb & Pv & Pm & _).
        exists xt'. split; [exact Hxt'|]. split; [congruence|]. split; [intros Hc0; rewrite Pm; auto|].
        destruct h as [p|]; rewrite ?HD, ?Pv; [|exact Hm].
        intros xp' Hp'. destruct (fs_r _ _ _ _ HF Hp') as (xp & Hp & Hsp).
        destruct (fsim_proj _ _ Hsp) as (_ & Qv & _). rewrite Qv. destruct (Hm xp Hp) as [M1 M2]. split; [exact M1|].
        intros Hi. destruct (M2 Hi) as (N1 & N2 & N3). split; [exact N1|]. split; [exact N2|].
        intros Hvd. destruct (decide (t ∈ L)) as [Htin|Htout].
        + exfalso. destruct (HC t Htin _ _ Hl) as (p' & [= <-] & Hpin).
          destruct (HM p Hpin) as (_ & y & Hy & _ & _ & Hvy). assert (y = xp) by congruence. subst y. destruct Hvy; congruence.
        + rewrite (Hout t xt' Hxt' Htout) in Hxt. injection Hxt as <-. apply N3, Hvd.
      - intros t Ht. destruct (sv_E _ _ _ _ _ HI t Ht) as (xt & Hxt & Hbt).
        destruct (fs_l _ _ _ _ HF Hxt) as (xt' & Hxt' & Hst). exists xt'. split; [exact Hxt'|].
        destruct (fsim_proj _ _ Hst) as (Pb & _). congruence.
      - intros t Ht. change (pc m') with (pc m2) in Ht. rewrite P7 in Ht.
        destruct (sv_pc _ _ _ _ _ HI t Ht) as (x & Hx & Hb & Hv & Hi & Hmk). exists x. rewrite HD.
        assert (Hn : t ∉ L) by (intros Hin'; destruct (HM t Hin') as (Hid & _); congruence).
        rewrite Hget, decide_False by exact Hn. auto.
      - change (pc_alive m') with (pc_alive m2). rewrite P9. apply (sv_alive _ _ _ _ _ HI).
      - intros o Ho. rewrite HD in Ho. destruct (sv_dead _ _ _ _ _ HI o Ho) as [x Hx].
        destruct (fs_l _ _ _ _ HF Hx) as (x' & Hx' & _). eauto.
      - intros v o Hvo. change (values m') with (values m2) in *. rewrite P6 in Hvo.
        destruct (sv_values _ _ _ _ _ HI v o Hvo) as [(x & Hx & Hbx & Hvx) Hu]. split.
        + destruct (fs_l _ _ _ _ HF Hx) as (x' & Hx' & Hst). destruct (fsim_proj _ _ Hst) as (Pb & Pv & _).
          exists x'. repeat split; congruence.
        + intros v'. rewrite P6. apply Hu.
      - destruct (sv_lens _ _ _ _ _ HI) as (? & ? & ?). change (slots m') with (slots m2). change (wslots m') with (wslots m2).
        change (cslots m') with (cslots m2). repeat split; congruence.
      - intros i w Hi. change (wslots m') with (wslots m2) in Hi. rewrite P3 in Hi. apply Hwn. eapply (sv_wslots _ _ _ _ _ HI); eauto.
      - intros w Hw. change (wparam m') with (wparam m2) in Hw. rewrite P4 in Hw. apply Hwn. apply (sv_wparam _ _ _ _ _ HI); auto.
      - intros p xp' j w Hp Hj. destruct (fs_r _ _ _ _ HF Hp) as (xp & Hxp & Hsp).
        destruct (fsim_proj _ _ Hsp) as (_ & _ & _ & _ & _ & Pw & _). rewrite Pw in Hj.
        apply Hwn. eapply (sv_wfields _ _ _ _ _ HI); eauto.
      - intros o Ho. rewrite HW in Ho. destruct (sv_wex _ _ _ _ _ HI o Ho) as [x Hx].
        destruct (fs_l _ _ _ _ HF Hx) as (x' & Hx' & _). eauto. }
    split; [eapply NoBad_log; [|exact Hnb]; exact P12|]. split; [exact Hsv|]. split; [|split; [|exact P8]].
    - apply FrM_hdrs; [exact P15 | exact P8 | exact P4 |].
      intros o x Hx. destruct (decide (o ∈ L)) as [Hi|Hn].
      + exists (abandon_hdr (o_hdr x)). rewrite Hget, decide_True, Hx by exact Hi. cbn.
        split; [destruct x; reflexivity|]. destruct (HM o Hi) as (_ & y & Hy & Hb & _). assert (y = x) by congruence. subst y.
        split; [congruence|]. intros Hk _ Hd. rewrite Hdrop, Hk in Hd. discriminate.
      + exists (o_hdr x). rewrite Hget, decide_False, Hx by exact Hn. split; [destruct x; reflexivity | auto].
    - intros o x' Hi Hx' Hb Hk. destruct (Hin o x' Hx' Hi) as (x & Hx & -> & _). cbn. rewrite Hdrop, Hk. reflexivity.
  Qed.
End Fsim.
