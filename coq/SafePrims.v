(** * SafePrims: the effect of every pure helper of the machine on the strengthened invariant and the frame, packaged as steps of the record [Cur] that is threaded through the proof of one activation. *)
From Coq Require Import NArith Bool List Lia.
From stdpp Require Import base list option.
From RecordUpdate Require Import RecordSet.
From RC Require Import Hdr Machine RunInd Inv InvP SafeHelpers.
Import ListNotations RecordSetNotations.
Local Open Scope N_scope.

(** ** [obj_okN] under header / side-record updates *)
Section OkN.
  Context (K : conf).

  Lemma okN_alloc_hdr b b' nr nr' nw ind x h' :
    obj_okN K b nr nw ind x = true -> o_box x = BAlloc ->
    h_side h' = h_side (o_hdr x) ->
    N.of_nat nr' <= h_rc h' -> (b' = true -> h_rc h' = N.of_nat nr') -> h_rc h' <= max_rc ->
    (if k_weak K then (dying x = true -> is_dropped h' = true) /\
                      (is_dropped h' = true -> dying x = true \/ ind = true \/ h_rc h' = 0)
     else is_dropped h' = true -> is_live x = false) ->
    obj_okN K b' nr' nw ind (x <| o_hdr := h' |>) = true.
  Proof.
    intros Hok Hb Hs H1 H2 H3 H4.
    destruct (okN_alloc K _ _ _ _ _ Hok Hb) as (_ & _ & _ & _ & O5 & O6).
    apply okN_alloc_intro; [exact Hb|]. unfold OkAlloc. cbn. rewrite Hs. auto 10.
  Qed.

  Lemma okN_hdr_same b nr nw ind x h' :
    obj_okN K b nr nw ind x = true ->
    h_rc h' = h_rc (o_hdr x) -> h_tc h' = h_tc (o_hdr x) -> h_side h' = h_side (o_hdr x) ->
    obj_okN K b nr nw ind (x <| o_hdr := h' |>) = true.
  Proof.
    intros Hok H1 H2 H3. unfold obj_okN in *. cbn. unfold is_dropped in *. rewrite H1, H2, H3. exact Hok.
  Qed.

  Lemma okN_alloc_side b nr nw nw' ind x s' :
    obj_okN K b nr nw ind x = true -> o_box x = BAlloc -> h_side (o_hdr x) = true ->
    sd_freed s' = false -> w_acc (sd_wk s') = true -> w_cnt (sd_wk s') = N.of_nat nw' ->
    w_cnt (sd_wk s') <= max_weak ->
    obj_okN K b nr nw' ind (x <| o_side := Some s' |>) = true.
  Proof.
    intros Hok Hb Hs H1 H2 H3 H4.
    destruct (okN_alloc K _ _ _ _ _ Hok Hb) as (O1 & O2 & O3 & O4 & O5 & O6).
    apply okN_alloc_intro; [exact Hb|]. unfold OkAlloc. cbn. auto 10.
  Qed.

  Lemma ObjXp_hdr_same ind sd x h' :
    ObjXp K ind sd x -> h_rc h' = h_rc (o_hdr x) -> is_dropped h' = is_dropped (o_hdr x) ->
    h_mark h' = h_mark (o_hdr x) -> ObjXp K ind sd (x <| o_hdr := h' |>).
  Proof.
    intros [X1 X2 X3 X4 X5 X6] H1 H2 H3. split; cbn; rewrite ?H1, ?H2, ?H3; auto.
  Qed.
  Lemma ObjXp_nohdr ind sd x x' :
    ObjXp K ind sd x -> o_hdr x' = o_hdr x -> o_box x' = o_box x -> o_vst x' = o_vst x ->
    o_ismap x' = o_ismap x -> o_fields x' = o_fields x -> o_cleaner x' = o_cleaner x ->
    o_wfields x' = o_wfields x -> (k_weak K = false -> o_side x' = None) -> ObjXp K ind sd x'.
  Proof.
    intros [X1 X2 X3 X4 X5 X6] H1 H2 H3 H4 H5 H6 H7 H8.
    split; unfold dying in *; rewrite ?H1, ?H2, ?H3, ?H4, ?H5, ?H6, ?H7; auto.
  Qed.
End OkN.

(** ** Events *)
Lemma NoBad_emit e m : NoBad (emit e m) <-> (match e with EBad b _ => bad_ok b | _ => true end = true /\ NoBad m).
Proof. unfold NoBad, no_badU. cbn. rewrite andb_true_iff. reflexivity. Qed.
Lemma NoBad_log m m' : log m' = log m -> NoBad m -> NoBad m'.
Proof. unfold NoBad, no_badU. intros ->. auto. Qed.
Lemma ieq_emit e m : ieq m (emit e m). Proof. repeat split. Qed.

(** ** The knowledge threaded through the proof of one activation:
    [m0] the state at entry, [m] the current state; [n]: no callee has panicked so far *)
Section Cur.
  Context (K : conf).

  Record Cur (b n : bool) (E0 : list id) (ex : option id) (m0 : machine)
             (E : list id) (W : list wref) (m : machine) : Prop := {
    cur_nb : NoBad m;
    cur_inv : SInv K b E W m;
    cur_fr : Fr K E0 ex m0 m;
    cur_ndd : n = true -> NewDeadDropped m0 m;
  }.

  Lemma Cur_init b n E0 ex E W m : NoBad m -> SInv K b E W m -> Cur b n E0 ex m E W m.
  Proof. intros. split; auto using Fr_refl. intros _. apply NDD_refl. reflexivity. Qed.

  Lemma Cur_step b b' n E0 ex m0 E W E' W' m m' :
    Cur b n E0 ex m0 E W m -> NoBad m' -> SInv K b' E' W' m' -> Fr K E0 ex m m' -> dead m' = dead m ->
    Cur b' n E0 ex m0 E' W' m'.
  Proof.
    intros [C1 C2 C3 C4] Hnb HI HF Hd. split; auto.
    - eapply Fr_trans; eauto.
    - intros Hn. eapply NDD_trans; [apply (sv_dead _ _ _ _ _ C2) | apply C4, Hn | exact HF | apply NDD_refl, Hd].
  Qed.

  Lemma Cur_ieq b n E0 ex m0 E W m m' :
    Cur b n E0 ex m0 E W m -> ieq m m' -> NoBad m' -> Cur b n E0 ex m0 E W m'.
  Proof.
    intros C Hi Hnb. eapply Cur_step; eauto.
    - eapply SInv_ieq; eauto. apply C.
    - apply Fr_ieq, Hi.
    - apply Hi.
  Qed.

  Lemma Cur_emit b n E0 ex m0 E W m e :
    Cur b n E0 ex m0 E W m -> match e with EBad b _ => bad_ok b | _ => true end = true ->
    Cur b n E0 ex m0 E W (emit e m).
  Proof.
    intros C He. eapply Cur_ieq; [exact C | apply ieq_emit |]. apply NoBad_emit. split; [exact He | apply C].
  Qed.

  (** forgetting exactness, dropping an in-flight handle (a panic leaks it) *)
  Lemma SInv_inexact b E W m : SInv K b E W m -> SInv K false E W m.
  Proof.
    intros [I1 I2 I3 I4 I5 I6 I7 I8 I9 I10 I11 I12 I13]. split; auto.
    intros o x Hx. eapply obj_okN_weaken, I1, Hx.
  Qed.
End Cur.

(** ** Primitive updates of class "header only" *)
Section PrimH.
  Context (K : conf).
  Implicit Types (m : machine) (o : id) (x : obj).

  Lemma uhdr_heap o g m : heap (uhdr o g m) = alter (fun x => x <| o_hdr ::= g |>) o (heap m).
  Proof. reflexivity. Qed.

  (** generic header update on an allocated object *)
  Lemma Cur_uhdr b n E0 ex m0 E W E' m o g x :
    Cur K b n E0 ex m0 E W m -> get m o = Some x -> o_box x = BAlloc ->
    h_side (g (o_hdr x)) = h_side (o_hdr x) ->
    (marked x = true -> h_mark (g (o_hdr x)) = h_mark (o_hdr x)) ->
    (marked x = false -> is_in_list_or_queue (g (o_hdr x)) = false) ->
    (forall o', o' <> o -> cnt_id o' E' = cnt_id o' E) ->
    (forall t, t ∈ E' -> t ∈ E \/ t = o) ->
    N.of_nat (refs m o + cnt_id o E') <= h_rc (g (o_hdr x)) ->
    (b = true -> h_rc (g (o_hdr x)) = N.of_nat (refs m o + cnt_id o E')) ->
    h_rc (g (o_hdr x)) <= max_rc ->
    (if k_weak K then (dying x = true -> is_dropped (g (o_hdr x)) = true) /\
                      (is_dropped (g (o_hdr x)) = true -> dying x = true \/ inD m o = true \/ h_rc (g (o_hdr x)) = 0)
     else is_dropped (g (o_hdr x)) = true -> is_live x = false) ->
    (o_vst x = VUninit -> h_rc (g (o_hdr x)) = 0 /\ is_dropped (g (o_hdr x)) = false) ->
    (dying x = true -> inD m o = false -> h_rc (g (o_hdr x)) = 0) ->
    (k_weak K = true -> inD m o = true -> is_dropped (g (o_hdr x)) = false ->
       h_mark (g (o_hdr x)) = IL /\ st_dropping m = true /\ is_dropped (o_hdr x) = false) ->
    (o ∈ pc m -> h_mark (g (o_hdr x)) = PC) ->
    Cur K b n E0 ex m0 E' W (uhdr o g m).
  Proof.
    intros C Hx Hb Hs Hm1 Hm2 Hc1 Hc2 R1 R2 R3 Mk U1 U2 U3 Hpc.
    pose proof (cur_inv _ _ _ _ _ _ _ _ _ C) as HI.
    pose proof (sv_obj _ _ _ _ _ HI _ _ Hx) as Hok.
    pose proof (sv_objx _ _ _ _ _ HI _ _ Hx) as [X1 X2 X3 X4 X5 X6].
    eapply Cur_step; [exact C | | | | reflexivity].
    - eapply NoBad_log; [reflexivity | apply C].
    - eapply (SInv_hs K b E W E' W m (uhdr o g m) o (fun x => x <| o_hdr ::= g |>) x HI Hx);
        [reflexivity | apply ext_eq_upd | auto | reflexivity | reflexivity | reflexivity | reflexivity
         | reflexivity | reflexivity | | | | | | ].
      + unfold marked. cbn. intros Hm. unfold is_in_list_or_queue in *. rewrite (Hm1 Hm). exact Hm.
      + intros o' Hne. split; [apply Hc1, Hne | reflexivity].
      + intros t Ht. destruct (Hc2 t Ht) as [? | ->]; auto.
      + eapply okN_alloc_hdr; eauto.
      + split; cbn; auto.
        * intros Hk Hi _ Hd. destruct (U3 Hk Hi Hd) as (? & ? & ?). auto.
      + exact Hpc.
    - eapply (Fr_hs K E0 ex m (uhdr o g m) o (fun x => x <| o_hdr ::= g |>) x Hx);
        [reflexivity | apply ext_eq_upd | reflexivity | reflexivity | reflexivity | reflexivity
         | reflexivity | reflexivity | reflexivity | left; congruence | exact Hm2 | exact Hm1 | ].
      intros Hk Hi Hd. apply (U3 Hk Hi Hd).
  Qed.
End PrimH.

Section PrimH2.
  Context (K : conf).
  Implicit Types (m : machine) (o : id) (x : obj).

  Lemma Cur_own_alloc b n E0 ex m0 E W m o :
    Cur K b n E0 ex m0 (o :: E) W m ->
    exists x, get m o = Some x /\ o_box x = BAlloc /\
              N.of_nat (S (refs m o + cnt_id o E)) <= h_rc (o_hdr x) /\
              (b = true -> h_rc (o_hdr x) = N.of_nat (S (refs m o + cnt_id o E))).
  Proof.
    intros C. pose proof (cur_inv _ _ _ _ _ _ _ _ _ C) as HI.
    destruct (sv_E _ _ _ _ _ HI o) as (x & Hx & Hb); [left|].
    exists x. split; [exact Hx|]. split; [exact Hb|].
    destruct (okN_alloc K _ _ _ _ _ (sv_obj _ _ _ _ _ HI _ _ Hx) Hb) as (O1 & O2 & _).
    rewrite cnt_id_cons_eq, Nat.add_succ_r in O1, O2. auto.
  Qed.

  (** [decrement_counter] on a handle in flight *)
  Lemma Cur_dec_rc b n E0 ex m0 E W m o :
    Cur K b n E0 ex m0 (o :: E) W m -> Cur K b n E0 ex m0 E W (dec_rc_m o m).
  Proof.
    intros C. destruct (Cur_own_alloc _ _ _ _ _ _ _ _ _ C) as (x & Hx & Hb & R1 & R2).
    pose proof (cur_inv _ _ _ _ _ _ _ _ _ C) as HI.
    pose proof (sv_obj _ _ _ _ _ HI _ _ Hx) as Hok.
    destruct (okN_alloc K _ _ _ _ _ Hok Hb) as (_ & _ & O3 & O4 & _).
    pose proof (sv_objx _ _ _ _ _ HI _ _ Hx) as [X1 X2 X3 X4 X5 X6].
    unfold dec_rc_m. rewrite (hdr_of_get _ _ _ Hx). unfold dec_rc.
    destruct (h_rc (o_hdr x) =? 0) eqn:Ez; [apply N.eqb_eq in Ez; lia|].
    eapply (Cur_uhdr K b n E0 ex m0 (o :: E) W E m o _ x C Hx Hb); cbn; auto.
    - intros o' Hne. rewrite cnt_id_cons_ne; auto.
    - intros t Ht. left. right. exact Ht.
    - lia.
    - intros Hbt. specialize (R2 Hbt). lia.
    - lia.
    - unfold is_dropped in *. cbn. destruct (k_weak K).
      + destruct O4 as [O4 O4']. split; [exact O4|]. intros Hd. destruct (O4' Hd) as [?|[?|?]]; auto; try lia.
      + exact O4.
    - intros Hv. destruct (X1 Hb Hv). lia.
    - intros Hd Hi. specialize (X2 Hb Hd Hi). lia.
    - unfold is_dropped. cbn. intros Hk Hi Hd. destruct (X3 Hk Hi Hb Hd). auto.
    - intros Hin. destruct (sv_pc _ _ _ _ _ HI _ Hin) as (y & Hy & _ & _ & _ & Hm). congruence.
  Qed.

  (** [increment_counter]: a new handle in flight *)
  Lemma Cur_inc_rc b n E0 ex m0 E W m o x h :
    Cur K b n E0 ex m0 E W m -> get m o = Some x -> o_box x = BAlloc -> h_rc (o_hdr x) <> 0 ->
    inc_rc (hdr_of m o) = Some h ->
    Cur K b n E0 ex m0 (o :: E) W (uhdr o (fun _ => h) m).
  Proof.
    intros C Hx Hb Hnz Hinc.
    pose proof (cur_inv _ _ _ _ _ _ _ _ _ C) as HI.
    pose proof (sv_obj _ _ _ _ _ HI _ _ Hx) as Hok.
    destruct (okN_alloc K _ _ _ _ _ Hok Hb) as (O1 & O2 & O3 & O4 & _).
    pose proof (sv_objx _ _ _ _ _ HI _ _ Hx) as [X1 X2 X3 X4 X5 X6].
    rewrite (hdr_of_get _ _ _ Hx) in Hinc. unfold inc_rc in Hinc.
    destruct (h_rc (o_hdr x) =? max_rc) eqn:Ez; [discriminate|]. injection Hinc as <-.
    apply N.eqb_neq in Ez.
    eapply (Cur_uhdr K b n E0 ex m0 E W (o :: E) m o _ x C Hx Hb); cbn; auto.
    - intros o' Hne. rewrite cnt_id_cons_ne; auto.
    - intros t Ht. apply elem_of_cons in Ht as [->|Ht]; auto.
    - rewrite cnt_id_cons_eq. lia.
    - intros Hbt. specialize (O2 Hbt). rewrite cnt_id_cons_eq. lia.
    - unfold max_rc in *. lia.
    - unfold is_dropped in *. cbn. destruct (k_weak K).
      + destruct O4 as [O4 O4']. split; [exact O4|]. intros Hd. destruct (O4' Hd) as [?|[?|?]]; auto; try lia.
      + exact O4.
    - intros Hv. destruct (X1 Hb Hv). lia.
    - intros Hd Hi. specialize (X2 Hb Hd Hi). lia.
    - unfold is_dropped. cbn. intros Hk Hi Hd. destruct (X3 Hk Hi Hb Hd). auto.
    - intros Hin. destruct (sv_pc _ _ _ _ _ HI _ Hin) as (y & Hy & _ & _ & _ & Hm). congruence.
  Qed.

  (** a header update that keeps both counters, the mark and the side bit ([set_fin]) *)
  Lemma Cur_uhdr_same b n E0 ex m0 E W m o g x :
    Cur K b n E0 ex m0 E W m -> get m o = Some x -> o_box x = BAlloc ->
    (forall h, h_rc (g h) = h_rc h /\ h_tc (g h) = h_tc h /\ h_mark (g h) = h_mark h /\ h_side (g h) = h_side h) ->
    Cur K b n E0 ex m0 E W (uhdr o g m).
  Proof.
    intros C Hx Hb Hg. destruct (Hg (o_hdr x)) as (G1 & G2 & G3 & G4).
    pose proof (cur_inv _ _ _ _ _ _ _ _ _ C) as HI.
    pose proof (sv_obj _ _ _ _ _ HI _ _ Hx) as Hok.
    destruct (okN_alloc K _ _ _ _ _ Hok Hb) as (O1 & O2 & O3 & O4 & _).
    pose proof (sv_objx _ _ _ _ _ HI _ _ Hx) as [X1 X2 X3 X4 X5 X6].
    assert (Hd : is_dropped (g (o_hdr x)) = is_dropped (o_hdr x)) by (unfold is_dropped; rewrite G2; reflexivity).
    eapply (Cur_uhdr K b n E0 ex m0 E W E m o g x C Hx Hb); rewrite ?G1, ?Hd, ?G3; auto.
    - unfold marked. unfold is_in_list_or_queue. rewrite G3. auto.
    - intros Hk Hi Hdr. destruct (X3 Hk Hi Hb Hdr). auto.
    - intros Hin. destruct (sv_pc _ _ _ _ _ HI _ Hin) as (y & Hy & _ & _ & _ & Hm). congruence.
  Qed.

  (** [set_dropped] (weak-ptrs) on a live value nobody can reach any more *)
  Lemma Cur_set_dropped b n E0 ex m0 E W m o x :
    Cur K b n E0 ex m0 E W m -> get m o = Some x -> o_box x = BAlloc -> o_vst x = VLive ->
    k_weak K = true -> (h_rc (o_hdr x) = 0 \/ inD m o = true) ->
    Cur K b n E0 ex m0 E W (uhdr o set_dropped m).
  Proof.
    intros C Hx Hb Hv Hk Hr.
    pose proof (cur_inv _ _ _ _ _ _ _ _ _ C) as HI.
    pose proof (sv_obj _ _ _ _ _ HI _ _ Hx) as Hok.
    destruct (okN_alloc K _ _ _ _ _ Hok Hb) as (O1 & O2 & O3 & O4 & _).
    eapply (Cur_uhdr K b n E0 ex m0 E W E m o set_dropped x C Hx Hb); cbn; auto.
    - rewrite Hk. unfold is_dropped. cbn. split; [reflexivity|]. intros _. destruct Hr; auto.
    - rewrite Hv. discriminate.
    - unfold dying. rewrite Hv. discriminate.
    - unfold is_dropped. cbn. discriminate.
    - intros Hin. destruct (sv_pc _ _ _ _ _ HI _ Hin) as (y & Hy & _ & _ & _ & Hm). congruence.
  Qed.
End PrimH2.

Section PrimPc.
  Context (K : conf).
  Implicit Types (m : machine) (o : id) (x : obj).

  (** only the buffer (and fields the invariant does not look at) changes *)
  Lemma Cur_pc b n E0 ex m0 E W m m' :
    Cur K b n E0 ex m0 E W m ->
    heap m' = heap m -> slots m' = slots m -> bag m' = bag m -> wslots m' = wslots m ->
    wparam m' = wparam m -> cslots m' = cslots m -> values m' = values m -> dead m' = dead m ->
    pc_alive m' = pc_alive m -> st_collecting m' = st_collecting m -> st_dropping m' = st_dropping m ->
    NoBad m' ->
    (forall t, t ∈ pc m' -> t ∈ pc m \/
       exists xt, get m t = Some xt /\ o_box xt = BAlloc /\ o_vst xt = VLive /\ inD m t = false /\
                  h_mark (o_hdr xt) = PC) ->
    Cur K b n E0 ex m0 E W m'.
  Proof.
    intros C Hh Hs Hb Hws Hwp Hcs Hv Hd Hal Hcol Hsd Hnb Hpc.
    pose proof (cur_inv _ _ _ _ _ _ _ _ _ C) as HI.
    assert (HR : forall o, refs m' o = refs m o) by (intros; apply refs_ext; auto).
    assert (HW : forall o, wrefs m' o = wrefs m o) by (intros; apply wrefs_ext; auto).
    assert (HG : forall o, get m' o = get m o) by (intros; unfold get; rewrite Hh; reflexivity).
    eapply Cur_step; [exact C | exact Hnb | | | exact Hd].
    - eapply (SInv_alter K b E W E W m m' 0%nat (fun x => x) HI).
      + rewrite alter_id_eq. exact Hh.
      + exact Hd.
      + exact Hal.
      + exact Hv.
      + rewrite Hsd. auto.
      + rewrite Hs. reflexivity.
      + rewrite Hws. reflexivity.
      + rewrite Hcs. reflexivity.
      + intros. apply same_st_refl.
      + intros o _. rewrite HR, HW. auto.
      + intros y Hy. rewrite HR, HW, Hsd. split; [apply (sv_obj _ _ _ _ _ HI), Hy | apply (sv_objx _ _ _ _ _ HI _ _ Hy)].
      + intros h c t Hl. left. eapply hloc_ext; eauto.
      + auto.
      + intros t Ht. destruct (Hpc t Ht) as [Ht'|(xt & Hxt & H1 & H2 & H3 & H4)].
        * left. split; [exact Ht'|]. intros y -> Hy.
          destruct (sv_pc _ _ _ _ _ HI _ Ht') as (z & Hz & _ & _ & _ & Hm). congruence.
        * right. exists xt. rewrite HG, (inD_eq _ _ _ Hd). auto.
      + intros i w Hi. left. exists i. rewrite <- Hws. exact Hi.
      + intros w Hw. left. rewrite <- Hwp. exact Hw.
      + intros y j w Hy Hj. left. eauto.
    - eapply (Fr_alter K E0 ex m m' 0%nat (fun x => x)); [| exact Hd | exact Hcol | exact Hwp | |].
      + rewrite alter_id_eq. exact Hh.
      + intros x Hx. apply ObjFr_refl. intros o. rewrite (inD_eq _ _ _ Hd). auto.
      + intros _ x Hx Hi Hb' Hdr. auto.
  Qed.

  Lemma NoBad_dec_size o m : NoBad m -> NoBad (dec_size o m).
  Proof.
    intros H. unfold dec_size. destruct (pc_size m =? 0).
    - apply NoBad_emit. split; [reflexivity | exact H].
    - exact H.
  Qed.

  Lemma is_in_pc_get m o x : get m o = Some x -> is_in_pc (hdr_of m o) = true -> h_mark (o_hdr x) = PC.
  Proof.
    intros Hx. rewrite (hdr_of_get _ _ _ Hx). unfold is_in_pc. destruct (h_mark (o_hdr x)); cbn; congruence.
  Qed.

  (** remove_from_list (cc.rs:508) *)
  Lemma Cur_remove_from_list b n E0 ex m0 E W m o x :
    Cur K b n E0 ex m0 E W m -> get m o = Some x -> o_box x = BAlloc ->
    Cur K b n E0 ex m0 E W (remove_from_list o m).
  Proof.
    intros C Hx Hb. unfold remove_from_list.
    destruct (is_in_pc (hdr_of m o)) eqn:Ep; [|exact C].
    destruct (pc_alive m) eqn:Ea; [|exact C].
    pose proof (is_in_pc_get _ _ _ Hx Ep) as Hmk.
    (* first shrink the buffer, then un-mark, then the size *)
    assert (C1 : Cur K b n E0 ex m0 E W (m <| pc ::= remove_id o |>)).
    { eapply (Cur_pc b n E0 ex m0 E W m _ C); try reflexivity; [apply C|].
      intros t Ht. left. cbn in Ht. unfold remove_id in Ht. apply elem_of_list_filter in Ht. apply Ht. }
    pose proof (cur_inv _ _ _ _ _ _ _ _ _ C) as HI.
    pose proof (sv_obj _ _ _ _ _ HI _ _ Hx) as Hok.
    destruct (okN_alloc K _ _ _ _ _ Hok Hb) as (O1 & O2 & O3 & O4 & _).
    pose proof (sv_objx _ _ _ _ _ HI _ _ Hx) as [X1 X2 X3 X4 X5 X6].
    assert (Hnm : marked x = false) by (unfold marked, is_in_list_or_queue; rewrite Hmk; reflexivity).
    assert (C2 : Cur K b n E0 ex m0 E W (uhdr o (set_mark NM) (m <| pc ::= remove_id o |>))).
    { eapply (Cur_uhdr K b n E0 ex m0 E W E _ o (set_mark NM) x C1 Hx Hb); cbn; auto.
      - congruence.
      - intros Hk Hi Hdr. destruct (X3 Hk Hi Hb Hdr) as [? ?]. congruence.
      - unfold remove_id. intros Hin. apply elem_of_list_filter in Hin. destruct Hin as [Hne _]. congruence. }
    unfold dec_size. match goal with |- context [if ?c then _ else _] => destruct c end.
    - apply Cur_emit; [exact C2 | reflexivity].
    - eapply Cur_ieq; [exact C2 | repeat split | apply C2].
  Qed.

  Lemma remove_from_list_notin b E W m o :
    SInv K b E W m -> o ∉ pc (remove_from_list o m).
  Proof.
    intros HI Hin. unfold remove_from_list in Hin.
    assert (Hq : o ∈ pc m).
    { destruct (is_in_pc (hdr_of m o)); [|exact Hin]. destruct (pc_alive m); [|exact Hin].
      unfold dec_size in Hin. match type of Hin with context [if ?c then _ else _] => destruct c end;
        cbn in Hin; unfold remove_id in Hin; apply elem_of_list_filter in Hin; apply Hin. }
    destruct (sv_pc _ _ _ _ _ HI _ Hq) as (x & Hx & _ & _ & _ & Hm).
    rewrite (hdr_of_get _ _ _ Hx) in Hin. unfold is_in_pc in Hin. rewrite Hm in Hin. cbn in Hin.
    rewrite (sv_alive _ _ _ _ _ HI) in Hin.
    unfold dec_size in Hin. match type of Hin with context [if ?c then _ else _] => destruct c end;
      cbn in Hin; unfold remove_id in Hin; apply elem_of_list_filter in Hin; destruct Hin as [Hne _]; congruence.
  Qed.

  (** add_to_list (cc.rs:530) on a live, unmarked object *)
  Lemma Cur_add_to_list b n E0 ex m0 E W m o x :
    Cur K b n E0 ex m0 E W m -> get m o = Some x -> o_box x = BAlloc -> o_vst x = VLive ->
    inD m o = false -> marked x = false -> is_dropped (o_hdr x) = false ->
    Cur K b n E0 ex m0 E W (add_to_list o m).
  Proof.
    intros C Hx Hb Hv Hi Hnm Hnd. unfold add_to_list.
    destruct (is_in_pc (hdr_of m o)) eqn:Ep; [exact C|].
    destruct (pc_alive m) eqn:Ea; [|exact C].
    rewrite (hdr_of_get _ _ _ Hx) in *.
    assert (Hn : is_not_marked (o_hdr x) = true).
    { unfold marked, is_in_list_or_queue in Hnm. unfold is_not_marked. destruct (h_mark (o_hdr x)); congruence. }
    rewrite Hn, Hnd. cbn [negb andb].
    pose proof (cur_inv _ _ _ _ _ _ _ _ _ C) as HI.
    pose proof (sv_obj _ _ _ _ _ HI _ _ Hx) as Hok.
    destruct (okN_alloc K _ _ _ _ _ Hok Hb) as (O1 & O2 & O3 & O4 & _).
    pose proof (sv_objx _ _ _ _ _ HI _ _ Hx) as [X1 X2 X3 X4 X5 X6].
    assert (C1 : Cur K b n E0 ex m0 E W (uhdr o (fun h => set_mark PC (reset_tc h)) m)).
    { eapply (Cur_uhdr K b n E0 ex m0 E W E m o _ x C Hx Hb); cbn; auto.
      all: try solve [intros; congruence].
      all: try solve [unfold dying; rewrite Hv; intros; discriminate].
      unfold is_dropped. cbn. unfold dying. rewrite Hv. destruct (k_weak K).
      + split; discriminate.
      + discriminate. }
    eapply (Cur_pc b n E0 ex m0 E W _ _ C1); try reflexivity; [apply C1|].
    intros t Ht. cbn in Ht. apply elem_of_cons in Ht as [->|Ht]; [right|left; exact Ht].
    exists (x <| o_hdr ::= fun h => set_mark PC (reset_tc h) |>). split; [apply get_upd_eq, Hx|].
    cbn. auto.
  Qed.
End PrimPc.

Section PrimSide.
  Context (K : conf).
  Implicit Types (m : machine) (o : id) (x : obj).

  (** generic update of one object that keeps box, value state and all handle fields *)
  Lemma Cur_upd_hs b n E0 ex m0 E W E' W' m o f x :
    Cur K b n E0 ex m0 E W m -> get m o = Some x -> (o_box x <> BNotYet \/ o_vst x = VDropping) ->
    o_cls (f x) = o_cls x -> o_vst (f x) = o_vst x -> o_box (f x) = o_box x -> o_ismap (f x) = o_ismap x ->
    o_fields (f x) = o_fields x -> o_cleaner (f x) = o_cleaner x -> o_wfields (f x) = o_wfields x ->
    (marked x = true -> h_mark (o_hdr (f x)) = h_mark (o_hdr x)) ->
    (marked x = false -> marked (f x) = false) ->
    (forall o', o' <> o -> cnt_id o' E' = cnt_id o' E /\ cnt_wr o' W' = cnt_wr o' W) ->
    (forall t, t ∈ E' -> t ∈ E \/ (t = o /\ o_box x = BAlloc)) ->
    obj_okN K b (refs m o + cnt_id o E') (wrefs m o + cnt_wr o W') (inD m o) (f x) = true ->
    ObjXp K (inD m o) (st_dropping m) (f x) ->
    (o ∈ pc m -> h_mark (o_hdr (f x)) = PC) ->
    (k_weak K = true -> inD m o = true -> is_dropped (o_hdr (f x)) = false -> is_dropped (o_hdr x) = false) ->
    Cur K b n E0 ex m0 E' W' (upd o f m).
  Proof.
    intros C Hx Hny F1 F2 F3 F4 F5 F6 F7 Hm1 Hm2 Hcnt HE Hok Hox Hpc Hdr.
    pose proof (cur_inv _ _ _ _ _ _ _ _ _ C) as HI.
    eapply Cur_step; [exact C | | | | reflexivity].
    - eapply NoBad_log; [reflexivity | apply C].
    - eapply (SInv_hs K b E W E' W' m (upd o f m) o f x HI Hx);
        [reflexivity | apply ext_eq_upd | auto | exact F2 | exact F3 | exact F4 | exact F5 | exact F6
         | exact F7 | | exact Hcnt | exact HE | exact Hok | exact Hox | exact Hpc].
      intros Hm. unfold marked, is_in_list_or_queue in *. rewrite (Hm1 Hm). exact Hm.
    - eapply (Fr_hs K E0 ex m (upd o f m) o f x Hx);
        [reflexivity | apply ext_eq_upd | exact F1 | exact F2 | exact F3 | exact F4 | exact F5 | exact F6
         | exact F7 | exact Hny | exact Hm2 | exact Hm1 | exact Hdr].
  Qed.

  (** the in-flight lists only matter as multisets *)
  Lemma Cur_EW_ext b n E0 ex m0 E W E' W' m :
    Cur K b n E0 ex m0 E W m ->
    (forall o, cnt_id o E' = cnt_id o E) -> (forall o, cnt_wr o W' = cnt_wr o W) ->
    Cur K b n E0 ex m0 E' W' m.
  Proof.
    intros C HE HW. pose proof (cur_inv _ _ _ _ _ _ _ _ _ C) as HI.
    destruct C as [C1 C2 C3 C4]. split; auto.
    eapply (SInv_alter K b E W E' W' m m 0%nat (fun x => x) HI).
    - rewrite alter_id_eq. reflexivity.
    - reflexivity.
    - reflexivity.
    - reflexivity.
    - auto.
    - reflexivity.
    - reflexivity.
    - reflexivity.
    - intros. apply same_st_refl.
    - intros o _. rewrite HE, HW. auto.
    - intros y Hy. rewrite HE, HW. split; [apply (sv_obj _ _ _ _ _ HI), Hy | apply (sv_objx _ _ _ _ _ HI _ _ Hy)].
    - auto.
    - intros t Ht. left. apply cnt_id_pos. rewrite <- HE. apply cnt_id_pos, Ht.
    - intros t Ht. left. split; [exact Ht|]. intros y -> Hy.
      destruct (sv_pc _ _ _ _ _ HI _ Ht) as (z & Hz & _ & _ & _ & Hm). congruence.
    - intros i w Hi. left. eauto.
    - auto.
    - intros y j w Hy Hj. left. eauto.
  Qed.
  Lemma Cur_W_null b n E0 ex m0 E W m :
    Cur K b n E0 ex m0 E (WNull :: W) m <-> Cur K b n E0 ex m0 E W m.
  Proof.
    split; intros C; (eapply Cur_EW_ext; [exact C | reflexivity |]); intros o; rewrite cnt_wr_cons; reflexivity.
  Qed.

  (** a Weak handle in flight: its target has a live side record *)
  Lemma weak_target b E W m o :
    SInv K b E W m -> (0 < wrefs m o + cnt_wr o W)%nat ->
    exists x s, get m o = Some x /\ o_side x = Some s /\ sd_freed s = false /\ o_box x <> BNotYet /\
                w_cnt (sd_wk s) = N.of_nat (wrefs m o + cnt_wr o W) /\
                (o_box x = BAlloc -> w_acc (sd_wk s) = true /\ h_side (o_hdr x) = true /\ w_cnt (sd_wk s) <= max_weak) /\
                (o_box x = BFreed -> w_acc (sd_wk s) = false).
  Proof.
    intros HI Hpos. destruct (sv_wex _ _ _ _ _ HI o Hpos) as [x Hx].
    pose proof (sv_obj _ _ _ _ _ HI _ _ Hx) as Hok. destruct (o_box x) eqn:Eb.
    - apply okN_notyet in Hok; [|exact Eb]. lia.
    - destruct (okN_alloc K _ _ _ _ _ Hok Eb) as (_ & _ & _ & _ & O5 & _).
      destruct (o_side x) as [s|] eqn:Es; [|lia]. destruct O5 as (S1 & S2 & S3 & S4 & S5).
      exists x, s. repeat split; auto; try congruence.
    - apply okN_freed in Hok; [|exact Eb]. destruct Hok as (_ & _ & Hs).
      destruct (o_side x) as [s|] eqn:Es; [|lia]. destruct (sd_freed s) eqn:Ef; [lia|].
      destruct Hs as (S1 & S2 & S3). exists x, s. repeat split; auto; try congruence.
  Qed.
End PrimSide.

Section PrimWeak.
  Context (K : conf).
  Implicit Types (m : machine) (o : id) (x : obj).

  Lemma okN_side_change b nr nw nw' ind x x' s s' :
    obj_okN K b nr nw ind x = true ->
    o_hdr x' = o_hdr x -> o_vst x' = o_vst x -> o_box x' = o_box x -> o_box x <> BNotYet ->
    o_side x = Some s -> o_side x' = Some s' ->
    sd_freed s = false -> sd_freed s' = false -> w_acc (sd_wk s') = w_acc (sd_wk s) ->
    w_cnt (sd_wk s') = N.of_nat nw' ->
    (o_box x = BAlloc -> w_cnt (sd_wk s') <= max_weak) ->
    (o_box x = BFreed -> w_cnt (sd_wk s') <> 0) ->
    obj_okN K b nr nw' ind x' = true.
  Proof.
    intros Hok H1 H2 H3 Hny Es Es' Hf Hf' Ha Hc Hmx Hnz. destruct (o_box x) eqn:Eb; [congruence | |].
    - destruct (okN_alloc K _ _ _ _ _ Hok Eb) as (O1 & O2 & O3 & O4 & O5 & O6).
      rewrite Es in O5. destruct O5 as (S1 & S2 & S3 & S4 & S5).
      apply okN_alloc_intro; [congruence|]. unfold OkAlloc, dying, is_live in *. rewrite H1, H2, Es'.
      repeat split; auto; try congruence.
    - apply okN_freed in Hok; [|exact Eb]. destruct Hok as (F1 & F2 & F3). rewrite Es, Hf in F3.
      apply okN_freed; [congruence|]. unfold OkFreed, is_live in *. rewrite H2, Es', Hf'.
      destruct F3 as (F3 & F4 & F5). repeat split; auto; congruence.
  Qed.

  (** the weak count of [o] goes up by one: a new Weak handle in flight *)
  Lemma Cur_weak_inc b n E0 ex m0 E W m o k0 k :
    Cur K b n E0 ex m0 E W m -> k_weak K = true ->
    side_wk m o = Some k0 -> inc_wk k0 = Some k ->
    ((exists x, get m o = Some x /\ o_box x = BAlloc) \/ (0 < wrefs m o + cnt_wr o W)%nat) ->
    Cur K b n E0 ex m0 E (WTo o :: W) (uside o (fun _ => k) m).
  Proof.
    intros C Hk Hs Hinc Hex. pose proof (cur_inv _ _ _ _ _ _ _ _ _ C) as HI.
    unfold side_wk in Hs. destruct (get m o) as [x|] eqn:Hx; cbn in Hs; [|discriminate].
    destruct (o_side x) as [s|] eqn:Es; cbn in Hs; [|discriminate]. injection Hs as <-.
    pose proof (sv_obj _ _ _ _ _ HI _ _ Hx) as Hok.
    unfold inc_wk in Hinc. destruct (w_cnt (sd_wk s) =? max_weak) eqn:Emx; [discriminate|]. injection Hinc as <-.
    apply N.eqb_neq in Emx.
    (* facts about the side record *)
    assert (Hfacts : sd_freed s = false /\ o_box x <> BNotYet /\
                     w_cnt (sd_wk s) = N.of_nat (wrefs m o + cnt_wr o W) /\
                     (o_box x = BAlloc -> w_cnt (sd_wk s) <= max_weak)).
    { destruct Hex as [(y & Hy & Hb)|Hpos].
      - assert (y = x) by congruence. subst y.
        destruct (okN_alloc K _ _ _ _ _ Hok Hb) as (_ & _ & _ & _ & O5 & _). rewrite Es in O5.
        destruct O5 as (S1 & S2 & S3 & S4 & S5). repeat split; auto; congruence.
      - destruct (weak_target K _ _ _ _ _ HI Hpos) as (y & t & Hy & Et & T1 & T2 & T3 & T4 & T5).
        assert (y = x) by congruence. subst y. assert (t = s) by congruence. subst t.
        repeat split; auto. intros Hb. apply T4, Hb. }
    destruct Hfacts as (Hf & Hny & Hcnt & Hmx).
    unfold uside.
    eapply (Cur_upd_hs K b n E0 ex m0 E W E (WTo o :: W) m o _ x C Hx (or_introl Hny)); try reflexivity; try (intros H; exact H).
    - intros o' Hne. split; [reflexivity|]. rewrite cnt_wr_cons. cbn.
      destruct (Nat.eqb o o') eqn:E1; [apply Nat.eqb_eq in E1; congruence | reflexivity].
    - auto.
    - eapply (okN_side_change b _ _ _ _ x _ s (Side (Wk (w_cnt (sd_wk s) + 1) (w_acc (sd_wk s))) (sd_freed s)) Hok);
        try reflexivity; auto.
      + cbn. rewrite Es. reflexivity.
      + cbn. rewrite cnt_wr_cons. cbn. rewrite Nat.eqb_refl. lia.
      + cbn. intros Hb. specialize (Hmx Hb). unfold max_weak in *. lia.
      + cbn. lia.
    - eapply ObjXp_nohdr; [apply (sv_objx _ _ _ _ _ HI _ _ Hx) | reflexivity ..|]. congruence.
    - intros Hin. destruct (sv_pc _ _ _ _ _ HI _ Hin) as (y & Hy & _ & _ & _ & Hm). cbn. congruence.
    - cbn. auto.
  Qed.

  (** Weak::clone *)
  Lemma Cur_weak_clone b n E0 ex m0 E W m m' w :
    Cur K b n E0 ex m0 E W m -> k_weak K = true -> weak_clone w m = Some m' ->
    (forall o, w = WTo o -> (0 < wrefs m o + cnt_wr o W)%nat) ->
    Cur K b n E0 ex m0 E (w :: W) m'.
  Proof.
    intros C Hk Hw Hpos. destruct w as [|o]; cbn in Hw.
    - injection Hw as <-. apply Cur_W_null, C.
    - pose proof (cur_inv _ _ _ _ _ _ _ _ _ C) as HI.
      destruct (weak_target K _ _ _ _ _ HI (Hpos o eq_refl)) as (y & t & Hy & Et & _).
      assert (Hs : side_wk m o = Some (sd_wk t)) by (unfold side_wk; rewrite Hy; cbn; rewrite Et; reflexivity).
      rewrite Hs in Hw. destruct (inc_wk (sd_wk t)) as [k|] eqn:Ek; [|discriminate]. injection Hw as <-.
      eapply Cur_weak_inc; eauto.
  Qed.
End PrimWeak.

Lemma machine_ext (a b : machine) :
  heap a = heap b -> pc a = pc b -> pc_size a = pc_size b -> pc_alive a = pc_alive b ->
  st_collecting a = st_collecting b -> st_finalizing a = st_finalizing b -> st_dropping a = st_dropping b ->
  st_alloc a = st_alloc b -> st_exec a = st_exec b -> cf_thr a = cf_thr b -> cf_pnum a = cf_pnum b ->
  cf_pexp a = cf_pexp b -> cf_buf a = cf_buf b -> cf_auto a = cf_auto b -> slots a = slots b ->
  wslots a = wslots b -> cslots a = cslots b -> values a = values b -> bag a = bag b -> wparam a = wparam b ->
  fuse_trace a = fuse_trace b -> fuse_fin a = fuse_fin b -> fuse_drop a = fuse_drop b ->
  fuse_action a = fuse_action b -> fuse_closure a = fuse_closure b -> panicking a = panicking b ->
  next_aid a = next_aid b -> log a = log b -> dead a = dead b -> a = b.
Proof. destruct a, b; cbn; intros; subst; reflexivity. Qed.
Lemma upd_upd o f g m : upd o g (upd o f m) = upd o (fun x => g (f x)) m.
Proof.
  apply machine_ext; try reflexivity. cbn. symmetry. apply (list_alter_compose g f).
Qed.

Lemma o_side_set x g : o_side (x <| o_side ::= g |>) = g (o_side x).
Proof. reflexivity. Qed.

Section PrimWeak2.
  Context (K : conf).
  Implicit Types (m : machine) (o : id) (x : obj).

  (** Weak::drop of a handle in flight *)
  Lemma Cur_weak_drop b n E0 ex m0 E W m w :
    Cur K b n E0 ex m0 E (w :: W) m -> k_weak K = true -> Cur K b n E0 ex m0 E W (weak_drop w m).
  Proof.
    intros C Hk. destruct w as [|o]; [apply Cur_W_null, C|].
    pose proof (cur_inv _ _ _ _ _ _ _ _ _ C) as HI.
    assert (Hpos : (0 < wrefs m o + cnt_wr o (WTo o :: W))%nat).
    { rewrite cnt_wr_cons. cbn. rewrite Nat.eqb_refl. lia. }
    destruct (weak_target K _ _ _ _ _ HI Hpos) as (x & s & Hx & Es & Hf & Hny & Hcnt & HA & HF).
    pose proof (sv_obj _ _ _ _ _ HI _ _ Hx) as Hok.
    assert (Hcw : cnt_wr o (WTo o :: W) = S (cnt_wr o W)).
    { rewrite cnt_wr_cons. cbn. rewrite Nat.eqb_refl. reflexivity. }
    rewrite Hcw in Hcnt.
    assert (Hcne : forall o', o' <> o -> cnt_id o' E = cnt_id o' E /\ cnt_wr o' W = cnt_wr o' (WTo o :: W)).
    { intros o' Hne. split; [reflexivity|]. rewrite cnt_wr_cons. cbn.
      destruct (Nat.eqb o o') eqn:E1; [apply Nat.eqb_eq in E1; congruence | reflexivity]. }
    unfold weak_drop. rewrite Hx, Es, Hf. unfold dec_wk.
    destruct (w_cnt (sd_wk s) =? 0) eqn:Ez; [apply N.eqb_eq in Ez; lia|].
    cbn [w_cnt w_acc].
    destruct ((w_cnt (sd_wk s) - 1 =? 0) && negb (w_acc (sd_wk s))) eqn:Efree.
    - (* the side record is freed *)
      apply andb_true_iff in Efree as [Ez' Hacc]. apply N.eqb_eq in Ez'. apply negb_true_iff in Hacc.
      assert (Hbx : o_box x = BFreed).
      { destruct (o_box x) eqn:Eb; [congruence | | reflexivity]. destruct (HA eq_refl) as (? & _). congruence. }
      unfold sfree, uside. rewrite (get_upd_eq _ _ _ _ Hx). rewrite o_side_set, Es. cbn [fmap option_fmap option_map sd_freed].
      rewrite Hf, upd_upd. apply Cur_emit; [|reflexivity].
      eapply (Cur_upd_hs K b n E0 ex m0 E (WTo o :: W) E W m o _ x C Hx (or_introl Hny)); try reflexivity; try (intros H; exact H).
      + exact Hcne.
      + auto.
      + apply okN_freed in Hok; [|exact Hbx]. destruct Hok as (F1 & F2 & F3).
        apply okN_freed; [exact Hbx|]. unfold OkFreed, is_live in *. cbn. repeat split; auto. lia.
      + eapply ObjXp_nohdr; [apply (sv_objx _ _ _ _ _ HI _ _ Hx) | reflexivity ..|]. congruence.
      + intros Hin. destruct (sv_pc _ _ _ _ _ HI _ Hin) as (y & Hy & _ & _ & _ & Hm). cbn. congruence.
      + cbn. auto.
    - unfold uside.
      eapply (Cur_upd_hs K b n E0 ex m0 E (WTo o :: W) E W m o _ x C Hx (or_introl Hny)); try reflexivity; try (intros H; exact H).
      + exact Hcne.
      + auto.
      + eapply (okN_side_change K b _ _ _ _ x _ s (Side (Wk (w_cnt (sd_wk s) - 1) (w_acc (sd_wk s))) (sd_freed s)) Hok);
          try reflexivity; auto.
        * cbn. rewrite Es. reflexivity.
        * cbn. lia.
        * cbn. intros Hb. destruct (HA Hb) as (_ & _ & Hmx). lia.
        * cbn. intros Hb. specialize (HF Hb). rewrite HF in Efree. cbn in Efree. rewrite andb_true_r in Efree.
          apply N.eqb_neq in Efree. exact Efree.
      + eapply ObjXp_nohdr; [apply (sv_objx _ _ _ _ _ HI _ _ Hx) | reflexivity ..|]. congruence.
      + intros Hin. destruct (sv_pc _ _ _ _ _ HI _ Hin) as (y & Hy & _ & _ & _ & Hm). cbn. congruence.
      + cbn. auto.
  Qed.

  Lemma Cur_weak_drop_opt b n E0 ex m0 E W m w :
    Cur K b n E0 ex m0 E (match w with Some w => w :: W | None => W end) m -> k_weak K = true ->
    Cur K b n E0 ex m0 E W (weak_drop_opt w m).
  Proof. destruct w; cbn; [apply Cur_weak_drop | auto]. Qed.
End PrimWeak2.

Section PrimWeak3.
  Context (K : conf).
  Implicit Types (m : machine) (o : id) (x : obj).

  Definition init_obj (x : obj) : obj :=
    if h_side (o_hdr x) then x
    else x <| o_side := Some (Side (wk_new true) false) |> <| o_hdr ::= set_side true |>.

  Lemma init_side_get m o x o' : get m o = Some x ->
    get (init_side o m) o' = if decide (o = o') then Some (init_obj x) else get m o'.
  Proof.
    intros Hx. unfold init_side, init_obj. rewrite Hx. destruct (h_side (o_hdr x)).
    - destruct (decide (o = o')); congruence.
    - change (get (emit ?e ?m) o') with (get m o'). rewrite get_upd.
      destruct (decide (o = o')); [subst; rewrite Hx|]; reflexivity.
  Qed.

  (** get_or_init_metadata (cc.rs:440) *)
  Lemma Cur_init_side b n E0 ex m0 E W m o x :
    Cur K b n E0 ex m0 E W m -> get m o = Some x -> o_box x = BAlloc -> k_weak K = true ->
    Cur K b n E0 ex m0 E W (init_side o m).
  Proof.
    intros C Hx Hb Hk. pose proof (cur_inv _ _ _ _ _ _ _ _ _ C) as HI.
    pose proof (sv_obj _ _ _ _ _ HI _ _ Hx) as Hok.
    unfold init_side. rewrite Hx. destruct (h_side (o_hdr x)) eqn:Hs; [exact C|].
    destruct (okN_alloc K _ _ _ _ _ Hok Hb) as (O1 & O2 & O3 & O4 & O5 & O6).
    destruct (o_side x) as [s|] eqn:Es; [destruct O5; congruence|]. destruct O5 as [_ Hnw].
    apply Cur_emit; [|reflexivity].
    eapply (Cur_upd_hs K b n E0 ex m0 E W E W m o _ x C Hx); try reflexivity; try (intros H; exact H); auto.
    - left. congruence.
    - apply okN_alloc_intro; [exact Hb|]. unfold OkAlloc, dying, is_live, is_dropped in *. cbn.
      rewrite Hnw. repeat split; auto. unfold max_weak. lia.
    - destruct (sv_objx _ _ _ _ _ HI _ _ Hx) as [X1 X2 X3 X4 X5 X6]. split; cbn; auto. congruence.
    - intros Hin. destruct (sv_pc _ _ _ _ _ HI _ Hin) as (y & Hy & _ & _ & _ & Hm). cbn. congruence.
  Qed.

  (** Weak::strong_count on a Weak handle that exists: no event; a positive answer means the
      target is allocated, live and outside the dying set (C08, safety half) *)
  Lemma weak_strong_count_ok b E W m o :
    SInv K b E W m -> k_weak K = true -> (0 < wrefs m o + cnt_wr o W)%nat ->
    exists sc, weak_strong_count (WTo o) m = (m, sc) /\
      (sc <> 0 -> exists x, get m o = Some x /\ o_box x = BAlloc /\ o_vst x = VLive /\ inD m o = false /\
                            h_rc (o_hdr x) = sc /\ is_dropped (o_hdr x) = false).
  Proof.
    intros HI Hk Hpos.
    destruct (weak_target K _ _ _ _ _ HI Hpos) as (x & s & Hx & Es & Hf & Hny & Hcnt & HA & HF).
    unfold weak_strong_count. rewrite Hx, Es, Hf.
    destruct (w_acc (sd_wk s)) eqn:Ea; [|exists 0; split; [reflexivity | congruence]].
    assert (Hb : o_box x = BAlloc).
    { destruct (o_box x) eqn:Eb; [congruence | reflexivity | specialize (HF eq_refl); congruence]. }
    rewrite Hb.
    destruct ((h_rc (o_hdr x) =? 0) || is_dropped (o_hdr x) || (is_in_list_or_queue (o_hdr x) && st_dropping m)) eqn:Et.
    - exists 0. split; [reflexivity | congruence].
    - exists (h_rc (o_hdr x)). split; [reflexivity|]. intros _.
      apply orb_false_iff in Et as [Et E3]. apply orb_false_iff in Et as [E1 E2].
      pose proof (sv_obj _ _ _ _ _ HI _ _ Hx) as Hok.
      destruct (okN_alloc K _ _ _ _ _ Hok Hb) as (O1 & O2 & O3 & O4 & O5 & O6).
      destruct (sv_objx _ _ _ _ _ HI _ _ Hx) as [X1 X2 X3 X4 X5 X6].
      rewrite Hk in O4. destruct O4 as [O4 _]. apply N.eqb_neq in E1.
      assert (Hv : o_vst x = VLive).
      { destruct (o_vst x) eqn:Ev; auto.
        - destruct (X1 Hb eq_refl). congruence.
        - unfold dying in O4. rewrite Ev in O4. specialize (O4 eq_refl). congruence.
        - unfold dying in O4. rewrite Ev in O4. specialize (O4 eq_refl). congruence.
        - congruence. }
      assert (Hi : inD m o = false).
      { destruct (inD m o) eqn:Ei; [|reflexivity]. destruct (X3 Hk eq_refl Hb E2) as [Hm Hsd].
        unfold is_in_list_or_queue in E3. rewrite Hm, Hsd in E3. discriminate. }
      exists x. auto 10.
  Qed.

  Lemma weak_weak_count_ok b E W m o :
    SInv K b E W m -> (0 < wrefs m o + cnt_wr o W)%nat ->
    exists wc, weak_weak_count (WTo o) m = (m, wc).
  Proof.
    intros HI Hpos.
    destruct (weak_target K _ _ _ _ _ HI Hpos) as (x & s & Hx & Es & Hf & _).
    unfold weak_weak_count. rewrite Hx, Es, Hf. eauto.
  Qed.
End PrimWeak3.

(** ** Moving strong handles between locations *)
Definition ol (a : option id) : list id := match a with Some t => [t] | None => [] end.
Definition b2n (b : bool) : nat := if b then 1%nat else 0%nat.

Lemma cnt_id_ol o a : cnt_id o (ol a) = b2n (eqb_oid a o).
Proof. destruct a as [t|]; cbn; [|reflexivity]. rewrite cnt_id_cons, cnt_id_nil. destruct (Nat.eqb t o); reflexivity. Qed.

Lemma okN_ext K b nr nw ind x x' :
  o_hdr x' = o_hdr x -> o_vst x' = o_vst x -> o_box x' = o_box x -> o_side x' = o_side x ->
  obj_okN K b nr nw ind x' = obj_okN K b nr nw ind x.
Proof. intros H1 H2 H3 H4. unfold obj_okN, is_live. rewrite H1, H2, H3, H4. reflexivity. Qed.

Section Move.
  Context (K : conf).
  Implicit Types (m : machine) (o : id) (x : obj).

  (** generic: the strong fields / the cleaner field of [a] and the slots / the bag change *)
  Lemma Cur_move b n E0 ex m0 E W E' m m' a f :
    Cur K b n E0 ex m0 E W m ->
    heap m' = alter f a (heap m) ->
    wslots m' = wslots m -> wparam m' = wparam m -> cslots m' = cslots m -> values m' = values m ->
    pc m' = pc m -> dead m' = dead m -> pc_alive m' = pc_alive m -> st_collecting m' = st_collecting m ->
    st_dropping m' = st_dropping m -> length (slots m') = length (slots m) -> NoBad m' ->
    (forall x, get m a = Some x ->
       o_hdr (f x) = o_hdr x /\ o_vst (f x) = o_vst x /\ o_box (f x) = o_box x /\ o_side (f x) = o_side x /\
       o_cls (f x) = o_cls x /\ o_ismap (f x) = o_ismap x /\ o_wfields (f x) = o_wfields x /\
       length (o_fields (f x)) = length (o_fields x) /\
       (o_ismap x = true -> o_fields (f x) = [] /\ o_cleaner (f x) = None) /\
       (f x = x \/ ((o_box x <> BNotYet \/ o_vst x = VDropping) /\ (o_vst x <> VDropping \/ ex = Some a) /\
                     o_vst x <> VUninit /\ (inD m a = false \/ o_vst x = VDropped \/ ex = Some a)))) ->
    (forall o, refs m' o + cnt_id o E' = refs m o + cnt_id o E)%nat ->
    (forall h c t, hloc m' h c t -> hloc m h c t \/ LocOk m' h c t) ->
    (forall t, t ∈ E' -> t ∈ E \/ exists x, get m t = Some x /\ o_box x = BAlloc) ->
    Cur K b n E0 ex m0 E' W m'.
  Proof.
    intros C Hh Hws Hwp Hcs Hv Hpc Hd Hal Hcol Hsd Hls Hnb Hf Hrefs Hloc HE.
    pose proof (cur_inv _ _ _ _ _ _ _ _ _ C) as HI.
    assert (HW : forall o, wrefs m' o = wrefs m o).
    { intros o. eapply wrefs_alter_same; eauto. intros y Hy. apply (Hf y Hy). }
    eapply Cur_step; [exact C | exact Hnb | | | exact Hd].
    - eapply (SInv_alter K b E W E' W m m' a f HI).
      + exact Hh.
      + exact Hd.
      + exact Hal.
      + exact Hv.
      + rewrite Hsd. auto.
      + exact Hls.
      + rewrite Hws. reflexivity.
      + rewrite Hcs. reflexivity.
      + intros y Hy. destruct (Hf y Hy) as (F1 & F2 & F3 & F4 & F5 & F6 & _).
        unfold same_st, marked. rewrite F1. auto.
      + intros o _. rewrite HW. auto.
      + intros y Hy. destruct (Hf y Hy) as (F1 & F2 & F3 & F4 & F5 & F6 & F7 & F8 & F9 & _).
        rewrite HW, Hrefs, Hsd. split.
        * rewrite (okN_ext K b _ _ _ y (f y) F1 F2 F3 F4). apply (sv_obj _ _ _ _ _ HI), Hy.
        * destruct (sv_objx _ _ _ _ _ HI _ _ Hy) as [X1 X2 X3 X4 X5 X6].
          split; unfold dying in *; rewrite ?F1, ?F2, ?F3, ?F4, ?F6, ?F7; auto.
          intros Hm. destruct (F9 Hm) as [-> ->]. destruct (X5 Hm) as (_ & _ & ->). auto.
      + exact Hloc.
      + exact HE.
      + intros t Ht. rewrite Hpc in Ht. left. split; [exact Ht|]. intros y -> Hy.
        destruct (Hf y Hy) as (F1 & _). rewrite F1.
        destruct (sv_pc _ _ _ _ _ HI _ Ht) as (z & Hz & _ & _ & _ & Hm). congruence.
      + intros i w Hi. left. exists i. rewrite <- Hws. exact Hi.
      + intros w Hw. left. rewrite <- Hwp. exact Hw.
      + intros y j w Hy Hj. left. exists j. destruct (Hf y Hy) as (_ & _ & _ & _ & _ & _ & F7 & _).
        rewrite F7 in Hj. exact Hj.
    - eapply (Fr_alter K E0 ex m m' a f); [exact Hh | exact Hd | exact Hcol | exact Hwp | |].
      + intros y Hy. destruct (Hf y Hy) as (F1 & F2 & F3 & F4 & F5 & F6 & F7 & F8 & F9 & F10).
        assert (HD : forall o, inD m' o = true -> inD m o = true) by (intros o; rewrite (inD_eq _ _ _ Hd); auto).
        split; try congruence; auto.
        * intros Hb Hnv Hex. destruct F10 as [Q|[[Q1|Q1] _]]; [exact Q | congruence | congruence].
        * intros Hvd Hex. destruct F10 as [Q|[_ [[Q|Q] _]]]; try congruence. rewrite Q. repeat split; auto.
        * intros _ Qv Qb. destruct F10 as [Q|(_ & _ & Q & _)]; [rewrite Q; auto | congruence].
        * intros Hi Hex Hnd. destruct F10 as [Q|(_ & _ & _ & [Q|[Q|Q]])]; [rewrite Q; auto | congruence ..].
        * unfold marked. rewrite F1. auto.
        * intros _ Hb _. unfold marked. rewrite F1. repeat split; auto; congruence.
      + intros Hk y Hy Hi Hb Hdr. destruct (Hf y Hy) as (F1 & F2 & F3 & _). rewrite F1 in Hdr. split; congruence.
  Qed.
End Move.

Definition idx_valid (m : machine) (r : rloc) : Prop :=
  match r with
  | RSlot i => (i < length (slots m))%nat
  | RField p j => exists x, get m p = Some x /\ (j < length (o_fields x))%nat
  end.

Lemma LocOk_of_good m h t : good_h m t -> LocOk m h false t.
Proof.
  intros (x & Hx & Hb & Hv & Hi & Hm). exists x. split; [exact Hx|]. split; [exact Hb|]. split; [auto|].
  destruct h as [p|]; [|auto]. intros xp Hp. split; [auto|]. intros Hin. congruence.
Qed.

Lemma good_h_st m m' t : heap_st m m' -> dead m' = dead m -> good_h m t -> good_h m' t.
Proof.
  intros [H1 _] Hd (x & Hx & Hb & Hv & Hi & Hm). destruct (H1 t x Hx) as (x' & Hx' & Sb & Sv & Sm & _).
  exists x'. rewrite (inD_eq _ _ _ Hd). repeat split; congruence.
Qed.

Lemma lookup_insert_Some_inv {A} (l : list A) i j v y :
  <[i := v]> l !! j = Some y -> (i = j /\ y = v) \/ (i <> j /\ l !! j = Some y).
Proof.
  intros H. destruct (decide (i = j)) as [->|Hne].
  - left. split; [reflexivity|]. destruct (decide (j < length l)%nat) as [Hlt|Hge].
    + rewrite list_lookup_insert in H by exact Hlt. congruence.
    + rewrite list_insert_ge in H by lia. apply lookup_lt_Some in H. lia.
  - right. rewrite list_lookup_insert_ne in H by exact Hne. auto.
Qed.

Lemma heap_upd o f m : heap (upd o f m) = alter f o (heap m).
Proof. reflexivity. Qed.
Lemma slots_upd o f m : slots (upd o f m) = slots m. Proof. reflexivity. Qed.
Lemma bag_upd o f m : bag (upd o f m) = bag m. Proof. reflexivity. Qed.

Lemma refs_upd m p f x o :
  get m p = Some x -> (refs (upd p f m) o + obj_refs o x = refs m o + obj_refs o (f x))%nat.
Proof.
  intros Hx. rewrite !refs_unfold, heap_upd, slots_upd, bag_upd.
  pose proof (hsum_alter (obj_refs o) f p (heap m) x Hx). unfold Machine.id in *. lia.
Qed.
Lemma obj_refs_fields o x j v a :
  o_fields x !! j = Some a ->
  (obj_refs o (x <| o_fields ::= <[j := v]> |>) + b2n (eqb_oid a o) = obj_refs o x + b2n (eqb_oid v o))%nat.
Proof.
  intros Ha. unfold obj_refs. change (o_fields (x <| o_fields ::= <[j := v]> |>)) with (<[j := v]> (o_fields x)).
  change (o_cleaner (x <| o_fields ::= <[j := v]> |>)) with (o_cleaner x).
  pose proof (cnt_opt_insert o _ _ _ v Ha). unfold b2n. destruct (eqb_oid a o), (eqb_oid v o); lia.
Qed.

Section MoveInst.
  Context (K : conf).
  Implicit Types (m : machine) (o : id) (x : obj).

  Lemma Cur_write_loc b n E0 ex m0 E W m r v :
    Cur K b n E0 ex m0 (ol v ++ E) W m -> idx_valid m r ->
    (forall t, v = Some t -> good_h m t) ->
    (forall p j x, r = RField p j -> get m p = Some x ->
       (o_box x <> BNotYet \/ o_vst x = VDropping) /\ (o_vst x <> VDropping \/ ex = Some p) /\ o_vst x <> VUninit /\
       (inD m p = false \/ o_vst x = VDropped \/ ex = Some p)) ->
    Cur K b n E0 ex m0 (ol (read_loc r m) ++ E) W (write_loc r v m).
  Proof.
    intros C Hidx Hgood Hhold. pose proof (cur_inv _ _ _ _ _ _ _ _ _ C) as HI.
    destruct r as [i|p j]; cbn [idx_valid] in Hidx.
    - (* a slot *)
      destruct (lookup_lt_is_Some_2 _ _ Hidx) as [a Ha].
      assert (Hr : read_loc (RSlot i) m = a) by (cbn; rewrite Ha; reflexivity). rewrite Hr.
      eapply (Cur_move K b n E0 ex m0 (ol v ++ E) W (ol a ++ E) m _ 0%nat (fun x => x) C); try reflexivity.
      + cbn. rewrite alter_id_eq. reflexivity.
      + cbn. apply insert_length.
      + eapply NoBad_log; [reflexivity | apply C].
      + intros x Hx. destruct (sv_objx _ _ _ _ _ HI _ _ Hx) as [_ _ _ _ X5 _]. repeat split; auto;
          match goal with H : o_ismap _ = true |- _ => destruct (X5 H) as (? & ? & _) end; auto.
      + intros o. rewrite !refs_unfold, !cnt_id_app, !cnt_id_ol. cbn [slots bag heap write_loc].
        pose proof (cnt_opt_insert o _ _ _ v Ha) as Hc.
        change (slots (m <| slots ::= <[i:=v]> |>)) with (<[i:=v]> (slots m)).
        change (bag (m <| slots ::= <[i:=v]> |>)) with (bag m).
        change (heap (m <| slots ::= <[i:=v]> |>)) with (heap m).
        unfold b2n. destruct (eqb_oid a o), (eqb_oid v o); lia.
      + intros h c t Hl. inversion Hl as [i' t' H | t' H | q xq j' t' Hq Hj | q xq t' Hq Hc]; subst.
        * cbn in H. apply lookup_insert_Some_inv in H as [[-> Hv]|[Hne H]].
          -- right. apply LocOk_of_good. eapply good_h_st; [| reflexivity | apply Hgood; congruence].
             eapply heap_st_alter with (a := 0%nat) (f := fun x => x); [cbn; rewrite alter_id_eq; reflexivity|].
             intros. apply same_st_refl.
          -- left. econstructor 1; eauto.
        * left. constructor 2. exact H.
        * left. econstructor 3; eauto.
        * left. econstructor 4; eauto.
      + intros t Ht. apply elem_of_app in Ht as [Ht|Ht].
        * right. destruct a as [t'|]; cbn in Ht; [|inversion Ht]. apply elem_of_list_singleton in Ht. subst t'.
          destruct (sv_loc _ _ _ _ _ HI None false t) as (xt & Hxt & Hb & _); [econstructor 1; eauto | eauto].
        * left. apply elem_of_app. auto.
    - (* a field *)
      destruct Hidx as (x & Hx & Hj). destruct (lookup_lt_is_Some_2 _ _ Hj) as [a Ha].
      assert (Hr : read_loc (RField p j) m = a) by (cbn; rewrite Hx; cbn; rewrite Ha; reflexivity). rewrite Hr.
      destruct (Hhold p j x eq_refl Hx) as (Hny & Hvd & Hnu & Hdd).
      assert (HS : heap_st m (write_loc (RField p j) v m)).
      { eapply heap_st_alter; [reflexivity|]. intros y Hy. repeat split; auto. }
      eapply (Cur_move K b n E0 ex m0 (ol v ++ E) W (ol a ++ E) m _ p _ C); try reflexivity.
      + eapply NoBad_log; [reflexivity | apply C].
      + intros y Hy. assert (y = x) by congruence. subst y.
        destruct (sv_objx _ _ _ _ _ HI _ _ Hx) as [_ _ _ _ X5 _].
        assert (Hnm : o_ismap x = true -> False).
        { intros Hm. destruct (X5 Hm) as (Hf & ? & _). rewrite Hf in Hj. cbn in Hj. lia. }
        cbn. repeat split; auto; try (apply insert_length); try (exfalso; auto; fail).
      + intros o. rewrite !cnt_id_app, !cnt_id_ol. cbn [write_loc].
        pose proof (refs_upd m p (fun x => x <| o_fields ::= <[j:=v]> |>) x o Hx) as H1.
        pose proof (obj_refs_fields o x j v a Ha) as H2. cbv beta in H1. lia.
      + intros h c t Hl. inversion Hl as [i' t' H | t' H | q xq j' t' Hq Hj' | q xq t' Hq Hc]; subst.
        * left. econstructor 1; eauto.
        * left. constructor 2. exact H.
        * cbn [write_loc] in Hq. rewrite get_upd in Hq. destruct (decide (p = q)) as [->|Hne].
          -- rewrite Hx in Hq. cbn in Hq. injection Hq as <-. cbn in Hj'.
             apply lookup_insert_Some_inv in Hj' as [[-> Hv]|[Hne Hj']].
             ++ right. apply LocOk_of_good. eapply good_h_st; [exact HS | reflexivity | apply Hgood; congruence].
             ++ left. econstructor 3; eauto.
          -- left. econstructor 3; eauto.
        * cbn [write_loc] in Hq. rewrite get_upd in Hq. destruct (decide (p = q)) as [->|Hne].
          -- rewrite Hx in Hq. cbn in Hq. injection Hq as <-. cbn in Hc. left. econstructor 4; eauto.
          -- left. econstructor 4; eauto.
      + intros t Ht. apply elem_of_app in Ht as [Ht|Ht].
        * right. destruct a as [t'|]; cbn in Ht; [|inversion Ht]. apply elem_of_list_singleton in Ht. subst t'.
          destruct (sv_loc _ _ _ _ _ HI (Some p) false t) as (xt & Hxt & Hb & _); [econstructor 3; eauto | eauto].
        * left. apply elem_of_app. auto.
  Qed.
End MoveInst.

(** ** An update that changes the status (box / value state / header) of one object but none
    of its handle fields *)
Section Status.
  Context (K : conf).
  Implicit Types (m : machine) (o : id) (x : obj).

  Lemma LocOk_other m m' a h c t :
    (forall o, o <> a -> get m' o = get m o) -> dead m' = dead m ->
    h <> Some a -> t <> a -> LocOk m h c t -> LocOk m' h c t.
  Proof.
    intros Hg Hd Hh Ht (xt & Hxt & Hb & Hc & Hm). exists xt. rewrite (Hg t Ht).
    split; [exact Hxt|]. split; [exact Hb|]. split; [exact Hc|].
    destruct h as [p|]; rewrite ?(inD_eq _ _ _ Hd); [|exact Hm].
    intros xp Hp. rewrite Hg in Hp by congruence. apply Hm, Hp.
  Qed.

  Lemma SInv_status b E W E' W' m m' a f x :
    SInv K b E W m -> get m a = Some x ->
    heap m' = alter f a (heap m) -> ext_eq m m' -> (st_dropping m = true -> st_dropping m' = true) ->
    o_ismap (f x) = o_ismap x -> o_fields (f x) = o_fields x -> o_cleaner (f x) = o_cleaner x ->
    o_wfields (f x) = o_wfields x ->
    (forall o, o <> a -> cnt_id o E' = cnt_id o E /\ cnt_wr o W' = cnt_wr o W) ->
    obj_okN K b (refs m a + cnt_id a E') (wrefs m a + cnt_wr a W') (inD m a) (f x) = true ->
    ObjXp K (inD m a) (st_dropping m') (f x) ->
    (forall h c, hloc m h c a -> LocOk m' h c a) ->
    (forall c t, hloc m (Some a) c t -> LocOk m' (Some a) c t) ->
    (forall t, t ∈ E' -> (t <> a /\ t ∈ E) \/ (t = a /\ o_box (f x) = BAlloc)) ->
    (a ∈ pc m -> o_box (f x) = BAlloc /\ o_vst (f x) = VLive /\ h_mark (o_hdr (f x)) = PC) ->
    (forall v, values m !! v = Some (Some a) -> o_box (f x) = BFreed /\ o_vst (f x) = VMoved) ->
    SInv K b E' W' m'.
  Proof.
    intros HI Hx Hh (Hs & Hb & Hws & Hwp & Hcs & Hv & Hpc & Hd & Hal & Hcol) Hsd
           Fm Ff Fc Fw Hcnt Hok Hox HL1 HL2 HE Hpca Hva.
    assert (Hfx : forall y, get m a = Some y -> y = x) by (intros; congruence).
    assert (HR : forall o, refs m' o = refs m o).
    { intros o. eapply refs_alter_same; eauto. intros y Hy. rewrite (Hfx y Hy). auto. }
    assert (HW : forall o, wrefs m' o = wrefs m o).
    { intros o. eapply wrefs_alter_same; eauto. intros y Hy. rewrite (Hfx y Hy). auto. }
    assert (Hget : forall o, get m' o = if decide (a = o) then f <$> get m o else get m o)
      by (intros; apply get_alter, Hh).
    assert (Hgne : forall o, o <> a -> get m' o = get m o).
    { intros o Hne. rewrite Hget, decide_False by congruence. reflexivity. }
    assert (Hga : get m' a = Some (f x)) by (rewrite Hget, decide_True, Hx by reflexivity; reflexivity).
    assert (HD : forall o, inD m' o = inD m o) by (intros; apply inD_eq, Hd).
    assert (Hlocs : forall h c t, hloc m' h c t -> hloc m h c t).
    { intros h c t. eapply hloc_alter_same; eauto. intros y Hy. rewrite (Hfx y Hy). auto. }
    assert (Hism : forall o, is_map m' o = is_map m o).
    { intros o. unfold is_map. destruct (decide (o = a)) as [->|Hne]; [rewrite Hga, Hx; exact Fm | rewrite Hgne by exact Hne; reflexivity]. }
    assert (Hwn : forall w, wnomap m w -> wnomap m' w).
    { intros w Hw o Ho. rewrite Hism. apply Hw, Ho. }
    destruct HI as [I1 I2 I3 I4 I5 I6 I7 I8 I9 I10 I11 I12 I13]. split.
    - intros o y Hy. rewrite HR, HW, HD. destruct (decide (o = a)) as [->|Hne].
      + assert (y = f x) by congruence. subst y. exact Hok.
      + rewrite Hgne in Hy by exact Hne. destruct (Hcnt o Hne) as [-> ->]. apply I1, Hy.
    - intros o y Hy. unfold ObjX. rewrite HD. destruct (decide (o = a)) as [->|Hne].
      + assert (y = f x) by congruence. subst y. exact Hox.
      + rewrite Hgne in Hy by exact Hne. eapply ObjXp_sd; [exact Hsd | apply (I2 o y Hy)].
    - intros h c t Hl. apply Hlocs in Hl. destruct (decide (t = a)) as [->|Hta]; [apply HL1, Hl|].
      destruct (decide (h = Some a)) as [->|Hha]; [apply HL2, Hl|].
      eapply LocOk_other; eauto.
    - intros t Ht. destruct (HE t Ht) as [[Hne Ht']|[-> Hb']].
      + rewrite Hgne by exact Hne. apply I4, Ht'.
      + eauto.
    - intros t Ht. rewrite Hpc in Ht. rewrite HD. destruct (decide (t = a)) as [->|Hne].
      + destruct (Hpca Ht) as (P1 & P2 & P3). destruct (I5 a Ht) as (y & Hy & _ & _ & Hi & _).
        exists (f x). auto 6.
      + rewrite Hgne by exact Hne. apply I5, Ht.
    - congruence.
    - intros o Ho. rewrite HD in Ho. destruct (decide (o = a)) as [->|Hne]; [rewrite Hga; eauto|].
      rewrite Hgne by exact Hne. apply I7, Ho.
    - intros v o Hvo. rewrite Hv in Hvo. destruct (I8 v o Hvo) as [(y & Hy & Hby & Hvy) Hu]. split.
      + destruct (decide (o = a)) as [->|Hne].
        * destruct (Hva v Hvo) as [? ?]. exists (f x). auto.
        * rewrite Hgne by exact Hne. eauto.
      + intros v'. rewrite Hv. apply Hu.
    - destruct I9 as (? & ? & ?). repeat split; congruence.
    - intros i w Hi. rewrite Hws in Hi. eauto.
    - intros w Hw. rewrite Hwp in Hw. eauto.
    - intros p xp j w Hp Hj. destruct (decide (p = a)) as [->|Hne].
      + assert (xp = f x) by congruence. subst xp. rewrite Fw in Hj. eauto.
      + rewrite Hgne in Hp by exact Hne. eauto.
    - intros o Ho. rewrite HW in Ho. destruct (decide (o = a)) as [->|Hne]; [rewrite Hga; eauto|].
      rewrite Hgne by exact Hne. destruct (Hcnt o Hne) as [_ Hc]. rewrite Hc in Ho. apply I13, Ho.
  Qed.
End Status.

Section Fresh.
  Context (K : conf).
  Implicit Types (m : machine) (o : id) (x : obj).

  Lemma get_app_l m (h2 : list obj) m' o :
    heap m' = heap m ++ h2 -> (o < length (heap m))%nat -> get m' o = get m o.
  Proof. intros Hh Hlt. unfold get. rewrite Hh. apply lookup_app_l, Hlt. Qed.

  Lemma no_refs_fresh b E W m o : SInv K b E W m -> get m o = None -> refs m o = 0%nat /\ cnt_id o E = 0%nat.
  Proof.
    intros HI Hn. split.
    - destruct (refs m o) eqn:Er; [reflexivity|]. destruct (refs_pos_hloc m o) as (h & c & Hl); [lia|].
      destruct (sv_loc _ _ _ _ _ HI _ _ _ Hl) as (xt & Hxt & _). congruence.
    - apply cnt_id_zero. intros Hin. destruct (sv_E _ _ _ _ _ HI _ Hin) as (xt & Hxt & _). congruence.
  Qed.

  (** a new object (no box yet, no handle anywhere) is appended to the heap *)
  Lemma Cur_new_obj b n E0 ex m0 E W m m' x0 :
    Cur K b n E0 ex m0 E W m ->
    heap m' = heap m ++ [x0] -> ext_eq m m' -> st_dropping m' = st_dropping m -> log m' = log m ->
    o_box x0 = BNotYet -> o_side x0 = None ->
    (forall j, o_fields x0 !! j <> Some (Some (length (heap m))) /\ forall t, o_fields x0 !! j = Some (Some t) -> False) ->
    o_cleaner x0 = None -> (forall j w, o_wfields x0 !! j = Some w -> w = None) ->
    (o_ismap x0 = true -> o_fields x0 = [] /\ o_wfields x0 = []) ->
    Cur K b n E0 ex m0 E W m'.
  Proof.
    intros C Hh (Hs & Hb & Hws & Hwp & Hcs & Hv & Hpc & Hd & Hal & Hcol) Hsd Hlog Bx Sx Fx Cx Wx Mx.
    pose proof (cur_inv _ _ _ _ _ _ _ _ _ C) as HI.
    set (o0 := length (heap m)).
    assert (Hold : forall o, (o < o0)%nat -> get m' o = get m o) by (intros; eapply get_app_l; eauto).
    assert (Hnew : get m' o0 = Some x0).
    { unfold get. rewrite Hh. apply list_lookup_middle. reflexivity. }
    assert (Hcase : forall o y, get m' o = Some y -> (get m o = Some y /\ (o < o0)%nat) \/ (o = o0 /\ y = x0)).
    { intros o y Hy. destruct (decide (o < o0)%nat) as [Hlt|Hge].
      - left. rewrite Hold in Hy by exact Hlt. auto.
      - right. assert (o = o0). { apply lookup_lt_Some in Hy. unfold get in *. rewrite Hh, app_length in Hy. cbn in Hy. unfold o0. lia. }
        subst o. split; [reflexivity | congruence]. }
    assert (Hnone : get m o0 = None) by (apply lookup_ge_None_2; unfold o0; lia).
    assert (Hor : forall o, obj_refs o x0 = 0%nat).
    { intros o. unfold obj_refs. rewrite Cx. cbn. rewrite Nat.add_0_r. apply cnt_opt_zero.
      intros j Hj. destruct (Fx j) as [_ F]. eapply F, Hj. }
    assert (How : forall o, cnt_w o (o_wfields x0) = 0%nat).
    { intros o. destruct (cnt_w o (o_wfields x0)) eqn:Ec; [reflexivity|].
      destruct (proj1 (cnt_w_pos o (o_wfields x0))) as [j Hj]; [lia|]. specialize (Wx j _ Hj). discriminate. }
    assert (HR : forall o, refs m' o = refs m o).
    { intros o. rewrite !refs_unfold, Hs, Hb, Hh, hsum_app. cbn. unfold hsum at 2. cbn. rewrite Hor. lia. }
    assert (HW : forall o, wrefs m' o = wrefs m o).
    { intros o. rewrite !wrefs_unfold, Hws, Hwp, Hcs, Hh, hsum_app. unfold hsum at 2. cbn. rewrite How. lia. }
    assert (HD : forall o, inD m' o = inD m o) by (intros; apply inD_eq, Hd).
    assert (Hlocs : forall h c t, hloc m' h c t -> hloc m h c t).
    { intros h c t Hl. inversion Hl as [i t' H | t' H | p xp j t' Hp Hj | p xp t' Hp Hc]; subst.
      - econstructor 1. rewrite <- Hs. eauto.
      - constructor 2. rewrite <- Hb. exact H.
      - destruct (Hcase _ _ Hp) as [[Hp' _]|[-> ->]]; [econstructor 3; eauto|].
        exfalso. destruct (Fx j) as [_ F]. eapply F, Hj.
      - destruct (Hcase _ _ Hp) as [[Hp' _]|[-> ->]]; [econstructor 4; eauto|]. congruence. }
    assert (Hget_mono : forall o y, get m o = Some y -> get m' o = Some y).
    { intros o y Hy. rewrite Hold; [exact Hy|]. apply lookup_lt_Some in Hy. exact Hy. }
    assert (Hism : forall o, is_map m o = false -> get m o <> None \/ o <> o0 -> True) by auto.
    destruct (no_refs_fresh _ _ _ _ _ HI Hnone) as [Hr0 He0].
    assert (Hw0 : (wrefs m o0 + cnt_wr o0 W = 0)%nat).
    { destruct (wrefs m o0 + cnt_wr o0 W)%nat eqn:Ew; [reflexivity|].
      destruct (sv_wex _ _ _ _ _ HI o0) as [y Hy]; [lia | congruence]. }
    assert (Hwn : forall w, wnomap m w -> (forall o, w = Some (WTo o) -> is_Some (get m o)) -> wnomap m' w).
    { intros w Hw Hex o Ho. destruct (Hex o Ho) as [y Hy]. unfold is_map. rewrite (Hget_mono _ _ Hy).
      specialize (Hw o Ho). unfold is_map in Hw. rewrite Hy in Hw. exact Hw. }
    eapply Cur_step; [exact C | eapply NoBad_log; [exact Hlog | apply C] | | | exact Hd].
    - destruct HI as [I1 I2 I3 I4 I5 I6 I7 I8 I9 I10 I11 I12 I13]. split.
      + intros o y Hy. rewrite HR, HW, HD. destruct (Hcase _ _ Hy) as [[Hy' _]|[-> ->]]; [apply I1, Hy'|].
        apply okN_notyet; [exact Bx|]. lia.
      + intros o y Hy. unfold ObjX. rewrite HD, Hsd. destruct (Hcase _ _ Hy) as [[Hy' _]|[-> ->]]; [apply (I2 _ _ Hy')|].
        assert (Hi0 : inD m o0 = false).
        { destruct (inD m o0) eqn:Ei; [|reflexivity]. destruct (I7 o0 Ei) as [y Hy']. congruence. }
        split; try congruence; auto.
        intros Hm. destruct (Mx Hm) as [-> ->]. auto.
      + intros h c t Hl. apply Hlocs in Hl. destruct (I3 h c t Hl) as (xt & Hxt & Hbt & Hct & Hm).
        exists xt. split; [apply Hget_mono, Hxt|]. split; [exact Hbt|]. split; [exact Hct|].
        destruct h as [p|]; rewrite ?HD; [|exact Hm].
        intros xp Hp. inversion Hl; subst;
          match goal with H : get m p = Some _ |- _ => rewrite (Hget_mono _ _ H) in Hp; injection Hp as <-; apply Hm, H end.
      + intros t Ht. destruct (I4 t Ht) as (xt & Hxt & Hbt). eauto.
      + intros t Ht. rewrite Hpc in Ht. rewrite HD. destruct (I5 t Ht) as (xt & Hxt & ?). eauto.
      + congruence.
      + intros o Ho. rewrite HD in Ho. destruct (I7 o Ho) as [y Hy]. eauto.
      + intros v o Hvo. rewrite Hv in Hvo. destruct (I8 v o Hvo) as [(y & Hy & ?) Hu]. split; [eauto|].
        intros v'. rewrite Hv. apply Hu.
      + destruct I9 as (? & ? & ?). repeat split; congruence.
      + intros i w Hi. rewrite Hws in Hi. apply Hwn; [eauto|]. intros o ->. apply I13.
        assert (0 < cnt_w o (wslots m))%nat by (apply cnt_w_pos; eauto). rewrite wrefs_unfold. lia.
      + intros w Hw. rewrite Hwp in Hw. apply Hwn; [eauto|]. intros o [= ->]. apply I13.
        assert (0 < cnt_w o (map Some (wparam m)))%nat.
        { apply cnt_w_pos. apply elem_of_list_lookup in Hw as [i Hi]. exists i. rewrite list_lookup_fmap, Hi. reflexivity. }
        rewrite wrefs_unfold. lia.
      + intros p xp j w Hp Hj. destruct (Hcase _ _ Hp) as [[Hp' _]|[-> ->]].
        * apply Hwn; [eauto|]. intros o ->. apply I13.
          assert (0 < hsum (fun x => cnt_w o (o_wfields x)) (heap m))%nat.
          { apply hsum_pos. exists p, xp. split; [exact Hp'|]. apply cnt_w_pos. eauto. }
          rewrite wrefs_unfold. lia.
        * rewrite (Wx j w Hj). intros o Ho. discriminate.
      + intros o Ho. rewrite HW in Ho. destruct (I13 o Ho) as [y Hy]. eauto.
    - split; auto.
      + intros o. rewrite HD. auto.
      + intros _ o. rewrite HD. auto.
      + intros o y Hy. exists y. split; [apply Hget_mono, Hy|]. apply ObjFr_refl. intros o'. rewrite HD. auto.
      + intros Hk o y Hy Hi Hby Hdy. rewrite HD in Hi. destruct (Hcase _ _ Hy) as [[Hy' _]|[-> ->]]; [eauto 6|congruence].
  Qed.
End Fresh.

Section Status2.
  Context (K : conf).
  Implicit Types (m : machine) (o : id) (x : obj).

  (** extending a frame by an update of one object which is either new since [m0] or changes
      in a way the frame allows *)
  Lemma Fr_step_alter E ex m0 m m' a f :
    Fr K E ex m0 m -> heap m' = alter f a (heap m) -> dead m' = dead m ->
    st_collecting m' = st_collecting m -> wparam m' = wparam m ->
    ((get m0 a = None /\ inD m a = false) \/
     ((forall x, get m a = Some x -> ObjFr E ex m m' a x (f x)) /\
      (k_weak K = true -> forall x, get m a = Some x -> inD m a = true -> o_box (f x) = BAlloc ->
         is_dropped (o_hdr (f x)) = false -> o_box x = BAlloc /\ is_dropped (o_hdr x) = false))) ->
    Fr K E ex m0 m'.
  Proof.
    intros F Hh Hd Hc Hwp [[Hn Hi]|[HA HU]].
    - assert (Hget : forall o, get m' o = if decide (a = o) then f <$> get m o else get m o)
        by (intros; apply get_alter, Hh).
      assert (HD : forall o, inD m' o = inD m o) by (intros; apply inD_eq, Hd).
      destruct F as [F1 Fw F2 Fc F3 F4]. split.
      + congruence.
      + congruence.
      + intros o Ho. rewrite HD. auto.
      + intros Hc0 o Ho. rewrite HD in Ho. auto.
      + intros o x Hx. destruct (F3 o x Hx) as (x' & Hx' & OF). exists x'.
        assert (a <> o) by congruence. rewrite Hget, decide_False by assumption. split; [exact Hx'|].
        destruct OF as [O1 O2 O3 O4 O5 O6 O7 O8 O8' Ou On Od O9 O10]. split; auto.
        * intros Hv Hex. destruct (O8 Hv Hex) as (? & ? & ? & ? & ?). rewrite HD. auto.
        * intros Hex Hb Hp. destruct (O10 Hex Hb Hp) as (? & ? & ? & ?). rewrite HD. auto.
      + intros Hk o x' Hx' Hi' Hb Hdr. rewrite HD in Hi'. rewrite Hget in Hx'.
        destruct (decide (a = o)) as [->|Hne]; [congruence|]. apply (F4 Hk o x' Hx' Hi' Hb Hdr).
    - eapply Fr_trans; [exact F|]. eapply Fr_alter; eauto.
  Qed.

  Lemma Cur_status b n E0 ex m0 E W E' W' m m' a f x :
    Cur K b n E0 ex m0 E W m -> get m a = Some x ->
    heap m' = alter f a (heap m) -> ext_eq m m' -> (st_dropping m = true -> st_dropping m' = true) ->
    NoBad m' ->
    o_ismap (f x) = o_ismap x -> o_fields (f x) = o_fields x -> o_cleaner (f x) = o_cleaner x ->
    o_wfields (f x) = o_wfields x ->
    (forall o, o <> a -> cnt_id o E' = cnt_id o E /\ cnt_wr o W' = cnt_wr o W) ->
    obj_okN K b (refs m a + cnt_id a E') (wrefs m a + cnt_wr a W') (inD m a) (f x) = true ->
    ObjXp K (inD m a) (st_dropping m') (f x) ->
    (forall h c, hloc m h c a -> LocOk m' h c a) ->
    (forall c t, hloc m (Some a) c t -> LocOk m' (Some a) c t) ->
    (forall t, t ∈ E' -> (t <> a /\ t ∈ E) \/ (t = a /\ o_box (f x) = BAlloc)) ->
    (a ∈ pc m -> o_box (f x) = BAlloc /\ o_vst (f x) = VLive /\ h_mark (o_hdr (f x)) = PC) ->
    (forall v, values m !! v = Some (Some a) -> o_box (f x) = BFreed /\ o_vst (f x) = VMoved) ->
    ((get m0 a = None /\ inD m a = false) \/
     (ObjFr E0 ex m m' a x (f x) /\
      (k_weak K = true -> inD m a = true -> o_box (f x) = BAlloc ->
         is_dropped (o_hdr (f x)) = false -> o_box x = BAlloc /\ is_dropped (o_hdr x) = false))) ->
    Cur K b n E0 ex m0 E' W' m'.
  Proof.
    intros C Hx Hh He Hsd Hnb Fm Ff Fc Fw Hcnt Hok Hox HL1 HL2 HE Hpc Hv HF.
    pose proof (cur_inv _ _ _ _ _ _ _ _ _ C) as HI.
    pose proof He as (_ & _ & _ & Hwpm & _ & _ & _ & Hd & _ & Hcol).
    destruct C as [C1 C2 C3 C4]. split.
    - exact Hnb.
    - eapply SInv_status; eauto.
    - eapply Fr_step_alter; eauto. destruct HF as [HF|[HF1 HF2]]; [left; exact HF|right]. split.
      + intros y Hy. assert (y = x) by congruence. subst y. exact HF1.
      + intros Hk y Hy. assert (y = x) by congruence. subst y. auto.
    - intros Hn o y Hy Hi Hi0. rewrite (inD_eq _ _ _ Hd) in Hi.
      assert (Hget : forall o, get m' o = if decide (a = o) then f <$> get m o else get m o)
        by (intros; apply get_alter, Hh).
      rewrite Hget in Hy. destruct (decide (a = o)) as [->|Hne].
      + rewrite Hx in Hy. cbn in Hy. injection Hy as <-.
        pose proof (C4 Hn o x Hx Hi Hi0) as Hvd.
        destruct HF as [[_ Hf]|[HF1 _]]; [congruence|]. apply HF1, Hvd.
      + apply (C4 Hn o y Hy Hi Hi0).
  Qed.

  Lemma LocOk_holder m m' a c t x x' :
    get m a = Some x -> get m' a = Some x' -> o_vst x' = o_vst x ->
    (forall o, o <> a -> get m' o = get m o) -> dead m' = dead m -> t <> a ->
    LocOk m (Some a) c t -> LocOk m' (Some a) c t.
  Proof.
    intros Hx Hx' Hv Hg Hd Hne (xt & Hxt & Hb & Hc & Hm). exists xt. rewrite (Hg t Hne).
    split; [exact Hxt|]. split; [exact Hb|]. split; [exact Hc|].
    intros xp Hp. assert (xp = x') by congruence. subst xp. rewrite !(inD_eq _ _ _ Hd), Hv. apply Hm, Hx.
  Qed.
End Status2.

Section Status3.
  Context (K : conf).
  Implicit Types (m : machine) (o : id) (x : obj).

  Lemma hloc_none_of_refs m h c o : refs m o = 0%nat -> hloc m h c o -> False.
  Proof. intros H Hl. apply hloc_refs_pos in Hl. lia. Qed.

  (** CcBox::new: the box of a fresh value is allocated; the new handle is in flight *)
  Lemma Cur_box_alloc b n E0 ex m0 E W m o x :
    Cur K b n E0 ex m0 E W m -> get m o = Some x -> o_box x = BNotYet -> o_side x = None ->
    o_vst x = VLive -> get m0 o = None ->
    Cur K b n E0 ex m0 (o :: E) W (box_alloc K o m).
  Proof.
    intros C Hx Hb Hs Hv Hfresh. pose proof (cur_inv _ _ _ _ _ _ _ _ _ C) as HI.
    pose proof (sv_obj _ _ _ _ _ HI _ _ Hx) as Hok. apply okN_notyet in Hok; [|exact Hb].
    destruct Hok as [Hnr Hnw].
    destruct (sv_objx _ _ _ _ _ HI _ _ Hx) as [X1 X2 X3 X4 X5 X6].
    assert (Hi : inD m o = false).
    { destruct (inD m o) eqn:Ei; [|reflexivity]. destruct (X6 eq_refl) as [? _]. congruence. }
    assert (Hr0 : refs m o = 0%nat) by lia. assert (He0 : cnt_id o E = 0%nat) by lia.
    unfold box_alloc. rewrite Hx. destruct (box_layout K x) as [sz al].
    set (f := fun x : obj => x <| o_box := BAlloc |> <| o_hdr := hdr_new (k_fin K && st_finalizing m) |>).
    eapply (Cur_status K b n E0 ex m0 E W (o :: E) W m _ o f x C Hx); try reflexivity.
    - repeat split.
    - auto.
    - apply NoBad_emit. split; [reflexivity|]. eapply NoBad_log; [reflexivity | apply C].
    - intros o' Hne. split; [apply cnt_id_cons_ne; congruence | reflexivity].
    - apply okN_alloc_intro; [reflexivity|]. unfold OkAlloc, f, dying, is_live, is_dropped. cbn.
      rewrite Hs, Hv, cnt_id_cons_eq, He0, Hr0. cbn.
      repeat split; try discriminate; try lia; auto; try (unfold max_rc; lia).
      destruct (k_weak K); [split|]; discriminate.
    - unfold f. split; cbn; rewrite ?Hv, ?Hi; try discriminate; auto.
      unfold dying. cbn. rewrite Hv. discriminate.
    - intros h c Hl. exfalso. eapply hloc_none_of_refs; eauto.
    - intros c t Hl. assert (t <> o) by (intros ->; eapply hloc_none_of_refs; eauto).
      eapply (LocOk_holder m _ o c t x (f x)); try reflexivity; auto.
      + match goal with |- get ?mm _ = _ => rewrite (get_alter m mm o f o) by reflexivity end.
        rewrite decide_True, Hx by reflexivity. reflexivity.
      + intros o' Hne. match goal with |- get ?mm _ = _ => rewrite (get_alter m mm o f o') by reflexivity end.
        rewrite decide_False by congruence. reflexivity.
      + apply (sv_loc _ _ _ _ _ HI _ _ _ Hl).
    - intros t Ht. apply elem_of_cons in Ht as [->|Ht]; [right; auto|left]. split; [|exact Ht].
      intros ->. apply cnt_id_zero in He0. contradiction.
    - intros Hin. destruct (sv_pc _ _ _ _ _ HI _ Hin) as (y & Hy & Hby & _). congruence.
    - intros v Hvl. destruct (sv_values _ _ _ _ _ HI _ _ Hvl) as [(y & Hy & Hby & _) _]. congruence.
    - left. auto.
  Qed.
End Status3.

Section Status4.
  Context (K : conf).
  Implicit Types (m : machine) (o : id) (x : obj).

  Lemma get_alter_eq m m' a f x : heap m' = alter f a (heap m) -> get m a = Some x -> get m' a = Some (f x).
  Proof. intros Hh Hx. rewrite (get_alter _ _ _ _ a Hh), decide_True, Hx by reflexivity. reflexivity. Qed.
  Lemma get_alter_ne m m' a f o : heap m' = alter f a (heap m) -> o <> a -> get m' o = get m o.
  Proof. intros Hh Hne. rewrite (get_alter _ _ _ _ o Hh), decide_False by congruence. reflexivity. Qed.

  (** the value of a droppable object starts being destroyed *)
  Lemma Cur_vst_dropping b n E0 m0 E W m o :
    Cur K b n E0 (Some o) m0 E W m -> droppable K E m o ->
    Cur K b n E0 (Some o) m0 E W (upd o (fun x => x <| o_vst := VDropping |>) m).
  Proof.
    intros C (x & Hx & He0 & Hdr). pose proof (cur_inv _ _ _ _ _ _ _ _ _ C) as HI.
    pose proof (sv_obj _ _ _ _ _ HI _ _ Hx) as Hok.
    destruct (sv_objx _ _ _ _ _ HI _ _ Hx) as [X1 X2 X3 X4 X5 X6].
    set (f := fun x : obj => x <| o_vst := VDropping |>).
    (* facts by case on the box *)
    assert (Hfacts :
      obj_okN K b (refs m o + cnt_id o E) (wrefs m o + cnt_wr o W) (inD m o) (f x) = true /\
      (o_box x = BAlloc -> inD m o = false -> h_rc (o_hdr x) = 0) /\
      (inD m o = false -> refs m o = 0%nat) /\
      (inD m o = true -> fields_marked m x) /\
      o ∉ pc m /\ (forall v, values m !! v <> Some (Some o)) /\
      (o_vst x = VLive \/ o_vst x = VMoved)).
    { destruct (o_box x) eqn:Eb.
      - apply okN_notyet in Hok; [|exact Eb]. destruct Hok as [Hnr Hnw].
        assert (Hi : inD m o = false).
        { destruct (inD m o) eqn:Ei; [|reflexivity]. destruct (X6 eq_refl) as [? _]. congruence. }
        repeat split; auto; try congruence; try lia.
        + apply okN_notyet; [exact Eb|]. auto.
        + intros Hin. destruct (sv_pc _ _ _ _ _ HI _ Hin) as (y & Hy & Hby & _). congruence.
        + intros v Hv. destruct (sv_values _ _ _ _ _ HI _ _ Hv) as [(y & Hy & Hby & _) _]. congruence.
      - destruct Hdr as (Hv & Hd & Hcase).
        destruct (okN_alloc K _ _ _ _ _ Hok Eb) as (O1 & O2 & O3 & O4 & O5 & O6).
        assert (Hok' : obj_okN K b (refs m o + cnt_id o E) (wrefs m o + cnt_wr o W) (inD m o) (f x) = true).
        { apply okN_alloc_intro; [exact Eb|]. unfold OkAlloc, f, dying, is_live in *. cbn. rewrite Hv in *.
          repeat split; auto; try discriminate.
          destruct (k_weak K); [|auto]. destruct O4 as [_ O4]. split; auto. }
        destruct Hcase as [(Hr & Hi & Hp)|(Hi & Hfm)].
        + repeat split; auto; try congruence.
          * intros _. lia.
          * intros v Hvl. destruct (sv_values _ _ _ _ _ HI _ _ Hvl) as [(y & Hy & Hby & _) _]. congruence.
        + repeat split; auto; try congruence.
          * intros Hin. destruct (sv_pc _ _ _ _ _ HI _ Hin) as (y & Hy & _ & _ & Hi' & _). congruence.
          * intros v Hvl. destruct (sv_values _ _ _ _ _ HI _ _ Hvl) as [(y & Hy & Hby & _) _]. congruence.
      - destruct Hdr as (Hv & Hvals). pose proof Hok as Hok0. apply okN_freed in Hok; [|exact Eb].
        destruct Hok as (Hnr & Hl & Hsd).
        assert (Hi : inD m o = false).
        { destruct (inD m o) eqn:Ei; [|reflexivity]. destruct (X6 eq_refl) as (_ & ? & _). congruence. }
        repeat split; auto; try congruence; try lia.
        + apply okN_freed; [exact Eb|]. unfold OkFreed, f, is_live. cbn. auto.
        + intros Hin. destruct (sv_pc _ _ _ _ _ HI _ Hin) as (y & Hy & Hby & _). congruence. }
    destruct Hfacts as (Hok' & Hrc & Hr0 & Hfm & Hnpc & Hnv & Hvst).
    eapply (Cur_status K b n E0 (Some o) m0 E W E W m _ o f x C Hx); try reflexivity.
    - apply ext_eq_upd.
    - auto.
    - eapply NoBad_log; [reflexivity | apply C].
    - auto.
    - exact Hok'.
    - unfold f. split; cbn; auto; try discriminate.
      intros Hi. destruct (X6 Hi) as (? & ? & ?). repeat split; auto; discriminate.
    - (* locations pointing to o *)
      intros h c Hl. destruct (inD m o) eqn:Hi; [|exfalso; eapply hloc_none_of_refs; eauto].
      destruct (sv_loc _ _ _ _ _ HI _ _ _ Hl) as (xt & Hxt & Hbt & Hct & Hm).
      assert (xt = x) by congruence. subst xt.
      exists (f x). split; [apply get_upd_eq, Hx|]. split; [exact Hbt|]. split; [exact Hct|].
      destruct h as [p|]; [|destruct Hm; congruence].
      intros xp' Hp'. change (inD (upd o f m) ?z) with (inD m z).
      destruct (decide (p = o)) as [->|Hne].
      + rewrite (get_upd_eq _ _ _ _ Hx) in Hp'. injection Hp' as <-. split; [cbn; discriminate|].
        intros _. split; [exact Hi|]. split; [cbn; discriminate|]. intros _.
        change (marked (f x)) with (marked x). rewrite <- (marked_at_get _ _ _ Hx). apply (Hfm eq_refl o); [|exact Hi].
        inversion Hl; subst; match goal with H : get m o = Some ?y |- _ => assert (y = x) by congruence; subst y end; eauto.
      + rewrite get_upd_ne in Hp' by congruence. destruct (Hm xp' Hp') as [M1 M2]. split.
        * intros Hlv Hnd. destruct (M1 Hlv Hnd). congruence.
        * intros _. destruct (M2 Hi) as (? & ? & ?). auto.
    - (* locations held by o *)
      intros c t Hl. destruct (sv_loc _ _ _ _ _ HI _ _ _ Hl) as (xt & Hxt & Hbt & Hct & Hm).
      destruct (Hm x Hx) as [M1 M2].
      assert (Hxt' : exists xt', get (upd o f m) t = Some xt' /\ o_box xt' = BAlloc /\ (c = false -> o_ismap xt' = false) /\ marked xt' = marked xt).
      { destruct (decide (t = o)) as [->|Hne].
        - assert (xt = x) by congruence. subst xt. exists (f x). rewrite (get_upd_eq _ _ _ _ Hx). auto.
        - exists xt. rewrite get_upd_ne by congruence. auto. }
      destruct Hxt' as (xt' & Hxt' & Hbt' & Hct' & Hmk).
      exists xt'. split; [exact Hxt'|]. split; [exact Hbt'|]. split; [exact Hct'|].
      intros xp' Hp'. rewrite (get_upd_eq _ _ _ _ Hx) in Hp'. injection Hp' as <-.
      change (inD (upd o f m) ?z) with (inD m z). split; [cbn; discriminate|].
      intros Hit. destruct (M2 Hit) as (Hio & _ & _). split; [exact Hio|]. split; [cbn; discriminate|].
      intros _. rewrite Hmk, <- (marked_at_get _ _ _ Hxt). apply (Hfm Hio t); [|exact Hit].
      inversion Hl; subst; match goal with H : get m o = Some ?y |- _ => assert (y = x) by congruence; subst y end; eauto.
    - intros t Ht. left. split; [|exact Ht]. intros ->. apply cnt_id_zero in He0. contradiction.
    - intros Hin. contradiction.
    - intros v Hv. destruct (Hnv v Hv).
    - right. split.
      + unfold f. split; cbn; auto; try congruence;
          try (destruct Hvst as [H|H]; rewrite H; discriminate).
      + intros Hk Hi Hb Hd. cbn in *. auto.
  Qed.
End Status4.

Section Status5.
  Context (K : conf).
  Implicit Types (m : machine) (o : id) (x : obj).

  (** the destruction of the value of [o] is complete (all its handle fields are empty) *)
  Lemma Cur_vst_dropped b n E0 m0 E W m o x :
    Cur K b n E0 (Some o) m0 E W m -> get m o = Some x -> o_vst x = VDropping ->
    (forall j t, o_fields x !! j = Some (Some t) -> False) -> o_cleaner x = None ->
    Cur K b n E0 (Some o) m0 E W (upd o (fun x => x <| o_vst := VDropped |>) m).
  Proof.
    intros C Hx Hv Hnf Hnc. pose proof (cur_inv _ _ _ _ _ _ _ _ _ C) as HI.
    pose proof (sv_obj _ _ _ _ _ HI _ _ Hx) as Hok.
    destruct (sv_objx _ _ _ _ _ HI _ _ Hx) as [X1 X2 X3 X4 X5 X6].
    set (f := fun x : obj => x <| o_vst := VDropped |>).
    assert (Hnoloc : forall c t, hloc m (Some o) c t -> False).
    { intros c t Hl. inversion Hl; subst; match goal with H : get m o = Some ?y |- _ => assert (y = x) by congruence; subst y end.
      - eapply Hnf; eauto.
      - congruence. }
    eapply (Cur_status K b n E0 (Some o) m0 E W E W m _ o f x C Hx); try reflexivity.
    - apply ext_eq_upd.
    - auto.
    - eapply NoBad_log; [reflexivity | apply C].
    - auto.
    - unfold obj_okN, f, is_live in *. cbn. rewrite Hv in Hok. exact Hok.
    - unfold f, dying in *. split; cbn; rewrite ?Hv in *; auto; try discriminate.
      intros Hi. destruct (X6 Hi) as (? & ? & ?). repeat split; auto; discriminate.
    - intros h c Hl. destruct (sv_loc _ _ _ _ _ HI _ _ _ Hl) as (xt & Hxt & Hbt & Hct & Hm).
      assert (xt = x) by congruence. subst xt.
      exists (f x). split; [apply get_upd_eq, Hx|]. split; [exact Hbt|]. split; [exact Hct|].
      destruct h as [p|]; [|destruct Hm; congruence].
      intros xp' Hp'. change (inD (upd o f m) ?z) with (inD m z).
      destruct (decide (p = o)) as [->|Hne]; [exfalso; eapply Hnoloc; eauto|].
      rewrite get_upd_ne in Hp' by congruence. destruct (Hm xp' Hp') as [M1 M2]. split.
      + intros Hlv Hnd. destruct (M1 Hlv Hnd). congruence.
      + exact M2.
    - intros c t Hl. exfalso. eapply Hnoloc; eauto.
    - intros t Ht. destruct (decide (t = o)) as [->|Hne]; [right|left; auto]. split; [reflexivity|].
      destruct (sv_E _ _ _ _ _ HI _ Ht) as (y & Hy & Hby). assert (y = x) by congruence. subst y. exact Hby.
    - intros Hin. destruct (sv_pc _ _ _ _ _ HI _ Hin) as (y & Hy & _ & Hvy & _). congruence.
    - intros v Hvl. destruct (sv_values _ _ _ _ _ HI _ _ Hvl) as [(y & Hy & _ & Hvy) _]. congruence.
    - right. split.
      + unfold f. split; cbn; auto; try congruence.
      + intros Hk Hi Hb Hd. cbn in *. auto.
  Qed.

  (** what drop_metadata leaves in the side-record field *)
  Definition side_after (x : obj) : option side :=
    if k_weak K then
      if h_side (o_hdr x) then
        match o_side x with
        | Some s => if w_cnt (sd_wk s) =? 0 then Some (Side (sd_wk s) true)
                    else Some (Side (set_acc false (sd_wk s)) (sd_freed s))
        | None => None
        end
      else o_side x
    else o_side x.

  Lemma alter_ext_at {A} (g f : A -> A) (a : nat) (h : list A) (z : A) :
    h !! a = Some z -> g z = f z -> alter g a h = alter f a h.
  Proof.
    revert a. induction h as [|y h IH]; intros [|a] Hz Hg; cbn in *; try discriminate.
    - injection Hz as ->. rewrite Hg. reflexivity.
    - f_equal. apply IH; auto.
  Qed.

  Lemma drop_metadata_shape m o x :
    get m o = Some x -> NoBad m ->
    (k_weak K = true -> h_side (o_hdr x) = true -> exists s, o_side x = Some s /\ sd_freed s = false) ->
    exists g, heap (drop_metadata K o m) = alter g o (heap m) /\ g x = x <| o_side := side_after x |> /\
              ext_eq m (drop_metadata K o m) /\ st_dropping (drop_metadata K o m) = st_dropping m /\
              st_alloc (drop_metadata K o m) = st_alloc m /\ NoBad (drop_metadata K o m).
  Proof.
    intros Hx HNB Hs. unfold drop_metadata, side_after. destruct (k_weak K) eqn:Hk; cbn [negb].
    - rewrite Hx. destruct (h_side (o_hdr x)) eqn:Hsd.
      + destruct (Hs eq_refl eq_refl) as (s & Es & Hf). destruct s as [wk0 fr0]. cbn in Hf. subst fr0.
        rewrite Es. cbn [sd_freed sd_wk].
        destruct (w_cnt wk0 =? 0) eqn:Ez.
        * unfold sfree. rewrite Hx, Es. cbn [sd_freed sd_wk].
          exists (fun y => y <| o_side := Some (Side wk0 true) |>).
          split; [reflexivity|]. split; [reflexivity|]. split; [repeat split|]. split; [reflexivity|].
          split; [reflexivity|]. apply NoBad_emit. split; [reflexivity | exact HNB].
        * unfold uside.
          exists (fun y => y <| o_side ::= fmap (fun s => Side (set_acc false (sd_wk s)) (sd_freed s)) |>).
          split; [reflexivity|]. split.
          { destruct x. cbn in *. subst. reflexivity. }
          split; [repeat split|]. split; [reflexivity|]. split; [reflexivity | exact HNB].
      + exists (fun y => y). rewrite alter_id_eq. split; [reflexivity|]. split.
        { destruct x; reflexivity. }
        split; [apply ext_eq_refl|]. auto.
    - exists (fun y => y). rewrite alter_id_eq. split; [reflexivity|]. split.
      { destruct x; reflexivity. }
      split; [apply ext_eq_refl|]. auto.
  Qed.

  (** drop_metadata + cc_dealloc of a box nobody points to *)
  Lemma Cur_free b n E0 ex m0 E W m o x :
    Cur K b n E0 ex m0 E W m -> get m o = Some x -> o_box x = BAlloc ->
    (refs m o + cnt_id o E = 0)%nat -> is_live x = false -> o_vst x <> VDropping ->
    ((get m0 o = None /\ inD m o = false) \/
     (o_vst x <> VUninit /\ cnt_id o E0 = 0%nat /\ marked x = false) \/ ex = Some o) ->
    Cur K b n E0 ex m0 E W (dealloc K o (drop_metadata K o m)).
  Proof.
    intros C Hx Hb Hz Hl Hvd Hunp. pose proof (cur_inv _ _ _ _ _ _ _ _ _ C) as HI.
    pose proof (sv_obj _ _ _ _ _ HI _ _ Hx) as Hok.
    destruct (okN_alloc K _ _ _ _ _ Hok Hb) as (O1 & O2 & O3 & O4 & O5 & O6).
    destruct (sv_objx _ _ _ _ _ HI _ _ Hx) as [X1 X2 X3 X4 X5 X6].
    set (f := fun y : obj => y <| o_side := side_after x |> <| o_box := BFreed |>).
    destruct (drop_metadata_shape m o x Hx (cur_nb _ _ _ _ _ _ _ _ _ C)) as (g & Hh1 & Hg & He1 & Hd1 & Ha1 & Hnb1).
    { intros Hk Hs. destruct (o_side x) as [s|]; [|destruct O5; congruence]. destruct O5 as (_ & ? & _). eauto. }
    set (m1 := drop_metadata K o m) in *.
    assert (Hx1 : get m1 o = Some (x <| o_side := side_after x |>)).
    { rewrite (get_alter_eq m m1 o g x Hh1 Hx), Hg. reflexivity. }
    (* the shape of dealloc *)
    assert (Hshape : heap (dealloc K o m1) = alter f o (heap m) /\ ext_eq m (dealloc K o m1) /\
                     st_dropping (dealloc K o m1) = st_dropping m /\ NoBad (dealloc K o m1)).
    { unfold dealloc. rewrite Hx1. destruct (box_layout K _) as [sz al].
      change (o_box (x <| o_side := side_after x |>)) with (o_box x). rewrite Hb.
      match goal with |- context [if ?c then _ else _] => destruct c end.
      - split; [|split; [|split]].
        + cbn. rewrite Hh1, <- (list_alter_compose (fun y => y <| o_box := BFreed |>) g).
          eapply alter_ext_at; [exact Hx|]. cbn. rewrite Hg. reflexivity.
        + destruct He1 as (? & ? & ? & ? & ? & ? & ? & ? & ? & ?). repeat split; assumption.
        + exact Hd1.
        + apply NoBad_emit. split; [reflexivity|]. apply NoBad_emit. split; [reflexivity | exact Hnb1].
      - split; [|split; [|split]].
        + cbn. rewrite Hh1, <- (list_alter_compose (fun y => y <| o_box := BFreed |>) g).
          eapply alter_ext_at; [exact Hx|]. cbn. rewrite Hg. reflexivity.
        + destruct He1 as (? & ? & ? & ? & ? & ? & ? & ? & ? & ?). repeat split; assumption.
        + exact Hd1.
        + apply NoBad_emit. split; [reflexivity | exact Hnb1]. }
    destruct Hshape as (Hh & He & Hsd & Hnb).
    assert (Hr0 : refs m o = 0%nat) by lia. assert (He0 : cnt_id o E = 0%nat) by lia.
    eapply (Cur_status K b n E0 ex m0 E W E W m _ o f x C Hx Hh He); try reflexivity.
    - rewrite Hsd. auto.
    - exact Hnb.
    - auto.
    - apply okN_freed; [reflexivity|]. unfold OkFreed, f, side_after, is_live in *. cbn.
      split; [lia|]. split; [exact Hl|].
      destruct (k_weak K) eqn:Hk.
      + destruct (o_side x) as [s|] eqn:Es.
        * destruct O5 as (S1 & S2 & S3 & S4 & S5). rewrite S1.
          destruct (w_cnt (sd_wk s) =? 0) eqn:Ez; cbn.
          -- apply N.eqb_eq in Ez. lia.
          -- rewrite S2. apply N.eqb_neq in Ez. repeat split; auto.
        * destruct O5 as [S1 S2]. rewrite S1. exact S2.
      + rewrite (X4 eq_refl) in *. destruct O5. assumption.
    - unfold f. split; cbn; auto; try discriminate.
      + intros Hk. unfold side_after. rewrite Hk. auto.
      + intros Hi. destruct (X6 Hi) as (? & ? & ?). repeat split; auto; discriminate.
    - intros h c Hlc. exfalso. eapply hloc_none_of_refs; eauto.
    - intros c t Hlc. assert (t <> o) by (intros ->; eapply hloc_none_of_refs; eauto).
      eapply (LocOk_holder m _ o c t x (f x)); try reflexivity; auto.
      + eapply get_alter_eq; eauto.
      + intros o' Hne. eapply get_alter_ne; eauto.
      + apply He.
      + apply (sv_loc _ _ _ _ _ HI _ _ _ Hlc).
    - intros t Ht. left. split; [|exact Ht]. intros ->. apply cnt_id_zero in He0. contradiction.
    - intros Hin. destruct (sv_pc _ _ _ _ _ HI _ Hin) as (y & Hy & _ & Hvy & _). unfold is_live in Hl.
      assert (y = x) by congruence. subst y. rewrite Hvy in Hl. discriminate.
    - intros v Hvl. destruct (sv_values _ _ _ _ _ HI _ _ Hvl) as [(y & Hy & Hby & _) _]. congruence.
    - destruct Hunp as [Hf|Hunp]; [left; exact Hf|right]. split.
      + unfold f. split; cbn; auto; try congruence.
        * intros Hex Hvu _. destruct Hunp as [(Hnu & _)|Hex']; congruence.
        * intros Hex _ [Hp|[Hm _]]; destruct Hunp as [(_ & Hc & Hnm)|Hex']; try congruence; lia.
      + intros Hk Hi Hb' _. cbn in Hb'. discriminate.
  Qed.
End Status5.

(** ** Moving Weak handles between locations *)
Definition olw (a : option wref) : list wref := match a with Some t => [t] | None => [] end.
Lemma cnt_wr_olw o a : cnt_wr o (olw a) = b2n (eqb_wref a o).
Proof. destruct a as [t|]; [|reflexivity]. unfold olw. rewrite cnt_wr_cons.
  destruct (eqb_wref (Some t) o); reflexivity. Qed.
Lemma cnt_wr_app o W1 W2 : cnt_wr o (W1 ++ W2) = (cnt_wr o W1 + cnt_wr o W2)%nat.
Proof. unfold cnt_wr. rewrite map_app. apply cnt_w_app. Qed.

Section WMove.
  Context (K : conf).
  Implicit Types (m : machine) (o : id) (x : obj).

  Lemma SInv_wmove b E W W' m m' a f (ex : option id) :
    SInv K b E W m ->
    heap m' = alter f a (heap m) ->
    slots m' = slots m -> bag m' = bag m -> values m' = values m ->
    pc m' = pc m -> dead m' = dead m -> pc_alive m' = pc_alive m ->
    st_dropping m' = st_dropping m -> length (wslots m') = length (wslots m) ->
    length (cslots m') = length (cslots m) ->
    (forall x, get m a = Some x ->
       o_hdr (f x) = o_hdr x /\ o_vst (f x) = o_vst x /\ o_box (f x) = o_box x /\ o_side (f x) = o_side x /\
       o_cls (f x) = o_cls x /\ o_ismap (f x) = o_ismap x /\ o_fields (f x) = o_fields x /\
       o_cleaner (f x) = o_cleaner x /\
       (o_ismap x = true -> o_wfields (f x) = []) /\
       (f x = x \/ ((o_box x <> BNotYet \/ o_vst x = VDropping) /\ (o_vst x <> VUninit \/ ex = Some a)))) ->
    (forall o, wrefs m' o + cnt_wr o W' = wrefs m o + cnt_wr o W)%nat ->
    (forall i w, wslots m' !! i = Some w -> (exists i', wslots m !! i' = Some w) \/ wnomap m w) ->
    (forall w, w ∈ wparam m' -> w ∈ wparam m \/ wnomap m (Some w)) ->
    (forall x j w, get m a = Some x -> o_wfields (f x) !! j = Some w ->
       (exists j', o_wfields x !! j' = Some w) \/ wnomap m w) ->
    SInv K b E W' m'.
  Proof.
    intros HI Hh Hs Hb Hv Hpc Hd Hal Hsd Hls Hlc Hf Hwr Hw1 Hw2 Hw3.
    assert (HR : forall o, refs m' o = refs m o).
    { intros o. eapply refs_alter_same; eauto. intros y Hy. destruct (Hf y Hy) as (_ & _ & _ & _ & _ & _ & F7 & F8 & _). auto. }
    eapply (SInv_alter K b E W E W' m m' a f HI).
      + exact Hh.
      + exact Hd.
      + exact Hal.
      + exact Hv.
      + rewrite Hsd. auto.
      + rewrite Hs. reflexivity.
      + exact Hls.
      + exact Hlc.
      + intros y Hy. destruct (Hf y Hy) as (F1 & F2 & F3 & F4 & F5 & F6 & _).
        unfold same_st, marked. rewrite F1. auto.
      + intros o _. rewrite HR. auto.
      + intros y Hy. destruct (Hf y Hy) as (F1 & F2 & F3 & F4 & F5 & F6 & F7 & F8 & F9 & _).
        rewrite HR, Hwr, Hsd. split.
        * rewrite (okN_ext K b _ _ _ y (f y) F1 F2 F3 F4). apply (sv_obj _ _ _ _ _ HI), Hy.
        * destruct (sv_objx _ _ _ _ _ HI _ _ Hy) as [X1 X2 X3 X4 X5 X6].
          split; unfold dying in *; rewrite ?F1, ?F2, ?F3, ?F4, ?F6, ?F7, ?F8; auto.
          intros Hm. destruct (X5 Hm) as (-> & -> & _). rewrite (F9 Hm). auto.
      + intros h c t Hl. left. eapply hloc_alter_same; eauto.
        intros y Hy. destruct (Hf y Hy) as (_ & _ & _ & _ & _ & _ & F7 & F8 & _). auto.
      + auto.
      + intros t Ht. rewrite Hpc in Ht. left. split; [exact Ht|]. intros y -> Hy.
        destruct (Hf y Hy) as (F1 & _). rewrite F1.
        destruct (sv_pc _ _ _ _ _ HI _ Ht) as (z & Hz & _ & _ & _ & Hm). congruence.
      + exact Hw1.
      + exact Hw2.
      + exact Hw3.
  Qed.

  Lemma Cur_wmove b n E0 ex m0 E W W' m m' a f :
    Cur K b n E0 ex m0 E W m ->
    heap m' = alter f a (heap m) ->
    slots m' = slots m -> bag m' = bag m -> values m' = values m -> wparam m' = wparam m ->
    pc m' = pc m -> dead m' = dead m -> pc_alive m' = pc_alive m -> st_collecting m' = st_collecting m ->
    st_dropping m' = st_dropping m -> length (wslots m') = length (wslots m) ->
    length (cslots m') = length (cslots m) -> NoBad m' ->
    (forall x, get m a = Some x ->
       o_hdr (f x) = o_hdr x /\ o_vst (f x) = o_vst x /\ o_box (f x) = o_box x /\ o_side (f x) = o_side x /\
       o_cls (f x) = o_cls x /\ o_ismap (f x) = o_ismap x /\ o_fields (f x) = o_fields x /\
       o_cleaner (f x) = o_cleaner x /\
       (o_ismap x = true -> o_wfields (f x) = []) /\
       (f x = x \/ ((o_box x <> BNotYet \/ o_vst x = VDropping) /\ (o_vst x <> VUninit \/ ex = Some a)))) ->
    (forall o, wrefs m' o + cnt_wr o W' = wrefs m o + cnt_wr o W)%nat ->
    (forall i w, wslots m' !! i = Some w -> (exists i', wslots m !! i' = Some w) \/ wnomap m w) ->
    (forall w, w ∈ wparam m' -> w ∈ wparam m \/ wnomap m (Some w)) ->
    (forall x j w, get m a = Some x -> o_wfields (f x) !! j = Some w ->
       (exists j', o_wfields x !! j' = Some w) \/ wnomap m w) ->
    Cur K b n E0 ex m0 E W' m'.
  Proof.
    intros C Hh Hs Hb Hv Hwp Hpc Hd Hal Hcol Hsd Hls Hlc Hnb Hf Hwr Hw1 Hw2 Hw3.
    pose proof (cur_inv _ _ _ _ _ _ _ _ _ C) as HI.
    eapply Cur_step; [exact C | exact Hnb | | | exact Hd].
    - eapply (SInv_wmove b E W W' m m' a f ex HI); eassumption.
    - eapply (Fr_alter K E0 ex m m' a f); [exact Hh | exact Hd | exact Hcol | exact Hwp | |].
      + intros y Hy. destruct (Hf y Hy) as (F1 & F2 & F3 & F4 & F5 & F6 & F7 & F8 & F9 & F10).
        assert (HD : forall o, inD m' o = true -> inD m o = true) by (intros o; rewrite (inD_eq _ _ _ Hd); auto).
        split; try congruence; auto.
        * intros Hb' Hnv Hex. destruct F10 as [Q|[[Q|Q] _]]; [exact Q | congruence | congruence].
        * intros Hvd _. repeat split; auto; congruence.
        * intros Hex Qv Qb. destruct F10 as [Q|[_ [Q|Q]]]; [rewrite Q; auto | congruence | congruence].
        * unfold marked. rewrite F1. auto.
        * intros _ Hb' _. unfold marked. rewrite F1. repeat split; auto; congruence.
      + intros Hk y Hy Hi Hb' Hdr. destruct (Hf y Hy) as (F1 & F2 & F3 & _). rewrite F1 in Hdr. split; congruence.
  Qed.
End WMove.

Definition widx_valid (m : machine) (r : rwloc) : Prop :=
  match r with
  | RWSlot i => (i < length (wslots m))%nat
  | RWField p j => exists x, get m p = Some x /\ (j < length (o_wfields x))%nat /\
                             (o_box x <> BNotYet \/ o_vst x = VDropping) /\ o_vst x <> VUninit
  | RWParam => False
  end.

Lemma wslots_upd o f m : wslots (upd o f m) = wslots m. Proof. reflexivity. Qed.
Lemma wparam_upd o f m : wparam (upd o f m) = wparam m. Proof. reflexivity. Qed.
Lemma cslots_upd o f m : cslots (upd o f m) = cslots m. Proof. reflexivity. Qed.

Lemma wrefs_upd m p f x o :
  get m p = Some x ->
  (wrefs (upd p f m) o + cnt_w o (o_wfields x) = wrefs m o + cnt_w o (o_wfields (f x)))%nat.
Proof.
  intros Hx. rewrite !wrefs_unfold, heap_upd, wslots_upd, wparam_upd, cslots_upd.
  pose proof (hsum_alter (fun x => cnt_w o (o_wfields x)) f p (heap m) x Hx). cbv beta in H.
  unfold Machine.id in *. lia.
Qed.

Section WMoveInst.
  Context (K : conf).
  Implicit Types (m : machine) (o : id) (x : obj).

  Lemma Cur_write_wfield b n E0 ex m0 E W m p j v x :
    Cur K b n E0 ex m0 E (olw v ++ W) m -> get m p = Some x -> (j < length (o_wfields x))%nat ->
    (o_box x <> BNotYet \/ o_vst x = VDropping) -> (o_vst x <> VUninit \/ ex = Some p) -> wnomap m v ->
    Cur K b n E0 ex m0 E (olw (read_wloc (RWField p j) m) ++ W) (write_wloc (RWField p j) v m).
  Proof.
    intros C Hx Hj Hny Hnu Hnm. pose proof (cur_inv _ _ _ _ _ _ _ _ _ C) as HI.
    destruct (lookup_lt_is_Some_2 _ _ Hj) as [a Ha].
    assert (Hr : read_wloc (RWField p j) m = a) by (cbn; rewrite Hx; cbn; rewrite Ha; reflexivity). rewrite Hr.
    eapply (Cur_wmove K b n E0 ex m0 E (olw v ++ W) (olw a ++ W) m _ p _ C); try reflexivity.
    + eapply NoBad_log; [reflexivity | apply C].
    + intros y Hy. assert (y = x) by congruence. subst y.
      destruct (sv_objx _ _ _ _ _ HI _ _ Hx) as [_ _ _ _ X5 _]. cbn. repeat split; auto.
      intros Hm. destruct (X5 Hm) as (_ & _ & Hw). rewrite Hw in Hj. cbn in Hj. lia.
    + intros o. rewrite !cnt_wr_app, !cnt_wr_olw. cbn [write_wloc].
      pose proof (wrefs_upd m p (fun x => x <| o_wfields ::= <[j:=v]> |>) x o Hx) as H1. cbv beta in H1.
      change (o_wfields (x <| o_wfields ::= <[j:=v]> |>)) with (<[j:=v]> (o_wfields x)) in H1.
      pose proof (cnt_w_insert o _ _ _ v Ha) as Hc. unfold b2n.
      destruct (eqb_wref a o), (eqb_wref v o); lia.
    + intros i' w Hi'. eauto.
    + auto.
    + intros y j' w Hy Hj'. assert (y = x) by congruence. subst y. cbn in Hj'.
      apply lookup_insert_Some_inv in Hj' as [[-> ->]|[Hne Hj']]; eauto.
  Qed.

  Lemma Cur_write_wloc b n E0 ex m0 E W m r v :
    Cur K b n E0 ex m0 E (olw v ++ W) m -> widx_valid m r -> wnomap m v ->
    Cur K b n E0 ex m0 E (olw (read_wloc r m) ++ W) (write_wloc r v m).
  Proof.
    intros C Hidx Hnm. pose proof (cur_inv _ _ _ _ _ _ _ _ _ C) as HI.
    destruct r as [i|p j|]; cbn [widx_valid] in Hidx; [| |contradiction].
    - destruct (lookup_lt_is_Some_2 _ _ Hidx) as [a Ha].
      assert (Hr : read_wloc (RWSlot i) m = a) by (cbn; rewrite Ha; reflexivity). rewrite Hr.
      eapply (Cur_wmove K b n E0 ex m0 E (olw v ++ W) (olw a ++ W) m _ 0%nat (fun x => x) C); try reflexivity.
      + cbn. rewrite alter_id_eq. reflexivity.
      + cbn. apply insert_length.
      + eapply NoBad_log; [reflexivity | apply C].
      + intros x Hx. destruct (sv_objx _ _ _ _ _ HI _ _ Hx) as [_ _ _ _ X5 _]. repeat split; auto.
        intros Hm. apply X5, Hm.
      + intros o. rewrite !wrefs_unfold, !cnt_wr_app, !cnt_wr_olw. cbn [write_wloc].
        change (wslots (m <| wslots ::= <[i:=v]> |>)) with (<[i:=v]> (wslots m)).
        change (wparam (m <| wslots ::= <[i:=v]> |>)) with (wparam m).
        change (cslots (m <| wslots ::= <[i:=v]> |>)) with (cslots m).
        change (heap (m <| wslots ::= <[i:=v]> |>)) with (heap m).
        pose proof (cnt_w_insert o _ _ _ v Ha) as Hc. unfold b2n.
        destruct (eqb_wref a o), (eqb_wref v o); lia.
      + intros i' w Hi'. cbn in Hi'. apply lookup_insert_Some_inv in Hi' as [[-> ->]|[Hne Hi']]; eauto.
      + auto.
      + intros x j w Hx Hj. eauto.
    - destruct Hidx as (x & Hx & Hj & Hny & Hnu). apply (Cur_write_wfield b n E0 ex m0 E W m p j v x C Hx Hj Hny (or_introl Hnu) Hnm).
  Qed.
End WMoveInst.

Definition olc (a : option cref) : list wref := match a with Some cr => [WTo (cr_map cr)] | None => [] end.

Section SmallMoves.
  Context (K : conf).
  Implicit Types (m : machine) (o : id) (x : obj).

  Lemma id_move_premise b E W m (ex : option id) (HI : SInv K b E W m) :
    forall x, get m 0%nat = Some x ->
      o_hdr x = o_hdr x /\ o_vst x = o_vst x /\ o_box x = o_box x /\ o_side x = o_side x /\
      o_cls x = o_cls x /\ o_ismap x = o_ismap x /\ o_fields x = o_fields x /\
      o_cleaner x = o_cleaner x /\ (o_ismap x = true -> o_wfields x = []) /\
      (x = x \/ ((o_box x <> BNotYet \/ o_vst x = VDropping) /\ (o_vst x <> VUninit \/ ex = Some 0%nat))).
  Proof.
    intros x Hx. destruct (sv_objx _ _ _ _ _ HI _ _ Hx) as [_ _ _ _ X5 _]. repeat split; auto. intros Hm. apply X5, Hm.
  Qed.

  (** the cleanable slots *)
  Lemma Cur_cslots b n E0 ex m0 E W m c v old :
    Cur K b n E0 ex m0 E (olc v ++ W) m -> cslots m !! c = Some old ->
    Cur K b n E0 ex m0 E (olc old ++ W) (m <| cslots ::= <[c := v]> |>).
  Proof.
    intros C Hc. pose proof (cur_inv _ _ _ _ _ _ _ _ _ C) as HI.
    eapply (Cur_wmove K b n E0 ex m0 E (olc v ++ W) (olc old ++ W) m _ 0%nat (fun x => x) C); try reflexivity.
    - cbn. rewrite alter_id_eq. reflexivity.
    - cbn. apply insert_length.
    - eapply NoBad_log; [reflexivity | apply C].
    - apply (id_move_premise _ _ _ _ _ HI).
    - intros o. rewrite !wrefs_unfold, !cnt_wr_app.
      change (wslots (m <| cslots ::= <[c:=v]> |>)) with (wslots m).
      change (wparam (m <| cslots ::= <[c:=v]> |>)) with (wparam m).
      change (cslots (m <| cslots ::= <[c:=v]> |>)) with (<[c:=v]> (cslots m)).
      change (heap (m <| cslots ::= <[c:=v]> |>)) with (heap m).
      pose proof (cnt_c_insert o _ _ _ v Hc) as Hi.
      assert (Ho : forall a, cnt_wr o (olc a) = if eqb_cref a o then 1%nat else 0%nat).
      { intros [cr|]; [|reflexivity]. unfold olc. rewrite cnt_wr_cons. cbn. destruct (Nat.eqb (cr_map cr) o); reflexivity. }
      rewrite !Ho. destruct (eqb_cref old o), (eqb_cref v o); lia.
    - intros i w Hi. eauto.
    - auto.
    - intros x j w Hx Hj. eauto.
  Qed.

  (** the parameter stack of running new_cyclic closures *)
  Lemma SInv_wparam_push b E W m w :
    SInv K b E (w :: W) m -> wnomap m (Some w) -> SInv K b E W (m <| wparam ::= cons w |>).
  Proof.
    intros HI Hnm.
    eapply (SInv_wmove K b E (w :: W) W m _ 0%nat (fun x => x) None HI); try reflexivity.
    - cbn. rewrite alter_id_eq. reflexivity.
    - apply (id_move_premise _ _ _ _ _ HI).
    - intros o. rewrite !wrefs_unfold, cnt_wr_cons.
      change (wparam (m <| wparam ::= cons w |>)) with (w :: wparam m). cbn [map]. rewrite cnt_w_cons.
      change (wslots (m <| wparam ::= cons w |>)) with (wslots m).
      change (cslots (m <| wparam ::= cons w |>)) with (cslots m).
      change (heap (m <| wparam ::= cons w |>)) with (heap m). lia.
    - intros i w' Hi. eauto.
    - intros w' Hw. cbn in Hw. apply elem_of_cons in Hw as [->|Hw]; auto.
    - intros x j w' Hx Hj. eauto.
  Qed.
  Lemma SInv_wparam_pop b E W m w rest :
    SInv K b E W m -> wparam m = w :: rest -> SInv K b E (w :: W) (m <| wparam ::= tail |>).
  Proof.
    intros HI Hw.
    eapply (SInv_wmove K b E W (w :: W) m _ 0%nat (fun x => x) None HI); try reflexivity.
    - cbn. rewrite alter_id_eq. reflexivity.
    - apply (id_move_premise _ _ _ _ _ HI).
    - intros o. rewrite !wrefs_unfold, cnt_wr_cons.
      change (wparam (m <| wparam ::= tail |>)) with (tail (wparam m)). rewrite Hw. cbn [tail map]. rewrite cnt_w_cons.
      change (wslots (m <| wparam ::= tail |>)) with (wslots m).
      change (cslots (m <| wparam ::= tail |>)) with (cslots m).
      change (heap (m <| wparam ::= tail |>)) with (heap m). lia.
    - intros i w' Hi. eauto.
    - intros w' Hw'. left. change (wparam (m <| wparam ::= tail |>)) with (tail (wparam m)) in Hw'.
      rewrite Hw in *. cbn in Hw'. apply elem_of_cons. auto.
    - intros x j w' Hx Hj. eauto.
  Qed.

  Lemma id_smove_premise b E W m ex (HI : SInv K b E W m) :
    forall x, get m 0%nat = Some x ->
       o_hdr x = o_hdr x /\ o_vst x = o_vst x /\ o_box x = o_box x /\ o_side x = o_side x /\
       o_cls x = o_cls x /\ o_ismap x = o_ismap x /\ o_wfields x = o_wfields x /\
       length (o_fields x) = length (o_fields x) /\
       (o_ismap x = true -> o_fields x = [] /\ o_cleaner x = None) /\
       (x = x \/ ((o_box x <> BNotYet \/ o_vst x = VDropping) /\ (o_vst x <> VDropping \/ ex = Some 0%nat) /\ o_vst x <> VUninit /\
                  (inD m 0%nat = false \/ o_vst x = VDropped \/ ex = Some 0%nat))).
  Proof.
    intros x Hx. destruct (sv_objx _ _ _ _ _ HI _ _ Hx) as [_ _ _ _ X5 _]. repeat split; auto;
      match goal with H : o_ismap _ = true |- _ => destruct (X5 H) as (? & ? & _) end; auto.
  Qed.

  (** the bag *)
  Lemma Cur_bag_pop b n E0 ex m0 E W m o bg :
    Cur K b n E0 ex m0 E W m -> bag m = o :: bg -> Cur K b n E0 ex m0 (o :: E) W (m <| bag := bg |>).
  Proof.
    intros C Hb. pose proof (cur_inv _ _ _ _ _ _ _ _ _ C) as HI.
    eapply (Cur_move K b n E0 ex m0 E W (o :: E) m _ 0%nat (fun x => x) C); try reflexivity.
    - cbn. rewrite alter_id_eq. reflexivity.
    - eapply NoBad_log; [reflexivity | apply C].
    - apply (id_smove_premise _ _ _ _ _ HI).
    - intros o'. rewrite !refs_unfold.
      change (slots (m <| bag := bg |>)) with (slots m). change (bag (m <| bag := bg |>)) with bg.
      change (heap (m <| bag := bg |>)) with (heap m). rewrite Hb, !cnt_id_cons. lia.
    - intros h c t Hl. left. inversion Hl as [i t' H | t' H | p xp j t' Hp Hj | p xp t' Hp Hc]; subst.
      + econstructor 1; eauto.
      + constructor 2. rewrite Hb. cbn in H. apply elem_of_cons. auto.
      + econstructor 3; eauto.
      + econstructor 4; eauto.
    - intros t Ht. apply elem_of_cons in Ht as [->|Ht]; [right|auto].
      destruct (sv_loc _ _ _ _ _ HI None false o) as (xt & Hxt & Hbt & _); [constructor 2; rewrite Hb; left | eauto].
  Qed.
  Lemma Cur_bag_push b n E0 ex m0 E W m o :
    Cur K b n E0 ex m0 (o :: E) W m -> good_h m o -> Cur K b n E0 ex m0 E W (m <| bag ::= cons o |>).
  Proof.
    intros C Hg. pose proof (cur_inv _ _ _ _ _ _ _ _ _ C) as HI.
    eapply (Cur_move K b n E0 ex m0 (o :: E) W E m _ 0%nat (fun x => x) C); try reflexivity.
    - cbn. rewrite alter_id_eq. reflexivity.
    - eapply NoBad_log; [reflexivity | apply C].
    - apply (id_smove_premise _ _ _ _ _ HI).
    - intros o'. rewrite !refs_unfold.
      change (slots (m <| bag ::= cons o |>)) with (slots m). change (bag (m <| bag ::= cons o |>)) with (o :: bag m).
      change (heap (m <| bag ::= cons o |>)) with (heap m). rewrite !cnt_id_cons. lia.
    - intros h c t Hl. inversion Hl as [i t' H | t' H | p xp j t' Hp Hj | p xp t' Hp Hc]; subst.
      + left. econstructor 1; eauto.
      + cbn in H. apply elem_of_cons in H as [->|H]; [right|left; constructor 2; exact H].
        apply LocOk_of_good. eapply good_h_st; [| reflexivity | exact Hg].
        eapply heap_st_alter with (a := 0%nat) (f := fun x => x); [cbn; rewrite alter_id_eq; reflexivity|].
        intros. apply same_st_refl.
      + left. econstructor 3; eauto.
      + left. econstructor 4; eauto.
    - intros t Ht. left. right. exact Ht.
  Qed.
End SmallMoves.

Section Proj.
  Context (K : conf).
  Implicit Types (m : machine) (o : id) (x : obj).

  (** only [values] and the [dropping] flag (and fields the invariant ignores) change *)
  Lemma Cur_proj b n E0 ex m0 E W m m' :
    Cur K b n E0 ex m0 E W m ->
    heap m' = heap m -> slots m' = slots m -> bag m' = bag m -> wslots m' = wslots m ->
    wparam m' = wparam m -> cslots m' = cslots m -> pc m' = pc m -> dead m' = dead m ->
    pc_alive m' = pc_alive m -> st_collecting m' = st_collecting m -> NoBad m' ->
    (forall v o, values m' !! v = Some (Some o) ->
       (exists x, get m o = Some x /\ o_box x = BFreed /\ o_vst x = VMoved) /\
       (forall v', values m' !! v' = Some (Some o) -> v' = v)) ->
    (forall o x, get m o = Some x -> k_weak K = true -> inD m o = true -> o_box x = BAlloc ->
       is_dropped (o_hdr x) = false -> st_dropping m' = true) ->
    Cur K b n E0 ex m0 E W m'.
  Proof.
    intros C Hh Hs Hb Hws Hwp Hcs Hpc Hd Hal Hcol Hnb Hv Hsd.
    pose proof (cur_inv _ _ _ _ _ _ _ _ _ C) as HI.
    assert (HR : forall o, refs m' o = refs m o) by (intros; apply refs_ext; auto).
    assert (HW : forall o, wrefs m' o = wrefs m o) by (intros; apply wrefs_ext; auto).
    assert (HG : forall o, get m' o = get m o) by (intros; unfold get; rewrite Hh; reflexivity).
    assert (HD : forall o, inD m' o = inD m o) by (intros; apply inD_eq, Hd).
    assert (HM : forall o, is_map m' o = is_map m o) by (intros; unfold is_map; rewrite HG; reflexivity).
    assert (HL : forall h c t, LocOk m h c t -> LocOk m' h c t).
    { intros h c t (xt & Hxt & R). exists xt. rewrite HG. split; [exact Hxt|].
      destruct h as [p|]; rewrite ?HD; [|exact R]. destruct R as (R1 & R2 & R3). split; [exact R1|]. split; [exact R2|].
      intros xp Hp. rewrite HG in Hp. apply R3, Hp. }
    eapply Cur_step; [exact C | exact Hnb | | | exact Hd].
    - destruct HI as [I1 I2 I3 I4 I5 I6 I7 I8 I9 I10 I11 I12 I13]. split.
      + intros o x Hx. rewrite HG in Hx. rewrite HR, HW, HD. apply I1, Hx.
      + intros o x Hx. rewrite HG in Hx. unfold ObjX. rewrite HD.
        destruct (I2 o x Hx) as [X1 X2 X3 X4 X5 X6]. split; auto.
        intros Hk Hi Hbx Hdr. destruct (X3 Hk Hi Hbx Hdr) as [? _]. split; [assumption|]. eapply Hsd; eauto.
      + intros h c t Hl. apply HL, I3. eapply hloc_ext; eauto.
      + intros t Ht. rewrite HG. apply I4, Ht.
      + intros t Ht. rewrite Hpc in Ht. rewrite HG, HD. apply I5, Ht.
      + congruence.
      + intros o Ho. rewrite HD in Ho. rewrite HG. apply I7, Ho.
      + intros v o Hvo. destruct (Hv v o Hvo) as [(x & Hx & ?) Hu]. split; [|exact Hu]. exists x. rewrite HG. auto.
      + destruct I9 as (? & ? & ?). repeat split; congruence.
      + intros i w Hi. rewrite Hws in Hi. intros o Ho. rewrite HM. eapply I10; eauto.
      + intros w Hw. rewrite Hwp in Hw. intros o Ho. rewrite HM. eapply I11; eauto.
      + intros p xp j w Hp Hj. rewrite HG in Hp. intros o Ho. rewrite HM. eapply I12; eauto.
      + intros o Ho. rewrite HW in Ho. rewrite HG. apply I13, Ho.
    - eapply (Fr_alter K E0 ex m m' 0%nat (fun x => x)); [| exact Hd | exact Hcol | exact Hwp | |].
      + rewrite alter_id_eq. exact Hh.
      + intros x Hx. apply ObjFr_refl. intros o. rewrite HD. auto.
      + intros _ x Hx Hi Hb' Hdr. auto.
  Qed.

  Lemma Cur_set_finalizing b n E0 ex m0 E W m v :
    Cur K b n E0 ex m0 E W m -> Cur K b n E0 ex m0 E W (m <| st_finalizing := v |>).
  Proof. intros C. eapply Cur_ieq; [exact C | repeat split | apply C]. Qed.

  Lemma Cur_set_dropping_true b n E0 ex m0 E W m :
    Cur K b n E0 ex m0 E W m -> Cur K b n E0 ex m0 E W (m <| st_dropping := true |>).
  Proof.
    intros C. eapply (Cur_proj b n E0 ex m0 E W m _ C); try reflexivity; try (apply C; fail); auto.
    all: try apply (sv_values _ _ _ _ _ (cur_inv _ _ _ _ _ _ _ _ _ C)).
  Qed.

  (** a guard restores the [dropping] flag to the value it had at the entry [m0] of the activation *)
  Lemma Cur_restore_dropping b b0 n E0 ex m0 E W E1 W1 m :
    Cur K b n E0 ex m0 E W m -> SInv K b0 E1 W1 m0 ->
    Cur K b n E0 ex m0 E W (m <| st_dropping := st_dropping m0 |>).
  Proof.
    intros C HI0. eapply (Cur_proj b n E0 ex m0 E W m _ C); try reflexivity; try (apply C; fail).
    all: try apply (sv_values _ _ _ _ _ (cur_inv _ _ _ _ _ _ _ _ _ C)).
    - intros o x Hx Hk Hi Hb Hdr. cbn.
      destruct (fr_undropped _ _ _ _ _ (cur_fr _ _ _ _ _ _ _ _ _ C) Hk o x Hx Hi Hb Hdr) as (x0 & Hx0 & Hi0 & Hb0 & Hd0).
      destruct (sv_objx _ _ _ _ _ HI0 _ _ Hx0) as [_ _ X3 _ _ _]. destruct (X3 Hk Hi0 Hb0 Hd0) as [_ ?]. assumption.
  Qed.

  Lemma Cur_values b n E0 ex m0 E W m vs :
    Cur K b n E0 ex m0 E W m ->
    (forall v o, vs !! v = Some (Some o) ->
       (exists x, get m o = Some x /\ o_box x = BFreed /\ o_vst x = VMoved) /\
       (forall v', vs !! v' = Some (Some o) -> v' = v)) ->
    Cur K b n E0 ex m0 E W (m <| values := vs |>).
  Proof.
    intros C Hv. eapply (Cur_proj b n E0 ex m0 E W m _ C); try reflexivity; try (apply C; fail); try exact Hv.
    all: intros o x Hx Hk Hi Hb Hdr; cbn;
      destruct (sv_objx _ _ _ _ _ (cur_inv _ _ _ _ _ _ _ _ _ C) _ _ Hx) as [_ _ X3 _ _ _];
      destruct (X3 Hk Hi Hb Hdr) as [_ ?]; assumption.
  Qed.
End Proj.

