(** * Threads: per-thread collectors (C19).

    Part 1 - a generic product of machines. Every thread owns one machine state [M]; a step of
    thread [t] reads and writes component [t] only. Theorem [C19_independent]: under EVERY
    interleaving the final (and every intermediate) state of each thread is the state of that
    thread's own program run alone; hence every property of sequential runs holds per thread.
    [M], [Op], [step] are Section variables, to be instantiated with the machine model.

    Part 2 - thread teardown. A small executable model of the crate's three thread-locals
      - [POSSIBLE_CYCLES] (src/lib.rs): lazily initialised, the only one with a destructor
        ([impl Drop for PossibleCycles], src/lists.rs: pops every buffered box, which unlinks it
        and marks it NonMarked);
      - [STATE] (src/state.rs) and [CONFIG] (src/config.rs): const-initialised, no destructor,
        therefore accessible for the whole life of the thread, also while other thread-locals
        are being destroyed;
    and of user thread-locals holding [Cc]s that are destroyed BEFORE or AFTER [POSSIBLE_CYCLES].
    After its destructor ran, [POSSIBLE_CYCLES.try_with] fails and [add_to_list],
    [remove_from_list], [collect_cycles], [buffered_objects_count] silently do nothing / return Err.

    What this model CANNOT exhibit (tied to the code only by /verif/probes/layout, threads probe,
    driven by /verif/tools/check_threads.py):
      - that the real statics ARE thread-local (here: that [step] has type [M -> Op -> M], i.e. it
        cannot even mention another thread's component - in the crate this is the
        [thread_local!] declaration of the three statics and the absence of any other
        static/global mutable state);
      - that [Cc<T>] and [Weak<T>] are [!Send + !Sync], so that an object of thread A can never be
        reached from thread B (a compile-time fact; the probe compiles four programs that must be
        rejected with E0277);
      - the OS / std-runtime order in which thread-local destructors run (the probe forces and
        observes both relative orders), and that std never re-initialises a destroyed
        thread-local on this platform.

    Everything below is closed under the global context (Print Assumptions is run by the checker). *)
From Coq Require Import List Arith PeanoNat Bool Lia.
Import ListNotations.

(** ** Part 1: the product of machines *)

Section Threads.
  Variable M : Type.                 (* state of one thread's collector + its objects *)
  Variable Op : Type.                (* one operation of a thread's program *)
  Variable step : M -> Op -> M.      (* deterministic sequential semantics of ONE thread *)

  Definition tid := nat.
  Definition sys := tid -> M.

  Definition upd (s : sys) (t : tid) (m : M) : sys :=
    fun u => if Nat.eqb u t then m else s u.

  (** One step of the system: thread [fst e] executes operation [snd e]. *)
  Definition sys_step (s : sys) (e : tid * Op) : sys :=
    upd s (fst e) (step (s (fst e)) (snd e)).

  (** A schedule is any list of (thread, operation): it IS the interleaving. *)
  Definition run_sched (s : sys) (sched : list (tid * Op)) : sys :=
    fold_left sys_step sched s.

  (** The program of thread [t] inside a schedule. *)
  Fixpoint proj (t : tid) (sched : list (tid * Op)) : list Op :=
    match sched with
    | [] => []
    | (u, o) :: r => if Nat.eqb u t then o :: proj t r else proj t r
    end.

  Lemma upd_same s t m : upd s t m t = m.
  Proof. unfold upd. now rewrite Nat.eqb_refl. Qed.

  Lemma upd_other s t m u : u <> t -> upd s t m u = s u.
  Proof. intros H. unfold upd. apply Nat.eqb_neq in H. now rewrite H. Qed.

  (** A step of thread [t] leaves every other component untouched. *)
  Theorem frame_step s t o u : u <> t -> sys_step s (t, o) u = s u.
  Proof. intros H. unfold sys_step. cbn. now apply upd_other. Qed.

  Theorem own_step s t o : sys_step s (t, o) t = step (s t) o.
  Proof. unfold sys_step. cbn. apply upd_same. Qed.

  (** C19: every interleaving yields, per thread, exactly the sequential run of that thread's
      own operations from that thread's own initial state. *)
  Theorem C19_independent :
    forall sched s t, run_sched s sched t = fold_left step (proj t sched) (s t).
  Proof.
    unfold run_sched. induction sched as [|[u o] r IH]; intros s t; cbn [fold_left proj].
    - reflexivity.
    - rewrite IH. destruct (Nat.eqb u t) eqn:E.
      + apply Nat.eqb_eq in E. subst u. cbn [fold_left]. now rewrite own_step.
      + apply Nat.eqb_neq in E. rewrite frame_step by congruence. reflexivity.
  Qed.

  (** A thread that executes nothing in the schedule is not affected by it at all: objects,
      counters and configuration of a thread are never observed or changed by the others. *)
  Theorem frame :
    forall sched s t, proj t sched = [] -> run_sched s sched t = s t.
  Proof. intros sched s t H. rewrite C19_independent, H. reflexivity. Qed.

  (** The result for thread [t] does not depend on the other threads' initial states either. *)
  Theorem C19_independent_of_others :
    forall sched s s' t, s t = s' t -> run_sched s sched t = run_sched s' sched t.
  Proof. intros sched s s' t H. now rewrite !C19_independent, H. Qed.

  (** Two interleavings with the same per-thread programs end in the same system. *)
  Theorem C19_sched_equiv :
    forall sched1 sched2 s,
      (forall t, proj t sched1 = proj t sched2) ->
      forall t, run_sched s sched1 t = run_sched s sched2 t.
  Proof. intros sched1 sched2 s H t. now rewrite !C19_independent, H. Qed.

  (** Steps of different threads commute. *)
  Theorem sys_step_comm s t1 o1 t2 o2 :
    t1 <> t2 ->
    forall u, sys_step (sys_step s (t1, o1)) (t2, o2) u = sys_step (sys_step s (t2, o2)) (t1, o1) u.
  Proof.
    intros Hne u. unfold sys_step. cbn [fst snd].
    destruct (Nat.eq_dec u t1) as [->|H1]; [|destruct (Nat.eq_dec u t2) as [->|H2]].
    - rewrite (upd_other _ t2 _ t1 Hne), !upd_same, (upd_other _ t2 _ t1 Hne). reflexivity.
    - assert (t2 <> t1) as Hne' by congruence.
      rewrite upd_same, (upd_other _ t1 _ t2 Hne'), (upd_other _ t1 _ t2 Hne'), upd_same. reflexivity.
    - rewrite !upd_other by assumption. reflexivity.
  Qed.

  (** *** Prefixes: not only the final state, every intermediate state. *)

  Lemma proj_app t a b : proj t (a ++ b) = proj t a ++ proj t b.
  Proof.
    induction a as [|[u o] a IH]; cbn; [reflexivity|].
    destruct (Nat.eqb u t); cbn; now rewrite IH.
  Qed.

  (** At every point of every interleaving, thread [t] is in a state that its own program
      reaches when run alone (after the prefix of its program executed so far). *)
  Theorem C19_independent_prefix :
    forall pre post s t,
      run_sched s pre t = fold_left step (proj t pre) (s t) /\
      exists done_ todo, proj t (pre ++ post) = done_ ++ todo /\ done_ = proj t pre.
  Proof.
    intros pre post s t. split; [apply C19_independent|].
    exists (proj t pre), (proj t post). split; [apply proj_app | reflexivity].
  Qed.

  (** *** Observable traces. This is the statement the threads probe checks on the real crate:
      the list of observations a thread makes after each of its own operations, while running
      interleaved with the others, equals the list it makes when the same program runs alone. *)

  Variable Obs : Type.
  Variable observe : M -> Obs.

  Fixpoint seq_trace (m : M) (ops : list Op) : list Obs :=
    match ops with
    | [] => []
    | o :: r => let m' := step m o in observe m' :: seq_trace m' r
    end.

  Fixpoint sched_trace (t : tid) (s : sys) (sched : list (tid * Op)) : list Obs :=
    match sched with
    | [] => []
    | (u, o) :: r =>
        let s' := sys_step s (u, o) in
        if Nat.eqb u t then observe (s' t) :: sched_trace t s' r else sched_trace t s' r
    end.

  Theorem C19_trace :
    forall sched s t, sched_trace t s sched = seq_trace (s t) (proj t sched).
  Proof.
    induction sched as [|[u o] r IH]; intros s t; cbn [sched_trace proj]; [reflexivity|].
    destruct (Nat.eqb u t) eqn:E.
    - apply Nat.eqb_eq in E. subst u. cbn [seq_trace]. rewrite IH, own_step. reflexivity.
    - apply Nat.eqb_neq in E. rewrite IH, frame_step by congruence. reflexivity.
  Qed.

  (** *** Properties of sequential runs transfer to every thread under every interleaving. *)

  (** Any property of (initial state, program, final state) of sequential runs. *)
  Theorem C19_transfer (Q : M -> list Op -> M -> Prop) :
    (forall m ops, Q m ops (fold_left step ops m)) ->
    forall sched s t, Q (s t) (proj t sched) (run_sched s sched t).
  Proof. intros H sched s t. rewrite C19_independent. apply H. Qed.

  (** Any step-invariant (safety property) holds for every thread at the end of - and, by
      [C19_invariant_always], at every point of - every interleaving. *)
  Theorem C19_invariant (P : M -> Prop) :
    (forall m o, P m -> P (step m o)) ->
    forall sched s, (forall t, P (s t)) -> forall t, P (run_sched s sched t).
  Proof.
    intros Hstep sched s H0 t. rewrite C19_independent.
    generalize (s t) (H0 t). induction (proj t sched) as [|o r IH]; intros m Hm; cbn; auto.
  Qed.

  Theorem C19_invariant_always (P : M -> Prop) :
    (forall m o, P m -> P (step m o)) ->
    forall pre post s, (forall t, P (s t)) -> forall t, P (run_sched s pre t) /\ P (run_sched s (pre ++ post) t).
  Proof. intros Hstep pre post s H0 t. split; now apply C19_invariant. Qed.

  (** An invariant of ONE thread needs nothing from the others (they may be in any state). *)
  Theorem C19_invariant_local (P : M -> Prop) :
    (forall m o, P m -> P (step m o)) ->
    forall sched s t, P (s t) -> P (run_sched s sched t).
  Proof.
    intros Hstep sched s t H0. rewrite C19_independent.
    revert H0. generalize (s t). induction (proj t sched) as [|o r IH]; intros m Hm; cbn; auto.
  Qed.
End Threads.

(** ** Part 2: thread teardown *)

Definition obj_id := nat.

(** The part of a thread's state that matters at teardown. Outside a collection a box is either
    NonMarked or PossibleCycles-marked; it has [next]/[prev] links exactly while it is buffered,
    so "linked" is membership in [buffer]. [STATE]/[CONFIG] have no destructor and are always
    accessible: they need no liveness flag. *)
Record tls := {
  pc_alive : bool;               (* POSSIBLE_CYCLES has not been destroyed yet: try_with succeeds *)
  buffer : list obj_id;          (* the buffered boxes, front first *)
  marks : obj_id -> bool;        (* the box is marked PossibleCycles *)
  rc : obj_id -> nat;            (* strong count *)
  freed : obj_id -> bool;        (* the box has been deallocated *)
}.

Definition set_fn {A} (f : obj_id -> A) (o : obj_id) (v : A) : obj_id -> A :=
  fun x => if Nat.eqb x o then v else f x.

Definition mem (o : obj_id) (l : list obj_id) : bool := existsb (Nat.eqb o) l.
Definition remove_id (o : obj_id) (l : list obj_id) : list obj_id :=
  filter (fun x => negb (Nat.eqb x o)) l.

(** [add_to_list] (src/cc.rs): if the box is already marked, nothing; otherwise
    [POSSIBLE_CYCLES.try_with] - which fails silently once the thread-local is gone. *)
Definition add_to_list (s : tls) (o : obj_id) : tls :=
  if marks s o then s
  else if pc_alive s then
    {| pc_alive := true; buffer := o :: buffer s; marks := set_fn (marks s) o true;
       rc := rc s; freed := freed s |}
  else s.

(** [remove_from_list] (src/cc.rs; also [Cc::mark_alive], [Clone], [Weak::upgrade], [downgrade]). *)
Definition remove_from_list (s : tls) (o : obj_id) : tls :=
  if marks s o then
    if pc_alive s then
      {| pc_alive := true; buffer := remove_id o (buffer s); marks := set_fn (marks s) o false;
         rc := rc s; freed := freed s |}
    else s      (* try_with failed: the box stays marked and linked (see [wf]: cannot happen) *)
  else s.

(** [buffered_objects_count]: [None] = [Err(AccessError)]. *)
Definition buffered_objects_count (s : tls) : option nat :=
  if pc_alive s then Some (length (buffer s)) else None.

(** [PossibleCycles::remove_first]: pop the front box, unlink it, mark it NonMarked. *)
Definition remove_first (s : tls) : tls :=
  match buffer s with
  | [] => s
  | o :: r => {| pc_alive := pc_alive s; buffer := r; marks := set_fn (marks s) o false;
                 rc := rc s; freed := freed s |}
  end.

(** [impl Drop for PossibleCycles]: [while self.remove_first().is_some() {}], after which the
    thread-local is in the destroyed state. *)
Fixpoint drain (fuel : nat) (s : tls) : tls :=
  match fuel with
  | O => s
  | S f => match buffer s with [] => s | _ => drain f (remove_first s) end
  end.

Definition teardown_pc (s : tls) : tls :=
  let s' := drain (length (buffer s)) s in
  {| pc_alive := false; buffer := buffer s'; marks := marks s'; rc := rc s'; freed := freed s' |}.

(** What the teardown would be if [PossibleCycles] had no [Drop] impl (used only to show that the
    theorems below do depend on it). *)
Definition teardown_pc_nodrop (s : tls) : tls :=
  {| pc_alive := false; buffer := buffer s; marks := marks s; rc := rc s; freed := freed s |}.

(** [Cc::drop] outside a collection. [None] = a bad event:
      - dropping a handle that cannot exist (count 0 / freed box: double drop / use after free),
      - freeing a box that is still linked in the buffer (a dangling list link would remain).
    The model's safety condition is deliberately STRONGER than memory safety of the crate: it
    forbids the EXISTENCE of a dangling link, not only its dereference. *)
Definition drop_cc (s : tls) (o : obj_id) : option tls :=
  if freed s o then None
  else match rc s o with
       | 0 => None
       | 1 =>
           let s1 := remove_from_list s o in
           if mem o (buffer s1) then None
           else Some {| pc_alive := pc_alive s1; buffer := buffer s1; marks := marks s1;
                        rc := set_fn (rc s1) o 0; freed := set_fn (freed s1) o true |}
       | S n =>
           Some (add_to_list {| pc_alive := pc_alive s; buffer := buffer s; marks := marks s;
                                rc := set_fn (rc s) o n; freed := freed s |} o)
       end.

(** A user thread-local holding [Cc]s is destroyed: its handles are dropped one by one (the
    handles released by the drop glue of a freed payload are simply further elements of the
    list). [drop_cc_after_teardown] is [drop_cc] in a state where [pc_alive = false]. *)
Fixpoint run_drops (s : tls) (os : list obj_id) : option tls :=
  match os with
  | [] => Some s
  | o :: r => match drop_cc s o with Some s' => run_drops s' r | None => None end
  end.

Definition drop_cc_after_teardown (s : tls) (o : obj_id) : option tls :=
  drop_cc (teardown_pc s) o.

(** *** Well-formedness (the buffer invariant I-buf restricted to what teardown needs). *)
Record wf (s : tls) : Prop := {
  wf_nodup : NoDup (buffer s);
  wf_marks : forall o, marks s o = true <-> In o (buffer s);
  wf_live : forall o, In o (buffer s) -> freed s o = false /\ rc s o > 0;
  wf_freed : forall o, freed s o = true -> rc s o = 0;
  wf_dead : pc_alive s = false -> buffer s = [];
}.

Definition dead (s : tls) : Prop := wf s /\ pc_alive s = false.

Lemma mem_In o l : mem o l = true <-> In o l.
Proof.
  unfold mem. rewrite existsb_exists. split.
  - intros [x [Hx He]]. apply Nat.eqb_eq in He. now subst.
  - intros H. exists o. split; [assumption | apply Nat.eqb_refl].
Qed.

Lemma remove_id_In o x l : In x (remove_id o l) <-> In x l /\ x <> o.
Proof.
  unfold remove_id. rewrite filter_In, negb_true_iff, Nat.eqb_neq. tauto.
Qed.

Lemma remove_id_NoDup o l : NoDup l -> NoDup (remove_id o l).
Proof. apply NoDup_filter. Qed.

Lemma set_fn_same {A} (f : obj_id -> A) o v : set_fn f o v o = v.
Proof. unfold set_fn. now rewrite Nat.eqb_refl. Qed.

Lemma set_fn_other {A} (f : obj_id -> A) o v x : x <> o -> set_fn f o v x = f x.
Proof. intros H. unfold set_fn. apply Nat.eqb_neq in H. now rewrite H. Qed.

(** *** The destructor of POSSIBLE_CYCLES *)

Lemma remove_first_wf s : wf s -> wf (remove_first s).
Proof.
  intros [Hnd Hm Hl Hf Hd]. unfold remove_first.
  destruct (buffer s) as [|o r] eqn:Hb; [constructor; rewrite ?Hb; auto|].
  inversion Hnd as [|? ? Hnin Hnd']; subst.
  constructor; cbn.
  - assumption.
  - intros x. destruct (Nat.eq_dec x o) as [->|Hne].
    + rewrite set_fn_same. split; [discriminate | contradiction].
    + rewrite set_fn_other by assumption. rewrite Hm. cbn. split; [intros [?|?]; congruence | auto].
  - intros x Hx. apply Hl. now right.
  - assumption.
  - intros Hpa. specialize (Hd Hpa). discriminate.
Qed.

Lemma drain_spec fuel s :
  wf s -> length (buffer s) <= fuel ->
  let s' := drain fuel s in
  wf s' /\ buffer s' = [] /\ pc_alive s' = pc_alive s /\ rc s' = rc s /\ freed s' = freed s.
Proof.
  revert s. induction fuel as [|f IH]; intros s Hwf Hlen; cbn.
  - destruct (buffer s) eqn:Hb; cbn in Hlen; [|lia]. split; [assumption | repeat split; auto].
  - destruct (buffer s) as [|o r] eqn:Hb; [split; [assumption | repeat split; auto]|].
    assert (wf (remove_first s)) as Hwf' by now apply remove_first_wf.
    assert (length (buffer (remove_first s)) <= f) as Hlen'.
    { unfold remove_first. rewrite Hb. cbn. cbn in Hlen. lia. }
    destruct (IH _ Hwf' Hlen') as (H1 & H2 & H3 & H4 & H5).
    split; [assumption|]. repeat split; auto.
    + rewrite H3. unfold remove_first. now rewrite Hb.
    + rewrite H4. unfold remove_first. now rewrite Hb.
    + rewrite H5. unfold remove_first. now rewrite Hb.
Qed.

(** After [teardown_pc]: the thread-local is gone, the buffer is empty and NO object is marked
    (hence no object has list links); counts and liveness of the objects are untouched (nothing is
    dropped or freed by the destructor: buffered objects that were garbage simply leak). *)
Theorem teardown_pc_clears s :
  wf s ->
  let s' := teardown_pc s in
  dead s' /\ buffer s' = [] /\ (forall o, marks s' o = false) /\
  buffered_objects_count s' = None /\ rc s' = rc s /\ freed s' = freed s.
Proof.
  intros Hwf. cbn zeta. unfold teardown_pc.
  destruct (drain_spec (length (buffer s)) s Hwf (le_n _)) as (H1 & H2 & H3 & H4 & H5).
  set (d := drain (length (buffer s)) s) in *.
  destruct H1 as [Hnd Hm Hl Hf Hd].
  assert (forall o, marks d o = false) as Hnm.
  { intros o. apply not_true_is_false. intros Ht. apply Hm in Ht. rewrite H2 in Ht. contradiction. }
  split; [split; [constructor; cbn; auto | reflexivity]|].
  cbn. repeat split; auto.
Qed.

(** *** Operations once POSSIBLE_CYCLES is gone *)

(** [add_to_list] is a no-op: the object stays NonMarked and gets no links. *)
Theorem add_to_list_dead_noop s o : pc_alive s = false -> add_to_list s o = s.
Proof. intros H. unfold add_to_list. rewrite H. now destruct (marks s o). Qed.

(** [remove_from_list] is a no-op as well (and by [wf] it is never even asked to unlink). *)
Theorem remove_from_list_dead_noop s o : pc_alive s = false -> remove_from_list s o = s.
Proof. intros H. unfold remove_from_list. rewrite H. now destruct (marks s o). Qed.

Theorem dead_no_marks s o : dead s -> marks s o = false /\ mem o (buffer s) = false.
Proof.
  intros [[Hnd Hm Hl Hf Hd] Hpa]. specialize (Hd Hpa). split.
  - apply not_true_is_false. intros Ht. apply Hm in Ht. rewrite Hd in Ht. contradiction.
  - now rewrite Hd.
Qed.

(** *** [Cc::drop] preserves well-formedness and never produces a bad event, in EVERY state
    (thread-local alive or gone), as long as the handle exists ([rc > 0], which is what ownership
    of a [Cc] value means). *)

Lemma add_to_list_wf s o :
  wf s -> freed s o = false -> rc s o > 0 -> wf (add_to_list s o).
Proof.
  intros Hwf Hfr Hrc. pose proof Hwf as [Hnd Hm Hl Hf Hd]. unfold add_to_list.
  destruct (marks s o) eqn:Hmo; [assumption|].
  destruct (pc_alive s) eqn:Hpa; [|assumption].
  assert (~ In o (buffer s)) as Hnin by (rewrite <- Hm; congruence).
  constructor; cbn.
  - now constructor.
  - intros x. destruct (Nat.eq_dec x o) as [->|Hne].
    + rewrite set_fn_same. split; auto.
    + rewrite set_fn_other by assumption. rewrite Hm. split; [auto | intros [?|?]; congruence].
  - intros x [<-|Hx]; auto.
  - assumption.
  - discriminate.
Qed.

Lemma remove_from_list_wf s o :
  wf s -> wf (remove_from_list s o) /\ mem o (buffer (remove_from_list s o)) = false /\
          marks (remove_from_list s o) o = false /\
          rc (remove_from_list s o) = rc s /\ freed (remove_from_list s o) = freed s /\
          pc_alive (remove_from_list s o) = pc_alive s.
Proof.
  intros Hwf. pose proof Hwf as [Hnd Hm Hl Hf Hd]. unfold remove_from_list.
  destruct (marks s o) eqn:Hmo.
  - destruct (pc_alive s) eqn:Hpa.
    + cbn. split; [|split; [|split; [|repeat split]]].
      * constructor; cbn.
        -- now apply remove_id_NoDup.
        -- intros x. rewrite remove_id_In. destruct (Nat.eq_dec x o) as [->|Hne].
           ++ rewrite set_fn_same. split; [discriminate | tauto].
           ++ rewrite set_fn_other by assumption. rewrite Hm. tauto.
        -- intros x Hx. apply remove_id_In in Hx as [Hx _]. now apply Hl.
        -- assumption.
        -- discriminate.
      * apply not_true_is_false. intros H. apply mem_In, remove_id_In in H as [_ H]. congruence.
      * apply set_fn_same.
    + (* marked while the thread-local is gone: excluded by wf *)
      exfalso. apply Hm in Hmo. rewrite (Hd eq_refl) in Hmo. contradiction.
  - split; [assumption|]. split; [|repeat split; assumption].
    apply not_true_is_false. intros H. apply mem_In, Hm in H. congruence.
Qed.

Theorem drop_cc_ok s o :
  wf s -> rc s o > 0 ->
  exists s', drop_cc s o = Some s' /\ wf s' /\ pc_alive s' = pc_alive s /\
             (forall x, x <> o -> rc s' x = rc s x /\ freed s' x = freed s x) /\
             rc s' o = rc s o - 1 /\
             (rc s o = 1 -> freed s' o = true /\ marks s' o = false /\ mem o (buffer s') = false).
Proof.
  intros Hwf Hrc. pose proof Hwf as [Hnd Hm Hl Hf Hd]. unfold drop_cc.
  assert (freed s o = false) as Hnf.
  { apply not_true_is_false. intros H. apply Hf in H. lia. }
  rewrite Hnf.
  destruct (rc s o) as [|[|n]] eqn:Hr; [lia| |].
  - (* last handle: unlink, drop, free *)
    destruct (remove_from_list_wf s o Hwf) as (Hwf1 & Hmem & Hmk & Hrc1 & Hfr1 & Hpa1).
    set (s1 := remove_from_list s o) in *. rewrite Hmem.
    eexists. split; [reflexivity|]. cbn.
    destruct Hwf1 as [Hnd1 Hm1 Hl1 Hf1 Hd1].
    assert (~ In o (buffer s1)) as Hnin.
    { intros H. apply mem_In in H. congruence. }
    split; [|split; [assumption|split; [|split]]].
    + constructor; cbn; auto.
      * intros x Hx. destruct (Nat.eq_dec x o) as [->|Hne]; [contradiction|].
        rewrite !set_fn_other by assumption. now apply Hl1.
      * intros x. destruct (Nat.eq_dec x o) as [->|Hne].
        -- now rewrite !set_fn_same.
        -- rewrite !set_fn_other by assumption. apply Hf1.
    + intros x Hne. rewrite !set_fn_other by assumption. now rewrite Hrc1, Hfr1.
    + now rewrite set_fn_same.
    + intros _. rewrite set_fn_same. auto.
  - (* other handles remain: decrement and (try to) buffer *)
    set (s0 := {| pc_alive := pc_alive s; buffer := buffer s; marks := marks s;
                  rc := set_fn (rc s) o (S n); freed := freed s |}).
    assert (wf s0) as Hwf0.
    { constructor; cbn; auto.
      - intros x Hx. destruct (Hl x Hx) as [H1 H2]. split; [assumption|].
        destruct (Nat.eq_dec x o) as [->|Hne]; [rewrite set_fn_same; lia | now rewrite set_fn_other].
      - intros x Hx. destruct (Nat.eq_dec x o) as [->|Hne]; [congruence|].
        rewrite set_fn_other by assumption. now apply Hf. }
    assert (wf (add_to_list s0 o)) as Hwf'.
    { apply add_to_list_wf; cbn; auto. rewrite set_fn_same. lia. }
    eexists. split; [reflexivity|]. split; [exact Hwf'|].
    assert (pc_alive (add_to_list s0 o) = pc_alive s /\ rc (add_to_list s0 o) = rc s0 /\
            freed (add_to_list s0 o) = freed s0) as (Hp & Hr' & Hf').
    { unfold add_to_list. destruct (marks s0 o); [auto|]. destruct (pc_alive s0) eqn:E; cbn in *; auto. }
    rewrite Hp, Hr', Hf'. cbn. repeat split.
    + now rewrite set_fn_other.
    + rewrite set_fn_same. lia.
    + discriminate.
    + discriminate.
    + discriminate.
Qed.

(** A whole batch of handle drops (a user thread-local being destroyed): never a bad event,
    provided the batch does not drop more handles to an object than exist. *)
Theorem run_drops_ok os :
  forall s, wf s -> (forall o, count_occ Nat.eq_dec os o <= rc s o) ->
  exists s', run_drops s os = Some s' /\ wf s' /\ pc_alive s' = pc_alive s.
Proof.
  induction os as [|o r IH]; intros s Hwf Hcnt; cbn.
  - eauto.
  - assert (rc s o > 0) as Hrc.
    { specialize (Hcnt o). cbn in Hcnt. destruct (Nat.eq_dec o o); [lia | congruence]. }
    destruct (drop_cc_ok s o Hwf Hrc) as (s1 & Hd & Hwf1 & Hpa1 & Hoth & Hown & _).
    rewrite Hd.
    destruct (IH s1 Hwf1) as (s' & Hr & Hwf' & Hpa').
    { intros x. specialize (Hcnt x). cbn in Hcnt.
      destruct (Nat.eq_dec o x) as [<-|Hne].
      - rewrite Hown. lia.
      - destruct (Hoth x) as [Hx _]; [congruence|]. rewrite Hx. exact Hcnt. }
    exists s'. split; [assumption|]. split; [assumption | congruence].
Qed.

(** *** C19 teardown, both orders *)

(** Order (i): the user thread-local is destroyed BEFORE POSSIBLE_CYCLES. Its handles are
    dropped while the collector is fully functional (objects may get buffered); then the
    buffer's destructor un-marks and unlinks whatever is buffered. No bad event, and the final
    state has no marked object. *)
Theorem C19_teardown_user_then_pc s os :
  wf s -> (forall o, count_occ Nat.eq_dec os o <= rc s o) ->
  exists s1, run_drops s os = Some s1 /\ wf s1 /\
             let s2 := teardown_pc s1 in
             dead s2 /\ buffer s2 = [] /\ (forall o, marks s2 o = false).
Proof.
  intros Hwf Hcnt. destruct (run_drops_ok os s Hwf Hcnt) as (s1 & Hr & Hwf1 & _).
  exists s1. split; [assumption|]. split; [assumption|].
  destruct (teardown_pc_clears s1 Hwf1) as (H1 & H2 & H3 & _). auto.
Qed.

(** Order (ii): POSSIBLE_CYCLES is destroyed FIRST, the user thread-local afterwards. Every later
    [Cc::drop] finds its object NonMarked and unlinked (so the last-handle path frees a box that
    no list refers to), [add_to_list] does nothing, and nothing is ever buffered again. *)
Theorem C19_teardown_pc_then_user s os :
  wf s -> (forall o, count_occ Nat.eq_dec os o <= rc s o) ->
  let s1 := teardown_pc s in
  exists s2, run_drops s1 os = Some s2 /\ dead s2 /\ buffer s2 = [] /\
             (forall o, marks s2 o = false) /\ buffered_objects_count s2 = None.
Proof.
  intros Hwf Hcnt. cbn zeta.
  destruct (teardown_pc_clears s Hwf) as ([Hwf1 Hpa1] & Hb1 & Hm1 & _ & Hrc1 & _).
  destruct (run_drops_ok os (teardown_pc s) Hwf1) as (s2 & Hr & Hwf2 & Hpa2).
  { now rewrite Hrc1. }
  exists s2. split; [assumption|].
  assert (dead s2) as Hdead by (split; [assumption | congruence]).
  split; [assumption|].
  pose proof Hwf2 as [_ Hm2 _ _ Hd2].
  assert (buffer s2 = []) as Hb2 by (apply Hd2; congruence).
  repeat split; auto.
  - intros o. now apply dead_no_marks.
  - unfold buffered_objects_count. rewrite Hpa2, Hpa1. reflexivity.
Qed.

(** Both orders in one statement (the name used by DESIGN.md). *)
Theorem C19_teardown s os :
  wf s -> (forall o, count_occ Nat.eq_dec os o <= rc s o) ->
  (exists s1, run_drops s os = Some s1 /\ wf s1 /\
              dead (teardown_pc s1) /\ buffer (teardown_pc s1) = [] /\
              (forall o, marks (teardown_pc s1) o = false))
  /\
  (exists s2, run_drops (teardown_pc s) os = Some s2 /\ dead s2 /\ buffer s2 = [] /\
              (forall o, marks s2 o = false) /\ buffered_objects_count s2 = None).
Proof.
  intros Hwf Hcnt. split.
  - destruct (C19_teardown_user_then_pc s os Hwf Hcnt) as (s1 & H1 & H2 & H3).
    exists s1. cbn zeta in H3. tauto.
  - apply (C19_teardown_pc_then_user s os Hwf Hcnt).
Qed.

(** A single drop after teardown, spelled out: a formerly buffered object takes the normal
    path. *)
Theorem drop_cc_after_teardown_ok s o :
  wf s -> rc s o > 0 ->
  exists s', drop_cc_after_teardown s o = Some s' /\ dead s' /\ buffer s' = [] /\
             marks s' o = false /\ (rc s o = 1 -> freed s' o = true).
Proof.
  intros Hwf Hrc. unfold drop_cc_after_teardown.
  destruct (teardown_pc_clears s Hwf) as ([Hwf1 Hpa1] & Hb1 & Hm1 & _ & Hrc1 & _).
  assert (rc (teardown_pc s) o > 0) as Hrc' by now rewrite Hrc1.
  destruct (drop_cc_ok _ o Hwf1 Hrc') as (s' & Hd & Hwf' & Hpa' & _ & _ & Hlast).
  exists s'. split; [assumption|].
  assert (dead s') as Hdead by (split; [assumption | congruence]).
  split; [assumption|]. split; [apply (wf_dead s' Hwf'); congruence|].
  split; [now apply dead_no_marks|].
  intros H1. apply Hlast. now rewrite Hrc1.
Qed.

(** *** Non-vacuity and the role of the destructor *)

Definition ex_tls : tls :=
  {| pc_alive := true; buffer := [2; 0];
     marks := fun o => match o with 0 | 2 => true | _ => false end;
     rc := fun o => match o with 0 => 1 | 1 => 1 | 2 => 2 | _ => 0 end;
     freed := fun _ => false |}.

Lemma ex_tls_wf : wf ex_tls.
Proof.
  constructor; cbn.
  - repeat constructor; cbn; intuition discriminate.
  - intros [|[|[|o]]]; cbn; intuition (try discriminate; try lia).
  - intros o [<-|[<-|[]]]; cbn; split; auto; lia.
  - discriminate.
  - discriminate.
Qed.

(** Order (ii) on a concrete state: objects 0 (buffered, one handle), 1 (unique, not buffered),
    2 (buffered, two handles = e.g. one from a cycle). After the destructor nothing is marked, the
    count query fails, and dropping the user's handles frees 0 and 1, leaves 2 with one handle
    (leaked cycle), buffers nothing. *)
Example ex_pc_then_user :
  let s1 := teardown_pc ex_tls in
  buffered_objects_count ex_tls = Some 2 /\
  buffered_objects_count s1 = None /\ buffer s1 = [] /\
  (marks s1 0, marks s1 1, marks s1 2) = (false, false, false) /\
  match run_drops s1 [0; 1; 2] with
  | Some s2 => (freed s2 0, freed s2 1, freed s2 2, rc s2 2, buffer s2, marks s2 2)
               = (true, true, false, 1, [], false)
  | None => False
  end.
Proof. cbv. repeat split. Qed.

(** Order (i) on the same state: the drops run with the collector alive (2 stays buffered), then
    the destructor clears the buffer. *)
Example ex_user_then_pc :
  match run_drops ex_tls [0; 1; 2] with
  | Some s1 => (freed s1 0, freed s1 1, freed s1 2, buffer s1, marks s1 2) = (true, true, false, [2], true) /\
               let s2 := teardown_pc s1 in (buffer s2, marks s2 2, pc_alive s2) = ([], false, false)
  | None => False
  end.
Proof. cbv. repeat split. Qed.

(** A double drop (more drops than handles) IS a bad event in the model: the theorems are not
    vacuous about [None]. *)
Example ex_double_drop_detected : run_drops ex_tls [0; 0] = None.
Proof. reflexivity. Qed.

(** Without [impl Drop for PossibleCycles] the model reports a bad event in order (ii): the box
    of object 0 would be freed while still marked and linked. (In the crate nothing dereferences
    that stale link afterwards, because every list operation goes through the failed [try_with];
    the model's condition is the stronger "no dangling link exists".) *)
Example ex_nodrop_leaves_dangling_link :
  run_drops (teardown_pc_nodrop ex_tls) [0] = None /\
  marks (teardown_pc_nodrop ex_tls) 0 = true.
Proof. cbv. split; reflexivity. Qed.
