(** * SoleWalk5: the commands preserve the frame for solely owned objects (part 3: new_cyclic,
    cleaners). *)
From Coq Require Import NArith Bool List Lia.
From stdpp Require Import base list option.
From RecordUpdate Require Import RecordSet.
From RC Require Import Hdr Machine RunInd.
From RC Require Import Inv InvP SafeHelpers.
From RC Require Import Clean CleanFrame CleanUFrame.
From RC Require Import SoleInv SolePrim SoleStep.
Import ListNotations RecordSetNotations.
Local Open Scope N_scope.

Section Walk.
  Context (K : conf) (P : prog) (U R : id -> Prop) (mu : id).
  Notation St := (St K U R mu).
  Notation SI := (SI K U R).
  Notation Args := (Args U R).
  Notation Keep := (Keep U R).
  Context (rec : call -> machine -> machine * outcome).
  Hypothesis Hrec : rec_ok (Pre2 K U R mu) (Post2 U R mu) rec.

  Lemma c_new_cyclic self dst cls script sw m :
    St m (Args (KCmd self (CNewCyclic dst cls script sw))) m -> St m True (cmd_new_cyclic K P rec self dst cls script sw m).1.
  Proof.
    intros HS. unfold cmd_new_cyclic. destruct (negb (k_weak K)); [sfin|]. sadv. destruct o as [r|]; [|sfin].
    learn (~ U (length (heap m0)) /\ ~ R (length (heap m0))).
    { split; [eapply SI_notU_new | eapply SI_notR_new]; eauto; apply lookup_ge_None_2; lia. }
    sq_to ((new_node P cls m0).1). unfold new_node in *. cbn [fst snd] in *. cbv beta iota zeta.
    go ltac:(aargs; try contradiction).
  Qed.

  Lemma c_register self nd script c m :
    St m (Args (KCmd self (CRegister nd script c))) m -> St m True (cmd_register K P rec self nd script c m).1.
  Proof.
    intros HS. unfold cmd_register. destruct (negb (k_clean K)); [sfin|].
    sadv. destruct o as [o|]; [|sfin]. learn (~ U o /\ ~ R o). { eauto. } destruct (cslots m0 !! c); [|sfin].
    destruct (get m0 o) as [x|] eqn:Hx; [|sfin]. destruct (negb (c_cleaner (class_of P (o_cls x))) || o_ismap x); [sfin|].
    learn (~ U (length (heap m0)) /\ ~ R (length (heap m0))).
    { split; [eapply SI_notU_new | eapply SI_notR_new]; eauto; apply lookup_ge_None_2; lia. }
    sadv.
    - go aargs.
    - sq_to ((new_map m0).1). unfold new_map in *. cbn [fst snd] in *. cbv beta iota zeta.
      go ltac:(aargs; try contradiction).
  Qed.

  Lemma c_clean self c m : St m (Args (KCmd self (CClean c))) m -> St m True (cmd_clean K rec self c m).1.
  Proof.
    intros HS. unfold cmd_clean. destruct (negb (k_clean K)); [sfin|].
    destruct (mjoin (cslots m !! c)) as [cr|] eqn:Ec; [|sfin].
    learn (~ U (cr_map cr)).
    { eapply SI_wloc; [eassumption|]. right; right; left. exists c, cr. split; [apply mjoin_lookup, Ec | reflexivity]. }
    cbv zeta. go aargs.
  Qed.
End Walk.
