(** * CleanUStep: the activations that touch cleaner maps or need a fact of the count layer,
    modulo taint (see CleanU.v). *)
From Coq Require Import NArith Bool List Lia.
From stdpp Require Import base list option.
From RecordUpdate Require Import RecordSet.
From RC Require Import Hdr Machine RunInd Inv.
From RC Require Import Clean CleanFrame CleanStep CleanStep2 CleanThm CleanReg CleanUFrame CleanU.
Import ListNotations RecordSetNotations.

(** ** The decidable facts of the count / no-dangling layer used below (they follow from its
    pre-conditions: CleanUChk.v) *)
Definition unlinked_b (m : machine) (o : id) : bool :=
  forallb (fun x => negb (eqb_oid (o_cleaner x) o)) (heap m).

Lemma unlinked_b_spec m o : unlinked_b m o = true -> unl m o.
Proof.
  unfold unlinked_b. rewrite forallb_forall. intros H y Hy.
  destruct (cleaner_at_inv _ _ _ Hy) as (x & Hx & Hc).
  assert (Hin : In x (heap m)) by (apply elem_of_list_In; eapply elem_of_list_lookup_2; exact Hx).
  specialize (H x Hin). rewrite Hc in H. cbn in H. rewrite Nat.eqb_refl in H. discriminate.
Qed.

Definition chkU (K : conf) (P : prog) (c : call) (m : machine) : bool :=
  match c with
  | KDropCc o =>
    match get m o with
    | Some x => if o_ismap x && (h_rc (o_hdr x) =? 1)%N then unlinked_b m o else true
    | None => true
    end
  | KCollectOnce =>
    match (trace_pass K P (m <| st_finalizing := false |> <| st_dropping := false |>)).2 with
    | PDone L => forallb (fun g => (g <? length (heap m))%nat && unlinked_b m g) L
    | _ => true
    end
  | KCmd self (CDropValue v) =>
    match mjoin (values m !! v) with Some o => unlinked_b m o | None => true end
  | _ => true
  end.

Lemma exl_get m o x : get m o = Some x -> exl m o.
Proof. intros H. unfold exl. eapply lookup_lt_Some, cv_h_lookup, H. Qed.
Lemma exl_heap m o : (o < length (heap m))%nat -> exl m o.
Proof. unfold exl, cv. cbn [cv_h]. rewrite fmap_length. auto. Qed.

(** an object that no Cleaner names stays so *)
Lemma unl_mono m m' o : mono (cv m) (cv m') -> exl m o -> unl m o -> exl m' o /\ unl m' o.
Proof.
  intros (_ & _ & _ & Hl & _ & HKU) He Hu. split; [unfold exl in *; lia|]. apply (HKU o He Hu).
Qed.
Lemma Rel_mono v v' : Rel v v' -> mono v v'.
Proof. intros ((_ & H & _) & _). exact H. Qed.
Lemma RelW_mono v v' : RelW v v' -> mono v v'.
Proof. intros (_ & H & _). exact H. Qed.
Lemma res_mono v0 x : res v0 x -> mono v0 (cv x.1).
Proof. intros H. apply RelW_mono, res_RelW, H. Qed.

Lemma mem_id_app' o l1 l2 : mem_id o (l1 ++ l2) = mem_id o l1 || mem_id o l2.
Proof. unfold mem_id. apply existsb_app. Qed.

Section StepsU2.
  Context (mu : id) (K : conf) (P : prog).
  Context (rec : call -> machine -> machine * outcome).
  Context (Hrec : rec_ok (Pre2 mu) (Post2 mu) rec).
  Implicit Types (m : machine).

  Notation tn m := (mem_id mu (dead m) = true).
  Notation gd m := (mem_id mu (dead m) = false).

  (** taint persists through [X] *)
  Definition tok (X : machine -> machine * outcome) : Prop := forall m, TR mu None m -> tres mu None (X m).

  Lemma taint_post X c m : tok X -> tn m -> Post2 mu c m (X m).1 (X m).2.
  Proof. intros HX Ht. left. apply tres_None, HX. left; exact Ht. Qed.

  Lemma post_of_tres c m x :
    gd m -> tres mu (Some (cv m)) x -> (gd x.1 -> xPost c m x.1 x.2) -> Post2 mu c m x.1 x.2.
  Proof.
    intros Hg Ht Hx. destruct (mem_id mu (dead x.1)) eqn:Hg'; [left; exact Hg'|].
    right. split; [exact Hg|]. split; [|apply Hx; reflexivity].
    unfold tres in Ht. unfold res. destruct x.2; destruct Ht as [Ht|Ht]; try congruence; exact Ht.
  Qed.

  Lemma gen_post2 X c m :
    gen_okU mu X -> (forall m' r, xPost c m m' r) -> Pre2 mu c m -> Post2 mu c m (X m).1 (X m).2.
  Proof.
    intros HX Hxp HP. destruct (mem_id mu (dead m)) eqn:Hg.
    - apply taint_post; [intros m0; apply HX|exact Hg].
    - destruct HP as [HP|[HI _]]; [congruence|].
      apply post_of_tres; [exact Hg| |intros _; apply Hxp].
      apply HX. right. cbn. apply Rel_refl, HI.
  Qed.

  (** finish from a tainted position: the rest of the activation keeps the taint *)
  Ltac taint_out Ht :=
    left; apply (tres_None mu);
    let H := fresh "Ht" in
    lazymatch type of Ht with
    | mem_id _ (dead ?m2) = true => pose proof (or_introl Ht : TR mu None m2) as H
    end; goU.

  (** *** an action runs *)
  Lemma tok_step_clean_run mo aid s : tok (step_clean_run K P rec mo aid s).
  Proof. intros m H. unfold step_clean_run. goU. Qed.

  Lemma U_step_clean_run mo aid s m :
    Pre2 mu (KCleanRun mo aid s) m ->
    Post2 mu (KCleanRun mo aid s) m (step_clean_run K P rec mo aid s m).1 (step_clean_run K P rec mo aid s m).2.
  Proof.
    intros HP. destruct (mem_id mu (dead m)) eqn:Hg; [apply taint_post; [apply tok_step_clean_run|exact Hg]|].
    destruct HP as [HP|(HI & Hns & Hnx & Hlt)]; [congruence|]. unfold step_clean_run.
    set (m1 := emit (ECb KAction aid (cur_flags K m)) m).
    assert (H1 : Rel (cv m) (cv m1))
      by (unfold m1; rewrite cv_emit_action; apply Rel_exec'; assumption).
    assert (X1 : aid ∈ cv_x (cv m1)) by (unfold m1; rewrite cv_emit_action; cbn; left).
    assert (G1 : gd m1) by exact Hg.
    clearbody m1.
    pose proof (cv_tick KAction m1) as E2. pose proof (dd_tick KAction m1) as D2.
    destruct (tick KAction m1) as [m2 boom]. cbn [fst] in E2, D2.
    assert (G2 : gd m2) by (rewrite D2; exact G1).
    destruct boom.
    - right. cbn [fst snd]. split; [exact Hg|]. split.
      + apply res_raise. rewrite E2. exact H1.
      + intros _. rewrite E2. exact X1.
    - destruct (rec_good mu rec Hrec (KScript None (script_of P s)) m2 G2) as [Ht|[HR _]];
        [rewrite E2; eapply Rel_CIv, H1|exact I| |].
      + left. exact Ht.
      + destruct (rec (KScript None (script_of P s)) m2) as [m3 r3]. cbn [fst snd] in *.
        destruct (mem_id mu (dead m3)) eqn:G3; [left; exact G3|]. right. split; [exact Hg|]. split.
        * eapply res_trans; [|exact HR]. rewrite E2. exact H1.
        * intros _. destruct (res_mono _ _ HR) as (_ & Hx & _). apply Hx. rewrite E2. exact X1.
  Qed.

  (** *** the SlotMap's drop *)
  Lemma tok_step_drop_map_slots o j : tok (step_drop_map_slots rec o j).
  Proof. intros m H. unfold step_drop_map_slots. goU. Qed.

  Lemma U_step_drop_map_slots o j m :
    Pre2 mu (KDropMapSlots o j) m ->
    Post2 mu (KDropMapSlots o j) m (step_drop_map_slots rec o j m).1 (step_drop_map_slots rec o j m).2.
  Proof.
    intros HP. destruct (mem_id mu (dead m)) eqn:Hg; [apply taint_post; [apply tok_step_drop_map_slots|exact Hg]|].
    destruct HP as [HP|(HI & Hun)]; [congruence|]. cbn [xPre] in Hun. unfold step_drop_map_slots.
    destruct (get m o) as [x|] eqn:Ex.
    2: { right. cbn [fst snd]. split; [exact Hg|]. split.
         - apply res_intro. cvs. apply Rel_refl, HI.
         - intros _. cvs. apply (DMS_end o j). intros k a s Hs. rewrite slotv_cv in Hs.
           unfold slot_at in Hs. unfold get in Ex. unfold Machine.id in *. rewrite Ex in Hs.
           discriminate. }
    destruct (o_mslots x !! j) as [sl|] eqn:Esl.
    2: { right. cbn [fst snd]. split; [exact Hg|]. split.
         - apply res_intro, Rel_refl, HI.
         - intros _. apply (DMS_end o j). intros k a s Hs. rewrite slotv_cv in Hs.
           unfold slot_at in Hs. unfold get in Ex. unfold Machine.id in *. rewrite Ex in Hs.
           apply lookup_lt_Some in Hs. apply lookup_ge_None_1 in Esl. lia. }
    cbv zeta.
    set (m1 := upd o (fun x => x <| o_mslots ::= <[j := MVacant]> |>) m).
    assert (E1 : cv m1 = CV (alter (vacate j) o (cv_h (cv m))) (cv_n (cv m)) (cv_x (cv m)))
      by (apply cv_upd_alter; reflexivity).
    assert (HV : vacated o j (view_obj x) (cv m) (cv m1)).
    { rewrite E1. exact (vacate_all (vacate j) (cv m) o j (view_obj x) HI (cv_h_lookup _ _ _ Ex)
                           eq_refl eq_refl eq_refl (or_introl eq_refl)). }
    destruct HV as (HW & HK & En1 & Hn & Hpre).
    assert (G1 : gd m1) by exact Hg.
    clearbody m1.
    assert (Hsl0 : slotv (cv_h (cv m)) o j = Some sl)
      by (rewrite (slotv_eq _ _ _ _ (cv_h_lookup _ _ _ Ex)); exact Esl).
    destruct (unl_mono m m1 o (RelW_mono _ _ HW) (exl_get _ _ _ Ex) Hun) as [He1 Hun1].
    set (X := match sl with
              | MVacant => (m1, ONormal)
              | MAction aid script => rec (KCleanRun o aid script) m1
              end).
    assert (HX : tn X.1 \/ (res (cv m) X /\ RelW (cv m1) (cv X.1))).
    { unfold X. destruct sl as [|aid script].
      - right. split; [|cbn [fst]; apply Rel_RelW, Rel_refl, (RelW_CIv _ _ HW)].
        apply res_intro. eapply Rel_vacate_none; [exact HW|exact HK|exact En1|].
        intros a s. rewrite Hsl0. discriminate.
      - destruct (rec_good mu rec Hrec (KCleanRun o aid script) m1 G1 (RelW_CIv _ _ HW)
                    (Hpre aid script Esl)) as [Ht|[HR Hx]]; [left; exact Ht|].
        right. destruct (rec (KCleanRun o aid script) m1) as [m2 r2]. cbn [fst snd] in *.
        split; [|exact (res_RelW _ _ HR)].
        destruct r2; unfold res in *; cbn [fst snd] in *;
          first [ (eapply Rel_vacate_run; [exact HW|exact HK|exact En1|exact Hsl0|exact HR|apply Hx; discriminate])
                | (eapply RelW_trans; [exact HW|exact HR]) ]. }
    clearbody X. destruct X as [m2 r2]. cbn [fst] in HX.
    destruct HX as [Ht2|[HX HW2]]; [destruct r2; taint_out Ht2|].
    destruct (mem_id mu (dead m2)) eqn:G2; [destruct r2; taint_out G2|].
    destruct (unl_mono m1 m2 o (RelW_mono _ _ HW2) He1 Hun1) as [He2 Hun2].
    destruct r2; unfold res in HX; cbn [fst snd] in HX.
    - (* normal: go on with the next slot *)
      destruct (rec_good mu rec Hrec (KDropMapSlots o (S j)) m2 G2 (Rel_CIv _ _ HX) Hun2) as [Ht|[HR HD]];
        [left; exact Ht|].
      destruct (rec (KDropMapSlots o (S j)) m2) as [m3 r3]. cbn [fst snd] in *.
      destruct (mem_id mu (dead m3)) eqn:G3; [left; exact G3|]. right. split; [exact Hg|].
      split; [eapply res_trans; [exact HX|exact HR]|].
      intros Hno. apply (DMS_step o j _ (cv m1) (cv m2)); auto. exact (res_mono _ _ HR).
    - (* the action panicked: the remaining slots are dropped while unwinding *)
      unfold unwinding.
      assert (E2 : cv (m2 <| panicking := true |>) = cv m2) by (cvs; reflexivity).
      assert (G2' : gd (m2 <| panicking := true |>)) by exact G2.
      destruct (rec_good mu rec Hrec (KDropMapSlots o (S j)) (m2 <| panicking := true |>) G2')
        as [Ht|[HR HD]]; [rewrite E2; exact (Rel_CIv _ _ HX)|cbn [xPre]; unfold unl; rewrite E2; exact Hun2| |].
      + left. destruct (rec (KDropMapSlots o (S j)) (m2 <| panicking := true |>)) as [m3 r3].
        cbn [fst snd] in *. exact Ht.
      + cbn [xPost] in HD. rewrite E2 in HR, HD.
        destruct (rec (KDropMapSlots o (S j)) (m2 <| panicking := true |>)) as [m3 r3].
        cbn [fst snd] in *.
        destruct (mem_id mu (dead m3)) eqn:G3; [left; exact G3|]. right. split; [exact Hg|]. split.
        * eapply res_trans; [exact HX|]. unfold res in *. cbn [fst snd] in *. cvs.
          destruct r3, (panicking m2); auto using Rel_RelW.
        * intros Hno. cvs. apply (DMS_step o j _ (cv m1) (cv m2)); auto.
          -- exact (res_mono _ _ HR).
          -- apply HD. destruct r3, (panicking m2), Hno as [Hno|Hno]; try discriminate;
               first [left; reflexivity|right; reflexivity].
    - right. cbn [fst snd]. split; [exact Hg|]. split; [apply res_intro, HX|]. intros [Hno|Hno]; discriminate.
    - right. cbn [fst snd]. split; [exact Hg|]. split; [exact HX|]. intros [Hno|Hno]; discriminate.
  Qed.

  (** the same tactics with a solver [tac] for the extra pre-condition of the calls *)
  Ltac finX tac :=
    unfold ok;
    lazymatch goal with
    | |- tres _ _ (unwinding _ _) => apply tres_unwinding'; finX tac
    | |- tres _ _ (_, OFuel) => first [apply tres_fuel; relU | apply tres_intro; relU]
    | |- tres _ _ (_, raise _) => apply tres_raise; relU
    | |- tres _ _ (_, _) => apply tres_intro; relU
    | |- tres _ _ (_ _ _) => eapply rec_call; [eassumption | relU | first [xpre | tac]]
    end.
  Ltac res_pairX tac x :=
    let Hr := fresh "Hr" in let m1 := fresh "m" in let r1 := fresh "r" in
    match goal with |- tres ?mu ?v0 _ => assert (Hr : tres mu v0 x) by finX tac end;
    destruct x as [m1 r1]; destruct r1; unfold tres in Hr; cbn [fst snd] in Hr.
  Ltac adv1X tac :=
    inner_scrut ltac:(fun x =>
      lazymatch type of x with
      | (machine * outcome)%type => res_pairX tac x
      | option machine => fail
      | (machine * _)%type => mach_pairU x
      | _ => destruct x eqn:?
      end); cbv beta iota zeta; cbn [negb andb orb].
  Ltac goX tac := cbv beta iota zeta; cbn [negb andb orb]; repeat adv1X tac; finX tac.

  Lemma TR_self m : gd m -> CIv (cv m) -> TR mu (Some (cv m)) m.
  Proof. intros _ HI. right. cbn. apply Rel_refl, HI. Qed.

  (** *** dropping a value *)
  Lemma tok_step_drop_value o : tok (step_drop_value K P rec o).
  Proof. intros m H. unfold step_drop_value. goU. Qed.

  Lemma U_step_drop_value o m :
    Pre2 mu (KDropValue o) m ->
    Post2 mu (KDropValue o) m (step_drop_value K P rec o m).1 (step_drop_value K P rec o m).2.
  Proof.
    intros HP. destruct (mem_id mu (dead m)) eqn:Hg; [apply taint_post; [apply tok_step_drop_value|exact Hg]|].
    destruct HP as [HP|(HI & Hun)]; [congruence|]. cbn [xPre] in Hun.
    pose proof (TR_self m Hg HI) as H0. unfold step_drop_value.
    destruct (get m o) as [x|] eqn:Ex.
    2: { apply post_of_tres; [exact Hg|goU|]. intros _ _ x' Ex'. congruence. }
    destruct (o_ismap x) eqn:Em.
    - (* a map: all its slots *)
      assert (Hu : unl m o).
      { apply Hun. exists (view_obj x). split; [apply cv_h_lookup, Ex|exact Em]. }
      assert (HB : forall Y,
                Y = (let m1 := upd o (fun x => x <| o_vst := VDropping |>) m in
                     let '(m2, r) := rec (KDropMapSlots o 0) m1 in
                     (upd o (fun x => x <| o_vst := VDropped |>) m2, r)) ->
                Post2 mu (KDropValue o) m Y.1 Y.2).
      { intros Y ->. cbv zeta.
        set (m1 := upd o (fun x => x <| o_vst := VDropping |>) m).
        assert (E1 : cv m1 = cv m) by (unfold m1; cvs; reflexivity).
        assert (G1 : gd m1) by exact Hg. clearbody m1.
        destruct (rec_good mu rec Hrec (KDropMapSlots o 0) m1 G1) as [Ht|[HR HD]];
          [rewrite E1; exact HI|cbn [xPre]; unfold unl; rewrite E1; exact Hu| |].
        - left. destruct (rec (KDropMapSlots o 0) m1) as [m2 r2]. cbn [fst snd] in *. exact Ht.
        - cbn [xPost] in HD. rewrite E1 in HR, HD.
          destruct (rec (KDropMapSlots o 0) m1) as [m2 r2]. cbn [fst snd] in *.
          destruct (mem_id mu (dead m2)) eqn:G2; [left; exact G2|]. right. split; [exact Hg|]. split.
          + unfold res in *. cbn [fst snd] in *. cvs. exact HR.
          + intros Hno _ _ _ _. cvs. apply HD, Hno. }
      destruct (o_vst x) eqn:Ev; try (apply HB; reflexivity);
        (apply post_of_tres; [exact Hg|goU|]; intros _ _ x' Ex' _ [Hv|Hv];
         rewrite Ex in Ex'; injection Ex' as <-; congruence).
    - (* a node *)
      apply post_of_tres; [exact Hg| |intros _ _ x' Ex' Em'; rewrite Ex in Ex'; injection Ex' as <-; congruence].
      destruct (o_vst x); goU.
  Qed.

  (** *** Cc::drop: the last handle of a map is released only when no Cleaner names it *)
  Lemma xpre_dv m M o x :
    get m o = Some x -> (is_mapv m o -> unl m o) -> Rel (cv m) (cv M) -> is_mapv M o -> unl M o.
  Proof.
    intros Ex Hu HR (w & Hw & Ew). pose proof (Rel_mono _ _ HR) as Hm.
    destruct Hm as (A & B & Hk & C). destruct (Hk o _ (cv_h_lookup _ _ _ Ex)) as (w' & Hw' & Ew').
    unfold Machine.id in *. rewrite Hw in Hw'. injection Hw' as <-. cbn in Ew'.
    apply (unl_mono m M o (conj A (conj B (conj Hk C))) (exl_get _ _ _ Ex)). apply Hu.
    exists (view_obj x). split; [apply cv_h_lookup, Ex|]. cbn. congruence.
  Qed.

  Lemma tok_step_drop_cc o : tok (step_drop_cc K P rec o).
  Proof. intros m H. unfold step_drop_cc. destruct (k_fin K) eqn:Ek; goU. Qed.

  Lemma U_step_drop_cc o m :
    Pre2 mu (KDropCc o) m -> chkU K P (KDropCc o) m = true ->
    Post2 mu (KDropCc o) m (step_drop_cc K P rec o m).1 (step_drop_cc K P rec o m).2.
  Proof.
    intros HP Hchk. destruct (mem_id mu (dead m)) eqn:Hg; [apply taint_post; [apply tok_step_drop_cc|exact Hg]|].
    destruct HP as [HP|(HI & _)]; [congruence|].
    pose proof (TR_self m Hg HI) as H0.
    apply post_of_tres; [exact Hg| |intros _; exact I].
    unfold step_drop_cc. cbn [chkU] in Hchk.
    destruct (get m o) as [x|] eqn:Ex; [|goU].
    destruct (is_in_list_or_queue (o_hdr x)); [goU|].
    destruct (h_rc (o_hdr x) =? 1)%N eqn:E1; [|goU].
    assert (Hu : is_mapv m o -> unl m o).
    { intros Hm. rewrite (is_mapv_get _ _ _ Hm Ex) in Hchk. cbn in Hchk. apply unlinked_b_spec, Hchk. }
    clear Hchk.
    destruct (k_fin K) eqn:Ek;
      goX ltac:(let HR := fresh in intros _ HR; exact (xpre_dv _ _ _ _ Ex Hu HR)).
  Qed.

  (** *** the collector's drop pass: no member of the list is named by a Cleaner *)
  Lemma tok_step_drop_list L rest old_d : tok (step_drop_list K rec L rest old_d).
  Proof. intros m H. unfold step_drop_list. goU. Qed.

  Lemma U_step_drop_list L rest old_d m :
    Pre2 mu (KDropList L rest old_d) m ->
    Post2 mu (KDropList L rest old_d) m (step_drop_list K rec L rest old_d m).1 (step_drop_list K rec L rest old_d m).2.
  Proof.
    intros HP. destruct (mem_id mu (dead m)) eqn:Hg; [apply taint_post; [apply tok_step_drop_list|exact Hg]|].
    destruct HP as [HP|(HI & Hpre)]; [congruence|]. cbn [xPre] in Hpre.
    pose proof (TR_self m Hg HI) as H0.
    apply post_of_tres; [exact Hg| |intros _; exact I].
    unfold step_drop_list. destruct rest as [|g rest']; [goU|].
    assert (Hg0 : exl m g /\ unl m g) by (apply Hpre; left).
    goX ltac:(let HR := fresh in intros _ HR;
              first [ intros _; exact (proj2 (unl_mono _ _ _ (Rel_mono _ _ HR) (proj1 Hg0) (proj2 Hg0)))
                    | (let g' := fresh in let Hg' := fresh in
                       intros g' Hg'; apply (unl_mono _ _ _ (Rel_mono _ _ HR)); apply Hpre; right; exact Hg') ]).
  Qed.

  Lemma tok_step_finalize_list L rest any old_f : tok (step_finalize_list K P rec L rest any old_f).
  Proof. intros m H. unfold step_finalize_list. goU. Qed.

  Lemma U_step_finalize_list L rest any old_f m :
    Pre2 mu (KFinalizeList L rest any old_f) m ->
    Post2 mu (KFinalizeList L rest any old_f) m
          (step_finalize_list K P rec L rest any old_f m).1 (step_finalize_list K P rec L rest any old_f m).2.
  Proof.
    intros HP. destruct (mem_id mu (dead m)) eqn:Hg; [apply taint_post; [apply tok_step_finalize_list|exact Hg]|].
    destruct HP as [HP|(HI & Hpre)]; [congruence|]. cbn [xPre] in Hpre.
    pose proof (TR_self m Hg HI) as H0.
    apply post_of_tres; [exact Hg| |intros _; exact I].
    unfold step_finalize_list. destruct any.
    - (* a finalizer ran: nothing is claimed of the list any more *)
      goX ltac:(intros _ _ ?; discriminate).
    - specialize (Hpre eq_refl).
      goX ltac:(let HR := fresh in intros _ HR;
                first [ (intros ?; discriminate)
                      | (let g' := fresh in let Hg' := fresh in
                         intros _ g' Hg'; apply (unl_mono _ _ _ (Rel_mono _ _ HR)); apply Hpre; exact Hg')
                      | (let g' := fresh in let Hg' := fresh in
                         intros g' Hg'; apply (unl_mono _ _ _ (Rel_mono _ _ HR)); apply Hpre; exact Hg') ]).
  Qed.

  Lemma tok_step_collect_once : tok (step_collect_once K P rec).
  Proof. intros m H. unfold step_collect_once. goU. Qed.

  Lemma U_step_collect_once m :
    Pre2 mu KCollectOnce m -> chkU K P KCollectOnce m = true ->
    Post2 mu KCollectOnce m (step_collect_once K P rec m).1 (step_collect_once K P rec m).2.
  Proof.
    intros HP Hchk. destruct (mem_id mu (dead m)) eqn:Hg; [apply taint_post; [apply tok_step_collect_once|exact Hg]|].
    destruct HP as [HP|(HI & _)]; [congruence|].
    pose proof (TR_self m Hg HI) as H0.
    apply post_of_tres; [exact Hg| |intros _; exact I].
    unfold step_collect_once. cbn [chkU] in Hchk.
    assert (Hr1 : TR mu (Some (cv m))
                     (trace_pass K P (m <| st_finalizing := false |> <| st_dropping := false |>)).1) by relU.
    destruct (trace_pass K P (m <| st_finalizing := false |> <| st_dropping := false |>)) as [m1 pr].
    cbn [fst snd] in *. cbv beta iota zeta.
    destruct pr as [L| |]; [|goU..].
    assert (HL : forall g, g ∈ L -> exl m g /\ unl m g).
    { intros g Hin. rewrite forallb_forall in Hchk. specialize (Hchk g (proj1 (elem_of_list_In _ _) Hin)).
      apply andb_true_iff in Hchk as [H1 H2]. split; [apply exl_heap, Nat.ltb_lt, H1|apply unlinked_b_spec, H2]. }
    goX ltac:(let HR := fresh in intros _ HR;
              first [ (let g' := fresh in let Hg' := fresh in
                       intros _ g' Hg'; exact (unl_mono _ _ _ (Rel_mono _ _ HR) (proj1 (HL g' Hg')) (proj2 (HL g' Hg'))))
                    | (let g' := fresh in let Hg' := fresh in
                       intros g' Hg'; exact (unl_mono _ _ _ (Rel_mono _ _ HR) (proj1 (HL g' Hg')) (proj2 (HL g' Hg')))) ]).
  Qed.

  (** *** a value moved out by [try_unwrap] is named by no Cleaner *)
  Lemma tok_cmd_drop_value self v : tok (cmd_drop_value rec self v).
  Proof. intros m H. unfold cmd_drop_value. goU. Qed.

  Lemma U_cmd_drop_value self v m :
    gd m -> CIv (cv m) -> chkU K P (KCmd self (CDropValue v)) m = true ->
    tres mu (Some (cv m)) (cmd_drop_value rec self v m).
  Proof.
    intros Hg HI Hchk. pose proof (TR_self m Hg HI) as H0. unfold cmd_drop_value. cbn [chkU] in Hchk.
    destruct (mjoin (values m !! v)) as [o|]; [|goU].
    goX ltac:(intros _ _ _; unfold unl; cvs; exact (unlinked_b_spec _ _ Hchk)).
  Qed.
End StepsU2.
