(** * SafeCollQ: the Buf-side precondition [Q] threaded through the combined induction of
    SafeFinal.v, and [nofuel] ([Buf]'s [dirty] counts [EBad Fuel], part A's [NoBad] does not).
    This file depends on Machine and Buf only (not on part A). *)
From Coq Require Import NArith Bool List Lia.
From stdpp Require Import base list option.
From RC Require Import Hdr Machine RunInd.
From RC Require BufBase BufPass BufStep.
Import ListNotations.

Definition is_fuel_ev (e : event) : bool := match e with EBad Fuel _ => true | _ => false end.
Definition nofuel (m : machine) : Prop := forallb (fun e => negb (is_fuel_ev e)) (log m) = true.
Definition nfspec (rec : call -> machine -> machine * outcome) : Prop :=
  forall c m, nofuel m -> (rec c m).2 <> OFuel -> nofuel (rec c m).1.

Lemma nofuel_log m m' : log m' = log m -> nofuel m -> nofuel m'.
Proof. unfold nofuel. intros ->. auto. Qed.
Lemma nofuel_emit e m : is_fuel_ev e = false -> nofuel m -> nofuel (emit e m).
Proof. unfold nofuel. cbn. intros -> ->. reflexivity. Qed.

(** the Buf-side precondition *)
Definition Q (K : conf) (A : list id) (c : call) (m : machine) : Prop :=
  BufStep.PreA K A c m /\ nofuel m.

(** the non-collector activations (same as [SafeMain.noncollector]) *)
Definition noncoll (c : call) : bool :=
  match c with
  | KCmd _ _ | KScript _ _ | KStore _ _ | KDropCc _ | KDropValue _ | KDropFields _ _
  | KDropMapSlots _ _ | KCleanRun _ _ _ | KUnbag _ => true
  | _ => false
  end.
