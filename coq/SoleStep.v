(** * SoleStep: the pre/post-conditions of the frame for solely owned objects, the chaining
    lemmas and the tactics of the walk. *)
From Coq Require Import NArith Bool List Lia.
From stdpp Require Import base list option.
From RecordUpdate Require Import RecordSet.
From RC Require Import Hdr Machine RunInd.
From RC Require Import Inv InvP SafeHelpers.
From RC Require Import Clean CleanFrame CleanUFrame.
From RC Require Import SoleInv SolePrim.
Import ListNotations RecordSetNotations.
Local Open Scope N_scope.

Section Defs.
  Context (K : conf) (U R : id -> Prop) (mu : id).
  Notation Keep := (Keep U R).
  Notation SI := (SI K U R).
  Notation NoMu := (NoMu mu).

  Definition LocOK (r : rloc) : Prop := forall q j, r = RField q j -> ~ U q /\ ~ R q.
  Definition SelfOK (self : option id) (ns : bool) : Prop := forall g, self = Some g -> ~ U g /\ (R g -> ns = true).

  Definition Args (c : call) : Prop :=
    match c with
    | KCmd self c => SelfOK self (cmd_no_self c)
    | KScript self cs => SelfOK self (forallb cmd_no_self cs)
    | KStore r v => ~ U v /\ LocOK r
    | KDropCc o => ~ U o
    | KDropValue o => ~ U o
    | KDropFields o _ => ~ U o /\ ~ R o
    | KFinalizeList L rest _ _ => (forall g, g ∈ L -> ~ U g) /\ (forall g, g ∈ rest -> ~ U g)
    | KDropList L rest _ => forall g, g ∈ L -> ~ U g
    | _ => True
    end.

  Definition Pre2 (c : call) (m : machine) : Prop := NoMu m -> SI m /\ Args c.
  Definition Post2 (c : call) (m m' : machine) (r : outcome) : Prop := NoMu m' -> NoMu m /\ Keep m m'.

  (** the state [m] of a walk that started in [m0], with the accumulated facts [F] *)
  Definition St (m0 : machine) (F : Prop) (m : machine) : Prop := NoMu m -> NoMu m0 /\ Keep m0 m /\ SI m /\ F.

  Lemma St_init c m : Pre2 c m -> St m (Args c) m.
  Proof. intros H HN. destruct (H HN) as [HS HA]. split; [exact HN|]. split; [apply Keep_refl|]. auto. Qed.
  Lemma St_fin c m0 F m r : St m0 F m -> Post2 c m0 m r.
  Proof. intros H HN. destruct (H HN) as (A & B & _). auto. Qed.
  Lemma St_q m0 F m X : St m0 F m -> dead X = dead m -> (SI m -> F -> Keep m X) -> St m0 F X.
  Proof.
    intros H Hd HK HN. assert (HN' : NoMu m) by (unfold SoleInv.NoMu in *; rewrite <- Hd; exact HN).
    destruct (H HN') as (A & B & C & D). specialize (HK C D).
    split; [exact A|]. split; [eapply Keep_trans; eauto|]. split; [eapply Keep_SI; eauto | exact D].
  Qed.
  Lemma St_dead m0 F m L : St m0 F m -> St m0 F (m <| dead ::= app L |>).
  Proof.
    intros H HN. assert (HN' : NoMu m).
    { unfold SoleInv.NoMu in *. cbn in HN. unfold mem_id in *. rewrite existsb_app in HN. apply orb_false_iff in HN. apply HN. }
    destruct (H HN') as (A & B & C & D). split; [exact A|].
    assert (HK : Keep m (m <| dead ::= app L |>)) by (apply Keep_same; reflexivity).
    split; [eapply Keep_trans; eauto|]. split; [eapply Keep_SI; eauto | exact D].
  Qed.
  Lemma St_learn m0 F (G : Prop) m : St m0 F m -> (SI m -> F -> G) -> St m0 (F /\ G) m.
  Proof. intros H HG HN. destruct (H HN) as (A & B & C & D). auto 6. Qed.
  Lemma St_weaken m0 F (G : Prop) m : St m0 F m -> (F -> G) -> St m0 G m.
  Proof. intros H HG HN. destruct (H HN) as (A & B & C & D). auto 6. Qed.

  Context (rec : call -> machine -> machine * outcome).
  Hypothesis Hrec : rec_ok Pre2 Post2 rec.

  Lemma St_rec m0 F m c : St m0 F m -> (SI m -> F -> Args c) -> St m0 F (rec c m).1.
  Proof.
    intros H HA.
    assert (Hp : Pre2 c m) by (intros HN; destruct (H HN) as (A & B & C & D); auto).
    pose proof (Hrec c m Hp) as HP. intros HN. destruct (HP HN) as [HN' HK].
    destruct (H HN') as (A & B & C & D). split; [exact A|]. split; [eapply Keep_trans; eauto|].
    split; [eapply Keep_SI; eauto | exact D].
  Qed.
  Lemma St_unw m0 F m c : St m0 F m -> (SI m -> F -> Args c) -> St m0 F (unwinding (rec c) m).1.
  Proof.
    intros H HA. unfold unwinding.
    pose proof (St_learn m0 F (Args c) m H HA) as H0.
    assert (H1 : St m0 (F /\ Args c) (m <| panicking := true |>)) by (apply (St_q m0 _ m); [exact H0 | reflexivity | intros; apply Keep_same; reflexivity]).
    pose proof (St_rec m0 _ _ c H1 (fun _ HF => proj2 HF)) as H2. destruct (rec c (m <| panicking := true |>)) as [m1 r1]. cbn [fst] in *.
    apply (St_weaken m0 (F /\ Args c)); [|tauto].
    apply (St_q m0 _ m1); [exact H2 | reflexivity | intros; apply Keep_same; reflexivity].
  Qed.
End Defs.

(** ** Locations *)
Section Loc.
  Context (K : conf) (U R : id -> Prop).
  Notation SI := (SI K U R).
  Notation LocOK := (LocOK U R).
  Notation SelfOK := (SelfOK U R).

  Lemma SelfOK_mono self b b' : SelfOK self b -> (b = true -> b' = true) -> SelfOK self b'.
  Proof. intros H Hb g Hg. destruct (H g Hg) as [H1 H2]. auto. Qed.
  Lemma SelfOK_None b : SelfOK None b.
  Proof. intros g Hg. discriminate. Qed.
  Lemma SelfOK_out g b : ~ U g -> ~ R g -> SelfOK (Some g) b.
  Proof. intros H1 H2 g' [= <-]. split; [exact H1 | contradiction]. Qed.

  Lemma read_loc_notU m r t : SI m -> LocOK r -> read_loc r m = Some t -> ~ U t.
  Proof.
    intros HS Hr. destruct r as [i|q j]; cbn [read_loc].
    - destruct (slots m !! i) as [[t'|]|] eqn:E; cbn; try discriminate. intros [= <-]. eapply SI_slot; eauto.
    - destruct (get m q) as [x|] eqn:Hx; cbn; [|discriminate].
      destruct (o_fields x !! j) as [[t'|]|] eqn:E; cbn; try discriminate. intros [= <-].
      destruct (Hr q j eq_refl). eapply SI_field; eauto.
  Qed.

  Lemma node_via_slot_ok m i o : SI m -> (node_via_slot i m).2 = Some o -> ~ U o /\ ~ R o.
  Proof.
    intros HS. unfold node_via_slot. destruct (slots m !! i) as [[t|]|] eqn:E; try discriminate.
    destruct (get m t) as [x|] eqn:Hx; [|discriminate]. destruct (o_box x); try discriminate.
    destruct (value_accessible false x && negb (o_ismap x)) eqn:Ea; [|discriminate]. cbn. intros [= <-].
    split; [eapply SI_slot; eauto|]. apply andb_true_iff in Ea as [Ea _]. unfold value_accessible in Ea.
    eapply SI_notR_vst; eauto. destruct (o_vst x); discriminate.
  Qed.
  Lemma self_node_ok self m o b : SelfOK self b -> self_node self m = Some o -> ~ U o /\ (R o -> b = true).
  Proof.
    intros Hs. unfold self_node. destruct self as [g|]; [|discriminate]. destruct (get m g); [|discriminate].
    destruct (value_accessible true o0); [|discriminate]. intros [= <-]. apply Hs. reflexivity.
  Qed.

  Lemma resolve_ok self l m r : SI m -> SelfOK self (loc_no_self l) -> (resolve self l m).2 = Some r -> LocOK r.
  Proof.
    intros HS Hs. unfold resolve. destruct l as [i|j|i j]; cbn.
    - destruct (decide _); [|discriminate]. intros [= <-] q j. discriminate.
    - destruct (self_node self m) as [o|] eqn:E; [|discriminate]. cbn.
      destruct (get m o); [|discriminate]. destruct (decide _); [|discriminate]. intros [= <-] q j' [= <- <-].
      destruct (self_node_ok self m o _ Hs E) as [H1 H2]. split; [exact H1|]. intros Hr. specialize (H2 Hr). discriminate.
    - pose proof (node_via_slot_ok m i) as Hn. destruct (node_via_slot i m) as [m1 [o|]]; [|discriminate]. cbn.
      destruct (get m1 o); [|discriminate]. destruct (decide _); [|discriminate]. intros [= <-] q j' [= <- <-].
      apply Hn; [exact HS | reflexivity].
  Qed.
  Lemma nresolve_ok self n m o : SI m -> SelfOK self (node_no_self n) -> (nresolve self n m).2 = Some o -> ~ U o /\ ~ R o.
  Proof.
    intros HS Hs. unfold nresolve. destruct n as [|i]; cbn [snd].
    - intros E. destruct (self_node_ok self m o _ Hs E) as [H1 H2]. split; [exact H1|]. intros Hr. specialize (H2 Hr). discriminate.
    - apply node_via_slot_ok, HS.
  Qed.
  Lemma read_wloc_wloc rw m o : read_wloc rw m = Some (WTo o) -> wloc m o.
  Proof.
    destruct rw as [i|q j|]; cbn [read_wloc].
    - destruct (wslots m !! i) as [[w|]|] eqn:E; cbn; try discriminate. intros [= ->]. left. eauto.
    - destruct (get m q) as [x|] eqn:Hx; cbn; [|discriminate].
      destruct (o_wfields x !! j) as [[w|]|] eqn:E; cbn; try discriminate. intros [= ->]. right; right; right. eauto.
    - destruct (wparam m) as [|w l] eqn:E; cbn; [discriminate|]. intros [= ->]. right; left. rewrite E. left.
  Qed.
  Lemma mjoin_lookup {A} (l : list (option A)) j t : mjoin (l !! j) = Some t -> l !! j = Some (Some t).
  Proof. destruct (l !! j) as [[a|]|]; cbn; congruence. Qed.
End Loc.

(** ** Tactics of the walk *)
Ltac ksame m := apply (K_same _ _ _ m); [reflexivity | reflexivity | reflexivity | reflexivity | reflexivity | reflexivity |].
Ltac wr_prem := let t := fresh in let E := fresh in intros t E; first [discriminate E | injection E as <-; cbn; solve [auto]].
Ltac k1 :=
  cbn [fst snd];
  lazymatch goal with
  | |- SoleInv.Keep _ _ ?a ?a => apply Keep_refl
  | H : SoleInv.Keep _ _ ?a ?b |- SoleInv.Keep _ _ ?a ?b => exact H
  | |- SoleInv.Keep _ _ _ ?X =>
    lazymatch X with
    | emit _ _ => apply K_emit
    | emit_bad _ _ _ => apply K_emit_bad
    | fst (tick _ _) => apply K_tick
    | set_fuse _ _ _ => apply K_set_fuse
    | fst (ok _ _) => apply K_ok
    | remove_from_list _ _ => apply K_remove_from_list
    | add_to_list _ _ => apply K_add_to_list
    | dec_size _ _ => apply K_dec_size
    | uside _ _ _ => apply K_uside
    | sfree _ _ => apply K_sfree
    | drop_metadata _ _ _ => apply K_drop_metadata
    | init_side _ _ => apply K_init_side
    | fst (weak_strong_count _ _) => apply K_weak_strong_count
    | fst (weak_weak_count _ _) => apply K_weak_weak_count
    | weak_drop _ _ => apply K_weak_drop
    | weak_drop_opt _ _ => apply K_weak_drop_opt
    | fst (node_via_slot _ _) => apply K_node_via_slot
    | fst (resolve _ _ _) => apply K_resolve
    | fst (wresolve _ _ _) => apply K_wresolve
    | fst (nresolve _ _ _) => apply K_nresolve
    | fst (map_insert _ _ _ _) => apply K_map_insert
    | adjust _ _ => apply K_adjust
    | adjust_trigger_point _ _ => apply K_adjust_trigger_point
    | unmark_all _ _ => apply K_unmark_all
    | fst (new_node _ _ _) => apply K_new_node
    | fst (new_map _) => apply K_new_map
    | dec_rc_m _ _ => apply K_dec_rc_m; [solve [auto]|]
    | dealloc _ _ _ => apply K_dealloc; [solve [auto]|]
    | box_alloc _ _ _ => apply K_box_alloc; [solve [auto]|]
    | write_loc _ _ _ =>
      apply K_write_loc;
      [ wr_prem
      | match goal with |- forall q j, ?r = RField q j -> ~ ?U q /\ ~ ?R q => change (LocOK U R r) end;
        solve [eauto | (let q := fresh in let j := fresh in let E := fresh in intros q j E; first [discriminate E | injection E as <- <-; auto])]
      | ]
    | write_wloc _ _ _ => apply K_write_wloc; [ wr_prem | ]
    | fold_left _ _ _ => apply K_fold_in; [ let mm := fresh in let a := fresh in let Hin := fresh in let H := fresh in intros mm a Hin H; repeat k1 | ]
    | uhdr _ _ _ =>
      first
      [ (apply K_uhdr_q; [solve [apply hq_mark_NM | apply hq_mark_PC | apply hq_dropped | apply hq_fin | apply hq_reset | apply hq_side | apply hq_unlink]|])
      | (apply K_uhdr_out; [solve [auto]|]) ]
    | upd _ (fun x => x <| o_wfields ::= fmap _ |>) _ => apply K_wfields_clear
    | upd _ (fun x => x <| o_wfields ::= <[_ := _]> |>) _ => apply K_wfields_insert; [solve [auto]|]
    | upd _ (fun x => x <| o_cleaner := _ |>) _ => apply K_cleaner; [ solve [auto] | wr_prem | ]
    | upd _ _ _ =>
      first
      [ (apply K_upd_q; [intros ?; unfold oq, marked; cbn; repeat split; auto; fail|])
      | (apply K_upd_out; [solve [auto] | intros ? ?; cbn; repeat split; auto; try tauto; try discriminate; fail |]) ]
    | set cslots _ _ => apply K_cslots; [ wr_prem | ]
    | set wparam tail _ => apply K_wparam_tail
    | set wparam (cons _) _ => apply K_wparam_cons; [solve [auto]|]
    | set pc _ _ => apply K_set_pc
    | set pc_size _ _ => apply K_set_pc_size
    | set pc_alive _ _ => apply K_set_pc_alive
    | set st_collecting _ _ => apply K_set_st_collecting
    | set st_finalizing _ _ => apply K_set_st_finalizing
    | set st_dropping _ _ => apply K_set_st_dropping
    | set st_alloc _ _ => apply K_set_st_alloc
    | set st_exec _ _ => apply K_set_st_exec
    | set cf_thr _ _ => apply K_set_cf_thr
    | set cf_pnum _ _ => apply K_set_cf_pnum
    | set cf_pexp _ _ => apply K_set_cf_pexp
    | set cf_buf _ _ => apply K_set_cf_buf
    | set cf_auto _ _ => apply K_set_cf_auto
    | set values _ _ => apply K_set_values
    | set fuse_trace _ _ => apply K_set_fuse_trace
    | set fuse_fin _ _ => apply K_set_fuse_fin
    | set fuse_drop _ _ => apply K_set_fuse_drop
    | set fuse_action _ _ => apply K_set_fuse_action
    | set fuse_closure _ _ => apply K_set_fuse_closure
    | set panicking _ _ => apply K_set_panicking
    | set next_aid _ _ => apply K_set_next_aid
    | set log _ _ => apply K_set_log
    | set dead _ _ => apply K_set_dead
    end
  end.
Ltac kq := repeat k1.

Ltac cvdead := unfold ok; cbn [fst snd]; autorewrite with cv; reflexivity.

Ltac conjs :=
  cbn [Args] in *;
  repeat match goal with
         | H : _ /\ _ |- _ => destruct H
         end.

(** [HS : St ... cur] in the context; produce [St ... X] for a state [X] obtained from [cur] by helpers *)
Ltac sq_to X :=
  match goal with
  | HS : St ?K ?U ?R ?mu ?m0 ?F ?cur |- _ =>
    let H := fresh "HS" in
    assert (H : St K U R mu m0 F X) by
      (apply (St_q K U R mu m0 F cur X HS); [cvdead | let HI := fresh "HSI" in let HF := fresh "HF" in intros HI HF; conjs; kq]);
    clear HS
  end.

(** learn a fact (a proposition that does not depend on the state) *)
Ltac learn G :=
  match goal with
  | HS : St ?K ?U ?R ?mu ?m0 ?F ?cur |- _ =>
    let H := fresh "HS" in
    assert (H : St K U R mu m0 (F /\ G) cur);
    [ apply (St_learn K U R mu m0 F G cur HS); let HI := fresh "HSI" in let HF := fresh "HF" in intros HI HF; conjs
    | clear HS ]
  end.

(** the scrutinee evaluated first: the outermost match, descending into its scrutinee *)
Ltac pick t k :=
  lazymatch t with
  | context [match ?x with _ => _ end] => first [ pick x k | k x ]
  end.
Ltac inner k :=
  match goal with
  | |- ?G => pick G k
  end.

(** advance over the scrutinee evaluated first when it is not a recursive call *)
Ltac dpair x :=
  let p := fresh "p" in let E := fresh "E" in
  set (p := x) in *; assert (E : x = p) by reflexivity; clearbody p; destruct p as [? ?]; cbn [fst snd] in *.

Ltac selfok :=
  eapply SelfOK_mono; [eassumption | cbn [cmd_no_self]; let H := fresh in intros H; rewrite ?andb_true_iff in H; tauto].

Ltac sadv_at x :=
  lazymatch x with
  | resolve ?self ?l ?X =>
    sq_to X;
    match goal with
    | HS : St ?K ?U ?R ?mu ?m0 ?F X |- _ =>
      learn (forall r, (resolve self l X).2 = Some r -> LocOK U R r);
      [ let r := fresh in let Hr := fresh in intros r Hr; eapply resolve_ok; [eassumption | | exact Hr]; selfok
      | sq_to (x.1); dpair x ]
    end
  | nresolve ?self ?n ?X =>
    sq_to X;
    match goal with
    | HS : St ?K ?U ?R ?mu ?m0 ?F X |- _ =>
      learn (forall o, (nresolve self n X).2 = Some o -> ~ U o /\ ~ R o);
      [ let r := fresh in let Hr := fresh in intros r Hr; eapply nresolve_ok; [eassumption | | exact Hr]; selfok
      | sq_to (x.1); dpair x ]
    end
  | read_loc ?r ?X =>
    sq_to X;
    match goal with
    | HS : St ?K ?U ?R ?mu ?m0 ?F X |- _ =>
      learn (forall t, read_loc r X = Some t -> ~ U t);
      [ let t := fresh in let Ht := fresh in intros t Ht; eapply read_loc_notU; [eassumption | solve [eauto] | exact Ht]
      | destruct x eqn:? ]
    end
  | read_wloc ?r ?X =>
    sq_to X;
    match goal with
    | HS : St ?K ?U ?R ?mu ?m0 ?F X |- _ =>
      learn (forall t, read_wloc r X = Some (WTo t) -> ~ U t);
      [ let t := fresh in let Ht := fresh in intros t Ht; eapply SI_wloc; [eassumption | eapply read_wloc_wloc; exact Ht]
      | destruct x eqn:? ]
    end
  | weak_clone ?w ?X =>
    sq_to X;
    let E := fresh "Ewc" in
    destruct x as [?|] eqn:E;
    [ match goal with
      | HS : St ?K ?U ?R ?mu ?m0 ?F X, E' : weak_clone w X = Some ?mm |- _ =>
        let H := fresh "HS" in
        assert (H : St K U R mu m0 F mm) by
          (apply (St_q K U R mu m0 F X mm HS); [exact (dd_weak_clone w X mm E') | intros _ _; exact (K_weak_clone U R X w X mm E' (Keep_refl U R X))]);
        clear HS
      end
    | ]
  | mbind _ ?ro => destruct ro eqn:?; cbn [mbind option_bind]
  | o_cleaner ?y =>
    try (match goal with
         | E : get ?X ?o = Some y |- _ =>
           sq_to X;
           match goal with
           | HS : St ?K ?U ?R ?mu ?m0 ?F X |- _ =>
             learn (forall t, o_cleaner y = Some t -> ~ U t);
             [ let t := fresh in let Ht := fresh in intros t Ht; eapply SI_cleaner; [eassumption | exact E | exact Ht] | ]
           end
         end);
    destruct x eqn:?
  | _ =>
    lazymatch type of x with
    | (machine * _)%type => sq_to (x.1); dpair x
    | _ => destruct x eqn:?
    end
  end.
Ltac sadv := inner ltac:(fun x => sadv_at x); cbv beta iota zeta.

(** advance over a recursive call; leaves the goal [Args c] (under [SI] and the facts) *)
Ltac srec_at rec Hrec x :=
  lazymatch x with
  | unwinding (rec ?c) ?X =>
    sq_to X;
    match goal with
    | HS : St ?K ?U ?R ?mu ?m0 ?F X |- _ =>
      let H := fresh "HS" in
      assert (H : St K U R mu m0 F (unwinding (rec c) X).1);
      [ apply (St_unw K U R mu rec Hrec m0 F X c HS); let HI := fresh "HSI" in let HF := fresh "HF" in intros HI HF; conjs
      | clear HS; destruct (unwinding (rec c) X) as [? ?]; cbn [fst snd] in * ]
    end
  | rec ?c ?X =>
    sq_to X;
    match goal with
    | HS : St ?K ?U ?R ?mu ?m0 ?F X |- _ =>
      let H := fresh "HS" in
      assert (H : St K U R mu m0 F (rec c X).1);
      [ apply (St_rec K U R mu rec Hrec m0 F X c HS); let HI := fresh "HSI" in let HF := fresh "HF" in intros HI HF; conjs
      | clear HS; destruct (rec c X) as [? ?]; cbn [fst snd] in * ]
    end
  end.
Ltac srec :=
  match goal with
  | Hrec : rec_ok _ _ ?rec |- _ => inner ltac:(fun x => srec_at rec Hrec x)
  end; cbv beta iota zeta.

(** the end: the goal is [St ... (X, r).1] or [St ... (rec c X).1] *)
Ltac sfin :=
  cbn [fst snd negb];
  match goal with
  | |- St ?K ?U ?R ?mu ?m0 True ?X => eapply (St_weaken K U R mu m0 _ True X); [| exact (fun _ => I)]
  | _ => idtac
  end;
  match goal with
  | Hrec : rec_ok _ _ ?rec |- St _ _ _ _ _ _ ?X =>
    lazymatch X with
    | fst (unwinding (rec ?c) ?Y) =>
      sq_to Y;
      match goal with
      | HS : St ?K ?U ?R ?mu ?m0 ?F Y |- _ =>
        apply (St_unw K U R mu rec Hrec m0 F Y c HS); let HI := fresh "HSI" in let HF := fresh "HF" in intros HI HF; conjs
      end
    | fst (rec ?c ?Y) =>
      sq_to Y;
      match goal with
      | HS : St ?K ?U ?R ?mu ?m0 ?F Y |- _ =>
        apply (St_rec K U R mu rec Hrec m0 F Y c HS); let HI := fresh "HSI" in let HF := fresh "HF" in intros HI HF; conjs
      end
    | _ => sq_to X; eassumption
    end
  end.
Ltac aargs := cbn [Args] in *; conjs; first [ solve [eauto using SelfOK_None, SelfOK_out] | (repeat split; eauto using SelfOK_None, SelfOK_out) ].
Ltac go tac := repeat (cbn [negb]; first [ (srec; [solve [tac] | ]) | sadv ]); try sfin; try solve [tac].

(** the goal contains [rec c (X <| dead ::= app L |>)] *)
Ltac sdead X L :=
  sq_to X;
  match goal with
  | HS : St ?K ?U ?R ?mu ?m0 ?F X |- _ =>
    let H := fresh "HS" in pose proof (St_dead K U R mu m0 F X L HS) as H; clear HS
  end.
