(** * CleanWalkStep8: [Cleaner::register]. *)
From Coq Require Import NArith Bool List Lia.
From stdpp Require Import base list option.
From RecordUpdate Require Import RecordSet.
From RC Require Import Hdr Machine RunInd Inv.
From RC Require Import Clean CleanFrame CleanStep CleanUFrame CleanU CleanUStep.
From RC Require Import CleanWalk CleanWalkRel CleanWalkChk CleanWalkStep CleanWalkStep2 CleanWalkStep3 CleanWalkStep4 CleanWalkStep5 CleanWalkStep7.
Import ListNotations RecordSetNotations.

Definition linked (h : list zobj) (mo : nat) : Prop :=
  exists y wy, h !! y = Some wy /\ z_cleaner wy = Some mo.

Lemma lookup_alter_Some {A} (g : A -> A) (l : list A) o v : l !! o = Some v -> alter g o l !! o = Some (g v).
Proof. intros H. rewrite list_lookup_alter, H. reflexivity. Qed.

Section S8.
  Context (mu : id) (K : conf) (P : prog).
  Context (rec : call -> machine -> machine * outcome).
  Context (Hrec : rec_ok (Pre3 mu) (Post3 mu) rec).
  Implicit Types (m : machine).

  Notation tn m := (mem_id mu (dead m) = true).
  Notation gd m := (mem_id mu (dead m) = false).

  (** an action is stored in a map that some Cleaner names *)
  Lemma TX_insert s (d : list id) h mo f :
    (mem_id mu d = true \/ RJv s h) -> (mem_id mu d = false -> RJv s h -> linked h mo) ->
    mem_id mu d = true \/ RJv s (alter (zslots f) mo h).
  Proof.
    intros [H|H] Hl; [left; exact H|]. destruct (mem_id mu d) eqn:Hd; [left; reflexivity|right].
    destruct (Hl eq_refl H) as (y & wy & Hy & Hc).
    destruct s as [[[e n] h0]|]; [|destruct H]. destruct H as (HR & HJ & Hle).
    split; [|split; [|exact Hle]].
    - eapply R_trans; [exact HR|]. apply R_alter. intros w Hw.
      split; [reflexivity|]. split; [left; reflexivity|].
      split; [right; left; intros Hu; exact (Hu y wy Hy Hc)|].
      split; [|auto]. cbn. destruct (z_box w) eqn:Eb; try (right; right; left; discriminate).
      destruct (zdeadb w) eqn:Ed; [right; right; right; left; reflexivity|].
      right; right; right; right. unfold zdeadb in *. cbn. auto.
    - apply J_alter; [exact HJ|]. intros w Hw. split; [reflexivity|]. split; [left; reflexivity|].
      intros Hm Hdd. exfalso. destruct (proj1 HJ mo w Hw Hm Hdd) as [Hu _]. exact (Hu y wy Hy Hc).
  Qed.

  Lemma TX_map_insert s mo a sc m :
    TX mu s m -> (gd m -> RJv s (zv m) -> linked (zv m) mo) -> TX mu s (map_insert mo a sc m).1.
  Proof.
    intros H Hl. unfold map_insert. destruct (get m mo) as [x|]; [|cbn [fst]; cvs; exact H].
    destruct (o_mfree x) as [|i fr]; cbn [fst].
    - rewrite (zv_upd_alter _ (zslots (fun l => l ++ [MAction a sc]))) by (intros; reflexivity).
      apply TX_insert; assumption.
    - rewrite (zv_upd_alter _ (zslots (<[i := MAction a sc]>))) by (intros; reflexivity).
      apply TX_insert; assumption.
  Qed.

  (** a Cleaner is given the fresh map [p] *)
  Lemma TX_link (d : list id) h o p e n h0 :
    n <= p -> p <> o ->
    (mem_id mu d = false -> p < length h /\ forall wm, h !! p = Some wm -> z_ismap wm = true -> zdeadb wm = false) ->
    (mem_id mu d = true \/ RJv (Some (e, n, h0)) h) ->
    mem_id mu d = true \/ RJv (Some (e, n, h0)) (alter (zcl (Some p)) o h).
  Proof.
    intros Hn Hne Hp [H|H]; [left; exact H|]. destruct (mem_id mu d) eqn:Hd; [left; reflexivity|right].
    destruct (Hp eq_refl) as [Hlt Hnd]. destruct H as (HR & HJ & Hle).
    split; [|split; [|exact Hle]].
    - eapply R_trans; [exact HR|]. apply R_alter. intros w Hw.
      split; [reflexivity|]. split; [right; right; exists p; split; [reflexivity|exact Hn]|].
      split; [left; auto|].
      split; [|auto]. cbn. destruct (z_box w) eqn:Eb; try (right; right; left; discriminate).
      destruct (zdeadb w) eqn:Ed; [right; right; right; left; reflexivity|].
      right; right; right; right. unfold zdeadb in *. cbn. auto.
    - apply J_alter; [exact HJ|]. intros w Hw. split; [reflexivity|].
      split; [right; right; exists p; split; [reflexivity|split; [exact Hne|split; [exact Hlt|exact Hnd]]]|].
      intros Hm Hdd. exact (proj1 HJ o w Hw Hm Hdd).
  Qed.

  (** *** the part of [register] after the map has been found or made *)
  Definition reg_tail (c script : nat) (m : machine) (mo : id) (r : outcome) : machine * outcome :=
    match r with
    | ONormal =>
      match get m mo with
      | Some mx =>
        if o_mborrowed mx then (m, raise m)
        else
          let aid := next_aid m in
          let m := m <| next_aid := S aid |> in
          let '(m, slot) := map_insert mo aid script m in
          let m := init_side mo m in
          match (side_wk m mo ≫= inc_wk) with
          | None => (m, raise m)
          | Some k =>
            let m := remove_from_list mo (uside mo (fun _ => k) m) in
            let old := mjoin (cslots m !! c) in
            let m := m <| cslots ::= <[c := Some (Cref mo slot aid)]> |> in
            let m := match old with Some cr => weak_drop (WTo (cr_map cr)) m | None => m end in
            ok m ROk
          end
      | None => (emit_bad BadState mo m, ONormal)
      end
    | _ => (m, r)
    end.

  Lemma reg_tail_ok s c script m mo r :
    xres mu s (m, r) -> (r = ONormal -> gd m -> RJv s (zv m) -> linked (zv m) mo) ->
    xres mu s (reg_tail c script m mo r).
  Proof.
    intros Hx Hl. unfold reg_tail. destruct r; try exact Hx.
    unfold xres in Hx. cbn [fst snd] in Hx. specialize (Hl eq_refl).
    destruct (get m mo) as [mx|]; [|goT].
    destruct (o_mborrowed mx); [goT|]. cbv zeta.
    assert (Hi : TX mu s (map_insert mo (next_aid m) script (m <| next_aid := S (next_aid m) |>)).1).
    { apply TX_map_insert; cvs; assumption. }
    destruct (map_insert mo (next_aid m) script (m <| next_aid := S (next_aid m) |>)) as [m1 slot].
    cbn [fst] in Hi. goT.
  Qed.

  Lemma w_cmd_register self nd script c : gen_okW mu (cmd_register K P rec self nd script c).
  Proof.
    intros s m H. revert H. apply gen_entry; [apply tok_cmd_register; exact Hrec|].
    intros e n h0 -> Hg H Hn.
    unfold cmd_register. destruct (negb (k_clean K)); [goT|].
    assert (Hr1 : TX mu (Some (e, n, h0)) (nresolve self nd m).1) by relW.
    assert (Ez : zv (nresolve self nd m).1 = zv m) by (cvs; reflexivity).
    assert (Ed : dead (nresolve self nd m).1 = dead m) by (cvs; reflexivity).
    destruct (nresolve self nd m) as [m0 no]. cbn [fst snd] in *.
    destruct no as [o|]; [|goT]. destruct (cslots m0 !! c) as [oc|]; [|goT].
    destruct (get m0 o) as [x|] eqn:Ex; [|goT].
    destruct (negb (c_cleaner (class_of P (o_cls x))) || o_ismap x) eqn:Ecl; [goT|].
    assert (Hwo : zv m0 !! o = Some (zview_obj x)) by (apply zv_lookup, Ex).
    assert (HJ0 : J (zv m0)).
    { destruct Hr1 as [Hr1|(_ & HJ0 & _)]; [rewrite Ed in Hr1; congruence|exact HJ0]. }
    destruct (o_cleaner x) as [mo|] eqn:Ec.
    - (* the Cleaner already has a map *)
      cbv beta iota zeta.
      refine (reg_tail_ok _ c script m0 mo ONormal _ _); [exact Hr1|].
      intros _ _ _. exists o, (zview_obj x). split; [exact Hwo|exact Ec].
    - (* a new map *)
      assert (Hr2 : TX mu (Some (e, n, h0)) (new_map m0).1) by relW.
      assert (Ep : (new_map m0).2 = length (heap m0)) by reflexivity.
      pose proof (zv_new_map m0) as E1.
      assert (Ed1 : dead (new_map m0).1 = dead m0) by reflexivity.
      destruct (new_map m0) as [m1 p]. cbn [fst snd] in *.
      assert (Epz : p = length (zv m0)) by (rewrite zv_length; exact Ep).
      assert (Hnp : n <= p) by (rewrite Epz, Ez; exact Hn).
      assert (Hop : o < p) by (rewrite Epz; eapply lookup_lt_Some, Hwo).
      set (w0 := ZObj VLive BNotYet true [] None) in *.
      assert (Hw1 : zv m1 !! p = Some w0) by (rewrite E1, Epz; apply lookup_snoc_len).
      assert (Hl1 : p < length (zv m1)) by (eapply lookup_lt_Some, Hw1).
      assert (Hu1 : zunl (zv m1) p).
      { intros y wy Hy Hc. rewrite E1 in Hy. apply lookup_app_Some in Hy as [Hy|[_ Hy]].
        - pose proof (proj2 HJ0 y wy p Hy Hc). lia.
        - destruct (y - length (zv m0)) as [|i]; cbn in Hy; [|discriminate]. injection Hy as <-. discriminate. }
      clear Ep.
      set (X := if k_auto K then rec KTrigger m1 else (m1, ONormal)).
      assert (FX : xres mu (Some (e, n, h0)) X /\
                   (okr X.2 = true -> tn X.1 \/ R None (length (zv m1)) (zv m1) (zv X.1))).
      { unfold X. destruct (k_auto K).
        - destruct (rec_both mu rec Hrec KTrigger _ m1 Hr2 eq_refl (fun _ _ => I)) as [A B].
          split; [exact A|]. intros Hr. destruct (B Hr) as [HT|(_ & HRt)]; [left; exact HT|right; exact HRt].
        - split; [apply xres_intro, Hr2|]. intros _. right. apply R_refl. }
      fold X. clearbody X. destruct X as [m2 t]. destruct FX as [Hr FR]. unfold xres in Hr. cbn [fst snd] in *.
      (* what is known of the fresh map after the collection *)
      assert (FP : okr t = true -> tn m2 \/
                   ((exists w2, zv m2 !! p = Some w2 /\ z_ismap w2 = true /\ z_box w2 = BNotYet /\
                                zdeadb w2 = false /\ noact (z_slots w2)) /\
                    zunl (zv m2) p /\ p < length (zv m2))).
      { intros Ht. destruct (FR Ht) as [HT|HRt]; [left; exact HT|right].
        destruct (r_v _ _ _ _ HRt p w0 Hl1 Hw1 ltac:(discriminate) eq_refl eq_refl) as (w2 & Hw2 & Hb2 & Hd2).
        destruct (r_ism _ _ _ _ HRt p w0 Hw1) as (w2' & Hw2' & Em2).
        pose proof (eq_trans (eq_sym Hw2) Hw2') as [= <-].
        split; [|split; [exact (zunl_mono _ _ _ _ _ HRt Hl1 Hu1)|eapply lookup_lt_Some, Hw2]].
        exists w2. repeat split; auto. intros k a sc Hk.
        destruct (r_ku _ _ _ _ HRt p Hl1 Hu1 w2 k a sc Hw2 Hk) as (w1 & Hw1' & Hs1).
        pose proof (eq_trans (eq_sym Hw1) Hw1') as [= <-]. cbn in Hs1. rewrite lookup_nil in Hs1. discriminate. }
      clear FR.
      destruct t; cbv beta iota zeta.
      + (* the collection returned *)
        specialize (FP eq_refl).
        set (mb := box_alloc K p m2).
        assert (Eb : zv mb = alter (zbox BAlloc) p (zv m2)) by (unfold mb; cvs; reflexivity).
        assert (Db : dead mb = dead m2) by (unfold mb; cvs; reflexivity).
        assert (Hrb : TX mu (Some (e, n, h0)) mb).
        { rewrite Eb, Db. apply TX_zbox_fresh; [exact Hnp|discriminate|exact Hr]. }
        clearbody mb.
        destruct (get mb o ≫= o_cleaner) as [existing|] eqn:Eex.
        * (* the Cleaner got a map meanwhile: the spare one is dropped *)
          assert (Hc3 : xres mu (Some (e, n, h0)) (rec (KDropCc p) mb))
            by (eapply rec_call; [exact Hrec|exact Hrb|reflexivity|intros _ _; exact I]).
          pose proof (rec_good mu rec Hrec (KDropCc p) mb) as HG.
          pose proof (rec_taint mu rec Hrec (KDropCc p) mb) as HTt.
          destruct (rec (KDropCc p) mb) as [m3 r3]. cbn [fst snd] in *.
          refine (reg_tail_ok _ c script m3 existing r3 Hc3 _).
          intros -> G3 _.
          destruct (mem_id mu (dead mb)) eqn:Gb; [rewrite (HTt eq_refl eq_refl) in G3; discriminate|].
          destruct FP as [FP|((w2 & Hw2 & Hm2 & Hb2 & Hd2 & Hna2) & Hu2 & Hl2)]; [rewrite Db in Gb; congruence|].
          assert (HJb : J (zv mb)) by (destruct Hrb as [Hrb|(_ & HJb & _)]; [congruence|exact HJb]).
          destruct (HG eq_refl HJb I eq_refl) as [HT|(_ & _ & Hq)]; [congruence|].
          cbn [xPost] in Hq.
          assert (Hwb : zv mb !! p = Some (zbox BAlloc w2)) by (rewrite Eb; apply lookup_alter_Some, Hw2).
          destruct (get mb o) as [xo|] eqn:Exo; [|discriminate]. cbn in Eex.
          exists o, (zview_obj xo). split; [|exact Eex].
          rewrite (Hq _ Hwb Hm2 Hna2 o ltac:(lia)). apply zv_lookup, Exo.
        * (* the fresh map is given to the Cleaner *)
          set (m4 := upd o (fun x0 => x0 <| o_cleaner := Some p |>) mb).
          assert (E4 : zv m4 = alter (zcl (Some p)) o (zv mb)) by (apply zv_upd_alter; intros; reflexivity).
          assert (D4 : dead m4 = dead mb) by reflexivity.
          clearbody m4.
          refine (reg_tail_ok _ c script m4 p ONormal _ _).
          -- unfold xres. cbn [fst snd]. rewrite E4, D4. apply TX_link; [exact Hnp|lia| |exact Hrb].
             intros Gb. destruct FP as [FP|((w2 & Hw2 & Hm2 & Hb2 & Hd2 & Hna2) & Hu2 & Hl2)]; [rewrite Db in Gb; congruence|].
             split; [rewrite Eb, alter_length; exact Hl2|].
             intros wm Hwm _. rewrite Eb in Hwm. pose proof (eq_trans (eq_sym Hwm) (lookup_alter_Some (zbox BAlloc) _ _ _ Hw2)) as [= ->]. exact Hd2.
          -- intros _ G4 _.
             destruct FP as [FP|(_ & _ & Hl2)]; [rewrite D4, Db in G4; congruence|].
             assert (Hlo : o < length (zv mb)) by (rewrite Eb, alter_length; lia).
             apply lookup_lt_is_Some in Hlo as [wo Hwo'].
             exists o, (zcl (Some p) wo). split; [rewrite E4; apply lookup_alter_Some, Hwo'|reflexivity].
      + (* the collection panicked: the fresh value is dropped *)
        assert (Hu : xres mu (Some (e, n, h0)) (unwinding (rec (KDropValue p)) m2)).
        { apply xres_unwinding'. eapply rec_call_dv; [exact Hrec|relW|].
          intros Hg2 _. split; [|right; left; exact Hnp].
          cbn [xPre]. cvs. intros w Hw Hm.
          destruct (FP eq_refl) as [HT|(_ & Hu2 & _)]; [autorewrite with cv in Hg2; congruence|exact Hu2]. }
        pose proof (unwinding_not_normal (rec (KDropValue p)) m2) as Hnn.
        destruct (unwinding (rec (KDropValue p)) m2) as [m3 r3]. cbn [fst snd] in *.
        refine (reg_tail_ok _ c script m3 p r3 Hu _). intros ->. congruence.
      + exact I.
      + exact I.
  Qed.
End S8.
