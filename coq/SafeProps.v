(** * SafeProps: property-level lemmas on top of the strengthened invariant: exact counts seen by the program, the safety half of upgrade (C08), the functional specification of try_unwrap, saturation of the counters. *)
From Coq Require Import NArith Bool List Lia.
From stdpp Require Import base list option.
From RecordUpdate Require Import RecordSet.
From RC Require Import Hdr Machine RunInd Inv InvP SafeHelpers SafePrims SafeCalls SafeGlue SafeDrop SafeCmd SafeCyclic SafeMain.
Import ListNotations RecordSetNotations.
Local Open Scope N_scope.

(** ** Property-level lemmas (C08 safety half, exact counts, try_unwrap, saturation) *)
Section Props.
  Context (K : conf).
  Implicit Types (m : machine) (o : id) (x : obj).

  (** Cc::strong_count / weak_count as seen by the program are the numbers of existing handles *)
  Lemma obs_reports_exact_count E self l m r o :
    SInv K true E [] m -> resolve self l m = (m, Some r) -> read_loc r m = Some o -> good_h m o ->
    exists x, get m o = Some x /\
      cmd_obs self l m =
      ok (emit (EObs o (N.of_nat (refs m o + cnt_id o E)) (N.of_nat (wrefs m o)) (h_fin (o_hdr x)) true) m) ROk.
  Proof.
    intros HI Hres Hr (x & Hx & Hb & Hv & _). exists x. split; [exact Hx|].
    unfold cmd_obs. rewrite Hres. cbn [mbind option_bind]. rewrite Hr, Hx, Hb, Hv.
    destruct (okN_alloc K _ _ _ _ _ (sv_obj _ _ _ _ _ HI _ _ Hx) Hb) as (_ & O2 & _ & _ & O5 & _).
    rewrite (O2 eq_refl). unfold cnt_wr in O5. cbn in O5. change (cnt_w o []) with 0%nat in O5. rewrite Nat.add_0_r in O5.
    destruct (o_side x) as [s|].
    - destruct O5 as (-> & _ & _ & -> & _). reflexivity.
    - destruct O5 as (-> & ->). reflexivity.
  Qed.

  (** C08 (safety half): an upgrade never gives access to a dropped, freed or dying value *)
  Lemma upgrade_safe b E W m o sc :
    SInv K b E W m -> k_weak K = true -> (0 < wrefs m o + cnt_wr o W)%nat ->
    weak_strong_count (WTo o) m = (m, sc) -> sc <> 0 ->
    exists x, get m o = Some x /\ o_box x = BAlloc /\ o_vst x = VLive /\ inD m o = false /\
              is_dropped (o_hdr x) = false /\ h_rc (o_hdr x) = sc.
  Proof.
    intros HI Hk Hpos Hw Hsc. destruct (weak_strong_count_ok K b E W m o HI Hk Hpos) as (sc' & Hw' & Hs).
    assert (sc' = sc) by congruence. subst sc'. destruct (Hs Hsc) as (x & ? & ? & ? & ? & ? & ?). exists x. auto 8.
  Qed.

  (** Cc::clone / Weak::upgrade at the maximum strong count panic and change nothing *)
  Lemma clone_saturates rec self src dst m rs rd o :
    resolve self src m = (m, Some rs) -> resolve self dst m = (m, Some rd) -> read_loc rs m = Some o ->
    h_rc (hdr_of m o) = max_rc ->
    cmd_clone rec self src dst m = (m, raise m).
  Proof.
    intros H1 H2 Hr Hmax. unfold cmd_clone. rewrite H1, H2, Hr. unfold inc_rc. rewrite Hmax, N.eqb_refl. reflexivity.
  Qed.
  Lemma upgrade_saturates rec self w dst m rw rd o sc :
    k_weak K = true -> wresolve self w m = (m, Some rw) -> resolve self dst m = (m, Some rd) ->
    read_wloc rw m = Some (WTo o) -> weak_strong_count (WTo o) m = (m, sc) -> sc <> 0 ->
    h_rc (hdr_of m o) = max_rc ->
    cmd_upgrade K rec self w dst m = (m, raise m).
  Proof.
    intros Hk H1 H2 Hr Hw Hsc Hmax. unfold cmd_upgrade. rewrite Hk. cbn [negb]. rewrite H1, H2. cbn [mbind option_bind]. rewrite Hr, Hw.
    apply N.eqb_neq in Hsc. rewrite Hsc. unfold inc_rc. rewrite Hmax, N.eqb_refl. reflexivity.
  Qed.
  (** Weak::clone at the maximum weak count *)
  Lemma w_clone_saturates self src dst m rs rd o k :
    k_weak K = true -> wresolve self src m = (m, Some rs) -> wresolve self dst m = (m, Some rd) ->
    read_wloc rs m = Some (WTo o) -> wloc_writable rd = true -> side_wk m o = Some k -> w_cnt k = max_weak ->
    cmd_w_clone K self src dst m = (m, raise m).
  Proof.
    intros Hk H1 H2 Hr Hwr Hs Hmax. unfold cmd_w_clone. rewrite Hk. cbn [negb]. rewrite H1, H2. cbn [mbind option_bind].
    rewrite Hr, Hwr. cbn [negb weak_clone]. rewrite Hs. unfold inc_wk. rewrite Hmax, N.eqb_refl. reflexivity.
  Qed.
  (** Cc::downgrade at the maximum weak count (the side record exists: nothing is allocated) *)
  Lemma downgrade_saturates self l w m r rw o x s :
    k_weak K = true -> resolve self l m = (m, Some r) -> wresolve self w m = (m, Some rw) ->
    read_loc r m = Some o -> wloc_writable rw = true -> get m o = Some x -> h_side (o_hdr x) = true ->
    o_side x = Some s -> w_cnt (sd_wk s) = max_weak ->
    cmd_downgrade K self l w m = (m, raise m).
  Proof.
    intros Hk H1 H2 Hr Hwr Hx Hsd Hs Hmax. unfold cmd_downgrade. rewrite Hk. cbn [negb]. rewrite H1, H2. cbn [mbind option_bind].
    rewrite Hr, Hwr. cbn [negb]. unfold init_side. rewrite Hx, Hsd. unfold side_wk. rewrite Hx. cbn. rewrite Hs. cbn.
    unfold inc_wk. rewrite Hmax, N.eqb_refl. reflexivity.
  Qed.
End Props.

(** ** try_unwrap (C13-style functional specification) *)
Definition ev_free (e : event) : bool :=
  match e with EFree _ _ _ | ESFree _ | EBad _ _ => true | _ => false end.
(** the log grew by events of the allocator only (in particular: no callback ran) *)
Definition lext (m m' : machine) : Prop := exists l, log m' = l ++ log m /\ forallb ev_free l = true.
Lemma lext_refl m : lext m m.
Proof. exists []. split; reflexivity. Qed.
Lemma lext_trans m1 m2 m3 : lext m1 m2 -> lext m2 m3 -> lext m1 m3.
Proof.
  intros (l1 & E1 & F1) (l2 & E2 & F2). exists (l2 ++ l1). split; [rewrite E2, E1, app_assoc; reflexivity|].
  rewrite forallb_app, F1, F2. reflexivity.
Qed.
Lemma lext_log m m' : log m' = log m -> lext m m'.
Proof. intros H. exists []. split; [exact H | reflexivity]. Qed.
Lemma lext_emit e m : ev_free e = true -> lext m (emit e m).
Proof. intros H. exists [e]. split; [reflexivity | cbn; rewrite H; reflexivity]. Qed.

Section Unwrap.
  Context (K : conf).
  Implicit Types (m : machine) (o : id) (x : obj).

  Lemma lext_remove_from_list o m : lext m (remove_from_list o m).
  Proof.
    unfold remove_from_list. destruct (is_in_pc (hdr_of m o)); [|apply lext_refl]. destruct (pc_alive m); [|apply lext_refl].
    unfold dec_size. match goal with |- context [if ?c then _ else _] => destruct c end.
    - eapply lext_trans; [|apply lext_emit; reflexivity]. apply lext_log. reflexivity.
    - apply lext_log. reflexivity.
  Qed.
  Lemma lext_sfree o m : lext m (sfree o m).
  Proof.
    unfold sfree. destruct (get m o) as [x|]; [|apply lext_emit; reflexivity].
    destruct (o_side x) as [s|]; [|apply lext_emit; reflexivity].
    destruct (sd_freed s).
    - eapply lext_trans; [apply (lext_emit (EBad DoubleFree o)); reflexivity|].
      eapply lext_trans; [|apply lext_emit; reflexivity]. apply lext_log. reflexivity.
    - eapply lext_trans; [|apply lext_emit; reflexivity]. apply lext_log. reflexivity.
  Qed.
  Lemma lext_drop_metadata o m : lext m (drop_metadata K o m).
  Proof.
    unfold drop_metadata. destruct (negb (k_weak K)); [apply lext_refl|]. destruct (get m o) as [x|]; [|apply lext_emit; reflexivity].
    destruct (h_side (o_hdr x)); [|apply lext_refl]. destruct (o_side x) as [s|]; [|apply lext_emit; reflexivity].
    destruct (w_cnt (sd_wk s) =? 0).
    - destruct (sd_freed s); [eapply lext_trans; [apply (lext_emit (EBad UseAfterFree o)); reflexivity | apply lext_sfree] | apply lext_sfree].
    - destruct (sd_freed s); [eapply lext_trans; [apply (lext_emit (EBad UseAfterFree o)); reflexivity | apply lext_log; reflexivity] | apply lext_log; reflexivity].
  Qed.

  Lemma pc_values_dealloc o m : pc (dealloc K o m) = pc m /\ values (dealloc K o m) = values m.
  Proof.
    unfold dealloc. destruct (get m o) as [y|]; [|split; reflexivity]. destruct (box_layout K y) as [sz al].
    destruct (o_box y); repeat (match goal with |- context [if ?c then _ else _] => destruct c end); split; reflexivity.
  Qed.

  (** not uniquely owned (or a collector phase is running): Err, nothing changes *)
  Lemma try_unwrap_err self l v m r o :
    resolve self l m = (m, Some r) -> values m !! v = Some None -> read_loc r m = Some o ->
    (h_rc (hdr_of m o) <> 1 \/ st_collecting m || st_dropping m || (k_fin K && st_finalizing m) = true) ->
    cmd_try_unwrap K self l v m = ok m RUnwrapErr.
  Proof.
    intros H1 Hv Hr Hc. unfold cmd_try_unwrap. rewrite H1, Hv, Hr.
    destruct (h_rc (hdr_of m o) =? 1) eqn:E1; cbn [negb]; [|reflexivity].
    apply N.eqb_eq in E1. destruct Hc as [Hc|Hc]; [congruence|]. rewrite Hc. reflexivity.
  Qed.

  (** uniquely owned, no collector phase: Ok; the value is moved out, the box is freed at once
      with its layout, no callback runs, the object leaves the buffer, Weak handles see 0 *)
  Lemma try_unwrap_ok b E self l v m r o x :
    NoBad m -> SInv K b E [] m -> resolve self l m = (m, Some r) -> values m !! v = Some None -> read_loc r m = Some o ->
    get m o = Some x -> o_box x = BAlloc -> h_rc (o_hdr x) = 1 ->
    st_collecting m || st_dropping m || (k_fin K && st_finalizing m) = false ->
    exists mf, cmd_try_unwrap K self l v m = ok mf RUnwrapOk /\ lext m mf /\
      In (EFree o (box_layout K x).1 (box_layout K x).2) (log mf) /\
      (exists y, get mf o = Some y /\ o_vst y = VMoved /\ o_box y = BFreed /\
                 (forall s, o_side y = Some s -> sd_freed s = false -> w_acc (sd_wk s) = false)) /\
      o ∉ pc mf /\ values mf !! v = Some (Some o).
  Proof.
    intros Hnb HI H1 Hv Hr Hx Hb Hrc Hfl. unfold cmd_try_unwrap. rewrite H1, Hv, Hr, (hdr_of_get _ _ _ Hx), Hrc, N.eqb_refl, Hfl. cbn [negb].
    eexists. split; [reflexivity|].
    set (m1 := write_loc r None m). set (m2 := remove_from_list o m1).
    set (m3 := upd o (fun x => x <| o_vst := VMoved |>) m2). set (m4 := m3 <| values ::= <[v := Some o]> |>).
    (* the object through the updates *)
    assert (Hx1 : exists x1, get m1 o = Some x1 /\ o_hdr x1 = o_hdr x /\ o_side x1 = o_side x /\ o_box x1 = BAlloc /\ o_ismap x1 = o_ismap x).
    { unfold m1. destruct r as [i|p j]; cbn [write_loc]; [exists x; auto|]. rewrite get_upd.
      destruct (decide (p = o)) as [->|]; [rewrite Hx; cbn; eexists; split; [reflexivity|]; auto | exists x; auto]. }
    destruct Hx1 as (x1 & Hx1 & Hh1 & Hs1 & Hb1 & Hm1).
    destruct (remove_from_list_obj m1 o x1 Hx1) as (x2 & Hx2 & (S1 & S2 & S3 & S4 & S5 & _) & R1 & R2 & R3 & _). fold m2 in Hx2.
    set (x4 := x2 <| o_vst := VMoved |>).
    assert (Hx4 : get m4 o = Some x4) by (apply get_upd_eq, Hx2).
    assert (Hnpc : o ∉ pc m2).
    { assert (HI1 : forall t, t ∈ pc m1 -> exists xt, get m1 t = Some xt /\ h_mark (o_hdr xt) = PC).
      { intros t Ht. assert (Ht' : t ∈ pc m) by (destruct r; exact Ht).
        destruct (sv_pc _ _ _ _ _ HI t Ht') as (xt & Hxt & _ & _ & _ & Hmk).
        unfold m1. destruct r as [i|p j]; cbn [write_loc]; [eauto|]. rewrite get_upd.
        destruct (decide (p = t)) as [->|]; [rewrite Hxt; cbn; eauto | eauto]. }
      intros Hin. unfold m2, remove_from_list in Hin.
      assert (Hq : o ∈ pc m1).
      { destruct (is_in_pc (hdr_of m1 o)); [|exact Hin]. destruct (pc_alive m1); [|exact Hin].
        unfold dec_size in Hin. match type of Hin with context [if ?c then _ else _] => destruct c end;
          cbn in Hin; unfold remove_id in Hin; apply elem_of_list_filter in Hin; apply Hin. }
      destruct (HI1 o Hq) as (xt & Hxt & Hmk). rewrite (hdr_of_get _ _ _ Hxt) in Hin. unfold is_in_pc in Hin. rewrite Hmk in Hin. cbn in Hin.
      assert (Hal : pc_alive m1 = true) by (destruct r; apply (sv_alive _ _ _ _ _ HI)). rewrite Hal in Hin.
      unfold dec_size in Hin. match type of Hin with context [if ?c then _ else _] => destruct c end;
        cbn in Hin; unfold remove_id in Hin; apply elem_of_list_filter in Hin; destruct Hin as [Hne _]; congruence. }
    (* drop_metadata and dealloc *)
    assert (Hside : k_weak K = true -> h_side (o_hdr x4) = true -> exists s, o_side x4 = Some s /\ sd_freed s = false).
    { intros Hk Hsd. change (o_hdr x4) with (o_hdr x2) in Hsd. change (o_side x4) with (o_side x2).
      destruct (okN_alloc K _ _ _ _ _ (sv_obj _ _ _ _ _ HI _ _ Hx) Hb) as (_ & _ & _ & _ & O5 & _).
      rewrite S3, Hs1. assert (Hsd' : h_side (o_hdr x) = true) by congruence.
      destruct (o_side x) as [s|]; [|destruct O5; congruence]. destruct O5 as (_ & ? & _). eauto. }
    assert (Hnb4 : NoBad m4).
    { assert (Hnb2 : NoBad m2).
      { unfold m2, remove_from_list. destruct (is_in_pc (hdr_of m1 o)); [|destruct r; exact Hnb]. destruct (pc_alive m1); [|destruct r; exact Hnb].
        apply NoBad_dec_size. destruct r; exact Hnb. }
      exact Hnb2. }
    destruct (drop_metadata_shape K m4 o x4 Hx4 Hnb4 Hside) as (g & Hh5 & Hg & He5 & _ & _ & Hnb5).
    set (m5 := drop_metadata K o m4) in *.
    assert (Hx5 : get m5 o = Some (x4 <| o_side := side_after K x4 |>)).
    { rewrite (get_alter_eq m4 m5 o g x4 Hh5 Hx4), Hg. reflexivity. }
    assert (Hbl : box_layout K (x4 <| o_side := side_after K x4 |>) = box_layout K x).
    { unfold box_layout. change (o_ismap (x4 <| o_side := side_after K x4 |>)) with (o_ismap x2). rewrite S5, Hm1. reflexivity. }
    split; [|split; [|split; [|split]]].
    - (* the log *)
      eapply lext_trans; [|unfold dealloc; rewrite Hx5; destruct (box_layout K _) as [sz al];
        change (o_box (x4 <| o_side := side_after K x4 |>)) with (o_box x2); rewrite S2, Hb1;
        match goal with |- context [if ?c then _ else _] => destruct c end;
        [eapply lext_trans; [apply (lext_emit (EBad Underflow o)); reflexivity|]; eapply lext_trans; [|apply lext_emit; reflexivity]; apply lext_log; reflexivity
        | eapply lext_trans; [|apply lext_emit; reflexivity]; apply lext_log; reflexivity]].
      eapply lext_trans; [|apply lext_drop_metadata].
      eapply lext_trans; [|apply lext_log; reflexivity]. eapply lext_trans; [|apply lext_remove_from_list]. apply lext_log. destruct r; reflexivity.
    - unfold dealloc. rewrite Hx5, Hbl. destruct (box_layout K x) as [sz al]. left. reflexivity.
    - destruct (dealloc_vst K m5 o _ Hx5) as (y & Hy & Hvy). exists y. split; [exact Hy|]. split; [rewrite Hvy; reflexivity|].
      assert (Hy' : y = (x4 <| o_side := side_after K x4 |>) <| o_box := BFreed |>).
      { unfold dealloc in Hy. rewrite Hx5 in Hy. destruct (box_layout K _) as [sz al].
        match type of Hy with get (emit ?e (upd o ?f ?mm)) o = _ => change (get (emit e (upd o f mm)) o) with (get (upd o f mm) o) in Hy; rewrite get_upd, decide_True in Hy by reflexivity end.
        match type of Hy with _ <$> get ?mm o = _ => assert (Hgm : get mm o = Some (x4 <| o_side := side_after K x4 |>)) end.
        { destruct (o_box (x4 <| o_side := side_after K x4 |>)); repeat (match goal with |- context [if ?c then _ else _] => destruct c end); exact Hx5. }
        rewrite Hgm in Hy. cbn in Hy. congruence. }
      subst y. split; [reflexivity|]. intros s Hs Hf. cbn in Hs. unfold side_after in Hs.
      change (o_hdr x4) with (o_hdr x2) in Hs. change (o_side x4) with (o_side x2) in Hs.
      destruct (k_weak K) eqn:Hk.
      + destruct (h_side (o_hdr x2)) eqn:Hsd.
        * destruct (o_side x2) as [s2|]; [|discriminate]. destruct (w_cnt (sd_wk s2) =? 0); injection Hs as <-; [discriminate | reflexivity].
        * exfalso. destruct (okN_alloc K _ _ _ _ _ (sv_obj _ _ _ _ _ HI _ _ Hx) Hb) as (_ & _ & _ & _ & O5 & _).
          rewrite S3, Hs1 in Hs. rewrite Hs in O5. destruct O5 as (O5 & _). congruence.
      + exfalso. destruct (sv_objx _ _ _ _ _ HI _ _ Hx) as [_ _ _ X4 _ _]. rewrite S3, Hs1, (X4 Hk) in Hs. discriminate.
    - rewrite (proj1 (pc_values_dealloc o m5)). destruct He5 as (_ & _ & _ & _ & _ & _ & Hpc5 & _). rewrite Hpc5. exact Hnpc.
    - assert (Hvl : values (dealloc K o m5) = values m4).
      { rewrite (proj2 (pc_values_dealloc o m5)). destruct He5 as (_ & _ & _ & _ & _ & Hv5 & _). exact Hv5. }
      rewrite Hvl. unfold m4. cbn.
      assert (Hv2 : values m2 = values m).
      { unfold m2, remove_from_list. destruct (is_in_pc _); [|destruct r; reflexivity]. destruct (pc_alive m1); [|destruct r; reflexivity].
        unfold dec_size. match goal with |- context [if ?c then _ else _] => destruct c end; destruct r; reflexivity. }
      change (values m3) with (values m2). rewrite Hv2. apply list_lookup_insert. eapply lookup_lt_Some; eauto.
  Qed.
End Unwrap.

Print Assumptions obs_reports_exact_count.
Print Assumptions upgrade_safe.
Print Assumptions try_unwrap_ok.
Print Assumptions clone_saturates.

