(** * Hdr: the abstract per-allocation header and the weak side record.

    The machine model (Machine.v) manipulates headers only through the operations of this
    file. [CounterSpec.v] / [WeakSpec.v] prove, exhaustively over all 2^16 values of each
    16-bit word, that the code generated from src/counter_marker.rs and
    src/weak/weak_counter_marker.rs implements exactly these operations under [hdr_decode] /
    [wk_decode] (so a strong/tracing/weak count can neither wrap nor spill into a flag bit). *)
From Coq Require Import NArith Bool.
Local Open Scope N_scope.

Inductive mark := NM | PC | IL | IQ.

Definition mark_eqb (a b : mark) : bool :=
  match a, b with NM, NM | PC, PC | IL, IL | IQ, IQ => true | _, _ => false end.

Lemma mark_eqb_spec a b : reflect (a = b) (mark_eqb a b).
Proof. destruct a, b; constructor; congruence. Qed.

(** ** The header: two 16-bit words seen as five independent fields. *)
Record hdr := Hdr {
  h_rc   : N;      (* strong count, 14 bits; 16383 is reserved and never reached *)
  h_tc   : N;      (* tracing count, 14 bits; 16383 = "value already dropped" *)
  h_mark : mark;
  h_fin  : bool;   (* finalized *)
  h_side : bool;   (* a weak side record was allocated *)
}.

Definition field_mask : N := 16383.        (* COUNTER_MASK = 2^14 - 1 *)
Definition max_rc : N := 16382.            (* counter_marker::MAX *)
Definition tc_dropped : N := 16383.

Definition set_rc   (n : N)    (h : hdr) := Hdr n (h_tc h) (h_mark h) (h_fin h) (h_side h).
Definition set_tc   (n : N)    (h : hdr) := Hdr (h_rc h) n (h_mark h) (h_fin h) (h_side h).
Definition set_mark (m : mark) (h : hdr) := Hdr (h_rc h) (h_tc h) m (h_fin h) (h_side h).
Definition set_fin  (b : bool) (h : hdr) := Hdr (h_rc h) (h_tc h) (h_mark h) b (h_side h).
Definition set_side (b : bool) (h : hdr) := Hdr (h_rc h) (h_tc h) (h_mark h) (h_fin h) b.

(** CounterMarker::new_with_counter_to_one *)
(** the tracing word starts at INITIAL_VALUE_TRACING_COUNTER = 1: a fresh object has tc = 1 *)
Definition hdr_new (already_finalized : bool) : hdr := Hdr 1 1 NM already_finalized false.

(** increment_counter / decrement_counter: [None] = Err(OverflowError), header unchanged. *)
Definition inc_rc (h : hdr) : option hdr :=
  if h_rc h =? max_rc then None else Some (set_rc (h_rc h + 1) h).
Definition dec_rc (h : hdr) : option hdr :=
  if h_rc h =? 0 then None else Some (set_rc (h_rc h - 1) h).
(** increment_tracing_counter *)
Definition inc_tc (h : hdr) : option hdr :=
  if h_tc h =? max_rc then None else Some (set_tc (h_tc h + 1) h).
(** reset_tracing_counter *)
Definition reset_tc (h : hdr) : hdr := set_tc 0 h.
(** needs_finalization *)
Definition needs_fin (h : hdr) : bool := negb (h_fin h).
(** is_dropped / set_dropped(true) *)
Definition is_dropped (h : hdr) : bool := h_tc h =? tc_dropped.
Definition set_dropped (h : hdr) : hdr := set_tc tc_dropped h.
(** mark predicates *)
Definition is_not_marked (h : hdr) : bool :=
  match h_mark h with NM | PC => true | _ => false end.
Definition is_in_pc (h : hdr) : bool := mark_eqb (h_mark h) PC.
Definition is_in_list (h : hdr) : bool := mark_eqb (h_mark h) IL.
Definition is_in_list_or_queue (h : hdr) : bool :=
  match h_mark h with IL | IQ => true | _ => false end.

(** ** Encoding into the two words (tracing word, counter word). *)
Definition mark_bits (m : mark) : N := match m with NM => 0 | PC => 1 | IL => 2 | IQ => 3 end.
Definition mark_of_bits (n : N) : mark :=
  match n with 0 => NM | 1 => PC | 2 => IL | _ => IQ end.
Definition b2n (b : bool) : N := if b then 1 else 0.

Definition hdr_encode (h : hdr) : N * N :=
  (mark_bits (h_mark h) * 16384 + h_tc h,
   b2n (h_side h) * 32768 + b2n (h_fin h) * 16384 + h_rc h).

Definition hdr_decode (tw cw : N) : hdr :=
  Hdr (cw mod 16384) (tw mod 16384) (mark_of_bits (tw / 16384 mod 4))
      (N.testbit cw 14) (N.testbit cw 15).

Definition hdr_wf (h : hdr) : Prop := h_rc h < 16384 /\ h_tc h < 16384.

(** ** The weak side record word: accessible bit + 15-bit weak count. *)
Record wk := Wk { w_cnt : N; w_acc : bool }.

Definition max_weak : N := 32767.          (* weak_counter_marker::MAX *)
Definition wk_new (accessible : bool) : wk := Wk 0 accessible.
Definition inc_wk (w : wk) : option wk :=
  if w_cnt w =? max_weak then None else Some (Wk (w_cnt w + 1) (w_acc w)).
Definition dec_wk (w : wk) : option wk :=
  if w_cnt w =? 0 then None else Some (Wk (w_cnt w - 1) (w_acc w)).
Definition set_acc (b : bool) (w : wk) : wk := Wk (w_cnt w) b.

Definition wk_encode (w : wk) : N := b2n (w_acc w) * 32768 + w_cnt w.
Definition wk_decode (x : N) : wk := Wk (x mod 32768) (N.testbit x 15).
Definition wk_wf (w : wk) : Prop := w_cnt w < 32768.

(** ** state::State::is_tracing (the abstract formula; StateSpec proves the generated one equal). *)
Definition is_tracing_spec (feat_fin collecting finalizing dropping : bool) : bool :=
  if feat_fin then collecting && negb finalizing && negb dropping
  else collecting && negb dropping.
