(** * QuietCover: towards the inductiveness of the coverage invariant (stretch part of C02).

    [CoverE P E A X m] is the form of I-cover that is meant to hold at every inner point of a run:
    - [E]: the strong handles in flight (held by active frames: removed from a location but not
      yet dropped or stored) are extra program roots;
    - [A]: the active list of the running collection (the members of [L] between the tracing pass
      and their re-buffering / destruction) are extra buffer roots;
    - [X]: exempt objects: those whose last handle has just been released and whose destruction
      starts in the current frame ([Cc::drop] between the decrement to 0 and [VDropping]).
    [CoverE P [] [] [] m <-> Cover P m] ([CoverE_nil]).

    PROVED here (every lemma [Qed]):
    - [CoverE_mono]: monotone in the roots, invariant under header-only changes ([gsim]);
    - [CoverE_mframe], [CoverE_add_to_list], [CoverE_uhdr], [CoverE_emit]: buffer insertion, header updates, log;
    - [CoverE_remove_from_list]: removal from the buffer of an object that a program / in-flight
      handle reaches (mark_alive, clone, upgrade, downgrade, try_unwrap, the last-handle drop);
    - [classified_succ]: the classification is closed under every stored handle;
    - [CoverE_write_slot], [CoverE_write_field]: stores ([write_loc]) of an in-flight handle,
      the overwritten handle becoming in flight;
    - [CoverE_take_slot]: moving a handle out of a slot into flight;
    - [CoverE_dealloc]: freeing a box whose value is not live;
    - [CoverE_pass] / [Cover_pass]: a completed tracing pass (survivors are program-reachable or
      pinned, members are covered by the list);
    - [CoverE_rebuffer]: the re-buffering of the list after finalizers ran;
    - [CoverE_enter_dead]: the list entering the drop pass.
    OPEN (not proved): the value-state transitions ([VLive -> VDropping] in [step_drop_value],
    [VUninit -> VLive] in new_cyclic, [VMoved] in try_unwrap), allocation ([new_node] /
    [box_alloc]), the borrow flag, the bag, taking a handle out of a FIELD (drop glue, CMove),
    cleaner registration, and the assembly into a [run_ind] instance; the un-marking of the list
    after a finalizer panicked does NOT preserve I-cover (the members stay unbuffered garbage:
    only panic-free histories are claimed). *)
From Coq Require Import NArith Bool List Lia.
From stdpp Require Import base list option list_numbers.
From RecordUpdate Require Import RecordSet.
From RC Require Import Hdr Machine RunInd.
From RC Require BufBase Buf.
From RC Require Pass PassCount PassMain.
From RC Require Import Inv InvP SafeHelpers Cover SafeColl SafeCollPass Quiet.
Import ListNotations RecordSetNotations.

Section CoverE.
  Context (K : conf) (P : prog).
  Implicit Types (m : machine) (o p t c r : id) (x y : obj) (E A X : list id).

  Definition ProgReachE E m o : Prop := Reach (all_succ m) (fun r => r ∈ prog_roots m \/ r ∈ E) o.
  Definition CoveredA A m o : Prop := Reach (traced_succ P m) (fun r => r ∈ pc m \/ r ∈ A) o.
  (** [o] is classified *)
  Definition Cl E A m o : Prop := ProgReachE E m o \/ CoveredA A m o \/ Pinned P m o.
  Definition CoverE E A X m : Prop :=
    forall o x, get m o = Some x -> o_box x = BAlloc -> o_vst x = VLive ->
      o ∈ dead m \/ o ∈ X \/ Cl E A m o.

  Lemma QuietProgReachE_nil m o : ProgReachE [] m o <-> ProgReach m o.
  Proof. split; apply Reach_mono; intros r; [intros [?|H]; [assumption | inversion H] | auto]. Qed.
  Lemma QuietCoveredA_nil m o : CoveredA [] m o <-> Covered P m o.
  Proof. split; apply Reach_mono; intros r; [intros [?|H]; [assumption | inversion H] | auto]. Qed.

  Theorem CoverE_nil m : CoverE [] [] [] m <-> Cover P m.
  Proof.
    split; intros H o x Hx Hb Hv; destruct (H o x Hx Hb Hv) as [?|H'].
    - auto.
    - destruct H' as [Hn|[?|[?|?]]]; [inversion Hn|..].
      + right; left. apply QuietProgReachE_nil. assumption.
      + right; right; left. apply QuietCoveredA_nil. assumption.
      + auto.
    - auto.
    - right; right. destruct H' as [?|[?|?]].
      + left. apply QuietProgReachE_nil. assumption.
      + right; left. apply QuietCoveredA_nil. assumption.
      + right; right. assumption.
  Qed.

  (** *** header-only changes, more roots *)
  Lemma gsim_traced_succ m m' p : gsim m m' -> traced_succ P m' p = traced_succ P m p.
  Proof.
    intros H. unfold traced_succ. destruct (heap m !! p) as [x|] eqn:Hx.
    - destruct (gsim_get_l m m' p x H Hx) as (y & Hy & Hs). unfold get in Hy. rewrite Hy.
      pose proof (Pass.obj_sim_fields _ _ Hs) as (_&Ev&_&_&Ec&Em&Ef&_&_&Ebo&_).
      rewrite Ev, Ec, Em, Ef, Ebo. reflexivity.
    - destruct (heap m' !! p) as [y|] eqn:Hy; [|reflexivity].
      destruct (gsim_get_r m m' p y H Hy) as (x & Hx' & _). unfold get in Hx'. congruence.
  Qed.

  Lemma Cl_mono E E' A A' m m' o :
    gsim m m' -> (forall r, r ∈ pc m \/ r ∈ A -> r ∈ pc m' \/ r ∈ A') -> (forall r, r ∈ E -> r ∈ E') ->
    Cl E A m o -> Cl E' A' m' o.
  Proof.
    intros Hg HA HE [H|[H|H]].
    - left. revert H. apply Reach_ext; [intros p; apply gsim_all_succ, Hg|].
      intros r [Hr|Hr]; [left; rewrite (gsim_prog_roots m m' Hg); exact Hr | right; auto].
    - right; left. revert H. apply Reach_ext; [intros p; apply gsim_traced_succ, Hg | exact HA].
    - right; right. eapply gsim_Pinned; eauto.
  Qed.

  Theorem CoverE_mono E E' A A' X X' m m' :
    gsim m m' -> (forall r, r ∈ pc m \/ r ∈ A -> r ∈ pc m' \/ r ∈ A') -> (forall r, r ∈ E -> r ∈ E') ->
    (forall r, r ∈ X -> r ∈ X') ->
    CoverE E A X m -> CoverE E' A' X' m'.
  Proof.
    intros Hg HA HE HX H o y Hy Hb Hv.
    destruct (gsim_get_r m m' o y Hg Hy) as (x & Hx & Hs).
    pose proof (Pass.obj_sim_fields _ _ Hs) as (_&Ev&Eb&_).
    destruct (H o x Hx ltac:(congruence) ltac:(congruence)) as [Hd|[Hx'|Hc]].
    - left. destruct Hg as (_&_&_&_&Hd'). rewrite Hd'. exact Hd.
    - right; left. auto.
    - right; right. eapply Cl_mono; eauto.
  Qed.

  Lemma mframe_gsim m m' : Pass.mframe K m m' -> gsim m m'.
  Proof.
    intros [Hr Hh _ _].
    pose proof (Pass.mrest_proj _ _ Hr) as (R1 & R2 & R3 & R4 & R5 & R6 & R7 & R8 & R9 & R10 & R11 & R12 &
                   R13 & R14 & R15 & R16 & R17 & R18 & R19 & R20 & R21 & R22 & R23 & R24).
    split; [exact Hh | auto].
  Qed.

  Theorem CoverE_mframe E A X m m' :
    Pass.mframe K m m' -> (forall r, r ∈ pc m -> r ∈ pc m' \/ r ∈ A) ->
    CoverE E A X m -> CoverE E A X m'.
  Proof.
    intros Hf Hpc. apply CoverE_mono; auto using mframe_gsim. intros r [Hr|Hr]; auto.
  Qed.

  Lemma mframe_pc_size f m : Pass.mframe K m (m <| pc_size ::= f |>).
  Proof. split; [by destruct m | apply Pass.heap_sim_refl | by exists [] | cbn; lia]. Qed.
  Lemma mframe_pc_f f m : Pass.mframe K m (m <| pc ::= f |>).
  Proof. split; [by destruct m | apply Pass.heap_sim_refl | by exists [] | cbn; lia]. Qed.

  Lemma mframe_add_to_list o m : Pass.mframe K m (add_to_list o m).
  Proof.
    unfold add_to_list. destruct (is_in_pc (hdr_of m o)); [apply Pass.mframe_refl|].
    destruct (pc_alive m); [|apply Pass.mframe_refl].
    set (m1 := if _ : bool then m else emit_bad AssertFail o m).
    assert (F1 : Pass.mframe K m m1).
    { subst m1. destruct (_ && _); [apply Pass.mframe_refl | apply Pass.mframe_emit_bad]. }
    eapply Pass.mframe_trans; [exact F1|]. eapply Pass.mframe_trans; [apply (mframe_pc_f (cons o))|].
    eapply Pass.mframe_trans; [apply (mframe_pc_size N.succ)|].
    apply Pass.mframe_uhdr_all. intros h. repeat split.
  Qed.

  Lemma pc_add_to_list o m r : r ∈ pc m -> r ∈ pc (add_to_list o m).
  Proof.
    unfold add_to_list. destruct (is_in_pc (hdr_of m o)); [auto|]. destruct (pc_alive m); [|auto].
    destruct (_ && _); cbn; intros H; apply elem_of_cons; auto.
  Qed.

  Theorem CoverE_add_to_list E A X o m : CoverE E A X m -> CoverE E A X (add_to_list o m).
  Proof.
    apply CoverE_mframe; [apply mframe_add_to_list|]. intros r Hr. left. apply pc_add_to_list, Hr.
  Qed.

  Theorem CoverE_uhdr E A X o f m :
    (forall h, Pass.hdr_sim h (f h)) -> CoverE E A X m -> CoverE E A X (uhdr o f m).
  Proof. intros Hf. apply CoverE_mframe; [apply Pass.mframe_uhdr_all, Hf | auto]. Qed.

  Theorem CoverE_emit E A X e m : CoverE E A X m -> CoverE E A X (emit e m).
  Proof.
    apply CoverE_mono; auto. apply gsim_refl_heap; reflexivity.
  Qed.

  (** *** removal from the buffer *)
  Lemma traced_all_E E m p c : ProgReachE E m p -> c ∈ traced_succ P m p -> ProgReachE E m c.
  Proof. intros Hp Hc. eapply Reach_step; [exact Hp | apply (traced_succ_all P), Hc]. Qed.

  Lemma mframe_remove_from_list o m : Pass.mframe K m (remove_from_list o m).
  Proof.
    unfold remove_from_list. destruct (is_in_pc (hdr_of m o)); [|apply Pass.mframe_refl].
    destruct (pc_alive m); [|apply Pass.mframe_refl].
    eapply Pass.mframe_trans; [|apply Pass.mframe_dec_size].
    eapply Pass.mframe_trans; [|apply (mframe_pc_f (remove_id o))].
    apply Pass.mframe_uhdr_all, Pass.hdr_sim_set_mark.
  Qed.

  Lemma pc_remove_from_list o m r : r ∈ pc m -> r <> o -> r ∈ pc (remove_from_list o m).
  Proof.
    intros Hr Hne. unfold remove_from_list. destruct (is_in_pc (hdr_of m o)); [|auto].
    destruct (pc_alive m); [|auto]. unfold dec_size.
    destruct (pc_size _ =? 0)%N; cbn; apply Pass.remove_id_elem; auto.
  Qed.

  Lemma gsim_ProgReachE E m m' o : gsim m m' -> ProgReachE E m o -> ProgReachE E m' o.
  Proof.
    intros Hg. apply Reach_ext; [intros p; apply gsim_all_succ, Hg|].
    intros r [Hr|Hr]; [left; rewrite (gsim_prog_roots m m' Hg); exact Hr | right; exact Hr].
  Qed.

  Theorem CoverE_remove_from_list E A X o m :
    ProgReachE E m o -> CoverE E A X m -> CoverE E A X (remove_from_list o m).
  Proof.
    intros Ho H. set (m' := remove_from_list o m).
    pose proof (mframe_gsim m m' (mframe_remove_from_list o m)) as Hg.
    assert (Hcov : forall v, CoveredA A m v -> CoveredA A m' v \/ ProgReachE E m' v).
    { induction 1 as [r Hr|p c _ IH Hc].
      - destruct (decide (r = o)) as [->|Hne]; [right; eapply gsim_ProgReachE; eauto|].
        left. apply Reach_root. destruct Hr as [Hr|Hr]; [left; apply pc_remove_from_list; auto | right; exact Hr].
      - rewrite <- (gsim_traced_succ m m' p Hg) in Hc. destruct IH as [IH|IH].
        + left. eapply Reach_step; eauto.
        + right. eapply traced_all_E; eauto. }
    intros v y Hy Hb Hv.
    destruct (gsim_get_r m m' v y Hg Hy) as (x & Hx & Hs).
    pose proof (Pass.obj_sim_fields _ _ Hs) as (_&Ev&Eb&_).
    destruct (H v x Hx ltac:(congruence) ltac:(congruence)) as [Hd|[Hx'|Hc]].
    - left. destruct Hg as (_&_&_&_&Hd'). rewrite Hd'. exact Hd.
    - auto.
    - right; right. destruct Hc as [Hc|[Hc|Hc]].
      + left. eapply gsim_ProgReachE; eauto.
      + destruct (Hcov v Hc) as [?|?]; [right; left; assumption | left; assumption].
      + right; right. eapply gsim_Pinned; eauto.
  Qed.
End CoverE.

Section Transfer.
  Context (K : conf) (P : prog).
  Implicit Types (m : machine) (o p t c r : id) (x y : obj) (E A X : list id).

  Notation Cl := (Cl P).
  Notation CoverE := (CoverE P).

  Lemma reported_dec x j : {reported P x j} + {~ reported P x j}.
  Proof.
    destruct (reported_b P x j) eqn:E; [left | right]; [apply reported_b_spec, E|].
    intros H. apply reported_b_spec in H. congruence.
  Qed.

  Lemma traced_intro m p x j c :
    get m p = Some x -> o_ismap x = false -> o_vst x = VLive -> o_borrowed x = false ->
    c_traced (class_of P (o_cls x)) !! j = Some true -> o_fields x !! j = Some (Some c) ->
    c ∈ traced_succ P m p.
  Proof.
    intros Hx Hm Hv Hbo Ht Hj. unfold traced_succ, get in *. rewrite Hx, Hm, Hv, Hbo.
    apply elem_of_list_omap. exists (Some c, true). split; [|reflexivity].
    apply elem_of_list_lookup. exists j. apply lookup_zip_with_Some. exists (Some c), true. auto.
  Qed.
  Lemma reported_traced m p x j c :
    get m p = Some x -> reported P x j -> o_fields x !! j = Some (Some c) -> c ∈ traced_succ P m p.
  Proof. intros Hx (Hb & Hm & Hv & Hbo & Ht) Hj. eapply traced_intro; eauto. Qed.

  Lemma traced_reported m p c :
    c ∈ traced_succ P m p -> exists x j, get m p = Some x /\ o_fields x !! j = Some (Some c) /\
      o_ismap x = false /\ o_vst x = VLive /\ o_borrowed x = false /\
      c_traced (class_of P (o_cls x)) !! j = Some true.
  Proof.
    unfold traced_succ, get. destruct (heap m !! p) as [x|]; [|intros H; inversion H].
    destruct (o_ismap x) eqn:Em; [intros H; inversion H|].
    destruct (o_vst x) eqn:Ev; try (intros H; inversion H; fail).
    destruct (o_borrowed x) eqn:Eb; [intros H; inversion H|].
    intros Hc. apply elem_of_list_omap in Hc as ([f tr] & Hin & Hf). destruct tr; [|discriminate]. subst f.
    apply elem_of_list_lookup in Hin as [j Hj]. apply lookup_zip_with_Some in Hj as (f' & t' & Heq & Hf' & Ht').
    injection Heq as <- <-. exists x, j. auto 8.
  Qed.

  (** the classification propagates along every stored handle of a classified object *)
  Lemma Cl_step E A m q c : Cl E A m q -> c ∈ all_succ m q -> Cl E A m c.
  Proof.
    intros [H|[H|H]] Hc.
    - left. eapply Reach_step; eauto.
    - unfold all_succ in Hc. destruct (heap m !! q) as [x|] eqn:Hx; [|inversion Hc].
      apply strong_targets_elem in Hc as [[j Hj]|Hcl].
      + destruct (reported_dec x j) as [Hr|Hn].
        * right; left. eapply Reach_step; [exact H | eapply reported_traced; eauto].
        * right; right. apply Reach_root. eapply PR_field; eauto.
      + right; right. apply Reach_root. eapply PR_cleaner; eauto.
    - right; right. eapply Reach_step; eauto.
  Qed.

  (** ... and, under the invariant, along every stored handle of any non-exempt object *)
  Theorem classified_succ E A X m p c :
    CoverE E A X m -> p ∉ X -> c ∈ all_succ m p -> Cl E A m c.
  Proof.
    intros H Hnx Hc. pose proof Hc as Hc'. unfold all_succ in Hc. destruct (heap m !! p) as [x|] eqn:Hx; [|inversion Hc].
    apply strong_targets_elem in Hc as [[j Hj]|Hcl].
    - destruct (reported_dec x j) as [Hr|Hn].
      + destruct Hr as (Hb & Hm & Hv & Hbo & Ht). destruct (H p x Hx Hb Hv) as [Hd|[?|Hp]]; [|contradiction|].
        * right; right. eapply Reach_step; [apply Reach_root, PR_dead, Hd | exact Hc'].
        * eapply Cl_step; eauto.
      + right; right. apply Reach_root. eapply PR_field; eauto.
    - right; right. apply Reach_root. eapply PR_cleaner; eauto.
  Qed.

  (** *** the generic transfer: [m'] has the edges and roots of [m] except for some handles
      [olds] that went in flight *)
  Section Gen.
    Variables (m m' : machine) (E0 E' A A' olds : list id).
    Hypothesis Holds : forall r, r ∈ olds -> r ∈ E'.
    Hypothesis HA : forall r, r ∈ pc m \/ r ∈ A -> r ∈ pc m' \/ r ∈ A'.
    Hypothesis S1 : forall p c, c ∈ all_succ m p -> c ∈ all_succ m' p \/ c ∈ olds.
    Hypothesis S2 : forall p c, c ∈ traced_succ P m p -> c ∈ traced_succ P m' p \/ c ∈ olds.
    Hypothesis S3 : forall r, PinRoot P m r -> PinRoot P m' r \/ r ∈ olds.
    Hypothesis S4 : forall r, r ∈ prog_roots m -> r ∈ prog_roots m' \/ r ∈ olds.
    Hypothesis HE : forall r, r ∈ E0 -> Cl E' A' m' r.

    Lemma old_cl r : r ∈ olds -> Cl E' A' m' r.
    Proof. intros Hr. left. apply Reach_root. right. auto. Qed.

    Lemma transfer u : Cl E0 A m u -> Cl E' A' m' u.
    Proof.
      intros [H|[H|H]].
      - induction H as [r [Hr|Hr]|p c _ IH Hc].
        + destruct (S4 r Hr) as [?|?]; [left; apply Reach_root; auto | apply old_cl; assumption].
        + apply HE, Hr.
        + destruct (S1 p c Hc) as [?|?]; [eapply Cl_step; eauto | apply old_cl; assumption].
      - induction H as [r Hr|p c _ IH Hc].
        + right; left. apply Reach_root, HA, Hr.
        + destruct (S2 p c Hc) as [Hc'|?]; [|apply old_cl; assumption].
          eapply Cl_step; [exact IH | apply (traced_succ_all P), Hc'].
      - induction H as [r Hr|p c _ IH Hc].
        + destruct (S3 r Hr) as [?|?]; [right; right; apply Reach_root; assumption | apply old_cl; assumption].
        + destruct (S1 p c Hc) as [?|?]; [eapply Cl_step; eauto | apply old_cl; assumption].
    Qed.
  End Gen.

  Definition olist (v : option id) : list id := match v with Some t => [t] | None => [] end.
  Lemma olist_elem r v : r ∈ olist v <-> v = Some r.
  Proof.
    destruct v as [t|]; cbn; [rewrite elem_of_list_singleton; split; congruence|].
    split; [intros H; inversion H | discriminate].
  Qed.

  (** *** slots *)
  Lemma QuietSlots_insert (sl : list (option id)) i v r :
    r ∈ omap (fun a => a) sl -> r ∈ omap (fun a => a) (<[i := v]> sl) \/ r ∈ olist (mjoin (sl !! i)).
  Proof.
    intros Hr. apply elem_of_list_omap in Hr as (a & Ha & ->). apply elem_of_list_lookup in Ha as [j Hj].
    destruct (decide (j = i)) as [->|Hne].
    - right. rewrite Hj. cbn. apply elem_of_list_singleton. reflexivity.
    - left. apply elem_of_list_omap. exists (Some r). split; [|reflexivity].
      apply elem_of_list_lookup. exists j. rewrite list_lookup_insert_ne by auto. exact Hj.
  Qed.

  (** a handle in flight is stored into slot [i] (or [None] is: the slot is emptied); the
      overwritten handle goes in flight *)
  Theorem CoverE_write_slot E A X i v m :
    (i < length (slots m))%nat ->
    CoverE (olist v ++ E) A X m ->
    CoverE (olist (mjoin (slots m !! i)) ++ E) A X (m <| slots ::= <[i := v]> |>).
  Proof.
    intros Hi H. set (m' := m <| slots ::= <[i := v]> |>). set (olds := olist (mjoin (slots m !! i))).
    assert (Hs : forall p, all_succ m' p = all_succ m p) by reflexivity.
    assert (T : forall u, Cl (olist v ++ E) A m u -> Cl (olds ++ E) A m' u).
    { apply (transfer m m' (olist v ++ E) (olds ++ E) A A olds).
      - intros r Hr. apply elem_of_app. auto.
      - auto.
      - intros p c Hc. left. exact Hc.
      - intros p c Hc. left. exact Hc.
      - intros r Hr. left. destruct Hr as [p x j t Hx Hj Hn|p x t Hx Hc|t Hd];
          [eapply PR_field | eapply PR_cleaner | apply PR_dead]; eauto.
      - intros r Hr. unfold prog_roots in *. rewrite !elem_of_app in Hr. destruct Hr as [Hr|[Hr|Hr]].
        + destruct (QuietSlots_insert (slots m) i v r Hr) as [?|?]; [left|right; assumption].
          rewrite !elem_of_app. left. assumption.
        + left. rewrite !elem_of_app. right; left. exact Hr.
        + left. rewrite !elem_of_app. right; right. exact Hr.
      - intros r Hr. apply elem_of_app in Hr as [Hr|Hr].
        + destruct v as [t|]; [|inversion Hr]. apply elem_of_list_singleton in Hr. subst r.
          left. apply Reach_root. left. unfold prog_roots. rewrite !elem_of_app. left.
          apply elem_of_list_omap. exists (Some t). split; [|reflexivity].
          apply elem_of_list_lookup. exists i. cbn. apply list_lookup_insert. exact Hi.
        + left. apply Reach_root. right. apply elem_of_app. auto. }
    intros o x Hx Hb Hv. destruct (H o x Hx Hb Hv) as [?|[?|Hc]]; [auto | auto | right; right; apply T, Hc].
  Qed.

  (** *** fields *)
  Section Field.
    Variables (m : machine) (p : id) (j : nat) (v : option id) (xp : obj).
    Hypothesis Hxp : get m p = Some xp.
    Let m' := upd p (fun x => x <| o_fields ::= <[j := v]> |>) m.
    Let xp' := xp <| o_fields ::= <[j := v]> |>.
    Let olds := olist (mjoin (o_fields xp !! j)).

    Lemma wf_get_p : get m' p = Some xp'.
    Proof. apply get_upd_eq, Hxp. Qed.
    Lemma wf_get_ne q : q <> p -> get m' q = get m q.
    Proof. intros Hne. apply get_upd_ne. auto. Qed.

    Lemma wf_field_old j0 t : o_fields xp !! j0 = Some (Some t) -> o_fields xp' !! j0 = Some (Some t) \/ t ∈ olds.
    Proof.
      intros Hj. destruct (decide (j0 = j)) as [->|Hne].
      - right. subst olds. rewrite Hj. cbn. apply elem_of_list_singleton. reflexivity.
      - left. cbn. rewrite list_lookup_insert_ne by auto. exact Hj.
    Qed.

    Lemma wf_reported j0 : reported P xp' j0 <-> reported P xp j0.
    Proof. reflexivity. Qed.

    Lemma wf_S1 q c : c ∈ all_succ m q -> c ∈ all_succ m' q \/ c ∈ olds.
    Proof.
      destruct (decide (q = p)) as [->|Hne].
      - rewrite (all_succ_get m p xp Hxp), (all_succ_get m' p xp' wf_get_p), !strong_targets_elem.
        intros [[j0 Hj0]|Hc]; [|left; right; exact Hc].
        destruct (wf_field_old j0 c Hj0) as [?|?]; [left; left; eauto | right; assumption].
      - intros Hc. left. unfold all_succ in *. fold (get m' q). fold (get m q) in Hc. rewrite (wf_get_ne q Hne). exact Hc.
    Qed.

    Lemma wf_S2 q c : c ∈ traced_succ P m q -> c ∈ traced_succ P m' q \/ c ∈ olds.
    Proof.
      destruct (decide (q = p)) as [->|Hne].
      - intros Hc. destruct (traced_reported m p c Hc) as (x & j0 & Hx & Hj0 & R1 & R2 & R3 & R4).
        assert (x = xp) by congruence. subst x.
        destruct (wf_field_old j0 c Hj0) as [Hn|?]; [left | right; assumption].
        eapply (traced_intro m' p xp' j0 c wf_get_p); eauto.
      - intros Hc. left. unfold traced_succ in *. fold (get m' q). fold (get m q) in Hc. rewrite (wf_get_ne q Hne). exact Hc.
    Qed.

    Lemma wf_S3 r : PinRoot P m r -> PinRoot P m' r \/ r ∈ olds.
    Proof.
      intros [q x j0 t Hx Hj0 Hn|q x t Hx Hc|t Hd].
      - destruct (decide (q = p)) as [->|Hne].
        + assert (x = xp) by congruence. subst x.
          destruct (wf_field_old j0 t Hj0) as [?|?]; [left | right; assumption].
          eapply PR_field; [apply wf_get_p | eassumption | exact Hn].
        + left. eapply PR_field; [rewrite (wf_get_ne q Hne); exact Hx | exact Hj0 | exact Hn].
      - left. destruct (decide (q = p)) as [->|Hne].
        + assert (x = xp) by congruence. subst x. eapply PR_cleaner; [apply wf_get_p | exact Hc].
        + eapply PR_cleaner; [rewrite (wf_get_ne q Hne); exact Hx | exact Hc].
      - left. apply PR_dead. exact Hd.
    Qed.

    Lemma wf_S4 r : r ∈ prog_roots m -> r ∈ prog_roots m' \/ r ∈ olds.
    Proof.
      unfold prog_roots. rewrite !elem_of_app. intros [Hr|[Hr|Hr]]; [left; left; exact Hr | left; right; left; exact Hr|].
      apply elem_of_list_In, in_concat in Hr as (l & Hl & Hr).
      apply elem_of_list_In, elem_of_list_omap in Hl as (vv & Hin & Hv).
      destruct vv as [o|]; [|discriminate]. injection Hv as <-.
      destruct (wf_S1 o r (proj2 (elem_of_list_In _ _) Hr)) as [Hn|?]; [left | right; assumption].
      right; right. apply elem_of_list_In, in_concat. exists (all_succ m' o). split; [|apply elem_of_list_In, Hn].
      apply elem_of_list_In, elem_of_list_omap. exists (Some o). split; [exact Hin | reflexivity].
    Qed.

    (** a handle in flight is stored into field [j] of [p] (or the field is emptied); the
        overwritten handle goes in flight.  If the field is a reported one, its holder must be
        classified independently of the handle being stored (it is: the program reached it
        through a slot, or it is the finalizer's own object, a member of the active list) *)
    Theorem CoverE_write_field_gen E A X :
      (j < length (o_fields xp))%nat ->
      (forall t, v = Some t -> reported P xp j -> p ∈ dead m \/ Cl E A m p) ->
      CoverE (olist v ++ E) A X m -> CoverE (olds ++ E) A X m'.
    Proof.
      intros Hj Hhold H.
      assert (T0 : forall u, Cl E A m u -> Cl (olds ++ E) A m' u).
      { apply (transfer m m' E (olds ++ E) A A olds); auto using wf_S1, wf_S2, wf_S3, wf_S4.
        - intros r Hr. apply elem_of_app. auto.
        - intros r Hr. left. apply Reach_root. right. apply elem_of_app. auto. }
      assert (HV : forall t, v = Some t -> Cl (olds ++ E) A m' t).
      { intros t Hvt.
        assert (Hjt : o_fields xp' !! j = Some (Some t)).
        { cbn. rewrite list_lookup_insert by exact Hj. rewrite Hvt. reflexivity. }
        assert (Hsucc : t ∈ all_succ m' p) by (eapply all_succ_field; [apply wf_get_p | exact Hjt]).
        destruct (reported_dec xp' j) as [Hr|Hn].
        - destruct (Hhold t Hvt Hr) as [Hd|Hp].
          + right; right. eapply Reach_step; [apply Reach_root, PR_dead; exact Hd | exact Hsucc].
          + eapply Cl_step; [apply T0, Hp | exact Hsucc].
        - right; right. apply Reach_root. eapply PR_field; [apply wf_get_p | exact Hjt | exact Hn]. }
      assert (T : forall u, Cl (olist v ++ E) A m u -> Cl (olds ++ E) A m' u).
      { apply (transfer m m' (olist v ++ E) (olds ++ E) A A olds); auto using wf_S1, wf_S2, wf_S3, wf_S4.
        - intros r Hr. apply elem_of_app. auto.
        - intros r Hr. apply elem_of_app in Hr as [Hr|Hr].
          + apply HV, olist_elem, Hr.
          + left. apply Reach_root. right. apply elem_of_app. auto. }
      intros o y Hy Hb Hv.
      assert (exists x, get m o = Some x /\ o_box x = BAlloc /\ o_vst x = VLive) as (x & Hx & Hbx & Hvx).
      { destruct (decide (o = p)) as [->|Hne].
        - rewrite wf_get_p in Hy. injection Hy as <-. exists xp. auto.
        - rewrite (wf_get_ne o Hne) in Hy. eauto. }
      destruct (H o x Hx Hbx Hvx) as [?|[?|Hc]]; [left; assumption | auto | right; right; apply T, Hc].
    Qed.
  End Field.

  Theorem CoverE_write_field E A X p j v m xp :
    get m p = Some xp -> (j < length (o_fields xp))%nat ->
    (forall t, v = Some t -> reported P xp j -> p ∈ dead m \/ Cl E A m p) ->
    CoverE (olist v ++ E) A X m ->
    CoverE (olist (read_loc (RField p j) m) ++ E) A X (write_loc (RField p j) v m).
  Proof.
    intros Hx Hj Hh H. unfold read_loc. rewrite Hx. cbn [mbind option_bind].
    exact (CoverE_write_field_gen m p j v xp Hx E A X Hj Hh H).
  Qed.

  (** *** deallocation of a box whose value is not live (after the drop glue, try_unwrap,
      new_cyclic's panic guard) *)
  Lemma dealloc_shape o m x :
    get m o = Some x ->
    get (dealloc K o m) o = Some (x <| o_box := BFreed |>) /\
    (forall q, q <> o -> get (dealloc K o m) q = get m q) /\
    pc (dealloc K o m) = pc m /\ dead (dealloc K o m) = dead m /\ slots (dealloc K o m) = slots m /\
    bag (dealloc K o m) = bag m /\ values (dealloc K o m) = values m.
  Proof.
    intros Hx. unfold dealloc. rewrite Hx. destruct (box_layout K x) as [sz al].
    set (m1 := match o_box x with BAlloc => m | _ => emit_bad DoubleFree o m end).
    assert (G1 : forall q, get m1 q = get m q) by (intros q; subst m1; destruct (o_box x); reflexivity).
    assert (R1 : pc m1 = pc m /\ dead m1 = dead m /\ slots m1 = slots m /\ bag m1 = bag m /\ values m1 = values m)
      by (subst m1; destruct (o_box x); repeat split).
    clearbody m1.
    set (m2 := if (st_alloc m1 <? sz)%N then emit_bad Underflow o m1 else m1).
    assert (G2 : forall q, get m2 q = get m q) by (intros q; subst m2; destruct (_ <? _)%N; apply G1).
    assert (R2 : pc m2 = pc m /\ dead m2 = dead m /\ slots m2 = slots m /\ bag m2 = bag m /\ values m2 = values m)
      by (subst m2; destruct (_ <? _)%N; exact R1).
    clearbody m2. destruct R2 as (R21 & R22 & R23 & R24 & R25).
    split; [|split; [|repeat split; assumption]].
    - change (get (upd o (fun x0 => x0 <| o_box := BFreed |>) (m2 <| st_alloc ::= fun a => (a - sz)%N |>)) o = Some (x <| o_box := BFreed |>)).
      apply get_upd_eq. change (get m2 o = Some x). rewrite G2. exact Hx.
    - intros q Hne. change (get (upd o (fun x0 => x0 <| o_box := BFreed |>) (m2 <| st_alloc ::= fun a => (a - sz)%N |>)) q = get m q).
      rewrite get_upd_ne by auto. apply G2.
  Qed.

  Theorem CoverE_dealloc E A X o m x :
    get m o = Some x -> o_vst x <> VLive -> CoverE E A X m -> CoverE E A X (dealloc K o m).
  Proof.
    intros Hx Hnl H. set (m' := dealloc K o m).
    destruct (dealloc_shape o m x Hx) as (G1 & G2 & Hpc & Hd & Hs & Hb & Hv). fold m' in G1, G2, Hpc, Hd, Hs, Hb, Hv.
    assert (Hst : forall q, all_succ m' q = all_succ m q).
    { intros q. unfold all_succ. fold (get m' q). fold (get m q). destruct (decide (q = o)) as [->|Hne].
      - rewrite G1, Hx. reflexivity.
      - rewrite (G2 q Hne). reflexivity. }
    assert (Htr : forall q, traced_succ P m' q = traced_succ P m q).
    { intros q. unfold traced_succ. fold (get m' q). fold (get m q). destruct (decide (q = o)) as [->|Hne].
      - rewrite G1, Hx. cbn. destruct (o_ismap x); [reflexivity|]. destruct (o_vst x); reflexivity.
      - rewrite (G2 q Hne). reflexivity. }
    assert (T : forall u, Cl E A m u -> Cl E A m' u).
    { apply (transfer m m' E E A A []).
      - intros r Hr. inversion Hr.
      - rewrite Hpc. auto.
      - intros q c Hc. left. rewrite Hst. exact Hc.
      - intros q c Hc. left. rewrite Htr. exact Hc.
      - intros r [q y j t Hy Hj Hn|q y t Hy Hc|t Ht]; left.
        + destruct (decide (q = o)) as [->|Hne].
          * assert (y = x) by congruence. subst y. eapply PR_field; [exact G1 | exact Hj|].
            intros (_ & _ & Hl & _). apply Hnl. exact Hl.
          * eapply PR_field; [rewrite (G2 q Hne); exact Hy | exact Hj | exact Hn].
        + destruct (decide (q = o)) as [->|Hne].
          * assert (y = x) by congruence. subst y. eapply PR_cleaner; [exact G1 | exact Hc].
          * eapply PR_cleaner; [rewrite (G2 q Hne); exact Hy | exact Hc].
        + apply PR_dead. rewrite Hd. exact Ht.
      - intros r Hr. left. unfold prog_roots in *. rewrite Hs, Hb, Hv.
        rewrite !elem_of_app in *. destruct Hr as [?|[?|Hr]]; [auto | auto | right; right].
        apply elem_of_list_In, in_concat in Hr as (l & Hl & Hr).
        apply elem_of_list_In, elem_of_list_omap in Hl as (vv & Hin & Hvv).
        destruct vv as [q|]; [|discriminate]. injection Hvv as <-.
        apply elem_of_list_In, in_concat. exists (all_succ m' q). split; [|rewrite Hst; exact Hr].
        apply elem_of_list_In, elem_of_list_omap. exists (Some q). split; [exact Hin | reflexivity].
      - intros r Hr. left. apply Reach_root. right. exact Hr. }
    intros u y Hy Hby Hvy. destruct (decide (u = o)) as [->|Hne].
    - rewrite G1 in Hy. injection Hy as <-. discriminate Hby.
    - rewrite (G2 u Hne) in Hy. destruct (H u y Hy Hby Hvy) as [?|[?|Hc]].
      + left. rewrite Hd. assumption.
      + auto.
      + right; right. apply T, Hc.
  Qed.

  (** *** the collector's own steps *)
  (** a completed tracing pass: survivors are program-reachable or pinned, members are covered by
      the list *)
  Theorem CoverE_pass m m0 m' L :
    SInv K true [] [] m -> BufBase.Ibuf K [] m -> Cover P m ->
    heap m0 = heap m -> pc m0 = pc m -> pc_size m0 = pc_size m ->
    slots m0 = slots m -> bag m0 = bag m -> values m0 = values m -> dead m0 = dead m ->
    trace_pass K P m0 = (m', PDone L) ->
    CoverE [] L [] m' /\ gsim m m'.
  Proof.
    intros HI HB HC Hh Hp Hs Hsl Hbg Hvl Hd Hr.
    assert (Hg : gsim m m').
    { pose proof (mframe_gsim K m0 m' (Pass.pass_frame K P _ _ _ Hr)) as (G1 & G2 & G3 & G4 & G5).
      split; [rewrite <- Hh; exact G1|]. rewrite G2, G3, G4, G5. auto. }
    split; [|exact Hg]. intros o y Hy Hb Hv.
    destruct (gsim_get_r m m' o y Hg Hy) as (x & Hx & Hsim).
    pose proof (Pass.obj_sim_fields _ _ Hsim) as (_&Ev&Eb&_).
    destruct (quiet_pass_pos K P m m0 m' L HI HB HC Hh Hp Hs Hr o x Hx ltac:(congruence) ltac:(congruence))
      as [H|[H|[H|H]]].
    - left. destruct Hg as (_&_&_&_&Hd'). rewrite Hd'. exact H.
    - right; right; left. apply QuietProgReachE_nil. eapply gsim_ProgReach; eauto.
    - right; right; right; right. eapply gsim_Pinned; eauto.
    - right; right; right; left. apply Reach_root. right. exact H.
  Qed.

  (** the same with the list put back into the buffer: plain [Cover] *)
  Theorem Cover_pass m m0 m' L :
    SInv K true [] [] m -> BufBase.Ibuf K [] m -> Cover P m ->
    heap m0 = heap m -> pc m0 = pc m -> pc_size m0 = pc_size m ->
    slots m0 = slots m -> bag m0 = bag m -> values m0 = values m -> dead m0 = dead m ->
    trace_pass K P m0 = (m', PDone L) ->
    Cover P (m' <| pc := L |>).
  Proof.
    intros HI HB HC Hh Hp Hs Hsl Hbg Hvl Hd Hr.
    destruct (CoverE_pass m m0 m' L HI HB HC Hh Hp Hs Hsl Hbg Hvl Hd Hr) as [H _].
    apply CoverE_nil. revert H. apply CoverE_mono; auto.
    - apply gsim_refl_heap; reflexivity.
    - intros r [Hr'|Hr']; left; [|exact Hr'].
      pose proof (PassPre_SInv K P true [] m HI HB) as Hpre.
      pose proof (PassMain.PassPre_heap P m m0 _ Hh Hp Hs Hpre) as Hpre0.
      destruct (PassMain.pass_done_marks K P m0 _ m' L Hpre0 Hr) as (_ & Hpc & _).
      rewrite Hpc in Hr'. inversion Hr'.
  Qed.

  Lemma mframe_fold_uhdr f L : (forall h, Pass.hdr_sim h (f h)) ->
    forall m, Pass.mframe K m (fold_left (fun m g => uhdr g f m) L m).
  Proof.
    intros Hf. induction L as [|g L IH]; intros m; [apply Pass.mframe_refl|]. cbn.
    eapply Pass.mframe_trans; [apply Pass.mframe_uhdr_all, Hf | apply IH].
  Qed.
  Lemma pc_fold_uhdr f L : forall m, pc (fold_left (fun m g => uhdr g f m) L m) = pc m.
  Proof. induction L as [|g L IH]; intros m; [reflexivity|]. cbn. rewrite IH. reflexivity. Qed.

  (** the end of a finalization pass in which some finalizer ran: the active list goes back to
      the buffer ([step_finalize_list], [rest = []], [any = true]) *)
  Theorem CoverE_rebuffer E X L m :
    CoverE E L X m ->
    CoverE E [] X
      (fold_left (fun m g => uhdr g (fun h => set_mark PC (reset_tc h)) m) L m
         <| pc ::= fun old => L ++ old |> <| pc_size ::= fun s => (N.of_nat (length L) + s)%N |>).
  Proof.
    set (m2 := fold_left _ L m). apply CoverE_mono; auto.
    - apply (mframe_gsim K). eapply Pass.mframe_trans.
      + apply (mframe_fold_uhdr (fun h => set_mark PC (reset_tc h)) L). intros h. repeat split.
      + fold m2. eapply Pass.mframe_trans; [apply (mframe_pc_f K (fun old => L ++ old))|].
        apply (mframe_pc_size K).
    - intros r Hr. left. cbn. unfold m2. rewrite pc_fold_uhdr. apply elem_of_app. tauto.
  Qed.

  (** the list enters the drop pass: its members join the dying set *)
  Theorem CoverE_enter_dead E X L m :
    CoverE E L X m -> CoverE E [] X (m <| st_dropping := true |> <| dead ::= app L |>).
  Proof.
    intros H. set (m' := m <| st_dropping := true |> <| dead ::= app L |>).
    assert (Hdm : forall r, r ∈ dead m -> r ∈ dead m') by (intros r Hr; cbn; apply elem_of_app; auto).
    assert (T : forall u, Cl E L m u -> Cl E [] m' u \/ Pinned P m' u).
    { intros u Hu. 
      assert (HP : forall r, PinRoot P m r -> PinRoot P m' r).
      { intros r [q y j t Hy Hj Hn|q y t Hy Hc|t Ht]; [eapply PR_field | eapply PR_cleaner | apply PR_dead]; eauto. }
      destruct Hu as [Hu|[Hu|Hu]].
      - left; left. exact Hu.
      - (* covered from the buffer or from a member of the list, which is now dead *)
        induction Hu as [r [Hr|Hr]|q c _ IH Hc].
        + left; right; left. apply Reach_root. left. exact Hr.
        + right. apply Reach_root, PR_dead. cbn. apply elem_of_app. auto.
        + destruct IH as [IH|IH].
          * left. eapply Cl_step; [exact IH | apply (traced_succ_all P), Hc].
          * right. eapply Reach_step; [exact IH | apply (traced_succ_all P), Hc].
      - right. revert Hu. apply Reach_mono, HP. }
    intros o x Hx Hb Hv. destruct (H o x Hx Hb Hv) as [?|[?|Hc]]; [left; auto | auto |].
    right; right. destruct (T o Hc) as [?|?]; [assumption | right; right; assumption].
  Qed.
End Transfer.
