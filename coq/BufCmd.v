(** * BufCmd: the remaining commands (new_cyclic, register, bag) *)
From Coq Require Import NArith Bool List Lia.
From stdpp Require Import base list option sets.
From RecordUpdate Require Import RecordSet.
From RC Require Import Hdr Machine RunInd BufBase BufPass BufStep.
Import ListNotations RecordSetNotations.
Local Open Scope N_scope.

Section Steps.
  Context (K : conf) (P : prog).
  Context (rec : call -> machine -> machine * outcome).
  Hypothesis Hrec : rok K rec.
  Notation PostA := (PostA K).
  Notation PreA := (PreA K).
  Notation Res := (Res K).

  Lemma ok_cmd_new_cyclic A self dst cls sc sw m :
    PreA A (KCmd self (CNewCyclic dst cls sc sw)) m ->
    PostA A (KCmd self (CNewCyclic dst cls sc sw)) m
          (cmd_new_cyclic K P rec self dst cls sc sw m).1 (cmd_new_cyclic K P rec self dst cls sc sw m).2.
  Proof.
    intros HP. apply start; [exact I|exact HP|]. intros HR. unfold cmd_new_cyclic.
    run Hrec.
  Qed.

  Lemma ok_cmd_register A self nd sc c m :
    PreA A (KCmd self (CRegister nd sc c)) m ->
    PostA A (KCmd self (CRegister nd sc c)) m
          (cmd_register K P rec self nd sc c m).1 (cmd_register K P rec self nd sc c m).2.
  Proof.
    intros HP. apply start; [exact I|exact HP|]. intros HR. unfold cmd_register.
    repeat (progress (cbv beta iota) || step1 Hrec); try (leaf Hrec).
  Qed.

  Lemma ok_cmd_bag A self l k m :
    PreA A (KCmd self (CBag l k)) m ->
    PostA A (KCmd self (CBag l k)) m (cmd_bag self l k m).1 (cmd_bag self l k m).2.
  Proof.
    intros HP. apply start; [exact I|exact HP|]. intros HR. unfold cmd_bag.
    step1 Hrec. step1 Hrec; [|leaf Hrec].
    generalize (N.to_nat k). intros n. revert HR0. generalize m0. clear -Hrec.
    induction n as [|n IH]; intros mi HR.
    - leaf Hrec.
    - cbn. destruct (inc_rc (hdr_of mi i)) as [h|] eqn:E; [|leaf Hrec].
      apply IH. eapply Res_mild; [exact HR|mild_solve].
  Qed.
End Steps.
