(** * SafeCollHdr: the strengthened invariant [SInv] is insensitive to changes of tracing
    counters and marks of objects outside the dying set (the tracing pass, un-marking a list,
    re-buffering a list). *)
From Coq Require Import NArith Bool List Lia.
From stdpp Require Import base list option.
From RecordUpdate Require Import RecordSet.
From RC Require Import Hdr Machine RunInd.
From RC Require Import Inv InvP SafeHelpers SafePrims SafeCalls SafeGlue SafeDrop SafeCmd SafeCyclic SafeMain SafeColl SafeCollFr.
Import ListNotations RecordSetNotations.
Local Open Scope N_scope.

(** [x'] is [x] with another header that has the same strong count, side bit, finalized bit, and
    the same dropped marker (or: the value is live and the new header is not marked dropped) *)
Definition hsim (x x' : obj) : Prop :=
  exists h', x' = x <| o_hdr := h' |> /\ h_rc h' = h_rc (o_hdr x) /\
  h_side h' = h_side (o_hdr x) /\ h_fin h' = h_fin (o_hdr x) /\
  (is_dropped h' = is_dropped (o_hdr x) \/ (is_dropped h' = false /\ o_vst x = VLive)).

Lemma hsim_refl x : hsim x x.
Proof. exists (o_hdr x). split; [destruct x; reflexivity | auto 6]. Qed.

Lemma hsim_proj x x' : hsim x x' ->
  o_box x' = o_box x /\ o_vst x' = o_vst x /\ o_ismap x' = o_ismap x /\ o_fields x' = o_fields x /\
  o_cleaner x' = o_cleaner x /\ o_wfields x' = o_wfields x /\ o_side x' = o_side x /\ o_cls x' = o_cls x.
Proof. intros (h' & -> & _). repeat split. Qed.
Lemma hsim_hdr x x' : hsim x x' ->
  h_rc (o_hdr x') = h_rc (o_hdr x) /\ h_side (o_hdr x') = h_side (o_hdr x) /\ h_fin (o_hdr x') = h_fin (o_hdr x) /\
  (is_dropped (o_hdr x') = is_dropped (o_hdr x) \/ (is_dropped (o_hdr x') = false /\ o_vst x = VLive)).
Proof. intros (h' & -> & H1 & H2 & H3 & H4). auto. Qed.
Lemma hsim_same_hdr x x' : hsim x x' -> o_hdr x' = o_hdr x -> x' = x.
Proof. intros (h' & -> & _) He. cbn in He. subst h'. destruct x; reflexivity. Qed.

Lemma hsim_set x h' :
  h_rc h' = h_rc (o_hdr x) -> h_side h' = h_side (o_hdr x) -> h_fin h' = h_fin (o_hdr x) ->
  (is_dropped h' = is_dropped (o_hdr x) \/ (is_dropped h' = false /\ o_vst x = VLive)) ->
  hsim x (x <| o_hdr := h' |>).
Proof. intros. exists h'. auto 6. Qed.

Lemma hsum_Forall2 (R : obj -> obj -> Prop) g h h' :
  Forall2 R h h' -> (forall x x', R x x' -> g x' = g x) -> hsum g h' = hsum g h.
Proof.
  intros HF Hg. induction HF as [|x x' h h' Hx _ IH]; [reflexivity|].
  rewrite !hsum_cons, IH, (Hg _ _ Hx). reflexivity.
Qed.

Section Hsim.
  Context (K : conf).
  Implicit Types (m : machine) (o : id) (x : obj).

  Lemma okN_hsim b nr nw ind x x' :
    hsim x x' -> obj_okN K b nr nw ind x = true -> obj_okN K b nr nw ind x' = true.
  Proof.
    intros (h' & -> & H1 & H2 & H3 & H4) Hok. destruct (o_box x) eqn:Eb.
    - apply okN_notyet; [exact Eb|]. apply okN_notyet in Hok; assumption.
    - destruct (okN_alloc K _ _ _ _ _ Hok Eb) as (O1 & O2 & O3 & O4 & _).
      eapply okN_alloc_hdr; eauto; rewrite ?H1; auto.
      destruct H4 as [H4|[H4 Hv]]; rewrite H4.
      + exact O4.
      + destruct (k_weak K).
        * split; [unfold dying; rewrite Hv; discriminate | discriminate].
        * discriminate.
    - apply okN_freed; [exact Eb|]. apply okN_freed in Hok; assumption.
  Qed.

  Definition heaps_hsim m m' : Prop := Forall2 hsim (heap m) (heap m').

  Lemma hs_l m m' o x : heaps_hsim m m' -> get m o = Some x -> exists x', get m' o = Some x' /\ hsim x x'.
  Proof. intros HF Hx. apply (Forall2_lookup_l _ _ _ _ _ HF Hx). Qed.
  Lemma hs_r m m' o x' : heaps_hsim m m' -> get m' o = Some x' -> exists x, get m o = Some x /\ hsim x x'.
  Proof. intros HF Hx. apply (Forall2_lookup_r _ _ _ _ _ HF Hx). Qed.

  Lemma refs_hsim m m' o : heaps_hsim m m' -> slots m' = slots m -> bag m' = bag m -> refs m' o = refs m o.
  Proof.
    intros HF Hs Hb. rewrite !refs_unfold, Hs, Hb. f_equal.
    apply (hsum_Forall2 hsim); [exact HF|]. intros x x' Hx. destruct (hsim_proj _ _ Hx) as (_ & _ & _ & Hf & Hc & _).
    unfold obj_refs. rewrite Hf, Hc. reflexivity.
  Qed.
  Lemma wrefs_hsim m m' o : heaps_hsim m m' -> wslots m' = wslots m -> wparam m' = wparam m -> cslots m' = cslots m ->
    wrefs m' o = wrefs m o.
  Proof.
    intros HF H1 H2 H3. rewrite !wrefs_unfold, H1, H2, H3. f_equal.
    apply (hsum_Forall2 hsim); [exact HF|]. intros x x' Hx. destruct (hsim_proj _ _ Hx) as (_ & _ & _ & _ & _ & Hw & _).
    rewrite Hw. reflexivity.
  Qed.
  Lemma hloc_hsim m m' h c t : heaps_hsim m m' -> slots m' = slots m -> bag m' = bag m -> hloc m' h c t -> hloc m h c t.
  Proof.
    intros HF Hs Hb [i t' H | t' H | p xp' j t' Hp Hj | p xp' t' Hp Hc].
    - econstructor 1. rewrite <- Hs. eauto.
    - constructor 2. rewrite <- Hb. exact H.
    - destruct (hs_r _ _ _ _ HF Hp) as (xp & Hxp & Hsim). destruct (hsim_proj _ _ Hsim) as (_ & _ & _ & Hf & _).
      rewrite Hf in Hj. econstructor 3; eauto.
    - destruct (hs_r _ _ _ _ HF Hp) as (xp & Hxp & Hsim). destruct (hsim_proj _ _ Hsim) as (_ & _ & _ & _ & Hcl & _).
      rewrite Hcl in Hc. econstructor 4; eauto.
  Qed.
  Lemma is_map_hsim m m' o : heaps_hsim m m' -> is_map m' o = is_map m o.
  Proof.
    intros HF. unfold is_map. destruct (get m o) as [x|] eqn:Ex.
    - destruct (hs_l _ _ _ _ HF Ex) as (x' & -> & Hs). apply (hsim_proj _ _ Hs).
    - destruct (get m' o) as [x'|] eqn:Ex'; [|reflexivity]. destruct (hs_r _ _ _ _ HF Ex') as (x & Hx & _). congruence.
  Qed.

  (** THE transfer lemma *)
  Lemma SInv_hsim b E W m m' :
    SInv K b E W m -> heaps_hsim m m' ->
    slots m' = slots m -> bag m' = bag m -> wslots m' = wslots m -> wparam m' = wparam m ->
    cslots m' = cslots m -> values m' = values m -> dead m' = dead m -> pc_alive m' = pc_alive m ->
    (st_dropping m = true -> st_dropping m' = true) ->
    (* headers inside the dying set are untouched *)
    (forall o x x', get m o = Some x -> get m' o = Some x' -> inD m o = true -> o_hdr x' = o_hdr x) ->
    (forall t, t ∈ pc m' -> (exists x, get m t = Some x /\ o_box x = BAlloc /\ o_vst x = VLive /\ inD m t = false) /\
                            h_mark (hdr_of m' t) = PC) ->
    SInv K b E W m'.
  Proof.
    intros HI HF Hs Hb Hws Hwp Hcs Hv Hd Hal Hsd Hdead Hpc.
    assert (HR : forall o, refs m' o = refs m o) by (intros; apply refs_hsim; auto).
    assert (HW : forall o, wrefs m' o = wrefs m o) by (intros; apply wrefs_hsim; auto).
    assert (HD : forall o, inD m' o = inD m o) by (intros; apply inD_eq, Hd).
    assert (Hwn : forall w, wnomap m w -> wnomap m' w).
    { intros w Hw o Ho. rewrite (is_map_hsim _ _ _ HF). apply Hw, Ho. }
    split.
    - intros o x' Hx'. destruct (hs_r _ _ _ _ HF Hx') as (x & Hx & Hsim).
      rewrite HR, HW, HD. eapply okN_hsim; [exact Hsim|]. apply (sv_obj _ _ _ _ _ HI), Hx.
    - intros o x' Hx'. destruct (hs_r _ _ _ _ HF Hx') as (x & Hx & Hsim).
      unfold ObjX. rewrite HD.
      pose proof (sv_objx _ _ _ _ _ HI _ _ Hx) as HX. unfold ObjX in HX.
      apply (ObjXp_sd K _ _ _ _ Hsd) in HX.
      destruct (hsim_proj _ _ Hsim) as (Pb & Pv & Pm & Pf & Pc & Pw & Ps & _).
      destruct (hsim_hdr _ _ Hsim) as (S1 & S2 & _ & S3).
      destruct HX as [X1 X2 X3 X4 X5 X6]. split.
      + rewrite Pb, Pv, S1. intros Hbx Hvx. destruct S3 as [S3|[_ S3]]; [rewrite S3; auto | congruence].
      + unfold dying. rewrite Pb, Pv, S1. exact X2.
      + intros Hk Hi. rewrite Pb. rewrite (Hdead o x x' Hx Hx' Hi). apply X3; auto.
      + rewrite Ps. exact X4.
      + rewrite Pm, Pf, Pc, Pw. exact X5.
      + rewrite Pb, Pv. exact X6.
    - intros h c t Hl. apply (hloc_hsim _ _ _ _ _ HF Hs Hb) in Hl.
      destruct (sv_loc _ _ _ _ _ HI _ _ _ Hl) as (xt & Hxt & Hbt & Hct & Hm).
      destruct (hs_l _ _ _ _ HF Hxt) as (xt' & Hxt' & Hst).
      destruct (hsim_proj _ _ Hst) as (Pb & Pv & Pm & _).
      exists xt'. split; [exact Hxt'|]. split; [congruence|]. split; [intros Hc0; rewrite Pm; auto|].
      destruct h as [p|]; rewrite ?HD, ?Pv; [|exact Hm].
      intros xp' Hp'. destruct (hs_r _ _ _ _ HF Hp') as (xp & Hp & Hsp).
      destruct (hsim_proj _ _ Hsp) as (_ & Qv & _). rewrite Qv. destruct (Hm xp Hp) as [M1 M2]. split; [exact M1|].
      intros Hi. destruct (M2 Hi) as (N1 & N2 & N3). split; [exact N1|]. split; [exact N2|].
      intros Hvd. unfold marked. rewrite (Hdead t xt xt' Hxt Hxt' Hi). apply N3, Hvd.
    - intros t Ht. destruct (sv_E _ _ _ _ _ HI t Ht) as (xt & Hxt & Hbt).
      destruct (hs_l _ _ _ _ HF Hxt) as (xt' & Hxt' & Hst). exists xt'. split; [exact Hxt'|].
      destruct (hsim_proj _ _ Hst) as (Pb & _). congruence.
    - intros t Ht. destruct (Hpc t Ht) as ((x & Hx & Hbx & Hvx & Hix) & Hmk).
      destruct (hs_l _ _ _ _ HF Hx) as (x' & Hx' & Hst). destruct (hsim_proj _ _ Hst) as (Pb & Pv & _).
      exists x'. rewrite HD. rewrite (hdr_of_get _ _ _ Hx') in Hmk. repeat split; auto; congruence.
    - rewrite Hal. apply (sv_alive _ _ _ _ _ HI).
    - intros o Ho. rewrite HD in Ho. destruct (sv_dead _ _ _ _ _ HI o Ho) as [x Hx].
      destruct (hs_l _ _ _ _ HF Hx) as (x' & Hx' & _). eauto.
    - intros v o Hvo. rewrite Hv in Hvo. destruct (sv_values _ _ _ _ _ HI v o Hvo) as [(x & Hx & Hbx & Hvx) Hu]. split.
      + destruct (hs_l _ _ _ _ HF Hx) as (x' & Hx' & Hst). destruct (hsim_proj _ _ Hst) as (Pb & Pv & _).
        exists x'. repeat split; congruence.
      + intros v'. rewrite Hv. apply Hu.
    - destruct (sv_lens _ _ _ _ _ HI) as (? & ? & ?). repeat split; congruence.
    - intros i w Hi. rewrite Hws in Hi. apply Hwn. eapply (sv_wslots _ _ _ _ _ HI); eauto.
    - intros w Hw. rewrite Hwp in Hw. apply Hwn. apply (sv_wparam _ _ _ _ _ HI); auto.
    - intros p xp' j w Hp Hj. destruct (hs_r _ _ _ _ HF Hp) as (xp & Hxp & Hsp).
      destruct (hsim_proj _ _ Hsp) as (_ & _ & _ & _ & _ & Pw & _). rewrite Pw in Hj.
      apply Hwn. eapply (sv_wfields _ _ _ _ _ HI); eauto.
    - intros o Ho. rewrite HW in Ho. destruct (sv_wex _ _ _ _ _ HI o Ho) as [x Hx].
      destruct (hs_l _ _ _ _ HF Hx) as (x' & Hx' & _). eauto.
  Qed.

  (** *** Bulk header updates *)
  Lemma get_fold_uhdr_nodup f L : NoDup L -> forall m o,
    get (fold_left (fun m g => uhdr g f m) L m) o =
    if decide (o ∈ L) then (fun x => x <| o_hdr ::= f |>) <$> get m o else get m o.
  Proof.
    induction 1 as [|a L Ha Hnd IH]; intros m o.
    - cbn. rewrite decide_False by apply not_elem_of_nil. reflexivity.
    - cbn [fold_left]. rewrite IH. unfold uhdr at 1 2. rewrite !get_upd.
      destruct (decide (a = o)) as [->|Hne].
      + rewrite (decide_False (P := o ∈ L)) by exact Ha.
        rewrite (decide_True (P := o ∈ o :: L)) by (left). reflexivity.
      + destruct (decide (o ∈ L)) as [Hin|Hin].
        * rewrite (decide_True (P := o ∈ a :: L)) by (right; exact Hin). reflexivity.
        * rewrite (decide_False (P := o ∈ a :: L)); [reflexivity|]. rewrite elem_of_cons. intros [?|?]; congruence.
  Qed.

  Lemma fold_uhdr_proj f L : forall m,
    let m' := fold_left (fun m g => uhdr g f m) L m in
    slots m' = slots m /\ bag m' = bag m /\ wslots m' = wslots m /\ wparam m' = wparam m /\
    cslots m' = cslots m /\ values m' = values m /\ pc m' = pc m /\ dead m' = dead m /\
    pc_alive m' = pc_alive m /\ st_collecting m' = st_collecting m /\ st_dropping m' = st_dropping m /\
    log m' = log m /\ pc_size m' = pc_size m /\ st_finalizing m' = st_finalizing m /\
    length (heap m') = length (heap m).
  Proof.
    induction L as [|a L IH]; intros m; cbn [fold_left]; [repeat split|].
    specialize (IH (uhdr a f m)). cbv zeta in *.
    destruct IH as (H1 & H2 & H3 & H4 & H5 & H6 & H7 & H8 & H9 & H10 & H11 & H12 & H13 & H14 & H15).
    rewrite H1, H2, H3, H4, H5, H6, H7, H8, H9, H10, H11, H12, H13, H14, H15.
    repeat split. unfold uhdr, upd. cbn. apply alter_length.
  Qed.

  (** pointwise description implies the [Forall2] one *)
  Lemma heaps_hsim_intro m m' :
    length (heap m') = length (heap m) ->
    (forall o x, get m o = Some x -> exists x', get m' o = Some x' /\ hsim x x') ->
    heaps_hsim m m'.
  Proof.
    intros Hlen Hp. apply Forall2_same_length_lookup. split; [symmetry; exact Hlen|].
    intros i x x' Hx Hx'. destruct (Hp i x Hx) as (y & Hy & Hs). unfold get, Machine.id in Hy. rewrite Hx' in Hy. injection Hy as ->. exact Hs.
  Qed.
  (** modulo marks and tracing counters nothing changed: a frame modulo marks *)
  Lemma FrM_hsim E m m' :
    heaps_hsim m m' -> dead m' = dead m -> wparam m' = wparam m ->
    (forall o x x', get m o = Some x -> get m' o = Some x' -> o_box x = BNotYet -> o_hdr x' = o_hdr x) ->
    (forall o x x', get m o = Some x -> get m' o = Some x' -> inD m o = true -> o_hdr x' = o_hdr x) ->
    FrM K E m m'.
  Proof.
    intros HF Hd Hw Hny Hdead. unfold FrM.
    assert (HD : forall o, inD (strip m') o = inD (strip m) o) by (intros o; apply (inD_eq m m' o Hd)).
    split.
    - reflexivity.
    - exact Hw.
    - intros o. rewrite HD. auto.
    - intros Hc. discriminate Hc.
    - intros o y Hy. apply get_strip_Some in Hy as (x & Hx & ->).
      destruct (hs_l _ _ _ _ HF Hx) as (x' & Hx' & Hs). exists (norm_obj x').
      split; [rewrite get_strip, Hx'; reflexivity|].
      destruct (hsim_proj _ _ Hs) as (Pb & Pv & Pm & Pf & Pc & Pw & Ps & Pcl).
      destruct (o_box x) eqn:Eb.
      + rewrite (hsim_same_hdr _ _ Hs (Hny o x x' Hx Hx' Eb)). apply ObjFr_refl. intros o'. rewrite HD. auto.
      + apply ObjFr_hs; rewrite ?norm_cls, ?norm_ismap, ?norm_fields, ?norm_cleaner, ?norm_wfields, ?norm_vst, ?norm_box;
          first [ assumption | intros o'; rewrite HD; solve [auto] | left; congruence
                | intros _; apply norm_marked; congruence | rewrite norm_marked by congruence; discriminate | congruence ].
      + apply ObjFr_hs; rewrite ?norm_cls, ?norm_ismap, ?norm_fields, ?norm_cleaner, ?norm_wfields, ?norm_vst, ?norm_box;
          first [ assumption | intros o'; rewrite HD; solve [auto] | left; congruence
                | intros _; apply norm_marked; congruence | rewrite norm_marked by congruence; discriminate | congruence ].
    - intros Hk o y' Hy' Hi Hb Hdr. apply get_strip_Some in Hy' as (x' & Hx' & ->).
      destruct (hs_r _ _ _ _ HF Hx') as (x & Hx & Hs). rewrite HD in Hi. rewrite inD_strip in Hi.
      pose proof (Hdead o x x' Hx Hx' Hi) as He. rewrite (hsim_same_hdr _ _ Hs He) in *.
      exists (norm_obj x). rewrite get_strip, Hx, inD_strip. auto.
  Qed.
End Hsim.
