(** * SafeCollPass: the bridge between part A's invariant and the tracing-pass theorems:
    [PassPre] holds in every state satisfying [SInv] and the buffer invariant, and the state
    after the pass satisfies [SInv] again. *)
From Coq Require Import NArith Bool List Lia.
From stdpp Require Import base list option.
From RecordUpdate Require Import RecordSet.
From RC Require Import Hdr Machine RunInd.
From RC Require BufBase BufPass BufStep Buf.
From RC Require Pass PassCount PassRoots PassMain.
From RC Require Import Inv InvP SafeHelpers SafePrims SafeCalls SafeGlue SafeDrop SafeCmd SafeCyclic SafeMain.
From RC Require Import SafeColl SafeCollFr SafeCollHdr SafeCollTop.
Import ListNotations RecordSetNotations.
Local Open Scope N_scope.

(** ** Counting bridge: Pass's [in_fields] is Inv's heap part of [refs] *)
Lemma occ_opt_cnt_opt l v : Pass.occ_opt l v = cnt_opt v l.
Proof.
  unfold Pass.occ_opt, cnt_opt. induction l as [|a l IH]; [reflexivity|].
  destruct (decide (a = Some v)) as [->|Hne].
  - rewrite filter_cons_True by reflexivity. rewrite filter_cons_True by apply eqb_oid_refl. cbn. f_equal. exact IH.
  - rewrite filter_cons_False by exact Hne. rewrite filter_cons_False; [exact IH|].
    intros He. apply eqb_oid_Some in He. congruence.
Qed.
Lemma handles_of_obj_refs x v : Pass.handles_of x v = obj_refs v x.
Proof.
  unfold Pass.handles_of, obj_refs. rewrite occ_opt_cnt_opt. f_equal.
  destruct (decide (o_cleaner x = Some v)) as [->|Hne].
  - rewrite eqb_oid_refl. reflexivity.
  - destruct (eqb_oid (o_cleaner x) v) eqn:E; [|reflexivity]. apply eqb_oid_Some in E. congruence.
Qed.
Lemma in_fields_hsum m v : Pass.in_fields m v = hsum (obj_refs v) (heap m).
Proof.
  unfold Pass.in_fields. induction (heap m) as [|x h IH]; [reflexivity|].
  cbn. rewrite hsum_cons, IH, handles_of_obj_refs. reflexivity.
Qed.

Section Bridge.
  Context (K : conf) (P : prog).
  Implicit Types (m : machine) (o : id) (x : obj).

  (** a reported child is the target of a field of a live, non-map object *)
  Lemma kids_field m p c : c ∈ Pass.kids P m p ->
    exists x j, get m p = Some x /\ o_vst x = VLive /\ o_ismap x = false /\ o_borrowed x = false /\
                o_fields x !! j = Some (Some c).
  Proof.
    unfold Pass.kids, traced_children. destruct (get m p) as [x|] eqn:Ex; [|cbn; intros Hnil; inversion Hnil].
    destruct (o_ismap x) eqn:Em; [cbn; intros Hnil; inversion Hnil|].
    destruct (o_vst x) eqn:Ev. 2-5: (cbn; intros Hnil; inversion Hnil).
    destruct (o_borrowed x) eqn:Eb; [cbn; intros Hnil; inversion Hnil|]. cbn [snd].
    intros Hc. apply elem_of_list_omap in Hc as ([f t] & Hin & Hft).
    destruct t; [|discriminate]. subst f.
    apply elem_of_zip_l in Hin. apply elem_of_list_lookup in Hin as [j Hj].
    exists x, j. auto.
  Qed.

  Definition good_obj m o : Prop :=
    exists x, get m o = Some x /\ o_box x = BAlloc /\ o_vst x = VLive /\ inD m o = false /\
              is_dropped (o_hdr x) = false.

  Lemma live_not_dropped b E m o x :
    SInv K b E [] m -> get m o = Some x -> o_box x = BAlloc -> o_vst x = VLive -> inD m o = false ->
    (0 < refs m o)%nat -> is_dropped (o_hdr x) = false.
  Proof.
    intros HI Hx Hb Hv Hi Hr.
    destruct (okN_alloc K _ _ _ _ _ (sv_obj _ _ _ _ _ HI _ _ Hx) Hb) as (O1 & _ & _ & O4 & _).
    destruct (is_dropped (o_hdr x)) eqn:Ed; [|reflexivity]. exfalso.
    destruct (k_weak K).
    - destruct O4 as [_ O4]. destruct (O4 eq_refl) as [Hd | [Hd | Hd]].
      + unfold dying in Hd. rewrite Hv in Hd. discriminate.
      + congruence.
      + lia.
    - specialize (O4 eq_refl). unfold is_live in O4. rewrite Hv in O4. discriminate.
  Qed.

  Lemma reach_good b E m :
    SInv K b E [] m -> BufBase.Ibuf K [] m -> forall o, Pass.reach P m o -> good_obj m o.
  Proof.
    intros HI HB. pose proof (Buf.Ibuf_spec K [] m HB) as (_ & _ & _ & _ & _ & _ & _ & Htc).
    induction 1 as [o Ho | p c Hp IH Hc].
    - destruct (sv_pc _ _ _ _ _ HI o Ho) as (x & Hx & Hb & Hv & Hi & Hm). exists x. repeat split; auto.
      specialize (Htc o Ho). rewrite (hdr_of_get _ _ _ Hx) in Htc. unfold is_dropped. rewrite Htc. reflexivity.
    - destruct IH as (xp & Hxp & Hbp & Hvp & Hip & _).
      destruct (kids_field _ _ _ Hc) as (xp' & j & Hxp' & _ & _ & _ & Hj).
      assert (xp' = xp) by congruence. subst xp'.
      assert (Hl : hloc m (Some p) false c) by (econstructor 3; eauto).
      destruct (sv_loc _ _ _ _ _ HI _ _ _ Hl) as (xc & Hxc & Hbc & _ & Hm).
      destruct (Hm xp Hxp) as [M1 _]. destruct (M1 Hvp Hip) as [Hvc Hic].
      exists xc. repeat split; auto.
      eapply live_not_dropped; eauto. eapply hloc_refs_pos; eauto.
  Qed.

  (** the external count handed to the pass theorems *)
  Definition extc (E : list id) m : id -> N := fun o => N.of_nat (ext_refs m o + cnt_id o E).

  Theorem PassPre_SInv b E m :
    SInv K b E [] m -> BufBase.Ibuf K [] m -> Pass.PassPre P m (extc E m).
  Proof.
    intros HI HB. pose proof (reach_good b E m HI HB) as Hgood.
    destruct (Buf.Ibuf_spec K [] m HB) as ((B1 & B1') & (B2 & B2') & (_ & _ & B3 & B3') & _ & _ & _ & _ & Btc).
    split.
    - exact B1.
    - intros o Ho. destruct (B2 o Ho) as (x & Hx & Hm & _). rewrite (hdr_of_get _ _ _ Hx). exact Hm.
    - intros o (x & Hx & Hb). rewrite (hdr_of_get _ _ _ Hx).
      destruct (h_mark (o_hdr x)) eqn:Em; auto.
      + exfalso. assert (Hin : o ∈ @nil id) by (apply (B3 o x); [split; assumption | exact Em]). inversion Hin.
      + exfalso. apply (B3' o x Hx Em).
    - intros o (x & Hx & Hb) Hm. rewrite (hdr_of_get _ _ _ Hx) in Hm. apply (B2' o x Hx Hm).
    - exact B1'.
    - exact Btc.
    - intros o (x & Hx & Hb). rewrite (hdr_of_get _ _ _ Hx).
      destruct (okN_alloc K _ _ _ _ _ (sv_obj _ _ _ _ _ HI _ _ Hx) Hb) as (O1 & _).
      rewrite in_fields_hsum. unfold extc, ext_refs. rewrite refs_unfold in O1. lia.
    - intros o Ho. destruct (Hgood o Ho) as (x & Hx & Hb & _). rewrite (hdr_of_get _ _ _ Hx).
      destruct (okN_alloc K _ _ _ _ _ (sv_obj _ _ _ _ _ HI _ _ Hx) Hb) as (_ & _ & O3 & _). exact O3.
    - intros o Ho. destruct (Hgood o Ho) as (x & Hx & Hb & Hv & Hi & Hd). split; [|split].
      + exists x. auto.
      + exists x. auto.
      + rewrite (hdr_of_get _ _ _ Hx). unfold is_dropped in Hd. apply N.eqb_neq. exact Hd.
  Qed.
End Bridge.

(** ** The state after the pass *)
Section AfterPass.
  Context (K : conf) (P : prog).
  Implicit Types (o : id) (x : obj).

  Lemma obj_sim_hsim x y : Pass.obj_sim x y -> is_dropped (o_hdr y) = is_dropped (o_hdr x) -> hsim x y.
  Proof.
    intros (t & k & ->) Hd. exists (set_mark k (set_tc t (o_hdr x))). split; [destruct x; reflexivity|].
    cbn in Hd. cbn. auto 6.
  Qed.

  Lemma NoBad_app_log m m' l :
    log m' = l ++ log m -> (forall b o, EBad b o ∈ log m' -> EBad b o ∈ log m) -> NoBad m -> NoBad m'.
  Proof.
    intros Hl Hb Hnb. unfold NoBad, no_badU in *. apply forallb_forall. intros e He.
    destruct e as [| | | | | | | | |bb oo]; try reflexivity.
    apply elem_of_list_In in He. apply Hb in He. rewrite forallb_forall in Hnb.
    apply (Hnb _ (proj1 (elem_of_list_In _ _) He)).
  Qed.
  Lemma nofuel_app_log m m' l :
    log m' = l ++ log m -> (forall b o, EBad b o ∈ log m' -> EBad b o ∈ log m) -> nofuel m -> nofuel m'.
  Proof.
    intros Hl Hb Hnb. unfold nofuel in *. apply forallb_forall. intros e He.
    destruct e as [| | | | | | | | |bb oo]; try reflexivity.
    apply elem_of_list_In in He. apply Hb in He. rewrite forallb_forall in Hnb.
    apply (Hnb _ (proj1 (elem_of_list_In _ _) He)).
  Qed.

  Section One.
    Variables (b : bool) (E : list id) (m : machine).
    Hypothesis HI : SInv K b E [] m.
    Hypothesis HB : BufBase.Ibuf K [] m.
    Hypothesis Hnb : NoBad m.
    Hypothesis Hnf : nofuel m.
    Hypothesis Hcoll : st_collecting m = true.
    Let m0 := m <| st_finalizing := false |> <| st_dropping := false |>.
    Variables (m1 : machine) (pr : pass_result).
    Hypothesis Hr : trace_pass K P m0 = (m1, pr).
    Let m2 := m1 <| st_finalizing := st_finalizing m |> <| st_dropping := st_dropping m |>.

    Lemma ap_pre : Pass.PassPre P m0 (extc E m).
    Proof.
      apply (PassMain.PassPre_heap P m m0); try reflexivity. eapply PassPre_SInv; eauto.
    Qed.

    Lemma ap_nofuelres : pr <> PFuel.
    Proof. pose proof (PassMain.pass_fuel_ok K P m0 _ ap_pre) as H. rewrite Hr in H. exact H. Qed.

    Lemma ap_get o x : get m o = Some x -> exists x', get m2 o = Some x' /\ hsim x x'.
    Proof.
      intros Hx. destruct (PassMain.pass_frame_full K P m0 m1 pr Hr) as (_ & Hs & _).
      specialize (Hs o). change (get m0 o) with (get m o) in Hs. rewrite Hx in Hs.
      inversion Hs as [x0 y Hsim E1 E2|]; subst. exists y. split; [symmetry; assumption|].
      apply obj_sim_hsim; [exact Hsim|].
      pose proof (PassMain.pass_dropped_stable K P m0 _ m1 pr ap_pre Hr o) as Hd.
      unfold hdr_of in Hd. change (get m0 o) with (get m o) in Hd. rewrite Hx in Hd.
      match goal with H : Some y = get m1 o |- _ => rewrite <- H in Hd end. exact Hd.
    Qed.

    Lemma ap_heaps : heaps_hsim m m2.
    Proof.
      apply heaps_hsim_intro; [|exact ap_get].
      destruct (PassMain.pass_frame_full K P m0 m1 pr Hr) as (Hl & _). exact Hl.
    Qed.

    Lemma ap_rest :
      slots m2 = slots m /\ bag m2 = bag m /\ wslots m2 = wslots m /\ wparam m2 = wparam m /\
      cslots m2 = cslots m /\ values m2 = values m /\ dead m2 = dead m /\ pc_alive m2 = pc_alive m /\
      st_collecting m2 = st_collecting m /\ st_dropping m2 = st_dropping m /\ st_finalizing m2 = st_finalizing m /\
      panicking m2 = panicking m.
    Proof.
      destruct (PassMain.pass_frame_full K P m0 m1 pr Hr) as (_ & _ & _ & _ & _ & R).
      destruct R as (R1 & R2 & R3 & R4 & R5 & R6 & R7 & R8 & R9 & R10 & R11 & R12 & R13 & R14 & R15 & R16 & R17 &
                     R18 & R19 & R20 & R21 & R22 & R23 & R24).
      repeat split; first [assumption | reflexivity].
    Qed.

    Lemma ap_log : exists l, log m2 = l ++ log m /\ forall b o, EBad b o ∈ log m2 -> EBad b o ∈ log m.
    Proof.
      destruct (PassMain.pass_frame_full K P m0 m1 pr Hr) as (_ & _ & _ & (l & Hl & _) & _).
      exists l. split; [exact Hl|]. intros bb o Hin. apply (PassMain.pass_no_bad K P m0 _ m1 pr ap_pre Hr bb o Hin).
    Qed.

    Lemma ap_nobad : NoBad m2 /\ nofuel m2.
    Proof.
      destruct ap_log as (l & Hl & Hb). split; [eapply NoBad_app_log | eapply nofuel_app_log]; eauto.
    Qed.

    (** an object whose header changed is reachable, hence good *)
    Lemma ap_hdr o x x' : get m o = Some x -> get m2 o = Some x' -> o_hdr x' = o_hdr x \/ good_obj m o.
    Proof.
      intros Hx Hx'.
      destruct (PassMain.pass_hdr_bound K P m0 _ m1 pr ap_pre Hr o) as [He|[Hre _]].
      - left. unfold hdr_of in He. change (get m1 o) with (get m2 o) in He.
        change (get m0 o) with (get m o) in He. rewrite Hx, Hx' in He. exact He.
      - right. eapply (reach_good K P); eauto. eapply PassMain.reach_heap; [| |exact Hre]; reflexivity.
    Qed.

    Lemma ap_dead_hdr o x x' : get m o = Some x -> get m2 o = Some x' -> inD m o = true -> o_hdr x' = o_hdr x.
    Proof.
      intros Hx Hx' Hi. destruct (ap_hdr o x x' Hx Hx') as [|(y & Hy & _ & _ & Hi' & _)]; [assumption | congruence].
    Qed.

    Lemma ap_sinv :
      (forall t, t ∈ pc m2 -> t ∈ pc m /\ h_mark (hdr_of m2 t) = PC) -> SInv K b E [] m2.
    Proof.
      intros Hpc. destruct ap_rest as (R1 & R2 & R3 & R4 & R5 & R6 & R7 & R8 & R9 & R10 & R11 & R12).
      eapply (SInv_hsim K b E [] m m2 HI ap_heaps R1 R2 R3 R4 R5 R6 R7 R8 _ ap_dead_hdr).
      Unshelve.
      - intros t Ht. destruct (Hpc t Ht) as [Hin Hmk]. split; [|exact Hmk].
        destruct (sv_pc _ _ _ _ _ HI t Hin) as (x & Hx & Hbx & Hvx & Hix & _). exists x. auto.
      - intros H. exact H.
    Qed.

    Lemma ap_frm : FrM K E m m2.
    Proof.
      destruct ap_rest as (R1 & R2 & R3 & R4 & R5 & R6 & R7 & R8 & R9 & R10 & R11 & R12).
      apply (FrM_hsim K E m m2 ap_heaps R7 R4); [|exact ap_dead_hdr].
      intros o x x' Hx Hx' Hb.
      destruct (ap_hdr o x x' Hx Hx') as [|(y & Hy & Hby & _)]; [assumption | congruence].
    Qed.

    Lemma ap_buf :
      match pr with PDone L => BufBase.Ibuf K L m2 | PPanicked => BufBase.Ibuf K [] m2 | PFuel => True end.
    Proof.
      destruct ap_nobad as [Hnb2 Hnf2].
      assert (HG0 : BufBase.GI K [] [] m0).
      { right. destruct HB as (I & _ & _). eapply BufStep.Imk_same; [..|exact I]; reflexivity. }
      pose proof (BufPass.trace_pass_buf K P m0 HG0) as HT.
      pose proof (BufPass.trace_pass_pcz K P m0) as HZ. rewrite Hr in HT, HZ. cbn [fst snd] in HT, HZ.
      assert (Hcore : BufBase.core_eq m1 m2) by (repeat split).
      assert (Hc2 : st_collecting m2 = true).
      { destruct ap_rest as (_ & _ & _ & _ & _ & _ & _ & _ & R9 & _). rewrite R9. exact Hcoll. }
      destruct pr as [L| |]; [| |exact I].
      - apply (G_Ibuf K L m2); [|exact Hnb2|exact Hnf2].
        apply BufStep.G_of_GI.
        + eapply BufBase.GI_core; [exact Hcore | exact HT].
        + intros _. exact Hc2.
        + destruct (BufPass.tcz_of_pcz K _ _ _ HT (HZ ltac:(discriminate))) as [D|Z].
          * left. eapply BufBase.dirty_core; [exact Hcore | exact D].
          * right. eapply BufBase.tcz_heap; [|exact Z]. reflexivity.
      - apply (G_Ibuf K [] m2); [|exact Hnb2|exact Hnf2].
        apply BufStep.G_of_GI.
        + eapply BufBase.GI_core; [exact Hcore | exact HT].
        + intros Hne. contradiction.
        + destruct (BufPass.tcz_of_pcz K _ _ _ HT (HZ ltac:(discriminate))) as [D|Z].
          * left. eapply BufBase.dirty_core; [exact Hcore | exact D].
          * right. eapply BufBase.tcz_heap; [|exact Z]. reflexivity.
    Qed.

    Lemma ap_panicked : pr = PPanicked -> forall t, t ∈ pc m2 -> t ∈ pc m /\ h_mark (hdr_of m2 t) = PC.
    Proof.
      intros Hp t Ht. pose proof Hr as Hr'. rewrite Hp in Hr'.
      destruct (PassMain.pass_panicked K P m0 _ m1 ap_pre Hr') as (_ & Hsuf & _ & Hmk & _).
      assert (Hin : t ∈ pc m).
      { destruct Hsuf as [k Hk]. change (pc m0) with (pc m) in Hk. rewrite Hk. apply elem_of_app. right. exact Ht. }
      split; [exact Hin|].
      destruct (sv_pc _ _ _ _ _ HI t Hin) as (x & Hx & Hbx & _).
      destruct (ap_get t x Hx) as (x' & Hx' & Hs). destruct (hsim_proj _ _ Hs) as (Pb & _).
      change (hdr_of m2 t) with (hdr_of m1 t). apply Hmk; [|exact Ht].
      exists x'. split; [exact Hx' | congruence].
    Qed.

    Lemma ap_done L : pr = PDone L ->
      NoDup L /\ pc m2 = [] /\ (forall g, g ∈ L -> Member m2 g) /\ ClosedL L E m2.
    Proof.
      intros Hp. pose proof Hr as Hr'. rewrite Hp in Hr'.
      destruct (PassMain.pass_done_marks K P m0 _ m1 L ap_pre Hr') as (Hnd & Hpc & _ & Hmk & HL).
      pose proof (PassMain.pass_closed K P m0 _ m1 L ap_pre Hr') as Hcl.
      destruct ap_rest as (R1 & R2 & R3 & R4 & R5 & R6 & R7 & R8 & R9 & R10 & R11 & R12).
      split; [exact Hnd|]. split; [exact Hpc|]. split; [|split].
      - intros g Hg. destruct (HL g Hg) as ((x1 & Hx1 & Hb1) & _ & _).
        destruct (hs_r _ _ _ _ ap_heaps Hx1) as (x & Hx & Hs).
        destruct (hsim_proj _ _ Hs) as (Pb & Pv & _).
        assert (Hil : h_mark (o_hdr x1) = IL).
        { destruct (Hmk g) as [Hiff _]; [exists x1; auto|]. rewrite <- (hdr_of_get m1 g x1 Hx1). apply Hiff, Hg. }
        destruct (ap_hdr g x x1 Hx Hx1) as [He|(y & Hy & Hby & Hvy & Hiy & _)].
        { exfalso. assert (Hm : marked x = false) by (eapply (Ibuf_nomark_alloc K [] m); eauto; [congruence | apply not_elem_of_nil]).
          unfold marked, is_in_list_or_queue in Hm. rewrite <- He, Hil in Hm. discriminate. }
        assert (y = x) by congruence. subst y.
        exists x1. split; [exact Hx1|]. split; [congruence|]. split; [congruence|].
        split; [rewrite (inD_eq m m2 g R7); exact Hiy | exact Hil].
      - intros o Ho. destruct (Hcl o Ho) as (Hext & _). unfold extc in Hext. lia.
      - intros o Ho h c Hl. destruct (Hcl o Ho) as (Hext & Hfld & Hcln).
        apply (hloc_hsim m m2 _ _ _ ap_heaps R1 R2) in Hl.
        unfold extc, ext_refs in Hext.
        destruct Hl as [i t' Hs | t' Hbg | p xp j t' Hgp Hj | p xp t' Hgp Hc'].
        + exfalso. assert (0 < cnt_opt t' (slots m))%nat by (apply cnt_opt_pos; eauto). lia.
        + exfalso. apply cnt_id_pos in Hbg. lia.
        + exists p. split; [reflexivity|]. apply (Hfld p xp j Hgp Hj).
        + exfalso. apply (Hcln p xp Hgp Hc').
    Qed.
  End One.
End AfterPass.
