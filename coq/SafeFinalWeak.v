(** * SafeFinalWeak: Weak handles do not keep anything alive.

    The tracing pass [trace_pass] -- the function that decides what the collector reclaims -- and
    the strong-handle count [refs] do not read any Weak-related state: the machine fields
    [wslots], [wparam], [cslots] and the object fields [o_wfields], [o_side].

    This is stated as a commutation with the erasure [werase] that forgets exactly this state:
    running the pass on the erased machine gives the same verdict (the same list of objects to
    reclaim, or the same panic / fuel outcome) and the erasure of the resulting state.  Hence two
    machines that differ only in Weak-related state get the same verdict. *)
From Coq Require Import NArith Bool List Lia.
From stdpp Require Import base list option.
From RecordUpdate Require Import RecordSet.
From RC Require Import Hdr Machine RunInd Inv.
Import ListNotations RecordSetNotations.
Local Open Scope N_scope.

(** ** 1. The erasure *)
Definition wer_obj (x : obj) : obj := x <| o_wfields := [] |> <| o_side := None |>.
Definition werase (m : machine) : machine :=
  m <| heap ::= fmap wer_obj |> <| wslots := [] |> <| wparam := [] |> <| cslots := [] |>.

(** machine extensionality: the 29 fields *)
Lemma machine_ext (a b : machine) :
  heap a = heap b -> pc a = pc b -> pc_size a = pc_size b -> pc_alive a = pc_alive b ->
  st_collecting a = st_collecting b -> st_finalizing a = st_finalizing b ->
  st_dropping a = st_dropping b -> st_alloc a = st_alloc b -> st_exec a = st_exec b ->
  cf_thr a = cf_thr b -> cf_pnum a = cf_pnum b -> cf_pexp a = cf_pexp b -> cf_buf a = cf_buf b ->
  cf_auto a = cf_auto b -> slots a = slots b -> wslots a = wslots b -> cslots a = cslots b ->
  values a = values b -> bag a = bag b -> wparam a = wparam b ->
  fuse_trace a = fuse_trace b -> fuse_fin a = fuse_fin b -> fuse_drop a = fuse_drop b ->
  fuse_action a = fuse_action b -> fuse_closure a = fuse_closure b ->
  panicking a = panicking b -> next_aid a = next_aid b -> log a = log b -> dead a = dead b ->
  a = b.
Proof. destruct a, b; cbn; intros; subst; reflexivity. Qed.

(** projections of the erasure *)
Lemma heap_werase m : heap (werase m) = wer_obj <$> heap m. Proof. reflexivity. Qed.
Lemma pc_werase m : pc (werase m) = pc m. Proof. reflexivity. Qed.
Lemma pc_size_werase m : pc_size (werase m) = pc_size m. Proof. reflexivity. Qed.
Lemma slots_werase m : slots (werase m) = slots m. Proof. reflexivity. Qed.
Lemma bag_werase m : bag (werase m) = bag m. Proof. reflexivity. Qed.

Lemma wer_obj_hdr x : o_hdr (wer_obj x) = o_hdr x. Proof. reflexivity. Qed.
Lemma wer_obj_box x : o_box (wer_obj x) = o_box x. Proof. reflexivity. Qed.
Lemma wer_obj_vst x : o_vst (wer_obj x) = o_vst x. Proof. reflexivity. Qed.
Lemma wer_obj_cls x : o_cls (wer_obj x) = o_cls x. Proof. reflexivity. Qed.
Lemma wer_obj_ismap x : o_ismap (wer_obj x) = o_ismap x. Proof. reflexivity. Qed.
Lemma wer_obj_fields x : o_fields (wer_obj x) = o_fields x. Proof. reflexivity. Qed.
Lemma wer_obj_cleaner x : o_cleaner (wer_obj x) = o_cleaner x. Proof. reflexivity. Qed.
Lemma wer_obj_borrowed x : o_borrowed (wer_obj x) = o_borrowed x. Proof. reflexivity. Qed.

Lemma wer_obj_idem x : wer_obj (wer_obj x) = wer_obj x.
Proof. destruct x; reflexivity. Qed.
Lemma werase_idem m : werase (werase m) = werase m.
Proof.
  destruct m. cbv -[fmap wer_obj]. f_equal.
  induction heap as [|x l IH]; [reflexivity|].
  cbn [fmap list_fmap]. rewrite wer_obj_idem, IH. reflexivity.
Qed.

(** ** 2. Commutation lemmas, one per function of the tracing pass *)
Lemma get_werase m o : get (werase m) o = wer_obj <$> get m o.
Proof. unfold get. rewrite heap_werase. apply list_lookup_fmap. Qed.

Lemma hdr_of_werase m o : hdr_of (werase m) o = hdr_of m o.
Proof. unfold hdr_of. rewrite get_werase. destruct (get m o); reflexivity. Qed.

Lemma is_map_werase m o : is_map (werase m) o = is_map m o.
Proof. unfold is_map. rewrite get_werase. destruct (get m o); reflexivity. Qed.

Lemma upd_werase o f f' m :
  (forall x, f (wer_obj x) = wer_obj (f' x)) ->
  upd o f (werase m) = werase (upd o f' m).
Proof.
  intros Hf. apply machine_ext; try reflexivity.
  change (alter f o (wer_obj <$> heap m) = wer_obj <$> alter f' o (heap m)).
  symmetry. apply list_alter_fmap. apply Forall_forall; intros; symmetry; apply Hf.
Qed.

Lemma uhdr_werase o g m : uhdr o g (werase m) = werase (uhdr o g m).
Proof. unfold uhdr. apply upd_werase. intros x; destruct x; reflexivity. Qed.

Lemma emit_werase e m : emit e (werase m) = werase (emit e m).
Proof. destruct m; reflexivity. Qed.
Lemma emit_bad_werase b o m : emit_bad b o (werase m) = werase (emit_bad b o m).
Proof. apply emit_werase. Qed.

Lemma set_pc_werase l m : werase m <| pc := l |> = werase (m <| pc := l |>).
Proof. destruct m; reflexivity. Qed.

Lemma set_fuse_werase k n m : set_fuse k n (werase m) = werase (set_fuse k n m).
Proof. destruct m, k; reflexivity. Qed.
Lemma get_fuse_werase k m : get_fuse k (werase m) = get_fuse k m.
Proof. destruct k; reflexivity. Qed.

Lemma fold_left_cons {A B} (f : A -> B -> A) x l a :
  fold_left f (x :: l) a = fold_left f l (f a x).
Proof. reflexivity. Qed.

Section Pass.
  Context (K : conf) (P : prog).

  Lemma cur_flags_werase m : cur_flags K (werase m) = cur_flags K m.
  Proof. reflexivity. Qed.

  Lemma dec_size_werase o m : dec_size o (werase m) = werase (dec_size o m).
  Proof.
    unfold dec_size. rewrite pc_size_werase. destruct (pc_size m =? 0).
    - apply emit_bad_werase.
    - destruct m; reflexivity.
  Qed.

  Lemma tick_werase k m :
    tick k (werase m) = (werase (tick k m).1, (tick k m).2).
  Proof.
    unfold tick. rewrite get_fuse_werase. destruct (get_fuse k m =? 0); cbn [fst snd].
    - reflexivity.
    - rewrite set_fuse_werase. reflexivity.
  Qed.

  Lemma trace_event_werase p m :
    trace_event K p (werase m) = (werase (trace_event K p m).1, (trace_event K p m).2).
  Proof.
    unfold trace_event. rewrite is_map_werase. destruct (is_map m p); cbn [fst snd].
    - reflexivity.
    - rewrite cur_flags_werase, emit_werase. apply tick_werase.
  Qed.

  Lemma traced_children_werase m p :
    traced_children P (werase m) p
    = (werase (traced_children P m p).1, (traced_children P m p).2).
  Proof.
    unfold traced_children. rewrite get_werase. destruct (get m p) as [x|]; cbn [fmap option_fmap option_map].
    - rewrite wer_obj_ismap, wer_obj_vst, wer_obj_borrowed, wer_obj_fields, wer_obj_cls.
      destruct (o_ismap x); [reflexivity|].
      destruct (o_vst x); try (cbn [fst snd]; rewrite emit_bad_werase; reflexivity).
      destruct (o_borrowed x); reflexivity.
    - cbn [fst snd]. rewrite emit_bad_werase. reflexivity.
  Qed.

  (** the erasure lifted to tracing states *)
  Definition wer_t (s : tstate) : tstate :=
    TState (werase (t_m s)) (t_root s) (t_non s) (t_q s).

  Lemma visit_counting_werase s c :
    visit_counting (wer_t s) c = wer_t (visit_counting s c).
  Proof.
    destruct s as [m r n q].
    unfold visit_counting, wer_t. cbn [t_m t_root t_non t_q].
    rewrite get_werase. destruct (get m c) as [x|]; cbn [fmap option_fmap option_map].
    - rewrite wer_obj_hdr, wer_obj_box.
      repeat match goal with
             | |- context [match ?b with BNotYet => _ | BAlloc => _ | BFreed => _ end] => destruct b
             | |- context [if ?b then _ else _] => destruct b
             end;
        cbn [t_m t_root t_non t_q];
        rewrite ?emit_bad_werase, ?uhdr_werase; reflexivity.
    - rewrite emit_bad_werase. reflexivity.
  Qed.

  Lemma fold_visit_counting_werase l s :
    fold_left visit_counting l (wer_t s) = wer_t (fold_left visit_counting l s).
  Proof.
    revert s; induction l as [|c l IH]; intros s; [reflexivity|].
    rewrite !fold_left_cons, visit_counting_werase. apply IH.
  Qed.

  Lemma unmark_all_werase l m : unmark_all l (werase m) = werase (unmark_all l m).
  Proof.
    unfold unmark_all. revert m; induction l as [|o l IH]; intros m; [reflexivity|].
    rewrite !fold_left_cons, uhdr_werase. apply IH.
  Qed.

  Lemma fold_reset_werase l m :
    fold_left (fun m o => uhdr o reset_tc m) l (werase m)
    = werase (fold_left (fun m o => uhdr o reset_tc m) l m).
  Proof.
    revert m; induction l as [|o l IH]; intros m; [reflexivity|].
    rewrite !fold_left_cons, uhdr_werase. apply IH.
  Qed.

  Lemma reset_buffered_werase m : reset_buffered (werase m) = werase (reset_buffered m).
  Proof. unfold reset_buffered. rewrite pc_werase. apply fold_reset_werase. Qed.

  Lemma process_counting_werase s p :
    process_counting K P (wer_t s) p
    = (wer_t (process_counting K P s p).1, (process_counting K P s p).2).
  Proof.
    unfold process_counting. cbn [wer_t t_m t_root t_non t_q].
    rewrite uhdr_werase, trace_event_werase.
    destruct (trace_event K p (uhdr p (set_mark IQ) (t_m s))) as [m1 boom]; cbn [fst snd].
    destruct boom.
    - cbn [fst snd wer_t t_m t_root t_non t_q].
      rewrite uhdr_werase, unmark_all_werase, reset_buffered_werase. reflexivity.
    - rewrite traced_children_werase.
      destruct (traced_children P m1 p) as [m2 kids]; cbn [fst snd].
      change (TState (werase m2) (t_root s) (t_non s) (t_q s))
        with (wer_t (TState m2 (t_root s) (t_non s) (t_q s))).
      rewrite fold_visit_counting_werase.
      set (s2 := fold_left visit_counting kids (TState m2 (t_root s) (t_non s) (t_q s))).
      cbn [wer_t t_m t_root t_non t_q].
      rewrite hdr_of_werase, uhdr_werase.
      destruct (h_rc (hdr_of (t_m s2) p) =? h_tc (hdr_of (t_m s2) p)); reflexivity.
  Qed.

  (** lifting to the optional result of a phase *)
  Definition wer_r (r : option (tstate * bool)) : option (tstate * bool) :=
    match r with Some (s, b) => Some (wer_t s, b) | None => None end.

  Lemma counting_werase fuel s :
    counting K P fuel (wer_t s) = wer_r (counting K P fuel s).
  Proof.
    revert s; induction fuel as [|f IH]; intros s; cbn [counting]; [reflexivity|].
    cbn [wer_t t_m t_root t_non t_q]. rewrite pc_werase.
    destruct (pc (t_m s)) as [|p rest].
    - destruct (t_q s) as [|p q'].
      + reflexivity.
      + rewrite uhdr_werase.
        change (TState (werase (uhdr p (set_mark NM) (t_m s))) (t_root s) (t_non s) q')
          with (wer_t (TState (uhdr p (set_mark NM) (t_m s)) (t_root s) (t_non s) q')).
        rewrite process_counting_werase.
        destruct (process_counting K P _ p) as [s' boom]; cbn [fst snd].
        destruct boom; [reflexivity|apply IH].
    - rewrite uhdr_werase, set_pc_werase, dec_size_werase.
      match goal with |- context [TState (werase ?m) ?a ?b ?c] =>
        change (TState (werase m) a b c) with (wer_t (TState m a b c)) end.
      rewrite process_counting_werase.
      destruct (process_counting K P _ p) as [s' boom]; cbn [fst snd].
      destruct boom; [reflexivity|apply IH].
  Qed.

  Lemma visit_root_werase s c :
    visit_root (wer_t s) c = wer_t (visit_root s c).
  Proof.
    destruct s as [m r n q].
    unfold visit_root, wer_t. cbn [t_m t_root t_non t_q].
    rewrite get_werase. destruct (get m c) as [x|]; cbn [fmap option_fmap option_map].
    - rewrite wer_obj_hdr, wer_obj_box.
      repeat match goal with
             | |- context [match ?b with BNotYet => _ | BAlloc => _ | BFreed => _ end] => destruct b
             | |- context [if ?b then _ else _] => destruct b
             end;
        cbn [t_m t_root t_non t_q];
        rewrite ?emit_bad_werase, ?uhdr_werase; reflexivity.
    - rewrite emit_bad_werase. reflexivity.
  Qed.

  Lemma fold_visit_root_werase l s :
    fold_left visit_root l (wer_t s) = wer_t (fold_left visit_root l s).
  Proof.
    revert s; induction l as [|c l IH]; intros s; [reflexivity|].
    rewrite !fold_left_cons, visit_root_werase. apply IH.
  Qed.

  Lemma process_root_werase s p :
    process_root K P (wer_t s) p
    = (wer_t (process_root K P s p).1, (process_root K P s p).2).
  Proof.
    unfold process_root. cbn [wer_t t_m t_root t_non t_q].
    rewrite trace_event_werase.
    destruct (trace_event K p (t_m s)) as [m1 boom]; cbn [fst snd].
    destruct boom.
    - cbn [fst snd wer_t t_m t_root t_non t_q]. rewrite unmark_all_werase. reflexivity.
    - rewrite traced_children_werase.
      destruct (traced_children P m1 p) as [m2 kids]; cbn [fst snd].
      change (TState (werase m2) (t_root s) (t_non s) (t_q s))
        with (wer_t (TState m2 (t_root s) (t_non s) (t_q s))).
      rewrite fold_visit_root_werase. reflexivity.
  Qed.

  Lemma roots_werase fuel s :
    roots K P fuel (wer_t s) = wer_r (roots K P fuel s).
  Proof.
    revert s; induction fuel as [|f IH]; intros s; cbn [roots]; [reflexivity|].
    cbn [wer_t t_m t_root t_non t_q].
    destruct (t_root s) as [|p rest].
    - destruct (t_q s) as [|p q'].
      + reflexivity.
      + rewrite uhdr_werase.
        match goal with |- context [TState (werase ?m) ?a ?b ?c] =>
          change (TState (werase m) a b c) with (wer_t (TState m a b c)) end.
        rewrite process_root_werase.
        destruct (process_root K P _ p) as [s' boom]; cbn [fst snd].
        destruct boom; [reflexivity|apply IH].
    - rewrite uhdr_werase.
      match goal with |- context [TState (werase ?m) ?a ?b ?c] =>
        change (TState (werase m) a b c) with (wer_t (TState m a b c)) end.
      rewrite process_root_werase.
      destruct (process_root K P _ p) as [s' boom]; cbn [fst snd].
      destruct boom; [reflexivity|apply IH].
  Qed.

  Lemma pass_fuel_werase m : pass_fuel (werase m) = pass_fuel m.
  Proof. unfold pass_fuel. rewrite heap_werase, fmap_length. reflexivity. Qed.

  (** the tracing pass commutes with the erasure: same verdict, erased resulting state *)
  Theorem trace_pass_werase m :
    trace_pass K P (werase m) = (werase (trace_pass K P m).1, (trace_pass K P m).2).
  Proof.
    unfold trace_pass. rewrite pass_fuel_werase.
    change (TState (werase m) [] [] []) with (wer_t (TState m [] [] [])).
    rewrite counting_werase.
    destruct (counting K P (pass_fuel m) (TState m [] [] [])) as [[s b]|]; cbn [wer_r]; [|reflexivity].
    destruct b; [reflexivity|].
    rewrite roots_werase.
    destruct (roots K P (pass_fuel m) s) as [[s' b']|]; cbn [wer_r]; [|reflexivity].
    destruct b'; reflexivity.
  Qed.

  (** ** 3. Independence from Weak-related state *)
  Theorem trace_pass_weak_indep m m' :
    werase m' = werase m ->
    (trace_pass K P m').2 = (trace_pass K P m).2
    /\ werase (trace_pass K P m').1 = werase (trace_pass K P m).1.
  Proof.
    intros E.
    pose proof (trace_pass_werase m) as H.
    pose proof (trace_pass_werase m') as H'.
    rewrite E, H in H'. split.
    - exact (eq_sym (f_equal snd H')).
    - exact (eq_sym (f_equal fst H')).
  Qed.
End Pass.

(** a readable sufficient condition for equal erasures: the machines agree on every field except
    [heap], [wslots], [wparam], [cslots], and the heaps agree object by object up to [o_wfields]
    and [o_side] *)
Definition weak_variant (x x' : obj) : Prop :=
  exists wf sd, x' = x <| o_wfields := wf |> <| o_side := sd |>.

Lemma weak_variant_wer_obj x x' : weak_variant x x' -> wer_obj x' = wer_obj x.
Proof. intros (wf & sd & ->). destruct x; reflexivity. Qed.

Lemma werase_eq_intro (m m' : machine) :
  Forall2 (fun x x' => exists wf sd, x' = x <| o_wfields := wf |> <| o_side := sd |>)
          (heap m) (heap m') ->
  pc m' = pc m -> pc_size m' = pc_size m -> pc_alive m' = pc_alive m ->
  st_collecting m' = st_collecting m -> st_finalizing m' = st_finalizing m ->
  st_dropping m' = st_dropping m -> st_alloc m' = st_alloc m -> st_exec m' = st_exec m ->
  cf_thr m' = cf_thr m -> cf_pnum m' = cf_pnum m -> cf_pexp m' = cf_pexp m ->
  cf_buf m' = cf_buf m -> cf_auto m' = cf_auto m -> slots m' = slots m ->
  values m' = values m -> bag m' = bag m ->
  fuse_trace m' = fuse_trace m -> fuse_fin m' = fuse_fin m -> fuse_drop m' = fuse_drop m ->
  fuse_action m' = fuse_action m -> fuse_closure m' = fuse_closure m ->
  panicking m' = panicking m -> next_aid m' = next_aid m -> log m' = log m -> dead m' = dead m ->
  werase m' = werase m.
Proof.
  intros Hh. intros. apply machine_ext; try assumption; try reflexivity.
  rewrite !heap_werase. induction Hh as [|x x' l l' Hx _ IH]; [reflexivity|].
  cbn [fmap list_fmap]. rewrite IH, (weak_variant_wer_obj x x' Hx). reflexivity.
Qed.

(** ** 4. The strong-handle count ignores Weak-related state *)
Lemma obj_refs_wer_obj o x : obj_refs o (wer_obj x) = obj_refs o x.
Proof. reflexivity. Qed.

Theorem ext_refs_werase m o : ext_refs (werase m) o = ext_refs m o.
Proof. reflexivity. Qed.

Theorem heap_refs_werase m o : heap_refs (werase m) o = heap_refs m o.
Proof.
  unfold heap_refs. rewrite heap_werase.
  induction (heap m) as [|x l IH]; [reflexivity|].
  cbn [fmap list_fmap fold_right]. rewrite obj_refs_wer_obj, IH. reflexivity.
Qed.

Theorem refs_werase m o : refs (werase m) o = refs m o.
Proof. unfold refs. rewrite ext_refs_werase, heap_refs_werase. reflexivity. Qed.

Lemma refs_weak_indep m m' o : werase m' = werase m -> refs m' o = refs m o.
Proof. intros E. rewrite <- (refs_werase m'), E. apply refs_werase. Qed.

(** ** 5. Two different machines with the same erasure, and the assumptions

    Object 0 is a self-cycle (its traced field points to itself) sitting in the buffer, with no
    strong handle from outside.  In [ex_m1] its side record counts no Weak; in [ex_m2] three
    Weak handles point to it (a slot, a closure parameter, its own Weak field).  The erasures are
    equal, so the pass gives the same verdict -- and that verdict is "reclaim object 0". *)
Definition ex_obj (wf : list (option wref)) (sd : option side) : obj :=
  Obj (Hdr 1 0 PC false true) VLive BAlloc sd 0%nat false [Some 0%nat] wf None false [] [] false.

Definition ex_m1 (K : conf) : machine :=
  init K <| heap := [ex_obj [None] (Some (Side (Wk 0 true) false))] |>
         <| pc := [0%nat] |> <| pc_size := 1 |>.
Definition ex_m2 (K : conf) : machine :=
  init K <| heap := [ex_obj [Some (WTo 0%nat)] (Some (Side (Wk 3 true) false))] |>
         <| pc := [0%nat] |> <| pc_size := 1 |>
         <| wslots ::= <[1%nat := Some (WTo 0%nat)]> |>
         <| wparam := [WTo 0%nat] |>.
Definition ex_P : prog := Prog [Cls 1 [true] 1 false None None] [] [].

Example werase_example K :
  ex_m2 K <> ex_m1 K
  /\ werase (ex_m2 K) = werase (ex_m1 K)
  /\ wrefs (ex_m2 K) 0%nat = 3%nat /\ wrefs (ex_m1 K) 0%nat = 0%nat
  /\ refs (ex_m2 K) 0%nat = refs (ex_m1 K) 0%nat
  /\ (trace_pass K ex_P (ex_m2 K)).2 = PDone [0%nat]
  /\ (trace_pass K ex_P (ex_m1 K)).2 = PDone [0%nat].
Proof.
  assert (E : werase (ex_m2 K) = werase (ex_m1 K)) by reflexivity.
  assert (T : (trace_pass K ex_P (ex_m1 K)).2 = PDone [0%nat]) by (vm_compute; reflexivity).
  split; [|split; [|split; [|split; [|split; [|split]]]]].
  - intros H. apply (f_equal wparam) in H. discriminate H.
  - exact E.
  - reflexivity.
  - reflexivity.
  - apply refs_weak_indep, E.
  - rewrite <- T. apply trace_pass_weak_indep, E.
  - exact T.
Qed.

Print Assumptions trace_pass_werase.
Print Assumptions trace_pass_weak_indep.
Print Assumptions refs_weak_indep.
Print Assumptions werase_eq_intro.
Print Assumptions werase_example.
