(** * SafeCollOnce: one collection pass ([KCollectOnce] = [__collect]): the tracing pass, then
    the finalization pass or the drop pass. *)
From Coq Require Import NArith Bool List Lia.
From stdpp Require Import base list option.
From RecordUpdate Require Import RecordSet.
From RC Require Import Hdr Machine RunInd.
From RC Require BufBase BufPass BufStep Buf.
From RC Require Pass PassCount PassRoots PassMain.
From RC Require Import Inv InvP SafeHelpers SafePrims SafeCalls SafeGlue SafeDrop SafeCmd SafeCyclic SafeMain.
From RC Require Import SafeColl SafeCollFr SafeCollHdr SafeCollTop SafeCollPass SafeCollDead.
Import ListNotations RecordSetNotations.
Local Open Scope N_scope.

Section Once.
  Context (K : conf) (P : prog).
  Context (rec : call -> machine -> machine * outcome).
  Hypothesis HrecQ : forall b E A c m,
    Pre K (PreC K) b E c m -> Q K A c m -> Post K (PostC K) b E c m (rec c m).1 (rec c m).2.
  Hypothesis Hbuf : BufStep.rok K rec.
  Hypothesis Hnf : nfspec rec.

  Notation PostOf b E c m res := (Post K (PostC K) b E c m (fst res) (snd res)).

  Lemma Member_same m m' g :
    heap m' = heap m -> dead m' = dead m -> Member m g -> Member m' g.
  Proof.
    intros Hh Hd (x & Hx & H). exists x. unfold get in *. rewrite Hh. rewrite (inD_eq m m' g Hd). auto.
  Qed.
  Lemma DeadClosed_same L m m' :
    heap m' = heap m -> slots m' = slots m -> bag m' = bag m -> DeadClosed L m -> DeadClosed L m'.
  Proof. intros Hh Hs Hb HC o Ho h c Hl. apply (HC o Ho h c). eapply hloc_ext; eauto. Qed.

  Definition restore (m m1 : machine) : machine :=
    m1 <| st_finalizing := st_finalizing m |> <| st_dropping := st_dropping m |>.

  Lemma once_tail b E m m1 pr :
    PreC K b E KCollectOnce m ->
    trace_pass K P (m <| st_finalizing := false |> <| st_dropping := false |>) = (m1, pr) ->
    PostOf b E KCollectOnce m
      (let m2 := restore m m1 in
       match pr with
       | PFuel => (emit_bad Fuel 0 m2, OFuel)
       | PPanicked => (m2, raise m2)
       | PDone L =>
         match L with
         | [] => (m2, ONormal)
         | _ =>
           if k_fin K then
             let old_f := st_finalizing m2 in
             rec (KFinalizeList L L false old_f) (m2 <| st_finalizing := true |>)
           else
             let old_d := st_dropping m2 in
             rec (KDropList L L old_d) (m2 <| st_dropping := true |> <| dead ::= app L |>)
         end
       end).
  Proof.
    intros (Hnb & HI & Hc & HB & Hn) Hr. cbv zeta. set (m2 := restore m m1).
    pose proof (ap_rest K P m m1 pr Hr) as (R1 & R2 & R3 & R4 & R5 & R6 & R7 & R8 & R9 & R10 & R11 & R12).
    fold m2 in R1, R2, R3, R4, R5, R6, R7, R8, R9, R10, R11, R12.
    pose proof (ap_nobad K P b E m HI HB Hnb Hn m1 pr Hr) as [Hnb2 Hn2]. fold m2 in Hnb2, Hn2.
    pose proof (ap_frm K P b E m HI HB m1 pr Hr) as HF2. fold m2 in HF2.
    pose proof (ap_buf K P b E m HI HB Hnb Hn Hc m1 pr Hr) as HB2. fold m2 in HB2.
    assert (Hc2 : st_collecting m2 = true) by (etransitivity; [exact R9 | exact Hc]).
    destruct pr as [L| |].
    - (* the pass completed *)
      destruct (ap_done K P b E m HI HB m1 (PDone L) Hr L eq_refl) as (Hnd & Hpc & HM & HCl). fold m2 in Hpc, HM, HCl.
      assert (HI2 : SInv K b E [] m2).
      { apply (ap_sinv K P b E m HI HB m1 (PDone L) Hr). fold m2. rewrite Hpc. intros t Ht. inversion Ht. }
      destruct L as [|g0 L0].
      + cbn [fst snd]. cbn. split; [exact Hnb2|]. split; [exact HI2|]. split; [exact HF2|]. split; [|exact I].
        intros _. apply NDD_refl. exact R7.
      + set (L := g0 :: L0) in *.
        destruct (k_fin K) eqn:Hfin.
        * (* finalization pass *)
          set (m3 := m2 <| st_finalizing := true |>).
          destruct (rec_all K rec HrecQ Hbuf Hnf b E L (KFinalizeList L L false (st_finalizing m2)) m3) as (HP & F3 & G3).
          { cbn. split; [|split; [exact Hnd|split; [exists []; reflexivity|split]]].
            - split; [exact Hnb2|]. split; [eapply SInv_same; eauto; reflexivity|]. split; [exact Hc2|].
              split; [eapply Ibuf_same; [..|exact HB2]; reflexivity | exact Hn2].
            - intros g Hg. eapply Member_same; [| |apply HM, Hg]; reflexivity.
            - intros _. destruct HCl as [HE HC]. split; [exact HE|]. eapply DeadClosed_same; [..|exact HC]; reflexivity. }
          { cbn. split; [right; eapply Ibuf_same; [..|exact HB2]; reflexivity | exact Hc2]. }
          { exact Hn2. }
          destruct (rec (KFinalizeList L L false (st_finalizing m2)) m3) as [m' r]. cbn [fst snd] in *.
          destruct r; try exact I.
          -- destruct HP as (A1 & A2 & A3 & A4 & _). cbn. split; [exact A1|]. split; [exact A2|]. split; [|split; [|exact I]].
             ++ eapply FrM_trans; [exact HF2|]. eapply FrM_trans; [|exact A3]. apply FrM_flags; reflexivity.
             ++ intros _. eapply (NDD_proper m3 m'); [| reflexivity | reflexivity | apply A4; reflexivity]. cbn. symmetry. exact R7.
          -- destruct HP as (A1 & A2 & A3 & A4 & _). cbn. split; [exact A1|]. split; [exact A2|]. split; [|split; [discriminate|exact I]].
             eapply FrM_trans; [exact HF2|]. eapply FrM_trans; [|exact A3]. apply FrM_flags; reflexivity.
        * (* drop pass *)
          change (m2 <| st_dropping := true |> <| dead ::= app L |>) with (enter L m2).
          destruct (enter_facts K b E L m2 HI2 HM HCl) as (HDM & HDC & HTI).
          destruct (rec_all K rec HrecQ Hbuf Hnf b E L (KDropList L L (st_dropping m2)) (enter L m2)) as (HP & F3 & G3).
          { cbn. split; [|split; [exact Hnd|split; [exists []; reflexivity|split; [exact HDM|split; [exact HDC|exact HTI]]]]].
            split; [exact Hnb2|]. split; [apply SInv_enter_dead; assumption|]. split; [exact Hc2|].
            split; [eapply Ibuf_same; [..|exact HB2]; reflexivity | exact Hn2]. }
          { cbn. split; [right; eapply Ibuf_same; [..|exact HB2]; reflexivity | exact Hc2]. }
          { exact Hn2. }
          destruct (rec (KDropList L L (st_dropping m2)) (enter L m2)) as [m' r]. cbn [fst snd] in *.
          assert (HL : forall g, g ∈ L -> cnt_id g E = 0%nat /\ exists x, get m2 g = Some x /\ o_vst x <> VDropping).
          { intros g Hg. split; [apply HCl, Hg|]. destruct (HM g Hg) as (x & Hx & _ & Hv & _). exists x. split; [exact Hx | congruence]. }
          destruct r; try exact I.
          -- destruct HP as (A1 & A2 & A3 & A4 & A5 & A6). cbn. split; [exact A1|]. split; [exact A2|]. split; [|split; [|exact I]].
             ++ eapply FrM_trans; [exact HF2|]. eapply FrM_enter_dead; eauto.
             ++ intros _ o x' Hx' Hi Hi0. rewrite <- (inD_eq m m2 o R7) in Hi0.
                destruct (decide (o ∈ L)) as [Hin|Hout].
                ** destruct (A6 eq_refl o Hin) as (y & Hy & Hvy). congruence.
                ** eapply (A4 eq_refl o x' Hx' Hi). rewrite inD_enter_out by exact Hout. exact Hi0.
          -- destruct HP as (A1 & A2 & A3 & A4 & A5 & A6). cbn. split; [exact A1|]. split; [exact A2|]. split; [|split; [discriminate|exact I]].
             eapply FrM_trans; [exact HF2|]. eapply FrM_enter_dead; eauto.
    - (* the tracing pass unwound *)
      assert (HI2 : SInv K b E [] m2).
      { apply (ap_sinv K P b E m HI HB m1 PPanicked Hr). apply (ap_panicked K P b E m HI HB m1 PPanicked Hr eq_refl). }
      cbn [fst snd]. unfold raise. destruct (panicking m2); [exact I|]. cbn.
      split; [exact Hnb2|]. split; [eapply SInv_inexact; exact HI2|]. split; [exact HF2|]. split; [discriminate | exact I].
    - exact I.
  Qed.

  Lemma step_collect_once_ok b E m :
    PreC K b E KCollectOnce m -> PostOf b E KCollectOnce m (step_collect_once K P rec m).
  Proof.
    intros Hpre. unfold step_collect_once.
    destruct (trace_pass K P (m <| st_finalizing := false |> <| st_dropping := false |>)) as [m1 pr] eqn:Hr.
    exact (once_tail b E m m1 pr Hpre Hr).
  Qed.
End Once.
