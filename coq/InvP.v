(** * InvP: propositional form of the reference-count / no-dangling / lifecycle invariant
    ([Inv.inv_b]) and the pre/post-conditions of every activation kind (layer "safe", part A).

    - [Inv K E m] is the propositional reading of [inv_b K E m = true] ([Inv_iff]: literally
      equivalent), with projection lemmas for the named conjuncts.
    - [SInv K b E W m] is the STRENGTHENED invariant that is inductive at inner points (inside
      callbacks).  [E]: strong handles in flight (held by active frames), [W]: weak handles in
      flight (only inside straight-line code), [b = true]: the strong counts are exact (no
      handle was lost to a panic yet).  [SInv K b E [] m -> Inv K E m], and
      [SInv K true E [] m -> exact_b E m = true].  The extra conjuncts (not in [Inv.inv_b]) are
      listed at [ObjX], [LocOk] and the [sv_*] fields below.
    - [Pre]/[Post]: the specification of every [call], universally quantified over the outer
      in-flight list [E]; the five inner collector calls are parameters ([PreC]/[PostC]) to be
      chosen by part B. *)
From Coq Require Import NArith Bool List Lia.
From stdpp Require Import base list option.
From RecordUpdate Require Import RecordSet.
From RC Require Import Hdr Machine RunInd Inv.
Import ListNotations RecordSetNotations.
Local Open Scope N_scope.

Global Arguments N.add : simpl never.
Global Arguments N.sub : simpl never.
Global Arguments N.of_nat : simpl never.

(** ** Small predicates *)
Definition dying (x : obj) : bool :=
  match o_vst x with VDropping | VDropped => true | _ => false end.
Definition marked (x : obj) : bool := is_in_list_or_queue (o_hdr x).
Definition marked_at (m : machine) (o : id) : bool := is_in_list_or_queue (hdr_of m o).
(** membership in the ghost dying set *)
Definition inD (m : machine) (o : id) : bool := mem_id o (dead m).
(** weak handles in flight pointing to [o] *)
Definition cnt_wr (o : id) (W : list wref) : nat := cnt_w o (map Some W).

(** model-detected misbehaviour other than Fuel/Abort and other than counter underflow of the
    two byte/size counters (which is the business of the buffer invariant, Buf*.v) *)
Definition bad_ok (b : bad) : bool :=
  match b with Fuel | Abort | Underflow => true | _ => false end.
Definition no_badU (m : machine) : bool :=
  forallb (fun e => match e with EBad b _ => bad_ok b | _ => true end) (log m).
Definition no_uflow (m : machine) : bool :=
  forallb (fun e => match e with EBad Underflow _ => false | _ => true end) (log m).

Lemma no_bad_split m : no_bad m = no_badU m && no_uflow m.
Proof.
  unfold no_bad, no_badU, no_uflow. induction (log m) as [|e l IH]; [reflexivity|].
  cbn [forallb]. rewrite IH. destruct e as [| | | | | | | | |b o]; cbn; try reflexivity.
  destruct b; cbn; try reflexivity; rewrite ?andb_false_r; reflexivity.
Qed.

(** every strong handle location: holder ([None] = slot or bag), is-it-the-cleaner-field, target *)
Inductive hloc (m : machine) : option id -> bool -> id -> Prop :=
| HL_slot i t : slots m !! i = Some (Some t) -> hloc m None false t
| HL_bag t : t ∈ bag m -> hloc m None false t
| HL_field p xp j t : get m p = Some xp -> o_fields xp !! j = Some (Some t) -> hloc m (Some p) false t
| HL_clean p xp t : get m p = Some xp -> o_cleaner xp = Some t -> hloc m (Some p) true t.

Ltac split_andb := repeat match goal with H : _ && _ = true |- _ => let H' := fresh H in apply andb_true_iff in H as [H H'] end.

Section Defs.
  Context (K : conf).

  (** ** The per-object conjunct of [Inv.obj_ok], abstracted over the three numbers it depends
      on, and with the exactness switch [b] *)
  Definition obj_okN (b : bool) (nr nw : nat) (ind : bool) (x : obj) : bool :=
    let h := o_hdr x in
    match o_box x with
    | BAlloc =>
      ((N.of_nat nr <=? h_rc h) && implb b (h_rc h =? N.of_nat nr))
      && (h_rc h <=? max_rc)
      && (let dying := match o_vst x with VDropping | VDropped => true | _ => false end in
          if k_weak K then (implb dying (is_dropped h)) && (implb (is_dropped h) (dying || ind || (h_rc h =? 0)))
          else negb (is_dropped h) || negb (is_live x))
      && Bool.eqb (h_side h) (match o_side x with Some _ => true | None => false end)
      && match o_side x with
         | Some s => negb (sd_freed s) && w_acc (sd_wk s) && (w_cnt (sd_wk s) =? N.of_nat nw)
                     && (w_cnt (sd_wk s) <=? max_weak)
         | None => Nat.eqb nw 0
         end
      && match o_vst x with
         | VMoved => false
         | _ => true
         end
    | BFreed =>
      Nat.eqb nr 0
      && negb (is_live x)
      && match o_side x with
         | Some s => if sd_freed s then Nat.eqb nw 0
                     else negb (w_acc (sd_wk s)) && (w_cnt (sd_wk s) =? N.of_nat nw) && negb (w_cnt (sd_wk s) =? 0)
         | None => Nat.eqb nw 0
         end
    | BNotYet =>
      Nat.eqb nr 0 && Nat.eqb nw 0
    end.

  Lemma obj_ok_N E D m o x :
    obj_ok K E D m o x = obj_okN false (refs m o + cnt_id o E) (wrefs m o) (mem_id o D) x.
  Proof.
    unfold obj_ok, obj_okN. destruct (o_box x); try reflexivity.
    cbn [implb]. rewrite andb_true_r. reflexivity.
  Qed.

  Lemma obj_okN_weaken b nr nw ind x : obj_okN b nr nw ind x = true -> obj_okN false nr nw ind x = true.
  Proof.
    destruct b; [|auto]. unfold obj_okN. destruct (o_box x); auto. cbn [implb].
    destruct (h_rc (o_hdr x) =? N.of_nat nr); [auto|]. rewrite andb_false_r. cbn. discriminate.
  Qed.

  (** ** [Inv]: the propositional form of [inv_b] *)
  Record Inv (E : list id) (m : machine) : Prop := {
    inv_obj : forall o x, heap m !! o = Some x ->
              obj_okN false (refs m o + cnt_id o E) (wrefs m o) (mem_id o (dead m)) x = true;
    inv_loc : forall l, l ∈ handle_locs m -> loc_ok (dead m) m l = true;
    inv_E : forall t, t ∈ E -> exists xt, heap m !! t = Some xt /\ is_alloc xt = true;
    inv_pc : forall t, t ∈ pc m -> exists xt, heap m !! t = Some xt /\
               is_alloc xt = true /\ is_live xt = true /\ mem_id t (dead m) = false;
  }.

  Lemma Inv_iff E m : Inv E m <-> inv_b K E m = true.
  Proof.
    unfold inv_b. rewrite !andb_true_iff, !forallb_forall. split.
    - intros [H1 H2 H3 H4]. repeat split.
      + intros [o x] Hin. apply elem_of_list_In, elem_of_lookup_imap in Hin.
        destruct Hin as (i & y & [= -> ->] & Hl). rewrite obj_ok_N. apply H1, Hl.
      + intros l Hin. apply H2, elem_of_list_In, Hin.
      + intros t Hin. destruct (H3 t) as (xt & -> & Ha); [apply elem_of_list_In, Hin | exact Ha].
      + intros t Hin. destruct (H4 t) as (xt & -> & Ha & Hb & Hc); [apply elem_of_list_In, Hin|].
        rewrite Ha, Hb, Hc. reflexivity.
    - intros (((H1 & H2) & H3) & H4). split.
      + intros o x Hl. rewrite <- obj_ok_N.
        apply (H1 (o, x)), elem_of_list_In, elem_of_lookup_imap. eauto.
      + intros l Hin. apply H2, elem_of_list_In, Hin.
      + intros t Hin. specialize (H3 t (proj1 (elem_of_list_In _ _) Hin)).
        destruct (heap m !! t) as [xt|]; [eauto | discriminate].
      + intros t Hin. specialize (H4 t (proj1 (elem_of_list_In _ _) Hin)).
        destruct (heap m !! t) as [xt|]; [|discriminate].
        apply andb_true_iff in H4 as [H4 Hc]. apply andb_true_iff in H4 as [Ha Hb].
        apply negb_true_iff in Hc. eauto 6.
  Qed.

  (** *** The named conjuncts *)
Definition OkAlloc (b : bool) (nr nw : nat) (ind : bool) (x : obj) : Prop :=
  N.of_nat nr <= h_rc (o_hdr x) /\ (b = true -> h_rc (o_hdr x) = N.of_nat nr) /\ h_rc (o_hdr x) <= max_rc /\
  (if k_weak K then (dying x = true -> is_dropped (o_hdr x) = true) /\
                    (is_dropped (o_hdr x) = true -> dying x = true \/ ind = true \/ h_rc (o_hdr x) = 0)
   else is_dropped (o_hdr x) = true -> is_live x = false) /\
  match o_side x with
  | Some s => h_side (o_hdr x) = true /\ sd_freed s = false /\ w_acc (sd_wk s) = true /\
              w_cnt (sd_wk s) = N.of_nat nw /\ w_cnt (sd_wk s) <= max_weak
  | None => h_side (o_hdr x) = false /\ nw = 0%nat
  end /\ o_vst x <> VMoved.
Definition OkFreed (nr nw : nat) (x : obj) : Prop :=
  nr = 0%nat /\ is_live x = false /\
  match o_side x with
  | Some s => if sd_freed s then nw = 0%nat
              else w_acc (sd_wk s) = false /\ w_cnt (sd_wk s) = N.of_nat nw /\ w_cnt (sd_wk s) <> 0
  | None => nw = 0%nat
  end.
Lemma okN_alloc b nr nw ind x : obj_okN b nr nw ind x = true -> o_box x = BAlloc -> OkAlloc b nr nw ind x.
Proof.
  unfold obj_okN, OkAlloc. intros H Hb. rewrite Hb in H. cbv zeta in H. fold (dying x) in H. split_andb.
  split; [apply N.leb_le; assumption|].
  split; [intros ->; apply N.eqb_eq; assumption|].
  split; [apply N.leb_le; assumption|]. split; [|split].
  - destruct (k_weak K).
    + split_andb. split.
      * intros Hd. rewrite Hd in *. assumption.
      * intros Hd. rewrite Hd in *. cbn in *.
        repeat match goal with H : _ || _ = true |- _ => apply orb_true_iff in H as [H|H] end; auto.
        right; right. apply N.eqb_eq. assumption.
    + intros Hd. rewrite Hd in *. cbn in *. apply negb_true_iff. assumption.
  - destruct (o_side x) as [s|]; split_andb.
    + repeat split; try (apply N.eqb_eq; assumption); try (apply N.leb_le; assumption);
        try (apply negb_true_iff; assumption); try assumption. apply eqb_prop. assumption.
    + split; [apply eqb_prop; assumption | apply Nat.eqb_eq; assumption].
  - intros Hv. rewrite Hv in *. discriminate.
Qed.
Lemma okN_alloc_intro b nr nw ind x : o_box x = BAlloc -> OkAlloc b nr nw ind x -> obj_okN b nr nw ind x = true.
Proof.
  unfold obj_okN, OkAlloc. intros Hb (H1 & H2 & H3 & H4 & H5 & H6). rewrite Hb. cbv zeta. fold (dying x).
  repeat (apply andb_true_iff; split).
  - apply N.leb_le, H1.
  - destruct b; [|reflexivity]. cbn. apply N.eqb_eq, H2. reflexivity.
  - apply N.leb_le, H3.
  - destruct (k_weak K).
    + destruct H4 as [H4 H4']. apply andb_true_iff. split.
      * destruct (dying x); [cbn; auto | reflexivity].
      * destruct (is_dropped (o_hdr x)); [|reflexivity]. cbn.
        destruct (H4' eq_refl) as [->| [-> | ->]]; cbn; rewrite ?orb_true_r; reflexivity.
    + destruct (is_dropped (o_hdr x)); [|reflexivity]. cbn. rewrite H4; reflexivity.
  - destruct (o_side x) as [s|]; [destruct H5 as (-> & _) | destruct H5 as (-> & _)]; reflexivity.
  - destruct (o_side x) as [s|].
    + destruct H5 as (_ & -> & -> & H7 & H8). cbn. apply andb_true_iff. split; [apply N.eqb_eq, H7 | apply N.leb_le, H8].
    + destruct H5 as (_ & ->). reflexivity.
  - destruct (o_vst x); try reflexivity. congruence.
Qed.
Lemma okN_freed b nr nw ind x : o_box x = BFreed -> (obj_okN b nr nw ind x = true <-> OkFreed nr nw x).
Proof.
  unfold obj_okN, OkFreed. intros ->. split.
  - intros H. split_andb. split; [apply Nat.eqb_eq; assumption|]. split; [apply negb_true_iff; assumption|].
    destruct (o_side x) as [s|]; [destruct (sd_freed s)|]; try (apply Nat.eqb_eq; assumption).
    split_andb. repeat split; try (apply negb_true_iff; assumption); try (apply N.eqb_eq; assumption).
    apply N.eqb_neq, negb_true_iff. assumption.
  - intros (-> & -> & H). cbn. destruct (o_side x) as [s|]; [destruct (sd_freed s)|]; try (apply Nat.eqb_eq; assumption).
    destruct H as (-> & H1 & H2). cbn. apply andb_true_iff. split; [apply N.eqb_eq, H1 | apply negb_true_iff, N.eqb_neq, H2].
Qed.
Lemma okN_notyet b nr nw ind x : o_box x = BNotYet -> (obj_okN b nr nw ind x = true <-> nr = 0%nat /\ nw = 0%nat).
Proof.
  unfold obj_okN. intros ->. rewrite andb_true_iff, !Nat.eqb_eq. reflexivity.
Qed.
(** projections for [Inv] *)
Lemma Inv_alloc E m o x : Inv E m -> heap m !! o = Some x -> o_box x = BAlloc ->
  OkAlloc false (refs m o + cnt_id o E) (wrefs m o) (mem_id o (dead m)) x.
Proof. intros HI Hx Hb. apply okN_alloc; [apply (inv_obj _ _ HI), Hx | exact Hb]. Qed.
Lemma Inv_freed E m o x : Inv E m -> heap m !! o = Some x -> o_box x = BFreed ->
  OkFreed (refs m o + cnt_id o E) (wrefs m o) x.
Proof. intros HI Hx Hb. eapply okN_freed; [exact Hb | apply (inv_obj _ _ HI), Hx]. Qed.
Lemma Inv_notyet E m o x : Inv E m -> heap m !! o = Some x -> o_box x = BNotYet ->
  (refs m o + cnt_id o E = 0)%nat /\ wrefs m o = 0%nat.
Proof. intros HI Hx Hb. eapply okN_notyet; [exact Hb | apply (inv_obj _ _ HI), Hx]. Qed.
(** I-count *)
Lemma Inv_count E m o x : Inv E m -> heap m !! o = Some x -> o_box x = BAlloc ->
  N.of_nat (refs m o + cnt_id o E) <= h_rc (o_hdr x) <= max_rc.
Proof. intros HI Hx Hb. destruct (Inv_alloc _ _ _ _ HI Hx Hb) as (H1 & _ & H3 & _). auto. Qed.
  (** ** The strengthened invariant *)

  (** extra per-object facts (none of them is in [Inv.inv_b]) *)
  Record ObjXp (ind sd : bool) (x : obj) : Prop := {
    (* (b) a value under construction (new_cyclic) has no strong handle yet *)
    ox_uninit : o_box x = BAlloc -> o_vst x = VUninit ->
                h_rc (o_hdr x) = 0 /\ is_dropped (o_hdr x) = false;
    (* (b2) a value destroyed through Cc::drop has strong count 0 for ever *)
    ox_dying : o_box x = BAlloc -> dying x = true -> ind = false -> h_rc (o_hdr x) = 0;
    (* (c) members of the dying set not yet marked dropped belong to a running drop pass *)
    ox_dead : k_weak K = true -> ind = true -> o_box x = BAlloc -> is_dropped (o_hdr x) = false ->
              h_mark (o_hdr x) = IL /\ sd = true;
    (* without weak-ptrs there are no side records *)
    ox_noweak : k_weak K = false -> o_side x = None;
    (* a CleanerMap holds no handles *)
    ox_map : o_ismap x = true -> o_fields x = [] /\ o_cleaner x = None /\ o_wfields x = [];
    (* the dying set only contains boxes that were allocated with an initialised value *)
    ox_indead : ind = true -> o_box x <> BNotYet /\ o_vst x <> VMoved /\ o_vst x <> VUninit;
  }.
  (** [ind]: membership of the object in the dying set, [sd]: the [dropping] flag *)
  Definition ObjX (m : machine) (o : id) (x : obj) : Prop := ObjXp (inD m o) (st_dropping m) x.

  (** the conjunct for a handle location ([Inv.loc_ok] + three extra facts: fields, slots and
      the bag never point to a CleanerMap; a location pointing into the dying set lies inside
      the dying set and not inside a dropped value; a value whose destruction is running only
      points to dying objects that are still linked in the running drop pass) *)
  Definition LocOk (m : machine) (h : option id) (c : bool) (t : id) : Prop :=
    exists xt, get m t = Some xt /\ o_box xt = BAlloc /\ (c = false -> o_ismap xt = false) /\
      match h with
      | None => o_vst xt = VLive /\ inD m t = false
      | Some p => forall xp, get m p = Some xp ->
          (o_vst xp = VLive -> inD m p = false -> o_vst xt = VLive /\ inD m t = false) /\
          (inD m t = true -> inD m p = true /\ o_vst xp <> VDropped /\ (o_vst xp = VDropping -> marked xt = true))
      end.

  Definition wnomap (m : machine) (w : option wref) : Prop :=
    forall o, w = Some (WTo o) -> is_map m o = false.

  Record SInv (b : bool) (E : list id) (W : list wref) (m : machine) : Prop := {
    sv_obj : forall o x, get m o = Some x ->
             obj_okN b (refs m o + cnt_id o E) (wrefs m o + cnt_wr o W) (inD m o) x = true;
    sv_objx : forall o x, get m o = Some x -> ObjX m o x;
    sv_loc : forall h c t, hloc m h c t -> LocOk m h c t;
    sv_E : forall t, t ∈ E -> exists xt, get m t = Some xt /\ o_box xt = BAlloc;
    (* buffered objects: [Inv.inv_b]'s conjunct + their mark is PC *)
    sv_pc : forall t, t ∈ pc m -> exists xt, get m t = Some xt /\ o_box xt = BAlloc /\
              o_vst xt = VLive /\ inD m t = false /\ h_mark (o_hdr xt) = PC;
    sv_alive : pc_alive m = true;
    sv_dead : forall o, inD m o = true -> is_Some (get m o);
    (* values moved out by try_unwrap: freed box, VMoved, each in one slot only *)
    sv_values : forall v o, values m !! v = Some (Some o) ->
                (exists x, get m o = Some x /\ o_box x = BFreed /\ o_vst x = VMoved) /\
                (forall v', values m !! v' = Some (Some o) -> v' = v);
    sv_lens : length (slots m) = nslots /\ length (wslots m) = nslots /\ length (cslots m) = nslots;
    (* Weak handles of the program never point to a CleanerMap *)
    sv_wslots : forall i w, wslots m !! i = Some w -> wnomap m w;
    sv_wparam : forall w, w ∈ wparam m -> wnomap m (Some w);
    sv_wfields : forall p xp j w, get m p = Some xp -> o_wfields xp !! j = Some w -> wnomap m w;
    (* every Weak handle points to an object of the heap *)
    sv_wex : forall o, (0 < wrefs m o + cnt_wr o W)%nat -> is_Some (get m o);
  }.

  Definition NoBad (m : machine) : Prop := no_badU m = true.
  Definition Exact (E : list id) (m : machine) : Prop := exact_b E m = true.

  (** ** Frame: what no activation changes (outcomes ONormal and OPanic) *)
  (** [o] is protected: an enclosing frame holds a strong handle to it, or it is linked in a
      collector list while a collection runs *)
  Definition protected (E : list id) (m : machine) (o : id) (x : obj) : Prop :=
    (0 < cnt_id o E)%nat \/ (marked x = true /\ st_collecting m = true).

  Record ObjFr (E : list id) (ex : option id) (m m' : machine) (o : id) (x x' : obj) : Prop := {
    of_cls : o_cls x' = o_cls x;
    of_ismap : o_ismap x' = o_ismap x;
    of_nf : length (o_fields x') = length (o_fields x);
    of_dropped : o_vst x = VDropped -> o_vst x' = VDropped;
    of_box1 : o_box x <> BNotYet -> o_box x' <> BNotYet;
    of_box2 : o_box x = BFreed -> o_box x' = BFreed;
    (* a value that never got a box is not touched (except by its own drop glue and Drop script) *)
    of_notyet : o_box x = BNotYet -> o_vst x <> VDropping -> ex <> Some o -> x' = x;
    (* a value whose destruction is running is only touched by its own drop glue *)
    of_dropping : o_vst x = VDropping -> ex <> Some o ->
                  o_vst x' = VDropping /\ o_fields x' = o_fields x /\ o_cleaner x' = o_cleaner x /\
                  o_box x' = o_box x /\ (inD m' o = true -> inD m o = true);
    (* a value destruction that starts inside the call is complete when the call returns *)
    of_nodropping : ex <> Some o -> o_vst x' = VDropping -> o_vst x = VDropping;
    (* a value under construction (new_cyclic) is only touched by its constructor *)
    of_uninit : ex <> Some o -> o_vst x = VUninit -> o_box x = BAlloc ->
                o_vst x' = VUninit /\ o_box x' = BAlloc /\ o_fields x' = o_fields x /\
                o_wfields x' = o_wfields x /\ o_cleaner x' = o_cleaner x;
    of_nouninit : o_vst x' = VUninit -> o_vst x = VUninit;
    (* the strong handles of a member of the dying set that is not yet dropped only change in
       its own drop glue *)
    of_dead : inD m o = true -> ex <> Some o -> o_vst x' <> VDropped ->
              o_fields x' = o_fields x /\ o_cleaner x' = o_cleaner x;
    (* no list mark appears on an existing object (a freed box keeps its last mark) *)
    of_unmarked : marked x = false -> o_box x' <> BFreed -> marked x' = false;
    of_prot : ex <> Some o -> o_box x = BAlloc -> protected E m o x ->
              o_box x' = BAlloc /\ o_vst x' = o_vst x /\ (inD m' o = true -> inD m o = true) /\
              (marked x = true -> st_collecting m = true -> h_mark (o_hdr x') = h_mark (o_hdr x));
  }.

  Record Fr (E : list id) (ex : option id) (m m' : machine) : Prop := {
    fr_coll : st_collecting m' = st_collecting m;
    (* the parameter stack of the running new_cyclic closures is restored *)
    fr_wp : wparam m' = wparam m;
    fr_dead : forall o, inD m o = true -> inD m' o = true;
    (* while a collection runs nothing is added to the dying set (collections do not nest) *)
    fr_deadc : st_collecting m = true -> forall o, inD m' o = true -> inD m o = true;
    fr_obj : forall o x, get m o = Some x -> exists x', get m' o = Some x' /\ ObjFr E ex m m' o x x';
    (* (weak-ptrs) the members of the dying set not yet marked dropped can only become fewer *)
    fr_undropped : k_weak K = true -> forall o x', get m' o = Some x' -> inD m' o = true -> o_box x' = BAlloc ->
                   is_dropped (o_hdr x') = false ->
                   exists x, get m o = Some x /\ inD m o = true /\ o_box x = BAlloc /\
                             is_dropped (o_hdr x) = false;
  }.

  (** on normal return every object that entered the dying set has been dropped *)
  Definition NewDeadDropped (m m' : machine) : Prop :=
    forall o x', get m' o = Some x' -> inD m' o = true -> inD m o = false -> o_vst x' = VDropped.

  (** ** Pre-conditions *)
  Definition good_h (m : machine) (t : id) : Prop :=
    exists x, get m t = Some x /\ o_box x = BAlloc /\ o_vst x = VLive /\ inD m t = false /\
              o_ismap x = false.

  (** a handle about to be passed to Cc::drop: if its target is in the dying set, the target is
      still linked in the running drop pass (so Cc::drop only decrements) *)
  Definition own_ok (m : machine) (o : id) : Prop := inD m o = true -> marked_at m o = true.

  Definition loc_valid (m : machine) (r : rloc) : Prop :=
    match r with
    | RSlot i => (i < nslots)%nat
    | RField p j => exists x, get m p = Some x /\ (j < length (o_fields x))%nat /\ o_box x <> BNotYet /\
                               o_vst x <> VDropping /\ o_vst x <> VUninit /\
                               (inD m p = true -> o_vst x = VDropped)
    end /\ forall t, read_loc r m = Some t -> own_ok m t.

  Definition self_ok (E : list id) (self : option id) (cs : list cmd) (m : machine) : Prop :=
    match self with
    | None => True
    | Some g => (exists x, get m g = Some x /\ o_box x = BAlloc /\ o_vst x = VLive /\
                           inD m g = false /\ o_ismap x = false /\ protected E m g x)
                \/ (forallb cmd_no_self cs = true /\ exists x, get m g = Some x /\ o_vst x = VDropping)
    end.

  Definition fields_marked (m : machine) (x : obj) : Prop :=
    forall t, (exists j, o_fields x !! j = Some (Some t)) \/ o_cleaner x = Some t ->
              inD m t = true -> marked_at m t = true.

  Definition droppable (E : list id) (m : machine) (o : id) : Prop :=
    exists x, get m o = Some x /\ cnt_id o E = 0%nat /\
      match o_box x with
      | BAlloc => o_vst x = VLive /\ (k_weak K = true -> is_dropped (o_hdr x) = true) /\
                  ((h_rc (o_hdr x) = 0 /\ inD m o = false /\ o ∉ pc m)
                   \/ (inD m o = true /\ fields_marked m x))
      | BNotYet => o_vst x = VLive
      | BFreed => o_vst x = VMoved /\ forall v, values m !! v <> Some (Some o)
      end.

  (** the object whose own drop glue the call is *)
  Definition ex_of (c : call) : option id :=
    match c with KDropValue o | KDropFields o _ | KDropMapSlots o _ => Some o | _ => None end.
  (** the strong handles the call receives by value *)
  Definition own_of (c : call) : list id :=
    match c with KStore _ v => [v] | KDropCc o => [o] | _ => [] end.

  Section PrePost.
    (** the specification of the five inner collector calls is chosen by part B *)
    Context (PreC : bool -> list id -> call -> machine -> Prop)
            (PostC : bool -> list id -> call -> machine -> machine -> outcome -> Prop).

    Definition Pre (b : bool) (E : list id) (c : call) (m : machine) : Prop :=
      match c with
      | KCollect | KCollectLoop _ | KCollectOnce | KFinalizeList _ _ _ _ | KDropList _ _ _ => PreC b E c m
      | _ =>
        NoBad m /\ SInv b (own_of c ++ E) [] m /\
        match c with
        | KCmd self c => self_ok E self [c] m
        | KScript self cs => self_ok E self cs m
        | KStore r v => loc_valid m r /\ good_h m v
        | KDropCc o => own_ok m o
        | KDropValue o => droppable E m o
        | KDropFields o _ | KDropMapSlots o _ => exists x, get m o = Some x /\ o_vst x = VDropping
        | _ => True
        end
      end.

    (** dropping a CleanerMap without occupied slots runs no user code: only the map changes *)
    Definition only_touches (o : id) (m m' : machine) : Prop := forall p, p <> o -> get m' p = get m p.
    Definition quiet_map (o : id) (m m' : machine) : Prop :=
      forall x, get m o = Some x -> o_ismap x = true -> o_mslots x = [] -> only_touches o m m'.

    Definition post_own (c : call) (m m' : machine) : Prop :=
      match c with
      | KDropCc o => quiet_map o m m'
      | KDropValue o =>
        quiet_map o m m' /\
        exists x x', get m o = Some x /\ get m' o = Some x' /\ o_vst x' = VDropped /\
                     o_box x' = o_box x /\ (inD m' o = true -> inD m o = true)
      | KDropFields o j =>
        exists x x', get m o = Some x /\ get m' o = Some x' /\ o_vst x' = VDropping /\
                     o_box x' = o_box x /\ (inD m' o = true -> inD m o = true) /\
                     (forall i, (i < j)%nat -> o_fields x' !! i = o_fields x !! i) /\
                     (forall i t, (j <= i)%nat -> o_fields x' !! i = Some (Some t) -> False) /\
                     o_cleaner x' = None
      | KDropMapSlots o j =>
        (forall x, get m o = Some x -> o_mslots x !! j = None -> only_touches o m m') /\
        exists x x', get m o = Some x /\ get m' o = Some x' /\ o_vst x' = VDropping /\
                     o_box x' = o_box x /\ (inD m' o = true -> inD m o = true) /\
                     o_fields x' = o_fields x /\ o_cleaner x' = o_cleaner x
      | _ => True
      end.

    Definition Post (b : bool) (E : list id) (c : call) (m m' : machine) (r : outcome) : Prop :=
      match c with
      | KCollect | KCollectLoop _ | KCollectOnce | KFinalizeList _ _ _ _ | KDropList _ _ _ => PostC b E c m m' r
      | _ =>
        match r with
        | ONormal | OPanic =>
          NoBad m' /\
          SInv (match r with ONormal => b | _ => false end) E [] m' /\
          Fr E (ex_of c) m m' /\
          (r = ONormal -> NewDeadDropped m m') /\
          post_own c m m'
        | _ => True     (* such runs are discarded: exec_top logs EBad Abort / EBad Fuel *)
        end
      end.
  End PrePost.
End Defs.
