(** * CleanWalkStep: the walk over all activations for the invariant [J] and the relation [R]
    (CleanWalkRel.v), modulo taint (as CleanU.v): pre/post-conditions, tactics, and the
    activations that are handled generically. *)
From Coq Require Import NArith Bool List Lia.
From stdpp Require Import base list option.
From RecordUpdate Require Import RecordSet.
From RC Require Import Hdr Machine RunInd Inv.
From RC Require Import Clean CleanFrame CleanStep CleanUFrame CleanWalk CleanWalkRel.
Import ListNotations RecordSetNotations.

Definition st : Type := option (option nat * nat * list zobj).
Definition RJv (s : st) (h : list zobj) : Prop :=
  match s with Some (e, n, h0) => R e n h0 h /\ J h /\ n <= length h0 | None => False end.
Lemma noact_nil : noact [].
Proof. intros k a s H. rewrite lookup_nil in H. discriminate. Qed.

Definition okr (r : outcome) : bool := match r with ONormal | OPanic => true | _ => false end.

(** dropping a CleanerMap that holds no action touches no other object *)
Definition quiet (o : nat) (m m' : machine) : Prop :=
  forall w, zv m !! o = Some w -> z_ismap w = true -> noact (z_slots w) ->
    forall q, q <> o -> zv m' !! q = zv m !! q.

Definition xPre (c : call) (m : machine) : Prop :=
  match c with
  | KDropValue o => forall w, zv m !! o = Some w -> z_ismap w = true -> zunl (zv m) o
  | KDropMapSlots o j => zunl (zv m) o /\ o < length (zv m)
  | KDropList L rest old_d => forall g, g ∈ rest -> g < length (zv m) /\ zunl (zv m) g
  | KFinalizeList L rest any old_f => any = false -> forall g, g ∈ L -> g < length (zv m) /\ zunl (zv m) g
  | _ => True
  end.
Definition xPost (c : call) (m m' : machine) : Prop :=
  match c with
  | KDropCc o => quiet o m m'
  | KDropValue o => quiet o m m'
  | KDropMapSlots o j =>
    quiet o m m' /\
    forall w' k a s, zv m' !! o = Some w' -> z_slots w' !! k = Some (MAction a s) -> k < j
  | _ => True
  end.
Definition ex3 (c : call) : option nat := match c with KDropValue o => Some o | _ => None end.

Section W.
  Context (mu : id).

  Notation T m := (mem_id mu (dead m) = true).
  Notation TX s m := (mem_id mu (dead m) = true \/ RJv s (zv m)).

  Definition xres (s : st) (x : machine * outcome) : Prop :=
    match x.2 with ONormal | OPanic => TX s x.1 | _ => True end.

  Definition Pre3 (c : call) (m : machine) : Prop := T m \/ (J (zv m) /\ xPre c m).
  Definition Post3 (c : call) (m m' : machine) (r : outcome) : Prop :=
    okr r = true ->
    T m' \/ (mem_id mu (dead m) = false /\ R (ex3 c) (length (zv m)) (zv m) (zv m') /\ J (zv m') /\ xPost c m m').

  Lemma Post3_vac c m m' r : T m' -> Post3 c m m' r.
  Proof. intros H _. left. exact H. Qed.
  Lemma Post3_fuel c m : Pre3 c m -> Post3 c m m OFuel.
  Proof. intros _ H. discriminate. Qed.

  Lemma xres_intro s m r : TX s m -> xres s (m, r).
  Proof. intros H. unfold xres. cbn [fst snd]. destruct r; auto. Qed.
  Lemma xres_raise s m m' : TX s m -> xres s (m, raise m').
  Proof. intros H. unfold raise. destruct (panicking m'); apply xres_intro, H. Qed.
  Lemma xres_unwinding s (k : machine -> machine * outcome) m :
    (forall m1, TX s m1 -> xres s (k m1)) -> TX s m -> xres s (unwinding k m).
  Proof.
    intros Hk H. unfold unwinding.
    assert (H1 : TX s (m <| panicking := true |>)) by (cvs; exact H).
    specialize (Hk _ H1). destruct (k (m <| panicking := true |>)) as [m1 r1].
    unfold xres in *. cbn [fst snd] in *. cvs.
    destruct r1, (panicking m); auto.
  Qed.
  Lemma xres_unwinding' s (k : machine -> machine * outcome) m :
    xres s (k (m <| panicking := true |>)) -> xres s (unwinding k m).
  Proof.
    intros Hk. unfold unwinding. destruct (k (m <| panicking := true |>)) as [m1 r1].
    unfold xres in *. cbn [fst snd] in *. cvs.
    destruct r1, (panicking m); auto.
  Qed.

  Lemma TX_new s h (d : list id) w0 :
    (mem_id mu d = true \/ RJv s h) -> z_cleaner w0 = None -> zdeadb w0 = false -> noact (z_slots w0) ->
    mem_id mu d = true \/ RJv s (h ++ [w0]).
  Proof.
    intros [H|H] Hc Hd Hn; [left; exact H|right]. destruct s as [[[e n] h0]|]; [|destruct H].
    destruct H as (HR & HJ & Hle). split; [|split; [|exact Hle]].
    - eapply R_trans; [exact HR|apply R_app; assumption].
    - apply J_app; auto.
  Qed.
  Lemma TX_app s h (l d : list id) :
    (mem_id mu d = true \/ RJv s h) -> mem_id mu (l ++ d) = true \/ RJv s h.
  Proof.
    intros [H|H]; [left|right; exact H]. unfold mem_id in *. rewrite existsb_app. apply orb_true_iff. right. exact H.
  Qed.
  Lemma TX_zbox s (d : list id) h b o :
    (mem_id mu d = true \/ RJv s h) ->
    (mem_id mu d = false -> forall w, h !! o = Some w -> z_box w <> BNotYet /\ b <> BNotYet) ->
    mem_id mu d = true \/ RJv s (alter (zbox b) o h).
  Proof.
    intros [H|H] Hb; [left; exact H|]. destruct (mem_id mu d) eqn:Hd; [left; reflexivity|right].
    destruct s as [[[e n] h0]|]; [|destruct H]. destruct H as (HR & HJ & Hle).
    split; [|split; [apply J_zbox, HJ|exact Hle]].
    eapply R_trans; [exact HR|]. apply R_alter. intros w Hw. destruct (Hb eq_refl w Hw) as [H1 H2].
    repeat split; auto.
  Qed.

  Section RecCall.
    Context (rec : call -> machine -> machine * outcome).
    Context (Hrec : rec_ok Pre3 Post3 rec).

    Lemma rec_call c s m :
      TX s m -> ex3 c = None -> (mem_id mu (dead m) = false -> RJv s (zv m) -> xPre c m) ->
      xres s (rec c m).
    Proof.
      intros H He Hx. destruct (mem_id mu (dead m)) eqn:Hg.
      - pose proof (Hrec c m (or_introl Hg)) as HP. destruct (rec c m) as [m' r]. cbn [fst snd] in HP.
        unfold xres. cbn [fst snd]. destruct r; try exact I.
        + destruct (HP eq_refl) as [HT|[HT _]]; [left; exact HT|congruence].
        + destruct (HP eq_refl) as [HT|[HT _]]; [left; exact HT|congruence].
      - destruct H as [H|H]; [discriminate|]. destruct s as [[[e n] h0]|]; [|destruct H].
        pose proof (Hrec c m (or_intror (conj (proj1 (proj2 H)) (Hx eq_refl H)))) as HP.
        assert (Hn : n <= length (zv m)) by (destruct H as (HR & _ & Hle); pose proof (r_len _ _ _ _ HR); lia).
        destruct (rec c m) as [m' r]. cbn [fst snd] in HP. unfold xres. cbn [fst snd]. unfold Post3 in HP. rewrite He in HP.
        destruct r; try exact I.
        + destruct (HP eq_refl) as [HT|(_ & HR & HJ & _)]; [left; exact HT|right].
          split; [eapply R_trans; [apply H|apply (R_weaken _ _ _ _ _ HR Hn)]|split; [exact HJ|apply H]].
        + destruct (HP eq_refl) as [HT|(_ & HR & HJ & _)]; [left; exact HT|right].
          split; [eapply R_trans; [apply H|apply (R_weaken _ _ _ _ _ HR Hn)]|split; [exact HJ|apply H]].
    Qed.

    (** the full post-condition of a call from an untainted position *)
    Lemma rec_good c m :
      mem_id mu (dead m) = false -> J (zv m) -> xPre c m -> okr (rec c m).2 = true ->
      T (rec c m).1 \/ (R (ex3 c) (length (zv m)) (zv m) (zv (rec c m).1) /\ J (zv (rec c m).1) /\ xPost c m (rec c m).1).
    Proof.
      intros Hg HJ Hx Hr. destruct (Hrec c m (or_intror (conj HJ Hx)) Hr) as [H|(_ & H)]; auto.
    Qed.

    (** taint persists *)
    Lemma rec_taint c m : T m -> okr (rec c m).2 = true -> T (rec c m).1.
    Proof.
      intros Hg Hr. destruct (Hrec c m (or_introl Hg) Hr) as [H|[H _]]; [exact H|congruence].
    Qed.
  End RecCall.
End W.

Notation TX mu s m := (mem_id mu (dead m) = true \/ RJv s (zv m)).

Ltac relW :=
  cvs;
  first [ eassumption
        | (eapply TX_new; [eassumption|reflexivity|reflexivity|apply noact_nil])
        | (eapply TX_app; eassumption)
        | (left; assumption) ].

Ltac xpreW :=
  first [ (intros _ _; exact I)
        | (let H := fresh in intros _ H; exact (match H with end))
        | (let H := fresh in intros H _; exfalso; autorewrite with cv in H; congruence) ].

Ltac finW :=
  unfold ok;
  lazymatch goal with
  | |- xres _ _ (unwinding _ _) => apply xres_unwinding; [intros; finW | relW]
  | |- xres _ _ (_, OAbort) => exact I
  | |- xres _ _ (_, OFuel) => exact I
  | |- xres _ _ (_, raise _) => apply xres_raise; relW
  | |- xres _ _ (_, _) => apply xres_intro; relW
  | |- xres _ _ (_ _ _) => eapply rec_call; [eassumption | relW | reflexivity | xpreW]
  end.

Ltac res_pairW x :=
  let Hr := fresh "Hr" in let m1 := fresh "m" in let r1 := fresh "r" in
  match goal with |- xres ?mu ?s _ => assert (Hr : xres mu s x) by finW end;
  destruct x as [m1 r1]; destruct r1; unfold xres in Hr; cbn [fst snd] in Hr.

Ltac mach_pairW x :=
  let Hr := fresh "Hr" in let m1 := fresh "m" in let y1 := fresh "y" in
  match goal with |- xres ?mu ?s _ => assert (Hr : TX mu s x.1) by relW end;
  destruct x as [m1 y1]; cbn [fst snd] in Hr.

Ltac adv1W :=
  inner_scrut ltac:(fun x =>
    lazymatch type of x with
    | (machine * outcome)%type => res_pairW x
    | option machine =>
      lazymatch x with
      | weak_clone ?w ?m0 =>
        let E := fresh "E" in let m' := fresh "m" in
        destruct x as [m'|] eqn:E;
        [ match goal with |- xres ?mu ?s _ =>
            assert (TX mu s m') by (rewrite (zv_weak_clone _ _ _ E), (dd_weak_clone _ _ _ E); relW) end | ]
      end
    | (machine * _)%type => mach_pairW x
    | _ => destruct x eqn:?
    end); cbv beta iota zeta; cbn [negb andb orb].

Ltac goW := cbv beta iota zeta; cbn [negb andb orb]; repeat adv1W; finW.

Definition gen_okW (mu : id) (X : machine -> machine * outcome) : Prop :=
  forall s m, TX mu s m -> xres mu s (X m).

Section StepsW.
  Context (mu : id) (K : conf) (P : prog).
  Context (rec : call -> machine -> machine * outcome).
  Context (Hrec : rec_ok (Pre3 mu) (Post3 mu) rec).
  Implicit Types (m : machine).

  Lemma w_step_script self cs : gen_okW mu (step_script rec self cs).
  Proof. intros s m H. unfold step_script. goW. Qed.
  Lemma w_step_store r v : gen_okW mu (step_store rec r v).
  Proof. intros s m H. unfold step_store. goW. Qed.
  Lemma w_step_clean_run mo a sc : gen_okW mu (step_clean_run K P rec mo a sc).
  Proof. intros s m H. unfold step_clean_run. goW. Qed.
  Lemma w_step_unbag k : gen_okW mu (step_unbag rec k).
  Proof. intros s m H. unfold step_unbag. goW. Qed.
  Lemma w_step_trigger : gen_okW mu (step_trigger K rec).
  Proof. intros s m H. unfold step_trigger. goW. Qed.
  Lemma w_step_collect_cycles : gen_okW mu (step_collect_cycles K rec).
  Proof. intros s m H. unfold step_collect_cycles. goW. Qed.
  Lemma w_step_collect : gen_okW mu (step_collect K rec).
  Proof. intros s m H. unfold step_collect. goW. Qed.
  Lemma w_step_collect_loop k : gen_okW mu (step_collect_loop rec k).
  Proof. intros s m H. unfold step_collect_loop. goW. Qed.

  Lemma w_cmd_clone self src dst : gen_okW mu (cmd_clone rec self src dst).
  Proof. intros s m H. unfold cmd_clone. goW. Qed.
  Lemma w_cmd_drop self l : gen_okW mu (cmd_drop rec self l).
  Proof. intros s m H. unfold cmd_drop. goW. Qed.
  Lemma w_cmd_move self src dst : gen_okW mu (cmd_move rec self src dst).
  Proof. intros s m H. unfold cmd_move. goW. Qed.
  Lemma w_cmd_mark_alive self l : gen_okW mu (cmd_mark_alive self l).
  Proof. intros s m H. unfold cmd_mark_alive. goW. Qed.
  Lemma w_cmd_collect self : gen_okW mu (cmd_collect rec self).
  Proof. intros s m H. unfold cmd_collect. goW. Qed.
  Lemma w_cmd_downgrade self l w : gen_okW mu (cmd_downgrade K self l w).
  Proof. intros s m H. unfold cmd_downgrade. goW. Qed.
  Lemma w_cmd_upgrade self w dst : gen_okW mu (cmd_upgrade K rec self w dst).
  Proof. intros s m H. unfold cmd_upgrade. goW. Qed.
  Lemma w_cmd_w_new self w : gen_okW mu (cmd_w_new K self w).
  Proof. intros s m H. unfold cmd_w_new. goW. Qed.
  Lemma w_cmd_w_clone self src dst : gen_okW mu (cmd_w_clone K self src dst).
  Proof. intros s m H. unfold cmd_w_clone. goW. Qed.
  Lemma w_cmd_w_drop self w : gen_okW mu (cmd_w_drop K self w).
  Proof. intros s m H. unfold cmd_w_drop. goW. Qed.
  Lemma w_cmd_fin_again self l : gen_okW mu (cmd_fin_again K self l).
  Proof. intros s m H. unfold cmd_fin_again. goW. Qed.
  Lemma w_cmd_c_drop self c : gen_okW mu (cmd_c_drop K self c).
  Proof. intros s m H. unfold cmd_c_drop. goW. Qed.
  Lemma w_cmd_unbag self k : gen_okW mu (cmd_unbag rec self k).
  Proof. intros s m H. unfold cmd_unbag. goW. Qed.
  Lemma w_cmd_borrow self nd : gen_okW mu (cmd_borrow self nd).
  Proof. intros s m H. unfold cmd_borrow. goW. Qed.
  Lemma w_cmd_unborrow self nd : gen_okW mu (cmd_unborrow self nd).
  Proof. intros s m H. unfold cmd_unborrow. goW. Qed.
  Lemma w_cmd_cfg_auto self b : gen_okW mu (cmd_cfg_auto K self b).
  Proof. intros s m H. unfold cmd_cfg_auto. goW. Qed.
  Lemma w_cmd_cfg_percent self n e : gen_okW mu (cmd_cfg_percent K self n e).
  Proof. intros s m H. unfold cmd_cfg_percent. goW. Qed.
  Lemma w_cmd_cfg_buffered self b : gen_okW mu (cmd_cfg_buffered K self b).
  Proof. intros s m H. unfold cmd_cfg_buffered. goW. Qed.
  Lemma w_cmd_arm self k v : gen_okW mu (cmd_arm self k v).
  Proof. intros s m H. unfold cmd_arm. goW. Qed.
  Lemma w_cmd_panic self : gen_okW mu (cmd_panic self).
  Proof. intros s m H. unfold cmd_panic. goW. Qed.
  Lemma w_cmd_obs self l : gen_okW mu (cmd_obs self l).
  Proof. intros s m H. unfold cmd_obs. goW. Qed.
  Lemma w_cmd_w_obs self w : gen_okW mu (cmd_w_obs K self w).
  Proof. intros s m H. unfold cmd_w_obs. goW. Qed.
  Lemma w_cmd_s_obs self : gen_okW mu (cmd_s_obs K self).
  Proof. intros s m H. unfold cmd_s_obs. goW. Qed.
  Lemma w_cmd_bag self l k : gen_okW mu (cmd_bag self l k).
  Proof.
    intros s m H. unfold cmd_bag. cbv beta iota zeta. adv1W.
    destruct (y ≫= λ r, read_loc r m0) as [o|]; [|goW].
    generalize (N.to_nat k). intros n. revert m0 Hr.
    induction n as [|n IH]; intros m0 Hr; [goW|].
    destruct (inc_rc (hdr_of m0 o)) as [h|]; [|goW].
    apply IH. relW.
  Qed.
End StepsW.
