(** * Clean: cleaning actions run at most once (property C10), part 1: the abstract view of a
    machine state that the property depends on, the invariant [CIv] on views and the algebra of
    the relation [Rel] ("what an activation may do to the view").

    A registered action is identified by its [aid] (allocated from [next_aid]), stored as
    [MAction aid script] in one slot of one [CleanerMap] object; an execution of it is the event
    [ECb KAction aid _].  Everything C10 says is a statement about

      - per heap object: [o_ismap], [o_mslots], [o_mfree], [o_cleaner]   ([view_obj]),
      - [next_aid],
      - the aids of the [ECb KAction] events of the log                  ([executed_aids]),

    so all definitions below are on this projection [cv m] of the machine state; helpers that do
    not change [cv] are dealt with by rewriting (CleanFrame.v). *)
From Coq Require Import NArith Bool List Lia.
From stdpp Require Import base list option.
From RecordUpdate Require Import RecordSet.
From RC Require Import Hdr Machine RunInd.
Import ListNotations RecordSetNotations.

Definition aid_of_ev (e : event) : option nat :=
  match e with ECb KAction a _ => Some a | _ => None end.
(** the aids of the executions logged, newest first *)
Definition executed_aids (l : list event) : list nat := omap aid_of_ev l.

Record vobj := VObj { v_ismap : bool; v_slots : list mslot; v_free : list nat;
                      v_cleaner : option id }.
Definition view_obj (x : obj) : vobj := VObj (o_ismap x) (o_mslots x) (o_mfree x) (o_cleaner x).
Record cview := CV { cv_h : list vobj; cv_n : nat; cv_x : list nat }.
Definition cv (m : machine) : cview :=
  CV (view_obj <$> heap m) (next_aid m) (executed_aids (log m)).

(** the content of slot [k] of heap object [o] *)
Definition slotv (h : list vobj) (o k : nat) : option mslot :=
  match h !! o with Some v => v_slots v !! k | None => None end.
Definition slot_at (m : machine) (o k : nat) : option mslot :=
  match heap m !! o with Some x => o_mslots x !! k | None => None end.

Lemma slotv_cv m o k : slotv (cv_h (cv m)) o k = slot_at m o k.
Proof.
  unfold slotv, slot_at, cv. cbn [cv_h]. rewrite list_lookup_fmap.
  destruct (heap m !! o); reflexivity.
Qed.

(** ** The invariant *)
Definition vobj_local (v : vobj) : Prop :=
  (v_ismap v = false -> v_slots v = [] /\ v_free v = []) /\
  NoDup (v_free v) /\
  (forall i, i ∈ v_free v -> v_slots v !! i = Some MVacant).
Definition cleaner_ok (h : list vobj) (v : vobj) : Prop :=
  forall mo, v_cleaner v = Some mo -> exists w, h !! mo = Some w /\ v_ismap w = true.
Definition vobj_ok (h : list vobj) (v : vobj) : Prop := vobj_local v /\ cleaner_ok h v.
Definition objs_ok (h : list vobj) : Prop := forall o v, h !! o = Some v -> vobj_ok h v.

(** the map named by the Cleaner of object [y] *)
Definition cleaner_at (h : list vobj) (y : nat) : option id :=
  match h !! y with Some v => v_cleaner v | None => None end.
(** no Cleaner names [o] *)
Definition unlinked (h : list vobj) (o : nat) : Prop := forall y, cleaner_at h y <> Some o.

Record CIv (v : cview) : Prop := {
  (* (a) stored aids have been allocated *)
  ci_lt : forall o k a s, slotv (cv_h v) o k = Some (MAction a s) -> a < cv_n v;
  (* (b) an aid is stored in at most one slot of at most one object *)
  ci_inj : forall o k a s o' k' s',
      slotv (cv_h v) o k = Some (MAction a s) -> slotv (cv_h v) o' k' = Some (MAction a s') ->
      o = o' /\ k = k';
  (* (c) no stored aid has been executed *)
  ci_nx : forall o k a s, slotv (cv_h v) o k = Some (MAction a s) -> a ∉ cv_x v;
  (* (d) every aid is executed at most once *)
  ci_xnd : NoDup (cv_x v);
  (* (e) executed aids have been allocated *)
  ci_xlt : forall a, a ∈ cv_x v -> a < cv_n v;
  (* (f) only maps have slots; the free list is duplicate-free and names vacant slots; a
         Cleaner points to a map *)
  ci_obj : objs_ok (cv_h v);
  (* a map belongs to at most one Cleaner *)
  ci_cl_inj : forall y y' mo, cleaner_at (cv_h v) y = Some mo -> cleaner_at (cv_h v) y' = Some mo ->
                              y = y' }.

(** ** What an activation may do *)
Definition keeps_ismap (h h' : list vobj) : Prop :=
  forall o w, h !! o = Some w -> exists w', h' !! o = Some w' /\ v_ismap w' = v_ismap w.
(** a Cleaner field only changes to [None] or to a map allocated meanwhile *)
Definition KC (h h' : list vobj) : Prop :=
  forall y mo, cleaner_at h' y = Some mo -> cleaner_at h y = Some mo \/ length h <= mo.
(** an object that no Cleaner names stays so, and nothing is registered in it *)
Definition KU (h h' : list vobj) : Prop :=
  forall o, o < length h -> unlinked h o ->
    unlinked h' o /\
    forall k a s, slotv h' o k = Some (MAction a s) -> slotv h o k = Some (MAction a s).
Definition monoh (h h' : list vobj) : Prop :=
  keeps_ismap h h' /\ length h <= length h' /\ KC h h' /\ KU h h'.
Definition mono (v v' : cview) : Prop :=
  cv_n v <= cv_n v' /\ (forall a, a ∈ cv_x v -> a ∈ cv_x v') /\ monoh (cv_h v) (cv_h v').
(** an action stored before is still stored in the same slot, or has been executed *)
Definition K1 (v v' : cview) : Prop :=
  forall o k a s, slotv (cv_h v) o k = Some (MAction a s) ->
                  slotv (cv_h v') o k = Some (MAction a s) \/ a ∈ cv_x v'.
(** an action stored afterwards was stored in the same slot before, or was registered meanwhile *)
Definition K2 (v v' : cview) : Prop :=
  forall o k a s, slotv (cv_h v') o k = Some (MAction a s) ->
                  slotv (cv_h v) o k = Some (MAction a s) \/ cv_n v <= a.
(** an aid allocated meanwhile is stored or has been executed (no action is ever lost) *)
Definition stored_in (h : list vobj) (a : nat) : Prop := exists o k s, slotv h o k = Some (MAction a s).
Definition K3 (v v' : cview) : Prop :=
  forall a, cv_n v <= a -> a < cv_n v' -> stored_in (cv_h v') a \/ a ∈ cv_x v'.
Definition RelW (v v' : cview) : Prop := CIv v' /\ mono v v' /\ K2 v v'.
Definition Rel (v v' : cview) : Prop := RelW v v' /\ K1 v v' /\ K3 v v'.

Lemma monoh_refl h : monoh h h.
Proof.
  split; [intros o w H; exists w; auto|]. split; [lia|]. split.
  - intros y mo H. left; exact H.
  - intros o _ Hu. split; [exact Hu|auto].
Qed.
Lemma monoh_trans h1 h2 h3 : monoh h1 h2 -> monoh h2 h3 -> monoh h1 h3.
Proof.
  intros (A1 & A2 & A3 & A4) (B1 & B2 & B3 & B4). split; [|split; [lia|split]].
  - intros o w H. destruct (A1 o w H) as (w' & H' & E'). destruct (B1 o w' H') as (w'' & H'' & E'').
    exists w''. split; [exact H''|congruence].
  - intros y mo H. destruct (B3 y mo H) as [H2|Hge]; [|right; lia].
    destruct (A3 y mo H2) as [H1|Hge]; [left; exact H1|right; exact Hge].
  - intros o Ho Hu. destruct (A4 o Ho Hu) as [Hu2 Hs2].
    destruct (B4 o ltac:(lia) Hu2) as [Hu3 Hs3]. split; [exact Hu3|]. intros k a s H. auto.
Qed.
Lemma mono_refl v : mono v v.
Proof. split; [lia|]. split; [auto|]. apply monoh_refl. Qed.
Lemma mono_trans v1 v2 v3 : mono v1 v2 -> mono v2 v3 -> mono v1 v3.
Proof.
  intros (A1 & A2 & A3) (B1 & B2 & B3). split; [lia|]. split; [auto|].
  eapply monoh_trans; eassumption.
Qed.

Lemma Rel_refl v : CIv v -> Rel v v.
Proof.
  intros H. split; [split; [exact H|split; [apply mono_refl|]]|split];
    try (intros o k a s Hs; left; exact Hs). intros a H1 H2. lia.
Qed.
Lemma RelW_trans v1 v2 v3 : RelW v1 v2 -> RelW v2 v3 -> RelW v1 v3.
Proof.
  intros (A1 & A2 & A3) (B1 & B2 & B3). split; [exact B1|]. split; [eapply mono_trans; eauto|].
  intros o k a s Hs. destruct (B3 o k a s Hs) as [Hs2|Hn].
  - destruct (A3 o k a s Hs2) as [Hs1|Hn]; [left; exact Hs1|right; exact Hn].
  - right. destruct A2 as (A2 & _). lia.
Qed.
Lemma Rel_trans v1 v2 v3 : Rel v1 v2 -> Rel v2 v3 -> Rel v1 v3.
Proof.
  intros (A & AK & A3) (B & BK & B3). split; [eapply RelW_trans; eauto|]. split.
  - intros o k a s Hs. destruct (AK o k a s Hs) as [Hs2|Hx].
    + apply BK, Hs2.
    + right. destruct B as (_ & (_ & B2 & _) & _). auto.
  - intros a H1 H3. destruct (decide (a < cv_n v2)) as [Hlt|Hge].
    + destruct (A3 a H1 Hlt) as [(o & k & s & Hs)|Hx].
      * destruct (BK o k a s Hs) as [Hs3|Hx3]; [left; exists o, k, s; exact Hs3|right; exact Hx3].
      * right. destruct B as (_ & (_ & B2 & _) & _). auto.
    + apply B3; [lia|exact H3].
Qed.
Lemma Rel_K1 v v' : Rel v v' -> K1 v v'.
Proof. intros (_ & H & _); exact H. Qed.
Lemma Rel_K3 v v' : Rel v v' -> K3 v v'.
Proof. intros (_ & _ & H); exact H. Qed.
Lemma Rel_RelW v v' : Rel v v' -> RelW v v'.
Proof. intros [H _]; exact H. Qed.
Lemma Rel_CIv v v' : Rel v v' -> CIv v'.
Proof. intros [[H _] _]; exact H. Qed.
Lemma K3_same_n v v' : cv_n v' = cv_n v -> K3 v v'.
Proof. intros E a H1 H2. lia. Qed.
Lemma RelW_CIv v v' : RelW v v' -> CIv v'.
Proof. intros [H _]; exact H. Qed.

(** ** Lookups in altered views *)
Implicit Types (h : list vobj) (g : vobj -> vobj) (o k i mo : nat) (w : vobj).
Lemma slotv_alter_ne g o h o' k : o' <> o -> slotv (alter g o h) o' k = slotv h o' k.
Proof. intros Hne. unfold slotv. rewrite list_lookup_alter_ne by congruence. reflexivity. Qed.
Lemma slotv_alter_eq g o h w k : h !! o = Some w -> slotv (alter g o h) o k = v_slots (g w) !! k.
Proof. intros Hw. unfold slotv. rewrite list_lookup_alter, Hw. reflexivity. Qed.
Lemma slotv_eq h o w k : h !! o = Some w -> slotv h o k = v_slots w !! k.
Proof. intros Hw. unfold slotv. rewrite Hw. reflexivity. Qed.

Lemma ismap_alter g o h mo w2 :
  (forall w, h !! o = Some w -> v_ismap (g w) = v_ismap w) ->
  h !! mo = Some w2 ->
  exists w3, alter g o h !! mo = Some w3 /\ v_ismap w3 = v_ismap w2.
Proof.
  intros Hg H2. destruct (decide (mo = o)) as [->|Hne].
  - exists (g w2). rewrite list_lookup_alter, H2. split; [reflexivity|auto].
  - exists w2. rewrite list_lookup_alter_ne by congruence. auto.
Qed.

Lemma cleaner_ok_alter g o h v :
  (forall w, h !! o = Some w -> v_ismap (g w) = v_ismap w) ->
  cleaner_ok h v -> cleaner_ok (alter g o h) v.
Proof.
  intros Hg Hc mo Hmo. destruct (Hc mo Hmo) as (w2 & H2 & E2).
  destruct (ismap_alter g o h mo w2 Hg H2) as (w3 & H3 & E3). exists w3. split; [exact H3|congruence].
Qed.

Lemma objs_ok_alter g o h w :
  objs_ok h -> h !! o = Some w -> v_ismap (g w) = v_ismap w -> vobj_local (g w) ->
  cleaner_ok h (g w) -> objs_ok (alter g o h).
Proof.
  intros Hok Hw Hi Hl Hc o' v' Hv'.
  assert (Hg : forall w0, h !! o = Some w0 -> v_ismap (g w0) = v_ismap w0)
    by (intros w0 E; rewrite Hw in E; injection E as <-; exact Hi).
  destruct (decide (o' = o)) as [->|Hne].
  - rewrite list_lookup_alter, Hw in Hv'. injection Hv' as <-.
    split; [exact Hl|]. apply cleaner_ok_alter; assumption.
  - rewrite list_lookup_alter_ne in Hv' by congruence. destruct (Hok o' v' Hv') as [Hl' Hc'].
    split; [exact Hl'|]. apply cleaner_ok_alter; assumption.
Qed.

Lemma cleaner_at_alter_same g o h y :
  (forall w, h !! o = Some w -> v_cleaner (g w) = v_cleaner w) ->
  cleaner_at (alter g o h) y = cleaner_at h y.
Proof.
  intros Hg. unfold cleaner_at. destruct (decide (y = o)) as [->|Hne].
  - rewrite list_lookup_alter. destruct (h !! o) as [w|] eqn:E; cbn; auto.
  - rewrite list_lookup_alter_ne by congruence. reflexivity.
Qed.

(** an update of one object that keeps [v_ismap] and [v_cleaner]; it may add actions only to an
    object that some Cleaner names *)
Lemma monoh_alter g o h :
  (forall w, h !! o = Some w -> v_ismap (g w) = v_ismap w /\ v_cleaner (g w) = v_cleaner w) ->
  ((forall w k a s, h !! o = Some w -> v_slots (g w) !! k = Some (MAction a s) ->
                    v_slots w !! k = Some (MAction a s)) \/ ~ unlinked h o) ->
  monoh h (alter g o h).
Proof.
  intros Hg Hsl.
  assert (Hc : forall y, cleaner_at (alter g o h) y = cleaner_at h y)
    by (intros y; apply cleaner_at_alter_same; intros w E; apply Hg, E).
  split; [|split; [rewrite alter_length; lia|split]].
  - intros o' w Hw. apply ismap_alter; [|exact Hw]. intros w0 E. apply Hg, E.
  - intros y mo H. left. rewrite <- Hc. exact H.
  - intros o' Ho' Hu. split; [intros y; rewrite Hc; apply Hu|].
    intros k a s. destruct (decide (o' = o)) as [->|Hne]; [|rewrite slotv_alter_ne by exact Hne; auto].
    destruct Hsl as [Hsl|Hl]; [|contradiction].
    unfold slotv. rewrite list_lookup_alter. destruct (h !! o) as [w|] eqn:E; cbn; [|auto].
    apply Hsl. reflexivity.
Qed.

Lemma mono_alter g o h n x :
  (forall w, h !! o = Some w -> v_ismap (g w) = v_ismap w /\ v_cleaner (g w) = v_cleaner w) ->
  ((forall w k a s, h !! o = Some w -> v_slots (g w) !! k = Some (MAction a s) ->
                    v_slots w !! k = Some (MAction a s)) \/ ~ unlinked h o) ->
  mono (CV h n x) (CV (alter g o h) n x).
Proof.
  intros Hg Hsl. split; [cbn; lia|]. split; [auto|]. cbn [cv_h]. apply monoh_alter; assumption.
Qed.

(** ** The primitive transformations of the view *)
Definition vacate (k : nat) (v : vobj) : vobj :=
  VObj (v_ismap v) (<[k := MVacant]> (v_slots v)) (v_free v) (v_cleaner v).
Definition vacate_free (k : nat) (v : vobj) : vobj :=
  VObj (v_ismap v) (<[k := MVacant]> (v_slots v)) (k :: v_free v) (v_cleaner v).
Definition ins_free (i a s : nat) (fr : list nat) (v : vobj) : vobj :=
  VObj (v_ismap v) (<[i := MAction a s]> (v_slots v)) fr (v_cleaner v).
Definition ins_app (a s : nat) (v : vobj) : vobj :=
  VObj (v_ismap v) (v_slots v ++ [MAction a s]) (v_free v) (v_cleaner v).
Definition set_cl (c : option id) (v : vobj) : vobj :=
  VObj (v_ismap v) (v_slots v) (v_free v) c.

(** a view whose stored actions are among the old ones *)
Lemma CIv_sub h h' n x :
  CIv (CV h n x) ->
  (forall o k a s, slotv h' o k = Some (MAction a s) -> slotv h o k = Some (MAction a s)) ->
  (forall y mo, cleaner_at h' y = Some mo -> cleaner_at h y = Some mo) ->
  objs_ok h' -> CIv (CV h' n x).
Proof.
  intros [A B C D E F G] Hs Hc Hok. cbn [cv_h cv_n cv_x] in *.
  constructor; cbn [cv_h cv_n cv_x]; eauto.
Qed.

(** *** a fresh object *)
Lemma Rel_new h n x b :
  CIv (CV h n x) -> Rel (CV h n x) (CV (h ++ [VObj b [] [] None]) n x).
Proof.
  intros HI.
  assert (Hs : forall o k, slotv (h ++ [VObj b [] [] None]) o k = slotv h o k).
  { intros o k. unfold slotv. destruct (decide (o < length h)) as [Hlt|Hge].
    - rewrite lookup_app_l by exact Hlt. reflexivity.
    - rewrite lookup_app_r by lia. rewrite (lookup_ge_None_2 h o) by lia.
      destruct (o - length h) as [|i]; cbn; [apply lookup_nil|reflexivity]. }
  assert (Hcl : forall y, cleaner_at (h ++ [VObj b [] [] None]) y = cleaner_at h y).
  { intros y. unfold cleaner_at. destruct (decide (y < length h)) as [Hlt|Hge].
    - rewrite lookup_app_l by exact Hlt. reflexivity.
    - rewrite lookup_app_r by lia. rewrite (lookup_ge_None_2 h y) by lia.
      destruct (y - length h) as [|i]; cbn; [reflexivity|]. try rewrite lookup_nil. reflexivity. }
  split; [split; [|split]|].
  - apply (CIv_sub h); [exact HI| | |].
    + intros o k a s. rewrite Hs. auto.
    + intros y mo. rewrite Hcl. auto.
    + intros o v Hv. apply lookup_app_Some in Hv. destruct Hv as [Hv|[_ Hv]].
      * destruct (ci_obj _ HI o v Hv) as [Hl Hc]. split; [exact Hl|].
        intros mo Hmo. destruct (Hc mo Hmo) as (w & Hw & Ew). exists w. split; [|exact Ew].
        cbn [cv_h]. rewrite lookup_app_l; [exact Hw|eapply lookup_lt_Some; exact Hw].
      * destruct (o - length h) as [|i]; cbn in Hv; [|discriminate]. injection Hv as <-.
        split; [|intros mo; cbn; discriminate].
        split; [cbn; auto|]. split; [cbn; constructor|]. cbn. intros i Hi. inversion Hi.
  - split; [cbn; lia|]. split; [auto|]. cbn [cv_h].
    split; [|split; [rewrite app_length; lia|split]].
    + intros o w Hw. exists w. split; [|reflexivity].
      rewrite lookup_app_l; [exact Hw|eapply lookup_lt_Some; exact Hw].
    + intros y mo. rewrite Hcl. auto.
    + intros o Ho Hu. split; [intros y; rewrite Hcl; apply Hu|]. intros k a s. rewrite Hs. auto.
  - intros o k a s. cbn [cv_h]. rewrite Hs. auto.
  - split; [|apply K3_same_n; reflexivity]. intros o k a s. cbn [cv_h]. rewrite Hs. auto.
Qed.

Lemma cleaner_at_snoc h v0 y :
  v_cleaner v0 = None -> cleaner_at (h ++ [v0]) y = cleaner_at h y.
Proof.
  intros E. unfold cleaner_at. destruct (decide (y < length h)) as [Hlt|Hge].
  - rewrite lookup_app_l by exact Hlt. reflexivity.
  - rewrite lookup_app_r by lia. rewrite (lookup_ge_None_2 h y) by lia.
    destruct (y - length h) as [|i]; cbn; [exact E|]. try rewrite lookup_nil. reflexivity.
Qed.
Lemma cleaner_at_lt v y mo : CIv v -> cleaner_at (cv_h v) y = Some mo -> mo < length (cv_h v).
Proof.
  intros HI. unfold cleaner_at. destruct (cv_h v !! y) as [w|] eqn:Hw; [|discriminate].
  intros Hc. destruct (ci_obj _ HI y w Hw) as [_ Hok]. destruct (Hok mo Hc) as (w2 & H2 & _).
  eapply lookup_lt_Some, H2.
Qed.
Lemma cleaner_at_Some h y w : h !! y = Some w -> cleaner_at h y = v_cleaner w.
Proof. intros H. unfold cleaner_at. rewrite H. reflexivity. Qed.

(** *** clearing / setting a Cleaner field *)
Lemma cleaner_at_set_cl c o h y :
  cleaner_at (alter (set_cl c) o h) y =
  if decide (y = o) then match h !! o with Some _ => c | None => None end else cleaner_at h y.
Proof.
  unfold cleaner_at. destruct (decide (y = o)) as [->|Hne].
  - rewrite list_lookup_alter. destruct (h !! o); reflexivity.
  - rewrite list_lookup_alter_ne by congruence. reflexivity.
Qed.
Lemma slotv_set_cl c o h o' k : slotv (alter (set_cl c) o h) o' k = slotv h o' k.
Proof.
  destruct (decide (o' = o)) as [->|Hne]; [|apply slotv_alter_ne, Hne].
  unfold slotv. rewrite list_lookup_alter. destruct (h !! o); reflexivity.
Qed.
Lemma objs_ok_set_cl c o h :
  objs_ok h -> (forall mo, c = Some mo -> exists w, h !! mo = Some w /\ v_ismap w = true) ->
  objs_ok (alter (set_cl c) o h).
Proof.
  intros Hok Hc. destruct (h !! o) as [w|] eqn:Hw.
  - eapply objs_ok_alter; [exact Hok|exact Hw|reflexivity| |exact Hc]. exact (proj1 (Hok o w Hw)).
  - intros o' v' Hv'. destruct (decide (o' = o)) as [->|Hne].
    + rewrite list_lookup_alter, Hw in Hv'. discriminate.
    + rewrite list_lookup_alter_ne in Hv' by congruence.
      destruct (Hok o' v' Hv') as [Hl' Hc']. split; [exact Hl'|].
      apply cleaner_ok_alter; [reflexivity|exact Hc'].
Qed.

Lemma Rel_clear_cl h n x o :
  CIv (CV h n x) -> Rel (CV h n x) (CV (alter (set_cl None) o h) n x).
Proof.
  intros HI.
  assert (Hc : forall y mo, cleaner_at (alter (set_cl None) o h) y = Some mo -> cleaner_at h y = Some mo).
  { intros y mo. rewrite cleaner_at_set_cl. destruct (decide (y = o)); [destruct (h !! o); discriminate|auto]. }
  split; [split; [|split]|].
  - apply (CIv_sub h); [exact HI|intros o' k a s; rewrite slotv_set_cl; auto|exact Hc|].
    apply objs_ok_set_cl; [exact (ci_obj _ HI)|discriminate].
  - split; [cbn; lia|]. split; [auto|]. cbn [cv_h].
    split; [|split; [rewrite alter_length; lia|split]].
    + intros o' w Hw. apply ismap_alter; [reflexivity|exact Hw].
    + intros y mo H. left. apply Hc, H.
    + intros o' _ Hu. split; [intros y H; exact (Hu y (Hc _ _ H))|].
      intros k a s. rewrite slotv_set_cl. auto.
  - intros o' k a s. cbn [cv_h]. rewrite slotv_set_cl. auto.
  - split; [|apply K3_same_n; reflexivity]. intros o' k a s. cbn [cv_h]. rewrite slotv_set_cl. auto.
Qed.

(** linking a map allocated since [v0] that no Cleaner names yet *)
Lemma Rel_link v0 h n x y mo :
  Rel v0 (CV h n x) -> length (cv_h v0) <= mo ->
  (exists w, h !! mo = Some w /\ v_ismap w = true) -> unlinked h mo ->
  Rel v0 (CV (alter (set_cl (Some mo)) y h) n x).
Proof.
  intros ((HI & (N1 & X1 & (M1 & M2 & M3 & M4)) & HK2) & HK1 & HK3) Hge Hmap Hun.
  cbn [cv_h cv_n cv_x] in *.
  assert (Hc : forall y' mo', cleaner_at (alter (set_cl (Some mo)) y h) y' = Some mo' ->
                 (y' = y /\ mo' = mo) \/ (y' <> y /\ cleaner_at h y' = Some mo')).
  { intros y' mo'. rewrite cleaner_at_set_cl. destruct (decide (y' = y)) as [->|Hne]; [|auto].
    destruct (h !! y); [|discriminate]. intros [= <-]. auto. }
  split; [split; [|split]|].
  - destruct HI as [A B C D E F G]. cbn [cv_h cv_n cv_x] in *.
    constructor; cbn [cv_h cv_n cv_x].
    + intros o k a s. rewrite slotv_set_cl. eauto.
    + intros o k a s o' k' s'. rewrite !slotv_set_cl. eauto.
    + intros o k a s. rewrite slotv_set_cl. eauto.
    + exact D.
    + exact E.
    + apply objs_ok_set_cl; [exact F|]. intros mo' [= <-]. exact Hmap.
    + intros y1 y2 mo' H1 H2.
      destruct (Hc _ _ H1) as [[-> ->]|[Hn1 H1']], (Hc _ _ H2) as [[-> E2]|[Hn2 H2']].
      * reflexivity.
      * exfalso. exact (Hun _ H2').
      * subst mo'. exfalso. exact (Hun _ H1').
      * eapply G; eassumption.
  - split; [exact N1|]. split; [exact X1|]. cbn [cv_h].
    split; [|split; [rewrite alter_length; exact M2|split]].
    + intros o w Hw. destruct (M1 o w Hw) as (w' & Hw' & Ew').
      destruct (ismap_alter (set_cl (Some mo)) y h o w' (fun _ _ => eq_refl) Hw') as (w3 & H3 & E3).
      exists w3. split; [exact H3|congruence].
    + intros y' mo' H. destruct (Hc _ _ H) as [[-> ->]|[_ H']]; [right; exact Hge|apply M3, H'].
    + intros o Ho Hu. destruct (M4 o Ho Hu) as [Hu' Hs']. split.
      * intros y' H. destruct (Hc _ _ H) as [[-> E]|[_ H']]; [lia|exact (Hu' _ H')].
      * intros k a s. rewrite slotv_set_cl. apply Hs'.
  - intros o k a s. cbn [cv_h]. rewrite slotv_set_cl. apply HK2.
  - split.
    + intros o k a s H. cbn [cv_h]. rewrite slotv_set_cl. apply HK1, H.
    + intros a H1 H2. cbn [cv_h cv_n cv_x] in *. destruct (HK3 a H1 H2) as [(o & k & s & Hs)|Hx]; [|right; exact Hx].
      left. exists o, k, s. rewrite slotv_set_cl. exact Hs.
Qed.

(** *** vacating a slot (with or without pushing it on the free list): everything but [K1] for
    the vacated slot *)
Lemma vacate_slots k w k' a s :
  <[k := MVacant]> (v_slots w) !! k' = Some (MAction a s) ->
  k' <> k /\ v_slots w !! k' = Some (MAction a s).
Proof.
  intros H. apply list_lookup_insert_Some in H. destruct H as [(-> & E & _)|(Hne & H)].
  - discriminate.
  - split; [congruence|exact H].
Qed.

Definition K1x (o k : nat) (v v' : cview) : Prop :=
  forall o' k' a s, slotv (cv_h v) o' k' = Some (MAction a s) ->
                    slotv (cv_h v') o' k' = Some (MAction a s) \/ (o' = o /\ k' = k).

Lemma RelW_vacate_gen g h n x o k w :
  CIv (CV h n x) -> h !! o = Some w ->
  v_ismap (g w) = v_ismap w -> v_slots (g w) = <[k := MVacant]> (v_slots w) ->
  v_cleaner (g w) = v_cleaner w ->
  (v_free (g w) = v_free w \/
   (v_free (g w) = k :: v_free w /\ exists a s, v_slots w !! k = Some (MAction a s))) ->
  RelW (CV h n x) (CV (alter g o h) n x) /\ K1x o k (CV h n x) (CV (alter g o h) n x) /\
  (forall a s, slotv (alter g o h) o k <> Some (MAction a s)).
Proof.
  intros HI Hw Hi Hsl Hcl Hfr.
  assert (Hs : forall o' k' a s, slotv (alter g o h) o' k' = Some (MAction a s) ->
                                 slotv h o' k' = Some (MAction a s) /\ (o' = o -> k' <> k)).
  { intros o' k' a s. destruct (decide (o' = o)) as [->|Hne].
    - rewrite (slotv_alter_eq _ _ _ _ _ Hw), (slotv_eq _ _ _ _ Hw), Hsl. intros H.
      apply vacate_slots in H. destruct H; auto.
    - rewrite slotv_alter_ne by exact Hne. intros H; split; [exact H|congruence]. }
  split; [split; [|split]|split].
  - apply (CIv_sub h); [exact HI|intros o' k' a s H; apply Hs, H| |].
    { intros y mo. rewrite cleaner_at_alter_same; [auto|].
      intros w0 E. rewrite Hw in E. injection E as <-. exact Hcl. }
    destruct (ci_obj _ HI o w Hw) as [(L1 & L2 & L3) Hc].
    eapply objs_ok_alter; [exact (ci_obj _ HI)|exact Hw|exact Hi| |].
    + split; [|split].
      * rewrite Hi. intros E. destruct (L1 E) as [E1 E2]. rewrite Hsl, E1.
        destruct Hfr as [->|[_ (a & s & Ha)]]; [auto|]. rewrite E1 in Ha. rewrite lookup_nil in Ha.
        discriminate.
      * destruct Hfr as [->|[-> (a & s & Ha)]]; [exact L2|]. apply list.NoDup_cons. split; [|exact L2].
        intros Hin. rewrite (L3 k Hin) in Ha. discriminate.
      * intros i Hin. rewrite Hsl. destruct (decide (i = k)) as [->|Hne].
        -- apply list_lookup_insert.
           destruct Hfr as [E|[E (a & s & Ha)]].
           ++ rewrite E in Hin. eapply lookup_lt_Some, (L3 k Hin).
           ++ eapply lookup_lt_Some, Ha.
        -- rewrite list_lookup_insert_ne by congruence. apply L3.
           destruct Hfr as [E|[E _]]; rewrite E in Hin; [exact Hin|].
           apply elem_of_cons in Hin. destruct Hin; [contradiction|assumption].
    + intros mo. rewrite Hcl. apply Hc.
  - apply mono_alter.
    + intros w0 E. rewrite Hw in E. injection E as <-. auto.
    + left. intros w0 k' a s E. rewrite Hw in E. injection E as <-. rewrite Hsl. intros H.
      apply vacate_slots in H. apply H.
  - intros o' k' a s H. left. apply Hs, H.
  - intros o' k' a s H. cbn [cv_h] in *.
    destruct (decide (o' = o)) as [->|Hne].
    + destruct (decide (k' = k)) as [->|Hk]; [right; auto|]. left.
      rewrite (slotv_alter_eq _ _ _ _ _ Hw), Hsl. rewrite (slotv_eq _ _ _ _ Hw) in H.
      rewrite list_lookup_insert_ne by congruence. exact H.
    + left. rewrite slotv_alter_ne by exact Hne. exact H.
  - intros a s H. destruct (Hs o k a s H) as [_ Hk]. apply Hk; reflexivity.
Qed.

(** vacating, then executing the action that was there *)
Lemma Rel_vacate_run v v1 v2 o k a s :
  RelW v v1 -> K1x o k v v1 -> cv_n v1 = cv_n v -> slotv (cv_h v) o k = Some (MAction a s) ->
  Rel v1 v2 -> a ∈ cv_x v2 -> Rel v v2.
Proof.
  intros HW HK En Hs (HW2 & HK2 & HK3) Hx. split; [eapply RelW_trans; eauto|]. split.
  - intros o' k' a' s' H'. destruct (HK o' k' a' s' H') as [H1|[-> ->]].
    + apply HK2, H1.
    + rewrite Hs in H'. injection H' as <- <-. right; exact Hx.
  - intros a' H1 H2. apply HK3; [lia|exact H2].
Qed.

(** the vacated slot was not an action: nothing is lost *)
Lemma Rel_vacate_none v v1 o k :
  RelW v v1 -> K1x o k v v1 -> cv_n v1 = cv_n v ->
  (forall a s, slotv (cv_h v) o k <> Some (MAction a s)) -> Rel v v1.
Proof.
  intros HW HK En Hn. split; [exact HW|]. split; [|apply K3_same_n, En]. intros o' k' a s H.
  destruct (HK o' k' a s H) as [H1|[-> ->]]; [left; exact H1|]. exfalso. exact (Hn a s H).
Qed.

(** *** logging an execution *)
Lemma Rel_exec h n x a :
  CIv (CV h n x) -> (forall o k s, slotv h o k <> Some (MAction a s)) -> a ∉ x -> a < n ->
  Rel (CV h n x) (CV h n (a :: x)).
Proof.
  intros HI Hns Hnx Hlt.
  split; [split; [|split]|].
  - destruct HI as [A B C D E F G]. cbn [cv_h cv_n cv_x] in *.
    constructor; cbn [cv_h cv_n cv_x]; eauto.
    + intros o k a' s H Hin. apply elem_of_cons in Hin. destruct Hin as [->|Hin].
      * exact (Hns o k s H).
      * exact (C o k a' s H Hin).
    + apply list.NoDup_cons. auto.
    + intros a' Hin. apply elem_of_cons in Hin. destruct Hin as [->|Hin]; auto.
  - split; [cbn; lia|]. split; [cbn; intros a' H; apply elem_of_cons; auto|].
    apply monoh_refl.
  - intros o k a' s H. left; exact H.
  - split; [|apply K3_same_n; reflexivity]. intros o k a' s H. left; exact H.
Qed.

(** *** registering: the aid [n] goes into a vacant slot of a map, [next_aid] is bumped *)
Lemma Rel_insert_gen v0 g h n x o i s w :
  Rel v0 (CV h n x) -> h !! o = Some w -> v_ismap w = true ->
  v_ismap (g w) = v_ismap w -> v_cleaner (g w) = v_cleaner w ->
  (forall k, k <> i -> v_slots (g w) !! k = v_slots w !! k) ->
  v_slots (g w) !! i = Some (MAction n s) ->
  (forall a s', v_slots w !! i <> Some (MAction a s')) ->
  NoDup (v_free (g w)) -> i ∉ v_free (g w) -> (forall j, j ∈ v_free (g w) -> j ∈ v_free w) ->
  (* the map was allocated since [v0], or some Cleaner names it *)
  (length (cv_h v0) <= o \/ ~ unlinked h o) ->
  Rel v0 (CV (alter g o h) (S n) x).
Proof.
  intros HR Hw Hm Hi Hcl Hother Hnew Hold Hnd Hni Hsub Hlinked.
  pose proof (Rel_CIv _ _ HR) as HI.
  assert (Hg : forall w0, h !! o = Some w0 -> v_ismap (g w0) = v_ismap w0)
    by (intros w0 E; rewrite Hw in E; injection E as <-; exact Hi).
  assert (Hca : forall y, cleaner_at (alter g o h) y = cleaner_at h y).
  { intros y. apply cleaner_at_alter_same. intros w0 E. rewrite Hw in E. injection E as <-. exact Hcl. }
  assert (Hs : forall o' k' a s', slotv (alter g o h) o' k' = Some (MAction a s') ->
                 slotv h o' k' = Some (MAction a s') \/ (o' = o /\ k' = i /\ a = n)).
  { intros o' k' a s'. destruct (decide (o' = o)) as [->|Hne].
    - rewrite (slotv_alter_eq _ _ _ _ _ Hw), (slotv_eq _ _ _ _ Hw).
      destruct (decide (k' = i)) as [->|Hk].
      + rewrite Hnew. intros [= <- <-]. right; auto.
      + rewrite Hother by exact Hk. auto.
    - rewrite slotv_alter_ne by exact Hne. auto. }
  assert (Hs' : forall o' k' a s', slotv h o' k' = Some (MAction a s') ->
                  slotv (alter g o h) o' k' = Some (MAction a s')).
  { intros o' k' a s'. destruct (decide (o' = o)) as [->|Hne].
    - rewrite (slotv_alter_eq _ _ _ _ _ Hw), (slotv_eq _ _ _ _ Hw). intros H.
      destruct (decide (k' = i)) as [->|Hk]; [exfalso; exact (Hold _ _ H)|].
      rewrite Hother by exact Hk. exact H.
    - rewrite slotv_alter_ne by exact Hne. auto. }
  destruct (ci_obj _ HI o w Hw) as [(L1 & L2 & L3) Hc].
  destruct HR as ((_ & (N1 & X1 & (M1 & M2 & M3 & M4)) & HK2) & HK1 & HK3). cbn [cv_h cv_n cv_x] in *.
  split; [split; [|split]|].
  - destruct HI as [A B C D E F G]. cbn [cv_h cv_n cv_x] in *.
    constructor; cbn [cv_h cv_n cv_x].
    + intros o' k' a s' H. destruct (Hs _ _ _ _ H) as [H0|(_ & _ & ->)]; [|lia].
      pose proof (A _ _ _ _ H0). lia.
    + intros o1 k1 a s1 o2 k2 s2 H1 H2.
      destruct (Hs _ _ _ _ H1) as [H1'|(-> & -> & ->)], (Hs _ _ _ _ H2) as [H2'|(-> & -> & E2)].
      * eapply B; eauto.
      * subst a. pose proof (A _ _ _ _ H1'). lia.
      * pose proof (A _ _ _ _ H2'). lia.
      * auto.
    + intros o' k' a s' H Hin. destruct (Hs _ _ _ _ H) as [H0|(_ & _ & ->)].
      * exact (C _ _ _ _ H0 Hin).
      * pose proof (E _ Hin). lia.
    + exact D.
    + intros a Hin. pose proof (E _ Hin). lia.
    + eapply objs_ok_alter; [exact F|exact Hw|exact Hi| |].
      * split; [|split].
        -- rewrite Hi, Hm. discriminate.
        -- exact Hnd.
        -- intros j Hj. assert (j <> i) by (intros ->; contradiction).
           rewrite Hother by assumption. apply L3, Hsub, Hj.
      * intros mo. rewrite Hcl. apply Hc.
    + intros y1 y2 mo. rewrite !Hca. apply G.
  - split; [cbn; lia|]. split; [exact X1|]. cbn [cv_h].
    split; [|split; [rewrite alter_length; exact M2|split]].
    + intros o' w' Hw'. destruct (M1 o' w' Hw') as (w2 & H2 & E2).
      destruct (ismap_alter g o h o' w2 Hg H2) as (w3 & H3 & E3). exists w3. split; [exact H3|congruence].
    + intros y mo H. rewrite Hca in H. apply M3, H.
    + intros o' Ho' Hu. destruct (M4 o' Ho' Hu) as [Hu' Hs2]. split; [intros y; rewrite Hca; apply Hu'|].
      intros k a s' H. destruct (Hs _ _ _ _ H) as [H0|(-> & _ & _)]; [apply Hs2, H0|].
      exfalso. destruct Hlinked as [Hge|Hl]; [lia|exact (Hl Hu')].
  - intros o' k' a s' H. cbn [cv_h cv_n] in *. destruct (Hs _ _ _ _ H) as [H0|(_ & _ & ->)].
    + apply HK2, H0.
    + right. exact N1.
  - split.
    + intros o' k' a s' H. cbn [cv_h] in *. destruct (HK1 _ _ _ _ H) as [H1|Hx]; [left; apply Hs', H1|right; exact Hx].
    + intros a H1 H2. cbn [cv_h cv_n cv_x] in *. destruct (decide (a < n)) as [Hlt|Hge].
      * destruct (HK3 a H1 Hlt) as [(o' & k' & s' & Hs0)|Hx]; [|right; exact Hx].
        left. exists o', k', s'. apply Hs', Hs0.
      * assert (a = n) by lia. subst a. left. exists o, i, s.
        rewrite (slotv_alter_eq _ _ _ _ _ Hw). exact Hnew.
Qed.

Lemma ins_free_slot i a s fr w : i < length (v_slots w) -> v_slots (ins_free i a s fr w) !! i = Some (MAction a s).
Proof. intros H. cbn. apply list_lookup_insert, H. Qed.
Lemma ins_app_slot a s w : v_slots (ins_app a s w) !! length (v_slots w) = Some (MAction a s).
Proof. cbn. rewrite lookup_app_r by lia. rewrite Nat.sub_diag. reflexivity. Qed.

Lemma Rel_ins_free v0 h n x o i fr s w :
  Rel v0 (CV h n x) -> h !! o = Some w -> v_ismap w = true -> v_free w = i :: fr ->
  (length (cv_h v0) <= o \/ ~ unlinked h o) ->
  Rel v0 (CV (alter (ins_free i n s fr) o h) (S n) x).
Proof.
  intros HR Hw Hm Hfr Hlinked. destruct (ci_obj _ (Rel_CIv _ _ HR) o w Hw) as [(L1 & L2 & L3) Hc].
  rewrite Hfr in L2, L3. apply list.NoDup_cons in L2. destruct L2 as [L2a L2b].
  assert (Hvac : v_slots w !! i = Some MVacant) by (apply L3; left).
  eapply (Rel_insert_gen v0 _ h n x o i s w); try assumption; try reflexivity.
  - intros k Hk. cbn. rewrite list_lookup_insert_ne by congruence. reflexivity.
  - apply ins_free_slot. eapply lookup_lt_Some, Hvac.
  - intros a s'. rewrite Hvac. discriminate.
  - cbn. rewrite Hfr. intros j Hj. right. exact Hj.
Qed.

Lemma Rel_ins_app v0 h n x o s w :
  Rel v0 (CV h n x) -> h !! o = Some w -> v_ismap w = true -> v_free w = [] ->
  (length (cv_h v0) <= o \/ ~ unlinked h o) ->
  Rel v0 (CV (alter (ins_app n s) o h) (S n) x).
Proof.
  intros HR Hw Hm Hfr Hlinked.
  eapply (Rel_insert_gen v0 _ h n x o (length (v_slots w)) s w); try assumption; try reflexivity.
  - intros k Hk. cbn. destruct (decide (k < length (v_slots w))) as [Hlt|Hge].
    + rewrite lookup_app_l by exact Hlt. reflexivity.
    + rewrite lookup_app_r by lia. rewrite (lookup_ge_None_2 (v_slots w) k) by lia.
      destruct (k - length (v_slots w)) as [|j] eqn:E; [lia|reflexivity].
  - apply ins_app_slot.
  - intros a s'. rewrite (lookup_ge_None_2 (v_slots w)) by lia. discriminate.
  - cbn. rewrite Hfr. constructor.
  - cbn. rewrite Hfr. intros H; inversion H.
  - cbn. auto.
Qed.

(** ** Connecting to machine updates *)
Lemma cv_upd_alter (f : obj -> obj) (g : vobj -> vobj) o m :
  (forall x, view_obj (f x) = g (view_obj x)) ->
  cv (upd o f m) = CV (alter g o (cv_h (cv m))) (cv_n (cv m)) (cv_x (cv m)).
Proof.
  intros Hf. unfold cv, upd. cbn. f_equal. apply list_alter_fmap.
  apply Forall_forall. intros x _. apply Hf.
Qed.

Lemma cv_upd_same (f : obj -> obj) o m :
  (forall x, view_obj (f x) = view_obj x) -> cv (upd o f m) = cv m.
Proof.
  intros Hf. rewrite (cv_upd_alter f (fun v => v)) by exact Hf.
  unfold cv. cbn. f_equal. generalize (view_obj <$> heap m). intros l. revert o.
  induction l as [|a l IH]; intros [|o]; cbn; f_equal; auto.
Qed.

Lemma cv_eta v : CV (cv_h v) (cv_n v) (cv_x v) = v.
Proof. destruct v; reflexivity. Qed.
