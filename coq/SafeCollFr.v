(** * SafeCollFr: the frame modulo marks ([strip], [FrM]) and its relation to part A's [Fr]. *)
From Coq Require Import NArith Bool List Lia.
From stdpp Require Import base list option.
From RecordUpdate Require Import RecordSet.
From RC Require Import Hdr Machine RunInd.
From RC Require Import Inv InvP SafeHelpers SafePrims SafeCalls SafeGlue SafeDrop SafeCmd SafeCyclic SafeMain SafeColl.
Import ListNotations RecordSetNotations.
Local Open Scope N_scope.

Section Strip.
  Context (K : conf).
  Implicit Types (m : machine) (o : id) (x : obj).

  Lemma norm_box x : o_box (norm_obj x) = o_box x.
  Proof. unfold norm_obj. destruct (o_box x) eqn:E; cbn; auto. Qed.
  Lemma norm_vst x : o_vst (norm_obj x) = o_vst x.
  Proof. unfold norm_obj. destruct (o_box x); reflexivity. Qed.
  Lemma norm_cls x : o_cls (norm_obj x) = o_cls x.
  Proof. unfold norm_obj. destruct (o_box x); reflexivity. Qed.
  Lemma norm_ismap x : o_ismap (norm_obj x) = o_ismap x.
  Proof. unfold norm_obj. destruct (o_box x); reflexivity. Qed.
  Lemma norm_fields x : o_fields (norm_obj x) = o_fields x.
  Proof. unfold norm_obj. destruct (o_box x); reflexivity. Qed.
  Lemma norm_wfields x : o_wfields (norm_obj x) = o_wfields x.
  Proof. unfold norm_obj. destruct (o_box x); reflexivity. Qed.
  Lemma norm_cleaner x : o_cleaner (norm_obj x) = o_cleaner x.
  Proof. unfold norm_obj. destruct (o_box x); reflexivity. Qed.
  Lemma norm_notyet x : o_box x = BNotYet -> norm_obj x = x.
  Proof. unfold norm_obj. intros ->. reflexivity. Qed.
  Lemma norm_hdr_dropped h : is_dropped (norm_hdr h) = is_dropped h.
  Proof.
    unfold is_dropped, norm_hdr. cbn. unfold is_dropped.
    destruct (h_tc h =? tc_dropped) eqn:E; reflexivity.
  Qed.
  Lemma norm_dropped x : is_dropped (o_hdr (norm_obj x)) = is_dropped (o_hdr x).
  Proof.
    unfold norm_obj. destruct (o_box x); try reflexivity; cbn; apply norm_hdr_dropped.
  Qed.
  Lemma norm_marked x : o_box x <> BNotYet -> marked (norm_obj x) = false.
  Proof. unfold norm_obj, marked. destruct (o_box x); try congruence; reflexivity. Qed.

  Lemma get_strip m o : get (strip m) o = norm_obj <$> get m o.
  Proof. unfold get, strip. cbn. apply list_lookup_fmap. Qed.
  Lemma inD_strip m o : inD (strip m) o = inD m o.
  Proof. reflexivity. Qed.

  Lemma get_strip_Some m o y : get (strip m) o = Some y -> exists x, get m o = Some x /\ y = norm_obj x.
  Proof. rewrite get_strip. destruct (get m o) as [x|]; cbn; [|discriminate]. intros [= <-]. eauto. Qed.

  (** every frame is a frame modulo marks *)
  Lemma Fr_strip E ex m m' : Fr K E ex m m' -> Fr K E ex (strip m) (strip m').
  Proof.
    intros F. split.
    - reflexivity.
    - exact (fr_wp _ _ _ _ _ F).
    - intros o. rewrite !inD_strip. apply (fr_dead _ _ _ _ _ F).
    - intros Hc. discriminate Hc.
    - intros o y Hy. apply get_strip_Some in Hy as (x & Hx & ->).
      destruct (fr_obj _ _ _ _ _ F o x Hx) as (x' & Hx' & OF). exists (norm_obj x').
      split; [rewrite get_strip, Hx'; reflexivity|].
      split; rewrite ?norm_cls, ?norm_ismap, ?norm_fields, ?norm_vst, ?norm_box, ?norm_wfields, ?norm_cleaner, ?inD_strip.
      + apply OF.
      + apply OF.
      + apply OF.
      + apply OF.
      + apply OF.
      + apply OF.
      + intros Hb Hv Hex. rewrite (of_notyet _ _ _ _ _ _ _ OF Hb Hv Hex). reflexivity.
      + apply OF.
      + apply OF.
      + apply OF.
      + apply OF.
      + apply OF.
      + intros Hm Hb. destruct (o_box x') eqn:Eb'.
        * assert (Hbx : o_box x = BNotYet).
          { destruct (o_box x) eqn:Eb; [reflexivity | |]; exfalso;
              (eapply (of_box1 _ _ _ _ _ _ _ OF); [congruence | exact Eb']). }
          rewrite (norm_notyet x' Eb'). rewrite (norm_notyet x Hbx) in Hm.
          apply (of_unmarked _ _ _ _ _ _ _ OF Hm). congruence.
        * apply norm_marked. congruence.
        * congruence.
      + intros Hex Hb [Hp|[Hp Hc]]; [|discriminate Hc].
        destruct (of_prot _ _ _ _ _ _ _ OF Hex Hb (or_introl Hp)) as (P1 & P2 & P3 & _).
        split; [exact P1|]. split; [exact P2|]. split; [exact P3|].
        intros Hm. rewrite norm_marked in Hm by congruence. discriminate.
    - intros Hk o y' Hy' Hi Hb Hd. apply get_strip_Some in Hy' as (x' & Hx' & ->).
      rewrite norm_box in Hb. rewrite norm_dropped in Hd. rewrite inD_strip in Hi.
      destruct (fr_undropped _ _ _ _ _ F Hk o x' Hx' Hi Hb Hd) as (x & Hx & Hi0 & Hb0 & Hd0).
      exists (norm_obj x). rewrite get_strip, Hx, norm_box, norm_dropped, inD_strip. auto.
  Qed.

  Lemma FrM_refl E m : FrM K E m m.
  Proof. apply Fr_refl. Qed.
  Lemma FrM_trans E m1 m2 m3 : FrM K E m1 m2 -> FrM K E m2 m3 -> FrM K E m1 m3.
  Proof. apply Fr_trans. Qed.
  Lemma FrM_of_Fr E m m' : Fr K E None m m' -> FrM K E m m'.
  Proof. apply Fr_strip. Qed.

  (** states that agree modulo marks / tracing counters *)
  Lemma FrM_same E m m' :
    fmap norm_obj (heap m') = fmap norm_obj (heap m) -> dead m' = dead m -> wparam m' = wparam m ->
    FrM K E m m'.
  Proof.
    intros Hh Hd Hw. unfold FrM.
    eapply (Fr_proper K E None (strip m) (strip m) (strip m) (strip m')); try reflexivity.
    - cbn. exact Hh.
    - exact Hd.
    - cbn. exact Hw.
    - apply Fr_refl.
  Qed.

  (** closing the exempted object of a frame *)
  Lemma Fr_close E o m m' :
    Fr K E (Some o) m m' ->
    (forall x x', get m o = Some x -> get m' o = Some x' ->
       o_box x <> BNotYet /\ o_vst x <> VDropping /\ o_vst x <> VUninit /\ o_vst x' <> VDropping /\
       (o_box x = BAlloc -> ~ protected E m o x) /\ (inD m o = true -> o_vst x' = VDropped)) ->
    Fr K E None m m'.
  Proof.
    intros F Ho. split.
    - apply F.
    - apply F.
    - apply F.
    - apply F.
    - intros o' x Hx. destruct (fr_obj _ _ _ _ _ F o' x Hx) as (x' & Hx' & OF). exists x'. split; [exact Hx'|].
      destruct (decide (o' = o)) as [->|Hne].
      + destruct (Ho x x' Hx Hx') as (H1 & H2 & H2' & H3 & H4 & H5). apply ObjFr_close; auto.
      + split; try apply OF.
        * intros Hb Hv _. apply (of_notyet _ _ _ _ _ _ _ OF); auto. congruence.
        * intros Hv _. apply (of_dropping _ _ _ _ _ _ _ OF); auto. congruence.
        * intros _ Hv. apply (of_nodropping _ _ _ _ _ _ _ OF); auto. congruence.
        * intros _ Hv Hb. apply (of_uninit _ _ _ _ _ _ _ OF); auto. congruence.
        * intros Hi _ Hv. apply (of_dead _ _ _ _ _ _ _ OF); auto. congruence.
        * intros _ Hb Hp. apply (of_prot _ _ _ _ _ _ _ OF); auto. congruence.
    - apply F.
  Qed.

  (** back from [FrM] to [Fr]: no allocated object is list-marked before, no existing box is
      list-marked afterwards *)
  Lemma Fr_unstrip E m m' :
    FrM K E m m' -> st_collecting m = false -> st_collecting m' = false ->
    (forall o x, get m o = Some x -> o_box x = BAlloc -> marked x = false) ->
    (forall o x', get m' o = Some x' -> o_box x' <> BFreed -> marked x' = false) ->
    Fr K E None m m'.
  Proof.
    intros F Hc Hc' Hm Hm'. unfold FrM in F. split.
    - congruence.
    - exact (fr_wp _ _ _ _ _ F).
    - intros o. apply (fr_dead _ _ _ _ _ F o).
    - intros Hct. congruence.
    - intros o x Hx.
      assert (Hxs : get (strip m) o = Some (norm_obj x)) by (rewrite get_strip, Hx; reflexivity).
      destruct (fr_obj _ _ _ _ _ F o _ Hxs) as (y' & Hy' & OF).
      apply get_strip_Some in Hy' as (x' & Hx' & ->). exists x'. split; [exact Hx'|].
      split.
      + rewrite <- (norm_cls x'), <- (norm_cls x). apply OF.
      + rewrite <- (norm_ismap x'), <- (norm_ismap x). apply OF.
      + rewrite <- (norm_fields x'), <- (norm_fields x). apply OF.
      + rewrite <- (norm_vst x'), <- (norm_vst x). apply OF.
      + rewrite <- (norm_box x'), <- (norm_box x). apply OF.
      + rewrite <- (norm_box x'), <- (norm_box x). apply OF.
      + intros Hb Hv Hex.
        assert (E1 : norm_obj x' = norm_obj x).
        { apply (of_notyet _ _ _ _ _ _ _ OF); rewrite ?norm_box, ?norm_vst; auto. }
        rewrite (norm_notyet x Hb) in E1.
        assert (Hb' : o_box x' = BNotYet) by (rewrite <- (norm_box x'), E1; exact Hb).
        rewrite (norm_notyet x' Hb') in E1. exact E1.
      + intros Hv Hex. rewrite <- (norm_vst x'), <- (norm_fields x'), <- (norm_fields x), <- (norm_cleaner x'),
          <- (norm_cleaner x), <- (norm_box x'), <- (norm_box x).
        apply (of_dropping _ _ _ _ _ _ _ OF); rewrite ?norm_vst; auto.
      + intros Hex. rewrite <- (norm_vst x'), <- (norm_vst x). apply (of_nodropping _ _ _ _ _ _ _ OF Hex).
      + intros Hex Hv Hb. rewrite <- (norm_vst x'), <- (norm_fields x'), <- (norm_fields x), <- (norm_cleaner x'),
          <- (norm_cleaner x), <- (norm_box x'), <- (norm_wfields x'), <- (norm_wfields x).
        apply (of_uninit _ _ _ _ _ _ _ OF Hex); rewrite ?norm_vst, ?norm_box; auto.
      + rewrite <- (norm_vst x'), <- (norm_vst x). apply OF.
      + intros Hi Hex Hv. rewrite <- (norm_fields x'), <- (norm_fields x), <- (norm_cleaner x'), <- (norm_cleaner x).
        apply (of_dead _ _ _ _ _ _ _ OF); rewrite ?norm_vst; auto.
      + intros _ Hb. apply (Hm' o x' Hx' Hb).
      + intros Hex Hb Hp. rewrite (Hm o x Hx Hb).
        assert (Hp' : (0 < cnt_id o E)%nat).
        { destruct Hp as [Hp|[Hp _]]; [exact Hp|]. rewrite (Hm o x Hx Hb) in Hp. discriminate. }
        destruct (of_prot _ _ _ _ _ _ _ OF Hex) as (P1 & P2 & P3 & _).
        { rewrite norm_box. exact Hb. }
        { left. exact Hp'. }
        rewrite norm_box in P1. rewrite !norm_vst in P2. split; [exact P1|]. split; [exact P2|].
        split; [exact P3|]. discriminate.
    - intros Hk o x' Hx' Hi Hb Hd.
      assert (Hxs : get (strip m') o = Some (norm_obj x')) by (rewrite get_strip, Hx'; reflexivity).
      destruct (fr_undropped _ _ _ _ _ F Hk o _ Hxs) as (y & Hy & Hi0 & Hb0 & Hd0).
      + exact Hi.
      + rewrite norm_box. exact Hb.
      + rewrite norm_dropped. exact Hd.
      + apply get_strip_Some in Hy as (x & Hx & ->). exists x. rewrite norm_box in Hb0. rewrite norm_dropped in Hd0. auto.
  Qed.
End Strip.
