(** * CleanSafe: what the count / no-dangling layer (InvP.v, SafeFinal.v) says about cleaner
    maps at the entry of the activations that matter for C10.  [SafeFinal.run_okQ] establishes
    [Pre K (PreC K) b E c m] at the entry of every activation of every run of a well-formed
    program started in a safe state (that is how its induction works; the fact is used through
    [Life.mrun_ind], see CleanU*.v). *)
From Coq Require Import NArith Bool List Lia.
From stdpp Require Import base list option.
From RecordUpdate Require Import RecordSet.
From RC Require Import Hdr Machine RunInd.
From RC Require Import Inv InvP SafeHelpers SafeColl.
From RC Require Import Clean CleanFrame CleanStep CleanStep2 CleanThm.
Import ListNotations RecordSetNotations.

Lemma unlinked_of_refs0 m o : refs m o = 0%nat -> unlinked_m m o.
Proof.
  intros H0 y x Hy Hc. pose proof (hloc_refs_pos m (Some y) true o (HL_clean m y x o Hy Hc)). lia.
Qed.

Section Local.
  Context (K : conf).

  (** (1), outside the collector's drop pass: a value that is dropped because its strong count
      reached 0 (or that never got a box, or was moved out) is named by no Cleaner *)
  Theorem C10_drop_value_unlinked_partial b E o m :
    InvP.Pre K (PreC K) b E (KDropValue o) m -> inD m o = false -> unlinked_m m o.
  Proof.
    intros (_ & HS & (x & Hx & Hc & Hd)) Hin. cbn [own_of app] in HS.
    apply unlinked_of_refs0. pose proof (sv_obj K _ _ _ _ HS o x Hx) as Hok.
    destruct (o_box x) eqn:Eb.
    - destruct (proj1 (okN_notyet K _ _ _ _ _ Eb) Hok) as [H0 _]. lia.
    - destruct Hd as (_ & _ & [(Hrc & _)|(Hin' & _)]); [|congruence].
      destruct (okN_alloc K _ _ _ _ _ Hok Eb) as (H1 & _). rewrite Hrc in H1. lia.
    - destruct (proj1 (okN_freed K _ _ _ _ _ Eb) Hok) as (H0 & _). lia.
  Qed.

  (** F5, in numbers: when the handle of a Cleaner on its map [t] is released ([Cc::drop],
      [KDropCc t], the Cleaner field already cleared) in a run where no panic occurred, the
      strong count of the map is 1 + the number of other handles on it held by active frames -
      i.e. the upgraded handles of [clean()] calls in progress, the only other handles a map
      ever has.  It is the last handle - and the map value is dropped there and then,
      [C10_exactly_partial] - iff there is none. *)
  Theorem C10_cleaner_handle_count E t m x :
    InvP.Pre K (PreC K) true E (KDropCc t) m -> get m t = Some x -> o_ismap x = true -> unlinked_m m t ->
    h_rc (o_hdr x) = N.of_nat (S (cnt_id t E)).
  Proof.
    intros (_ & HS & _) Hx Hmap Hu. cbn [own_of app] in HS.
    destruct (sv_E K _ _ _ _ HS t) as (xt & Hxt & Eb); [left|]. rewrite Hx in Hxt. injection Hxt as <-.
    destruct (okN_alloc K _ _ _ _ _ (sv_obj K _ _ _ _ HS t x Hx) Eb) as (_ & H2 & _).
    rewrite (H2 eq_refl). f_equal. rewrite cnt_id_cons_eq.
    assert (H0 : refs m t = 0%nat).
    { destruct (refs m t) as [|r] eqn:Er; [reflexivity|]. exfalso.
      destruct (refs_pos_hloc m t ltac:(lia)) as (h & c & Hl).
      destruct (sv_loc K _ _ _ _ HS _ _ _ Hl) as (xt & Hxt & _ & Hnm & _).
      rewrite Hx in Hxt. injection Hxt as <-.
      destruct Hl as [i t Hs|t Hb|p xp j t Hp Hf|p xp t Hp Hc];
        try (rewrite (Hnm eq_refl) in Hmap; discriminate).
      exact (Hu p xp Hp Hc). }
    lia.
  Qed.
End Local.

(** ** The Cleaner's drop, F5-aware.  [KDropFields o j] past the last field of the owner [o]
    (two levels of [run] are unfolded: [step_drop_fields], then [step_drop_cc] on the handle):
    the Cleaner field is cleared, then [Cc::drop] runs on its handle [t] in a state [m1] where no
    Cleaner names the map.  In a panic-free run ([Pre .. true E ..]: exact counts) with no other
    handle on the map held by an active frame ([cnt_id t E = 0]: no [clean()] of this map in
    progress) it is the last handle: when the Cleaner's drop returns normally every action of
    the map has run exactly once and all its slots are vacant.  Otherwise (F5: a [clean()] of the
    map is in progress, [0 < cnt_id t E]) the handle is only decremented: the view is unchanged,
    the remaining actions run when that [clean()] drops its handle. *)
Theorem C10_cleaner_drop_exactly K P n E o j m x t :
  CI m -> get m o = Some x -> ~ (j < length (o_fields x)) -> o_cleaner x = Some t ->
  exists m1,
    run K P (S (S n)) (KDropFields o j) m = step_drop_cc K P (run K P n) t m1 /\
    CI m1 /\ unlinked_m m1 t /\ (forall k, slot_at m1 t k = slot_at m t k) /\
    executed_aids (log m1) = executed_aids (log m) /\ next_aid m1 = next_aid m /\
    forall xt, InvP.Pre K (PreC K) true E (KDropCc t) m1 ->
      get m1 t = Some xt -> o_ismap xt = true ->
      let X := run K P (S (S n)) (KDropFields o j) m in
      (cnt_id t E = 0%nat -> o_vst xt = VLive -> is_in_list_or_queue (o_hdr xt) = false ->
       X.2 = ONormal -> drained m1 X.1 t /\ all_vacant X.1 t) /\
      ((0 < cnt_id t E)%nat -> cv X.1 = cv m1).
Proof.
  intros HI Ex Hj Ect.
  destruct (C10_cleaner_drop_unlinked (run K P (S n)) o j m x t HI Ex Hj Ect)
    as (m1 & Heq & HI1 & Hu1 & Hs & Hx & Hn).
  exists m1. split; [exact Heq|]. split; [exact HI1|]. split; [exact Hu1|]. split; [exact Hs|].
  split; [exact Hx|]. split; [exact Hn|].
  intros xt Hpre Ext Emap X.
  pose proof (C10_cleaner_handle_count K E t m1 xt Hpre Ext Emap Hu1) as Hrc.
  unfold X. change (run K P (S (S n)) (KDropFields o j) m) with (step_drop_fields (run K P (S n)) o j m).
  rewrite Heq. change (run K P (S n) (KDropCc t) m1) with (step_drop_cc K P (run K P n) t m1). split.
  - intros H0 Ev Hmk Hr. rewrite H0 in Hrc.
    exact (C10_exactly_partial K P (run K P n) t m1 xt (run_clean K P n) HI1 Ext Emap Ev Hrc Hmk Hu1 Hr).
  - intros Hpos. apply (step_drop_cc_shared K P (run K P n) t m1 xt Ext). rewrite Hrc. lia.
Qed.
