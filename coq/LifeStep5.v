(** * LifeStep5: [Cc::new_cyclic], [Cleaner::register], and the dispatch: every activation
    preserves the lifecycle invariant ([step_ok2]). *)
From Coq Require Import NArith Bool List Lia.
From stdpp Require Import base list option.
From RecordUpdate Require Import RecordSet.
From RC Require Import Hdr Machine RunInd Flags Flags2.
From RC Require Import Inv InvP LifeInv LifeInv2 LifeChk LifeStep LifeStep2 LifeStep3 LifeStep4.
Import ListNotations RecordSetNotations.
Local Open Scope N_scope.

Section Special.
  Context (K : conf) (P : prog) (mu : id) (nfa : bool).
  Hypothesis Hprog : nfa = true -> prog_nfa P = true.
  Notation Ls := (Ls K mu nfa).
  Notation G := (G mu).
  Notation Pre2 := (Pre2 K nfa).
  Notation Post2 := (Post2 K mu nfa).
  Notation Sat := (Sat mu).
  Context (rec : call -> machine -> machine * outcome).
  Hypothesis Hrec : rec_ok Pre2 Post2 rec.

  Definition isUB (v : vstate) (b : bstate) (x : obj) : Prop := o_vst x = v /\ o_box x = b.
  Lemma isUB_lv v b x x' : lv x' = lv x -> isUB v b x -> isUB v b x'.
  Proof. unfold isUB. intros Hl. rewrite (lv_vst _ _ Hl), (lv_box _ _ Hl). auto. Qed.
  Lemma isUB_F b x x' : ObjF x x' -> isUB VUninit b x -> isUB VUninit b x'.
  Proof. intros HF [Hv Hb]. destruct (f_uninit _ _ HF Hv) as [H1 H2]. split; congruence. Qed.

  Lemma cyc_fail n0 m0 mi o (r : outcome) :
    Ls n0 m0 mi -> Sat mi o (isUB VUninit BAlloc) -> (n0 <= o)%nat ->
    Ls n0 m0 (weak_drop (WTo o) (dealloc K o (drop_metadata K o mi) <| wparam ::= tail |>), r).1.
  Proof.
    intros HP HS Hn. cbn [fst]. set (m6 := drop_metadata K o mi).
    assert (HQ6 : Quiet mi m6) by (unfold m6; lq).
    assert (HP7 : Ls n0 m0 (dealloc K o m6)).
    { eapply Ls_trans; [eapply Ls_q; [exact HP | exact HQ6]|]. apply tr_free. intros HG6 y Hy.
      destruct (HS (Quiet_G mu mi m6 HQ6 HG6)) as (x5 & Hx5 & Hv5 & _).
      destruct (Quiet_get mi m6 o x5 HQ6 Hx5) as (y' & Hy' & Hl). assert (y' = y) by congruence. subst y'.
      rewrite (lv_vst _ _ Hl), Hv5. split; [discriminate | intros Hlt; lia]. }
    posq.
  Qed.

  Lemma l_cmd_new_cyclic self dst cls script sw m :
    Ls (length (heap m)) m (cmd_new_cyclic K P rec self dst cls script sw m).1.
  Proof.
    unfold cmd_new_cyclic. pose proof (Ls_refl K mu nfa (length (heap m)) m) as HP0.
    destruct (negb (k_weak K)); [fin|].
    assert (HQ1 : Quiet m (resolve self dst m).1) by lq.
    pose proof (Ls_q K mu nfa _ m m _ HP0 HQ1) as HP1. pose proof (Quiet_len _ _ HQ1) as HL1.
    destruct (resolve self dst m) as [m1 r]. cbn [fst snd] in *. destruct r as [r|]; [|fin].
    unfold new_node. cbv zeta.
    set (x0 := Obj (hdr_new false) VLive BNotYet None cls false (replicate (c_nf (class_of P cls)) None)
                   (replicate (c_nw (class_of P cls)) None) None false [] [] false).
    set (o := length (heap m1)). set (n0 := length (heap m)) in *.
    assert (Hno : (n0 <= o)%nat) by (unfold o; lia).
    set (m2 := m1 <| heap ::= fun h => h ++ [x0] |>).
    pose proof (Ls_trans K mu nfa _ m m1 _ HP1 (tr_new K mu nfa n0 m1 x0 eq_refl eq_refl)) as HP2. fold m2 in HP2.
    assert (Hx2 : get m2 o = Some x0) by apply get_new.
    pose proof (Ls_trans K mu nfa _ m m2 _ HP2 (tr_uninit K mu nfa n0 m2 o x0 Hx2 eq_refl eq_refl Hno)) as HP3.
    change (upd o (fun x => x <| o_vst := VUninit |>) m2) with (upd o (f_vst VUninit) m2).
    assert (HS3 : Sat (upd o (f_vst VUninit) m2) o (isUB VUninit BNotYet)).
    { intros _. eexists. split; [apply (get_upd_eq o _ m2 x0 Hx2) | split; reflexivity]. }
    destruct (trigger_keeps K mu nfa rec Hrec n0 m _ o _ HP3 HS3 (isUB_F BNotYet)) as (m4 & t & -> & HP4 & HS4).
    destruct t; try fin.
    assert (HP5 : Ls n0 m (box_alloc K o m4)).
    { eapply Ls_trans; [exact HP4|]. apply tr_alloc; [exact Hno|].
      intros HG y Hy. destruct (HS4 HG) as (y' & Hy' & _ & Hb). congruence. }
    assert (HS5 : Sat (box_alloc K o m4) o (isUB VUninit BAlloc)).
    { intros HG. assert (HG4 : G m4) by (destruct HP5 as (_ & _ & _); destruct (tr_alloc K mu nfa n0 m4 o Hno) as (A & _);
        [intros HG' y Hy; destruct (HS4 HG') as (y' & Hy' & _ & Hb); congruence | exact (A HG)]).
      destruct (HS4 HG4) as (x4 & Hx4 & Hv4 & Hb4). rewrite (box_alloc_eq K m4 o x4 Hx4).
      eexists. split; [apply (get_upd_eq o _ _ x4); exact Hx4 | split; [exact Hv4 | reflexivity]]. }
    set (m5 := box_alloc K o m4) in *. clearbody m5. clear HP0 HP1 HP2 HP3 HP4 HS3 HS4.
    set (m10 := emit _ _).
    assert (HQ10 : Quiet m5 m10) by (unfold m10; lq).
    assert (HQ11 : Quiet m5 (tick KClosure m10).1) by (eapply Quiet_trans; [exact HQ10 | lq]).
    pose proof (Ls_q K mu nfa _ m m5 _ HP5 HQ11) as HP11.
    pose proof (Sat_quiet mu m5 _ o _ (isUB_lv VUninit BAlloc) HQ11 HS5) as HS11.
    destruct (tick KClosure m10) as [m11 boom]. cbn [fst snd] in *. clear HQ10 HQ11. clearbody m10.
    assert (H12 : exists m12 r', (if boom then (m11, raise m11) else rec (KScript None (script_of P script)) m11) = (m12, r')
                     /\ Ls n0 m m12 /\ Sat m12 o (isUB VUninit BAlloc)).
    { destruct boom.
      - exists m11, (raise m11). auto.
      - assert (Hp : Pre2 (KScript None (script_of P script)) m11) by (cbn; intros Hn; apply script_nfa, Hprog, Hn).
        pose proof (Ls_rec' K mu nfa rec Hrec m11 _ Hp) as HL.
        pose proof (Sat_frame' K mu nfa _ _ o _ _ HL (isUB_F BAlloc) HS11) as HS12.
        pose proof (Ls_step K mu nfa n0 m _ _ HP11 HL) as HP12.
        destruct (rec (KScript None (script_of P script)) m11) as [m12 r']. exists m12, r'. auto. }
    destruct H12 as (m12 & r' & -> & HP12 & HS12).
    destruct r'; [| apply cyc_fail; assumption | apply cyc_fail; assumption | fin].
    assert (H13 : exists m13 r'', (if sw && bool_decide (0 < c_nw (class_of P cls))%nat
                                   then match weak_clone (WTo o) m12 with
                                        | Some m => (upd o (fun x => x <| o_wfields ::= <[0%nat := Some (WTo o)]> |>) m, ONormal)
                                        | None => (m12, raise m12)
                                        end
                                   else (m12, ONormal)) = (m13, r'')
                     /\ Ls n0 m m13 /\ Sat m13 o (isUB VUninit BAlloc)).
    { destruct (sw && bool_decide (0 < c_nw (class_of P cls))%nat); [|exists m12, ONormal; auto].
      destruct (weak_clone (WTo o) m12) as [mc|] eqn:Ewc; [|exists m12, (raise m12); auto].
      eexists _, ONormal. split; [reflexivity|].
      assert (HQ : Quiet m12 (upd o (fun x => x <| o_wfields ::= <[0%nat := Some (WTo o)]> |>) mc)).
      { apply Quiet_upd; [intros; reflexivity|]. eapply q_weak_clone; [apply Quiet_refl | exact Ewc]. }
      split; [eapply Ls_q; eassumption | eapply Sat_quiet; [apply isUB_lv | exact HQ | exact HS12]]. }
    destruct H13 as (m13 & r'' & -> & HP13 & HS13).
    destruct r''; [| apply cyc_fail; assumption | apply cyc_fail; assumption | apply cyc_fail; assumption].
    change (upd o (fun x => x <| o_vst := VLive |>) m13) with (upd o (f_vst VLive) m13).
    assert (HP14 : Ls n0 m (upd o (f_vst VLive) m13)).
    { eapply Ls_trans; [exact HP13|]. apply Ls_guard. intros HG.
      destruct (HS13 HG) as (x13 & Hx13 & Hv13 & Hb13). exact (tr_init K mu nfa n0 m13 o x13 Hx13 Hv13 Hb13 Hno). }
    set (m14 := upd o (f_vst VLive) m13) in *. clearbody m14. clear HP5 HP11 HP12 HP13.
    repeat adv; fin.
  Qed.

  (** ** [Cleaner::register] *)
  Lemma l_cmd_register self nd script c m :
    Ls (length (heap m)) m (cmd_register K P rec self nd script c m).1.
  Proof.
    unfold cmd_register. pose proof (Ls_refl K mu nfa (length (heap m)) m) as HP0.
    destruct (negb (k_clean K)); [fin|].
    assert (HQ1 : Quiet m (nresolve self nd m).1) by lq.
    pose proof (Ls_q K mu nfa _ m m _ HP0 HQ1) as HP1. pose proof (Quiet_len _ _ HQ1) as HL1.
    destruct (nresolve self nd m) as [m1 no]. cbn [fst snd] in *. destruct no as [o|]; [|fin].
    destruct (cslots m1 !! c); [|fin]. destruct (get m1 o) as [x|] eqn:Hx; [|fin].
    destruct (negb (c_cleaner (class_of P (o_cls x))) || o_ismap x); [fin|].
    set (n0 := length (heap m)) in *.
    match goal with |- LifeInv.Ls _ _ _ _ _ (match ?E with pair _ _ => _ end).1 => set (MID := E) end.
    assert (Hmid : Ls n0 m MID.1.1).
    { unfold MID. destruct (o_cleaner x) as [mo|]; [exact HP1|].
      unfold new_map. cbv zeta.
      set (x0 := Obj (hdr_new false) VLive BNotYet None 0 true [] [] None false [] [] false).
      set (mo := length (heap m1)).
      assert (Hno : (n0 <= mo)%nat) by (unfold mo; lia).
      pose proof (Ls_trans K mu nfa _ m m1 _ HP1 (tr_new K mu nfa n0 m1 x0 eq_refl eq_refl)) as HP2.
      assert (HS2 : Sat (m1 <| heap ::= fun h => h ++ [x0] |>) mo isNotYet).
      { intros _. exists x0. split; [apply get_new | reflexivity]. }
      destruct (trigger_keeps K mu nfa rec Hrec n0 m _ mo isNotYet HP2 HS2 isNotYet_F) as (m3 & t & Et & HP3 & HS3).
      fold x0 in Et |- *. fold mo in Et |- *. rewrite Et. clear Et.
      destruct t.
      - cbv zeta. assert (HP4 : Ls n0 m (box_alloc K mo m3)).
        { eapply Ls_trans; [exact HP3|]. apply tr_alloc; [exact Hno|].
          intros HG y Hy. destruct (HS3 HG) as (y' & Hy' & Hb). congruence. }
        destruct (get (box_alloc K mo m3) o ≫= o_cleaner) as [existing|].
        + pose proof (Ls_rec K mu nfa rec Hrec n0 m _ (KDropCc mo) HP4 I) as HP5.
          destruct (rec (KDropCc mo) (box_alloc K mo m3)) as [m4 r]. exact HP5.
        + cbn [fst]. eapply Ls_q; [exact HP4 | lq].
      - pose proof (Ls_unwinding K mu nfa rec Hrec n0 m m3 (KDropValue mo) HP3 I) as HP5.
        destruct (unwinding (rec (KDropValue mo)) m3) as [m4 r]. exact HP5.
      - exact HP3.
      - exact HP3. }
    destruct MID as [[m2 mo] r]. cbn [fst snd] in Hmid. clear HP0 HP1.
    repeat adv; fin.
  Qed.

  (** ** every activation *)
  Ltac ap L := first [ apply L; assumption | eapply L; eassumption ].

  Lemma l_step_cmd self c m :
    Pre2 (KCmd self c) m -> chk (KCmd self c) m = true -> Ls (length (heap m)) m (step_cmd K P rec self c m).1.
  Proof.
    intros Hp Hc. destruct c; cbn [step_cmd].
    - ap l_cmd_new.
    - ap l_cmd_clone.
    - ap l_cmd_drop.
    - ap l_cmd_move.
    - ap l_cmd_mark_alive.
    - ap l_cmd_collect.
    - ap l_cmd_downgrade.
    - ap l_cmd_upgrade.
    - ap l_cmd_w_new.
    - ap l_cmd_w_clone.
    - ap l_cmd_w_drop.
    - ap l_cmd_try_unwrap.
    - ap l_cmd_drop_value.
    - ap l_cmd_fin_again.
    - ap l_cmd_new_cyclic.
    - ap l_cmd_register.
    - ap l_cmd_clean.
    - ap l_cmd_c_drop.
    - ap l_cmd_bag.
    - ap l_cmd_unbag.
    - ap l_cmd_borrow.
    - ap l_cmd_unborrow.
    - ap l_cmd_cfg_auto.
    - ap l_cmd_cfg_percent.
    - ap l_cmd_cfg_buffered.
    - ap l_cmd_arm.
    - ap l_cmd_panic.
    - ap l_cmd_obs.
    - ap l_cmd_w_obs.
    - ap l_cmd_s_obs.
  Qed.

  Theorem step_ok2 c m :
    Pre2 c m -> chk c m = true -> Post2 c m (step K P rec c m).1 (step K P rec c m).2.
  Proof.
    intros Hp Hc. destruct c; cbn [step]; unfold LifeStep.Post2.
    - split; [ap l_step_cmd | exact I].
    - split; [ap l_step_script | exact I].
    - split; [ap l_step_store | exact I].
    - split; [ap l_step_drop_cc | exact I].
    - ap l_step_drop_value.
    - split; [ap l_step_drop_fields | exact I].
    - split; [ap l_step_drop_map_slots | exact I].
    - split; [ap l_step_trigger | exact I].
    - split; [ap l_step_collect_cycles | exact I].
    - split; [ap l_step_collect | exact I].
    - split; [ap l_step_collect_loop | exact I].
    - split; [ap l_step_collect_once | exact I].
    - split; [ap l_step_finalize_list | exact I].
    - split; [ap l_step_drop_list | exact I].
    - split; [ap l_step_unbag | exact I].
    - split; [ap l_step_clean_run | exact I].
  Qed.
End Special.

Print Assumptions step_ok2.
