(** * SafeCollDrop2: the drop pass ([KDropList]): freeing the list, restoring the flag, and the
    activation lemma. *)
From Coq Require Import NArith Bool List Lia.
From stdpp Require Import base list option.
From RecordUpdate Require Import RecordSet.
From RC Require Import Hdr Machine RunInd.
From RC Require BufBase BufPass BufStep Buf.
From RC Require Import Inv InvP SafeHelpers SafePrims SafeCalls SafeGlue SafeDrop SafeCmd SafeCyclic SafeMain.
From RC Require Import SafeColl SafeCollFr SafeCollHdr SafeCollTop SafeCollPass SafeCollDead SafeCollOnce SafeCollFin SafeCollDrop.
Import ListNotations RecordSetNotations.
Local Open Scope N_scope.

Section Free.
  Context (K : conf).
  Implicit Types (m : machine) (o : id) (x : obj).

  Lemma drop_metadata_side m o y : get m o = Some y ->
    exists s, get (drop_metadata K o m) o = Some (y <| o_side := s |>).
  Proof.
    intros Hy. assert (Hrefl : exists s, get m o = Some (y <| o_side := s |>)).
    { exists (o_side y). rewrite Hy. destruct y; reflexivity. }
    unfold drop_metadata. destruct (negb (k_weak K)); [exact Hrefl|]. rewrite Hy.
    destruct (h_side (o_hdr y)); [|exact Hrefl]. destruct (o_side y) as [s|] eqn:Es; [|exact Hrefl].
    destruct (w_cnt (sd_wk s) =? 0).
    - unfold sfree. assert (Hg : get (if sd_freed s then emit_bad UseAfterFree o m else m) o = Some y) by (destruct (sd_freed s); exact Hy).
      rewrite Hg, Es. eexists.
      match goal with |- get (emit ?e (upd o ?f ?mm)) o = _ =>
        change (get (emit e (upd o f mm)) o) with (get (upd o f mm) o) end.
      apply get_upd_eq. destruct (sd_freed s); exact Hy.
    - unfold uside. exists (fmap (fun s0 => Side (set_acc false (sd_wk s0)) (sd_freed s0)) (o_side y)).
      erewrite get_upd_eq; [|destruct (sd_freed s); exact Hy]. destruct y; reflexivity.
  Qed.

  Lemma dealloc_box m o y : get m o = Some y -> get (dealloc K o m) o = Some (y <| o_box := BFreed |>).
  Proof.
    intros Hy. unfold dealloc. rewrite Hy. destruct (box_layout K y) as [sz al].
    match goal with |- get (emit _ (upd o ?f ?mm)) o = _ =>
      change (get (emit (EFree o sz al) (upd o f mm)) o) with (get (upd o f mm) o) end.
    apply get_upd_eq.
    destruct (o_box y); repeat (match goal with |- context [if ?c then _ else _] => destruct c end); exact Hy.
  Qed.

  Lemma free_shape m o y : get m o = Some y ->
    exists s, get (dealloc K o (drop_metadata K o m)) o = Some (y <| o_side := s |> <| o_box := BFreed |>).
  Proof.
    intros Hy. destruct (drop_metadata_side m o y Hy) as (s & Hs). exists s. apply dealloc_box, Hs.
  Qed.
  Lemma free_other m o p : p <> o -> get (dealloc K o (drop_metadata K o m)) p = get m p.
  Proof. intros Hne. rewrite (ot_dealloc K o _ p Hne). apply (ot_drop_metadata K o m p Hne). Qed.

  Lemma free_none m o : get m o = None -> get (dealloc K o (drop_metadata K o m)) o = None.
  Proof.
    intros Hy. assert (Hd : get (drop_metadata K o m) o = None).
    { unfold drop_metadata. destruct (negb (k_weak K)); [exact Hy|]. rewrite Hy. exact Hy. }
    unfold dealloc. rewrite Hd. exact Hd.
  Qed.

  Lemma hloc_free m o c h t : hloc (dealloc K o (drop_metadata K o m)) h c t -> hloc m h c t.
  Proof.
    set (m1 := dealloc K o (drop_metadata K o m)).
    assert (Hs : slots m1 = slots m /\ bag m1 = bag m).
    { unfold m1, dealloc, drop_metadata, sfree, uside.
      repeat (match goal with |- context [match ?X with _ => _ end] => destruct X end); split; reflexivity. }
    destruct Hs as [Hs Hb].
    intros [i t' H | t' H | p xp' j t' Hp Hj | p xp' t' Hp Hc].
    - econstructor 1. rewrite <- Hs. eauto.
    - constructor 2. rewrite <- Hb. exact H.
    - destruct (decide (p = o)) as [->|Hne].
      + destruct (get m o) as [y|] eqn:Ey.
        * destruct (free_shape m o y Ey) as (s & Hy'). fold m1 in Hy'. rewrite Hy' in Hp. injection Hp as <-. econstructor 3; eauto.
        * exfalso. unfold m1 in Hp. rewrite (free_none m o Ey) in Hp. discriminate.
      + unfold m1 in Hp. rewrite free_other in Hp by exact Hne. econstructor 3; eauto.
    - destruct (decide (p = o)) as [->|Hne].
      + destruct (get m o) as [y|] eqn:Ey.
        * destruct (free_shape m o y Ey) as (s & Hy'). fold m1 in Hy'. rewrite Hy' in Hp. injection Hp as <-. econstructor 4; eauto.
        * exfalso. unfold m1 in Hp. rewrite (free_none m o Ey) in Hp. discriminate.
      + unfold m1 in Hp. rewrite free_other in Hp by exact Hne. econstructor 4; eauto.
  Qed.

  Definition FMember (Lr : list id) m o : Prop :=
    inD m o = true /\ exists x, get m o = Some x /\ o_vst x = VDropped /\ (o ∈ Lr -> o_box x = BAlloc).

  Lemma no_refs_member b E L m o :
    SInv K b E [] m -> DeadClosed L m -> (forall p, p ∈ L -> exists Lr, FMember Lr m p) -> o ∈ L -> refs m o = 0%nat.
  Proof.
    intros HI HC HM Ho. destruct (refs m o) eqn:Er; [reflexivity|]. exfalso.
    destruct (refs_pos_hloc m o) as (h & c & Hl); [lia|].
    destruct (HM o Ho) as (Lr & Hi & _).
    destruct (holder_in_dead K _ _ _ _ _ _ HI Hl Hi) as (p & xp & -> & Hp & _ & Hv).
    destruct (HC o Ho _ _ Hl) as (p' & [= <-] & Hpin).
    destruct (HM p Hpin) as (Lr' & _ & y & Hy & Hvy & _). congruence.
  Qed.

  Lemma free_all b E L : forall Lr, NoDup Lr -> (forall o, o ∈ Lr -> o ∈ L) -> forall m,
    NoBad m -> SInv K b E [] m -> nofuel m -> st_collecting m = true -> DeadClosed L m ->
    (forall o, o ∈ L -> cnt_id o E = 0%nat /\ FMember Lr m o) ->
    let m' := fold_left (fun m g => dealloc K g (drop_metadata K g m)) Lr m in
    NoBad m' /\ SInv K b E [] m' /\ nofuel m' /\ FrM K E m m' /\ (forall o, inD m' o = inD m o) /\
    (forall o, o ∉ Lr -> get m' o = get m o) /\
    (forall o, o ∈ Lr -> exists x', get m' o = Some x' /\ o_vst x' = VDropped /\ o_box x' = BFreed).
  Proof.
    induction 1 as [|a Lr Ha Hnd IH]; intros Hsub m Hnb HI Hn Hc HC HM; cbv zeta.
    - cbn. split; [exact Hnb|]. split; [exact HI|]. split; [exact Hn|]. split; [apply FrM_refl|].
      split; [reflexivity|]. split; [reflexivity|]. intros o Ho. inversion Ho.
    - cbn [fold_left]. set (m1 := dealloc K a (drop_metadata K a m)).
      assert (HaL : a ∈ L) by (apply Hsub; left).
      destruct (HM a HaL) as (Hcnt & Hia & x & Hx & Hvx & Hbx). specialize (Hbx ltac:(left)).
      assert (Hrefs : refs m a = 0%nat).
      { eapply no_refs_member; eauto. intros p Hp. exists (a :: Lr). apply HM, Hp. }
      pose proof (Cur_init K b true E (Some a) E [] m Hnb HI) as C0.
      assert (C1 : Cur K b true E (Some a) m E [] m1).
      { apply (Cur_free K b true E (Some a) m E [] m a x C0 Hx Hbx); [lia | unfold is_live; rewrite Hvx; reflexivity | congruence | right; right; reflexivity]. }
      pose proof (cur_fr _ _ _ _ _ _ _ _ _ C1) as F1.
      destruct (free_shape m a x Hx) as (s & Hx1). fold m1 in Hx1.
      assert (HD1 : forall o, inD m1 o = inD m o).
      { intros o. destruct (inD m o) eqn:Ei; [apply (fr_dead _ _ _ _ _ F1), Ei|].
        destruct (inD m1 o) eqn:Ei1; [|reflexivity]. rewrite (fr_deadc _ _ _ _ _ F1 Hc o Ei1) in Ei. discriminate. }
      assert (FM1 : FrM K E m m1).
      { apply (Fr_close K E a). { apply Fr_strip, F1. }
        intros y y' Hy Hy'. rewrite get_strip, Hx in Hy. cbn in Hy. injection Hy as <-.
        rewrite get_strip, Hx1 in Hy'. cbn in Hy'. injection Hy' as <-.
        rewrite !norm_box, !norm_vst. cbn. rewrite Hvx, Hbx. repeat split; try congruence.
        intros _ [Hp|[Hp _]]; [lia|]. rewrite norm_marked in Hp by congruence. discriminate. }
      destruct (IH (fun o Ho => Hsub o (elem_of_list_further _ _ _ Ho)) m1) as (J1 & J2 & J3 & J4 & J5 & J6 & J7).
      + apply C1.
      + apply C1.
      + apply nofuel_dealloc, nofuel_drop_metadata, Hn.
      + rewrite (fr_coll _ _ _ _ _ F1). exact Hc.
      + intros o Ho h c Hl. apply (HC o Ho h c). eapply hloc_free; eauto.
      + intros o Ho. destruct (HM o Ho) as (Hco & Hio & y & Hy & Hvy & Hby). split; [exact Hco|].
        split; [rewrite HD1; exact Hio|]. destruct (decide (o = a)) as [->|Hne].
        * eexists. split; [exact Hx1|]. split; [assumption|]. intros Hin. contradiction.
        * exists y. unfold m1. rewrite free_other by exact Hne. split; [exact Hy|]. split; [exact Hvy|].
          intros Hin. apply Hby. right. exact Hin.
      + split; [exact J1|]. split; [exact J2|]. split; [exact J3|]. split; [eapply FrM_trans; eauto|].
        split; [intros o; rewrite J5; apply HD1|]. split.
        * intros o Ho. apply not_elem_of_cons in Ho as [Hne Ho]. rewrite (J6 o Ho). unfold m1. apply free_other, Hne.
        * intros o Ho. apply elem_of_cons in Ho as [->|Ho]; [|apply J7, Ho].
          rewrite (J6 a Ha), Hx1. eexists. split; [reflexivity|]. split; [exact Hvx | reflexivity].
  Qed.

  (** restoring the [dropping] flag when no member of the dying set is left un-dropped *)
  Lemma SInv_set_dropping b E m v :
    NoBad m -> SInv K b E [] m ->
    (forall o x, get m o = Some x -> k_weak K = true -> inD m o = true -> o_box x = BAlloc ->
                 is_dropped (o_hdr x) = false -> v = true) ->
    SInv K b E [] (m <| st_dropping := v |>).
  Proof.
    intros Hnb HI Hno. pose proof (Cur_init K b true E None E [] m Hnb HI) as C.
    eapply cur_inv. eapply (Cur_proj K b true E None m E [] m (m <| st_dropping := v |>) C); try reflexivity.
    - exact Hnb.
    - apply (sv_values _ _ _ _ _ HI).
    - exact Hno.
  Qed.
End Free.
