(** * LifeSd: the lifecycle of weak side records at event level (definitions, primitive steps).

    Per object [o]: [ESAlloc o] is logged iff the header says a side record was allocated
    ([h_side]), which is the case iff [o_side] is present; [ESFree o] is logged iff the record is
    marked freed; at most one of each; an [ESFree o] is preceded by the [ESAlloc o].
    Same scheme as LifeInv: everything modulo [G mu m]; [SLs n0 m m'] relates the start state of
    an activation with a later state ([FrameS]: an object that never got a box and has no side
    record keeps that status, unless the activation created it). *)
From Coq Require Import NArith Bool List Lia.
From stdpp Require Import base list option.
From RecordUpdate Require Import RecordSet.
From RC Require Import Hdr Machine RunInd Flags.
From RC Require Import Inv InvP LifeInv.
Import ListNotations RecordSetNotations.
Local Open Scope N_scope.

Definition ev_side (e : event) : bool := match e with ESAlloc _ | ESFree _ => true | _ => false end.
Definition isSA (o : id) (e : event) : bool := match e with ESAlloc o' => Nat.eqb o' o | _ => false end.
Definition isSF (o : id) (e : event) : bool := match e with ESFree o' => Nat.eqb o' o | _ => false end.
Definition evs_id (e : event) : option id := match e with ESAlloc o | ESFree o => Some o | _ => None end.

Lemma ns_isSA o e : ev_side e = false -> isSA o e = false.
Proof. destruct e; cbn; congruence. Qed.
Lemma ns_isSF o e : ev_side e = false -> isSF o e = false.
Proof. destruct e; cbn; congruence. Qed.
Lemma ns_id e : ev_side e = false -> evs_id e = None.
Proof. destruct e; cbn; congruence. Qed.

Definition sside (x : obj) : option bool := match o_side x with Some s => Some (sd_freed s) | None => None end.
Definition notyet (x : obj) : bool := match o_box x with BNotYet => true | _ => false end.
Definition sv (x : obj) : option bool * bool * bool * option id := (sside x, h_side (o_hdr x), notyet x, o_cleaner x).
(** never got a box, no side record *)
Definition FS (x : obj) : Prop := sside x = None /\ h_side (o_hdr x) = false /\ notyet x = true.
Lemma FS_sv x x' : sv x' = sv x -> FS x -> FS x'.
Proof. unfold sv, FS. intros [= -> -> -> _]. auto. Qed.
Lemma sv_cleaner x x' : sv x' = sv x -> o_cleaner x' = o_cleaner x.
Proof. unfold sv. congruence. Qed.

Section Sd.
  Context (mu : id).
  Notation G := (G mu).

  Definition evwfS (e : event) (l : list event) : Prop :=
    match e with
    | ESAlloc o => cntE (isSA o) l = 0%nat
    | ESFree o => In (ESAlloc o) l /\ cntE (isSF o) l = 0%nat
    | _ => True
    end.
  Fixpoint lwfS (l : list event) : Prop := match l with [] => True | e :: l => evwfS e l /\ lwfS l end.
  Definition scopedS (m : machine) : Prop :=
    forall e o, In e (log m) -> evs_id e = Some o -> (o < length (heap m))%nat.

  Record OKs (m : machine) (o : id) (x : obj) : Prop := {
    s_nA : cntE (isSA o) (log m) = (if h_side (o_hdr x) then 1 else 0)%nat;
    s_nF : cntE (isSF o) (log m) = match sside x with Some true => 1 | _ => 0 end%nat;
    s_cons : h_side (o_hdr x) = match sside x with Some _ => true | None => false end;
  }.
  Definition SLinv (m : machine) : Prop :=
    lwfS (log m) /\ scopedS m /\ forall o x, get m o = Some x -> OKs m o x.

  Definition FrameS (n0 : nat) (m m' : machine) : Prop :=
    (length (heap m) <= length (heap m'))%nat /\
    forall o x, (o < n0)%nat -> get m o = Some x ->
      exists x', get m' o = Some x' /\ (FS x -> FS x') /\
                 (forall t, o_cleaner x' = Some t -> o_cleaner x = Some t \/ (n0 <= t)%nat).
  Lemma FrameS_refl n0 m : FrameS n0 m m.
  Proof. split; [lia|]. intros o x _ Hx. exists x. auto. Qed.
  Lemma FrameS_trans n0 m1 m2 m3 : FrameS n0 m1 m2 -> FrameS n0 m2 m3 -> FrameS n0 m1 m3.
  Proof.
    intros [L1 H1] [L2 H2]. split; [lia|]. intros o x Ho Hx.
    destruct (H1 o x Ho Hx) as (y & Hy & Hfy & Hcy). destruct (H2 o y Ho Hy) as (z & Hz & Hfz & Hcz).
    exists z. split; [exact Hz|]. split; [auto|]. intros t Ht. destruct (Hcz t Ht) as [H|H]; [apply Hcy, H | auto].
  Qed.

  Definition SLs (n0 : nat) (m m' : machine) : Prop :=
    (G m' -> G m) /\ (G m' -> SLinv m -> SLinv m') /\ (G m' -> FrameS n0 m m').
  Lemma SLs_refl n0 m : SLs n0 m m.
  Proof. split; [auto|]. split; [auto|]. intros _. apply FrameS_refl. Qed.
  Lemma SLs_trans n0 m1 m2 m3 : SLs n0 m1 m2 -> SLs n0 m2 m3 -> SLs n0 m1 m3.
  Proof.
    intros (A1 & A2 & A3) (B1 & B2 & B3). split; [auto|]. split; [auto|].
    intros H. eapply FrameS_trans; eauto.
  Qed.
  Lemma SLs_step n0 m0 mi m' : (n0 <= length (heap m0))%nat -> SLs n0 m0 mi -> SLs (length (heap mi)) mi m' -> SLs n0 m0 m'.
  Proof.
    intros Hn0 (A1 & A2 & A3) (B1 & B2 & B3). split; [auto|]. split; [auto|].
    intros HG. pose proof (B1 HG) as HGi. destruct (A3 HGi) as [L1 F1]. destruct (B3 HG) as [L2 F2].
    split; [lia|]. intros o x Ho Hx. destruct (F1 o x Ho Hx) as (y & Hy & Hfy & Hcy).
    destruct (F2 o y (lookup_lt_Some _ _ _ Hy) Hy) as (z & Hz & Hfz & Hcz).
    exists z. split; [exact Hz|]. split; [auto|]. intros t Ht. destruct (Hcz t Ht) as [H|H]; [apply Hcy, H | right; lia].
  Qed.
  Lemma SLs_guard n0 m m' : (G m' -> SLs n0 m m') -> SLs n0 m m'.
  Proof.
    intros H. split; [intros HG; apply (proj1 (H HG) HG)|]. split; [intros HG; apply (proj1 (proj2 (H HG)) HG)|].
    intros HG. apply (proj2 (proj2 (H HG)) HG).
  Qed.
  Lemma SLs_vac n0 m m' : ~ G m' -> SLs n0 m m'.
  Proof. intros H. apply SLs_guard. intros HG. contradiction. Qed.

  (** ** quiet changes *)
  Definition QuietS (m m' : machine) : Prop :=
    length (heap m') = length (heap m) /\
    (forall o, sv <$> get m' o = sv <$> get m o) /\
    (exists k, log m' = k ++ log m /\ Forall (fun e => ev_side e = false) k) /\
    (forall o, mem_id o (dead m') = false -> mem_id o (dead m) = false).
  Lemma QuietS_refl m : QuietS m m.
  Proof. split; [reflexivity|]. split; [reflexivity|]. split; [exists []; split; [reflexivity|constructor]|auto]. Qed.

  Lemma cnt_ns_app p k l : (forall e, ev_side e = false -> p e = false) ->
    Forall (fun e => ev_side e = false) k -> cntE p (k ++ l) = cntE p l.
  Proof.
    intros Hp Hk. rewrite cntE_app, (cntE_none p k); [reflexivity|]. eapply Forall_impl; [exact Hp | exact Hk].
  Qed.
  Lemma In_ns_app (k l : list event) e : Forall (fun e => ev_side e = false) k -> ev_side e = true ->
    In e (k ++ l) <-> In e l.
  Proof.
    intros Hk He. rewrite in_app_iff. split; [|auto]. intros [H|H]; [|exact H].
    rewrite Forall_forall in Hk. specialize (Hk _ H). congruence.
  Qed.
  Lemma lwfS_ns_app k l : Forall (fun e => ev_side e = false) k -> lwfS l -> lwfS (k ++ l).
  Proof.
    induction 1 as [|e k He _ IH]; intros Hl; cbn; [exact Hl|]. split; [|auto].
    destruct e; try exact I; discriminate.
  Qed.
  Lemma OKs_quiet m m' o x x' k : log m' = k ++ log m -> Forall (fun e => ev_side e = false) k ->
    sv x' = sv x -> OKs m o x -> OKs m' o x'.
  Proof.
    intros E Hk Hl [H1 H2 H3]. unfold sv in Hl. injection Hl as Hs Hh Hn Hc.
    split; rewrite ?E, ?(cnt_ns_app _ k _ (ns_isSA o) Hk), ?(cnt_ns_app _ k _ (ns_isSF o) Hk), ?Hs, ?Hh; assumption.
  Qed.
  Lemma QuietS_G m m' : QuietS m m' -> G m' -> G m.
  Proof.
    intros (_ & _ & (k & E & _) & Hd) [H1 H2]. split; [|auto]. unfold no_badU in *. rewrite E, forallb_app in H1.
    apply andb_true_iff in H1. apply H1.
  Qed.
  Lemma QuietS_SLs n0 m m' : QuietS m m' -> SLs n0 m m'.
  Proof.
    intros HQ. split; [apply QuietS_G, HQ|]. destruct HQ as (HL & Hsv & (k & E & Hk) & _). split.
    - intros _ (W & S & HO). split; [|split].
      + rewrite E. apply lwfS_ns_app; assumption.
      + intros e o Hin Hid. rewrite HL. rewrite E in Hin.
        assert (He : ev_side e = true) by (destruct e; try discriminate; reflexivity).
        apply (proj1 (In_ns_app k _ e Hk He)) in Hin. exact (S e o Hin Hid).
      + intros o x' Hx'. specialize (Hsv o). rewrite Hx' in Hsv. destruct (get m o) as [x|] eqn:Hx; [|discriminate].
        cbn in Hsv. assert (Hl : sv x' = sv x) by congruence. exact (OKs_quiet m m' o x x' k E Hk Hl (HO o x Hx)).
    - intros _. split; [lia|]. intros o x _ Hx. specialize (Hsv o). rewrite Hx in Hsv.
      destruct (get m' o) as [x'|]; [|discriminate]. cbn in Hsv. assert (Hl : sv x' = sv x) by congruence.
      exists x'. split; [reflexivity|]. split; [apply (FS_sv x x' Hl)|]. intros t Ht. left. rewrite <- (sv_cleaner _ _ Hl). exact Ht.
  Qed.

  (** the unary form used by the symbolic execution: [SLs n0 m0 m -> SLs n0 m0 (op m)] *)
  Lemma ss_q n0 m0 m m' : SLs n0 m0 m -> QuietS m m' -> SLs n0 m0 m'.
  Proof. intros H HQ. eapply SLs_trans; [exact H | apply QuietS_SLs, HQ]. Qed.
  Lemma ss_same n0 m0 m m' : heap m' = heap m -> log m' = log m -> dead m' = dead m -> SLs n0 m0 m -> SLs n0 m0 m'.
  Proof.
    intros Eh El Ed H. eapply ss_q; [exact H|]. unfold QuietS, get. rewrite Eh. split; [reflexivity|].
    split; [reflexivity|]. split; [exists []; split; [exact El | constructor]|]. intros o. rewrite Ed. auto.
  Qed.
  Lemma ss_emit n0 m0 e m : ev_side e = false -> SLs n0 m0 m -> SLs n0 m0 (emit e m).
  Proof.
    intros He H. eapply ss_q; [exact H|]. split; [reflexivity|]. split; [reflexivity|].
    split; [exists [e]; split; [reflexivity | repeat constructor; exact He] | auto].
  Qed.
  Lemma ss_emit_bad n0 m0 b o m : SLs n0 m0 m -> SLs n0 m0 (emit_bad b o m).
  Proof. apply ss_emit. reflexivity. Qed.
  Lemma ss_upd_at n0 m0 o f m : (forall x, get m o = Some x -> sv (f x) = sv x) -> SLs n0 m0 m -> SLs n0 m0 (upd o f m).
  Proof.
    intros Hf H. eapply ss_q; [exact H|]. unfold QuietS, get in *.
    change (heap (upd o f m)) with (alter f o (heap m)).
    change (log (upd o f m)) with (log m). change (dead (upd o f m)) with (dead m).
    split; [apply alter_length|].
    split; [|split; [exists []; split; [reflexivity|constructor] | auto]].
    intros o'. destruct (decide (o = o')) as [->|Hne].
    - rewrite list_lookup_alter. unfold id in *.
      destruct (heap m !! o') as [y|]; [|reflexivity].
      change (Some (sv (f y)) = Some (sv y)). rewrite Hf; reflexivity.
    - rewrite list_lookup_alter_ne by exact Hne. reflexivity.
  Qed.
  Lemma ss_upd n0 m0 o f m : (forall x, sv (f x) = sv x) -> SLs n0 m0 m -> SLs n0 m0 (upd o f m).
  Proof. intros Hf. apply ss_upd_at. auto. Qed.
  Lemma ss_uhdr n0 m0 o f m : (forall h, h_side (f h) = h_side h) -> SLs n0 m0 m -> SLs n0 m0 (uhdr o f m).
  Proof. intros Hf. apply ss_upd. intros x. unfold sv, sside, notyet. cbn. rewrite Hf. reflexivity. Qed.
  Lemma ss_uhdr_const n0 m0 o h m : h_side h = h_side (hdr_of m o) -> SLs n0 m0 m -> SLs n0 m0 (uhdr o (fun _ => h) m).
  Proof.
    intros Hh. apply ss_upd_at. intros x Hx. unfold sv, sside, notyet. cbn. rewrite Hh. unfold hdr_of. rewrite Hx. reflexivity.
  Qed.
  Lemma ss_dead n0 m0 L m : SLs n0 m0 m -> SLs n0 m0 (m <| dead ::= app L |>).
  Proof.
    intros H. eapply ss_q; [exact H|]. split; [reflexivity|]. split; [reflexivity|].
    split; [exists []; split; [reflexivity|constructor]|]. intros o. cbn.
    unfold mem_id. rewrite existsb_app. intros Hx. apply orb_false_iff in Hx. apply Hx.
  Qed.
End Sd.

Lemma inc_rc_side h0 h : inc_rc h0 = Some h -> h_side h = h_side h0.
Proof. unfold inc_rc. destruct (_ =? _); [discriminate|]. intros [= <-]. reflexivity. Qed.
Lemma dec_rc_side h0 h : dec_rc h0 = Some h -> h_side h = h_side h0.
Proof. unfold dec_rc. destruct (_ =? _); [discriminate|]. intros [= <-]. reflexivity. Qed.

Ltac hside :=
  intros; unfold inc_tc, inc_rc, dec_rc, reset_tc, set_mark, set_tc, set_dropped, set_fin, set_rc; cbn;
  repeat match goal with |- context [if ?c then _ else _] => destruct c end; reflexivity.
Ltac hsconst :=
  first
  [ apply inc_rc_side; assumption
  | apply dec_rc_side; assumption
  | reflexivity
  | unfold hdr_of;
    match goal with
    | H : get ?m ?c = Some ?x |- h_side _ = h_side (match get ?m' ?c with _ => _ end) =>
      change (get m' c) with (get m c); rewrite H
    end; hside ].

Create HintDb lss discriminated.
#[export] Hint Resolve SLs_refl ss_emit_bad ss_dead : lss.
#[export] Hint Extern 1 (SLs _ _ _ (set _ _ _)) =>
  (match goal with
   | |- SLs _ _ _ ?Y => lazymatch Y with set _ _ ?X => refine (ss_same _ _ _ X Y eq_refl eq_refl eq_refl _) end
   end) : lss.
#[export] Hint Extern 1 (SLs _ _ _ (emit _ _)) => (apply ss_emit; [reflexivity|]) : lss.
#[export] Hint Extern 1 (SLs _ _ _ (uhdr _ _ _)) =>
  (first [ apply ss_uhdr_const; [hsconst | ] | apply ss_uhdr; [hside | ] ]) : lss.
#[export] Hint Extern 1 (SLs _ _ _ (upd _ _ _)) => (apply ss_upd; [intros; reflexivity|]) : lss.
Ltac lss := eauto 12 with lss.
