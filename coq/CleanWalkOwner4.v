(** * CleanWalkOwner4: the second walk assembled and lifted to programs; the owner-level theorem. *)
From Coq Require Import NArith Bool List Lia.
From stdpp Require Import base list option.
From RecordUpdate Require Import RecordSet.
From RC Require Import Hdr Machine RunInd Inv.
From RC Require Import InvP SafeHelpers SafeMain SafeColl SafeFinal LifeGhost Life.
From RC Require Import Clean CleanFrame CleanStep CleanThm CleanLog CleanProg CleanUFrame.
From RC Require Import CleanWalk CleanWalkRel CleanWalkProg CleanWalkOwner CleanWalkOwner2 CleanWalkOwner3.
From RC Require Quiet CoverStep CoverMain.
Import ListNotations RecordSetNotations.

Section Thm.
  Context (mu : id) (K : conf) (P : prog).

  Theorem V_step rec : rec_ok (Pre5 mu) (Post5 mu) rec ->
    forall c m, Pre5 mu c m -> chkV c m = true -> Post5 mu c m (step K P rec c m).1 (step K P rec c m).2.
  Proof.
    intros Hrec c m HP Hc.
    assert (G : forall X c0 m0, gen_okV mu X -> Pre5 mu c0 m0 -> Post5 mu c0 m0 (X m0).1 (X m0).2)
      by (intros X c0 m0; apply gen_post5).
    destruct c as [self cm|self cs|r v|o|o|o j|o j| | | |k| |L rest any old_f|L rest old_d|k|mo a sc];
      cbn [step].
    - destruct cm; cbn [step_cmd];
        first [ (eapply V_cmd_try_unwrap; eassumption)
              | (apply G; [|exact HP];
                 first [ apply v_cmd_new | apply v_cmd_clone | apply v_cmd_drop | apply v_cmd_move | apply v_cmd_mark_alive
                       | apply v_cmd_collect | apply v_cmd_downgrade | apply v_cmd_upgrade | apply v_cmd_w_new
                       | apply v_cmd_w_clone | apply v_cmd_w_drop | apply v_cmd_drop_value | apply v_cmd_fin_again
                       | apply v_cmd_new_cyclic | apply v_cmd_register | apply v_cmd_clean | apply v_cmd_c_drop
                       | apply v_cmd_bag | apply v_cmd_unbag | apply v_cmd_borrow | apply v_cmd_unborrow
                       | apply v_cmd_cfg_auto | apply v_cmd_cfg_percent | apply v_cmd_cfg_buffered | apply v_cmd_arm
                       | apply v_cmd_panic | apply v_cmd_obs | apply v_cmd_w_obs | apply v_cmd_s_obs ]; try exact Hrec) ].
    - apply G; [apply v_step_script; exact Hrec|exact HP].
    - apply G; [apply v_step_store; exact Hrec|exact HP].
    - apply G; [apply v_step_drop_cc; exact Hrec|exact HP].
    - eapply V_step_drop_value; eassumption.
    - apply G; [apply v_step_drop_fields; exact Hrec|exact HP].
    - apply G; [apply v_step_drop_map_slots; exact Hrec|exact HP].
    - apply G; [apply v_step_trigger; exact Hrec|exact HP].
    - apply G; [apply v_step_collect_cycles; exact Hrec|exact HP].
    - apply G; [apply v_step_collect; exact Hrec|exact HP].
    - apply G; [apply v_step_collect_loop; exact Hrec|exact HP].
    - apply G; [apply v_step_collect_once; exact Hrec|exact HP].
    - apply G; [apply v_step_finalize_list; exact Hrec|exact HP].
    - apply G; [apply v_step_drop_list; exact Hrec|exact HP].
    - apply G; [apply v_step_unbag; exact Hrec|exact HP].
    - apply G; [apply v_step_clean_run; exact Hrec|exact HP].
  Qed.

  Theorem V_nested_inv n : rec_ok (Pre5 mu) (Post5 mu) (mrun K P chkV mu n).
  Proof.
    apply (mrun_ind K P chkV chkV_dl mu (Pre5 mu) (Post5 mu)).
    - apply Post5_vac.
    - intros rec Hrec c m HP Hc. apply (V_step rec Hrec c m HP Hc).
    - apply Post5_fuel.
  Qed.
End Thm.

Section Prog.
  Context (K : conf) (P : prog).
  Hypothesis Hconf : k_clean K = true -> k_weak K = true.
  Hypothesis Hwf : wf_prog P = true.
  Context (fuel : nat).

  Notation mx mu := (fun m0 c => mexec_top K P chkV mu fuel c m0).
  Notation rx := (fun m c => exec_top K P fuel c m).

  Lemma vmexec_top_eq mu c mf :
    exists t, mexec_top K P chkV mu fuel c mf = dl t (exec_top K P fuel c mf) /\
              (mrun K P chkV mu fuel (KCmd None c) mf).2 = (run K P fuel (KCmd None c) mf).2.
  Proof.
    destruct (mrun_eq K P chkV chkV_dl mu fuel (KCmd None c) mf) as (t & _ & E).
    exists t. unfold mexec_top, exec_top. rewrite E.
    destruct (run K P fuel (KCmd None c) mf) as [m1 r]. cbn [fst snd]. split; [|reflexivity].
    destruct r; reflexivity.
  Qed.
  Lemma vclean_mexec mu c mf :
    clean (mexec_top K P chkV mu fuel c mf) = true ->
    clean mf = true /\ okr2 (mrun K P chkV mu fuel (KCmd None c) mf).2 = true.
  Proof.
    destruct (vmexec_top_eq mu c mf) as (t & E & Er). rewrite E, Er.
    change (clean (dl t (exec_top K P fuel c mf))) with (clean (exec_top K P fuel c mf)).
    intros H. destruct (clean_exec_top K P fuel c mf H) as [H1 [H2|H2]]; (split; [exact H1|]);
      unfold snd in *; rewrite H2; reflexivity.
  Qed.
  Lemma vclean_mfold mu cs : forall mf, clean (fold_left (mx mu) cs mf) = true -> clean mf = true.
  Proof.
    induction cs as [|c cs IH]; intros mf H; [exact H|]. cbn [fold_left] in H.
    apply IH in H. apply (vclean_mexec mu c mf H).
  Qed.

  (** no object is [VDropping], every map value is live / destroyed *)
  Definition TopV (h : list vobj2) : Prop := M h /\ forall p w, h !! p = Some w -> w.1 <> VDropping.

  Lemma topv_mexec mu c mf :
    clean (mexec_top K P chkV mu fuel c mf) = true ->
    (mem_id mu (dead mf) = true \/ TopV (vv mf)) ->
    let mf' := mexec_top K P chkV mu fuel c mf in
    mem_id mu (dead mf') = true \/ TopV (vv mf').
  Proof.
    intros Hc HI. destruct (vclean_mexec mu c mf Hc) as [_ Hr].
    assert (HP : Pre5 mu (KCmd None c) mf) by (destruct HI as [HI|[HI _]]; [left; exact HI|right; exact HI]).
    pose proof (V_nested_inv mu K P fuel (KCmd None c) mf HP Hr) as HQ.
    cbv zeta. unfold mexec_top.
    destruct (mrun K P chkV mu fuel (KCmd None c) mf) as [m1 r]. cbn [fst snd] in *.
    destruct r; try discriminate; cvs;
      (destruct HQ as [HQ|(Hg & HR & HM)]; [left; exact HQ|right; split; [exact HM|]];
       destruct HI as [HI|[_ HI]]; [congruence|];
       intros p w Hw Hd; destruct (HR p w Hw Hd) as [He|(w0 & Hw0 & Hd0)]; [discriminate|exact (HI p w0 Hw0 Hd0)]).
  Qed.
  Lemma topv_mfold mu cs : forall mf,
    clean (fold_left (mx mu) cs mf) = true -> (mem_id mu (dead mf) = true \/ TopV (vv mf)) ->
    mem_id mu (dead (fold_left (mx mu) cs mf)) = true \/ TopV (vv (fold_left (mx mu) cs mf)).
  Proof.
    induction cs as [|c cs IH]; intros mf Hc HI; [exact HI|]. cbn [fold_left] in *.
    apply IH; [exact Hc|]. apply topv_mexec; [|exact HI]. apply (vclean_mfold mu cs _ Hc).
  Qed.

  Theorem prog_TopV cmds :
    let m := fold_left rx cmds (init K) in
    clean m = true -> TopV (vv m).
  Proof.
    cbv zeta. intros Hc.
    set (m := fold_left rx cmds (init K)) in *.
    set (mu := S (list_max (dead m) + length (heap m))).
    pose proof (mfold_eq K P Hconf Hwf chkV chkV_dl (chkV_ok K) mu fuel cmds) as HE.
    cbv zeta in HE. fold m in HE. specialize (HE Hc ltac:(unfold mu; lia)).
    pose proof (topv_mfold mu cmds (init K)) as HI. rewrite HE in HI.
    destruct (HI Hc) as [HT|HJ]; [right; split; [exact M_nil|intros p w Hw; destruct p; discriminate]| |exact HJ].
    rewrite mem_id_list_max in HT by (unfold mu; lia). discriminate.
  Qed.

  (** at a top-level state of a clean run the value of a CleanerMap is live or destroyed *)
  Theorem prog_map_state cmds mo x :
    let m := fold_left rx cmds (init K) in
    clean m = true -> get m mo = Some x -> o_ismap x = true -> o_vst x = VLive \/ o_vst x = VDropped.
  Proof.
    cbv zeta. intros Hc Hx Hm. destruct (prog_TopV cmds Hc) as [HM HN].
    pose proof (HM mo _ (vv_lookup _ _ _ Hx) Hm) as Hk. pose proof (HN mo _ (vv_lookup _ _ _ Hx)) as Hn.
    cbn in Hk, Hn. destruct Hk as [H|[H|H]]; auto. contradiction.
  Qed.

  (** ** the owner-level theorem *)
  Theorem prog_owner_all_ran cmds1 cmds2 o mo xo xo' :
    let m1 := fold_left rx cmds1 (init K) in
    let m := fold_left rx (cmds1 ++ cmds2) (init K) in
    CoverStep.rust_ok P (cmds1 ++ cmds2) = true ->
    clean m = true -> no_panic_yet m = true ->
    get m1 o = Some xo -> o_cleaner xo = Some mo ->
    get m o = Some xo' -> o_vst xo' = VDropped -> o_cleaner xo' = None ->
    (exists xm, get m mo = Some xm /\ o_ismap xm = true /\ o_vst xm = VDropped) /\
    unlinked_m m mo /\ all_vacant m mo /\
    forall k a s, slot_at m1 mo k = Some (MAction a s) ->
      count_occ Nat.eq_dec (executed_aids (log m)) a = 1.
  Proof.
    cbv zeta. intros Hrust Hc Hnp Hxo Hcl Hxo' Hv Hcl'.
    destruct (prog_owner_partial K P Hconf Hwf fuel cmds1 cmds2 o mo xo xo' Hc Hnp Hxo Hcl Hxo' Hv Hcl')
      as (xm & Hxm & Hm & Hu & _ & _ & Hlive).
    destruct (CoverMain.cover_programs K P fuel (cmds1 ++ cmds2) Hconf Hwf Hrust Hc Hnp) as [_ HMO].
    destruct (prog_map_state (cmds1 ++ cmds2) mo xm Hc Hxm Hm) as [Hl|Hd]; [exfalso; exact (Hlive HMO Hl)|].
    split; [exists xm; auto|]. split; [exact Hu|].
    split; [exact (prog_dead_map_vacant K P Hconf Hwf fuel (cmds1 ++ cmds2) mo xm Hc Hxm Hm Hd)|].
    exact (prog_dead_map_all_ran K P Hconf Hwf fuel cmds1 cmds2 mo xm Hc Hxm Hm Hd).
  Qed.
End Prog.

Print Assumptions V_nested_inv.
Print Assumptions prog_map_state.
Print Assumptions prog_owner_all_ran.
