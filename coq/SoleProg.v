(** * SoleProg: program-level form of "the last owner's drop reclaims everything it solely owned,
    recursively" ([SoleOwn.last_owner_recursive_closed]): a top-level [drop] of a slot that holds
    the only handle of [o], in any state reached by any well-formed program. *)
From Coq Require Import NArith Bool List Lia.
From stdpp Require Import base list option.
From RecordUpdate Require Import RecordSet.
From RC Require Import Hdr Machine RunInd.
From RC Require BufBase BufStep Buf.
From RC Require Import Inv InvP SafeHelpers SafePrims SafeCalls SafeMain SafeProps SafeColl SafeFinal SafeFinalOwn2.
From RC Require Import C13Prog SoleOwn.
Import ListNotations RecordSetNotations.
Local Open Scope N_scope.

Section Prog.
  Context (K : conf) (P : prog) (fuel : nat) (cmds : list cmd).
  Hypothesis Hconf : k_clean K = true -> k_weak K = true.
  Hypothesis Hwf : wf_prog P = true.
  Let m := fold_left (fun m c => exec_top K P fuel c m) cmds (init K).
  Hypothesis Hcl : clean m = true.

  (** at top level no allocated object is linked in a collector list *)
  Lemma prog_unlinked o x : get m o = Some x -> o_box x = BAlloc -> is_in_list_or_queue (o_hdr x) = false.
  Proof.
    intros Hx Hb. destruct (safe_programs_sinv K P fuel cmds Hconf Hwf Hcl) as (b & _ & _ & _ & HB). fold m in HB.
    destruct (Buf.Ibuf_spec K [] m HB) as (_ & _ & (_ & _ & B3 & B3') & _).
    unfold is_in_list_or_queue. destruct (h_mark (o_hdr x)) eqn:Em; try reflexivity; exfalso.
    - assert (Hin : o ∈ @nil id) by (apply (B3 o x); [split; assumption | exact Em]). inversion Hin.
    - apply (B3' o x Hx Em).
  Qed.

  Theorem prog_last_owner_recursive i o :
    slots m !! i = Some (Some o) -> h_rc (hdr_of m o) = 1 -> k_fin K && needs_fin (hdr_of m o) = false ->
    let m' := exec_top K P fuel (CDrop (LS i)) m in
    clean m' = true -> head (log m') = Some (ERes ROk) ->
    (exists y, get m' o = Some y /\ o_box y = BFreed /\ o_vst y = VDropped) /\
    forall t, SolelyOwned K m o t -> exists y, get m' t = Some y /\ o_box y = BFreed /\ o_vst y = VDropped.
  Proof.
    intros Hs Hrc Hfin. cbv zeta. intros _ Hhd.
    destruct (prog_fuel_pos K P fuel cmds i o Hs) as (n & Hn).
    destruct (prog_slot_facts K P fuel cmds Hconf Hwf Hcl i o Hs) as (b & x & Hnb & HI & _ & Hx & Hb & Hv & _ & Hres & Hrd & _).
    fold m in Hnb, HI, Hx, Hres, Hrd.
    destruct (safe_programs_sinv K P fuel cmds Hconf Hwf Hcl) as (b2 & _ & _ & _ & HB). fold m in HB.
    rewrite (hdr_of_get _ _ _ Hx) in Hrc, Hfin.
    set (m1 := write_loc (RSlot i) None m).
    assert (Hexec : exec_top K P fuel (CDrop (LS i)) m =
              match run K P n (KDropCc o) m1 with
              | (m2, ONormal) => emit (ERes ROk) m2
              | (m2, OPanic) => emit (ERes RPanicked) m2
              | (m2, OAbort) => emit_bad Abort 0 m2
              | (m2, OFuel) => emit_bad Fuel 0 m2
              end).
    { rewrite Hn. unfold exec_top. cbn [run step step_cmd]. unfold cmd_drop. rewrite Hres, Hrd. fold m1.
      destruct (run K P n (KDropCc o) m1) as [m2 r]. destruct r; reflexivity. }
    rewrite Hexec in Hhd |- *. destruct (run K P n (KDropCc o) m1) as [m2 r] eqn:Hrun.
    destruct r; cbn in Hhd; try discriminate.
    (* the pre-conditions of the Cc::drop activation *)
    assert (Hidx : idx_valid m (RSlot i)) by (cbn; eapply lookup_lt_Some; eauto).
    pose proof (Cur_init K b true [] None [] [] m Hnb HI) as C0.
    pose proof (Cur_write_loc K b true [] None m [] [] m (RSlot i) None C0 Hidx ltac:(discriminate)
                  ltac:(intros p j y Ey; discriminate Ey)) as C1.
    rewrite Hrd in C1. cbn [ol app] in C1. fold m1 in C1.
    assert (Hown : own_ok m1 o).
    { intros Hd. destruct (sv_loc _ _ _ _ _ HI None false o (HL_slot m i o Hs)) as (x' & _ & _ & _ & _ & Hd').
      change (inD m1 o) with (inD m o) in Hd. congruence. }
    assert (Hpre : Pre K (PreC K) b [] (KDropCc o) m1).
    { rewrite Pre_nc by reflexivity. cbn [own_of app]. split; [apply C1|]. split; [apply C1 | exact Hown]. }
    assert (HQ : Q K [] (KDropCc o) m1).
    { split.
      - cbn [BufStep.PreA]. apply (BufBase.G_core K [] m m1); [repeat split | right; exact HB].
      - apply (nofuel_log m m1); [reflexivity | apply clean_nofuel, Hcl]. }
    assert (Hlo : LastOwner K m1 o).
    { exists x. split; [exact Hx|]. split; [exact Hrc|]. split; [apply (prog_unlinked o x Hx Hb) | exact Hfin]. }
    destruct (last_owner_recursive_closed K P Hconf Hwf n b [] [] o m1 m2 Hpre HQ Hlo Hrun) as [Ho Hall].
    split; [exact Ho|]. intros t Ht. apply Hall. revert Ht. apply SO_mono. intros s t' _.
    apply (sole_at_heap K m m1 s t'); reflexivity.
  Qed.
End Prog.

Print Assumptions prog_last_owner_recursive.

(** ** Non-vacuity: a parent owning a child owning a grandchild, all freed by one top-level drop *)
Definition spK : conf := Conf false true true true true 48 8 64 8 1000000.
Definition spP : prog := Prog [ Cls 1 [true] 0 false None None; Cls 0 [] 0 false None None ] [] [].
Definition sp_cmds : list cmd :=
  [ CNew (LS 0) 0;          (* object 0: the child, in slot 0 *)
    CNew (LFA 0 0) 1;       (* object 1: the grandchild, in the child's field *)
    CNew (LS 1) 0;          (* object 2: the parent, in slot 1 *)
    CMove (LS 0) (LFA 1 0)  (* the child moves into the parent's field *) ].
Notation sp_m := (fold_left (fun m c => exec_top spK spP 20 c m) sp_cmds (init spK)).

Example sp_sole_child : SolelyOwned spK sp_m 2%nat 0%nat.
Proof.
  apply so_child. unfold sole_at.
  assert (H : exists xt xs, get sp_m 0%nat = Some xt /\ get sp_m 2%nat = Some xs) by (vm_compute; eauto).
  destruct H as (xt & xs & Hxt & Hxs). exists xt, xs. split; [exact Hxt|].
  vm_compute in Hxt, Hxs. injection Hxt as <-. injection Hxs as <-.
  repeat split; try (vm_compute; reflexivity). exists 0%nat. reflexivity.
Qed.

Example sp_sole_grandchild : SolelyOwned spK sp_m 2%nat 1%nat.
Proof.
  apply (so_step spK sp_m 2%nat 0%nat 1%nat sp_sole_child). unfold sole_at.
  assert (H : exists xt xs, get sp_m 1%nat = Some xt /\ get sp_m 0%nat = Some xs) by (vm_compute; eauto).
  destruct H as (xt & xs & Hxt & Hxs). exists xt, xs. split; [exact Hxt|].
  vm_compute in Hxt, Hxs. injection Hxt as <-. injection Hxs as <-.
  repeat split; try (vm_compute; reflexivity). exists 0%nat. reflexivity.
Qed.

(** one top-level [drop s1] frees the parent (2), the child (0) and the grandchild (1): an
    instance of [prog_last_owner_recursive] whose hypotheses are all checked by computation *)
Example sp_all_freed :
  forall t, t ∈ [2; 0; 1]%nat ->
  exists y, get (exec_top spK spP 20 (CDrop (LS 1)) sp_m) t = Some y /\ o_box y = BFreed /\ o_vst y = VDropped.
Proof.
  assert (Hconf : k_clean spK = true -> k_weak spK = true) by reflexivity.
  assert (Hwf : wf_prog spP = true) by reflexivity.
  assert (Hcl : clean sp_m = true) by (vm_compute; reflexivity).
  assert (Hs : slots sp_m !! 1%nat = Some (Some 2%nat)) by (vm_compute; reflexivity).
  assert (Hrc : h_rc (hdr_of sp_m 2%nat) = 1) by (vm_compute; reflexivity).
  assert (Hfin : k_fin spK && needs_fin (hdr_of sp_m 2%nat) = false) by reflexivity.
  assert (Hcl' : clean (exec_top spK spP 20 (CDrop (LS 1)) sp_m) = true) by (vm_compute; reflexivity).
  assert (Hhd : head (log (exec_top spK spP 20 (CDrop (LS 1)) sp_m)) = Some (ERes ROk)) by (vm_compute; reflexivity).
  destruct (prog_last_owner_recursive spK spP 20 sp_cmds Hconf Hwf Hcl 1%nat 2%nat Hs Hrc Hfin Hcl' Hhd) as [Ho Hall].
  intros t Ht. apply elem_of_cons in Ht as [->|Ht]; [exact Ho|].
  apply elem_of_cons in Ht as [->|Ht]; [apply Hall, sp_sole_child|].
  apply elem_of_cons in Ht as [->|Ht]; [apply Hall, sp_sole_grandchild | inversion Ht].
Qed.
Print Assumptions sp_all_freed.
