(** * CoverColl: the coverage invariant and the collector activations.

    - [quiet_pass_posE] / [CoverE_passE]: [Quiet.quiet_pass_pos] / [QuietCover.CoverE_pass]
      generalised to a collection that starts while handles are in flight ([E]): a completed
      tracing pass leaves every allocated live object in the dying set, reachable from the
      program or from an in-flight handle, pinned, or in its list [L].
    - [L_not_mapE]: no CleanerMap is a member of [L].
    - one lemma per collector activation ([step_trigger] ... [step_drop_list]). *)
From Coq Require Import NArith Bool List Lia.
From stdpp Require Import base list option list_numbers.
From RecordUpdate Require Import RecordSet.
From RC Require Import Hdr Machine RunInd.
From RC Require BufBase BufPass BufStep Buf.
From RC Require Pass PassCount PassMain.
From RC Require Import Inv InvP SafeHelpers SafePrims SafeCalls SafeGlue SafeDrop SafeCmd SafeCyclic SafeMain.
From RC Require Import SafeColl SafeCollFr SafeCollHdr SafeCollTop SafeCollPass SafeCollDead SafeCollOnce SafeCollFin
                       SafeCollDrop SafeCollDrop2 SafeCollDrop3.
From RC Require Import Cover Quiet QuietCover CoverStep CoverCmd.
Import ListNotations RecordSetNotations.

Section PassE.
  Context (K : conf) (P : prog).
  Implicit Types (m : machine) (o p t u v : id) (x : obj) (E : list id).

  Lemma exact_countE E m :
    SInv K true E [] m ->
    forall o, Pass.alloc m o ->
      h_rc (hdr_of m o) = (N.of_nat (Pass.in_fields m o) + extc E m o)%N.
  Proof.
    intros HI o (x & Hx & Hb). rewrite (hdr_of_get _ _ _ Hx).
    destruct (okN_alloc K _ _ _ _ _ (sv_obj _ _ _ _ _ HI _ _ Hx) Hb) as (_ & O2 & _).
    rewrite (O2 eq_refl), in_fields_hsum. unfold extc, ext_refs. rewrite refs_unfold. lia.
  Qed.

  Lemma ProgReachE_treach E m u v : Pass.treach P m u v -> ProgReachE E m u -> ProgReachE E m v.
  Proof.
    induction 1 as [|p c _ IH Hc]; [auto|]. intros Hu.
    eapply Reach_step; [apply IH, Hu|]. apply (traced_succ_all P). rewrite <- kids_traced_succ. exact Hc.
  Qed.

  Lemma unpinned_ofE E m u :
    SInv K true E [] m -> BufBase.Ibuf K [] m -> CoverE P E [] [] m ->
    ~ ProgReachE E m u -> ~ Pinned P m u ->
    PassMain.unpinned P m (extc E m) u.
  Proof.
    intros HI HB HC Hnr Hnp. split; [|split].
    - unfold extc, ext_refs.
      destruct (Nat.eq_dec (cnt_opt u (slots m)) 0) as [E1|E1].
      + destruct (Nat.eq_dec (cnt_id u (bag m)) 0) as [E2|E2].
        * destruct (Nat.eq_dec (cnt_id u E) 0) as [E3|E3]; [rewrite E1, E2, E3; reflexivity|].
          exfalso. apply Hnr, Reach_root. right. apply cnt_id_pos. lia.
        * exfalso. apply Hnr, Reach_root. left. apply prog_roots_bag. apply cnt_id_pos. lia.
      + exfalso. apply Hnr, Reach_root. left.
        assert (Hp : (0 < cnt_opt u (slots m))%nat) by lia. apply cnt_opt_pos in Hp as [j Hj].
        eapply prog_roots_slot. exact Hj.
    - intros p x j Hx Hj.
      assert (Hsucc : u ∈ all_succ m p) by (eapply all_succ_field; eauto).
      assert (Hroot : ~ reported P x j -> False).
      { intros Hn. apply Hnp, Reach_root. eapply PR_field; eauto. }
      destruct (o_box x) eqn:Eb; try (exfalso; apply Hroot; intros (? & _); congruence).
      destruct (o_ismap x) eqn:Em; [exfalso; apply Hroot; intros (_ & ? & _); congruence|].
      destruct (o_vst x) eqn:Ev; try (exfalso; apply Hroot; intros (_ & _ & ? & _); congruence).
      destruct (o_borrowed x) eqn:Ebo; [exfalso; apply Hroot; intros (_ & _ & _ & ? & _); congruence|].
      destruct (c_traced (class_of P (o_cls x)) !! j) as [[|]|] eqn:Et;
        try (exfalso; apply Hroot; intros (_ & _ & _ & _ & ?); congruence).
      split; [|auto]. apply Covered_reach.
      destruct (HC p x Hx Eb Ev) as [Hd|[Hn|[Hr|[Hc|Hp]]]].
      + exfalso. apply Hnp. eapply Reach_step; [apply Reach_root, PR_dead, Hd | exact Hsucc].
      + inversion Hn.
      + exfalso. apply Hnr. eapply Reach_step; eauto.
      + apply QuietCoveredA_nil. exact Hc.
      + exfalso. apply Hnp. eapply Reach_step; eauto.
    - intros p x Hx Hc. apply Hnp, Reach_root. eapply PR_cleaner; eauto.
  Qed.

  Theorem quiet_pass_genE E m m0 m' L :
    SInv K true E [] m -> BufBase.Ibuf K [] m -> CoverE P E [] [] m ->
    heap m0 = heap m -> pc m0 = pc m -> pc_size m0 = pc_size m ->
    trace_pass K P m0 = (m', PDone L) ->
    forall v x, get m v = Some x -> o_box x = BAlloc -> o_vst x = VLive -> v ∉ dead m ->
      ~ ProgReachE E m v -> ~ Pinned P m v -> v ∈ L.
  Proof.
    intros HI HB HC Hh Hp Hs Hr v x Hx Hb Hv Hd Hnr Hnp.
    pose proof (PassPre_SInv K P true E m HI HB) as Hpre.
    pose proof (PassMain.PassPre_heap P m m0 _ Hh Hp Hs Hpre) as Hpre0.
    assert (Hex : forall o, Pass.alloc m0 o ->
              h_rc (hdr_of m0 o) = (N.of_nat (Pass.in_fields m0 o) + extc E m o)%N).
    { intros o Ho. rewrite (PassCount.hdr_of_heap m m0 o Hh). unfold Pass.in_fields. rewrite Hh.
      apply (exact_countE E m HI). unfold Pass.alloc, get in *. rewrite <- Hh. exact Ho. }
    apply (PassMain.pass_complete K P m0 _ m' L Hpre0 Hex Hr).
    - apply (PassMain.reach_heap P m m0 v Hh Hp). apply Covered_reach.
      destruct (HC v x Hx Hb Hv) as [?|[Hn|[?|[Hc|?]]]]; [contradiction | inversion Hn | contradiction | | contradiction].
      apply QuietCoveredA_nil. exact Hc.
    - intros u _ Ht. apply (unpinned_heap P m m0 _ u Hh Hp). apply (treach_heap P m m0) in Ht; [|exact Hh].
      apply unpinned_ofE; auto.
      + intros Hu. apply Hnr. eapply ProgReachE_treach; eauto.
      + intros Hu. apply Hnp. eapply Pinned_treach; eauto.
  Qed.

  Lemma ProgReachE_dec E m o : SInv K true E [] m -> {ProgReachE E m o} + {~ ProgReachE E m o}.
  Proof.
    intros HI.
    destruct (QuietReach_dec (all_succ m) (length (heap m)) (prog_roots m ++ E) o) as [H|H].
    - intros p c. apply (all_succ_bound K true E [] m p c HI).
    - intros r Hr. apply elem_of_app in Hr as [Hr|Hr]; [apply (prog_roots_bound K true E [] m r HI Hr)|].
      destruct (sv_E _ _ _ _ _ HI r Hr) as (xt & Hxt & _). eapply lookup_lt_Some, Hxt.
    - left. revert H. apply Reach_mono. intros r Hr. apply elem_of_app in Hr. exact Hr.
    - right. intros H'. apply H. revert H'. apply Reach_mono. intros r Hr. apply elem_of_app. exact Hr.
  Qed.

  Theorem quiet_pass_posE E m m0 m' L :
    SInv K true E [] m -> BufBase.Ibuf K [] m -> CoverE P E [] [] m ->
    heap m0 = heap m -> pc m0 = pc m -> pc_size m0 = pc_size m ->
    trace_pass K P m0 = (m', PDone L) ->
    forall v x, get m v = Some x -> o_box x = BAlloc -> o_vst x = VLive ->
      v ∈ dead m \/ ProgReachE E m v \/ Pinned P m v \/ v ∈ L.
  Proof.
    intros HI HB HC Hh Hp Hs Hr v x Hx Hb Hv.
    destruct (decide (v ∈ dead m)) as [|Hd]; [auto|].
    destruct (ProgReachE_dec E m v HI) as [|Hnr]; [auto|].
    destruct (Pinned_dec K P true E [] m v HI) as [|Hnp]; [auto|].
    right; right; right. eapply (quiet_pass_genE E m m0 m' L); eauto.
  Qed.

  (** a completed tracing pass: survivors are reachable from the program or an in-flight handle,
      or pinned; members are covered by the list *)
  Theorem CoverE_passE E m m0 m' L :
    SInv K true E [] m -> BufBase.Ibuf K [] m -> CoverE P E [] [] m ->
    heap m0 = heap m -> pc m0 = pc m -> pc_size m0 = pc_size m ->
    slots m0 = slots m -> bag m0 = bag m -> values m0 = values m -> dead m0 = dead m ->
    trace_pass K P m0 = (m', PDone L) ->
    CoverE P E L [] m' /\ gsim m m'.
  Proof.
    intros HI HB HC Hh Hp Hs Hsl Hbg Hvl Hd Hr.
    assert (Hg : gsim m m').
    { pose proof (mframe_gsim K m0 m' (Pass.pass_frame K P _ _ _ Hr)) as (G1 & G2 & G3 & G4 & G5).
      split; [rewrite <- Hh; exact G1|]. rewrite G2, G3, G4, G5. auto. }
    split; [|exact Hg]. intros o y Hy Hb Hv.
    destruct (gsim_get_r m m' o y Hg Hy) as (x & Hx & Hsim).
    pose proof (Pass.obj_sim_fields _ _ Hsim) as (_&Ev&Eb&_).
    destruct (quiet_pass_posE E m m0 m' L HI HB HC Hh Hp Hs Hr o x Hx ltac:(congruence) ltac:(congruence))
      as [H|[H|[H|H]]].
    - left. destruct Hg as (_&_&_&_&Hd'). rewrite Hd'. exact H.
    - right; right; left. eapply gsim_ProgReachE; eauto.
    - right; right; right; right. eapply gsim_Pinned; eauto.
    - right; right; right; left. apply Reach_root. right. exact H.
  Qed.
End PassE.

Section Coll.
  Context (K : conf) (P : prog).
  Context (rec : call -> machine -> machine * outcome).
  Hypothesis HrecQ : forall b E A c m,
    Pre K (PreC K) b E c m -> Q K A c m -> Post K (PostC K) b E c m (rec c m).1 (rec c m).2.
  Hypothesis Hbuf : BufStep.rok K rec.
  Hypothesis Hnf : nfspec rec.
  Hypothesis Hrec2 : forall E A c m,
    Pre K (PreC K) true E c m -> Q K A c m -> CvPre P E A c m -> (rec c m).2 = ONormal -> CvPost P E A c (rec c m).1.
  Implicit Types (m : machine) (o g : id) (x : obj) (E A L : list id).

  Notation Cv := (Cv P).
  Notation CvPre := (CvPre P).
  Notation CvPost := (CvPost P).

  Lemma rec_allc E A c m m' :
    Pre K (PreC K) true E c m -> BufStep.PreA K A c m -> nofuel m -> CvPre E A c m -> rec c m = (m', ONormal) ->
    Post K (PostC K) true E c m m' ONormal /\ BufBase.frame m m' /\ BufStep.goalA K A c m' /\ nofuel m' /\ CvPost E A c m'.
  Proof.
    intros HP HA Hn V Hr.
    destruct (rec_all K rec HrecQ Hbuf Hnf true E A c m HP HA Hn) as (H1 & F & G).
    pose proof (Hrec2 E A c m HP (conj HA Hn) V) as H2.
    rewrite Hr in H1, F, G, H2. cbn [fst snd] in *. destruct (G ltac:(discriminate)) as [G1 G2].
    split; [exact H1|]. split; [exact F|]. split; [exact G1|]. split; [exact G2|]. apply H2. reflexivity.
  Qed.

  (** *** KCollectLoop *)
  Lemma cv_step_collect_loop E A k m :
    PreC K true E (KCollectLoop k) m -> CvPre E A (KCollectLoop k) m ->
    (step_collect_loop rec k m).2 = ONormal -> CvPost E A (KCollectLoop k) (step_collect_loop rec k m).1.
  Proof.
    intros (Hnb & HI & Hc & HB & Hn) [V _]. unfold step_collect_loop.
    destruct k as [|k']; [intros _; exact V|]. destruct (pc m) as [|p0 rest] eqn:Hpc; [intros _; exact V|].
    destruct (rec KCollectOnce m) as [m1 r1] eqn:Hc1. destruct r1; try (cbn [fst snd]; discriminate).
    destruct (rec_allc E [] KCollectOnce m m1) as (HP1 & F1 & HG1 & Hn1 & V1); auto.
    { exact (conj Hnb (conj HI (conj Hc (conj HB Hn)))). }
    { cbn. split; [right; exact HB | exact Hc]. }
    { split; [exact V | exact I]. }
    destruct HP1 as (Hnb1 & HI1 & HF1 & HD1 & _).
    pose proof (G_Ibuf K [] m1 HG1 Hnb1 Hn1) as HB1.
    assert (Hc1' : st_collecting m1 = true) by (rewrite (BufBase.fr_coll _ _ F1); exact Hc).
    destruct (rec (KCollectLoop k') m1) as [m2 r2] eqn:Hc2. cbn [fst snd]. intros ->.
    destruct (rec_allc E [] (KCollectLoop k') m1 m2) as (_ & _ & _ & _ & V2); auto.
    { exact (conj Hnb1 (conj HI1 (conj Hc1' (conj HB1 Hn1)))). }
    { cbn. split; [right; exact HB1 | exact Hc1']. }
    { split; [exact V1 | exact I]. }
  Qed.

  (** *** KCollect *)
  Lemma cv_step_collect E A m :
    PreC K true E KCollect m -> BufStep.PreA K A KCollect m -> CvPre E A KCollect m ->
    (step_collect K rec m).2 = ONormal -> CvPost E A KCollect (step_collect K rec m).1.
  Proof.
    intros (Hnb & HI & Hc & HB & Hn) [HG _] [V _]. unfold step_collect.
    assert (HA : A = []).
    { pose proof (G_Ibuf K A m HG Hnb Hn) as (_ & HAc & _). destruct A as [|a A']; [reflexivity|].
      rewrite HAc in Hc by discriminate. discriminate. }
    subst A.
    set (m1 := m <| st_collecting := true |> <| st_exec ::= N.succ |>).
    set (n := if k_fin K then 10%nat else 1%nat).
    assert (HI1 : SInv K true E [] m1) by (eapply SInv_same; eauto; reflexivity).
    assert (HB1 : BufBase.Ibuf K [] m1) by (eapply Ibuf_nil_same; [..|exact HB]; reflexivity).
    assert (V1 : Cv E [] [] m1) by (eapply Cv_same; [..|exact V]; reflexivity).
    destruct (rec (KCollectLoop n) m1) as [m2 r] eqn:Hc1. destruct r; try (cbn [fst snd]; discriminate). intros _.
    destruct (rec_allc E [] (KCollectLoop n) m1 m2) as (_ & _ & _ & _ & V2); auto.
    { exact (conj Hnb (conj HI1 (conj eq_refl (conj HB1 Hn)))). }
    { cbn. split; [right; exact HB1 | reflexivity]. }
    { split; [exact V1 | exact I]. }
    cbn [fst]. eapply Cv_same; [..|exact V2]; reflexivity.
  Qed.

  (** *** KTrigger, KCollectCycles *)
  Lemma cv_collect_then_adjust E A c m :
    (c = KTrigger \/ c = KCollectCycles) ->
    NoBad m -> SInv K true E [] m -> BufBase.G K A m -> nofuel m -> st_collecting m = false -> Cv E A [] m ->
    (let '(m1, r) := rec KCollect m in
     match r with ONormal => (adjust_trigger_point K m1, ONormal) | _ => (m1, r) end).2 = ONormal ->
    Cv E A [] (let '(m1, r) := rec KCollect m in
               match r with ONormal => (adjust_trigger_point K m1, ONormal) | _ => (m1, r) end).1.
  Proof.
    intros Hcc Hnb HI HG Hn Hc V.
    pose proof (G_Ibuf K [] m (BufStep.G_idle K A m HG Hc) Hnb Hn) as HB.
    destruct (rec KCollect m) as [m1 r] eqn:Hc1. destruct r; try (cbn [fst snd]; discriminate). intros _.
    destruct (rec_allc E A KCollect m m1) as (_ & _ & _ & _ & V1); auto.
    { exact (conj Hnb (conj HI (conj Hc (conj HB Hn)))). }
    { cbn. split; assumption. }
    { split; [exact V | exact I]. }
    cbn [fst]. eapply Cv_nsimp0; [apply nsimp_adjust | exact V1].
  Qed.

  Lemma cv_step_trigger E A m :
    Pre K (PreC K) true E KTrigger m -> Q K A KTrigger m -> CvPre E A KTrigger m ->
    (step_trigger K rec m).2 = ONormal -> CvPost E A KTrigger (step_trigger K rec m).1.
  Proof.
    rewrite Pre_nc by reflexivity. cbn [own_of app]. intros (Hnb & HI & _) [HG Hn] [V _]. cbn in HG.
    unfold step_trigger. destruct (st_collecting m) eqn:Hc; [intros _; exact V|].
    destruct (negb (pc_alive m)); [intros _; exact V|].
    destruct (should_collect m); [|intros _; exact V].
    apply (cv_collect_then_adjust E A KTrigger m); auto.
  Qed.

  Lemma cv_step_collect_cycles E A m :
    Pre K (PreC K) true E KCollectCycles m -> Q K A KCollectCycles m -> CvPre E A KCollectCycles m ->
    (step_collect_cycles K rec m).2 = ONormal -> CvPost E A KCollectCycles (step_collect_cycles K rec m).1.
  Proof.
    rewrite Pre_nc by reflexivity. cbn [own_of app]. intros (Hnb & HI & _) [HG Hn] [V _]. cbn in HG.
    unfold step_collect_cycles. destruct (st_collecting m) eqn:Hc; [intros _; exact V|].
    rewrite (sv_alive _ _ _ _ _ HI).
    apply (cv_collect_then_adjust E A KCollectCycles m); auto.
  Qed.

  (** *** KCollectOnce *)
  (** no CleanerMap is a member of the list computed by the pass *)
  Lemma L_not_mapE E mc mp L :
    SInv K true E [] mc -> BufBase.Ibuf K [] mc -> MO [] [] mc ->
    trace_pass K P (mc <| st_finalizing := false |> <| st_dropping := false |>) = (mp, PDone L) ->
    forall g x, g ∈ L -> get mc g = Some x -> o_box x = BAlloc -> o_vst x = VLive -> o_ismap x = false.
  Proof.
    intros HI HB [HMO _] Hr g x Hg Hx Hb Hv. destruct (o_ismap x) eqn:Em; [exfalso|reflexivity].
    pose proof (ap_pre K P true E mc HI HB) as Hpre.
    destruct (PassMain.pass_closed K P _ _ mp L Hpre Hr g Hg) as (Hext & _ & Hcl).
    assert (Hrefs : refs mc g = 0%nat).
    { destruct (Nat.eq_dec (refs mc g) 0) as [|Hne]; [assumption|exfalso].
      destruct (refs_pos_hloc mc g ltac:(lia)) as (h & c & Hl).
      pose proof (sv_loc _ _ _ _ _ HI _ _ _ Hl) as (xt & Hxt & _ & Hnm & _).
      assert (xt = x) by congruence. subst xt.
      destruct Hl as [i t Hs|t Hbg|p xp j t Hp Hj|p xp t Hp Hc].
      - specialize (Hnm eq_refl). congruence.
      - specialize (Hnm eq_refl). congruence.
      - specialize (Hnm eq_refl). congruence.
      - exact (Hcl p xp Hp Hc). }
    destruct (okN_alloc K _ _ _ _ _ (sv_obj _ _ _ _ _ HI _ _ Hx) Hb) as (_ & O2 & _).
    specialize (O2 eq_refl). rewrite Hrefs in O2. unfold extc in Hext.
    apply (HMO g x Hx Em (conj Hb Hv)); [apply not_elem_of_nil|]. rewrite O2. lia.
  Qed.

  Lemma cv_step_collect_once E A m :
    PreC K true E KCollectOnce m -> CvPre E A KCollectOnce m ->
    (step_collect_once K P rec m).2 = ONormal -> CvPost E A KCollectOnce (step_collect_once K P rec m).1.
  Proof.
    intros (Hnb & HI & Hc & HB & Hn) [[V1 V2] _]. unfold step_collect_once.
    destruct (trace_pass K P (m <| st_finalizing := false |> <| st_dropping := false |>)) as [m1 pr] eqn:Hr.
    cbv zeta.
    change (m1 <| st_finalizing := st_finalizing m |> <| st_dropping := st_dropping m |>) with (restore m m1).
    set (m2 := restore m m1).
    pose proof (ap_rest K P m m1 pr Hr) as (R1 & R2 & R3 & R4 & R5 & R6 & R7 & R8 & R9 & R10 & R11 & R12).
    fold m2 in R1, R2, R3, R4, R5, R6, R7, R8, R9, R10, R11, R12.
    pose proof (ap_nobad K P true E m HI HB Hnb Hn m1 pr Hr) as [Hnb2 Hn2]. fold m2 in Hnb2, Hn2.
    pose proof (ap_buf K P true E m HI HB Hnb Hn Hc m1 pr Hr) as HB2. fold m2 in HB2.
    assert (Hc2 : st_collecting m2 = true) by (etransitivity; [exact R9 | exact Hc]).
    destruct pr as [L| |]; [|intros Hn'; destruct (raise_not_normal _ Hn')|cbn [fst snd]; discriminate].
    destruct (ap_done K P true E m HI HB m1 (PDone L) Hr L eq_refl) as (Hnd & Hpc & HM & HCl). fold m2 in Hpc, HM, HCl.
    assert (HI2 : SInv K true E [] m2).
    { apply (ap_sinv K P true E m HI HB m1 (PDone L) Hr). fold m2. rewrite Hpc. intros t Ht. inversion Ht. }
    (* the coverage invariant after the pass *)
    assert (HW : CoverE P E L [] m1 /\ gsim m m1).
    { match type of Hr with trace_pass _ _ ?M = _ =>
        exact (CoverE_passE K P E m M m1 L HI HB V1 eq_refl eq_refl eq_refl eq_refl eq_refl eq_refl eq_refl Hr) end. }
    destruct HW as [W1 Hg].
    assert (W2 : MO [] L m1).
    { pose proof (MO_nsim0 P [] [] m m1 (nsim_gsim P [] m m1 Hg) V2) as [M1 _]. split; [exact M1|].
      intros g Hg'. destruct (HM g Hg') as (y & Hy & Hby & Hvy & _). change (get m2 g) with (get m1 g) in Hy.
      exists y. split; [exact Hy|].
      destruct (gsim_get_r m m1 g y Hg Hy) as (x & Hx & Hs).
      pose proof (Pass.obj_sim_fields _ _ Hs) as (_&Ev&Eb&_&_&Em&_). rewrite Em.
      apply (L_not_mapE E m m1 L HI HB V2 Hr g x Hg' Hx); congruence. }
    assert (W : Cv E L [] m2) by (eapply Cv_same; [..|exact (conj W1 W2)]; reflexivity).
    destruct L as [|g0 L0]; [intros _; exact W|].
    set (L := g0 :: L0) in *.
    destruct (k_fin K) eqn:Hfin.
    - set (m3 := m2 <| st_finalizing := true |>).
      destruct (rec (KFinalizeList L L false (st_finalizing m2)) m3) as [m' r] eqn:Hc3. cbn [fst snd]. intros ->.
      destruct (rec_allc E L (KFinalizeList L L false (st_finalizing m2)) m3 m') as (_ & _ & _ & _ & V'); auto.
      { cbn. split; [|split; [exact Hnd|split; [exists []; reflexivity|split]]].
        - split; [exact Hnb2|]. split; [eapply SInv_same; eauto; reflexivity|]. split; [exact Hc2|].
          split; [eapply Ibuf_same; [..|exact HB2]; reflexivity | exact Hn2].
        - intros g Hg'. eapply Member_same; [| |apply HM, Hg']; reflexivity.
        - intros _. destruct HCl as [HE HC]. split; [exact HE|]. eapply DeadClosed_same; [..|exact HC]; reflexivity. }
      { cbn. split; [right; eapply Ibuf_same; [..|exact HB2]; reflexivity | exact Hc2]. }
      { split; [|exact I]. eapply Cv_same; [..|exact W]; reflexivity. }
    - change (m2 <| st_dropping := true |> <| dead ::= app L |>) with (enter L m2).
      destruct (enter_facts K true E L m2 HI2 HM HCl) as (HDM & HDC & HTI).
      destruct (rec (KDropList L L (st_dropping m2)) (enter L m2)) as [m' r] eqn:Hc3. cbn [fst snd]. intros ->.
      destruct (rec_allc E L (KDropList L L (st_dropping m2)) (enter L m2) m') as (_ & _ & _ & _ & V'); auto.
      { cbn. split; [|split; [exact Hnd|split; [exists []; reflexivity|split; [exact HDM|split; [exact HDC|exact HTI]]]]].
        split; [exact Hnb2|]. split; [apply SInv_enter_dead; assumption|]. split; [exact Hc2|].
        split; [eapply Ibuf_same; [..|exact HB2]; reflexivity | exact Hn2]. }
      { cbn. split; [right; eapply Ibuf_same; [..|exact HB2]; reflexivity | exact Hc2]. }
      { split; [|exact I]. destruct W as [Wa Wb]. split.
        - eapply CoverE_more; [| |apply (CoverE_enter_dead P E [] L m2 Wa)]; [auto | intros r Hr'; inversion Hr'].
        - eapply MO_heap; [|exact Wb]. reflexivity. }
  Qed.

  (** *** KFinalizeList *)
  Hypothesis Hrust : forallb rust_script (p_scripts P) = true.

  Lemma cv_drop_pass_call E L m :
    NoBad m -> SInv K true E [] m -> st_collecting m = true -> BufBase.Ibuf K L m -> nofuel m ->
    NoDup L -> (forall g, g ∈ L -> Member m g) -> ClosedL L E m -> Cv E L [] m ->
    (rec (KDropList L L (st_dropping m)) (enter L m)).2 = ONormal ->
    Cv E [] [] (rec (KDropList L L (st_dropping m)) (enter L m)).1.
  Proof.
    intros Hnb HI Hc HB Hn Hnd HM HCl [Wa Wb].
    destruct (enter_facts K true E L m HI HM HCl) as (HDM & HDC & HTI).
    destruct (rec (KDropList L L (st_dropping m)) (enter L m)) as [m' r] eqn:Hc3. cbn [fst snd]. intros ->.
    destruct (rec_allc E L (KDropList L L (st_dropping m)) (enter L m) m') as (_ & _ & _ & _ & V'); auto.
    { cbn. split; [|split; [exact Hnd|split; [exists []; reflexivity|split; [exact HDM|split; [exact HDC|exact HTI]]]]].
      split; [exact Hnb|]. split; [apply SInv_enter_dead; assumption|]. split; [exact Hc|].
      split; [eapply Ibuf_same; [..|exact HB]; reflexivity | exact Hn]. }
    { cbn. split; [right; eapply Ibuf_same; [..|exact HB]; reflexivity | exact Hc]. }
    { split; [|exact I]. split.
      - eapply CoverE_more; [| |apply (CoverE_enter_dead P E [] L m Wa)]; [auto | intros r Hr'; inversion Hr'].
      - eapply MO_heap; [|exact Wb]. reflexivity. }
  Qed.

  Lemma cv_step_finalize_list E A L rest any old_f m :
    PreC K true E (KFinalizeList L rest any old_f) m -> CvPre E A (KFinalizeList L rest any old_f) m ->
    (step_finalize_list K P rec L rest any old_f m).2 = ONormal ->
    CvPost E A (KFinalizeList L rest any old_f) (step_finalize_list K P rec L rest any old_f m).1.
  Proof.
    intros ((Hnb & HI & Hc & HB & Hn) & Hnd & HLd & HM & HCl) [V _]. unfold step_finalize_list.
    change (Cv E L [] m) in V. unfold CvPost. cbn [postA].
    destruct rest as [|g rest'].
    - set (m1 := m <| st_finalizing := old_f |>).
      assert (HI1 : SInv K true E [] m1) by (eapply SInv_same; eauto; reflexivity).
      assert (HM1 : forall g, g ∈ L -> Member m1 g) by (intros g Hg; eapply Member_same; [| |apply HM, Hg]; reflexivity).
      assert (V1 : Cv E L [] m1) by (eapply Cv_same; [..|exact V]; reflexivity).
      destruct any; cbn [negb].
      + intros _. cbn [fst]. destruct V1 as [Wa Wb]. split; [apply (CoverE_rebuffer K P E [] L m1 Wa)|].
        set (m2 := fold_left (fun m g => uhdr g (fun h => set_mark PC (reset_tc h)) m) L m1).
        assert (Hg : gsim m1 (m2 <| pc ::= fun old => L ++ old |> <| pc_size ::= fun s => (N.of_nat (length L) + s)%N |>)).
        { apply (mframe_gsim K). eapply Pass.mframe_trans.
          - apply (mframe_fold_uhdr K (fun h => set_mark PC (reset_tc h)) L). intros h. repeat split.
          - fold m2. eapply Pass.mframe_trans; [apply (mframe_pc_f K (fun old => L ++ old))|]. apply (mframe_pc_size K). }
        eapply MO_mono; [| |apply (MO_nsim0 P [] L m1 _ (nsim_gsim P [] m1 _ Hg) Wb)]; [auto | intros r Hr; inversion Hr].
      + assert (HCl1 : ClosedL L E m1).
        { destruct (HCl eq_refl) as [HE HC]. split; [exact HE|]. eapply DeadClosed_same; [..|exact HC]; reflexivity. }
        change (st_dropping m) with (st_dropping m1).
        change (m1 <| st_dropping := true |> <| dead ::= app L |>) with (enter L m1).
        apply (cv_drop_pass_call E L m1 Hnb HI1 Hc (Ibuf_same K L m m1 eq_refl eq_refl eq_refl eq_refl eq_refl eq_refl eq_refl HB) Hn Hnd HM1 HCl1 V1).
    - assert (Hg : g ∈ L).
      { destruct HLd as (done & ->). apply elem_of_app. right. left. }
      destruct (HM g Hg) as (x & Hx & Hbx & Hvx & Hix & Hmk).
      rewrite (hdr_of_get _ _ _ Hx).
      assert (Hcont : forall mc, Cur K true true E None m E [] mc -> st_collecting mc = true -> BufBase.Ibuf K L mc -> nofuel mc ->
                (forall g', g' ∈ L -> Member mc g') -> Cv E L [] mc ->
                (rec (KFinalizeList L rest' true old_f) mc).2 = ONormal ->
                Cv E [] [] (rec (KFinalizeList L rest' true old_f) mc).1).
      { intros mc C Hcc HBc Hnc HMc Vc. destruct HLd as (done & HL).
        destruct (rec (KFinalizeList L rest' true old_f) mc) as [m' r] eqn:Hcr. cbn [fst snd]. intros ->.
        destruct (rec_allc E L (KFinalizeList L rest' true old_f) mc m') as (_ & _ & _ & _ & V'); auto.
        { cbn. split; [|split; [exact Hnd|split; [|split; [exact HMc | discriminate]]]].
          - split; [apply C|]. split; [apply C|]. split; [exact Hcc|]. split; [exact HBc | exact Hnc].
          - exists (done ++ [g]). rewrite <- app_assoc. exact HL. }
        { cbn. split; [right; exact HBc | exact Hcc]. }
        { split; [exact Vc | exact I]. } }
      destruct (needs_fin (o_hdr x)) eqn:Hnfin.
      + pose proof (Cur_init K true true E None E [] m Hnb HI) as C0.
        assert (C1 : Cur K true true E None m E [] (uhdr g (set_fin true) m)).
        { apply (Cur_uhdr_same K true true E None m E [] m g (set_fin true) x C0 Hx Hbx). intros h. repeat split. }
        assert (V1 : Cv E L [] (uhdr g (set_fin true) m)) by (eapply Cv_nsimp0; [apply nsimp_uhdr_rc; reflexivity | exact V]).
        set (m1 := uhdr g (set_fin true) m) in *.
        set (x1 := x <| o_hdr ::= set_fin true |>).
        assert (Hx1 : get m1 g = Some x1) by (apply get_upd_eq, Hx).
        assert (M1 : BufBase.mild K m m1).
        { apply BufBase.mild_uhdr; intros h; [reflexivity | intros Ht; exact Ht]. }
        assert (HM1 : forall g', g' ∈ L -> Member m1 g').
        { intros g' Hg'. eapply (Member_get m m1 g'); [| reflexivity | apply HM, Hg'].
          intros y Hy. unfold m1, uhdr. rewrite get_upd. destruct (decide (g = g')) as [->|].
          - rewrite Hy. cbn. eexists. split; [reflexivity|]. auto.
          - exists y. auto. }
        assert (Hn1 : nofuel m1) by exact Hn.
        assert (Hc1 : st_collecting m1 = true) by exact Hc.
        assert (HB1 : BufBase.Ibuf K L m1) by (eapply Ibuf_mild; eauto; apply C1).
        unfold is_map. fold m1. rewrite Hx1. change (o_ismap x1) with (o_ismap x).
        destruct (o_ismap x) eqn:Hmap.
        * apply (Hcont m1 C1 Hc1 HB1 Hn1 HM1 V1).
        * set (m2 := emit (ECb KFin g (cur_flags K m1)) m1).
          pose proof (Cur_tick K _ _ _ _ _ _ _ _ KFin (Cur_emit K _ _ _ _ _ _ _ _ (ECb KFin g (cur_flags K m1)) C1 eq_refl)) as C3.
          fold m2 in C3.
          assert (V3 : Cv E L [] (tick KFin m2).1).
          { eapply Cv_nsimp0; [|exact V1]. eapply nsimp_trans; [apply (nsimp_emit P [] (ECb KFin g (cur_flags K m1)) m1) | apply nsimp_tick]. }
          assert (M3 : BufBase.mild K m (tick KFin m2).1).
          { eapply BufBase.mild_trans; [exact M1|]. eapply BufBase.mild_trans; [apply (BufBase.mild_emit K (ECb KFin g (cur_flags K m1)) m1); reflexivity | apply BufBase.mild_tick]. }
          assert (Hn3 : nofuel (tick KFin m2).1).
          { eapply nofuel_log; [apply SafeCollFin.log_tick|]. apply nofuel_emit; [reflexivity | exact Hn1]. }
          assert (Hc3 : st_collecting (tick KFin m2).1 = true) by (rewrite coll_tick; exact Hc).
          assert (Hg3 : forall o, get (tick KFin m2).1 o = get m1 o) by (intros o; rewrite SafeCollFin.get_tick; reflexivity).
          assert (Hd3 : dead (tick KFin m2).1 = dead m) by (rewrite dead_tick; reflexivity).
          destruct (tick KFin m2) as [m3 boom]. cbn [fst snd] in *.
          assert (HB3 : BufBase.Ibuf K L m3) by (eapply Ibuf_mild; eauto; apply C3).
          assert (HM3 : forall g', g' ∈ L -> Member m3 g').
          { intros g' Hg'. eapply (Member_get m1 m3 g'); [| exact Hd3 | apply HM1, Hg']. intros y Hy. rewrite Hg3. exists y. auto. }
          destruct boom; [unfold raise; destruct (panicking m3); cbn [fst snd]; discriminate|].
          rewrite Hg3, Hx1.
          set (script := oscript P (c_fin (class_of P (o_cls x1)))).
          destruct (rec (KScript (Some g) script) m3) as [m4 r4] eqn:Hc4.
          destruct r4; try (cbn [fst snd]; discriminate).
          destruct (rec_allc E L (KScript (Some g) script) m3 m4) as (HP & F4 & HG4 & Hn4 & V4); auto.
          { rewrite Pre_nc by reflexivity. cbn [own_of app]. split; [apply C3|]. split; [apply C3|].
            left. exists x1. rewrite Hg3. split; [exact Hx1|]. split; [exact Hbx|]. split; [exact Hvx|].
            split; [rewrite (inD_eq m m3 g Hd3); exact Hix|]. split; [exact Hmap|].
            right. split; [|exact Hc3]. unfold marked, is_in_list_or_queue. cbn. rewrite Hmk. reflexivity. }
          { cbn. right. exact HB3. }
          { split; [exact V3 | apply (oscript_rust P Hrust)]. }
          destruct (Cur_call_n K (PostC K) (KScript (Some g) script) _ _ _ _ _ _ _ _ _ eq_refl C3 HP (fun o => le_n _) (or_introl eq_refl)) as [C4 _].
          cbn in HG4.
          assert (HF4 : Fr K E None m3 m4) by (rewrite Post_nc in HP by reflexivity; apply HP).
          assert (Hc4' : st_collecting m4 = true) by (rewrite (fr_coll _ _ _ _ _ HF4); exact Hc3).
          apply (Hcont m4 C4 Hc4').
          -- apply G_Ibuf; [exact HG4 | apply C4 | exact Hn4].
          -- exact Hn4.
          -- intros g' Hg'. eapply Member_fr; [exact HF4 | discriminate | exact Hc3 | apply HM3, Hg'].
          -- exact V4.
      + destruct HLd as (done & HL).
        destruct (rec (KFinalizeList L rest' any old_f) m) as [m' r] eqn:Hcr. cbn [fst snd]. intros ->.
        destruct (rec_allc E L (KFinalizeList L rest' any old_f) m m') as (_ & _ & _ & _ & V'); auto.
        { cbn. split; [|split; [exact Hnd|split; [|split; [exact HM | exact HCl]]]].
          - exact (conj Hnb (conj HI (conj Hc (conj HB Hn)))).
          - exists (done ++ [g]). rewrite <- app_assoc. exact HL. }
        { cbn. split; [right; exact HB | exact Hc]. }
        { split; [exact V | exact I]. }
  Qed.

  (** *** KDropList *)
  Lemma nsimp_fold_free Xs L : forall m, nsimp P Xs m (fold_left (fun m g => dealloc K g (drop_metadata K g m)) L m).
  Proof.
    induction L as [|g L IH]; intros m; [apply nsimp_refl|]. cbn [fold_left].
    eapply nsimp_trans; [|apply IH]. eapply nsimp_trans; [apply nsimp_drop_metadata | apply nsimp_dealloc].
  Qed.

  Lemma cv_step_drop_list E A L rest old_d m :
    PreC K true E (KDropList L rest old_d) m -> CvPre E A (KDropList L rest old_d) m ->
    (step_drop_list K rec L rest old_d m).2 = ONormal ->
    CvPost E A (KDropList L rest old_d) (step_drop_list K rec L rest old_d m).1.
  Proof.
    intros Hpre [V _]. unfold step_drop_list. change (Cv E L [] m) in V. unfold CvPost. cbn [postA].
    destruct rest as [|g rest'].
    - intros _. cbn [fst]. destruct Hpre as ((Hnb & HI & Hc & HB & Hn) & Hnd & _ & HDM & HC & _).
      set (m' := fold_left (fun m g => dealloc K g (drop_metadata K g m)) L m <| st_dropping := old_d |>).
      assert (N : nsimp P [] m m').
      { eapply nsimp_trans; [apply nsimp_fold_free|]. apply nsimp_same; reflexivity. }
      destruct (Cv_nsimp0 P E L [] m m' N V) as [W1 W2]. split.
      + apply (CoverE_reroot P E E L [] m'); [intros r Hr; left; apply Cl_E, Hr | | exact W1].
        intros r Hr. left. apply Cl_pin, PR_dead. rewrite (ns_dead _ _ _ _ (proj1 N)).
        destruct (HDM r Hr) as (_ & Hi & _). apply mem_id_elem. exact Hi.
      + eapply MO_mono; [| |exact W2]; [auto | intros r Hr; inversion Hr].
    - pose proof Hpre as ((Hnb & HI & Hc & HB & Hn) & Hnd & (done & HLd) & HDM & HC & HT).
      assert (Hg : g ∈ L) by (rewrite HLd; apply elem_of_app; right; left).
      destruct (HDM g Hg) as (Hcg & Hig & x & Hx & Hbx & Hmk & Hvx). rewrite decide_True in Hvx by left.
      rewrite (hdr_of_get _ _ _ Hx). unfold is_in_list. rewrite Hmk. cbn [mark_eqb]. cbv zeta.
      pose proof (Cur_init K true true E None E [] m Hnb HI) as C0.
      set (ma := if k_weak K then uhdr g set_dropped m else m).
      set (xa := if k_weak K then x <| o_hdr ::= set_dropped |> else x).
      assert (Ca : Cur K true true E None m E [] ma).
      { unfold ma. destruct (k_weak K) eqn:Hk; [|exact C0].
        apply (Cur_set_dropped K true true E None m E [] m g x C0 Hx Hbx Hvx Hk). right. exact Hig. }
      assert (Va : Cv E L [] ma).
      { unfold ma. destruct (k_weak K); [|exact V]. eapply Cv_nsimp0; [apply nsimp_uhdr_rc; reflexivity | exact V]. }
      assert (Hxa : get ma g = Some xa).
      { unfold ma, xa. destruct (k_weak K); [apply get_upd_eq, Hx | exact Hx]. }
      assert (HBa : BufBase.Ibuf K L ma).
      { unfold ma in *. destruct (k_weak K) eqn:Hk; [|exact HB].
        eapply (Ibuf_mild K L m); [|exact HB|apply Ca|exact Hn].
        apply BufBase.mild_uhdr_notpc; [intros h; reflexivity|]. right. intros y Hy. assert (y = x) by congruence. subst y. congruence. }
      assert (Hca : st_collecting ma = true) by (unfold ma; destruct (k_weak K); exact Hc).
      assert (Hna : nofuel ma) by (unfold ma; destruct (k_weak K); exact Hn).
      assert (Hda : dead ma = dead m) by (unfold ma; destruct (k_weak K); reflexivity).
      assert (Hfs : fsim x xa).
      { unfold xa. destruct (k_weak K); [exists (set_dropped (o_hdr x)) | exists (o_hdr x)]; destruct x; reflexivity. }
      assert (Hmka : h_mark (o_hdr xa) = IL) by (unfold xa; destruct (k_weak K); exact Hmk).
      assert (Hdra : k_weak K = true -> is_dropped (o_hdr xa) = true) by (unfold xa; intros Hk; rewrite Hk; reflexivity).
      assert (Hoth : forall o, o <> g -> get ma o = get m o).
      { intros o Hne. unfold ma. destruct (k_weak K); [|reflexivity]. unfold uhdr. apply get_upd_ne. congruence. }
      assert (Hsl : slots ma = slots m) by (unfold ma; destruct (k_weak K); reflexivity).
      assert (Hbg : bag ma = bag m) by (unfold ma; destruct (k_weak K); reflexivity).
      destruct (dm_facts K true E L g rest' old_d m ma x xa Hpre HBa Hda Hx Hxa Hfs Hmka Hoth Hsl Hbg) as (_ & Hgr & _ & HDMa & HCa & HTa).
      destruct (HDMa g Hg) as (_ & Higa & z & Hz & Hbz & _ & Hvz). assert (z = xa) by congruence. subst z.
      rewrite decide_True in Hvz by left.
      assert (Hdrop : droppable K E ma g).
      { exists xa. split; [exact Hxa|]. split; [exact Hcg|]. rewrite Hbz. split; [exact Hvz|]. split; [exact Hdra|].
        right. split; [exact Higa|]. intros t Ht Hit.
        assert (Ht' : t ∈ L) by (apply (HTa g xa t ltac:(left) Hxa Ht Hit)).
        destruct (HDMa t Ht') as (_ & _ & w & Hw & _ & Hmw & _).
        unfold marked_at, is_in_list_or_queue. rewrite (hdr_of_get _ _ _ Hw), Hmw. reflexivity. }
      pose proof (Cur_weaken_ex K _ _ _ _ _ _ _ g Ca) as Ca'.
      destruct (rec (KDropValue g) ma) as [m3 r] eqn:Hc3. destruct r; try (cbn [fst snd]; discriminate).
      destruct (rec_allc E L (KDropValue g) ma m3) as (HP & F3 & HG3 & Hn3 & V3); auto.
      { rewrite Pre_nc by reflexivity. cbn [own_of app]. split; [apply Ca|]. split; [apply Ca | exact Hdrop]. }
      { cbn. right. exact HBa. }
      { split; [|exact I]. destruct Va as [Va1 Va2]. split.
        - eapply CoverE_more; [| |exact Va1]; [intros t Ht; right; exact Ht | auto].
        - eapply MO_mono; [| |exact Va2]; [intros t Ht; inversion Ht | auto]. }
      destruct (Cur_call_n K (PostC K) (KDropValue g) _ _ _ _ _ _ _ _ _ eq_refl Ca' HP (fun o => le_n _) (or_intror eq_refl)) as [C3 Hown].
      cbn in HG3.
      pose proof (G_Ibuf K L m3 HG3 (cur_nb _ _ _ _ _ _ _ _ _ C3) Hn3) as HB3.
      assert (HF : Fr K E (Some g) ma m3) by (rewrite Post_nc in HP by reflexivity; apply HP).
      destruct (after_call K true E L g rest' old_d m ma x xa Hpre Ca Hca HBa Hda Hx Hxa Hfs Hmka Hoth Hsl Hbg true true m3 C3 HF Hown HB3) as (Hc3' & FM3 & HM3 & HC3 & HT3).
      destruct (rec (KDropList L rest' old_d) m3) as [m' r2] eqn:Hc4. cbn [fst snd]. intros ->.
      destruct (rec_allc E L (KDropList L rest' old_d) m3 m') as (_ & _ & _ & _ & V'); auto.
      { cbn. split; [|split; [exact Hnd|split; [|split; [exact HM3|split; [exact HC3|exact HT3]]]]].
        - split; [apply C3|]. split; [apply C3|]. split; [exact Hc3'|]. split; [exact HB3|exact Hn3].
        - exists (done ++ [g]). rewrite <- app_assoc. exact HLd. }
      { cbn. split; [right; exact HB3 | exact Hc3']. }
      { split; [exact V3 | exact I]. }
  Qed.

  (** ** all collector activations *)
  Theorem cv_coll_ok E A c m :
    noncollector c = false -> Pre K (PreC K) true E c m -> Q K A c m -> CvPre E A c m ->
    (step K P rec c m).2 = ONormal -> CvPost E A c (step K P rec c m).1.
  Proof.
    intros Hc Hpre HQ V. destruct c; try discriminate Hc; cbn [step].
    - apply cv_step_trigger; assumption.
    - apply cv_step_collect_cycles; assumption.
    - apply (cv_step_collect E A m Hpre (proj1 HQ) V).
    - apply (cv_step_collect_loop E A n m Hpre V).
    - apply (cv_step_collect_once E A m Hpre V).
    - apply (cv_step_finalize_list E A L rest any old_f m Hpre V).
    - apply (cv_step_drop_list E A L rest old_d m Hpre V).
  Qed.
End Coll.
