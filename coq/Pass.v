(** * Pass: definitions and the frame theorem for the two tracing phases.

    [trace_pass] (Machine.v) models [trace_counting] + [trace_roots] of src/lib.rs.  This file
    defines the vocabulary of the pass theorems (allocated objects, reported children, stored
    handles, the hypotheses [PassPre] on the start state), the elementary lemmas about the
    machine primitives used by the pass, and proves [pass_frame]: whatever the start state, the
    pass only changes tracing counters and marks of heap objects, the buffer, the trace fuse and
    appends trace-callback / bad events to the log. *)
From Coq Require Import NArith Bool List Lia.
From stdpp Require Import base list option numbers list_numbers.
From RecordUpdate Require Import RecordSet.
From RC Require Import Hdr Machine.
Import ListNotations RecordSetNotations.

(** ** Occurrence counting *)
Definition occ (l : list id) (v : id) : nat := length (filter (λ c, c = v) l).
Definition occ_opt (l : list (option id)) (v : id) : nat :=
  length (filter (λ c, c = Some v) l).

Lemma occ_nil v : occ [] v = 0%nat. Proof. done. Qed.
Lemma occ_app l1 l2 v : occ (l1 ++ l2) v = (occ l1 v + occ l2 v)%nat.
Proof. unfold occ. by rewrite filter_app, app_length. Qed.
Lemma occ_cons_eq c l : occ (c :: l) c = S (occ l c).
Proof. unfold occ. by rewrite filter_cons_True by done. Qed.
Lemma occ_cons_ne c l v : c ≠ v → occ (c :: l) v = occ l v.
Proof. intros. unfold occ. by rewrite filter_cons_False. Qed.
Lemma occ_snoc_eq c l : occ (l ++ [c]) c = S (occ l c).
Proof. rewrite occ_app, occ_cons_eq, occ_nil. lia. Qed.
Lemma occ_snoc_ne c l v : c ≠ v → occ (l ++ [c]) v = occ l v.
Proof. intros. rewrite occ_app, occ_cons_ne, occ_nil by done. lia. Qed.
Lemma occ_pos l v : (0 < occ l v)%nat ↔ v ∈ l.
Proof.
  induction l as [|c l IH]; [rewrite occ_nil, elem_of_nil; lia|].
  destruct (decide (c = v)) as [->|Hne].
  - rewrite occ_cons_eq, elem_of_cons. split; [auto|lia].
  - rewrite occ_cons_ne, elem_of_cons by done. rewrite IH. naive_solver.
Qed.
Lemma occ_zero l v : occ l v = 0%nat ↔ v ∉ l.
Proof. rewrite <- occ_pos. lia. Qed.

(** ** Vocabulary *)
Definition hdr_sim (h h' : hdr) : Prop :=
  h_rc h' = h_rc h ∧ h_fin h' = h_fin h ∧ h_side h' = h_side h.

(** [y] is [x] up to the tracing counter and the mark *)
Definition obj_sim (x y : obj) : Prop :=
  ∃ t k, y = x <| o_hdr ::= (λ h, set_mark k (set_tc t h)) |>.

(** every machine component the pass never writes is the same *)
Definition mrest (m m' : machine) : Prop :=
  m' = m <| heap := heap m' |> <| pc := pc m' |> <| pc_size := pc_size m' |>
         <| fuse_trace := fuse_trace m' |> <| log := log m' |>.

Definition trace_ev (fl : flags) (e : event) : Prop :=
  (∃ o, e = ECb KTrace o fl) ∨ (∃ b o, e = EBad b o).

Definition handles_of (x : obj) (v : id) : nat :=
  (occ_opt (o_fields x) v + (if decide (o_cleaner x = Some v) then 1 else 0))%nat.

(** every strong handle to [v] stored inside the heap *)
Definition in_fields (m : machine) (v : id) : nat :=
  sum_list_with (λ x, handles_of x v) (heap m).

Definition alloc (m : machine) (o : id) : Prop :=
  ∃ x, get m o = Some x ∧ o_box x = BAlloc.

Definition live_or_map (m : machine) (o : id) : Prop :=
  ∃ x, get m o = Some x ∧ (o_ismap x = true ∨ o_vst x = VLive).

Section Pass.
  Context (K : conf) (P : prog).

  (** children reported by [Trace::trace] of [p] *)
  Definition kids (m : machine) (p : id) : list id := (traced_children P m p).2.

  (** number of traced edges from the objects of [l] into [v] *)
  Definition cnt (m : machine) (l : list id) (v : id) : nat :=
    sum_list_with (λ p, occ (kids m p) v) l.

  (** reachable from the buffer through reported edges *)
  Inductive reach (m : machine) : id → Prop :=
  | reach_pc o : o ∈ pc m → reach m o
  | reach_kid p c : reach m p → c ∈ kids m p → reach m c.

  (** [treach m u v]: [v] is reachable from [u] through reported edges (reflexive) *)
  Inductive treach (m : machine) (u : id) : id → Prop :=
  | treach_refl : treach m u u
  | treach_step p c : treach m u p → c ∈ kids m p → treach m u c.

  (** The hypotheses on the start state ([ext o] = number of strong handles to [o] held outside
      the heap). *)
  Record PassPre (m : machine) (ext : id → N) : Prop := {
    (* H-buf *)
    pp_nodup : NoDup (pc m);
    pp_pc_mark : ∀ o, o ∈ pc m → h_mark (hdr_of m o) = PC;
    pp_marks : ∀ o, alloc m o → h_mark (hdr_of m o) = NM ∨ h_mark (hdr_of m o) = PC;
    pp_mark_pc : ∀ o, alloc m o → h_mark (hdr_of m o) = PC → o ∈ pc m;
    pp_size : pc_size m = N.of_nat (length (pc m));
    (* H-tc *)
    pp_tc : ∀ o, o ∈ pc m → h_tc (hdr_of m o) = 0%N;
    (* H-count *)
    pp_count : ∀ o, alloc m o → (N.of_nat (in_fields m o) + ext o ≤ h_rc (hdr_of m o))%N;
    pp_rcmax : ∀ o, reach m o → (h_rc (hdr_of m o) ≤ max_rc)%N;
    (* H-ref: no dangling reported edge, nothing reachable has been dropped *)
    pp_reach : ∀ o, reach m o →
      alloc m o ∧ live_or_map m o ∧ h_tc (hdr_of m o) ≠ tc_dropped;
  }.

  Record mframe (m m' : machine) : Prop := {
    mf_rest : mrest m m';
    mf_heap : Forall2 obj_sim (heap m) (heap m');
    mf_log : ∃ l, log m' = l ++ log m ∧ Forall (trace_ev (cur_flags K m)) l;
    mf_fuse : (fuse_trace m' ≤ fuse_trace m)%N;
  }.

  (** *** [cnt] *)
  Lemma cnt_nil m v : cnt m [] v = 0%nat. Proof. done. Qed.
  Lemma cnt_cons m p l v : cnt m (p :: l) v = (occ (kids m p) v + cnt m l v)%nat.
  Proof. reflexivity. Qed.
  Lemma cnt_app m l1 l2 v : cnt m (l1 ++ l2) v = (cnt m l1 v + cnt m l2 v)%nat.
  Proof. apply sum_list_with_app. Qed.
  Lemma cnt_perm m l1 l2 v : l1 ≡ₚ l2 → cnt m l1 v = cnt m l2 v.
  Proof.
    induction 1 as [|x l l' _ IH|x y l|l l' l'' _ IH1 _ IH2]; rewrite ?cnt_cons; lia.
  Qed.

  Lemma remove_id_elem c l v : v ∈ remove_id c l ↔ v ∈ l ∧ v ≠ c.
  Proof. unfold remove_id. rewrite elem_of_list_filter. tauto. Qed.
  Lemma remove_id_notin c l : c ∉ l → remove_id c l = l.
  Proof.
    induction l as [|a l IH]; [done|]. intros [? ?]%not_elem_of_cons.
    unfold remove_id in *. rewrite filter_cons_True by done. by rewrite IH.
  Qed.
  Lemma remove_id_NoDup c l : NoDup l → NoDup (remove_id c l).
  Proof. apply NoDup_filter. Qed.
  Lemma remove_id_perm c l : c ∈ l → NoDup l → l ≡ₚ c :: remove_id c l.
  Proof.
    intros Hin Hnd. apply NoDup_Permutation; [done| |].
    - apply NoDup_cons. split; [rewrite remove_id_elem; tauto|by apply remove_id_NoDup].
    - intros v. rewrite elem_of_cons, remove_id_elem.
      destruct (decide (v = c)) as [->|?]; tauto.
  Qed.
  Lemma remove_id_length c l : c ∈ l → NoDup l → length l = S (length (remove_id c l)).
  Proof. intros Hin Hnd. by rewrite (remove_id_perm c l Hin Hnd) at 1. Qed.

  (** *** Primitive operations *)
  Lemma get_uhdr o f m v :
    get (uhdr o f m) v =
    if decide (v = o) then (λ x, x <| o_hdr ::= f |>) <$> get m v else get m v.
  Proof.
    unfold get, uhdr, upd. cbn. destruct (decide (v = o)) as [->|Hne].
    - by rewrite list_lookup_alter.
    - by rewrite list_lookup_alter_ne.
  Qed.
  Lemma get_uhdr_ne o f m v : v ≠ o → get (uhdr o f m) v = get m v.
  Proof. intros. rewrite get_uhdr. by rewrite decide_False. Qed.
  Lemma get_uhdr_eq o f m x :
    get m o = Some x → get (uhdr o f m) o = Some (x <| o_hdr ::= f |>).
  Proof. intros H. rewrite get_uhdr, decide_True by done. by rewrite H. Qed.
  Lemma hdr_of_get m o x : get m o = Some x → hdr_of m o = o_hdr x.
  Proof. unfold hdr_of. by intros ->. Qed.
  Lemma hdr_of_uhdr_ne o f m v : v ≠ o → hdr_of (uhdr o f m) v = hdr_of m v.
  Proof. intros. unfold hdr_of. by rewrite get_uhdr_ne. Qed.
  Lemma hdr_of_uhdr_eq o f m : is_Some (get m o) → hdr_of (uhdr o f m) o = f (hdr_of m o).
  Proof. intros [x Hx]. unfold hdr_of. rewrite (get_uhdr_eq _ _ _ _ Hx), Hx. done. Qed.
  Lemma heap_uhdr_length o f m : length (heap (uhdr o f m)) = length (heap m).
  Proof. unfold uhdr, upd. cbn. apply alter_length. Qed.

  Lemma pc_uhdr o f m : pc (uhdr o f m) = pc m. Proof. done. Qed.
  Lemma pc_size_uhdr o f m : pc_size (uhdr o f m) = pc_size m. Proof. done. Qed.
  Lemma log_uhdr o f m : log (uhdr o f m) = log m. Proof. done. Qed.
  Lemma get_emit e m v : get (emit e m) v = get m v. Proof. done. Qed.
  Lemma get_emit_bad b o m v : get (emit_bad b o m) v = get m v. Proof. done. Qed.
  Lemma hdr_of_emit e m v : hdr_of (emit e m) v = hdr_of m v. Proof. done. Qed.
  Lemma pc_emit e m : pc (emit e m) = pc m. Proof. done. Qed.
  Lemma log_emit e m : log (emit e m) = e :: log m. Proof. done. Qed.

  Lemma alloc_get m o : alloc m o → is_Some (get m o).
  Proof. intros (x & Hx & _). eauto. Qed.
  Lemma alloc_lt m o : alloc m o → (o < length (heap m))%nat.
  Proof. intros (x & Hx & _). by eapply lookup_lt_Some. Qed.

  (** *** The frame relation *)
  Lemma hdr_sim_refl h : hdr_sim h h. Proof. done. Qed.
  Lemma hdr_sim_set_mark k h : hdr_sim h (set_mark k h). Proof. done. Qed.
  Lemma hdr_sim_set_tc t h : hdr_sim h (set_tc t h). Proof. done. Qed.
  Lemma hdr_sim_reset_tc h : hdr_sim h (reset_tc h). Proof. done. Qed.
  Lemma hdr_sim_inc_tc h : hdr_sim h (default h (inc_tc h)).
  Proof. unfold inc_tc. by destruct (h_tc h =? max_rc)%N. Qed.
  Lemma hdr_sim_trans h1 h2 h3 : hdr_sim h1 h2 → hdr_sim h2 h3 → hdr_sim h1 h3.
  Proof. unfold hdr_sim. intros (?&?&?) (?&?&?). repeat split; congruence. Qed.

  Lemma obj_sim_refl x : obj_sim x x.
  Proof. exists (h_tc (o_hdr x)), (h_mark (o_hdr x)). by destruct x as [[] ?]. Qed.
  Lemma obj_sim_trans x y z : obj_sim x y → obj_sim y z → obj_sim x z.
  Proof. intros (t1 & k1 & ->) (t2 & k2 & ->). exists t2, k2. by destruct x as [[] ?]. Qed.
  Lemma obj_sim_hdr x f :
    hdr_sim (o_hdr x) (f (o_hdr x)) → obj_sim x (x <| o_hdr ::= f |>).
  Proof.
    intros (H1 & H2 & H3). exists (h_tc (f (o_hdr x))), (h_mark (f (o_hdr x))).
    destruct x as [h ?]. unfold set; cbn in *. f_equal.
    destruct (f h), h; cbn in *; unfold set_mark, set_tc; cbn; congruence.
  Qed.
  Lemma obj_sim_fields x y :
    obj_sim x y →
    hdr_sim (o_hdr x) (o_hdr y) ∧ o_vst y = o_vst x ∧ o_box y = o_box x ∧
    o_side y = o_side x ∧ o_cls y = o_cls x ∧ o_ismap y = o_ismap x ∧
    o_fields y = o_fields x ∧ o_wfields y = o_wfields x ∧ o_cleaner y = o_cleaner x ∧
    o_borrowed y = o_borrowed x ∧ o_mslots y = o_mslots x ∧ o_mfree y = o_mfree x ∧
    o_mborrowed y = o_mborrowed x.
  Proof. intros (t & k & ->). by destruct x as [[] ?]. Qed.

  Lemma mrest_refl m : mrest m m.
  Proof. by destruct m. Qed.
  Lemma mrest_trans m1 m2 m3 : mrest m1 m2 → mrest m2 m3 → mrest m1 m3.
  Proof.
    unfold mrest. destruct m1, m2, m3. cbn. intros H1 H2.
    injection H1 as ?; injection H2 as ?; subst. reflexivity.
  Qed.
  Lemma mrest_flags m m' : mrest m m' → cur_flags K m' = cur_flags K m.
  Proof. intros ->. by destruct m. Qed.

  Lemma mframe_refl m : mframe m m.
  Proof.
    split; [apply mrest_refl| |by exists []|lia].
    apply Forall2_same_length_lookup_2; [done|]. intros i x y H1 H2.
    assert (x = y) as -> by congruence. apply obj_sim_refl.
  Qed.
  Lemma mframe_trans m1 m2 m3 : mframe m1 m2 → mframe m2 m3 → mframe m1 m3.
  Proof.
    intros [R1 H1 (l1 & E1 & F1) U1] [R2 H2 (l2 & E2 & F2) U2]. split.
    - by eapply mrest_trans.
    - eapply Forall2_transitive; [|done..]. intros ???. apply obj_sim_trans.
    - exists (l2 ++ l1). rewrite E2, E1, (assoc_L (++)). split; [done|].
      apply Forall_app. split; [|done]. by rewrite <- (mrest_flags _ _ R1).
    - lia.
  Qed.

  Lemma heap_sim_refl (h : list obj) : Forall2 obj_sim h h.
  Proof.
    apply Forall2_same_length_lookup_2; [done|]. intros i x y H1 H2.
    assert (x = y) as -> by congruence. apply obj_sim_refl.
  Qed.

  Lemma mframe_emit_bad b o m : mframe m (emit_bad b o m).
  Proof.
    split; [by destruct m|apply heap_sim_refl| |cbn; lia].
    exists [EBad b o]. split; [done|]. apply Forall_singleton. right. eauto.
  Qed.
  Lemma mframe_emit_cb o m : mframe m (emit (ECb KTrace o (cur_flags K m)) m).
  Proof.
    split; [by destruct m|apply heap_sim_refl| |cbn; lia].
    exists [ECb KTrace o (cur_flags K m)]. split; [done|]. apply Forall_singleton. left. eauto.
  Qed.
  Lemma mframe_uhdr o f m :
    (∀ x, get m o = Some x → hdr_sim (o_hdr x) (f (o_hdr x))) → mframe m (uhdr o f m).
  Proof.
    intros Hf. split; [by destruct m| |by exists []|cbn; lia].
    unfold uhdr, upd. cbn. apply Forall2_alter_r; [apply heap_sim_refl|].
    intros x y H1 H2 _. assert (x = y) as <- by congruence. apply obj_sim_hdr, Hf, H1.
  Qed.
  Lemma mframe_uhdr_all o f m : (∀ h, hdr_sim h (f h)) → mframe m (uhdr o f m).
  Proof. intros Hf. apply mframe_uhdr. intros x _. apply Hf. Qed.
  Lemma mframe_set_pc l m : mframe m (m <| pc := l |>).
  Proof. split; [by destruct m|apply heap_sim_refl|by exists []|cbn; lia]. Qed.
  Lemma mframe_dec_size o m : mframe m (dec_size o m).
  Proof.
    unfold dec_size. destruct (pc_size m =? 0)%N; [apply mframe_emit_bad|].
    split; [by destruct m|apply heap_sim_refl|by exists []|cbn; lia].
  Qed.
  Lemma mframe_tick m : mframe m (tick KTrace m).1.
  Proof.
    unfold tick. cbn. destruct (fuse_trace m =? 0)%N; [apply mframe_refl|]. cbn.
    split; [by destruct m|apply heap_sim_refl|by exists []|cbn; lia].
  Qed.

  Lemma mframe_get m m' o : mframe m m' → option_Forall2 obj_sim (get m o) (get m' o).
  Proof. intros H. unfold get. apply Forall2_lookup, H. Qed.
  Lemma mframe_get_l m m' o x :
    mframe m m' → get m o = Some x → ∃ y, get m' o = Some y ∧ obj_sim x y.
  Proof.
    intros H Hx. pose proof (mframe_get _ _ o H) as H2. rewrite Hx in H2.
    inversion H2; subst. eauto.
  Qed.
  Lemma mframe_get_r m m' o y :
    mframe m m' → get m' o = Some y → ∃ x, get m o = Some x ∧ obj_sim x y.
  Proof.
    intros H Hy. pose proof (mframe_get _ _ o H) as H2. rewrite Hy in H2.
    inversion H2; subst. eauto.
  Qed.
  Lemma mframe_length m m' : mframe m m' → length (heap m') = length (heap m).
  Proof. intros H. symmetry. eapply Forall2_length, H. Qed.
  Lemma mframe_alloc m m' o : mframe m m' → alloc m' o ↔ alloc m o.
  Proof.
    intros H. split.
    - intros (y & Hy & Hb). destruct (mframe_get_r _ _ _ _ H Hy) as (x & Hx & Hs).
      apply obj_sim_fields in Hs. exists x. split; [done|]. by rewrite <- Hb; symmetry; apply Hs.
    - intros (x & Hx & Hb). destruct (mframe_get_l _ _ _ _ H Hx) as (y & Hy & Hs).
      apply obj_sim_fields in Hs. exists y. split; [done|]. by rewrite <- Hb; apply Hs.
  Qed.
  Lemma mframe_live_or_map m m' o : mframe m m' → live_or_map m' o ↔ live_or_map m o.
  Proof.
    intros H. split.
    - intros (y & Hy & Hb). destruct (mframe_get_r _ _ _ _ H Hy) as (x & Hx & Hs).
      apply obj_sim_fields in Hs. exists x. split; [done|].
      destruct Hs as (_&Hv&_&_&_&Hm&_). by rewrite <- Hv, <- Hm.
    - intros (x & Hx & Hb). destruct (mframe_get_l _ _ _ _ H Hx) as (y & Hy & Hs).
      apply obj_sim_fields in Hs. exists y. split; [done|].
      destruct Hs as (_&Hv&_&_&_&Hm&_). by rewrite Hv, Hm.
  Qed.
  Lemma mframe_rc m m' o : mframe m m' → h_rc (hdr_of m' o) = h_rc (hdr_of m o).
  Proof.
    intros H. unfold hdr_of. pose proof (mframe_get _ _ o H) as H2.
    inversion H2 as [x y Hs|]; [|done]. apply obj_sim_fields in Hs. apply Hs.
  Qed.
  Lemma mframe_kids m m' p : mframe m m' → kids m' p = kids m p.
  Proof.
    intros H. unfold kids, traced_children. pose proof (mframe_get _ _ p H) as H2.
    inversion H2 as [x y Hs|]; [|done]. apply obj_sim_fields in Hs.
    destruct Hs as (_&Hv&_&_&Hc&Hm&Hf&_&_&Hb&_). rewrite Hv, Hc, Hm, Hf, Hb.
    destruct (o_ismap x); [done|]. destruct (o_vst x); try done. by destruct (o_borrowed x).
  Qed.
  Lemma mframe_cnt m m' l v : mframe m m' → cnt m' l v = cnt m l v.
  Proof.
    intros H. induction l as [|p l IH]; [done|]. by rewrite !cnt_cons, IH, (mframe_kids _ _ _ H).
  Qed.
  Lemma mframe_in_fields m m' v : mframe m m' → in_fields m' v = in_fields m v.
  Proof.
    intros [_ H _ _]. unfold in_fields. induction H as [|x y h h' Hs _ IH]; [done|]. cbn.
    rewrite IH. f_equal. apply obj_sim_fields in Hs. unfold handles_of.
    destruct Hs as (_&_&_&_&_&_&Hf&_&Hc&_). by rewrite Hf, Hc.
  Qed.

  (** the unchanged components, spelled out *)
  Lemma mrest_proj m m' :
    mrest m m' →
    pc_alive m' = pc_alive m ∧ st_collecting m' = st_collecting m ∧
    st_finalizing m' = st_finalizing m ∧ st_dropping m' = st_dropping m ∧
    st_alloc m' = st_alloc m ∧ st_exec m' = st_exec m ∧ cf_thr m' = cf_thr m ∧
    cf_pnum m' = cf_pnum m ∧ cf_pexp m' = cf_pexp m ∧ cf_buf m' = cf_buf m ∧
    cf_auto m' = cf_auto m ∧ slots m' = slots m ∧ wslots m' = wslots m ∧
    cslots m' = cslots m ∧ values m' = values m ∧ bag m' = bag m ∧ wparam m' = wparam m ∧
    fuse_fin m' = fuse_fin m ∧ fuse_drop m' = fuse_drop m ∧ fuse_action m' = fuse_action m ∧
    fuse_closure m' = fuse_closure m ∧ panicking m' = panicking m ∧ next_aid m' = next_aid m ∧
    dead m' = dead m.
  Proof. intros ->. by destruct m. Qed.

  (** *** Frame of the tracing functions (unconditional) *)
  Lemma get_bad_box (x : obj) c m v :
    get (match o_box x with BAlloc => m | _ => emit_bad UseAfterFree c m end) v = get m v.
  Proof. by destruct (o_box x). Qed.

  Lemma visit_counting_frame s c : mframe (t_m s) (t_m (visit_counting s c)).
  Proof.
    unfold visit_counting. destruct (get (t_m s) c) as [x|] eqn:Hx; [|apply mframe_emit_bad].
    set (m1 := match o_box x with BAlloc => t_m s | _ => emit_bad UseAfterFree c (t_m s) end).
    assert (F1 : mframe (t_m s) m1).
    { subst m1. destruct (o_box x); first [apply mframe_refl|apply mframe_emit_bad]. }
    assert (G1 : get m1 c = Some x) by (subst m1; by rewrite get_bad_box).
    clearbody m1.
    destruct (is_in_list_or_queue (o_hdr x)).
    - set (m2 := if _ : bool then m1 else _).
      assert (F2 : mframe m1 m2).
      { subst m2. destruct (_ && _); first [apply mframe_refl|apply mframe_emit_bad]. }
      assert (G2 : get m2 c = Some x) by (subst m2; by destruct (_ && _)).
      clearbody m2.
      assert (F3 : mframe m2 (uhdr c (λ _, default (o_hdr x) (inc_tc (o_hdr x))) m2)).
      { apply mframe_uhdr. intros x' Hx'. assert (x' = x) as -> by congruence.
        apply hdr_sim_inc_tc. }
      destruct (_ && _); cbn [t_m]; eauto using mframe_trans.
    - destruct (is_in_pc (o_hdr x)).
      + set (m2 := if _ : bool then _ else m1).
        assert (F2 : mframe m1 m2).
        { subst m2. destruct (is_dropped _); first [apply mframe_refl|apply mframe_emit_bad]. }
        clearbody m2. cbn [t_m]. eapply mframe_trans; [done|]. eapply mframe_trans; [done|].
        apply mframe_uhdr_all. apply hdr_sim_inc_tc.
      + set (m2 := if _ : bool then _ else m1).
        assert (F2 : mframe m1 m2).
        { subst m2. destruct (is_dropped _); first [apply mframe_refl|apply mframe_emit_bad]. }
        clearbody m2. cbn [t_m]. eapply mframe_trans; [done|]. eapply mframe_trans; [done|].
        apply mframe_uhdr_all. intros h. unfold inc_tc.
        by destruct (h_tc (reset_tc h) =? max_rc)%N.
  Qed.

  Lemma fold_visit_counting_frame l s : mframe (t_m s) (t_m (fold_left visit_counting l s)).
  Proof.
    revert s. induction l as [|c l IH]; intros s; [apply mframe_refl|]. cbn.
    eapply mframe_trans; [apply visit_counting_frame|apply IH].
  Qed.

  Lemma unmark_all_frame l m : mframe m (unmark_all l m).
  Proof.
    unfold unmark_all. revert m. induction l as [|c l IH]; intros m; [apply mframe_refl|]. cbn.
    eapply mframe_trans; [|apply IH]. apply mframe_uhdr_all, hdr_sim_set_mark.
  Qed.
  Lemma reset_fold_frame l m : mframe m (fold_left (λ m o, uhdr o reset_tc m) l m).
  Proof.
    revert m. induction l as [|c l IH]; intros m; [apply mframe_refl|]. cbn.
    eapply mframe_trans; [|apply IH]. apply mframe_uhdr_all, hdr_sim_reset_tc.
  Qed.
  Lemma reset_buffered_frame m : mframe m (reset_buffered m).
  Proof. apply reset_fold_frame. Qed.

  Lemma traced_children_frame m p : mframe m (traced_children P m p).1.
  Proof.
    unfold traced_children. destruct (get m p) as [x|]; [|apply mframe_emit_bad].
    destruct (o_ismap x); [apply mframe_refl|].
    destruct (o_vst x); try apply mframe_emit_bad.
    destruct (o_borrowed x); apply mframe_refl.
  Qed.
  Lemma trace_event_frame p m : mframe m (trace_event K p m).1.
  Proof.
    unfold trace_event. destruct (is_map m p); [apply mframe_refl|].
    eapply mframe_trans; [apply mframe_emit_cb|apply mframe_tick].
  Qed.

  Lemma process_counting_frame s p : mframe (t_m s) (t_m (process_counting K P s p).1).
  Proof.
    unfold process_counting.
    assert (F1 : mframe (t_m s) (uhdr p (set_mark IQ) (t_m s)))
      by apply mframe_uhdr_all, hdr_sim_set_mark.
    pose proof (trace_event_frame p (uhdr p (set_mark IQ) (t_m s))) as F2.
    destruct (trace_event K p _) as [m1 boom]. cbn [fst] in F2.
    assert (F12 := mframe_trans _ _ _ F1 F2). clear F1 F2. destruct boom.
    - cbn [fst t_m]. eapply mframe_trans; [done|].
      eapply mframe_trans; [|apply reset_buffered_frame].
      eapply mframe_trans; [|apply unmark_all_frame]. apply mframe_uhdr_all, hdr_sim_set_mark.
    - pose proof (traced_children_frame m1 p) as F3.
      destruct (traced_children P m1 p) as [m2 ks]. cbn [fst] in F3.
      pose proof (fold_visit_counting_frame ks (TState m2 (t_root s) (t_non s) (t_q s))) as F4.
      set (s' := fold_left _ _ _) in *. cbn [t_m] in F4.
      assert (F5 : mframe (t_m s) (uhdr p (set_mark IL) (t_m s'))).
      { eapply mframe_trans; [done|]. eapply mframe_trans; [done|].
        eapply mframe_trans; [done|]. apply mframe_uhdr_all, hdr_sim_set_mark. }
      by destruct (_ =? _)%N.
  Qed.

  Lemma counting_frame fuel s s' b :
    counting K P fuel s = Some (s', b) → mframe (t_m s) (t_m s').
  Proof.
    revert s. induction fuel as [|f IH]; intros s; [done|]. cbn [counting].
    destruct (pc (t_m s)) as [|p rest] eqn:Hpc.
    - destruct (t_q s) as [|p q'] eqn:Hq.
      + intros [= <- <-]. apply mframe_refl.
      + pose proof (process_counting_frame
          (TState (uhdr p (set_mark NM) (t_m s)) (t_root s) (t_non s) q') p) as F.
        destruct (process_counting _ _ _ _) as [s1 boom]. cbn [fst t_m] in F.
        assert (F' : mframe (t_m s) (t_m s1)).
        { eapply mframe_trans; [|done]. apply mframe_uhdr_all, hdr_sim_set_mark. }
        destruct boom; [by intros [= <- <-]|]. intros H. eapply mframe_trans; [done|by apply IH].
    - pose proof (process_counting_frame
        (TState (dec_size p (uhdr p (set_mark NM) (t_m s) <| pc := rest |>))
                (t_root s) (t_non s) (t_q s)) p) as F.
      destruct (process_counting _ _ _ _) as [s1 boom]. cbn [fst t_m] in F.
      assert (F' : mframe (t_m s) (t_m s1)).
      { eapply mframe_trans; [|done]. eapply mframe_trans; [|apply mframe_dec_size].
        eapply mframe_trans; [|apply mframe_set_pc]. apply mframe_uhdr_all, hdr_sim_set_mark. }
      destruct boom; [by intros [= <- <-]|]. intros H. eapply mframe_trans; [done|by apply IH].
  Qed.

  Lemma visit_root_frame s c : mframe (t_m s) (t_m (visit_root s c)).
  Proof.
    unfold visit_root. destruct (get (t_m s) c) as [x|] eqn:Hx; [|apply mframe_emit_bad].
    set (m1 := match o_box x with BAlloc => t_m s | _ => emit_bad UseAfterFree c (t_m s) end).
    assert (F1 : mframe (t_m s) m1).
    { subst m1. destruct (o_box x); first [apply mframe_refl|apply mframe_emit_bad]. }
    clearbody m1. destruct (_ && _); cbn [t_m]; [|done].
    eapply mframe_trans; [done|]. apply mframe_uhdr_all, hdr_sim_set_mark.
  Qed.
  Lemma fold_visit_root_frame l s : mframe (t_m s) (t_m (fold_left visit_root l s)).
  Proof.
    revert s. induction l as [|c l IH]; intros s; [apply mframe_refl|]. cbn.
    eapply mframe_trans; [apply visit_root_frame|apply IH].
  Qed.
  Lemma process_root_frame s p : mframe (t_m s) (t_m (process_root K P s p).1).
  Proof.
    unfold process_root. pose proof (trace_event_frame p (t_m s)) as F1.
    destruct (trace_event K p _) as [m1 boom]. cbn [fst] in F1. destruct boom.
    - cbn [fst t_m]. eapply mframe_trans; [done|apply unmark_all_frame].
    - pose proof (traced_children_frame m1 p) as F3.
      destruct (traced_children P m1 p) as [m2 ks]. cbn [fst] in *.
      eapply mframe_trans; [done|]. eapply mframe_trans; [done|].
      apply (fold_visit_root_frame ks (TState m2 _ _ _)).
  Qed.
  Lemma roots_frame fuel s s' b :
    roots K P fuel s = Some (s', b) → mframe (t_m s) (t_m s').
  Proof.
    revert s. induction fuel as [|f IH]; intros s; [done|]. cbn [roots].
    destruct (t_root s) as [|p rest] eqn:Hr.
    - destruct (t_q s) as [|p q'] eqn:Hq.
      + intros [= <- <-]. apply mframe_refl.
      + pose proof (process_root_frame
          (TState (uhdr p (set_mark NM) (t_m s)) [] (t_non s) q') p) as F.
        destruct (process_root _ _ _ _) as [s1 boom]. cbn [fst t_m] in F.
        assert (F' : mframe (t_m s) (t_m s1)).
        { eapply mframe_trans; [|done]. apply mframe_uhdr_all, hdr_sim_set_mark. }
        destruct boom; [by intros [= <- <-]|]. intros H. eapply mframe_trans; [done|by apply IH].
    - pose proof (process_root_frame
          (TState (uhdr p (set_mark NM) (t_m s)) rest (t_non s) (t_q s)) p) as F.
      destruct (process_root _ _ _ _) as [s1 boom]. cbn [fst t_m] in F.
      assert (F' : mframe (t_m s) (t_m s1)).
      { eapply mframe_trans; [|done]. apply mframe_uhdr_all, hdr_sim_set_mark. }
      destruct boom; [by intros [= <- <-]|]. intros H. eapply mframe_trans; [done|by apply IH].
  Qed.

  (** Theorem 2: the pass only touches tracing counters, marks, the buffer, the trace fuse and
      the log (see [mrest_proj], [mframe_get], [obj_sim_fields], [mframe_length] for the
      spelled-out consequences). *)
  Theorem pass_frame m m' r : trace_pass K P m = (m', r) → mframe m m'.
  Proof.
    unfold trace_pass. destruct (counting _ _ _ _) as [[s b]|] eqn:Hc.
    - apply counting_frame in Hc. cbn [t_m] in Hc. destruct b.
      + by intros [= <- <-].
      + destruct (roots _ _ _ _) as [[s' b']|] eqn:Hr.
        * apply roots_frame in Hr. destruct b'; intros [= <- <-]; by eapply mframe_trans.
        * by intros [= <- <-].
    - intros [= <- <-]. apply mframe_refl.
  Qed.
End Pass.
