(** * LifeDa3: promptness, the step cases that change value / box states. *)
From Coq Require Import NArith Bool List Lia.
From stdpp Require Import base list option.
From RecordUpdate Require Import RecordSet.
From RC Require Import Hdr Machine RunInd Flags Flags2 Flags4.
From RC Require Import Inv InvP LifeInv LifeInv2 LifeChk LifeStep LifeStep2 LifeStep3 LifeStep4 LifeDa LifeDa2.
From RC Require Import LifeGhost2.
Import ListNotations RecordSetNotations.
Local Open Scope N_scope.

Section Special.
  Context (K : conf) (P : prog) (mu : id) (nfa : bool).
  Hypothesis Hprog : nfa = true -> prog_nfa P = true.
  Notation G := (G mu).
  Notation NdX := (NdX mu).
  Notation Nd := (NdX None).
  Notation Pre2 := (Pre2 K nfa).
  Notation Post2 := (Post2 K mu nfa).
  Context (rec : call -> machine -> machine * outcome).
  Hypothesis HR : RecD K mu nfa rec.
  Hypothesis Hrec2 : rec_ok Pre2 Post2 rec.
  (** a sub-activation that does not return normally does nothing *)
  Hypothesis HN : forall c m, (rec c m).2 = ONormal \/ (rec c m).1 = m.
  (** the drop pass frees its members *)
  Hypothesis HRL : forall L rest d m, (rec (KDropList L rest d) m).2 = ONormal -> G (rec (KDropList L rest d) m).1 ->
    forall g x', g ∈ L -> get (rec (KDropList L rest d) m).1 g = Some x' -> ~ isDA x'.

  (** ** value destruction: only the object itself is touched *)
  Lemma d_step_drop_value o m : NdX (Some o) (length (heap m)) m (step_drop_value K P rec o m).1.
  Proof.
    unfold step_drop_value. pose proof (NdX_refl mu (Some o) (length (heap m)) m) as HD0.
    destruct (get m o) as [x|]; [|fin3].
    assert (Hmain :
      NdX (Some o) (length (heap m)) m
        (let m0 := upd o (fun x0 => x0 <| o_vst := VDropping |>) m in
         if o_ismap x
         then let '(m1, r) := rec (KDropMapSlots o 0) m0 in (upd o (fun x0 => x0 <| o_vst := VDropped |>) m1, r)
         else
          let m1 := emit (ECb KDrop o (cur_flags K m0)) m0 in
          let '(m2, boom) := tick KDrop m1 in
          let '(m3, r) := if boom then (m2, raise m2) else rec (KScript (Some o) (oscript P (c_drop (class_of P (o_cls x))))) m2 in
          let '(m4, r0) := match r with
                           | ONormal => rec (KDropFields o 0) m3
                           | OPanic => unwinding (rec (KDropFields o 0)) m3
                           | _ => (m3, r)
                           end in
          (upd o (fun x0 => x0 <| o_vst := VDropped |>) m4, r0)).1).
    { cbv zeta. pose proof (NdX_upd_ex mu o (length (heap m)) (fun x0 => x0 <| o_vst := VDropping |>) m) as HD1.
      clear HD0. repeat adv3;
      (cbn [fst snd]; eapply NdX_trans; [ | apply (NdX_upd_ex mu o)]; posq3). }
    destruct (o_vst x); try fin3; exact Hmain.
  Qed.

  (** ** deallocation *)
  Lemma Nd_dealloc_ex o n0 m0 mi : NdX (Some o) n0 m0 mi -> NdX (Some o) n0 m0 (dealloc K o mi).
  Proof.
    intros HD. unfold dealloc. destruct (get mi o) as [x|]; [|posq3].
    destruct (box_layout K x) as [sz al]. cbv zeta.
    eapply Nd_q; [|apply QuietD_emit, QuietD_refl].
    eapply NdX_trans; [|apply (NdX_upd_ex mu o)]. destruct (o_box x), (_ <? _); posq3.
  Qed.
  Lemma dealloc_not_DA o m x' : get (dealloc K o m) o = Some x' -> ~ isDA x'.
  Proof.
    unfold dealloc. destruct (get m o) as [x|] eqn:Hx.
    - destruct (box_layout K x) as [sz al]. cbv zeta.
      match goal with |- get (emit ?e (upd o ?f ?mm)) o = _ -> _ =>
        change (get (emit e (upd o f mm)) o) with (get (upd o f mm) o); set (M := mm) end.
      assert (HxM : get M o = Some x) by (unfold M; destruct (o_box x), (_ <? _); exact Hx).
      rewrite (get_upd_eq o _ M x HxM). intros [= <-] [_ Hb]. discriminate.
    - cbn. change (get (emit_bad BadState o m) o) with (get m o). rewrite Hx. discriminate.
  Qed.

  (** ** [Cc::drop] *)
  Lemma d_dcc_drop n0 m0 o mi :
    Nd n0 m0 mi -> (forall x, get m0 o = Some x -> ~ isFresh x) -> Nd n0 m0 (dcc_drop K rec o mi).1.
  Proof.
    intros HD Hnf. unfold dcc_drop. cbv zeta.
    set (X := if k_weak K then uhdr o set_dropped (remove_from_list o (dec_rc_m o mi) <| st_dropping := true |>)
              else remove_from_list o (dec_rc_m o mi) <| st_dropping := true |>).
    assert (HDX : Nd n0 m0 X) by (unfold X; destruct (k_weak K); posq3).
    pose proof (HR (KDropValue o) X I) as HDv. cbn [exo] in HDv.
    pose proof (HN (KDropValue o) X) as Hn.
    destruct (rec (KDropValue o) X) as [m5 r]. cbn [fst snd] in *.
    destruct r; try (destruct Hn as [Hn|Hn]; [discriminate|]; subst m5; cbn [fst]; posq3).
    cbn [fst].
    assert (HD5 : NdX (Some o) n0 m0 m5) by (eapply NdX_step; eassumption).
    assert (HD7 : NdX (Some o) n0 m0 (dealloc K o (drop_metadata K o m5))).
    { apply Nd_dealloc_ex. posq3. }
    assert (HD7' : Nd n0 m0 (dealloc K o (drop_metadata K o m5))).
    { apply (NdX_close mu o); [exact HD7 | intros _ x' Hx'; exact (dealloc_not_DA o _ x' Hx') | intros _; right; exact Hnf]. }
    posq3.
  Qed.

  Lemma d_dcc_fin n0 m0 o x mi : Nd n0 m0 mi -> Nd n0 m0 (dcc_fin K P rec o x mi).1.1.
  Proof. intros HD. unfold dcc_fin. repeat adv3; fin3. Qed.

  Lemma d_step_drop_cc o m : chk (KDropCc o) m = true -> Nd (length (heap m)) m (step_drop_cc K P rec o m).1.
  Proof.
    intros Hc. cbn [chk] in Hc. rewrite step_drop_cc_eq. destruct (get m o) as [x|] eqn:Hx; [|discriminate].
    apply andb_true_iff in Hc as [Ha Hc]. unfold is_alloc in Ha. destruct (o_box x) eqn:Hb; try discriminate.
    cbv zeta. pose proof (NdX_refl mu None (length (heap m)) m) as HD0.
    unfold marked in Hc. destruct (is_in_list_or_queue (o_hdr x)); [cbn [fst]; posq3|].
    destruct (h_rc (o_hdr x) =? 1); [|cbn [fst]; posq3]. cbn in Hc.
    unfold is_live in Hc. destruct (o_vst x) eqn:Hv; try discriminate.
    pose proof (d_dcc_fin (length (heap m)) m o x m HD0) as HD1.
    destruct (dcc_fin K P rec o x m) as [[m1 r1] go]. cbn [fst snd] in *.
    destruct (negb go); [exact HD1|]. apply d_dcc_drop; [exact HD1|].
    intros y Hy. assert (y = x) by congruence. subst y. unfold isFresh. rewrite Hv, Hb. intros [[_ H]|H]; discriminate.
  Qed.

  (** ** helpers for own / single-object updates *)
  Lemma Nd_upd_own n0 m o f : (n0 <= o)%nat -> (G m -> forall x, get m o = Some x -> ~ isDA (f x)) -> Nd n0 m (upd o f m).
  Proof.
    intros Hn Hd. split; [auto|]. intros HG. split.
    - intros o' x' Hx' Hda. right. destruct (decide (o' = o)) as [->|Hne].
      + unfold get, upd in Hx'. cbn in Hx'. rewrite list_lookup_alter in Hx'.
        destruct (heap m !! o) as [x|] eqn:Hx; [|discriminate]. injection Hx' as <-. destruct (Hd HG x Hx Hda).
      + unfold get, upd in Hx'. cbn in Hx'. rewrite list_lookup_alter_ne in Hx' by (intros E; apply Hne; symmetry; exact E). eauto.
    - intros o' x Ho _ Hx Hf. exists x. split; [|exact Hf]. unfold get, upd. cbn.
      rewrite list_lookup_alter_ne by lia. exact Hx.
  Qed.

  Lemma Nd_new n0 m (x0 : obj) : o_vst x0 = VLive -> Nd n0 m (m <| heap ::= fun h => h ++ [x0] |>).
  Proof.
    intros Hv. split; [auto|]. intros _. split.
    - intros o x' Hx' Hda. right. unfold get in *. cbn in Hx'.
      destruct (decide (o < length (heap m))%nat) as [Hlt|Hge].
      + rewrite lookup_app_l in Hx' by exact Hlt. eauto.
      + rewrite lookup_app_r in Hx' by lia. destruct (o - length (heap m))%nat as [|k]; [|destruct k; discriminate].
        injection Hx' as <-. destruct Hda as [Hd _]. congruence.
    - intros o x _ _ Hx Hf. exists x. split; [|exact Hf]. unfold get in *. cbn.
      rewrite lookup_app_l; [exact Hx | apply lookup_lt_Some in Hx; exact Hx].
  Qed.

  Lemma Nd_alloc n0 m o : (n0 <= o)%nat -> (G m -> forall x, get m o = Some x -> o_vst x <> VDropped) ->
    Nd n0 m (box_alloc K o m).
  Proof.
    intros Hn Hv. unfold box_alloc. pose proof (NdX_refl mu None n0 m) as HD0.
    destruct (get m o) as [x|] eqn:Hx; [|posq3]. destruct (box_layout K x) as [sz al].
    eapply Nd_q; [|apply QuietD_emit, QuietD_refl].
    set (m1 := m <| st_alloc ::= fun a => a + sz |>). assert (HD1 : Nd n0 m m1) by (unfold m1; posq3).
    eapply NdX_trans; [exact HD1|]. apply Nd_upd_own; [exact Hn|]. intros HG y Hy [Hd _]. cbn in Hd.
    assert (y = x) by (unfold m1 in Hy; change (get m o = Some y) in Hy; congruence). subst y. exact (Hv HG x eq_refl Hd).
  Qed.

  Definition SatF (m : machine) (o : id) : Prop := G m -> exists x, get m o = Some x /\ isFresh x.

  Lemma d_trigger n0 m0 m2 o : Nd n0 m0 m2 -> SatF m2 o ->
    exists m3 t, (if k_auto K then rec KTrigger m2 else (m2, ONormal)) = (m3, t) /\ Nd n0 m0 m3 /\ SatF m3 o.
  Proof.
    intros HD HS. destruct (k_auto K); [|exists m2, ONormal; auto].
    pose proof (HR KTrigger m2 I) as HL. cbn [exo] in HL.
    pose proof (NdX_step mu None n0 m0 m2 _ HD HL) as HD3.
    assert (HS3 : SatF (rec KTrigger m2).1 o).
    { intros HG. destruct HL as (A & B). destruct (HS (A HG)) as (x & Hx & Hf). destruct (B HG) as [_ BF].
      apply (BF o x (lookup_lt_Some _ _ _ Hx)); [discriminate | exact Hx | exact Hf]. }
    destruct (rec KTrigger m2) as [m3 t]. exists m3, t. auto.
  Qed.

  Lemma fresh_not_dropped x : isFresh x -> o_vst x <> VDropped.
  Proof. intros [[Hv _]|Hv]; rewrite Hv; discriminate. Qed.

  (** ** [Cc::new] *)
  Lemma d_cmd_new self dst cls m :
    (cmd_new K P rec self dst cls m).2 = ONormal -> Nd (length (heap m)) m (cmd_new K P rec self dst cls m).1.
  Proof.
    unfold cmd_new. pose proof (NdX_refl mu None (length (heap m)) m) as HD0.
    assert (HQ1 : Quiet m (resolve self dst m).1) by lq.
    pose proof (Nd_q mu None _ m m _ HD0 (Quiet_QuietD mu _ _ HQ1)) as HD1. pose proof (Quiet_len _ _ HQ1) as HL1.
    destruct (resolve self dst m) as [m1 r]. cbn [fst snd] in *. destruct r as [r|]; [|intros _; fin3].
    unfold new_node. cbv zeta.
    set (x0 := Obj (hdr_new false) VLive BNotYet None cls false (replicate (c_nf (class_of P cls)) None)
                   (replicate (c_nw (class_of P cls)) None) None false [] [] false).
    set (o := length (heap m1)).
    pose proof (NdX_trans mu None _ m m1 _ HD1 (Nd_new (length (heap m)) m1 x0 eq_refl)) as HD2.
    assert (HS2 : SatF (m1 <| heap ::= fun h => h ++ [x0] |>) o).
    { intros _. exists x0. split; [apply get_new | left; split; reflexivity]. }
    destruct (d_trigger _ m _ o HD2 HS2) as (m3 & t & -> & HD3 & HS3).
    destruct t; [| intros Hn; exfalso; eapply unwinding_not_normal; exact Hn | discriminate | discriminate].
    assert (HD4 : Nd (length (heap m)) m (box_alloc K o m3)).
    { eapply NdX_trans; [exact HD3|]. apply Nd_alloc; [unfold o; lia|].
      intros HG y Hy. destruct (HS3 HG) as (y' & Hy' & Hf). assert (y' = y) by congruence. subst y'. apply fresh_not_dropped, Hf. }
    intros _. clear HD0 HD1 HD2 HD3. repeat adv3; fin3.
  Qed.
End Special.
