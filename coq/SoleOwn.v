(** * SoleOwn: [SafeFinalOwn2.last_owner_recursive] without the frame hypothesis: the two step
    lemmas that used [SoleFrame] are re-proved against [SoleTop.sole_frame'] (whose side
    condition on the arguments of the call holds for the two calls concerned: the [Cc::drop] of
    a field's target and the Drop script of the value). *)
From Coq Require Import NArith Bool List Lia.
From stdpp Require Import base list option.
From RecordUpdate Require Import RecordSet.
From RC Require Import Hdr Machine RunInd.
From RC Require BufBase BufPass BufStep Buf.
From RC Require SafeCollDec SafeCollNf SafeCollGuard.
From RC Require Import Inv InvP SafeHelpers SafePrims SafeCalls SafeGlue SafeDrop SafeCmd SafeCyclic SafeMain SafeProps.
From RC Require Import SafeColl SafeCollTop SafeFinal SafeFinalPropsA SafeFinalProps SafeFinalOwn SafeFinalOwn2.
From RC Require Import SoleInv SoleStep SoleMain SoleTop.
Import ListNotations RecordSetNotations.
Local Open Scope N_scope.

Section OwnStep.
  Context (K : conf) (P : prog).
  Context (PreC : bool -> list id -> call -> machine -> Prop)
          (PostC : bool -> list id -> call -> machine -> machine -> outcome -> Prop).
  Context (rec : call -> machine -> machine * outcome).
  Hypothesis Hrec : forall b E, rec_ok (Pre K PreC b E) (Post K PostC b E) rec.
  Hypothesis Hwf : wf_prog P = true.
  Implicit Types (m : machine) (o s t u : id) (x : obj).
  Notation LastOwner := (LastOwner K).

  (** the callees: the frame for solely owned objects, and the statements being proved *)
  Hypothesis Hsole : forall b E c m m' r, Pre K PreC b E c m -> rec c m = (m', r) -> r = ONormal \/ r = OPanic ->
    Args (HidX K (ex_of c) m) (RootX (ex_of c) m) c -> sole_persist K (ex_of c) m m'.
  Hypothesis HA : forall b E t m m', Pre K PreC b E (KDropCc t) m -> LastOwner m t -> rec (KDropCc t) m = (m', ONormal) ->
    Freed m' t /\ forall u, SolelyOwned K m t u -> Freed m' u.
  Hypothesis HV : forall b E t m m', Pre K PreC b E (KDropValue t) m -> (forall x, get m t = Some x -> h_rc (o_hdr x) = 0) ->
    rec (KDropValue t) m = (m', ONormal) ->
    forall u, SolelyOwned K m t u -> Freed m' u.
  Hypothesis HB : forall b E o j m m' x, Pre K PreC b E (KDropFields o j) m -> get m o = Some x ->
    (forall i t, (i < j)%nat -> o_fields x !! i = Some (Some t) -> False) ->
    rec (KDropFields o j) m = (m', ONormal) -> forall u, SolelyOwned K m o u -> Freed m' u.


  (** the side condition of the frame theorem for the two calls *)
  Lemma Args_dropcc b E t m : Pre K PreC b E (KDropCc t) m -> Args (HidX K None m) (RootX None m) (KDropCc t).
  Proof.
    rewrite Pre_nc by reflexivity. cbn [own_of app Args]. intros (_ & HI & _) Ht.
    destruct (HidX_holder K None m t Ht) as (s & _ & (xt & xs & Hxt & Hb & _ & Hrc & _ & _ & _ & Hxs & j & Hj)).
    assert (Hl : hloc m (Some s) false t) by (econstructor 3; eauto). apply hloc_refs_pos in Hl.
    destruct (okN_alloc K _ _ _ _ _ (sv_obj _ _ _ _ _ HI t xt Hxt) Hb) as (O1 & _). rewrite Hrc, cnt_id_cons_eq in O1. lia.
  Qed.
  Lemma Args_script t cs m x : get m t = Some x -> o_vst x = VDropping -> forallb cmd_no_self cs = true ->
    Args (HidX K None m) (RootX None m) (KScript (Some t) cs).
  Proof.
    intros Hx Hv Hcs. cbn [Args]. intros g [= <-]. split; [|auto]. intros Ht.
    destruct (HidX_holder K None m t Ht) as (s & _ & (xt & _ & Hxt & _ & Hvt & _)). congruence.
  Qed.

  Lemma unwinding_not_normal f m m' : unwinding f m = (m', ONormal) -> False.
  Proof. unfold unwinding. destruct (f _) as [m1 r]. destruct r, (panicking m); discriminate. Qed.

  Lemma sole_at_live m s t : sole_at K m s t -> exists xt, get m t = Some xt /\ o_vst xt = VLive.
  Proof. intros (xt & xs & H). exists xt. tauto. Qed.

  (** clearing field [j] of a value under destruction *)
  Lemma sole_at_clear m o x j s t :
    get m o = Some x -> o_vst x = VDropping -> (s <> o \/ o_fields x !! j <> Some (Some t)) ->
    sole_at K m s t -> sole_at K (upd o (fun x => x <| o_fields ::= <[j := None]> |>) m) s t.
  Proof.
    intros Hx Hv Hc Hs. destruct (sole_at_live _ _ _ Hs) as (xt & Hxt & Hvt).
    assert (Hne : t <> o) by (intros ->; congruence).
    apply (sole_at_other K m _ o s t Hne); [| | | exact Hs].
    - intros p Hp. apply get_upd_ne. congruence.
    - eapply wrefs_alter_same; reflexivity.
    - intros -> xs Hxs. assert (xs = x) by congruence. subst xs. eexists. split; [apply get_upd_eq, Hx|].
      intros j0 Hj0. exists j0. cbn. destruct Hc as [Hc|Hc]; [congruence|].
      rewrite list_lookup_insert_ne; [exact Hj0|]. intros <-. congruence.
  Qed.

  Lemma step_fields_own b E o j m m' x :
    Pre K PreC b E (KDropFields o j) m -> get m o = Some x ->
    (forall i t, (i < j)%nat -> o_fields x !! i = Some (Some t) -> False) ->
    step_drop_fields rec o j m = (m', ONormal) -> forall u, SolelyOwned K m o u -> Freed m' u.
  Proof.
    rewrite Pre_nc by reflexivity. cbn [own_of app]. intros (Hnb & HI & x0 & Hx0 & Hv) Hx Hlow Hstep u Hu.
    assert (x0 = x) by congruence. subst x0.
    destruct (SO_split K m o u Hu) as (t1 & H1 & Hu1).
    pose proof H1 as (xt1 & xs & Hxt1 & Hbt1 & Hvt1 & Hrc1 & Hmk1 & Hfin1 & Hw1 & Hxs & j1 & Hj1).
    assert (xs = x) by congruence. subst xs.
    assert (Hj1j : (j <= j1)%nat) by (destruct (decide (j <= j1)%nat); [assumption | exfalso; apply (Hlow j1 t1); [lia | exact Hj1]]).
    unfold step_drop_fields in Hstep. rewrite Hx in Hstep.
    destruct (decide (j < length (o_fields x))%nat) as [Hj|Hj]; [|exfalso; apply lookup_lt_Some in Hj1; lia].
    cbv zeta in Hstep.
    set (m1 := upd o (fun x => x <| o_fields ::= <[j := None]> |>) m) in *.
    pose proof (Cur_init K b true E (Some o) E [] m Hnb HI) as C0.
    assert (Hrl : read_loc (RField o j) m = mjoin (o_fields x !! j)) by (cbn; rewrite Hx; reflexivity).
    assert (C1 : Cur K b true E (Some o) m (ol (mjoin (o_fields x !! j)) ++ E) [] m1).
    { rewrite <- Hrl. apply (Cur_write_loc K b true E (Some o) m E [] m (RField o j) None C0).
      - cbn. eauto.
      - discriminate.
      - intros p j' y [= <- <-] Hy. assert (y = x) by congruence. subst. split; [auto|]. split; [auto|]. split; [congruence | auto]. }
    set (x1 := x <| o_fields ::= <[j := None]> |>).
    assert (Hx1 : get m1 o = Some x1) by (apply get_upd_eq, Hx).
    assert (Hlow1 : forall i t, (i < S j)%nat -> o_fields x1 !! i = Some (Some t) -> False).
    { intros i t Hi Hl. unfold x1 in Hl. cbn in Hl. destruct (decide (i = j)) as [->|Hne].
      - rewrite list_lookup_insert in Hl by exact Hj. discriminate.
      - rewrite list_lookup_insert_ne in Hl by congruence. apply (Hlow i t); [lia | exact Hl]. }
    (* the subtree below a member is not affected by the update of [o] *)
    assert (Hsub : forall t0 u0, sole_at K m o t0 -> SolelyOwned K m t0 u0 -> SolelyOwned K m1 t0 u0).
    { intros t0 u0 H0. apply SO_mono. intros s t Hs Ht. apply (sole_at_clear m o x j s t Hx Hv); [|exact Ht]. left.
      assert (Hls : exists xs, get m s = Some xs /\ o_vst xs = VLive).
      { destruct Hs as [-> | Hs]; [apply (sole_at_live _ _ _ H0) | destruct (SO_live K _ _ _ Hs) as (y & ? & ? & _); eauto]. }
      destruct Hls as (xs & Hxs' & Hvs). intros ->. congruence. }
    destruct (o_fields x !! j) as [[tj|]|] eqn:Hfld; cbn [mjoin option_join ol app] in *;
      [ | | apply lookup_ge_None_1 in Hfld; lia].
    - (* field j holds a handle *)
      change (mjoin (Some (Some tj))) with (Some tj) in *. cbn [ol app] in C1.
      destruct (rec (KDropCc tj) m1) as [m2 r1] eqn:E1.
      destruct r1; [ | exfalso; eapply unwinding_not_normal; exact Hstep | discriminate | discriminate].
      assert (Hown : own_ok m1 tj).
      { intros Hd. change (inD m1 tj) with (inD m tj) in Hd.
        assert (Hl : hloc m (Some o) false tj) by (econstructor 3; eauto).
        destruct (sv_loc _ _ _ _ _ HI _ _ _ Hl) as (xt' & Hxt' & _ & _ & Hc). destruct (Hc x Hx) as [_ Hc2].
        destruct (Hc2 Hd) as (_ & _ & Hm). specialize (Hm Hv).
        unfold m1. rewrite marked_at_upd by reflexivity. rewrite (marked_at_get _ _ _ Hxt'). exact Hm. }
      assert (Hpre1 : Pre K PreC b E (KDropCc tj) m1).
      { rewrite Pre_nc by reflexivity. cbn [own_of app]. split; [apply C1|]. split; [apply C1 | exact Hown]. }
      pose proof (Hrec b E (KDropCc tj) m1 Hpre1) as HP1. rewrite E1 in HP1. cbn [fst snd] in HP1.
      destruct (Cur_call_n K PostC (KDropCc tj) _ _ _ _ _ _ _ _ _ eq_refl C1 HP1 (cnt_le_refl E) (or_introl eq_refl)) as [C2 _].
      assert (HF12 : Fr K E None m1 m2) by (rewrite Post_nc in HP1 by reflexivity; apply HP1).
      destruct (fr_obj _ _ _ _ _ HF12 o x1 Hx1) as (x2 & Hx2 & OF2).
      destruct (of_dropping _ _ _ _ _ _ _ OF2 Hv) as (V2 & F2 & _); [discriminate|].
      assert (Hpre2 : Pre K PreC b E (KDropFields o (S j)) m2).
      { rewrite Pre_nc by reflexivity. cbn [own_of app]. split; [apply C2|]. split; [apply C2|]. exists x2. auto. }
      assert (Hlow2 : forall i t, (i < S j)%nat -> o_fields x2 !! i = Some (Some t) -> False) by (rewrite F2; exact Hlow1).
      destruct (decide (t1 = tj)) as [->|Hne1].
      + (* the member is the target of this field: its own Cc::drop frees it and its subtree *)
        assert (Hlo : LastOwner m1 tj).
        { exists xt1. split; [unfold m1; rewrite get_upd_ne; [exact Hxt1 | intros ->; congruence]|]. auto. }
        destruct (HA b E tj m1 m2 Hpre1 Hlo E1) as [Hf1 Hf2].
        assert (Hfu : Freed m2 u) by (destruct Hu1 as [-> | Hu1]; [exact Hf1 | apply Hf2, (Hsub tj u H1 Hu1)]).
        pose proof (Hrec b E (KDropFields o (S j)) m2 Hpre2) as HP2. rewrite Hstep in HP2. cbn [fst snd] in HP2.
        rewrite Post_nc in HP2 by reflexivity. destruct HP2 as (_ & _ & HF2 & _).
        apply (Freed_fr K _ _ _ _ _ HF2 Hfu).
      + (* another member: frozen while the target of field j is dropped *)
        assert (Hu1' : SolelyOwned K m1 o u).
        { assert (H1' : sole_at K m1 o t1) by (apply (sole_at_clear m o x j o t1 Hx Hv); [right; congruence | exact H1]).
          destruct Hu1 as [-> | Hu1]; [apply so_child; exact H1' | eapply SO_under; [apply (Hsub t1 u H1 Hu1) | exact H1']]. }
        pose proof (Hsole b E (KDropCc tj) m1 m2 ONormal Hpre1 E1 (or_introl eq_refl) (Args_dropcc b E tj m1 Hpre1)) as Hsp.
        pose proof (sole_persist_SO K _ _ _ o x1 u Hsp Hx1 Hv ltac:(discriminate) Hu1') as Hu2.
        apply (HB b E o (S j) m2 m' x2 Hpre2 Hx2 Hlow2 Hstep u Hu2).
    - (* field j is empty *)
      change (mjoin (Some None)) with (@None id) in *. cbn [ol app] in C1.
      assert (Hpre2 : Pre K PreC b E (KDropFields o (S j)) m1).
      { rewrite Pre_nc by reflexivity. cbn [own_of app]. split; [apply C1|]. split; [apply C1|]. exists x1. auto. }
      assert (Hu1' : SolelyOwned K m1 o u).
      { assert (H1' : sole_at K m1 o t1) by (apply (sole_at_clear m o x j o t1 Hx Hv); [right; congruence | exact H1]).
        destruct Hu1 as [-> | Hu1]; [apply so_child; exact H1' | eapply SO_under; [apply (Hsub t1 u H1 Hu1) | exact H1']]. }
      apply (HB b E o (S j) m1 m' x1 Hpre2 Hx1 Hlow1 Hstep u Hu1').
  Qed.

  Lemma sole_at_heap m m' s t :
    heap m' = heap m -> wslots m' = wslots m -> wparam m' = wparam m -> cslots m' = cslots m ->
    sole_at K m s t -> sole_at K m' s t.
  Proof.
    intros Hh H1 H2 H3 (xt & xs & H). exists xt, xs. rewrite !(get_heap_eq _ _ _ Hh), (wrefs_ext m m' t H1 H2 H3 Hh). exact H.
  Qed.

  (** the value destructor; [t] is not pointed to by its own subtree because its count is 0 *)
  Lemma step_value_own b E t m m' :
    Pre K PreC b E (KDropValue t) m -> (forall x, get m t = Some x -> h_rc (o_hdr x) = 0) ->
    step_drop_value K P rec t m = (m', ONormal) -> forall u, SolelyOwned K m t u -> Freed m' u.
  Proof.
    rewrite Pre_nc by reflexivity. cbn [own_of app]. intros (Hnb & HI & Hdr) Hrc0 Hstep u Hu.
    pose proof (Cur_init K b true E (Some t) E [] m Hnb HI) as C0.
    pose proof (Cur_vst_dropping K b true E m E [] m t C0 Hdr) as C1.
    destruct Hdr as (x & Hx & He0 & Hdr).
    (* no edge of the subtree points to [t] *)
    assert (Hnot : forall s t0, sole_at K m s t0 -> t0 <> t).
    { intros s t0 (xt & xs & Hxt & _ & _ & Hrc & _) ->. assert (xt = x) by congruence. subst. rewrite (Hrc0 x Hx) in Hrc. discriminate. }
    assert (Hut : u <> t) by (destruct Hu as [t0 H0 | s t0 _ H0]; apply (Hnot _ _ H0)).
    destruct (SO_split K m t u Hu) as (t1 & H1 & _).
    pose proof H1 as (xt1 & xs & _ & _ & _ & _ & _ & _ & _ & Hxs & j1 & Hj1). assert (xs = x) by congruence. subst xs.
    assert (Hnm : o_ismap x = false).
    { destruct (o_ismap x) eqn:Hm; [|reflexivity]. destruct (sv_objx _ _ _ _ _ HI _ _ Hx) as [_ _ _ _ X5 _].
      destruct (X5 Hm) as (Hf & _). rewrite Hf in Hj1. discriminate. }
    unfold step_drop_value in Hstep. rewrite Hx, Hnm in Hstep.
    set (m1 := upd t (fun x => x <| o_vst := VDropping |>) m) in *.
    set (x1 := x <| o_vst := VDropping |>).
    assert (Hx1 : get m1 t = Some x1) by (apply get_upd_eq, Hx).
    assert (Hmain : (let m := emit (ECb KDrop t (cur_flags K m1)) m1 in
            let '(m, boom) := tick KDrop m in
            let '(m, r) := if boom then (m, raise m)
                           else rec (KScript (Some t) (oscript P (c_drop (class_of P (o_cls x))))) m in
            let '(m, r) :=
              match r with
              | ONormal => rec (KDropFields t 0) m
              | OPanic => unwinding (rec (KDropFields t 0)) m
              | _ => (m, r)
              end in
            (upd t (fun x => x <| o_vst := VDropped |>) m, r)) = (m', ONormal)).
    { destruct (o_vst x); try exact Hstep; destruct (o_box x); cbn in Hdr; try discriminate; destruct Hdr; discriminate. }
    clear Hstep. cbv zeta in Hmain.
    set (script := oscript P (c_drop (class_of P (o_cls x)))) in *.
    (* the subtree at [m1] *)
    assert (Hu1 : SolelyOwned K m1 t u).
    { revert Hu. apply SO_mono. intros s t0 _ H0. apply (sole_at_other K m m1 t s t0 (Hnot _ _ H0)); [| | | exact H0].
      - intros p Hp. apply get_upd_ne. congruence.
      - eapply wrefs_alter_same; reflexivity.
      - intros -> xs Hxs'. assert (xs = x) by congruence. subst xs. exists x1. split; [exact Hx1|]. intros j0 Hj0. exists j0. exact Hj0. }
    pose proof (Cur_tick K _ _ _ _ _ _ _ _ KDrop (Cur_emit K _ _ _ _ _ _ _ _ (ECb KDrop t (cur_flags K m1)) C1 eq_refl)) as C2.
    assert (Hh2 : forall mm, mm = (tick KDrop (emit (ECb KDrop t (cur_flags K m1)) m1)).1 ->
              heap mm = heap m1 /\ wslots mm = wslots m1 /\ wparam mm = wparam m1 /\ cslots mm = cslots m1).
    { intros mm ->. unfold tick. destruct (get_fuse KDrop _ =? 0); repeat split. }
    destruct (tick KDrop (emit (ECb KDrop t (cur_flags K m1)) m1)) as [m2 boom]; cbn [fst] in C2, Hh2.
    destruct (Hh2 m2 eq_refl) as (G1 & G2 & G3 & G4).
    assert (Hx2 : get m2 t = Some x1) by (rewrite (get_heap_eq _ _ _ G1); exact Hx1).
    assert (Hu2 : SolelyOwned K m2 t u).
    { revert Hu1. apply SO_mono. intros s t0 _ H0. apply (sole_at_heap m1 m2 s t0 G1 G2 G3 G4 H0). }
    destruct boom.
    { exfalso. unfold raise in Hmain. destruct (panicking m2); [discriminate|].
      destruct (unwinding (rec (KDropFields t 0)) m2) as [m4 r4] eqn:Hunw. injection Hmain as _ ->.
      eapply unwinding_not_normal; exact Hunw. }
    assert (Hso : self_ok E (Some t) script m2) by (right; split; [apply (wf_drop_script P Hwf) | exists x1; auto]).
    assert (Hpre2 : Pre K PreC b E (KScript (Some t) script) m2).
    { rewrite Pre_nc by reflexivity. cbn [own_of app]. split; [apply C2|]. split; [apply C2 | exact Hso]. }
    pose proof (Hrec b E (KScript (Some t) script) m2 Hpre2) as HP2.
    destruct (rec (KScript (Some t) script) m2) as [m3 r] eqn:E2. cbn [fst snd] in HP2.
    destruct r; [ | exfalso | discriminate | discriminate].
    2:{ destruct (unwinding (rec (KDropFields t 0)) m3) as [m4 r4] eqn:Hunw. injection Hmain as _ ->.
        eapply unwinding_not_normal; exact Hunw. }
    pose proof (Hsole b E _ m2 m3 ONormal Hpre2 E2 (or_introl eq_refl) (Args_script t script m2 x1 Hx2 eq_refl (wf_drop_script P Hwf _))) as Hsp.
    pose proof (sole_persist_SO K _ _ _ t x1 u Hsp Hx2 eq_refl ltac:(discriminate) Hu2) as Hu3.
    destruct (Cur_call_n K PostC (KScript (Some t) script) _ _ _ _ _ _ _ _ _ eq_refl C2 HP2 (cnt_le_refl E) (or_introl eq_refl)) as [C3 _].
    assert (HF23 : Fr K E None m2 m3) by (rewrite Post_nc in HP2 by reflexivity; apply HP2).
    destruct (fr_obj _ _ _ _ _ HF23 t x1 Hx2) as (x3 & Hx3 & OF3).
    destruct (of_dropping _ _ _ _ _ _ _ OF3 eq_refl) as (V3 & _); [discriminate|].
    assert (Hpre3 : Pre K PreC b E (KDropFields t 0) m3).
    { rewrite Pre_nc by reflexivity. cbn [own_of app]. split; [apply C3|]. split; [apply C3|]. exists x3. auto. }
    destruct (rec (KDropFields t 0) m3) as [m4 r4] eqn:E3. injection Hmain as <- ->.
    pose proof (HB b E t 0%nat m3 m4 x3 Hpre3 Hx3 ltac:(intros; lia) E3 u Hu3) as Hf.
    apply (Freed_other m4 _ t u Hut); [|exact Hf]. intros p Hp. apply get_upd_ne. congruence.
  Qed.
End OwnStep.
Section OwnTop.
  Context (K : conf) (P : prog).
  Hypothesis Hconf : k_clean K = true -> k_weak K = true.
  Hypothesis Hwf : wf_prog P = true.

  (** the frame for solely owned objects is [SoleTop.sole_frame'] (no hypothesis left) *)

  Notation GR A n := (SafeCollGuard.guarded K (Qdec K) A (run K P n)).

  Lemma GR_result A n c m m' r : GR A n c m = (m', r) -> r <> OFuel -> Q K A c m /\ run K P n c m = (m', r).
  Proof.
    unfold SafeCollGuard.guarded. destruct (Qdec K A c m) as [HQ|HQ]; [auto|]. intros [= <- <-] H. congruence.
  Qed.

  Lemma GR_sole A n b E c m m' r :
    Pre K (PreC K) b E c m -> GR A n c m = (m', r) -> r = ONormal \/ r = OPanic ->
    Args (HidX K (ex_of c) m) (RootX (ex_of c) m) c -> sole_persist K (ex_of c) m m'.
  Proof.
    intros Hpre Hr Hrr HA. destruct (GR_result A n c m m' r Hr) as [HQ Hrun]; [destruct Hrr; subst; discriminate|].
    eapply (sole_frame' K P Hconf Hwf); eauto.
  Qed.

  Notation LastOwner := (LastOwner K).
  Definition SA (rec : call -> machine -> machine * outcome) : Prop :=
    forall b E t m m', Pre K (PreC K) b E (KDropCc t) m -> LastOwner m t -> rec (KDropCc t) m = (m', ONormal) ->
      Freed m' t /\ forall u, SolelyOwned K m t u -> Freed m' u.
  Definition SV (rec : call -> machine -> machine * outcome) : Prop :=
    forall b E t m m', Pre K (PreC K) b E (KDropValue t) m -> (forall x, get m t = Some x -> h_rc (o_hdr x) = 0) ->
      rec (KDropValue t) m = (m', ONormal) -> forall u, SolelyOwned K m t u -> Freed m' u.
  Definition SB (rec : call -> machine -> machine * outcome) : Prop :=
    forall b E o j m m' x, Pre K (PreC K) b E (KDropFields o j) m -> get m o = Some x ->
      (forall i t, (i < j)%nat -> o_fields x !! i = Some (Some t) -> False) ->
      rec (KDropFields o j) m = (m', ONormal) -> forall u, SolelyOwned K m o u -> Freed m' u.

  Lemma GR_step A n c m m' : noncoll c = true ->
    GR A (S n) c m = (m', ONormal) -> step K P (GR A n) c m = (m', ONormal).
  Proof.
    intros Hc Hr. destruct (GR_result A (S n) c m m' ONormal Hr ltac:(discriminate)) as [HQ Hrun].
    rewrite (SafeCollGuard.closure K P (Qdec K) A (run K P n) c m (Buf.run_buf K P n) (SafeCollNf.run_nofuel K P n) Hc HQ).
    exact Hrun.
  Qed.

  Lemma own_all A n : SA (GR A n) /\ SV (GR A n) /\ SB (GR A n).
  Proof.
    induction n as [|n (IA & IV & IB)].
    - assert (H0 : forall c m m', GR A 0 c m = (m', ONormal) -> False).
      { intros c m m'. unfold SafeCollGuard.guarded. destruct (Qdec K A c m); cbn; discriminate. }
      split; [|split]; red; intros; exfalso; eapply H0; eauto.
    - pose proof (guarded_rec_ok K P Hconf Hwf A n) as Hrec.
      pose proof (fun b E c m m' r => GR_sole A n b E c m m' r) as Hs.
      split; [|split]; red.
      + intros b E t m m' Hpre Hlo Hr. apply GR_step in Hr; [|reflexivity].
        apply (SafeFinalOwn2.step_cc_own K P (PreC K) (PostC K) (GR A n) Hrec IV b E t m m' Hpre Hlo Hr).
      + intros b E t m m' Hpre Hrc Hr. apply GR_step in Hr; [|reflexivity].
        apply (step_value_own K P (PreC K) (PostC K) (GR A n) Hrec Hwf Hs IB b E t m m' Hpre Hrc Hr).
      + intros b E o j m m' x Hpre Hx Hlow Hr. apply GR_step in Hr; [|reflexivity].
        apply (step_fields_own K (PreC K) (PostC K) (GR A n) Hrec Hs IA IB b E o j m m' x Hpre Hx Hlow Hr).
  Qed.

  (** the last owner's drop reclaims everything it solely owned, recursively *)
  Theorem last_owner_recursive_closed n b E A o m m' :
    Pre K (PreC K) b E (KDropCc o) m -> Q K A (KDropCc o) m -> LastOwner m o ->
    run K P n (KDropCc o) m = (m', ONormal) ->
    Freed m' o /\ forall u, SolelyOwned K m o u -> Freed m' u.
  Proof.
    intros Hpre HQ Hlo Hrun. destruct (own_all A n) as (IA & _ & _).
    apply (IA b E o m m' Hpre Hlo). rewrite SafeCollGuard.guard_pass by exact HQ. exact Hrun.
  Qed.
End OwnTop.

Print Assumptions last_owner_recursive_closed.
