(** * LifeGhost4: [LifeGhost3] continued: [cmd_clean], [cmd_register]. *)
From Coq Require Import NArith Bool List Lia.
From stdpp Require Import base list option.
From RecordUpdate Require Import RecordSet.
From RC Require Import Hdr Machine RunInd LifeGhost LifeGhost2 LifeGhost3.
Import ListNotations RecordSetNotations.
Local Open Scope N_scope.

Section Rel.
  Context (K : conf) (P : prog).
  Context (MK : list id -> Prop).
  Hypothesis MK_nil : MK [].
  Hypothesis MK_app : forall a b, MK a -> MK b -> MK (a ++ b).
  Context (rec1 rec2 : call -> machine -> machine * outcome).
  Hypothesis Hrel : forall k, related MK (rec1 k) (rec2 k).

  Ltac mk_solve := repeat first [ assumption | apply MK_nil | apply MK_app ].
  Ltac noproj X :=
    lazymatch X with
    | context [fst _] => fail
    | context [snd _] => fail
    | context [match _ with _ => _ end] => fail
    | _ => idtac
    end.
  Ltac rstep :=
    first
    [ match goal with
      | |- context [unwinding (rec1 ?k) (dl ?sg ?X)] =>
        noproj X;
        let t := fresh "t" in let Ht := fresh "Ht" in let E := fresh "E" in
        destruct (unwinding_rel MK rec1 rec2 Hrel k sg X) as (t & Ht & E); rewrite E; clear E;
        rewrite <- ?app_assoc
      | |- context [rec1 ?k (dl ?sg ?X)] =>
        noproj X;
        let t := fresh "t" in let Ht := fresh "Ht" in let E := fresh "E" in
        destruct (Hrel k sg X) as (t & Ht & E); rewrite E; clear E;
        rewrite <- ?app_assoc
      | |- context [fold_left ?f ?l (dl ?sg ?X)] =>
        rewrite (fold_dl f sg) by (intros; autorewrite with dlr; reflexivity)
      end
    | dstep_proj
    | dstep_bind
    | dstep_fmap
    | dstep_match ].
  Ltac rfin := try (eexists; split; [ | reflexivity ]; mk_solve).
  Ltac rgo := intros s m; rewrite (dl_app_nil s m); dlnorm; repeat (rstep; dlnorm); rfin.

  Lemma r_cmd_clean self c : related MK (cmd_clean K rec1 self c) (cmd_clean K rec2 self c).
  Proof. unfold cmd_clean. rgo. Qed.
  Lemma r_cmd_register self nd script c :
    related MK (cmd_register K P rec1 self nd script c) (cmd_register K P rec2 self nd script c).
  Proof. unfold cmd_register. rgo. Qed.
End Rel.
