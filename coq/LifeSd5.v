(** * LifeSd5: side records: the activations that allocate boxes and side records, the dispatch,
    the program-level theorem. *)
From Coq Require Import NArith Bool List Lia.
From stdpp Require Import base list option.
From RecordUpdate Require Import RecordSet.
From RC Require Import Hdr Machine RunInd Flags Flags2.
From RC Require Import Inv InvP SafeHelpers SafePrims SafeCalls SafeMain SafeColl SafeFinal.
From RC Require Import LifeGhost Life LifeInv LifeInv2 LifeChk LifeStep3 LifeStep4 LifeSd LifeSd2 LifeSd3 LifeSd4.
Import ListNotations RecordSetNotations.
Local Open Scope N_scope.

Section Special.
  Context (K : conf) (P : prog) (mu : id).
  Notation SLs := (SLs mu).
  Notation G := (LifeInv.G mu).
  Context (rec : call -> machine -> machine * outcome).
  Hypothesis HR : RecS mu rec.

  Lemma ss_init_side_own n0 m0 o m : (n0 <= o)%nat -> SLs n0 m0 m -> SLs n0 m0 (init_side o m).
  Proof. intros Hn H. eapply SLs_trans; [exact H|]. apply init_side_step. intros _ x _. left. exact Hn. Qed.

  Definition SatS (m : machine) (o : id) : Prop := G m -> exists x, get m o = Some x /\ FS x.

  Lemma s_trigger n0 m0 m2 o : (n0 <= length (heap m0))%nat -> SLs n0 m0 m2 -> SatS m2 o ->
    exists m3 t, (if k_auto K then rec KTrigger m2 else (m2, ONormal)) = (m3, t) /\ SLs n0 m0 m3 /\ SatS m3 o.
  Proof.
    intros Hn0 HP HS. destruct (k_auto K); [|exists m2, ONormal; auto].
    pose proof (HR KTrigger m2) as HL. pose proof (SLs_step mu n0 m0 m2 _ Hn0 HP HL) as HP3.
    assert (HS3 : SatS (rec KTrigger m2).1 o).
    { intros HG. destruct HL as (A & _ & C). destruct (HS (A HG)) as (x & Hx & Hf). destruct (C HG) as [_ F].
      destruct (F o x (lookup_lt_Some _ _ _ Hx) Hx) as (x' & Hx' & Hf' & _). eauto. }
    destruct (rec KTrigger m2) as [m3 t]. exists m3, t. auto.
  Qed.

  Lemma s_box_alloc_own n0 m0 o m : (n0 <= o)%nat -> SLs n0 m0 m -> SatS m o -> SLs n0 m0 (box_alloc K o m).
  Proof.
    intros Hn H HS. eapply SLs_trans; [exact H|]. apply box_alloc_step; [exact Hn|].
    intros HG x Hx. destruct (HS HG) as (y & Hy & Hf). congruence.
  Qed.

  Lemma s_cmd_new self dst cls m : SLs (length (heap m)) m (cmd_new K P rec self dst cls m).1.
  Proof.
    unfold cmd_new. pose proof (SLs_refl mu (length (heap m)) m) as HP0.
    assert (HQ1 : Quiet m (resolve self dst m).1) by lq.
    assert (HP1 : SLs (length (heap m)) m (resolve self dst m).1) by posqS. pose proof (Quiet_len _ _ HQ1) as HL1.
    destruct (resolve self dst m) as [m1 r]. cbn [fst snd] in *. destruct r as [r|]; [|finS].
    unfold new_node. cbv zeta.
    set (x0 := Obj (hdr_new false) VLive BNotYet None cls false (replicate (c_nf (class_of P cls)) None)
                   (replicate (c_nw (class_of P cls)) None) None false [] [] false).
    set (o := length (heap m1)).
    pose proof (SLs_trans mu _ m m1 _ HP1 (new_step mu (length (heap m)) m1 x0 eq_refl eq_refl)) as HP2.
    assert (HS2 : SatS (m1 <| heap ::= fun h => h ++ [x0] |>) o).
    { intros _. exists x0. split; [apply get_new | repeat split]. }
    destruct (s_trigger _ m _ o (Nat.le_refl _) HP2 HS2) as (m3 & t & -> & HP3 & HS3).
    destruct t; try finS.
    assert (HP4 : SLs (length (heap m)) m (box_alloc K o m3)) by (apply s_box_alloc_own; [unfold o; lia | assumption | assumption]).
    clear HP0 HP1 HP2 HP3. repeat advS; finS.
  Qed.

  Lemma s_cmd_downgrade self l w m :
    chk (KCmd self (CDowngrade l w)) m = true -> SLs (length (heap m)) m (cmd_downgrade K self l w m).1.
  Proof.
    intros Hc. cbn [chk] in Hc. unfold cmd_downgrade. pose proof (SLs_refl mu (length (heap m)) m) as HP0.
    destruct (negb (k_weak K)); [finS|].
    assert (HP1 : SLs (length (heap m)) m (resolve self l m).1) by posqS.
    destruct (resolve self l m) as [m1 r]. cbn [fst snd] in *.
    assert (HP2 : SLs (length (heap m)) m (wresolve self w m1).1) by posqS.
    destruct (wresolve self w m1) as [m2 rw]. cbn [fst snd] in *.
    destruct (r ≫= λ r0, read_loc r0 m2) as [o|]; [|finS]. destruct rw as [rw|]; [|finS].
    destruct (negb (wloc_writable rw)); [finS|].
    destruct (live_alloc_spec m2 o Hc) as (x & Hx & Hv & Hb).
    assert (HP3 : SLs (length (heap m)) m (init_side o m2)).
    { eapply SLs_trans; [exact HP2|]. apply init_side_step. intros _ y Hy. right.
      assert (y = x) by congruence. subst y. unfold notyet. rewrite Hb. reflexivity. }
    cbv zeta. set (m3 := init_side o m2) in *. clearbody m3. clear HP0 HP1 HP2.
    repeat advS; finS.
  Qed.

  Lemma s_cmd_new_cyclic self dst cls script sw m :
    SLs (length (heap m)) m (cmd_new_cyclic K P rec self dst cls script sw m).1.
  Proof.
    unfold cmd_new_cyclic. pose proof (SLs_refl mu (length (heap m)) m) as HP0.
    destruct (negb (k_weak K)); [finS|].
    assert (HQ1 : Quiet m (resolve self dst m).1) by lq.
    assert (HP1 : SLs (length (heap m)) m (resolve self dst m).1) by posqS. pose proof (Quiet_len _ _ HQ1) as HL1.
    destruct (resolve self dst m) as [m1 r]. cbn [fst snd] in *. destruct r as [r|]; [|finS].
    unfold new_node. cbv zeta.
    set (x0 := Obj (hdr_new false) VLive BNotYet None cls false (replicate (c_nf (class_of P cls)) None)
                   (replicate (c_nw (class_of P cls)) None) None false [] [] false).
    set (o := length (heap m1)). set (n0 := length (heap m)) in *.
    assert (Hno : (n0 <= o)%nat) by (unfold o; lia).
    set (m2 := m1 <| heap ::= fun h => h ++ [x0] |>).
    pose proof (SLs_trans mu _ m m1 _ HP1 (new_step mu n0 m1 x0 eq_refl eq_refl)) as HP2. fold m2 in HP2.
    assert (Hx2 : get m2 o = Some x0) by apply get_new.
    assert (HP3 : SLs n0 m (upd o (fun x => x <| o_vst := VUninit |>) m2)) by posqS.
    assert (HS3 : SatS (upd o (fun x => x <| o_vst := VUninit |>) m2) o).
    { intros _. eexists. split; [apply (get_upd_eq o _ m2 x0 Hx2) | repeat split]. }
    destruct (s_trigger n0 m _ o (Nat.le_refl _) HP3 HS3) as (m4 & t & -> & HP4 & HS4).
    destruct t; try finS.
    assert (HP5 : SLs n0 m (init_side o (box_alloc K o m4))).
    { apply ss_init_side_own; [exact Hno|]. apply s_box_alloc_own; assumption. }
    set (m6 := init_side o (box_alloc K o m4)) in *. clearbody m6. clear HP0 HP1 HP2 HP3 HP4 HS3 HS4.
    repeat advS; finS.
  Qed.

  (** ** [Cleaner::register] *)
  Lemma s_trigger_cl n0 m0 m2 mo o x : (n0 <= length (heap m0))%nat -> (n0 <= length (heap m2))%nat ->
    SLs n0 m0 m2 -> SatS m2 mo -> get m2 o = Some x -> o_cleaner x = None ->
    exists m3 t, (if k_auto K then rec KTrigger m2 else (m2, ONormal)) = (m3, t) /\ SLs n0 m0 m3 /\ SatS m3 mo /\
      (G m3 -> forall y t0, get m3 o = Some y -> o_cleaner y = Some t0 -> (n0 <= t0)%nat).
  Proof.
    intros Hn0 Hn2 HP HS Hx Hc. destruct (k_auto K).
    - pose proof (HR KTrigger m2) as HL. pose proof (SLs_step mu n0 m0 m2 _ Hn0 HP HL) as HP3.
      assert (HS3 : SatS (rec KTrigger m2).1 mo).
      { intros HG. destruct HL as (A & _ & C). destruct (HS (A HG)) as (z & Hz & Hf). destruct (C HG) as [_ F].
        destruct (F mo z (lookup_lt_Some _ _ _ Hz) Hz) as (z' & Hz' & Hf' & _). eauto. }
      assert (Hcl : G (rec KTrigger m2).1 -> forall y t0, get (rec KTrigger m2).1 o = Some y -> o_cleaner y = Some t0 -> (n0 <= t0)%nat).
      { intros HG y t0 Hy Hct. destruct HL as (_ & _ & C). destruct (C HG) as [_ F].
        destruct (F o x (lookup_lt_Some _ _ _ Hx) Hx) as (y' & Hy' & _ & Hcc). assert (y' = y) by congruence. subst y'.
        destruct (Hcc t0 Hct) as [H|H]; [congruence | lia]. }
      destruct (rec KTrigger m2) as [m3 t]. exists m3, t. auto.
    - exists m2, ONormal. split; [reflexivity|]. split; [exact HP|]. split; [exact HS|].
      intros _ y t0 Hy Hct. assert (y = x) by congruence. subst y. congruence.
  Qed.

  Lemma get_box_alloc_ne o mo m : o <> mo -> get (box_alloc K mo m) o = get m o.
  Proof.
    intros Hne. unfold box_alloc. destruct (get m mo) as [ym|]; [|reflexivity]. destruct (box_layout K ym).
    match goal with |- get (emit ?e (upd mo ?f ?mm)) o = _ =>
      change (get (emit e (upd mo f mm)) o) with (get (upd mo f mm) o) end.
    rewrite get_upd_ne by exact Hne. reflexivity.
  Qed.

  Lemma s_cmd_register self nd script c m :
    chk (KCmd self (CRegister nd script c)) m = true ->
    SLs (length (heap m)) m (cmd_register K P rec self nd script c m).1.
  Proof.
    intros Hc. cbn [chk] in Hc. unfold cmd_register. pose proof (SLs_refl mu (length (heap m)) m) as HP0.
    destruct (negb (k_clean K)); [finS|].
    assert (HQ1 : Quiet m (nresolve self nd m).1) by lq.
    assert (HP1 : SLs (length (heap m)) m (nresolve self nd m).1) by posqS. pose proof (Quiet_len _ _ HQ1) as HL1.
    destruct (nresolve self nd m) as [m1 no]. cbn [fst snd] in *. destruct no as [o|]; [|finS].
    destruct (cslots m1 !! c); [|finS]. destruct (get m1 o) as [x|] eqn:Hx; [|finS]. cbn [mbind option_bind] in Hc.
    destruct (negb (c_cleaner (class_of P (o_cls x))) || o_ismap x); [finS|].
    set (n0 := length (heap m)) in *.
    match goal with |- LifeSd.SLs _ _ _ (match ?E with pair _ _ => _ end).1 => set (MID := E) end.
    assert (Hmid : SLs n0 m MID.1.1 /\
                   (G MID.1.1 -> (n0 <= MID.1.2)%nat \/ exists y, get MID.1.1 MID.1.2 = Some y /\ notyet y = false)).
    { unfold MID. destruct (o_cleaner x) as [mo|] eqn:Hcl.
      { cbn [fst snd]. split; [exact HP1|]. intros _. right. destruct (get m1 mo) as [y|]; [|discriminate].
        exists y. split; [reflexivity|]. unfold is_alloc in Hc. unfold notyet. destruct (o_box y); congruence. }
      unfold new_map. cbv zeta.
      set (x0 := Obj (hdr_new false) VLive BNotYet None 0 true [] [] None false [] [] false).
      set (mo := length (heap m1)).
      assert (Hno : (n0 <= mo)%nat) by (unfold mo; lia).
      set (m2 := m1 <| heap ::= fun h => h ++ [x0] |>).
      pose proof (SLs_trans mu _ m m1 _ HP1 (new_step mu n0 m1 x0 eq_refl eq_refl)) as HP2. fold m2 in HP2.
      assert (HS2 : SatS m2 mo) by (intros _; exists x0; split; [apply get_new | repeat split]).
      assert (Ho2 : get m2 o = Some x).
      { unfold get, m2 in *. cbn. rewrite lookup_app_l; [exact Hx | apply lookup_lt_Some in Hx; exact Hx]. }
      assert (Hn2 : (n0 <= length (heap m2))%nat) by (unfold m2; cbn; rewrite app_length; cbn; lia).
      destruct (s_trigger_cl n0 m m2 mo o x (Nat.le_refl _) Hn2 HP2 HS2 Ho2 Hcl) as (m3 & t & -> & HP3 & HS3 & Hcl3).
      assert (Hne : o <> mo) by (apply lookup_lt_Some in Hx; unfold mo; unfold id in *; lia).
      destruct t.
      - cbv zeta. assert (HP4 : SLs n0 m (box_alloc K mo m3)) by (apply s_box_alloc_own; assumption).
        assert (HG43 : G (box_alloc K mo m3) -> G m3).
        { destruct (box_alloc_step mu K n0 mo m3 Hno) as (A & _); [|exact A].
          intros HG' y Hy. destruct (HS3 HG') as (y' & Hy' & Hf). congruence. }
        rewrite (get_box_alloc_ne o mo m3 Hne).
        destruct (get m3 o ≫= o_cleaner) as [existing|] eqn:Hex.
        + pose proof (SLs_rec mu rec n0 m _ (KDropCc mo) (Nat.le_refl _) HR HP4) as HP5.
          pose proof (HR (KDropCc mo) (box_alloc K mo m3)) as (A5 & _).
          destruct (rec (KDropCc mo) (box_alloc K mo m3)) as [m4 r]. cbn [fst snd] in *. split; [exact HP5|].
          intros HG4. left. destruct (get m3 o) as [y|] eqn:Hy; [|discriminate]. cbn in Hex.
          exact (Hcl3 (HG43 (A5 HG4)) y existing eq_refl Hex).
        + cbn [fst snd]. split; [|intros _; left; exact Hno]. apply ss_set_cleaner; [intros t0 [= <-]; exact Hno | exact HP4].
      - pose proof (SLs_unwinding mu rec n0 m m3 (KDropValue mo) (Nat.le_refl _) HR HP3) as HP5.
        destruct (unwinding (rec (KDropValue mo)) m3) as [m4 r]. cbn [fst snd]. split; [exact HP5 | intros _; left; exact Hno].
      - cbn [fst snd]. split; [exact HP3 | intros _; left; exact Hno].
      - cbn [fst snd]. split; [exact HP3 | intros _; left; exact Hno]. }
    destruct MID as [[m2 mo] r]. cbn [fst snd] in Hmid. destruct Hmid as [HP2 Hmo]. clear HP0 HP1.
    destruct r; try finS.
    destruct (get m2 mo) as [mx|] eqn:Hmx; [|finS]. destruct (o_mborrowed mx); [finS|].
    cbv zeta.
    set (m3 := map_insert mo (next_aid m2) script (m2 <| next_aid := S (next_aid m2) |>)).
    assert (HQ3 : Quiet m2 m3.1) by (unfold m3; lq).
    assert (HP3 : SLs n0 m m3.1) by (unfold m3; posqS).
    destruct m3 as [m3' slot]. cbn [fst snd] in *.
    assert (HP4 : SLs n0 m (init_side mo m3')).
    { eapply SLs_trans; [exact HP3|]. apply init_side_step. intros HG3 y Hy.
      destruct (Hmo (Quiet_G mu m2 m3' HQ3 HG3)) as [Hge|(y2 & Hy2 & Hn2)]; [left; exact Hge|]. right.
      injection Hy2 as <-.
      destruct (Quiet_get m2 m3' mo mx HQ3 Hmx) as (y' & Hy' & Hl). assert (y' = y) by congruence. subst y'.
      unfold notyet in *. rewrite (lv_box _ _ Hl). exact Hn2. }
    set (m4 := init_side mo m3') in *. clearbody m4. clear HP2 HP3.
    repeat advS; finS.
  Qed.

  (** ** every activation *)
  Ltac ap L := first [ apply L; assumption | eapply L; eassumption ].

  Lemma s_step_cmd self c m : chk (KCmd self c) m = true -> SLs (length (heap m)) m (step_cmd K P rec self c m).1.
  Proof.
    intros Hc. destruct c; cbn [step_cmd].
    - ap s_cmd_new.
    - ap s_cmd_clone.
    - ap s_cmd_drop.
    - ap s_cmd_move.
    - ap s_cmd_mark_alive.
    - ap s_cmd_collect.
    - ap s_cmd_downgrade.
    - ap s_cmd_upgrade.
    - ap s_cmd_w_new.
    - ap s_cmd_w_clone.
    - ap s_cmd_w_drop.
    - ap s_cmd_try_unwrap.
    - ap s_cmd_drop_value.
    - ap s_cmd_fin_again.
    - ap s_cmd_new_cyclic.
    - ap s_cmd_register.
    - ap s_cmd_clean.
    - ap s_cmd_c_drop.
    - ap s_cmd_bag.
    - ap s_cmd_unbag.
    - ap s_cmd_borrow.
    - ap s_cmd_unborrow.
    - ap s_cmd_cfg_auto.
    - ap s_cmd_cfg_percent.
    - ap s_cmd_cfg_buffered.
    - ap s_cmd_arm.
    - ap s_cmd_panic.
    - ap s_cmd_obs.
    - ap s_cmd_w_obs.
    - ap s_cmd_s_obs.
  Qed.

  Theorem s_step c m : chk c m = true -> SLs (length (heap m)) m (step K P rec c m).1.
  Proof.
    intros Hc. destruct c; cbn [step].
    - ap s_step_cmd.
    - ap s_step_script.
    - ap s_step_store.
    - ap s_step_drop_cc.
    - ap s_step_drop_value.
    - ap s_step_drop_fields.
    - ap s_step_drop_map_slots.
    - ap s_step_trigger.
    - ap s_step_collect_cycles.
    - ap s_step_collect.
    - ap s_step_collect_loop.
    - ap s_step_collect_once.
    - ap s_step_finalize_list.
    - ap s_step_drop_list.
    - ap s_step_unbag.
    - ap s_step_clean_run.
  Qed.
End Special.

(** ** Programs *)
Section Prog.
  Context (K : conf) (P : prog).
  Hypothesis Hconf : k_clean K = true -> k_weak K = true.
  Hypothesis Hwf : wf_prog P = true.

  Definition PostS (mu : id) (c : call) (m m' : machine) (r : outcome) : Prop := SLs mu (length (heap m)) m m'.

  Lemma mrun_sd mu n : rec_ok (fun _ _ => True) (PostS mu) (mrun K P chk mu n).
  Proof.
    apply (mrun_ind K P chk chk_dl mu (fun _ _ => True) (PostS mu)).
    - intros c m m' r Hm. apply SLs_vac. intros [_ H]. congruence.
    - intros rec Hrec c m _ Hc. apply (s_step K P mu rec (fun c' m' => Hrec c' m' I) c m Hc).
    - intros c m _. apply SLs_refl.
  Qed.

  Definition TopS (mu : id) (m : machine) : Prop := LifeInv.G mu m -> SLinv m.

  Lemma TopS_mexec mu fuel c m : TopS mu m -> TopS mu (mexec_top K P chk mu fuel c m).
  Proof.
    intros HT. unfold mexec_top.
    pose proof (mrun_sd mu fuel (KCmd None c) m I) as HL. unfold PostS in HL.
    destruct (mrun K P chk mu fuel (KCmd None c) m) as [m1 r]. cbn [fst snd] in *.
    assert (HL2 : SLs mu (length (heap m)) m
              match r with ONormal => m1 | OPanic => emit (ERes RPanicked) m1 | OAbort => emit_bad Abort 0 m1 | OFuel => emit_bad Fuel 0 m1 end)
      by (destruct r; lss).
    destruct HL2 as (A & B & _). intros HG. apply (B HG), HT, A, HG.
  Qed.
  Lemma TopS_mfold mu fuel cmds : forall m, TopS mu m -> TopS mu (fold_left (fun m c => mexec_top K P chk mu fuel c m) cmds m).
  Proof. induction cmds as [|c cs IH]; intros m HT; [exact HT|]. cbn [fold_left]. apply IH, TopS_mexec, HT. Qed.

  Theorem prog_slinv fuel cmds :
    let m := fold_left (fun m c => exec_top K P fuel c m) cmds (init K) in
    clean m = true -> SLinv m.
  Proof.
    intros m Hcl. set (mu := length (heap m)).
    pose proof (mfold_eq K P Hconf Hwf chk chk_dl (chk_ok K) mu fuel cmds Hcl (Nat.le_refl _)) as E.
    assert (HT0 : TopS mu (init K)).
    { intros _. split; [exact I|]. split; [intros e o []|]. intros o x Hx. destruct o; discriminate. }
    pose proof (TopS_mfold mu fuel cmds (init K) HT0) as HT. rewrite E in HT. apply HT.
    destruct (safe_programs_sinv K P fuel cmds Hconf Hwf Hcl) as (b & Hnb & HI & _). fold m in Hnb, HI.
    split; [exact Hnb|]. destruct (mem_id mu (dead m)) eqn:Hd; [|exact Hd]. exfalso.
    destruct (sv_dead _ _ _ _ _ HI mu Hd) as [y Hy]. apply lookup_lt_Some in Hy. unfold mu in Hy. lia.
  Qed.

  (** the readable form *)
  Theorem prog_side_events fuel cmds :
    let m := fold_left (fun m c => exec_top K P fuel c m) cmds (init K) in
    clean m = true ->
    (forall o, (cntE (isSA o) (log m) <= 1)%nat /\ (cntE (isSF o) (log m) <= 1)%nat) /\
    (forall l1 o l2, log m = l1 ++ ESFree o :: l2 -> In (ESAlloc o) l2 /\ cntE (isSF o) l2 = 0%nat) /\
    (forall l1 o l2, log m = l1 ++ ESAlloc o :: l2 -> cntE (isSA o) l2 = 0%nat) /\
    (forall o x, get m o = Some x ->
       ((0 < cntE (isSA o) (log m))%nat <-> o_side x <> None) /\
       ((0 < cntE (isSF o) (log m))%nat <-> exists s, o_side x = Some s /\ sd_freed s = true) /\
       (h_side (o_hdr x) = true <-> o_side x <> None)) /\
    (forall e o, In e (log m) -> evs_id e = Some o -> is_Some (get m o)).
  Proof.
    intros m Hcl. destruct (prog_slinv fuel cmds Hcl) as (W & S & HO). fold m in W, S, HO.
    assert (Hsplit : forall l1 e l2, lwfS (l1 ++ e :: l2) -> evwfS e l2).
    { induction l1 as [|a l1 IH]; cbn; intros e l2 [H1 H2]; [exact H1 | apply IH, H2]. }
    assert (Habs : forall (p : event -> bool) o, (forall e, p e = true -> evs_id e = Some o) -> get m o = None -> cntE p (log m) = 0%nat).
    { intros p o Hp Hn. destruct (cntE p (log m)) eqn:E; [reflexivity|]. exfalso.
      assert (Hpos : (0 < cntE p (log m))%nat) by lia. apply cntE_pos in Hpos as (e & Hin & He).
      specialize (S e o Hin (Hp e He)). apply lookup_ge_None in Hn. unfold id in *. lia. }
    split; [|split; [|split; [|split]]].
    - intros o. destruct (get m o) as [x|] eqn:Hx.
      + destruct (HO o x Hx) as [H1 H2 H3]. rewrite H1, H2. destruct (h_side (o_hdr x)), (sside x) as [[|]|]; lia.
      + rewrite (Habs (isSA o) o), (Habs (isSF o) o); try exact Hx; [lia | |];
          intros e He; destruct e; try discriminate; cbn in *; apply Nat.eqb_eq in He; congruence.
    - intros l1 o l2 E. rewrite E in W. exact (Hsplit l1 _ l2 W).
    - intros l1 o l2 E. rewrite E in W. exact (Hsplit l1 _ l2 W).
    - intros o x Hx. destruct (HO o x Hx) as [H1 H2 H3]. unfold sside in *. rewrite H1, H2, H3.
      destruct (o_side x) as [s|]; [destruct (sd_freed s) eqn:Hf|]; repeat split; intros; try lia; try congruence; eauto;
        try (destruct H as (s0 & [= <-] & Hs0); congruence); try (destruct H as (s0 & Hs0 & _); discriminate).
    - intros e o Hin Hid. apply lookup_lt_is_Some_2. exact (S e o Hin Hid).
  Qed.
End Prog.

Print Assumptions prog_side_events.
