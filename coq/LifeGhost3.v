(** * LifeGhost3: [LifeGhost2] continued: the commands, [step], and the theorem for [run]:
    [run n k (dl s m) = (dl s (run n k m).1, (run n k m).2)] (the field [dead] is a ghost). *)
From Coq Require Import NArith Bool List Lia.
From stdpp Require Import base list option.
From RecordUpdate Require Import RecordSet.
From RC Require Import Hdr Machine RunInd LifeGhost LifeGhost2.
Import ListNotations RecordSetNotations.
Local Open Scope N_scope.

Section Rel.
  Context (K : conf) (P : prog).
  Context (MK : list id -> Prop).
  Hypothesis MK_nil : MK [].
  Hypothesis MK_app : forall a b, MK a -> MK b -> MK (a ++ b).
  Context (rec1 rec2 : call -> machine -> machine * outcome).
  Hypothesis Hrel : forall k, related MK (rec1 k) (rec2 k).

  Ltac mk_solve := repeat first [ assumption | apply MK_nil | apply MK_app ].
  Ltac noproj X :=
    lazymatch X with
    | context [fst _] => fail
    | context [snd _] => fail
    | context [match _ with _ => _ end] => fail
    | _ => idtac
    end.
  Ltac rstep :=
    first
    [ match goal with
      | |- context [unwinding (rec1 ?k) (dl ?sg ?X)] =>
        noproj X;
        let t := fresh "t" in let Ht := fresh "Ht" in let E := fresh "E" in
        destruct (unwinding_rel MK rec1 rec2 Hrel k sg X) as (t & Ht & E); rewrite E; clear E;
        rewrite <- ?app_assoc
      | |- context [rec1 ?k (dl ?sg ?X)] =>
        noproj X;
        let t := fresh "t" in let Ht := fresh "Ht" in let E := fresh "E" in
        destruct (Hrel k sg X) as (t & Ht & E); rewrite E; clear E;
        rewrite <- ?app_assoc
      | |- context [fold_left ?f ?l (dl ?sg ?X)] =>
        rewrite (fold_dl f sg) by (intros; autorewrite with dlr; reflexivity)
      end
    | dstep_proj
    | dstep_bind
    | dstep_fmap
    | dstep_match ].
  Ltac rfin := try (eexists; split; [ | reflexivity ]; mk_solve).
  Ltac rgo := intros s m; rewrite (dl_app_nil s m); dlnorm; repeat (rstep; dlnorm); rfin.

  Lemma r_cmd_new self dst cls : related MK (cmd_new K P rec1 self dst cls) (cmd_new K P rec2 self dst cls).
  Proof. unfold cmd_new. rgo. Qed.
  Lemma r_cmd_clone self src dst : related MK (cmd_clone rec1 self src dst) (cmd_clone rec2 self src dst).
  Proof. unfold cmd_clone. rgo. Qed.
  Lemma r_cmd_drop self l : related MK (cmd_drop rec1 self l) (cmd_drop rec2 self l).
  Proof. unfold cmd_drop. rgo. Qed.
  Lemma r_cmd_move self src dst : related MK (cmd_move rec1 self src dst) (cmd_move rec2 self src dst).
  Proof. unfold cmd_move. rgo. Qed.
  Lemma r_cmd_mark_alive self l : related MK (cmd_mark_alive self l) (cmd_mark_alive self l).
  Proof. unfold cmd_mark_alive. rgo. Qed.
  Lemma r_cmd_collect self : related MK (cmd_collect rec1 self) (cmd_collect rec2 self).
  Proof. unfold cmd_collect. rgo. Qed.
  Lemma r_cmd_downgrade self l w : related MK (cmd_downgrade K self l w) (cmd_downgrade K self l w).
  Proof. unfold cmd_downgrade. rgo. Qed.
  Lemma r_cmd_upgrade self w dst : related MK (cmd_upgrade K rec1 self w dst) (cmd_upgrade K rec2 self w dst).
  Proof. unfold cmd_upgrade. rgo. Qed.
  Lemma r_cmd_w_new self w : related MK (cmd_w_new K self w) (cmd_w_new K self w).
  Proof. unfold cmd_w_new. rgo. Qed.
  Lemma r_cmd_w_clone self src dst : related MK (cmd_w_clone K self src dst) (cmd_w_clone K self src dst).
  Proof. unfold cmd_w_clone. rgo. Qed.
  Lemma r_cmd_w_drop self w : related MK (cmd_w_drop K self w) (cmd_w_drop K self w).
  Proof. unfold cmd_w_drop. rgo. Qed.
  Lemma r_cmd_try_unwrap self l v : related MK (cmd_try_unwrap K self l v) (cmd_try_unwrap K self l v).
  Proof. unfold cmd_try_unwrap. rgo. Qed.
  Lemma r_cmd_drop_value self v : related MK (cmd_drop_value rec1 self v) (cmd_drop_value rec2 self v).
  Proof. unfold cmd_drop_value. rgo. Qed.
  Lemma r_cmd_fin_again self l : related MK (cmd_fin_again K self l) (cmd_fin_again K self l).
  Proof. unfold cmd_fin_again. rgo. Qed.
  Lemma r_cmd_c_drop self c : related MK (cmd_c_drop K self c) (cmd_c_drop K self c).
  Proof. unfold cmd_c_drop. rgo. Qed.
  Lemma r_cmd_unbag self k : related MK (cmd_unbag rec1 self k) (cmd_unbag rec2 self k).
  Proof. unfold cmd_unbag. rgo. Qed.
  Lemma r_cmd_borrow self nd : related MK (cmd_borrow self nd) (cmd_borrow self nd).
  Proof. unfold cmd_borrow. rgo. Qed.
  Lemma r_cmd_unborrow self nd : related MK (cmd_unborrow self nd) (cmd_unborrow self nd).
  Proof. unfold cmd_unborrow. rgo. Qed.
  Lemma r_cmd_cfg_auto self b : related MK (cmd_cfg_auto K self b) (cmd_cfg_auto K self b).
  Proof. unfold cmd_cfg_auto. rgo. Qed.
  Lemma r_cmd_cfg_percent self n e : related MK (cmd_cfg_percent K self n e) (cmd_cfg_percent K self n e).
  Proof. unfold cmd_cfg_percent. rgo. Qed.
  Lemma r_cmd_cfg_buffered self b : related MK (cmd_cfg_buffered K self b) (cmd_cfg_buffered K self b).
  Proof. unfold cmd_cfg_buffered. rgo. Qed.
  Lemma r_cmd_arm self k v : related MK (cmd_arm self k v) (cmd_arm self k v).
  Proof. unfold cmd_arm. rgo. Qed.
  Lemma r_cmd_panic self : related MK (cmd_panic self) (cmd_panic self).
  Proof. unfold cmd_panic. rgo. Qed.
  Lemma r_cmd_obs self l : related MK (cmd_obs self l) (cmd_obs self l).
  Proof. unfold cmd_obs. rgo. Qed.
  Lemma r_cmd_w_obs self w : related MK (cmd_w_obs K self w) (cmd_w_obs K self w).
  Proof. unfold cmd_w_obs. rgo. Qed.
  Lemma r_cmd_s_obs self : related MK (cmd_s_obs K self) (cmd_s_obs K self).
  Proof. unfold cmd_s_obs. rgo. Qed.
End Rel.
