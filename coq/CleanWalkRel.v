(** * CleanWalkRel: the invariant [J] ("a CleanerMap whose value is being / has been destroyed is
    named by no Cleaner; once destroyed it holds no action"; Cleaner fields name existing
    objects) and the relation [R e n h0 h] between an earlier view [h0] and a later view [h];
    [n] is the heap size at the entry of the activation that is being walked: objects [>= n]
    are its own fresh objects, [e] is the object whose own drop glue it is.
    - the heap grows, [o_ismap] is stable;
    - [r_kc]: a Cleaner field only changes to [None] or to an object allocated meanwhile;
    - [r_ku]: an (old) object that no Cleaner names receives no action;
    - [r_v]: an (old) value that never got a box and is not being destroyed stays so (except [e]);
    - [r_bm]: a box that was allocated once is never "not yet allocated" again. *)
From Coq Require Import NArith Bool List Lia.
From stdpp Require Import base list option.
From RecordUpdate Require Import RecordSet.
From RC Require Import Hdr Machine RunInd Clean CleanFrame CleanUFrame CleanWalk.
Import ListNotations RecordSetNotations.

Implicit Types (h : list zobj) (w : zobj) (o p y mo k n : nat) (e : option nat).

Definition zunl h o : Prop := forall y w, h !! y = Some w -> z_cleaner w <> Some o.
Definition zdeadb w : bool := match z_vst w with VDropping | VDropped => true | _ => false end.
Definition noact (l : list mslot) : Prop := forall k a s, l !! k <> Some (MAction a s).

Definition Jd h : Prop :=
  forall o w, h !! o = Some w -> z_ismap w = true -> zdeadb w = true ->
    zunl h o /\ (z_vst w = VDropped -> noact (z_slots w)).
Definition Jc h : Prop := forall y w mo, h !! y = Some w -> z_cleaner w = Some mo -> mo < length h.
Definition J h : Prop := Jd h /\ Jc h.

Record R e n (h0 h : list zobj) : Prop := {
  r_len : length h0 <= length h;
  r_ism : forall o w, h0 !! o = Some w -> exists w', h !! o = Some w' /\ z_ismap w' = z_ismap w;
  r_kc : forall y w' mo, h !! y = Some w' -> z_cleaner w' = Some mo ->
           (exists w, h0 !! y = Some w /\ z_cleaner w = Some mo) \/ n <= mo;
  r_ku : forall o, o < n -> zunl h0 o -> forall w' k a s, h !! o = Some w' ->
           z_slots w' !! k = Some (MAction a s) ->
           exists w, h0 !! o = Some w /\ z_slots w !! k = Some (MAction a s);
  r_v : forall p w, p < n -> h0 !! p = Some w -> e <> Some p -> z_box w = BNotYet -> zdeadb w = false ->
          exists w', h !! p = Some w' /\ z_box w' = BNotYet /\ zdeadb w' = false;
  r_bm : forall p w, h0 !! p = Some w -> z_box w <> BNotYet ->
          exists w', h !! p = Some w' /\ z_box w' <> BNotYet }.

Lemma R_refl e n h : R e n h h.
Proof. constructor; eauto. Qed.

Lemma zunl_mono e n h0 h o : R e n h0 h -> o < n -> zunl h0 o -> zunl h o.
Proof.
  intros HR Ho Hu y w' Hy Hc. destruct (r_kc _ _ _ _ HR y w' o Hy Hc) as [(w & Hw & Hcw)|Hge]; [|lia].
  exact (Hu y w Hw Hcw).
Qed.

Lemma R_trans e n h0 h1 h2 : R e n h0 h1 -> R e n h1 h2 -> R e n h0 h2.
Proof.
  intros A B. constructor.
  - pose proof (r_len _ _ _ _ A). pose proof (r_len _ _ _ _ B). lia.
  - intros o w Hw. destruct (r_ism _ _ _ _ A o w Hw) as (w1 & H1 & E1).
    destruct (r_ism _ _ _ _ B o w1 H1) as (w2 & H2 & E2). exists w2. split; [exact H2|congruence].
  - intros y w' mo Hy Hc.
    destruct (r_kc _ _ _ _ B y w' mo Hy Hc) as [(w1 & H1 & C1)|Hge]; [|right; lia].
    exact (r_kc _ _ _ _ A y w1 mo H1 C1).
  - intros o Ho Hu w' k a s Hw' Hs.
    destruct (r_ku _ _ _ _ B o Ho (zunl_mono _ _ _ _ _ A Ho Hu) w' k a s Hw' Hs) as (w1 & H1 & S1).
    exact (r_ku _ _ _ _ A o Ho Hu w1 k a s H1 S1).
  - intros p w Hp Hw He Hb Hd. destruct (r_v _ _ _ _ A p w Hp Hw He Hb Hd) as (w1 & H1 & B1 & D1).
    exact (r_v _ _ _ _ B p w1 Hp H1 He B1 D1).
  - intros p w Hw Hb. destruct (r_bm _ _ _ _ A p w Hw Hb) as (w1 & H1 & B1).
    exact (r_bm _ _ _ _ B p w1 H1 B1).
Qed.

Lemma R_weaken e n n' h0 h : R None n h0 h -> n' <= n -> R e n' h0 h.
Proof.
  intros A Hn. constructor; try apply A.
  - intros y w' mo Hy Hc. destruct (r_kc _ _ _ _ A y w' mo Hy Hc) as [H|H]; [left; exact H|right; lia].
  - intros o Ho. apply (r_ku _ _ _ _ A o). lia.
  - intros p w Hp Hw _. apply (r_v _ _ _ _ A p w); [lia|exact Hw|discriminate].
Qed.

(** the callee was the drop glue of [o] *)
Lemma R_trans_ex e n n1 o h0 h1 h2 :
  R e n h0 h1 -> R (Some o) n1 h1 h2 -> n <= n1 ->
  (e = Some o \/ n <= o \/ forall w, h0 !! o = Some w -> z_box w <> BNotYet \/ zdeadb w = true) ->
  R e n h0 h2.
Proof.
  intros A B Hn Ho.
  assert (B' : R (Some o) n h1 h2).
  { constructor; try apply B.
    - intros y w' mo Hy Hc. destruct (r_kc _ _ _ _ B y w' mo Hy Hc) as [H|H]; [left; exact H|right; lia].
    - intros q Hq. apply (r_ku _ _ _ _ B q). lia.
    - intros p w Hp. apply (r_v _ _ _ _ B p w). lia. }
  clear B. constructor.
  - pose proof (r_len _ _ _ _ A). pose proof (r_len _ _ _ _ B'). lia.
  - intros q w Hw. destruct (r_ism _ _ _ _ A q w Hw) as (w1 & H1 & E1).
    destruct (r_ism _ _ _ _ B' q w1 H1) as (w2 & H2 & E2). exists w2. split; [exact H2|congruence].
  - intros y w' mo Hy Hc.
    destruct (r_kc _ _ _ _ B' y w' mo Hy Hc) as [(w1 & H1 & C1)|Hge]; [|right; lia].
    exact (r_kc _ _ _ _ A y w1 mo H1 C1).
  - intros q Hq Hu w' k a s Hw' Hs.
    destruct (r_ku _ _ _ _ B' q Hq (zunl_mono _ _ _ _ _ A Hq Hu) w' k a s Hw' Hs) as (w1 & H1 & S1).
    exact (r_ku _ _ _ _ A q Hq Hu w1 k a s H1 S1).
  - intros p w Hp Hw He Hb Hd. destruct (decide (p = o)) as [->|Hne].
    + exfalso. destruct Ho as [Ho|[Ho|Ho]]; [congruence|lia|].
      destruct (Ho w Hw) as [H|H]; congruence.
    + destruct (r_v _ _ _ _ A p w Hp Hw He Hb Hd) as (w1 & H1 & B1 & D1).
      apply (r_v _ _ _ _ B' p w1 Hp H1); [congruence|exact B1|exact D1].
  - intros p w Hw Hb. destruct (r_bm _ _ _ _ A p w Hw Hb) as (w1 & H1 & B1).
    exact (r_bm _ _ _ _ B' p w1 H1 B1).
Qed.

Lemma R_app e n h w0 : z_cleaner w0 = None -> noact (z_slots w0) -> R e n h (h ++ [w0]).
Proof.
  intros Hc Hna.
  assert (Hl : forall o w, h !! o = Some w -> (h ++ [w0]) !! o = Some w).
  { intros o w Hw. rewrite lookup_app_l; [exact Hw|eapply lookup_lt_Some, Hw]. }
  constructor.
  - rewrite app_length. lia.
  - intros o w Hw. exists w. auto.
  - intros y w' mo Hy Hcl. apply lookup_app_Some in Hy as [Hy|[_ Hy]]; [left; eauto|].
    destruct (y - length h) as [|i]; cbn in Hy; [|discriminate]. injection Hy as <-. congruence.
  - intros o Ho Hu w' k a s Hw' Hs. apply lookup_app_Some in Hw' as [Hw'|[_ Hw']]; [eauto|].
    exfalso. clear Hu. destruct (o - length h) as [|i]; cbn in Hw'; [|discriminate]. injection Hw' as <-.
    exact (Hna k a s Hs).
  - intros p w _ Hw _ Hb Hd. exists w. auto.
  - intros p w Hw Hb. exists w. auto.
Qed.

Lemma lookup_alter_cases {A} (g : A -> A) o (l : list A) o' v' :
  alter g o l !! o' = Some v' ->
  (o' = o /\ exists v, l !! o = Some v /\ v' = g v) \/ (o' <> o /\ l !! o' = Some v').
Proof.
  destruct (decide (o' = o)) as [->|Hne].
  - rewrite list_lookup_alter. destruct (l !! o) as [v|]; cbn; [|discriminate].
    intros [= <-]. left. eauto.
  - rewrite list_lookup_alter_ne by congruence. auto.
Qed.

(** an update of one object *)
Lemma R_alter e n g o h :
  (forall w, h !! o = Some w ->
     z_ismap (g w) = z_ismap w /\
     (z_cleaner (g w) = z_cleaner w \/ z_cleaner (g w) = None \/
      exists mo, z_cleaner (g w) = Some mo /\ n <= mo) /\
     ((forall k a s, z_slots (g w) !! k = Some (MAction a s) -> z_slots w !! k = Some (MAction a s))
      \/ ~ zunl h o \/ n <= o) /\
     (e = Some o \/ n <= o \/ z_box w <> BNotYet \/ zdeadb w = true \/
      (z_box (g w) = BNotYet /\ zdeadb (g w) = false)) /\
     (z_box w <> BNotYet -> z_box (g w) <> BNotYet)) ->
  R e n h (alter g o h).
Proof.
  intros Hg. constructor.
  - rewrite alter_length. lia.
  - intros o' w Hw. destruct (decide (o' = o)) as [->|Hne].
    + exists (g w). rewrite list_lookup_alter, Hw. split; [reflexivity|apply Hg, Hw].
    + exists w. rewrite list_lookup_alter_ne by congruence. auto.
  - intros y w' mo Hy Hc. apply lookup_alter_cases in Hy as [(-> & v & Hv & ->)|(_ & Hy)]; [|left; eauto].
    destruct (Hg v Hv) as (_ & [Hcl|[Hcl|(mo' & Hcl & Hge)]] & _); [|congruence|].
    + left. exists v. split; [exact Hv|congruence].
    + right. congruence.
  - intros o' Ho' Hu w' k a s Hw' Hs.
    apply lookup_alter_cases in Hw' as [(-> & v & Hv & ->)|(_ & Hw')]; [|eauto].
    destruct (Hg v Hv) as (_ & _ & [Hsl|[Hnu|Hge]] & _); [eauto|contradiction|lia].
  - intros p w Hp Hw He Hb Hd. destruct (decide (p = o)) as [->|Hne].
    + exists (g w). rewrite list_lookup_alter, Hw. split; [reflexivity|].
      destruct (Hg w Hw) as (_ & _ & _ & [H|[H|[H|[H|H]]]] & _); first [congruence | lia | exact H].
    + exists w. rewrite list_lookup_alter_ne by congruence. auto.
  - intros p w Hw Hb. destruct (decide (p = o)) as [->|Hne].
    + exists (g w). rewrite list_lookup_alter, Hw. split; [reflexivity|]. apply Hg; assumption.
    + exists w. rewrite list_lookup_alter_ne by congruence. auto.
Qed.

(** ** [J] *)
Lemma J_nil : J [].
Proof. split; intros o w; [|intros mo]; intros Hw; rewrite lookup_nil in Hw; discriminate. Qed.

Lemma J_app h w0 : J h -> z_cleaner w0 = None -> zdeadb w0 = false -> J (h ++ [w0]).
Proof.
  intros [HJ HC] Hc Hd. split.
  - intros o w Hw Hm Hdd.
    assert (Hu : forall o', zunl h o' -> zunl (h ++ [w0]) o').
    { intros o' Hu y wy Hy. apply lookup_app_Some in Hy as [Hy|[_ Hy]]; [eapply Hu, Hy|].
      destruct (y - length h) as [|i]; cbn in Hy; [|discriminate]. injection Hy as <-. congruence. }
    apply lookup_app_Some in Hw as [Hw|[_ Hw]].
    + destruct (HJ o w Hw Hm Hdd) as [H1 H2]. split; [apply Hu, H1|exact H2].
    + destruct (o - length h) as [|i]; cbn in Hw; [|discriminate]. injection Hw as <-. congruence.
  - intros y w mo Hy Hcl. rewrite app_length. apply lookup_app_Some in Hy as [Hy|[_ Hy]].
    + pose proof (HC y w mo Hy Hcl). lia.
    + destruct (y - length h) as [|i]; cbn in Hy; [|discriminate]. injection Hy as <-. congruence.
Qed.

(** a fresh object is named by no Cleaner *)
Lemma Jc_fresh h o : Jc h -> length h <= o -> zunl h o.
Proof. intros HC Ho y w Hy Hc. pose proof (HC y w o Hy Hc). lia. Qed.

Lemma J_alter g o h :
  J h ->
  (forall w, h !! o = Some w ->
     z_ismap (g w) = z_ismap w /\
     (z_cleaner (g w) = z_cleaner w \/ z_cleaner (g w) = None \/
      exists mo, z_cleaner (g w) = Some mo /\ mo <> o /\ mo < length h /\
        forall wm, h !! mo = Some wm -> z_ismap wm = true -> zdeadb wm = false) /\
     (z_ismap w = true -> zdeadb (g w) = true ->
        zunl h o /\ (z_vst (g w) = VDropped -> noact (z_slots (g w))))) ->
  J (alter g o h).
Proof.
  intros [HJ HC] Hg. split.
  - intros o' w' Hw' Hm Hd.
    apply lookup_alter_cases in Hw' as [(-> & v & Hv & ->)|(Hne & Hw')].
    + destruct (Hg v Hv) as (Ei & Hcl & Hd3). rewrite Ei in Hm. destruct (Hd3 Hm Hd) as [Hu Hn].
      split; [|exact Hn]. intros y wy Hy Hc.
      apply lookup_alter_cases in Hy as [(-> & v2 & Hv2 & ->)|(_ & Hy)]; [|exact (Hu y wy Hy Hc)].
      rewrite Hv in Hv2. injection Hv2 as <-.
      destruct Hcl as [Hcl|[Hcl|(mo & Hcl & Hmo & _)]]; [|congruence|congruence].
      rewrite Hcl in Hc. exact (Hu o v Hv Hc).
    + destruct (HJ o' w' Hw' Hm Hd) as [Hu Hn]. split; [|exact Hn]. intros y wy Hy Hc.
      apply lookup_alter_cases in Hy as [(-> & v & Hv & ->)|(_ & Hy)]; [|exact (Hu y wy Hy Hc)].
      destruct (Hg v Hv) as (_ & [Hcl|[Hcl|(mo & Hcl & _ & _ & Hmo)]] & _); [|congruence|].
      * rewrite Hcl in Hc. exact (Hu o v Hv Hc).
      * rewrite Hcl in Hc. injection Hc as ->. rewrite (Hmo w' Hw' Hm) in Hd. discriminate.
  - intros y w mo Hy Hcl. rewrite alter_length.
    apply lookup_alter_cases in Hy as [(-> & v & Hv & ->)|(_ & Hy)]; [|exact (HC y w mo Hy Hcl)].
    destruct (Hg v Hv) as (_ & [Hc|[Hc|(mo' & Hc & _ & Hlt & _)]] & _); [|congruence|congruence].
    rewrite Hc in Hcl. exact (HC o v mo Hv Hcl).
Qed.

Lemma zunl_alter g o h q :
  (forall w, h !! o = Some w -> z_cleaner (g w) = z_cleaner w \/ z_cleaner (g w) = None) ->
  zunl h q -> zunl (alter g o h) q.
Proof.
  intros Hg Hu y w Hy Hc. apply lookup_alter_cases in Hy as [(-> & v & Hv & ->)|(_ & Hy)]; [|exact (Hu y w Hy Hc)].
  destruct (Hg v Hv) as [H|H]; [|congruence]. rewrite H in Hc. exact (Hu o v Hv Hc).
Qed.

(** [J] does not depend on the box state *)
Lemma J_zbox b o h : J h -> J (alter (zbox b) o h).
Proof.
  intros HJ. apply J_alter; [exact HJ|]. intros w Hw. split; [reflexivity|]. split; [left; reflexivity|].
  intros Hm Hd. exact (proj1 HJ o w Hw Hm Hd).
Qed.
