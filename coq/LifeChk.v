(** * LifeChk: the decidable facts that hold at the entry of every activation of a safe run
    ([chk]), used by the lifecycle invariant (LifeInv/LifeStep): they follow from the
    pre-conditions of part A / part B ([chk_ok]) and do not read the ghost [dead] ([chk_dl]). *)
From Coq Require Import NArith Bool List Lia.
From stdpp Require Import base list option.
From RecordUpdate Require Import RecordSet.
From RC Require Import Hdr Machine RunInd.
From RC Require Import Inv InvP SafeHelpers SafePrims SafeCalls SafeMain SafeColl SafeFinal.
From RC Require Import LifeGhost.
Import ListNotations RecordSetNotations.
Local Open Scope N_scope.

Definition is_dropped_v (x : obj) : bool := match o_vst x with VDropped => true | _ => false end.
Definition is_moved (x : obj) : bool := match o_vst x with VMoved => true | _ => false end.
Definition is_freed (x : obj) : bool := match o_box x with BFreed => true | _ => false end.

Definition live_alloc (m : machine) (o : id) : bool :=
  match get m o with Some x => is_live x && is_alloc x | None => false end.

Definition chk (c : call) (m : machine) : bool :=
  match c with
  | KCmd self (CTryUnwrap l v) =>
    match (resolve self l m).2 with
    | Some r => match read_loc r (resolve self l m).1 with
                | Some o => live_alloc m o
                | None => true
                end
    | None => true
    end
  | KCmd self (CDropValue v) =>
    match mjoin (values m !! v) with
    | Some o => match get m o with Some x => is_freed x && is_moved x | None => false end
    | None => true
    end
  | KCmd self (CDowngrade l w) =>
    let m2 := (wresolve self w (resolve self l m).1).1 in
    match (resolve self l m).2 ≫= (fun r => read_loc r m2) with
    | Some o => live_alloc m2 o
    | None => true
    end
  | KCmd self (CRegister nd script c) =>
    match (nresolve self nd m).2 with
    | Some o =>
      match get (nresolve self nd m).1 o ≫= o_cleaner with
      | Some mo => match get (nresolve self nd m).1 mo with Some y => is_alloc y | None => false end
      | None => true
      end
    | None => true
    end
  | KDropCc o =>
    match get m o with
    | Some x => is_alloc x && (marked x || negb (h_rc (o_hdr x) =? 1) || is_live x)
    | None => false
    end
  | KFinalizeList L rest any old_f => forallb (live_alloc m) rest
  | KDropList L rest old_d =>
    forallb (fun g => mem_id g L) rest &&
    forallb (fun g => match get m g with
                      | Some x => is_alloc x && (if mem_id g rest then is_live x else is_dropped_v x)
                      | None => false end) L
  | _ => true
  end.

Lemma live_alloc_dl s m o : live_alloc (dl s m) o = live_alloc m o.
Proof. reflexivity. Qed.

Lemma chk_dl c s m : chk c (dl s m) = chk c m.
Proof.
  destruct c as [self c| | | | | | | | | | | | | | |]; try reflexivity.
  destruct c; try reflexivity; cbn [chk].
  - rewrite resolve_dl. cbn [fst snd]. rewrite wresolve_dl. cbn [fst snd].
    destruct (resolve self l m).2; cbn [mbind option_bind]; [|reflexivity]. rewrite read_loc_dl. reflexivity.
  - rewrite resolve_dl. cbn [fst snd].
    destruct (resolve self l m).2; [|reflexivity]. rewrite read_loc_dl. reflexivity.
  - rewrite nresolve_dl. cbn [fst snd]. reflexivity.
Qed.

Section Ok.
  Context (K : conf).

  Lemma mem_id_elem g l : mem_id g l = true <-> g ∈ l.
  Proof.
    unfold mem_id. rewrite existsb_exists. split.
    - intros (y & Hin & Hy). apply Nat.eqb_eq in Hy. subst. apply elem_of_list_In, Hin.
    - intros Hin. exists g. split; [apply elem_of_list_In, Hin | apply Nat.eqb_refl].
  Qed.

  Lemma chk_ok b E A c m : Pre K (PreC K) b E c m -> Q K A c m -> chk c m = true.
  Proof.
    intros Hpre _. destruct c as [self c| | | o | | | | | | | | | L rest any old_f | L rest old_d | |]; try reflexivity.
    - (* commands *)
      destruct c; try reflexivity.
      + (* downgrade *)
        rewrite Pre_nc in Hpre by reflexivity. destruct Hpre as (Hnb & HI & Hs). cbn [own_of app] in HI. cbn [chk].
        assert (Hw : self = None \/ self_good m self \/ self_dropping m self).
        { destruct (self_ok_cases E self _ m Hs) as [->|[Hg|[_ Hd]]]; auto. }
        assert (Hcase : loc_no_self l = true \/ self_good m self \/ (self = None /\ exists j, l = LFS j)).
        { destruct (self_ok_cases E self _ m Hs) as [->|[Hg|[Hn _]]].
          - destruct l; auto. right; right. eauto.
          - auto.
          - cbn in Hn. rewrite andb_true_r in Hn. auto. }
        assert (Hres : exists ro, resolve self l m = (m, ro) /\ forall r t, ro = Some r -> read_loc r m = Some t -> good_h m t).
        { destruct Hcase as [Hc|[Hc|(-> & j & ->)]].
          - destruct (resolve_ok K b E [] m self l HI (or_introl Hc)) as (ro & Hro & Hg). exists ro. split; [exact Hro|].
            intros r t Hr. destruct (Hg r Hr) as (_ & _ & Hgg). apply Hgg.
          - destruct (resolve_ok K b E [] m self l HI (or_intror Hc)) as (ro & Hro & Hg). exists ro. split; [exact Hro|].
            intros r t Hr. destruct (Hg r Hr) as (_ & _ & Hgg). apply Hgg.
          - exists None. split; [reflexivity | discriminate]. }
        destruct Hres as (ro & -> & Hg). cbn [fst snd].
        destruct (wresolve_ok K b E [] m self w HI Hw) as (rwo & -> & _). cbn [fst snd].
        destruct ro as [r|]; cbn [mbind option_bind]; [|reflexivity].
        destruct (read_loc r m) as [o|] eqn:Hrd; [|reflexivity].
        destruct (Hg r o eq_refl Hrd) as (x & Hx & Hb & Hv & _). unfold live_alloc, is_live, is_alloc. rewrite Hx, Hb, Hv. reflexivity.
      + (* try_unwrap *)
        rewrite Pre_nc in Hpre by reflexivity. destruct Hpre as (Hnb & HI & Hs). cbn [own_of app] in HI. cbn [chk].
        assert (Hcase : loc_no_self l = true \/ self_good m self \/ (self = None /\ exists j, l = LFS j)).
        { destruct (self_ok_cases E self _ m Hs) as [->|[Hg|[Hn _]]].
          - destruct l; auto. right; right. eauto.
          - auto.
          - cbn in Hn. rewrite andb_true_r in Hn. auto. }
        destruct Hcase as [Hc|[Hc|(-> & j & ->)]].
        * destruct (resolve_ok K b E [] m self l HI (or_introl Hc)) as (ro & -> & Hro). cbn [fst snd].
          destruct ro as [r|]; [|reflexivity]. destruct (Hro r eq_refl) as (_ & _ & Hg).
          destruct (read_loc r m) as [o|]; [|reflexivity].
          destruct (Hg o eq_refl) as (x & Hx & Hb & Hv & _). unfold live_alloc, is_live, is_alloc. rewrite Hx, Hb, Hv. reflexivity.
        * destruct (resolve_ok K b E [] m self l HI (or_intror Hc)) as (ro & -> & Hro). cbn [fst snd].
          destruct ro as [r|]; [|reflexivity]. destruct (Hro r eq_refl) as (_ & _ & Hg).
          destruct (read_loc r m) as [o|]; [|reflexivity].
          destruct (Hg o eq_refl) as (x & Hx & Hb & Hv & _). unfold live_alloc, is_live, is_alloc. rewrite Hx, Hb, Hv. reflexivity.
        * reflexivity.
      + (* drop_value *)
        rewrite Pre_nc in Hpre by reflexivity. destruct Hpre as (Hnb & HI & Hs). cbn [own_of app] in HI. cbn [chk].
        destruct (values m !! v) as [[o|]|] eqn:Ev; cbn [mjoin option_join]; try reflexivity.
        destruct (sv_values _ _ _ _ _ HI v o Ev) as ((x & Hx & Hb & Hv) & _).
        rewrite Hx. unfold is_freed, is_moved. rewrite Hb, Hv. reflexivity.
      + (* register *)
        rewrite Pre_nc in Hpre by reflexivity. destruct Hpre as (Hnb & HI & Hs). cbn [own_of app] in HI. cbn [chk].
        assert (Hcase : node_no_self n = true \/ self_good m self \/ (self = None /\ n = NSelf)).
        { destruct (self_ok_cases E self _ m Hs) as [->|[Hg|[Hn _]]].
          - destruct n; auto.
          - auto.
          - cbn in Hn. rewrite andb_true_r in Hn. auto. }
        assert (Hres : exists no, nresolve self n m = (m, no) /\ forall o, no = Some o -> good_h m o).
        { destruct Hcase as [Hc|[Hc|(-> & ->)]].
          - apply (nresolve_ok K b E [] m self n HI (or_introl Hc)).
          - apply (nresolve_ok K b E [] m self n HI (or_intror Hc)).
          - exists None. split; [reflexivity | discriminate]. }
        destruct Hres as (no & -> & Hg). cbn [fst snd]. destruct no as [o|]; [|reflexivity].
        destruct (get m o) as [x|] eqn:Hx; cbn [mbind option_bind]; [|reflexivity].
        destruct (o_cleaner x) as [mo|] eqn:Hc; [|reflexivity].
        destruct (sv_loc _ _ _ _ _ HI (Some o) true mo) as (y & Hy & Hb & _); [econstructor 4; eauto|].
        rewrite Hy. unfold is_alloc. rewrite Hb. reflexivity.
    - (* Cc::drop *)
      rewrite Pre_nc in Hpre by reflexivity. destruct Hpre as (Hnb & HI & Hown). cbn [own_of app] in HI. cbn [chk].
      destruct (sv_E _ _ _ _ _ HI o) as (x & Hx & Hb); [left|]. rewrite Hx. unfold is_alloc. rewrite Hb. cbn [andb].
      destruct (marked x) eqn:Hmk; [reflexivity|]. cbn [orb].
      destruct (h_rc (o_hdr x) =? 1) eqn:Hrc; [|reflexivity]. cbn [negb orb]. apply N.eqb_eq in Hrc.
      pose proof (sv_objx _ _ _ _ _ HI o x Hx) as HX. unfold ObjX in HX.
      pose proof (okN_alloc K _ _ _ _ _ (sv_obj _ _ _ _ _ HI o x Hx) Hb) as (_ & _ & _ & _ & _ & Hnm).
      unfold is_live. destruct (o_vst x) eqn:Hv; try reflexivity; exfalso.
      + destruct (ox_uninit _ _ _ _ HX Hb Hv) as [H0 _]. rewrite H0 in Hrc. discriminate.
      + destruct (inD m o) eqn:Hi.
        * specialize (Hown Hi). unfold marked_at, hdr_of in Hown. rewrite Hx in Hown. unfold marked in Hmk. congruence.
        * assert (Hd : dying x = true) by (unfold dying; rewrite Hv; reflexivity).
          rewrite (ox_dying _ _ _ _ HX Hb Hd eq_refl) in Hrc. discriminate.
      + destruct (inD m o) eqn:Hi.
        * specialize (Hown Hi). unfold marked_at, hdr_of in Hown. rewrite Hx in Hown. unfold marked in Hmk. congruence.
        * assert (Hd : dying x = true) by (unfold dying; rewrite Hv; reflexivity).
          rewrite (ox_dying _ _ _ _ HX Hb Hd eq_refl) in Hrc. discriminate.
      + apply Hnm; reflexivity.
    - (* finalize list *)
      cbn in Hpre. destruct Hpre as (_ & _ & (done & ->) & Hmem & _). cbn [chk].
      apply forallb_forall. intros g Hg. apply elem_of_list_In in Hg.
      destruct (Hmem g) as (x & Hx & Hb & Hv & _); [apply elem_of_app; right; exact Hg|].
      unfold live_alloc, is_live, is_alloc. rewrite Hx, Hb, Hv. reflexivity.
    - (* drop list *)
      cbn in Hpre. destruct Hpre as (_ & _ & (done & HLd) & Hmem & _). cbn [chk].
      apply andb_true_iff. split.
      { apply forallb_forall. intros g Hg. apply elem_of_list_In in Hg. apply mem_id_elem. rewrite HLd.
        apply elem_of_app. right. exact Hg. }
      apply forallb_forall. intros g Hg. apply elem_of_list_In in Hg.
      destruct (Hmem g Hg) as (_ & _ & x & Hx & Hb & _ & Hv). rewrite Hx. unfold is_alloc. rewrite Hb. cbn [andb].
      destruct (decide (g ∈ rest)) as [Hin|Hnin].
      + rewrite (proj2 (mem_id_elem g rest) Hin). unfold is_live. rewrite Hv. reflexivity.
      + destruct (mem_id g rest) eqn:Hm; [apply mem_id_elem in Hm; contradiction|].
        unfold is_dropped_v. rewrite Hv. reflexivity.
  Qed.
End Ok.
