(** * Cover: the coverage invariant behind property C02 (completeness), as an executable checker.

    I-cover: in a panic-free history, every allocated live object outside the dying set is
    (a) reachable from program-held handles, or (b) reachable, through reported (traced) edges,
    from a buffered object — so the next collection visits it —, or (c) pinned: reachable from the
    target of an untraced strong field, a cleaner handle, a field of a borrowed or non-live
    holder, or from an abandoned object.  Together with [PassMain.pass_complete] this is what
    makes a quiet [collect_cycles()] leave only reachable or pinned objects (C02).

    Like [Inv.inv_b] the checker is evaluated by [modelrun --inv] after every top-level command of
    every program the checks run; the statement is not yet proved to be inductive (see
    Props/C02.v: [C02_quiet_partial] takes it as a hypothesis). *)
From Coq Require Import NArith Bool List.
From stdpp Require Import base list option.
From RC Require Import Hdr Machine Inv.
Import ListNotations.

Definition mem_nat (x : nat) (l : list nat) : bool := existsb (Nat.eqb x) l.
Definition add_new (l acc : list nat) : list nat :=
  fold_left (fun a x => if mem_nat x a then a else x :: a) l acc.

(** closure of [seed] under [succ], by [fuel] rounds (fuel = |heap| + 1 suffices) *)
Fixpoint closure (succ : nat -> list nat) (fuel : nat) (seen : list nat) : list nat :=
  match fuel with
  | O => seen
  | S f =>
    let next := add_new (concat (map succ seen)) seen in
    if Nat.eqb (length next) (length seen) then seen else closure succ f next
  end.

Section Cover.
  Context (P : prog).

  Definition strong_targets (x : obj) : list id :=
    omap (fun a => a) (o_fields x) ++ match o_cleaner x with Some t => [t] | None => [] end.

  (** every strong handle stored in [p], whatever its state *)
  Definition all_succ (m : machine) (p : id) : list id :=
    match heap m !! p with Some x => strong_targets x | None => [] end.

  (** the edges Trace::trace reports *)
  Definition traced_succ (m : machine) (p : id) : list id :=
    match heap m !! p with
    | Some x =>
      if o_ismap x then [] else
      match o_vst x with
      | VLive => if o_borrowed x then []
                 else omap (fun '(f, t) => if (t : bool) then f else None)
                           (zip (o_fields x) (c_traced (default (Cls 0 [] 0 false None None) (p_classes P !! o_cls x))))
      | _ => []
      end
    | None => []
    end.

  (** targets of handles the collector does not see: untraced fields, cleaner handles, all fields
      of borrowed / non-live / map / dying holders *)
  (** handles stored in [p] that Trace::trace does not report, position by position *)
  Definition unreported (m : machine) (p : id) (x : obj) : list id :=
    let cl := match o_cleaner x with Some t => [t] | None => [] end in
    if o_ismap x then strong_targets x else
    match o_vst x with
    | VLive =>
      if o_borrowed x then strong_targets x
      else omap (fun '(f, t) => if (t : bool) then None else f)
                (zip_with (fun f i => (f, default false (c_traced (default (Cls 0 [] 0 false None None) (p_classes P !! o_cls x)) !! i)))
                          (o_fields x) (seq 0 (length (o_fields x)))) ++ cl
    | _ => strong_targets x
    end.

  Definition pin_targets (m : machine) : list id :=
    concat (imap (fun p x =>
      match o_box x with
      | BFreed => match o_vst x with VMoved => [] | _ => [] end
      | _ => unreported m p x ++ (if mem_nat p (dead m) then strong_targets x else [])
      end) (heap m)).

  Definition prog_roots (m : machine) : list id :=
    omap (fun a => a) (slots m) ++ bag m
    ++ concat (omap (fun v => match v with
                              | Some o => Some (all_succ m o)
                              | None => None end) (values m)).

  Definition cover_b (m : machine) : bool :=
    let n := S (length (heap m)) in
    let reach := closure (all_succ m) n (add_new (prog_roots m) []) in
    let covered := closure (traced_succ m) n (add_new (pc m) []) in
    let pinned := closure (all_succ m) n (add_new (pin_targets m ++ dead m) []) in
    forallb (fun '(o, x) =>
      match o_box x, o_vst x with
      | BAlloc, VLive =>
        mem_nat o (dead m) || mem_nat o reach || mem_nat o covered || mem_nat o pinned
      | _, _ => true
      end) (imap (fun o x => (o, x)) (heap m)).
  (** every allocated live CleanerMap is owned (its Cleaner's handle, or a clean() in progress):
      the second hypothesis of Props/C02.C02_quiet_partial, tested like [cover_b] *)
  Definition maps_owned_b (m : machine) : bool :=
    forallb (fun x => negb (o_ismap x) || negb (is_alloc x) || negb (is_live x)
                      || negb (N.eqb (h_rc (o_hdr x)) 0)) (heap m).
End Cover.
