(** * SafeCollDrop3: the drop pass ([KDropList]): the activation lemma. *)
From Coq Require Import NArith Bool List Lia.
From stdpp Require Import base list option.
From RecordUpdate Require Import RecordSet.
From RC Require Import Hdr Machine RunInd.
From RC Require BufBase BufPass BufStep Buf.
From RC Require Import Inv InvP SafeHelpers SafePrims SafeCalls SafeGlue SafeDrop SafeCmd SafeCyclic SafeMain.
From RC Require Import SafeColl SafeCollFr SafeCollHdr SafeCollTop SafeCollPass SafeCollDead SafeCollOnce SafeCollFin
                       SafeCollDrop SafeCollDrop2.
Import ListNotations RecordSetNotations.
Local Open Scope N_scope.

Section DropList.
  Context (K : conf) (P : prog).
  Context (rec : call -> machine -> machine * outcome).
  Hypothesis HrecQ : forall b E A c m,
    Pre K (PreC K) b E c m -> Q K A c m -> Post K (PostC K) b E c m (rec c m).1 (rec c m).2.
  Hypothesis Hbuf : BufStep.rok K rec.
  Hypothesis Hnf : nfspec rec.

  Notation PostOf b E c m res := (Post K (PostC K) b E c m (fst res) (snd res)).
  Notation rec_all := (rec_all K rec HrecQ Hbuf Hnf).

  Lemma DMember_A rest m g : DMember rest m g -> AMember m g.
  Proof.
    intros (Hi & x & Hx & Hb & Hmk & Hv). split; [exact Hi|]. exists x. repeat split; auto.
    destruct (decide (g ∈ rest)); auto.
  Qed.

  (** *** the end of the list: every member is dropped, the boxes are freed *)
  Lemma drop_list_end b E L old_d m :
    PreC K b E (KDropList L [] old_d) m ->
    PostOf b E (KDropList L [] old_d) m
      (fold_left (fun m g => dealloc K g (drop_metadata K g m)) L m <| st_dropping := old_d |>, ONormal).
  Proof.
    intros ((Hnb & HI & Hc & HB & Hn) & Hnd & _ & HDM & HC & _).
    assert (HFM : forall o, o ∈ L -> cnt_id o E = 0%nat /\ FMember L m o).
    { intros o Ho. destruct (HDM o Ho) as (Hcnt & Hi & x & Hx & Hb & Hmk & Hv). split; [exact Hcnt|].
      split; [exact Hi|]. exists x. rewrite decide_False in Hv by apply not_elem_of_nil. auto. }
    destruct (free_all K b E L L Hnd (fun o H => H) m Hnb HI Hn Hc HC HFM) as (J1 & J2 & J3 & J4 & J5 & J6 & J7).
    set (m' := fold_left (fun m g => dealloc K g (drop_metadata K g m)) L m) in *.
    cbn [fst snd]. cbn. split; [exact J1|]. split; [|split; [|split; [|split]]].
    - apply SInv_set_dropping; [exact J1 | exact J2|].
      intros o x Hx Hk Hi Hb Hd. exfalso. destruct (decide (o ∈ L)) as [Hin|Hout].
      + destruct (J7 o Hin) as (y & Hy & _ & Hby). congruence.
      + rewrite (J6 o Hout) in Hx. rewrite J5 in Hi. apply Hout. apply (undropped_in_L K b E L m o x HI HB Hk Hx Hi Hb Hd).
    - eapply FrM_trans; [exact J4|]. apply FrM_flags; reflexivity.
    - intros _ o x' Hx' Hi Hi0. change (inD (m' <| st_dropping := old_d |>) o) with (inD m' o) in Hi. rewrite J5 in Hi. congruence.
    - intros o x' Ho Hx' Hb. destruct (J7 o Ho) as (y & Hy & _ & Hby). change (get (m' <| st_dropping := old_d |>) o) with (get m' o) in Hx'. congruence.
    - intros _ o Ho. destruct (J7 o Ho) as (y & Hy & Hvy & _). exists y. auto.
  Qed.

  (** *** a member: [drop_in_place] of its value, then the rest of the list *)
  Section Member.
    Variables (b : bool) (E L : list id) (g : id) (rest' : list id) (old_d : bool) (m ma : machine) (x xa : obj).
    Hypothesis Hpre : PreC K b E (KDropList L (g :: rest') old_d) m.
    Hypothesis Ca : Cur K b true E None m E [] ma.
    Hypothesis Hca : st_collecting ma = true.
    Hypothesis Hna : nofuel ma.
    Hypothesis HBa : BufBase.Ibuf K L ma.
    Hypothesis Hda : dead ma = dead m.
    Hypothesis Hx : get m g = Some x.
    Hypothesis Hxa : get ma g = Some xa.
    Hypothesis Hfs : fsim x xa.
    Hypothesis Hmka : h_mark (o_hdr xa) = IL.
    Hypothesis Hdra : k_weak K = true -> is_dropped (o_hdr xa) = true.
    Hypothesis Hoth : forall o, o <> g -> get ma o = get m o.
    Hypothesis Hsl : slots ma = slots m.
    Hypothesis Hbg : bag ma = bag m.

    Let c0 := KDropList L (g :: rest') old_d.

    Lemma dm_facts :
      g ∈ L /\ g ∉ rest' /\ NoDup L /\
      (forall g', g' ∈ L -> cnt_id g' E = 0%nat /\ DMember (g :: rest') ma g') /\
      DeadClosed L ma /\ TargetsIn L (g :: rest') ma.
    Proof.
      destruct Hpre as ((Hnb & HI & Hc & HB & Hn) & Hnd & (done & HLd) & HDM & HC & HT).
      assert (Hg : g ∈ L) by (rewrite HLd; apply elem_of_app; right; left).
      assert (Hgr : g ∉ rest').
      { rewrite HLd in Hnd. apply list.NoDup_app in Hnd as (_ & _ & Hnd'). apply list.NoDup_cons in Hnd' as [? _]. assumption. }
      destruct (fsim_proj _ _ Hfs) as (Pb & Pv & Pm & Pf & Pc & _).
      assert (Hlocs : forall h c t, hloc ma h c t -> hloc m h c t).
      { intros h c t Hl. inversion Hl as [i t' H | t' H | p xp j t' Hp Hj | p xp t' Hp Hcl]; subst.
        - econstructor 1. rewrite <- Hsl. eauto.
        - constructor 2. rewrite <- Hbg. assumption.
        - destruct (decide (p = g)) as [->|Hne].
          + assert (xp = xa) by congruence. subst xp. rewrite Pf in Hj. econstructor 3; eauto.
          + rewrite Hoth in Hp by exact Hne. econstructor 3; eauto.
        - destruct (decide (p = g)) as [->|Hne].
          + assert (xp = xa) by congruence. subst xp. rewrite Pc in Hcl. econstructor 4; eauto.
          + rewrite Hoth in Hp by exact Hne. econstructor 4; eauto. }
      split; [exact Hg|]. split; [exact Hgr|]. split; [exact Hnd|]. split; [|split].
      - intros g' Hg'. destruct (HDM g' Hg') as (Hcnt & Hi & y & Hy & Hb & Hmk & Hv). split; [exact Hcnt|].
        split; [rewrite (inD_eq m ma g' Hda); exact Hi|]. destruct (decide (g' = g)) as [->|Hne].
        + assert (y = x) by congruence. subst y. exists xa. rewrite Pb, Pv. auto.
        + exists y. rewrite Hoth by exact Hne. auto.
      - intros o Ho h c Hl. apply (HC o Ho h c), Hlocs, Hl.
      - intros g' y' t Hg' Hy' Ht Hi. rewrite (inD_eq m ma t Hda) in Hi.
        destruct (decide (g' = g)) as [->|Hne].
        + assert (y' = xa) by congruence. subst y'. apply (HT g x t Hg' Hx); [rewrite <- Pf, <- Pc; exact Ht | exact Hi].
        + rewrite Hoth in Hy' by exact Hne. apply (HT g' y' t Hg' Hy' Ht Hi).
    Qed.

    (** the state after [drop_in_place] of [g] returned or unwound *)
    Lemma after_call bb nn m3 :
      Cur K bb nn E (Some g) m E [] m3 -> Fr K E (Some g) ma m3 -> post_own (KDropValue g) ma m3 ->
      BufBase.Ibuf K L m3 ->
      st_collecting m3 = true /\ FrM K E m m3 /\
      (forall g', g' ∈ L -> cnt_id g' E = 0%nat /\ DMember rest' m3 g') /\
      DeadClosed L m3 /\ TargetsIn L rest' m3.
    Proof.
      intros C3 F Hown HB3.
      destruct dm_facts as (Hg & Hgr & Hnd & HDMa & HCa & HTa).
      destruct Hown as (_ & y & y' & Hy & Hy' & Hvy' & Hby' & _). assert (y = xa) by congruence. subst y.
      destruct (HDMa g Hg) as (Hcg & Higa & z & Hz & Hbz & _ & Hvz). assert (z = xa) by congruence. subst z.
      rewrite decide_True in Hvz by left.
      destruct (fsim_proj _ _ Hfs) as (Pb & Pv & _).
      pose proof (cur_inv _ _ _ _ _ _ _ _ _ Ca) as HIa.
      assert (Hc3 : st_collecting m3 = true) by (rewrite (fr_coll _ _ _ _ _ F); exact Hca).
      assert (HinD3 : forall o, o ∈ L -> inD m3 o = true).
      { intros o Ho. apply (fr_dead _ _ _ _ _ F). apply (HDMa o Ho). }
      assert (HM3 : forall g', g' ∈ L -> cnt_id g' E = 0%nat /\ DMember rest' m3 g').
      { intros g' Hg'. destruct (HDMa g' Hg') as (Hcnt & Hi & z & Hz' & Hbz' & Hmz & Hvz'). split; [exact Hcnt|].
        split; [apply HinD3, Hg'|]. destruct (decide (g' = g)) as [->|Hne].
        - exists y'. split; [exact Hy'|]. split; [congruence|]. split.
          + destruct (Ibuf_member_IL K L m3 g HB3 Hg) as (w & Hw & Hmw). congruence.
          + rewrite decide_False by exact Hgr. exact Hvy'.
        - destruct (fr_obj _ _ _ _ _ F g' z Hz') as (z' & Hz'' & OF).
          assert (Hm : marked z = true) by (unfold marked, is_in_list_or_queue; rewrite Hmz; reflexivity).
          destruct (of_prot _ _ _ _ _ _ _ OF ltac:(congruence) Hbz' (or_intror (conj Hm Hca))) as (Q1 & Q2 & Q3 & Q4).
          exists z'. split; [exact Hz''|]. split; [exact Q1|]. split; [rewrite (Q4 Hm Hca); exact Hmz|].
          rewrite Q2. destruct (decide (g' ∈ g :: rest')) as [Hin|Hout]; destruct (decide (g' ∈ rest')) as [Hin'|Hout']; auto.
          + exfalso. apply elem_of_cons in Hin as [?|?]; contradiction.
          + exfalso. apply Hout. right. exact Hin'. }
      split; [exact Hc3|]. split; [|split; [exact HM3|split]].
      - apply (Fr_close K E g). { apply Fr_strip, C3. }
        intros w w' Hw Hw'. rewrite get_strip, Hx in Hw. cbn in Hw. injection Hw as <-.
        rewrite get_strip, Hy' in Hw'. cbn in Hw'. injection Hw' as <-.
        rewrite !norm_box, !norm_vst. rewrite Hvy'. rewrite <- Pb, <- Pv, Hbz, Hvz. repeat split; try congruence.
        intros _ [Hp|[Hp _]]; [lia|]. rewrite norm_marked in Hp by congruence. discriminate.
      - eapply (DeadClosed_fr K bb E (Some g) L ma m3 F Hca (cur_inv _ _ _ _ _ _ _ _ _ C3) (sv_dead _ _ _ _ _ HIa)); auto.
        intros g0 [= <-]. exact Hg.
      - eapply (TargetsIn_fr K E (Some g) L (g :: rest') rest' ma m3 F Hca (sv_dead _ _ _ _ _ HIa)); [| |exact HTa].
        + intros g' Hg'. split; [right; exact Hg'|]. split; [intros [= ->]; contradiction|].
          assert (Hg'L : g' ∈ L).
          { destruct Hpre as (_ & _ & (done & ->) & _). apply elem_of_app. right. right. exact Hg'. }
          apply (HDMa g' Hg'L).
        + intros g' w' Hg' Hw'.
          assert (Hg'L : g' ∈ L).
          { destruct Hpre as (_ & _ & (done & ->) & _). apply elem_of_app. right. right. exact Hg'. }
          destruct (HM3 g' Hg'L) as (_ & _ & w & Hw & _ & _ & Hvw). rewrite decide_True in Hvw by exact Hg'.
          assert (w = w') by congruence. subst. congruence.
    Qed.

    Lemma drop_member :
      PostOf b E c0 m
        (let '(m3, r) := rec (KDropValue g) ma in
         match r with
         | ONormal => rec (KDropList L rest' old_d) m3
         | _ => (fold_left (fun m g => uhdr g (abandon_hdr K) m) L m3 <| st_dropping := old_d |>, r)
         end).
    Proof.
      destruct dm_facts as (Hg & Hgr & Hnd & HDMa & HCa & HTa).
      destruct (HDMa g Hg) as (Hcg & Higa & z & Hz & Hbz & _ & Hvz). assert (z = xa) by congruence. subst z.
      rewrite decide_True in Hvz by left.
      assert (Hdrop : droppable K E ma g).
      { exists xa. split; [exact Hxa|]. split; [exact Hcg|]. rewrite Hbz. split; [exact Hvz|]. split; [exact Hdra|].
        right. split; [exact Higa|]. intros t Ht Hit.
        assert (Ht' : t ∈ L) by (apply (HTa g xa t ltac:(left) Hxa Ht Hit)).
        destruct (HDMa t Ht') as (_ & _ & w & Hw & _ & Hmw & _).
        unfold marked_at, is_in_list_or_queue. rewrite (hdr_of_get _ _ _ Hw), Hmw. reflexivity. }
      destruct (rec_all b E L (KDropValue g) ma) as (HP & F3 & G3).
      { rewrite Pre_nc by reflexivity. cbn [own_of app]. split; [apply Ca|]. split; [apply Ca | exact Hdrop]. }
      { cbn. right. exact HBa. }
      { exact Hna. }
      pose proof (Cur_weaken_ex K _ _ _ _ _ _ _ g Ca) as Ca'.
      destruct (rec (KDropValue g) ma) as [m3 r]. cbn [fst snd] in *.
      destruct r; try exact I.
      - (* the value was dropped *)
        destruct (Cur_call_n K (PostC K) (KDropValue g) _ _ _ _ _ _ _ _ _ eq_refl Ca' HP (cnt_le_refl E) (or_intror eq_refl)) as [C3 Hown].
        destruct (G3 ltac:(discriminate)) as [HG3 Hn3]. cbn in HG3.
        pose proof (G_Ibuf K L m3 HG3 (cur_nb _ _ _ _ _ _ _ _ _ C3) Hn3) as HB3.
        assert (HF : Fr K E (Some g) ma m3) by (rewrite Post_nc in HP by reflexivity; apply HP).
        destruct (after_call b true m3 C3 HF Hown HB3) as (Hc3 & FM3 & HM3 & HC3 & HT3).
        destruct (rec_all b E L (KDropList L rest' old_d) m3) as (HP2 & _ & _).
        { cbn. split; [|split; [exact Hnd|split; [|split; [exact HM3|split; [exact HC3|exact HT3]]]]].
          - split; [apply C3|]. split; [apply C3|]. split; [exact Hc3|]. split; [exact HB3|exact Hn3].
          - destruct Hpre as (_ & _ & (done & HLd) & _). exists (done ++ [g]). rewrite <- app_assoc. exact HLd. }
        { cbn. split; [right; exact HB3 | exact Hc3]. }
        { exact Hn3. }
        destruct (rec (KDropList L rest' old_d) m3) as [m' r2]. cbn [fst snd] in *.
        destruct r2; try exact I.
        + destruct HP2 as (A1 & A2 & A3 & A4 & A5 & A6). cbn. split; [exact A1|]. split; [exact A2|].
          split; [eapply FrM_trans; eauto|]. split; [|split; [exact A5 | exact A6]].
          intros _. eapply NDD_transM; [apply (sv_dead _ _ _ _ _ (cur_inv _ _ _ _ _ _ _ _ _ C3)) | apply (cur_ndd _ _ _ _ _ _ _ _ _ C3); reflexivity | exact A3 | apply A4; reflexivity].
        + destruct HP2 as (A1 & A2 & A3 & A4 & A5 & A6). cbn. split; [exact A1|]. split; [exact A2|].
          split; [eapply FrM_trans; eauto|]. split; [discriminate|]. split; [exact A5 | discriminate].
      - (* the destructor panicked: the list is abandoned *)
        destruct (Cur_call_p K (PostC K) (KDropValue g) _ _ _ _ _ _ _ _ _ eq_refl Ca' HP (cnt_le_refl E) (or_intror eq_refl)) as [C3 Hown].
        destruct (G3 ltac:(discriminate)) as [HG3 Hn3]. cbn in HG3.
        pose proof (G_Ibuf K L m3 HG3 (cur_nb _ _ _ _ _ _ _ _ _ C3) Hn3) as HB3.
        assert (HF : Fr K E (Some g) ma m3) by (rewrite Post_nc in HP by reflexivity; apply HP).
        destruct (after_call false false m3 C3 HF Hown HB3) as (Hc3 & FM3 & HM3 & HC3 & HT3).
        destruct (abandon_ok K false E L old_d m3 (cur_nb _ _ _ _ _ _ _ _ _ C3) (cur_inv _ _ _ _ _ _ _ _ _ C3) HB3 Hnd) as (U1 & U2 & U3 & U4 & U5).
        { intros g' Hg'. eapply DMember_A. apply (HM3 g' Hg'). }
        { exact HC3. }
        cbn. split; [exact U1|]. split; [exact U2|]. split; [eapply FrM_trans; eauto|]. split; [discriminate|].
        split; [exact U4 | discriminate].
    Qed.
  End Member.

  Lemma step_drop_list_ok b E L rest old_d m :
    PreC K b E (KDropList L rest old_d) m ->
    PostOf b E (KDropList L rest old_d) m (step_drop_list K rec L rest old_d m).
  Proof.
    intros Hpre. unfold step_drop_list. destruct rest as [|g rest'].
    - apply drop_list_end, Hpre.
    - pose proof Hpre as ((Hnb & HI & Hc & HB & Hn) & Hnd & (done & HLd) & HDM & HC & HT).
      assert (Hg : g ∈ L) by (rewrite HLd; apply elem_of_app; right; left).
      destruct (HDM g Hg) as (Hcg & Hig & x & Hx & Hbx & Hmk & Hvx). rewrite decide_True in Hvx by left.
      rewrite (hdr_of_get _ _ _ Hx). unfold is_in_list. rewrite Hmk. cbn [mark_eqb]. cbv zeta.
      pose proof (Cur_init K b true E None E [] m Hnb HI) as C0.
      set (ma := if k_weak K then uhdr g set_dropped m else m).
      set (xa := if k_weak K then x <| o_hdr ::= set_dropped |> else x).
      assert (Ca : Cur K b true E None m E [] ma).
      { unfold ma. destruct (k_weak K) eqn:Hk; [|exact C0].
        apply (Cur_set_dropped K b true E None m E [] m g x C0 Hx Hbx Hvx Hk). right. exact Hig. }
      assert (Hxa : get ma g = Some xa).
      { unfold ma, xa. destruct (k_weak K); [apply get_upd_eq, Hx | exact Hx]. }
      assert (HBa : BufBase.Ibuf K L ma).
      { unfold ma in *. destruct (k_weak K) eqn:Hk; [|exact HB].
        eapply (Ibuf_mild K L m); [|exact HB|apply Ca|exact Hn].
        apply BufBase.mild_uhdr_notpc; [intros h; reflexivity|]. right. intros y Hy. assert (y = x) by congruence. subst y. congruence. }
      refine (drop_member b E L g rest' old_d m ma x xa Hpre Ca _ _ HBa _ Hx Hxa _ _ _ _ _ _).
      * unfold ma. destruct (k_weak K); exact Hc.
      * unfold ma. destruct (k_weak K); exact Hn.
      * unfold ma. destruct (k_weak K); reflexivity.
      * unfold xa. destruct (k_weak K); [exists (set_dropped (o_hdr x)) | exists (o_hdr x)]; destruct x; reflexivity.
      * unfold xa. destruct (k_weak K); exact Hmk.
      * unfold xa. intros Hk. rewrite Hk. reflexivity.
      * intros o Hne. unfold ma. destruct (k_weak K); [|reflexivity]. unfold uhdr. apply get_upd_ne. congruence.
      * unfold ma. destruct (k_weak K); reflexivity.
      * unfold ma. destruct (k_weak K); reflexivity.
  Qed.
End DropList.
