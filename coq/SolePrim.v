(** * SolePrim: every helper of the machine model satisfies [Keep] (unconditionally for the
    helpers that only change headers' tracing part, side records, flags, the log, ...; under
    "the touched object is not in [U]" for the others). *)
From Coq Require Import NArith Bool List Lia.
From stdpp Require Import base list option.
From RecordUpdate Require Import RecordSet.
From RC Require Import Hdr Machine RunInd.
From RC Require Import Inv InvP SafeHelpers SoleInv.
Import ListNotations RecordSetNotations.
Local Open Scope N_scope.

Ltac brk1 :=
  match goal with
  | |- context [match ?x with _ => _ end] =>
    lazymatch x with
    | context [match _ with _ => _ end] => fail
    | _ => destruct x eqn:?
    end
  end.

Section Prim.
  Context (K : conf) (P : prog) (U R : id -> Prop).
  Notation Keep := (Keep U R).
  Implicit Types (m : machine) (o t : id).

  Lemma K_same m0 m m' :
    heap m' = heap m -> slots m' = slots m -> bag m' = bag m -> wslots m' = wslots m -> wparam m' = wparam m ->
    cslots m' = cslots m -> Keep m0 m -> Keep m0 m'.
  Proof. intros. eapply Keep_trans; [eassumption | apply Keep_same; assumption]. Qed.


  (** record fields outside the view *)
  Lemma K_set_pc m0 f m : Keep m0 m -> Keep m0 (set pc f m).
  Proof. apply K_same; reflexivity. Qed.
  Lemma K_set_pc_size m0 f m : Keep m0 m -> Keep m0 (set pc_size f m).
  Proof. apply K_same; reflexivity. Qed.
  Lemma K_set_pc_alive m0 f m : Keep m0 m -> Keep m0 (set pc_alive f m).
  Proof. apply K_same; reflexivity. Qed.
  Lemma K_set_st_collecting m0 f m : Keep m0 m -> Keep m0 (set st_collecting f m).
  Proof. apply K_same; reflexivity. Qed.
  Lemma K_set_st_finalizing m0 f m : Keep m0 m -> Keep m0 (set st_finalizing f m).
  Proof. apply K_same; reflexivity. Qed.
  Lemma K_set_st_dropping m0 f m : Keep m0 m -> Keep m0 (set st_dropping f m).
  Proof. apply K_same; reflexivity. Qed.
  Lemma K_set_st_alloc m0 f m : Keep m0 m -> Keep m0 (set st_alloc f m).
  Proof. apply K_same; reflexivity. Qed.
  Lemma K_set_st_exec m0 f m : Keep m0 m -> Keep m0 (set st_exec f m).
  Proof. apply K_same; reflexivity. Qed.
  Lemma K_set_cf_thr m0 f m : Keep m0 m -> Keep m0 (set cf_thr f m).
  Proof. apply K_same; reflexivity. Qed.
  Lemma K_set_cf_pnum m0 f m : Keep m0 m -> Keep m0 (set cf_pnum f m).
  Proof. apply K_same; reflexivity. Qed.
  Lemma K_set_cf_pexp m0 f m : Keep m0 m -> Keep m0 (set cf_pexp f m).
  Proof. apply K_same; reflexivity. Qed.
  Lemma K_set_cf_buf m0 f m : Keep m0 m -> Keep m0 (set cf_buf f m).
  Proof. apply K_same; reflexivity. Qed.
  Lemma K_set_cf_auto m0 f m : Keep m0 m -> Keep m0 (set cf_auto f m).
  Proof. apply K_same; reflexivity. Qed.
  Lemma K_set_values m0 f m : Keep m0 m -> Keep m0 (set values f m).
  Proof. apply K_same; reflexivity. Qed.
  Lemma K_set_fuse_trace m0 f m : Keep m0 m -> Keep m0 (set fuse_trace f m).
  Proof. apply K_same; reflexivity. Qed.
  Lemma K_set_fuse_fin m0 f m : Keep m0 m -> Keep m0 (set fuse_fin f m).
  Proof. apply K_same; reflexivity. Qed.
  Lemma K_set_fuse_drop m0 f m : Keep m0 m -> Keep m0 (set fuse_drop f m).
  Proof. apply K_same; reflexivity. Qed.
  Lemma K_set_fuse_action m0 f m : Keep m0 m -> Keep m0 (set fuse_action f m).
  Proof. apply K_same; reflexivity. Qed.
  Lemma K_set_fuse_closure m0 f m : Keep m0 m -> Keep m0 (set fuse_closure f m).
  Proof. apply K_same; reflexivity. Qed.
  Lemma K_set_panicking m0 f m : Keep m0 m -> Keep m0 (set panicking f m).
  Proof. apply K_same; reflexivity. Qed.
  Lemma K_set_next_aid m0 f m : Keep m0 m -> Keep m0 (set next_aid f m).
  Proof. apply K_same; reflexivity. Qed.
  Lemma K_set_log m0 f m : Keep m0 m -> Keep m0 (set log f m).
  Proof. apply K_same; reflexivity. Qed.
  Lemma K_set_dead m0 f m : Keep m0 m -> Keep m0 (set dead f m).
  Proof. apply K_same; reflexivity. Qed.

  Lemma K_emit m0 e m : Keep m0 m -> Keep m0 (emit e m).
  Proof. apply K_same; reflexivity. Qed.
  Lemma K_emit_bad m0 b o m : Keep m0 m -> Keep m0 (emit_bad b o m).
  Proof. apply K_emit. Qed.
  Lemma K_set_fuse m0 k n m : Keep m0 m -> Keep m0 (set_fuse k n m).
  Proof. destruct k; apply K_same; reflexivity. Qed.
  Lemma K_tick m0 k m : Keep m0 m -> Keep m0 (tick k m).1.
  Proof. intros H. unfold tick. destruct (_ =? 0); cbn [fst]; [exact H | apply K_set_fuse, H]. Qed.

  Lemma K_upd_q m0 o f m : (forall x, oq x (f x)) -> Keep m0 m -> Keep m0 (upd o f m).
  Proof. intros Hf H. eapply Keep_trans; [exact H|]. apply Keep_upd_q. intros x _. apply Hf. Qed.
  Lemma K_upd_q_at m0 o f m : (forall x, get m o = Some x -> oq x (f x)) -> Keep m0 m -> Keep m0 (upd o f m).
  Proof. intros Hf H. eapply Keep_trans; [exact H|]. apply Keep_upd_q. exact Hf. Qed.

  Definition hq (g : hdr -> hdr) : Prop :=
    forall h, h_rc (g h) = h_rc h /\ (is_in_list_or_queue h = false -> is_in_list_or_queue (g h) = false) /\
              (h_fin h = true -> h_fin (g h) = true).
  Lemma K_uhdr_q m0 o g m : hq g -> Keep m0 m -> Keep m0 (uhdr o g m).
  Proof.
    intros Hg. apply K_upd_q. intros x. destruct (Hg (o_hdr x)) as (A1 & A2 & A3).
    unfold oq, marked. cbn. repeat split; auto.
  Qed.
  Lemma hq_mark_NM : hq (set_mark NM). Proof. intros h. repeat split; auto. Qed.
  Lemma hq_mark_PC : hq (fun h => set_mark PC (reset_tc h)). Proof. intros h. repeat split; auto. Qed.
  Lemma hq_dropped : hq set_dropped. Proof. intros h. repeat split; auto. Qed.
  Lemma hq_fin : hq (set_fin true). Proof. intros h. repeat split; auto. Qed.
  Lemma hq_reset : hq reset_tc. Proof. intros h. repeat split; auto. Qed.
  Lemma hq_side b : hq (set_side b). Proof. intros h. repeat split; auto. Qed.
  Lemma hq_unlink : hq (fun h => let h := set_mark NM h in if k_weak K then set_dropped h else h).
  Proof. intros h. cbv zeta. destruct (k_weak K); repeat split; auto. Qed.

  Lemma K_dec_size m0 o m : Keep m0 m -> Keep m0 (dec_size o m).
  Proof. intros H. unfold dec_size. destruct (_ =? 0); [apply K_emit_bad, H | revert H; apply K_same; reflexivity]. Qed.
  Lemma K_remove_from_list m0 o m : Keep m0 m -> Keep m0 (remove_from_list o m).
  Proof.
    intros H. unfold remove_from_list. destruct (is_in_pc _); [|exact H]. destruct (pc_alive m); [|exact H].
    apply K_dec_size. eapply (K_same m0 (uhdr o (set_mark NM) m)); try reflexivity. apply K_uhdr_q; [apply hq_mark_NM | exact H].
  Qed.
  Lemma K_add_to_list m0 o m : Keep m0 m -> Keep m0 (add_to_list o m).
  Proof.
    intros H. unfold add_to_list. destruct (is_in_pc _); [exact H|]. destruct (pc_alive m); [|exact H]. cbv zeta.
    apply K_uhdr_q; [apply hq_mark_PC|].
    match goal with |- Keep _ (set pc_size _ (set pc _ ?mm)) => apply (K_same m0 mm); try reflexivity end.
    destruct (_ && _); [exact H | apply K_emit_bad, H].
  Qed.

  Lemma K_uside m0 o f m : Keep m0 m -> Keep m0 (uside o f m).
  Proof. apply K_upd_q. intros x. unfold oq, marked. cbn. repeat split; auto. Qed.
  Lemma K_sfree m0 o m : Keep m0 m -> Keep m0 (sfree o m).
  Proof.
    intros H. unfold sfree. destruct (get m o) as [x|]; [|apply K_emit_bad, H]. destruct (o_side x) as [s|]; [|apply K_emit_bad, H].
    apply K_emit. apply K_upd_q; [intros y; unfold oq, marked; cbn; repeat split; auto|].
    destruct (sd_freed s); [apply K_emit_bad, H | exact H].
  Qed.
  Lemma K_drop_metadata m0 o m : Keep m0 m -> Keep m0 (drop_metadata K o m).
  Proof.
    intros H. unfold drop_metadata. destruct (negb _); [exact H|]. destruct (get m o) as [x|]; [|apply K_emit_bad, H].
    destruct (h_side _); [|exact H]. destruct (o_side x) as [s|]; [|apply K_emit_bad, H]. cbv zeta.
    destruct (_ =? 0); [apply K_sfree | apply K_uside]; destruct (sd_freed s); try apply K_emit_bad; exact H.
  Qed.
  Lemma K_init_side m0 o m : Keep m0 m -> Keep m0 (init_side o m).
  Proof.
    intros H. unfold init_side. destruct (get m o) as [x|]; [|apply K_emit_bad, H]. destruct (h_side _); [exact H|].
    apply K_emit. apply K_upd_q; [|exact H]. intros y. unfold oq, marked. cbn. repeat split; auto.
  Qed.
  Lemma K_weak_strong_count m0 w m : Keep m0 m -> Keep m0 (weak_strong_count w m).1.
  Proof.
    intros H. unfold weak_strong_count. destruct w as [|o]; [exact H|]. destruct (get m o) as [x|]; [|apply K_emit_bad, H].
    destruct (o_side x) as [s|]; [|apply K_emit_bad, H]. cbv zeta.
    assert (H1 : Keep m0 (if sd_freed s then emit_bad UseAfterFree o m else m)) by (destruct (sd_freed s); [apply K_emit_bad, H | exact H]).
    destruct (w_acc _); [|exact H1].
    assert (H2 : Keep m0 (match o_box x with BAlloc => (if sd_freed s then emit_bad UseAfterFree o m else m) | _ => emit_bad UseAfterFree o (if sd_freed s then emit_bad UseAfterFree o m else m) end))
      by (destruct (o_box x); try apply K_emit_bad; exact H1).
    destruct (_ || _); exact H2.
  Qed.
  Lemma K_weak_weak_count m0 w m : Keep m0 m -> Keep m0 (weak_weak_count w m).1.
  Proof.
    intros H. unfold weak_weak_count. destruct w as [|o]; [exact H|]. destruct (get m o) as [x|]; [|apply K_emit_bad, H].
    destruct (o_side x) as [s|]; [|apply K_emit_bad, H]. cbn [fst]. destruct (sd_freed s); [apply K_emit_bad, H | exact H].
  Qed.
  Lemma K_weak_clone m0 w m m' : weak_clone w m = Some m' -> Keep m0 m -> Keep m0 m'.
  Proof.
    unfold weak_clone. intros E H. destruct w as [|o]; [injection E as <-; exact H|].
    destruct (side_wk m o) as [k|]; [|injection E as <-; apply K_emit_bad, H].
    destruct (inc_wk k); [|discriminate]. injection E as <-. apply K_uside, H.
  Qed.
  Lemma K_weak_drop m0 w m : Keep m0 m -> Keep m0 (weak_drop w m).
  Proof.
    intros H. unfold weak_drop. destruct w as [|o]; [exact H|]. destruct (get m o) as [x|]; [|apply K_emit_bad, H].
    destruct (o_side x) as [s|]; [|apply K_emit_bad, H]. cbv zeta.
    assert (H1 : Keep m0 (if sd_freed s then emit_bad UseAfterFree o m else m)) by (destruct (sd_freed s); [apply K_emit_bad, H | exact H]).
    destruct (dec_wk _) as [k'|]; [|apply K_emit_bad, H1].
    destruct (_ && _); [apply K_sfree|]; apply K_uside, H1.
  Qed.
  Lemma K_weak_drop_opt m0 w m : Keep m0 m -> Keep m0 (weak_drop_opt w m).
  Proof. destruct w; [apply K_weak_drop | auto]. Qed.

  Lemma K_node_via_slot m0 i m : Keep m0 m -> Keep m0 (node_via_slot i m).1.
  Proof.
    intros H. unfold node_via_slot. destruct (slots m !! i) as [[o|]|]; try exact H.
    destruct (get m o) as [x|]; [|apply K_emit_bad, H]. destruct (o_box x); try (apply K_emit_bad, H).
    destruct (_ && _); [exact H | apply K_emit_bad, H].
  Qed.
  Lemma K_resolve m0 self l m : Keep m0 m -> Keep m0 (resolve self l m).1.
  Proof.
    intros H. unfold resolve. destruct l as [i|j|i j]; cbn [fst]; [exact H| |].
    - destruct (self_node self m); exact H.
    - pose proof (K_node_via_slot m0 i m H) as H1. destruct (node_via_slot i m) as [m1 n]. destruct n; exact H1.
  Qed.
  Lemma K_wresolve m0 self l m : Keep m0 m -> Keep m0 (wresolve self l m).1.
  Proof.
    intros H. unfold wresolve. destruct l as [i|j|i j|]; cbn [fst]; [exact H| | |exact H].
    - destruct (self_node self m); exact H.
    - pose proof (K_node_via_slot m0 i m H) as H1. destruct (node_via_slot i m) as [m1 n]. destruct n; exact H1.
  Qed.
  Lemma K_nresolve m0 self n m : Keep m0 m -> Keep m0 (nresolve self n m).1.
  Proof. intros H. unfold nresolve. destruct n; [exact H | apply K_node_via_slot, H]. Qed.
  Lemma K_ok m0 m r : Keep m0 m -> Keep m0 (ok m r).1.
  Proof. apply K_emit. Qed.
  Lemma K_map_insert m0 mo a s m : Keep m0 m -> Keep m0 (map_insert mo a s m).1.
  Proof.
    intros H. unfold map_insert. destruct (get m mo) as [x|]; [|apply K_emit_bad, H].
    destruct (o_mfree x); cbn [fst]; (apply K_upd_q; [|exact H]); intros y; unfold oq, marked; cbn; repeat split; auto.
  Qed.
  Lemma K_adjust m0 m : Keep m0 m -> Keep m0 (adjust K m).
  Proof. intros H. unfold adjust. destruct (_ <=? _); [revert H; apply K_same; reflexivity|]. destruct (fprod_is_zero _ _); [exact H|]. revert H; apply K_same; reflexivity. Qed.
  Lemma K_adjust_trigger_point m0 m : Keep m0 m -> Keep m0 (adjust_trigger_point K m).
  Proof. unfold adjust_trigger_point. destruct (k_auto K); [apply K_adjust | auto]. Qed.
  Lemma K_fold {B} m0 (f : machine -> B -> machine) :
    (forall m a, Keep m0 m -> Keep m0 (f m a)) -> forall l m, Keep m0 m -> Keep m0 (fold_left f l m).
  Proof. intros Hf l. induction l as [|a l IH]; cbn; intros m H; [exact H|]. apply IH, Hf, H. Qed.
  Lemma K_fold_in {B} m0 (f : machine -> B -> machine) (l : list B) :
    (forall m a, a ∈ l -> Keep m0 m -> Keep m0 (f m a)) -> forall m, Keep m0 m -> Keep m0 (fold_left f l m).
  Proof.
    induction l as [|a l IH]; cbn; intros Hf m H; [exact H|]. apply IH; [|apply Hf; [left | exact H]].
    intros mm b Hb. apply Hf. right. exact Hb.
  Qed.
  Lemma K_unmark_all m0 l m : Keep m0 m -> Keep m0 (unmark_all l m).
  Proof. unfold unmark_all. apply K_fold. intros mm a. apply K_uhdr_q, hq_mark_NM. Qed.

  (** ** the helpers that need "not in [U]" *)
  Lemma K_upd_out m0 o f m :
    ~ U o ->
    (forall x, get m o = Some x -> o_fields (f x) = o_fields x /\ o_cleaner (f x) = o_cleaner x /\
                                   o_wfields (f x) = o_wfields x /\ (R o -> o_vst x = VDropping -> o_vst (f x) = VDropping)) ->
    Keep m0 m -> Keep m0 (upd o f m).
  Proof. intros Hu Hf H. eapply Keep_trans; [exact H|]. apply Keep_upd_out; assumption. Qed.
  Lemma K_uhdr_out m0 o g m : ~ U o -> Keep m0 m -> Keep m0 (uhdr o g m).
  Proof. intros Hu. apply K_upd_out; [exact Hu|]. intros x _. cbn. auto. Qed.
  Lemma K_dec_rc_m m0 o m : ~ U o -> Keep m0 m -> Keep m0 (dec_rc_m o m).
  Proof. intros Hu H. unfold dec_rc_m. destruct (dec_rc _); [apply K_uhdr_out; assumption | apply K_emit_bad, H]. Qed.
  Lemma K_dealloc m0 o m : ~ U o -> Keep m0 m -> Keep m0 (dealloc K o m).
  Proof.
    intros Hu H. unfold dealloc. destruct (get m o) as [x|]; [|apply K_emit_bad, H]. destruct (box_layout K x) as [sz al]. cbv zeta.
    apply K_emit. apply K_upd_out; [exact Hu | intros y _; cbn; auto|].
    match goal with |- Keep _ (set st_alloc _ ?mm) => apply (K_same m0 mm); try reflexivity end.
    destruct (_ <? _); [apply K_emit_bad|]; destruct (o_box x); try apply K_emit_bad; exact H.
  Qed.
  Lemma K_box_alloc m0 o m : ~ U o -> Keep m0 m -> Keep m0 (box_alloc K o m).
  Proof.
    intros Hu H. unfold box_alloc. destruct (get m o) as [x|]; [|apply K_emit_bad, H]. destruct (box_layout K x) as [sz al]. cbv zeta.
    apply K_emit. apply K_upd_out; [exact Hu | intros y _; cbn; auto|]. revert H. apply K_same; reflexivity.
  Qed.

  Lemma K_write_loc m0 r v m :
    (forall t, v = Some t -> ~ U t) -> (forall q j, r = RField q j -> ~ U q /\ ~ R q) ->
    Keep m0 m -> Keep m0 (write_loc r v m).
  Proof.
    intros Hv Hr H. eapply Keep_trans; [exact H|]. destruct r as [i|q j]; cbn [write_loc].
    - split.
      + intros t x _ Hx. exists x. split; [exact Hx | apply uview_refl].
      + intros t x _ Hx. exists x. split; [exact Hx | apply rview_refl].
      + intros h c t Ht Hl. destruct Hl as [i' t' Hs | t' Hb | p xp j t' Hp Hj | p xp t' Hp Hc].
        * cbn in Hs. apply list_lookup_insert_Some in Hs as [(-> & Hs & _) | (Hne & Hs)].
          -- exfalso. apply (Hv t'); [congruence | exact Ht].
          -- econstructor 1; eauto.
        * constructor 2; exact Hb.
        * econstructor 3; eauto.
        * econstructor 4; eauto.
      + intros t _. apply wloc_ext; reflexivity.
    - destruct (Hr q j eq_refl) as [Hu Hrr]. apply Keep_upd. intros x Hx. unfold upd_ok. cbn.
      split; [contradiction|]. split; [contradiction|]. split; [|split; eauto].
      intros j' t Ht Hl. apply list_lookup_insert_Some in Hl as [(-> & Hs & _) | (Hne & Hs)].
      + exfalso. apply (Hv t); [congruence | exact Ht].
      + eauto.
  Qed.
  Lemma K_cleaner m0 o v m : ~ U o -> (forall t, v = Some t -> ~ U t) -> Keep m0 m -> Keep m0 (upd o (fun x => x <| o_cleaner := v |>) m).
  Proof.
    intros Hu Hv H. eapply Keep_trans; [exact H|]. apply Keep_upd. intros x Hx. unfold upd_ok, rview. cbn.
    split; [contradiction|]. repeat split; eauto. intros t Ht ->. destruct (Hv t eq_refl Ht).
  Qed.
  Lemma K_bag m0 b m : (forall t, t ∈ b -> t ∈ bag m \/ ~ U t) -> Keep m0 m -> Keep m0 (m <| bag := b |>).
  Proof.
    intros Hb H. eapply Keep_trans; [exact H|]. split.
    - intros t x _ Hx. exists x. split; [exact Hx | apply uview_refl].
    - intros t x _ Hx. exists x. split; [exact Hx | apply rview_refl].
    - intros h c t Ht Hl. destruct Hl as [i' t' Hs | t' Hb' | p xp j t' Hp Hj | p xp t' Hp Hc].
      + econstructor 1; eauto.
      + cbn in Hb'. destruct (Hb t' Hb') as [Hin | Hn]; [constructor 2; exact Hin | contradiction].
      + econstructor 3; eauto.
      + econstructor 4; eauto.
    - intros t _. apply wloc_ext; reflexivity.
  Qed.
  Lemma K_write_wloc m0 rw v m : (forall t, v = Some (WTo t) -> ~ U t) -> Keep m0 m -> Keep m0 (write_wloc rw v m).
  Proof.
    intros Hv H. eapply Keep_trans; [exact H|]. destruct rw as [i|q j|]; cbn [write_wloc]; [| |apply Keep_refl].
    - split.
      + intros t x _ Hx. exists x. split; [exact Hx | apply uview_refl].
      + intros t x _ Hx. exists x. split; [exact Hx | apply rview_refl].
      + intros h c t _. apply hloc_ext; reflexivity.
      + intros t Ht [(i' & Hs)|[Hw|[Hw|Hw]]]; [|right; left; exact Hw | right; right; left; exact Hw | right; right; right; exact Hw].
        cbn in Hs. apply list_lookup_insert_Some in Hs as [(-> & Hs & _) | (Hne & Hs)].
        * exfalso. apply (Hv t); [congruence | exact Ht].
        * left. eauto.
    - apply Keep_upd. intros x Hx. unfold upd_ok, uview, rview, marked. cbn. repeat split; eauto.
      intros j' t Ht Hl. apply list_lookup_insert_Some in Hl as [(-> & Hs & _) | (Hne & Hs)].
      + exfalso. apply (Hv t); [congruence | exact Ht].
      + eauto.
  Qed.
  Lemma K_wfields_clear m0 o m : Keep m0 m -> Keep m0 (upd o (fun x => x <| o_wfields ::= fmap (fun _ => None) |>) m).
  Proof.
    intros H. eapply Keep_trans; [exact H|]. apply Keep_upd. intros x Hx. unfold upd_ok, uview, rview, marked. cbn. repeat split; eauto.
    intros j t _ Hl. rewrite list_lookup_fmap in Hl. destruct (o_wfields x !! j); cbn in Hl; discriminate.
  Qed.
  Lemma K_wfields_insert m0 o i o' m : ~ U o' -> Keep m0 m -> Keep m0 (upd o (fun x => x <| o_wfields ::= <[i := Some (WTo o')]> |>) m).
  Proof.
    intros Hu H. eapply Keep_trans; [exact H|]. apply Keep_upd. intros x Hx. unfold upd_ok, uview, rview, marked. cbn. repeat split; eauto.
    intros j' t Ht Hl. apply list_lookup_insert_Some in Hl as [(-> & Hs & _) | (Hne & Hs)]; [|eauto].
    exfalso. injection Hs as <-. contradiction.
  Qed.
  Lemma K_cslots m0 c v m : (forall cr, v = Some cr -> ~ U (cr_map cr)) -> Keep m0 m -> Keep m0 (m <| cslots ::= <[c := v]> |>).
  Proof.
    intros Hv H. eapply Keep_trans; [exact H|]. split.
    - intros t x _ Hx. exists x. split; [exact Hx | apply uview_refl].
    - intros t x _ Hx. exists x. split; [exact Hx | apply rview_refl].
    - intros h c' t _. apply hloc_ext; reflexivity.
    - intros t Ht [Hw|[Hw|[(c' & cr & Hs & Hcr)|Hw]]]; [left; exact Hw | right; left; exact Hw | | right; right; right; exact Hw].
      cbn in Hs. apply list_lookup_insert_Some in Hs as [(-> & Hs & _) | (Hne & Hs)].
      + exfalso. apply (Hv cr); [congruence | rewrite Hcr; exact Ht].
      + right; right; left. eauto.
  Qed.
  Lemma K_wparam_cons m0 o m : ~ U o -> Keep m0 m -> Keep m0 (m <| wparam ::= cons (WTo o) |>).
  Proof.
    intros Hu H. eapply Keep_trans; [exact H|]. split.
    - intros t x _ Hx. exists x. split; [exact Hx | apply uview_refl].
    - intros t x _ Hx. exists x. split; [exact Hx | apply rview_refl].
    - intros h c' t _. apply hloc_ext; reflexivity.
    - intros t Ht [Hw|[Hw|[Hw|Hw]]]; [left; exact Hw | | right; right; left; exact Hw | right; right; right; exact Hw].
      cbn in Hw. apply elem_of_cons in Hw as [Hw|Hw]; [injection Hw as ->; contradiction | right; left; exact Hw].
  Qed.
  Lemma K_wparam_tail m0 m : Keep m0 m -> Keep m0 (m <| wparam ::= tail |>).
  Proof.
    intros H. eapply Keep_trans; [exact H|]. split.
    - intros t x _ Hx. exists x. split; [exact Hx | apply uview_refl].
    - intros t x _ Hx. exists x. split; [exact Hx | apply rview_refl].
    - intros h c' t _. apply hloc_ext; reflexivity.
    - intros t Ht [Hw|[Hw|[Hw|Hw]]]; [left; exact Hw | | right; right; left; exact Hw | right; right; right; exact Hw].
      cbn in Hw. right; left. destruct (wparam m) as [|a l]; [exact Hw | apply elem_of_cons; right; exact Hw].
  Qed.
  Lemma K_new_node m0 c m : Keep m0 m -> Keep m0 (new_node P c m).1.
  Proof.
    intros H. eapply Keep_trans; [exact H|]. unfold new_node. cbn [fst]. apply Keep_new; cbn.
    - intros j t Hl. apply lookup_replicate in Hl as [Hl _]. discriminate.
    - reflexivity.
    - intros j w Hl. apply lookup_replicate in Hl as [Hl _]. discriminate.
  Qed.
  Lemma K_new_map m0 m : Keep m0 m -> Keep m0 (new_map m).1.
  Proof.
    intros H. eapply Keep_trans; [exact H|]. unfold new_map. cbn [fst]. apply Keep_new; cbn.
    - intros j t Hl. rewrite lookup_nil in Hl. discriminate.
    - reflexivity.
    - intros j w Hl. rewrite lookup_nil in Hl. discriminate.
  Qed.
End Prim.
