(** * Flags: the collector-flag discipline of the machine model (part 1: definitions and the
    frame lemmas of all closed helpers, including the tracing phases).

    [ctl m] = (collecting, finalizing, dropping, panicking).  Every activation restores [ctl]
    exactly (whatever its outcome) and only logs events that satisfy [ev_ok]. *)
From Coq Require Import NArith Bool List Lia.
From stdpp Require Import base list option.
From RecordUpdate Require Import RecordSet.
From RC Require Import Hdr Machine RunInd.
Import ListNotations RecordSetNotations.

Definition ctl (m : machine) : bool * bool * bool * bool :=
  (st_collecting m, st_finalizing m, st_dropping m, panicking m).

(** [is_tracing()] is false *)
Definition quiet (K : conf) (m : machine) : Prop :=
  is_tracing_spec (k_fin K) (st_collecting m) (st_finalizing m) (st_dropping m) = false.

(** the same, on a flag tuple *)
Definition tq (K : conf) (t : bool * bool * bool * bool) : Prop :=
  let '(c, f, d, _) := t in is_tracing_spec (k_fin K) c f d = false.

Definition ev_ok (K : conf) (e : event) : Prop :=
  match e with
  | ECb k _ f =>
    fl_t f = is_tracing_spec (k_fin K) (fl_c f) (fl_f f) (fl_d f) /\
    match k with
    | KTrace => fl_c f = true /\ fl_t f = true /\ fl_f f = false /\ fl_d f = false
    | KFin => fl_t f = false /\ fl_f f = true
    | KDrop => fl_t f = false
    | KAction => fl_t f = false
    | KClosure => fl_t f = false
    end
  | ESObs _ _ _ t => t = false
  | _ => True
  end.

Definition log_ok (K : conf) (l : list event) : Prop := Forall (ev_ok K) l.

(** events that carry no flag information and are logged by library code or by [ok] *)
Definition benign (e : event) : Prop :=
  match e with ECb _ _ _ | ESObs _ _ _ _ | ERes RPanicked => False | _ => True end.

Lemma benign_ok K e : benign e -> ev_ok K e.
Proof. destruct e; cbn; tauto. Qed.

(** A log predicate: closed under consing acceptable events, and every benign event is
    acceptable.  Two instances: [flagsA K] (the flag discipline, [log_ok K]) and, in Flags3,
    "the log only grows". *)
Record lpred := LPred {
  lp_ev : event -> Prop;
  lp_log : N -> list event -> Prop;      (* sees [st_exec] and the log *)
  lp_cons : forall e n l, lp_ev e -> lp_log n l -> lp_log n (e :: l);
  lp_benign : forall e, benign e -> lp_ev e;
}.

Definition flagsA (K : conf) : lpred :=
  LPred (ev_ok K) (fun _ => log_ok K) (fun e _ l He Hl => Forall_cons _ e l He Hl) (benign_ok K).

(** the invariant threaded through every definition: flags equal to [t], log fine *)
Definition inv (A : lpred) (t : bool * bool * bool * bool) (m : machine) : Prop :=
  ctl m = t /\ lp_log A (st_exec m) (log m).

Definition cl (m : machine) := (ctl m, st_exec m, log m).

Lemma inv_cl A t m m' : cl m' = cl m -> inv A t m -> inv A t m'.
Proof.
  intros E [H1 H2]. pose proof (f_equal (fun x => x.1.1) E) as E1.
  pose proof (f_equal (fun x => x.1.2) E) as E2. pose proof (f_equal snd E) as E3.
  unfold cl in E1, E2, E3. cbn [fst snd] in E1, E2, E3. split; congruence.
Qed.

Lemma inv_ctl A t m : inv A t m -> ctl m = t.
Proof. intros [H _]; exact H. Qed.
Lemma inv_log A t m : inv A t m -> lp_log A (st_exec m) (log m).
Proof. intros [_ H]; exact H. Qed.
Lemma inv_self A m : lp_log A (st_exec m) (log m) ->
  inv A (st_collecting m, st_finalizing m, st_dropping m, panicking m) m.
Proof. split; auto. Qed.

Lemma inv_c A c f d p m : inv A (c, f, d, p) m -> st_collecting m = c.
Proof. intros [H _]. unfold ctl in H. congruence. Qed.
Lemma inv_f A c f d p m : inv A (c, f, d, p) m -> st_finalizing m = f.
Proof. intros [H _]. unfold ctl in H. congruence. Qed.
Lemma inv_d A c f d p m : inv A (c, f, d, p) m -> st_dropping m = d.
Proof. intros [H _]. unfold ctl in H. congruence. Qed.
Lemma inv_p A c f d p m : inv A (c, f, d, p) m -> panicking m = p.
Proof. intros [H _]. unfold ctl in H. congruence. Qed.

Lemma inv_quiet K A t m : inv A t m -> tq K t -> quiet K m.
Proof. intros [H _] Hq. subst t. exact Hq. Qed.
Lemma quiet_tq K m : quiet K m -> tq K (ctl m).
Proof. auto. Qed.

Lemma tq_fin K c d p : k_fin K = true -> tq K (c, true, d, p).
Proof. intros E. cbn. rewrite E. cbn. rewrite andb_false_r. reflexivity. Qed.
Lemma tq_drop K c f p : tq K (c, f, true, p).
Proof. cbn. destruct (k_fin K); cbn; rewrite ?andb_false_r; reflexivity. Qed.
Lemma tq_idle K f d p : tq K (false, f, d, p).
Proof. cbn. destruct (k_fin K); reflexivity. Qed.
Lemma tq_panicking K c f d p p' : tq K (c, f, d, p) -> tq K (c, f, d, p').
Proof. auto. Qed.

(** ** Setting the flags *)
Lemma inv_set_c A c f d p b m :
  inv A (c, f, d, p) m -> inv A (b, f, d, p) (m <| st_collecting := b |>).
Proof. intros [H1 H2]. unfold ctl in H1. split; [unfold ctl; cbn; congruence | exact H2]. Qed.
Lemma inv_set_f A c f d p b m :
  inv A (c, f, d, p) m -> inv A (c, b, d, p) (m <| st_finalizing := b |>).
Proof. intros [H1 H2]. unfold ctl in H1. split; [unfold ctl; cbn; congruence | exact H2]. Qed.
Lemma inv_set_d A c f d p b m :
  inv A (c, f, d, p) m -> inv A (c, f, b, p) (m <| st_dropping := b |>).
Proof. intros [H1 H2]. unfold ctl in H1. split; [unfold ctl; cbn; congruence | exact H2]. Qed.
Lemma inv_set_p A c f d p b m :
  inv A (c, f, d, p) m -> inv A (c, f, d, b) (m <| panicking := b |>).
Proof. intros [H1 H2]. unfold ctl in H1. split; [unfold ctl; cbn; congruence | exact H2]. Qed.

(** ** Emitting events *)
Lemma inv_emit A t e m : lp_ev A e -> inv A t m -> inv A t (emit e m).
Proof. intros He [H1 H2]. split; [exact H1 | apply lp_cons; assumption]. Qed.
Lemma inv_emit_benign A t e m : benign e -> inv A t m -> inv A t (emit e m).
Proof. intros He. apply inv_emit, lp_benign, He. Qed.
Lemma inv_emit_bad A t b o m : inv A t m -> inv A t (emit_bad b o m).
Proof. apply inv_emit_benign. exact I. Qed.

(** ** Results of activations: the flags are [t] unless the activation ran out of fuel (then
    the model state is meaningless, only the log predicate is kept) *)
Definition res (A : lpred) (t : bool * bool * bool * bool) (x : machine * outcome) : Prop :=
  lp_log A (st_exec x.1) (log x.1) /\ (x.2 = OFuel \/ ctl x.1 = t).

Lemma res_intro A t m r : inv A t m -> res A t (m, r).
Proof. intros [H1 H2]. split; [exact H2 | right; exact H1]. Qed.
Lemma res_intro_fuel A t t' m : inv A t' m -> res A t (m, OFuel).
Proof. intros [H1 H2]. split; [exact H2 | left; reflexivity]. Qed.
Lemma res_elim A t m r : res A t (m, r) -> r <> OFuel -> inv A t m.
Proof. intros [H1 [H2|H2]] Hr; [contradiction | split; assumption]. Qed.
Lemma res_elim_fuel A t m r : res A t (m, r) ->
  inv A (st_collecting m, st_finalizing m, st_dropping m, panicking m) m.
Proof. intros [H1 _]. apply inv_self, H1. Qed.
Lemma res_eta A t x : res A t (x.1, x.2) -> res A t x.
Proof. destruct x; auto. Qed.

Create HintDb fl discriminated.

(** every update of a field other than the four flags and the log *)
#[export] Hint Extern 1 (inv _ _ (set _ _ ?X)) =>
  (apply (inv_cl _ _ X _ eq_refl)) : fl.
#[export] Hint Resolve inv_emit_bad : fl.
#[export] Hint Extern 1 (inv _ _ (emit _ _)) => (apply inv_emit_benign; [exact I|]) : fl.

(** destruct every [if]/[match] scrutinee in the goal, innermost machine-independent first *)
Ltac brk :=
  repeat match goal with
         | |- context [match ?x with _ => _ end] =>
           lazymatch x with
           | context [match _ with _ => _ end] => fail
           | _ => destruct x eqn:?
           end
         end.

Ltac fl := eauto 12 with fl.

Section Helpers.
  Context (K : conf) (P : prog) (A : lpred).
  Implicit Types (m : machine) (t : bool * bool * bool * bool).

  Lemma inv_upd t o f m : inv A t m -> inv A t (upd o f m).
  Proof. unfold upd. fl. Qed.
  Hint Resolve inv_upd : fl.
  Lemma inv_uhdr t o f m : inv A t m -> inv A t (uhdr o f m).
  Proof. unfold uhdr. fl. Qed.
  Hint Resolve inv_uhdr : fl.
  Lemma inv_dec_size t o m : inv A t m -> inv A t (dec_size o m).
  Proof. unfold dec_size. intros; brk; fl. Qed.
  Hint Resolve inv_dec_size : fl.
  Lemma inv_remove_from_list t o m : inv A t m -> inv A t (remove_from_list o m).
  Proof. unfold remove_from_list. intros; brk; fl. Qed.
  Lemma inv_add_to_list t o m : inv A t m -> inv A t (add_to_list o m).
  Proof. unfold add_to_list. intros; brk; fl. Qed.
  Lemma inv_dec_rc_m t o m : inv A t m -> inv A t (dec_rc_m o m).
  Proof. unfold dec_rc_m. intros; brk; fl. Qed.
  Hint Resolve inv_remove_from_list inv_add_to_list inv_dec_rc_m : fl.
  Lemma inv_dealloc t o m : inv A t m -> inv A t (dealloc K o m).
  Proof. unfold dealloc. intros; brk; fl. Qed.
  Lemma inv_sfree t o m : inv A t m -> inv A t (sfree o m).
  Proof. unfold sfree. intros; brk; fl. Qed.
  Lemma inv_uside t o f m : inv A t m -> inv A t (uside o f m).
  Proof. unfold uside. fl. Qed.
  Hint Resolve inv_dealloc inv_sfree inv_uside : fl.
  Lemma inv_drop_metadata t o m : inv A t m -> inv A t (drop_metadata K o m).
  Proof. unfold drop_metadata. intros; brk; fl. Qed.
  Lemma inv_init_side t o m : inv A t m -> inv A t (init_side o m).
  Proof. unfold init_side. intros; brk; fl. Qed.
  Hint Resolve inv_drop_metadata inv_init_side : fl.
  Lemma inv_weak_strong_count t w m : inv A t m -> inv A t (weak_strong_count w m).1.
  Proof. unfold weak_strong_count. intros; brk; cbn [fst]; fl. Qed.
  Lemma inv_weak_weak_count t w m : inv A t m -> inv A t (weak_weak_count w m).1.
  Proof. unfold weak_weak_count. intros; brk; cbn [fst]; fl. Qed.
  Lemma inv_weak_clone t w m m' : inv A t m -> weak_clone w m = Some m' -> inv A t m'.
  Proof. unfold weak_clone. intros H E; revert E; brk; intros [= <-]; fl. Qed.
  Lemma inv_weak_drop t w m : inv A t m -> inv A t (weak_drop w m).
  Proof. unfold weak_drop. intros; brk; fl. Qed.
  Hint Resolve inv_weak_strong_count inv_weak_weak_count inv_weak_drop : fl.
  Lemma inv_weak_drop_opt t w m : inv A t m -> inv A t (weak_drop_opt w m).
  Proof. unfold weak_drop_opt. intros; brk; fl. Qed.
  Hint Resolve inv_weak_drop_opt : fl.

  (** *** locations *)
  Lemma inv_node_via_slot t i m : inv A t m -> inv A t (node_via_slot i m).1.
  Proof. unfold node_via_slot. intros; brk; cbn [fst]; fl. Qed.
  Hint Resolve inv_node_via_slot : fl.
  Lemma inv_resolve t self l m : inv A t m -> inv A t (resolve self l m).1.
  Proof.
    unfold resolve. intros H. destruct l as [i|j|i j]; cbn [fst]; auto.
    - brk; cbn [fst]; auto.
    - pose proof (inv_node_via_slot t i m H) as H'.
      destruct (node_via_slot i m) as [m1 n]. cbn [fst] in H'. brk; cbn [fst]; auto.
  Qed.
  Lemma inv_wresolve t self l m : inv A t m -> inv A t (wresolve self l m).1.
  Proof.
    unfold wresolve. intros H. destruct l as [i|j|i j|]; cbn [fst]; auto.
    - brk; cbn [fst]; auto.
    - pose proof (inv_node_via_slot t i m H) as H'.
      destruct (node_via_slot i m) as [m1 n]. cbn [fst] in H'. brk; cbn [fst]; auto.
  Qed.
  Lemma inv_nresolve t self n m : inv A t m -> inv A t (nresolve self n m).1.
  Proof. unfold nresolve. intros; brk; cbn [fst]; fl. Qed.
  Lemma inv_write_loc t r v m : inv A t m -> inv A t (write_loc r v m).
  Proof. unfold write_loc. intros; brk; fl. Qed.
  Lemma inv_write_wloc t r v m : inv A t m -> inv A t (write_wloc r v m).
  Proof. unfold write_wloc. intros; brk; fl. Qed.
  Hint Resolve inv_resolve inv_wresolve inv_nresolve inv_write_loc inv_write_wloc : fl.

  (** *** allocation, fuses, trigger policy, cleaner maps *)
  Lemma inv_new_node t c m : inv A t m -> inv A t (new_node P c m).1.
  Proof. unfold new_node. intros; cbn [fst]; fl. Qed.
  Lemma inv_new_map t m : inv A t m -> inv A t (new_map m).1.
  Proof. unfold new_map. intros; cbn [fst]; fl. Qed.
  Lemma inv_box_alloc t o m : inv A t m -> inv A t (box_alloc K o m).
  Proof. unfold box_alloc. intros; brk; fl. Qed.
  Lemma inv_set_fuse t k n m : inv A t m -> inv A t (set_fuse k n m).
  Proof. unfold set_fuse. intros; brk; fl. Qed.
  Hint Resolve inv_new_node inv_new_map inv_box_alloc inv_set_fuse : fl.
  Lemma inv_tick t k m : inv A t m -> inv A t (tick k m).1.
  Proof. unfold tick. intros; brk; cbn [fst]; fl. Qed.
  Lemma inv_adjust t m : inv A t m -> inv A t (adjust K m).
  Proof. unfold adjust. intros; brk; fl. Qed.
  Hint Resolve inv_tick inv_adjust : fl.
  Lemma inv_adjust_trigger_point t m : inv A t m -> inv A t (adjust_trigger_point K m).
  Proof. unfold adjust_trigger_point. intros; brk; fl. Qed.
  Lemma inv_map_insert t mo a s m : inv A t m -> inv A t (map_insert mo a s m).1.
  Proof. unfold map_insert. intros; brk; cbn [fst]; fl. Qed.
  Hint Resolve inv_adjust_trigger_point inv_map_insert : fl.

  (** *** folds *)
  Lemma inv_fold {B} (f : machine -> B -> machine) t :
    (forall m a, inv A t m -> inv A t (f m a)) ->
    forall l m, inv A t m -> inv A t (fold_left f l m).
  Proof. intros Hf l. induction l as [|a l IH]; cbn; intros m H; auto. Qed.
  Lemma inv_unmark_all t l m : inv A t m -> inv A t (unmark_all l m).
  Proof. unfold unmark_all. apply inv_fold. intros; fl. Qed.
  Lemma inv_reset_buffered t m : inv A t m -> inv A t (reset_buffered m).
  Proof. unfold reset_buffered. apply inv_fold. intros; fl. Qed.
  Hint Resolve inv_unmark_all inv_reset_buffered : fl.

  (** *** unwinding *)
  Lemma res_unwinding c f d p (k : machine -> machine * outcome) m :
    (forall m1, inv A (c, f, d, true) m1 -> res A (c, f, d, true) (k m1)) ->
    inv A (c, f, d, p) m -> res A (c, f, d, p) (unwinding k m).
  Proof.
    intros Hk H. unfold unwinding.
    pose proof (Hk _ (inv_set_p A c f d p true m H)) as H1.
    destruct (k (m <| panicking := true |>)) as [m1 r1]. destruct H1 as [Hl Hc]. cbn [fst snd] in *.
    split; [exact Hl|]. cbn [fst snd].
    destruct Hc as [->|Hc]; [left; reflexivity|]. right.
    rewrite (inv_p _ _ _ _ _ _ H). unfold ctl in *. cbn. congruence.
  Qed.

  (** *** the tracing phases: run with (collecting, not finalizing, not dropping); they log
      [ECb KTrace] with exactly these flags, and [EBad] events *)
  Section Tracing.
    Context (tt : bool * bool * bool * bool).
    Context (Htr : forall o m, inv A tt m -> lp_ev A (ECb KTrace o (cur_flags K m))).

    Lemma inv_traced_children t m o : inv A t m -> inv A t (traced_children P m o).1.
    Proof. unfold traced_children. intros; brk; cbn [fst]; fl. Qed.
    Hint Resolve inv_traced_children : fl.

    Lemma inv_trace_event o m : inv A tt m -> inv A tt (trace_event K o m).1.
    Proof.
      unfold trace_event. intros H. destruct (is_map m o); cbn [fst]; auto.
      apply inv_tick, inv_emit; auto.
    Qed.

    Lemma inv_visit_counting t s c : inv A t (t_m s) -> inv A t (t_m (visit_counting s c)).
    Proof. unfold visit_counting. intros; brk; cbn [t_m]; fl. Qed.
    Lemma inv_visit_root t s c : inv A t (t_m s) -> inv A t (t_m (visit_root s c)).
    Proof. unfold visit_root. intros; brk; cbn [t_m]; fl. Qed.

    Lemma inv_fold_visit_counting t l s :
      inv A t (t_m s) -> inv A t (t_m (fold_left visit_counting l s)).
    Proof. revert s. induction l as [|a l IH]; cbn; intros s H; auto using inv_visit_counting. Qed.
    Lemma inv_fold_visit_root t l s :
      inv A t (t_m s) -> inv A t (t_m (fold_left visit_root l s)).
    Proof. revert s. induction l as [|a l IH]; cbn; intros s H; auto using inv_visit_root. Qed.

    Lemma inv_process_counting s o :
      inv A tt (t_m s) -> inv A tt (t_m (process_counting K P s o).1).
    Proof.
      intros H. unfold process_counting.
      pose proof (inv_trace_event o _ (inv_uhdr tt o (set_mark IQ) _ H)) as H1.
      destruct (trace_event K o (uhdr o (set_mark IQ) (t_m s))) as [m1 boom]. cbn [fst] in H1.
      destruct boom; cbn [fst t_m].
      - fl.
      - pose proof (inv_traced_children tt m1 o H1) as H2.
        destruct (traced_children P m1 o) as [m2 kids]. cbn [fst] in H2.
        match goal with |- context [fold_left visit_counting kids ?s0] =>
          pose proof (inv_fold_visit_counting tt kids s0 H2) as H3;
          destruct (fold_left visit_counting kids s0) as [m3 r3 n3 q3] end.
        cbn [t_m] in *. brk; cbn [fst t_m]; fl.
    Qed.

    Lemma inv_process_root s o :
      inv A tt (t_m s) -> inv A tt (t_m (process_root K P s o).1).
    Proof.
      intros H. unfold process_root.
      pose proof (inv_trace_event o _ H) as H1.
      destruct (trace_event K o (t_m s)) as [m1 boom]. cbn [fst] in H1.
      destruct boom; cbn [fst t_m].
      - fl.
      - pose proof (inv_traced_children tt m1 o H1) as H2.
        destruct (traced_children P m1 o) as [m2 kids]. cbn [fst] in H2.
        apply inv_fold_visit_root. exact H2.
    Qed.

    Lemma inv_counting n : forall s r,
      inv A tt (t_m s) -> counting K P n s = Some r -> inv A tt (t_m r.1).
    Proof.
      induction n as [|n IH]; intros s r H E; cbn in E; [discriminate|].
      destruct (pc (t_m s)) as [|o rest] eqn:Epc.
      - destruct (t_q s) as [|o q'] eqn:Eq.
        + injection E as <-. exact H.
        + match type of E with context [process_counting K P ?s0 o] =>
            assert (H1 : inv A tt (t_m s0)) by (cbn [t_m]; fl);
            pose proof (inv_process_counting s0 o H1) as H2;
            destruct (process_counting K P s0 o) as [s' boom] end.
          cbn [fst] in H2. destruct boom; [injection E as <-; exact H2 | eauto].
      - match type of E with context [process_counting K P ?s0 o] =>
          assert (H1 : inv A tt (t_m s0)) by (cbn [t_m]; fl);
          pose proof (inv_process_counting s0 o H1) as H2;
          destruct (process_counting K P s0 o) as [s' boom] end.
        cbn [fst] in H2. destruct boom; [injection E as <-; exact H2 | eauto].
    Qed.

    Lemma inv_roots n : forall s r,
      inv A tt (t_m s) -> roots K P n s = Some r -> inv A tt (t_m r.1).
    Proof.
      induction n as [|n IH]; intros s r H E; cbn in E; [discriminate|].
      destruct (t_root s) as [|o rest] eqn:Er.
      - destruct (t_q s) as [|o q'] eqn:Eq.
        + injection E as <-. exact H.
        + match type of E with context [process_root K P ?s0 o] =>
            assert (H1 : inv A tt (t_m s0)) by (cbn [t_m]; fl);
            pose proof (inv_process_root s0 o H1) as H2;
            destruct (process_root K P s0 o) as [s' boom] end.
          cbn [fst] in H2. destruct boom; [injection E as <-; exact H2 | eauto].
      - match type of E with context [process_root K P ?s0 o] =>
          assert (H1 : inv A tt (t_m s0)) by (cbn [t_m]; fl);
          pose proof (inv_process_root s0 o H1) as H2;
          destruct (process_root K P s0 o) as [s' boom] end.
        cbn [fst] in H2. destruct boom; [injection E as <-; exact H2 | eauto].
    Qed.

    Lemma inv_trace_pass m : inv A tt m -> inv A tt (trace_pass K P m).1.
    Proof.
      intros H. unfold trace_pass.
      destruct (counting K P (pass_fuel m) (TState m [] [] [])) as [[s b]|] eqn:E1; [|exact H].
      pose proof (inv_counting _ (TState m [] [] []) _ H E1) as H1. cbn [fst] in H1.
      destruct b; [exact H1|].
      destruct (roots K P (pass_fuel m) s) as [[s' b']|] eqn:E2; [|exact H1].
      pose proof (inv_roots _ _ _ H1 E2) as H2. cbn [fst] in H2.
      destruct b'; exact H2.
    Qed.
  End Tracing.
End Helpers.

Lemma ev_ok_trace K A p m o :
  inv A (true, false, false, p) m -> ev_ok K (ECb KTrace o (cur_flags K m)).
Proof.
  intros H. unfold cur_flags.
  rewrite (inv_c _ _ _ _ _ _ H), (inv_f _ _ _ _ _ _ H), (inv_d _ _ _ _ _ _ H).
  cbn. destruct (k_fin K); cbn; auto.
Qed.

#[export] Hint Resolve inv_upd inv_uhdr inv_dec_size inv_remove_from_list inv_add_to_list
  inv_dec_rc_m inv_dealloc inv_sfree inv_uside inv_drop_metadata inv_init_side
  inv_weak_strong_count inv_weak_weak_count inv_weak_drop inv_weak_drop_opt
  inv_node_via_slot inv_resolve inv_wresolve inv_nresolve inv_write_loc inv_write_wloc
  inv_new_node inv_new_map inv_box_alloc inv_set_fuse inv_tick inv_adjust
  inv_adjust_trigger_point inv_map_insert inv_unmark_all inv_reset_buffered : fl.
