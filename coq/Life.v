(** * Life: call closure for the safety layer.

    [SafeFinal.run_okQ] gives the post-condition of every activation that starts in a state
    satisfying [Pre] / [Q]; the fact that every NESTED activation of such a run again starts in
    such a state is established inside the proofs of part A / part B but is not part of their
    statements.  This file makes it available for every decidable consequence [chk] of [Pre]/[Q]
    that does not read the ghost field [dead]:

    - [mrun]: the interpreter that appends a marker id [mu] to [dead] whenever an activation
      starts in a state where [chk] fails (and then goes on);
    - [mrun_eq]: [mrun n k m] is [run K P n k m] with some markers appended to [dead]
      ([dead] is a ghost: LifeGhost*.v), in particular same outcome, same log, same heap;
    - [mrun_okQ]: [mrun] satisfies the specification of part A / part B;
    - [mrun_ind]: the induction principle for invariants of [mrun] that may assume [chk] at the
      entry of every activation and are vacuous on marked states;
    - [mfold_eq]: for every program and every clean run, the marked run and the real run
      coincide when [mu] is not an object of the final heap (a marker would violate
      [SInv.sv_dead]).  Hence every such invariant holds of the real final state. *)
From Coq Require Import NArith Bool List Lia.
From stdpp Require Import base list option.
From RecordUpdate Require Import RecordSet.
From RC Require Import Hdr Machine RunInd.
From RC Require BufBase BufPass BufStep Buf Flags3.
From RC Require SafeCollDec SafeCollNf SafeCollGuard.
From RC Require Import Inv InvP SafeHelpers SafePrims SafeCalls SafeGlue SafeDrop SafeCmd SafeCyclic SafeMain.
From RC Require Import SafeColl SafeFinal.
From RC Require Import LifeGhost LifeGhost2 LifeGhost5.
Import ListNotations RecordSetNotations.
Local Open Scope N_scope.

Lemma core_eq_dl t m : BufBase.core_eq m (dl t m).
Proof. repeat split. Qed.

Lemma mem_id_app o l1 l2 : mem_id o (l1 ++ l2) = mem_id o l1 || mem_id o l2.
Proof. unfold mem_id. apply existsb_app. Qed.
Lemma mem_id_here o l : mem_id o (o :: l) = true.
Proof. unfold mem_id. cbn. rewrite Nat.eqb_refl. reflexivity. Qed.

Section Chk.
  Context (K : conf) (P : prog).
  Hypothesis Hconf : k_clean K = true -> k_weak K = true.
  Hypothesis Hwf : wf_prog P = true.
  Context (chk : call -> machine -> bool).
  Hypothesis chk_dl : forall c s m, chk c (dl s m) = chk c m.
  Hypothesis chk_ok : forall b E A c m, Pre K (PreC K) b E c m -> Q K A c m -> chk c m = true.
  Context (mu : id).

  Definition mark (c : call) (m : machine) : machine := if chk c m then m else dl [mu] m.
  Fixpoint mrun (n : nat) (c : call) (m : machine) : machine * outcome :=
    match n with
    | O => (m, OFuel)
    | S n => step K P (mrun n) c (mark c m)
    end.

  Definition MKmu (t : list id) : Prop := Forall (fun x => x = mu) t.
  Lemma MKmu_nil : MKmu [].
  Proof. constructor. Qed.
  Lemma MKmu_app a b : MKmu a -> MKmu b -> MKmu (a ++ b).
  Proof. intros Ha Hb. apply Forall_app. split; assumption. Qed.

  Lemma mark_dl c s m : exists t, MKmu t /\ mark c (dl s m) = dl (s ++ t) m /\ (chk c m = true -> t = []) /\
                                  (chk c m = false -> t = [mu]).
  Proof.
    unfold mark. rewrite chk_dl. destruct (chk c m).
    - exists []. split; [apply MKmu_nil|]. rewrite app_nil_r. repeat split; auto. discriminate.
    - exists [mu]. split; [repeat constructor|]. rewrite dl_dl. repeat split; auto. discriminate.
  Qed.

  Lemma mrun_rel n : forall k, related MKmu (mrun n k) (run K P n k).
  Proof.
    induction n as [|n IH]; intros k s m.
    - exists []. split; [apply MKmu_nil|]. rewrite app_nil_r. reflexivity.
    - cbn [mrun]. rewrite run_S. destruct (mark_dl k s m) as (t0 & Ht0 & -> & _).
      destruct (r_step K P MKmu MKmu_nil MKmu_app (mrun n) (run K P n) IH k (s ++ t0) m) as (t & Ht & E).
      rewrite E. exists (t0 ++ t). split; [apply MKmu_app; assumption|]. rewrite app_assoc. reflexivity.
  Qed.

  Lemma mrun_eq n k m : exists t, MKmu t /\ mrun n k m = (dl t (run K P n k m).1, (run K P n k m).2).
  Proof.
    destruct (mrun_rel n k [] m) as (t & Ht & E). rewrite dl_nil in E. exists t. split; [exact Ht | exact E].
  Qed.

  (** a run that starts by a failed check is marked *)
  Lemma mrun_failed n k m : chk k m = false ->
    exists t, mrun (S n) k m = (dl (mu :: t) (run K P (S n) k m).1, (run K P (S n) k m).2).
  Proof.
    intros Hc. cbn [mrun]. rewrite run_S. destruct (mark_dl k [] m) as (t0 & _ & E & _ & Ht0).
    rewrite dl_nil in E. rewrite E, (Ht0 Hc).
    destruct (r_step K P MKmu MKmu_nil MKmu_app (mrun n) (run K P n) (mrun_rel n) k ([] ++ [mu]) m) as (t & _ & E2).
    rewrite E2. exists t. reflexivity.
  Qed.

  (** ** [mrun] satisfies Buf's and part A/B's specifications *)
  Lemma mrun_rok n : BufStep.rok K (mrun n).
  Proof.
    intros A c m HP. destruct (mrun_eq n c m) as (t & _ & ->). cbn [fst snd].
    destruct (Buf.run_buf K P n A c m HP) as (F & HG & He).
    split; [eapply BufBase.frame_trans; [exact F | apply BufBase.frame_core, core_eq_dl]|].
    split; [|exact He].
    intros Hr. specialize (HG Hr). destruct c; cbn [BufStep.goalA] in *;
      (eapply BufBase.G_core; [apply core_eq_dl | exact HG]).
  Qed.
  Lemma mrun_nfspec n : nfspec (mrun n).
  Proof.
    intros c m Hm. destruct (mrun_eq n c m) as (t & _ & ->). cbn [fst snd]. intros Hr.
    exact (SafeCollNf.run_nofuel K P n c m Hm Hr).
  Qed.

  Theorem mrun_okQ n : forall b E A c m,
    Pre K (PreC K) b E c m -> Q K A c m -> Post K (PostC K) b E c m (mrun n c m).1 (mrun n c m).2.
  Proof.
    induction n as [|n IH]; intros b E A c m Hpre HQ; cbn [mrun fst snd].
    - apply fuel_ok_all.
    - unfold mark. rewrite (chk_ok b E A c m Hpre HQ).
      destruct (noncollector c) eqn:Hc.
      + rewrite <- (SafeCollGuard.closure K P (Qdec K) A (mrun n) c m (mrun_rok n) (mrun_nfspec n)
                      ltac:(rewrite noncoll_eq; exact Hc) HQ).
        apply (step_ok_noncollector K P (PreC K) (PostC K) Hconf Hwf); [|exact Hc|exact Hpre].
        intros b' E' c' m' Hpre'. unfold SafeCollGuard.guarded.
        destruct (Qdec K A c' m') as [HQ'|HQ']; cbn [fst snd].
        * apply (IH b' E' A c' m' Hpre' HQ').
        * apply fuel_ok_all.
      + apply (coll_ok K P (mrun n) IH (mrun_rok n) (mrun_nfspec n) b E A c m Hc Hpre HQ).
  Qed.

  (** ** The induction principle *)
  Section Ind.
    Context (Pre2 : call -> machine -> Prop) (Post2 : call -> machine -> machine -> outcome -> Prop).
    Hypothesis Hvac : forall c m m' r, mem_id mu (dead m') = true -> Post2 c m m' r.
    Hypothesis Hstep : forall rec, rec_ok Pre2 Post2 rec -> forall c m, Pre2 c m -> chk c m = true ->
      Post2 c m (step K P rec c m).1 (step K P rec c m).2.
    Hypothesis Hfuel : forall c m, Pre2 c m -> Post2 c m m OFuel.

    Theorem mrun_ind n : rec_ok Pre2 Post2 (mrun n).
    Proof.
      induction n as [|n IH]; intros c m Hpre.
      - apply Hfuel, Hpre.
      - destruct (chk c m) eqn:Hc.
        + cbn [mrun]. unfold mark. rewrite Hc. apply Hstep; assumption.
        + destruct (mrun_failed n c m Hc) as (t & ->). cbn [fst snd]. apply Hvac.
          rewrite dead_dl, mem_id_app, mem_id_here. apply orb_true_r.
    Qed.
  End Ind.

  (** ** Programs *)
  Definition mexec_top (fuel : nat) (c : cmd) (m : machine) : machine :=
    let '(m, r) := mrun fuel (KCmd None c) m in
    match r with
    | ONormal => m
    | OPanic => emit (ERes RPanicked) m
    | OAbort => emit_bad Abort 0 m
    | OFuel => emit_bad Fuel 0 m
    end.

  Lemma clean_exec_top fuel c m : clean (exec_top K P fuel c m) = true ->
    clean m = true /\ ((run K P fuel (KCmd None c) m).2 = ONormal \/ (run K P fuel (KCmd None c) m).2 = OPanic).
  Proof.
    intros Hcl. unfold exec_top in Hcl.
    pose proof (Flags3.run_log_mono K P fuel (KCmd None c) m) as Hsuf.
    destruct (run K P fuel (KCmd None c) m) as [m1 r]. cbn [fst snd] in *.
    unfold clean in *. destruct r; cbn in Hcl; try discriminate.
    - split; [eapply forallb_suffix; eauto | auto].
    - split; [eapply forallb_suffix; eauto | auto].
  Qed.

  Lemma heap_len_le m m' :
    (forall o x, get m o = Some x -> exists x', get m' o = Some x') -> (length (heap m) <= length (heap m'))%nat.
  Proof.
    intros H. destruct (heap m) as [|x0 h0] eqn:Eh; [cbn; lia|].
    assert (Hl : (length h0 < length (heap m))%nat) by (rewrite Eh; cbn; lia).
    apply lookup_lt_is_Some_2 in Hl as [x Hx]. destruct (H _ _ Hx) as [x' Hx'].
    apply lookup_lt_Some in Hx'. rewrite <- Eh. cbn in *. unfold id in *.
    assert (length (heap m) = S (length h0)) by (rewrite Eh; reflexivity). lia.
  Qed.

  Theorem mfold_eq fuel cmds :
    let m := fold_left (fun m c => exec_top K P fuel c m) cmds (init K) in
    clean m = true -> (length (heap m) <= mu)%nat ->
    fold_left (fun m c => mexec_top fuel c m) cmds (init K) = m.
  Proof.
    cbv zeta. induction cmds as [|c cmds IH] using rev_ind; [reflexivity|].
    rewrite !fold_left_app. cbn [fold_left]. set (m0 := fold_left (fun m c => exec_top K P fuel c m) cmds (init K)) in *.
    set (mf := fold_left (fun m c => mexec_top fuel c m) cmds (init K)) in *.
    intros Hcl Hmu. destruct (clean_exec_top fuel c m0 Hcl) as [Hcl0 Hr].
    destruct (safe_programs_sinv K P fuel cmds Hconf Hwf Hcl0) as (b & Hnb & HI & _ & HB). fold m0 in Hnb, HI, HB.
    assert (HQ : Q K [] (KCmd None c) m0) by (split; [right; exact HB | apply (clean_nofuel m0 Hcl0)]).
    assert (Hpre : Pre K (PreC K) b [] (KCmd None c) m0).
    { rewrite Pre_nc by reflexivity. split; [exact Hnb|]. split; [exact HI | exact I]. }
    pose proof (run_okQ K P Hconf Hwf fuel b [] [] (KCmd None c) m0 Hpre HQ) as HP.
    pose proof (mrun_okQ fuel b [] [] (KCmd None c) m0 Hpre HQ) as HM.
    destruct (mrun_eq fuel (KCmd None c) m0) as (t & Ht & E).
    unfold exec_top in Hcl, Hmu |- *. unfold mexec_top.
    destruct (run K P fuel (KCmd None c) m0) as [m1 r] eqn:Hrun. cbn [fst snd] in *.
    rewrite Post_nc in HP, HM by reflexivity.
    assert (Hlen : (length (heap m0) <= length (heap m1))%nat /\ t = []).
    { destruct Hr as [-> | ->].
      - destruct HP as (_ & _ & HF & _). rewrite E in HM. cbn [fst snd] in HM. destruct HM as (_ & HS & _).
        split; [apply heap_len_le; intros o x Hx; destruct (fr_obj _ _ _ _ _ HF o x Hx) as (x' & Hx' & _); eauto|].
        destruct t as [|a t]; [reflexivity|]. exfalso.
        inversion Ht as [|a' t' Ha _]; subst a' t' a.
        destruct (sv_dead _ _ _ _ _ HS mu) as [y Hy].
        { unfold inD. rewrite dead_dl, mem_id_app, mem_id_here. apply orb_true_r. }
        rewrite get_dl in Hy. apply lookup_lt_Some in Hy. cbn in Hmu. lia.
      - destruct HP as (_ & _ & HF & _). rewrite E in HM. cbn [fst snd] in HM. destruct HM as (_ & HS & _).
        split; [apply heap_len_le; intros o x Hx; destruct (fr_obj _ _ _ _ _ HF o x Hx) as (x' & Hx' & _); eauto|].
        destruct t as [|a t]; [reflexivity|]. exfalso.
        inversion Ht as [|a' t' Ha _]; subst a' t' a.
        destruct (sv_dead _ _ _ _ _ HS mu) as [y Hy].
        { unfold inD. rewrite dead_dl, mem_id_app, mem_id_here. apply orb_true_r. }
        rewrite get_dl in Hy. apply lookup_lt_Some in Hy. cbn in Hmu. lia. }
    destruct Hlen as [Hlen ->]. rewrite dl_nil in E.
    rewrite IH; [rewrite E; reflexivity | exact Hcl0|].
    destruct Hr as [-> | ->]; cbn in Hmu; lia.
  Qed.
End Chk.

Print Assumptions mrun_okQ.
Print Assumptions mrun_ind.
Print Assumptions mfold_eq.
