(** * SoleWalk2: the collector passes preserve the frame for solely owned objects. *)
From Coq Require Import NArith Bool List Lia.
From stdpp Require Import base list option.
From RecordUpdate Require Import RecordSet.
From RC Require Import Hdr Machine RunInd.
From RC Require Import Inv InvP SafeHelpers.
From RC Require Import Clean CleanFrame CleanUFrame.
From RC Require Pass PassMain.
From RC Require Import SoleInv SolePrim SoleStep.
Import ListNotations RecordSetNotations.
Local Open Scope N_scope.

Section Walk.
  Context (K : conf) (P : prog) (U R : id -> Prop) (mu : id).
  Notation St := (St K U R mu).
  Notation SI := (SI K U R).
  Notation Args := (Args U R).
  Notation Keep := (Keep U R).
  Context (rec : call -> machine -> machine * outcome).
  Hypothesis Hrec : rec_ok (Pre2 K U R mu) (Post2 U R mu) rec.

  Lemma s_finalize_list L rest any old_f m :
    (forall g, g ∈ rest -> exists x, get m g = Some x /\ o_vst x = VLive) ->
    St m (Args (KFinalizeList L rest any old_f)) m -> St m True (step_finalize_list K P rec L rest any old_f m).1.
  Proof.
    intros Hlive HS. unfold step_finalize_list. destruct rest as [|g rest'].
    - cbv zeta. destruct (negb any).
      + sdead (m <| st_finalizing := old_f |> <| st_dropping := true |>) L. sfin. aargs.
      + sfin.
    - destruct (Hlive g) as (x & Hx & Hv); [left|].
      learn (~ U g /\ ~ R g /\ forall g', g' ∈ rest' -> ~ U g').
      { split; [apply H0; left|]. split; [eapply SI_notR_vst; eauto; congruence|]. intros g' Hg'. apply H0. right. exact Hg'. }
      go aargs.
  Qed.

  Lemma s_drop_list L rest old_d m :
    (forall g, g ∈ rest -> g ∈ L) ->
    St m (Args (KDropList L rest old_d)) m -> St m True (step_drop_list K rec L rest old_d m).1.
  Proof.
    intros Hsub HS. unfold step_drop_list. destruct rest as [|g rest'].
    - sfin.
    - learn (~ U g). { apply HF, Hsub. left. }
      go aargs.
  Qed.

  (** what the walk needs to know about the tracing pass (a consequence of the pass theorems) *)
  Definition PassGood (m : machine) : Prop :=
    let m0 := m <| st_finalizing := false |> <| st_dropping := false |> in
    (trace_pass K P m0).2 <> PFuel /\
    (forall t x', get (trace_pass K P m0).1 t = Some x' -> o_box x' = BAlloc -> marked x' = true ->
       exists L, (trace_pass K P m0).2 = PDone L /\ t ∈ L) /\
    (forall L, (trace_pass K P m0).2 = PDone L -> forall t, t ∈ L ->
       forall p xp j, get m p = Some xp -> o_fields xp !! j = Some (Some t) -> p ∈ L /\ o_vst xp = VLive).

  Lemma U_not_in_L m (L : list id) : SI m ->
    (forall t, t ∈ L -> forall p xp j, get m p = Some xp -> o_fields xp !! j = Some (Some t) -> p ∈ L /\ o_vst xp = VLive) ->
    forall t, U t -> t ∉ L.
  Proof.
    intros HS Hcl. apply (si_wf _ _ _ _ HS). intros t Ht IH Hin.
    destruct (si_hold _ _ _ _ HS t Ht) as (s & xs & j & Hs & Hxs & Hj).
    destruct (Hcl t Hin s xs j Hxs Hj) as [HsL Hv]. destruct Hs as [Hs|Hs].
    - exact (IH s xs j Hs Hxs Hj HsL).
    - destruct (si_r _ _ _ _ HS s Hs) as (y & Hy & Hvy). congruence.
  Qed.

  Lemma Keep_pass m : SI m -> PassGood m ->
    Keep m (trace_pass K P (m <| st_finalizing := false |> <| st_dropping := false |>)).1.
  Proof.
    intros HS (Hnf & Hmk & Hcl). cbv zeta in *.
    set (m0 := m <| st_finalizing := false |> <| st_dropping := false |>) in *.
    destruct (trace_pass K P m0) as [m1 pr] eqn:Hr. cbn [fst snd] in *.
    destruct (PassMain.pass_frame_full K P m0 m1 pr Hr) as (Hlen & Hsim & Hobj & _ & _ & F).
    destruct F as (_ & _ & _ & _ & _ & _ & _ & _ & _ & _ & _ & Hsl & Hws & Hcs & _ & Hbag & Hwp & _).
    change (slots m0) with (slots m) in Hsl. change (wslots m0) with (wslots m) in Hws.
    change (cslots m0) with (cslots m) in Hcs. change (bag m0) with (bag m) in Hbag. change (wparam m0) with (wparam m) in Hwp.
    assert (Hback : forall o x', get m1 o = Some x' -> exists x, get m o = Some x /\ o_fields x' = o_fields x /\
                      o_cleaner x' = o_cleaner x /\ o_wfields x' = o_wfields x).
    { intros o x' Hx'. destruct (get m o) as [x|] eqn:Hx.
      - destruct (Hobj o x Hx) as (y & Hy & A). assert (y = x') by congruence. subst y. exists x. tauto.
      - exfalso. apply lookup_ge_None_1 in Hx. apply lookup_lt_Some in Hx'. change (heap m0) with (heap m) in Hlen. lia. }
    split.
    - intros t x Ht Hx. destruct (Hobj t x Hx) as (x' & Hx' & A1 & A2 & _ & A4 & A5 & _ & _ & _ & A9 & _).
      exists x'. split; [exact Hx'|]. unfold uview. repeat split; try congruence.
      intros _. destruct (marked x') eqn:Hm'; [|reflexivity]. exfalso.
      destruct (SI_get K U R m t HS Ht) as (y & Hy & _ & Hb & _). assert (y = x) by congruence. subst y.
      destruct (Hmk t x' Hx' ltac:(congruence) Hm') as (L & -> & Hin).
      exact (U_not_in_L m L HS (Hcl L eq_refl) t Ht Hin).
    - intros p x Hp Hx. destruct (Hobj p x Hx) as (x' & Hx' & _ & _ & _ & A4 & _ & _ & _ & _ & A9 & _).
      exists x'. split; [exact Hx'|]. split; congruence.
    - intros h c t _ Hl. destruct Hl as [i t' H | t' H | p xp j t' Hp Hj | p xp t' Hp Hc].
      + econstructor 1. rewrite <- Hsl. eauto.
      + constructor 2. rewrite <- Hbag. exact H.
      + destruct (Hback p xp Hp) as (x & Hx & Hf & _). rewrite Hf in Hj. econstructor 3; eauto.
      + destruct (Hback p xp Hp) as (x & Hx & _ & Hc' & _). rewrite Hc' in Hc. econstructor 4; eauto.
    - intros t _ [(i & H)|[H|[(c & cr & H & Hcr)|(p & xp & j & Hp & Hj)]]].
      + left. exists i. rewrite <- Hws. exact H.
      + right; left. rewrite <- Hwp. exact H.
      + right; right; left. exists c, cr. rewrite <- Hcs. auto.
      + destruct (Hback p xp Hp) as (x & Hx & _ & _ & Hw). rewrite Hw in Hj. right; right; right. eauto.
  Qed.

  Lemma s_collect_once m : PassGood m -> St m True m -> St m True (step_collect_once K P rec m).1.
  Proof.
    intros Hpass HS. unfold step_collect_once. cbv zeta.
    pose proof Hpass as (Hnf & _ & Hcl). cbv zeta in Hnf, Hcl.
    learn (forall L, (trace_pass K P (m <| st_finalizing := false |> <| st_dropping := false |>)).2 = PDone L -> forall t, U t -> t ∉ L).
    { intros L HL. eapply U_not_in_L; [exact HSI|]. apply Hcl, HL. }
    eassert (HS1 : St m _ (trace_pass K P (m <| st_finalizing := false |> <| st_dropping := false |>)).1).
    { apply (St_q K U R mu m _ m _ HS0); [rewrite dd_trace_pass; reflexivity|]. intros HSI _. apply Keep_pass; assumption. }
    clear HS0. destruct (trace_pass K P (m <| st_finalizing := false |> <| st_dropping := false |>)) as [m1 pr]. cbn [fst snd] in *.
    destruct pr as [L| |]; [|sfin|congruence].
    learn (forall g, g ∈ L -> ~ U g). { intros g Hg Hu. eapply (H0 L eq_refl); eauto. }
    destruct L as [|g L']; [sfin|]. destruct (k_fin K).
    - sfin. aargs.
    - sdead (m1 <| st_finalizing := st_finalizing m |> <| st_dropping := st_dropping m |> <| st_dropping := true |>) (g :: L'). sfin. aargs.
  Qed.
End Walk.
