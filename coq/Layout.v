(** * Layout: Rust's [repr(C)] struct layout and [core::alloc::Layout], specialised to [CcBox<T>].

    [CcBox<T>] (src/cc.rs) is

      #[repr(C)] struct CcBox<T> { next, prev, metadata, counter_marker, _phantom, elem: UnsafeCell<T> }

    The fields before [elem] are treated as ONE prefix, the "header" [hdr]:
      - [l_size hdr]  = END offset of the last header field (NOT rounded up to the header's
                        alignment; 36 on x86_64 with the `weak-ptrs` feature, but nothing below
                        depends on that number),
      - [l_align hdr] = largest alignment among the header fields.
    Both are MEASURED on the compiled crate by the probe (/verif/probes/layout, hook
    [rust_cc::verif::header_layout] + the elem offset of an align-1 payload) and fed to [ccbox] by
    /verif/tools/check_layout.py, which compares [ccbox hdr t] with [size_of/align_of::<CcBox<T>>()],
    with the (size, align) the global allocator actually received on alloc AND on dealloc, and with
    the measured address of [elem], for a grid of payload layouts [t].

    Properties served: C03 (layout half: the layout used to free equals the layout used to
    allocate, for every payload size/alignment incl. zero-sized and over-aligned ones) and
    C20 (address half: [Deref]/[AsRef]/[Borrow] return [base + off], aligned for [T];
    [ptr_eq] <-> same allocation).

    What this file CANNOT exhibit (it is tied to the code only through the probe):
      - that rustc really lays [repr(C)] structs out with this algorithm (it is the documented
        algorithm of the Rust reference, "The C representation"), and that [Layout::for_value]
        on the stored fat pointer returns [size_of_val/align_of_val] of the same [CcBox<T>];
      - that the global allocator returns disjoint, suitably aligned blocks (Section hypothesis
        [Allocator] below, the contract of [GlobalAlloc]).

    Everything below is closed under the global context (Print Assumptions is run by the checker). *)
From Coq Require Import NArith PeanoNat Lia List Bool.
Import ListNotations.
Local Open Scope N_scope.

(** ** Layouts *)

Record layout := { l_size : N; l_align : N }.

(** Alignments are powers of two ([Layout::from_size_align] rejects anything else). *)
Definition pow2 (a : N) : Prop := exists k, a = 2 ^ k.

(** What Rust guarantees for the layout of every type: power-of-two alignment and a size that is a
    multiple of the alignment. *)
Definition wf_layout (t : layout) : Prop :=
  pow2 (l_align t) /\ l_size t mod l_align t = 0.

(** Executable versions, for the [Example]s and for the generated case file. *)
Definition pow2b (a : N) : bool :=
  match a with 0 => false | _ => a =? 2 ^ N.log2 a end.
Definition wf_layoutb (t : layout) : bool :=
  pow2b (l_align t) && (l_size t mod l_align t =? 0).

Lemma pow2_pos a : pow2 a -> 0 < a.
Proof. intros [k ->]. apply N.neq_0_lt_0, N.pow_nonzero. discriminate. Qed.

Lemma pow2_nz a : pow2 a -> a <> 0.
Proof. intros H. apply pow2_pos in H. lia. Qed.

Lemma pow2b_sound a : pow2b a = true -> pow2 a.
Proof.
  unfold pow2b. destruct a as [|p]; [discriminate|].
  intros H. apply N.eqb_eq in H. now exists (N.log2 (N.pos p)).
Qed.

Lemma wf_layoutb_sound t : wf_layoutb t = true -> wf_layout t.
Proof.
  unfold wf_layoutb, wf_layout. intros H. apply andb_prop in H as [H1 H2].
  split; [now apply pow2b_sound | now apply N.eqb_eq].
Qed.

(** Powers of two are totally ordered by divisibility. *)
Lemma pow2_divide a b : pow2 a -> pow2 b -> a <= b -> (a | b).
Proof.
  intros [k ->] [j ->] Hle.
  assert (k <= j) as Hkj by (apply (N.pow_le_mono_r_iff 2); [lia | exact Hle]).
  exists (2 ^ (j - k)). rewrite <- N.pow_add_r. f_equal. lia.
Qed.

Lemma pow2_max a b : pow2 a -> pow2 b -> pow2 (N.max a b).
Proof. intros Ha Hb. destruct (N.max_spec a b) as [[_ ->]|[_ ->]]; assumption. Qed.

Lemma pow2_divide_max_l a b : pow2 a -> pow2 b -> (a | N.max a b).
Proof. intros Ha Hb. apply pow2_divide; auto using pow2_max. lia. Qed.

Lemma pow2_divide_max_r a b : pow2 a -> pow2 b -> (b | N.max a b).
Proof. intros Ha Hb. apply pow2_divide; auto using pow2_max. lia. Qed.

(** ** [pad_to a x]: [x] rounded up to the next multiple of [a]
    ([Layout::padding_needed_for] / [Layout::pad_to_align]). *)

Definition pad_to (a x : N) : N := ((x + (a - 1)) / a) * a.

Lemma pad_to_bounds a x : a <> 0 -> x <= pad_to a x < x + a.
Proof.
  intros Ha. unfold pad_to.
  pose proof (N.div_mod (x + (a - 1)) a Ha) as Hdm.
  pose proof (N.mod_upper_bound (x + (a - 1)) a Ha) as Hub.
  rewrite (N.mul_comm ((x + (a - 1)) / a) a).
  set (q := a * ((x + (a - 1)) / a)) in *. set (r := (x + (a - 1)) mod a) in *.
  lia.
Qed.

Lemma pad_to_ge a x : a <> 0 -> x <= pad_to a x.
Proof. intros Ha. apply (pad_to_bounds a x Ha). Qed.

Lemma pad_to_lt a x : a <> 0 -> pad_to a x < x + a.
Proof. intros Ha. apply (pad_to_bounds a x Ha). Qed.

Lemma pad_to_mod a x : a <> 0 -> pad_to a x mod a = 0.
Proof. intros Ha. unfold pad_to. now apply N.mod_mul. Qed.

Lemma pad_to_divide a x : a <> 0 -> (a | pad_to a x).
Proof. intros Ha. unfold pad_to. now exists ((x + (a - 1)) / a). Qed.

Lemma pad_to_id a x : a <> 0 -> x mod a = 0 -> pad_to a x = x.
Proof.
  intros Ha Hx. unfold pad_to.
  pose proof (N.div_mod x a Ha) as Hdm. rewrite Hx, N.add_0_r in Hdm.
  assert ((x + (a - 1)) / a = x / a) as ->.
  { symmetry. apply (N.div_unique _ a (x / a) (a - 1)); lia. }
  lia.
Qed.

Lemma pad_to_mono a x y : a <> 0 -> x <= y -> pad_to a x <= pad_to a y.
Proof.
  intros Ha Hxy. unfold pad_to. apply N.mul_le_mono_r, N.div_le_mono; lia.
Qed.

(** [pad_to a x] is the LEAST multiple of [a] that is [>= x]: no gratuitous padding. *)
Lemma pad_to_least a x y : a <> 0 -> x <= y -> y mod a = 0 -> pad_to a x <= y.
Proof.
  intros Ha Hxy Hy. rewrite <- (pad_to_id a y Ha Hy). now apply pad_to_mono.
Qed.

Lemma pad_to_idem a x : a <> 0 -> pad_to a (pad_to a x) = pad_to a x.
Proof. intros Ha. apply pad_to_id; auto using pad_to_mod. Qed.

Lemma pad_to_1 x : pad_to 1 x = x.
Proof. unfold pad_to. rewrite N.sub_diag, N.add_0_r, N.div_1_r. lia. Qed.

Lemma pad_to_0_r a : a <> 0 -> pad_to a 0 = 0.
Proof. intros Ha. apply pad_to_id; [assumption | now apply N.mod_0_l]. Qed.

(** Adding a multiple of [a] commutes with padding. *)
Lemma pad_to_add_multiple a x y : a <> 0 -> y mod a = 0 -> pad_to a (x + y) = pad_to a x + y.
Proof.
  intros Ha Hy. unfold pad_to.
  pose proof (N.div_mod y a Ha) as Hdm. rewrite Hy, N.add_0_r in Hdm.
  replace (x + y + (a - 1)) with ((x + (a - 1)) + (y / a) * a) by lia.
  rewrite N.div_add by assumption. lia.
Qed.

(** ** The generic [repr(C)] algorithm (Rust reference, "The C representation"):
    start at offset 0 with alignment 1; for each field in declaration order, round the current
    offset up to the field's alignment - that is the field's offset - and advance by the field's
    size; the struct's alignment is the largest field alignment and its size is the final offset
    rounded up to the struct's alignment. *)

Fixpoint repr_c_go (cur al : N) (fs : list layout) : N * N * list N :=
  match fs with
  | [] => (cur, al, [])
  | f :: fs' =>
      let o := pad_to (l_align f) cur in
      let '(c, a, os) := repr_c_go (o + l_size f) (N.max al (l_align f)) fs' in
      (c, a, o :: os)
  end.

Definition repr_c (fs : list layout) : layout * list N :=
  let '(c, a, os) := repr_c_go 0 1 fs in
  ({| l_size := pad_to a c; l_align := a |}, os).

Lemma repr_c_go_app cur al fs gs :
  repr_c_go cur al (fs ++ gs) =
  let '(c, a, os) := repr_c_go cur al fs in
  let '(c', a', os') := repr_c_go c a gs in
  (c', a', os ++ os').
Proof.
  revert cur al. induction fs as [|f fs IH]; intros cur al; cbn [app repr_c_go].
  - destruct (repr_c_go cur al gs) as [[c a] os]. reflexivity.
  - rewrite IH.
    destruct (repr_c_go (pad_to (l_align f) cur + l_size f) (N.max al (l_align f)) fs) as [[c a] os].
    destruct (repr_c_go c a gs) as [[c' a'] os']. reflexivity.
Qed.

(** ** [CcBox<T>]: a header prefix followed by [elem : T]. Returns the layout of the box and the
    offset of [elem]. *)

Definition ccbox (hdr t : layout) : layout * N :=
  let off := pad_to (l_align t) (l_size hdr) in
  let al := N.max (l_align hdr) (l_align t) in
  ({| l_size := pad_to al (off + l_size t); l_align := al |}, off).

Definition box_size (hdr t : layout) : N := l_size (fst (ccbox hdr t)).
Definition box_align (hdr t : layout) : N := l_align (fst (ccbox hdr t)).
Definition elem_off (hdr t : layout) : N := snd (ccbox hdr t).

(** [ccbox] IS the generic algorithm run on "header fields, then [elem]": if the header fields
    end at offset [hs] with running alignment [ha], the box layout and the offset of the last
    field computed by [repr_c] are those of [ccbox]. *)
Theorem ccbox_is_repr_c hfields hs ha hos t :
  repr_c_go 0 1 hfields = (hs, ha, hos) ->
  repr_c (hfields ++ [t]) =
  (fst (ccbox {| l_size := hs; l_align := ha |} t),
   hos ++ [snd (ccbox {| l_size := hs; l_align := ha |} t)]).
Proof.
  intros H. unfold repr_c. rewrite repr_c_go_app, H. reflexivity.
Qed.

Section CcBox.
  Variables hdr t : layout.
  Hypothesis Hh : pow2 (l_align hdr).
  Hypothesis Ht : wf_layout t.

  Let hsize := l_size hdr.
  Let halign := l_align hdr.
  Let tsize := l_size t.
  Let talign := l_align t.
  Let size := box_size hdr t.
  Let align := box_align hdr t.
  Let off := elem_off hdr t.

  Local Lemma talign_nz : talign <> 0.
  Proof. apply pow2_nz, Ht. Qed.
  Local Lemma halign_nz : halign <> 0.
  Proof. now apply pow2_nz. Qed.
  Local Lemma align_nz : align <> 0.
  Proof. apply pow2_nz. apply pow2_max; [exact Hh | apply Ht]. Qed.

  Theorem ccbox_align : align = N.max halign talign.
  Proof. reflexivity. Qed.

  Theorem ccbox_align_pow2 : pow2 align.
  Proof. apply pow2_max; [exact Hh | apply Ht]. Qed.

  Theorem ccbox_halign_divides : (halign | align).
  Proof. apply pow2_divide_max_l; [exact Hh | apply Ht]. Qed.

  Theorem ccbox_talign_divides : (talign | align).
  Proof. apply pow2_divide_max_r; [exact Hh | apply Ht]. Qed.

  (** The offset of [elem] is a multiple of [T]'s alignment ... *)
  Theorem ccbox_off_aligned : off mod talign = 0.
  Proof. apply pad_to_mod, talign_nz. Qed.

  (** ... lies at or after the end of the header ... *)
  Theorem ccbox_off_ge_hsize : hsize <= off.
  Proof. apply pad_to_ge, talign_nz. Qed.

  (** ... with less than one alignment unit of padding ... *)
  Theorem ccbox_off_lt : off < hsize + talign.
  Proof. apply pad_to_lt, talign_nz. Qed.

  (** ... and is the least such offset. *)
  Theorem ccbox_off_least o : hsize <= o -> o mod talign = 0 -> off <= o.
  Proof. apply pad_to_least, talign_nz. Qed.

  (** No padding at all when the header already ends on a multiple of [T]'s alignment. *)
  Theorem ccbox_off_no_pad : hsize mod talign = 0 -> off = hsize.
  Proof. apply pad_to_id, talign_nz. Qed.

  (** The size is a multiple of the alignment (so [Layout::from_size_align] accepts it, and arrays
      of boxes would tile). *)
  Theorem ccbox_size_aligned : size mod align = 0.
  Proof. apply pad_to_mod, align_nz. Qed.

  (** [elem] fits inside the box. *)
  Theorem ccbox_elem_fits : off + tsize <= size.
  Proof. apply pad_to_ge, align_nz. Qed.

  Theorem ccbox_size_lt : size < off + tsize + align.
  Proof. apply pad_to_lt, align_nz. Qed.

  (** Global upper bound (no overflow of [isize] for the grid of C03: everything <= 4096). *)
  Theorem ccbox_size_ub : size < hsize + talign + tsize + align.
  Proof. pose proof ccbox_size_lt. pose proof ccbox_off_lt. lia. Qed.

  Theorem ccbox_size_least s : off + tsize <= s -> s mod align = 0 -> size <= s.
  Proof. apply pad_to_least, align_nz. Qed.

  (** The end of [elem] is itself [talign]-aligned (because [tsize] is a multiple of [talign]),
      hence NO tail padding whenever [T] is at least as aligned as the header. *)
  Theorem ccbox_elem_end_aligned : (off + tsize) mod talign = 0.
  Proof.
    destruct Ht as [_ Hs]. pose proof talign_nz as Hnz.
    apply N.mod_divide; [exact Hnz|]. apply N.divide_add_r.
    - apply N.mod_divide; [exact Hnz | apply ccbox_off_aligned].
    - apply N.mod_divide; [exact Hnz | exact Hs].
  Qed.

  Theorem ccbox_no_tail_pad : halign <= talign -> size = off + tsize.
  Proof.
    intros Hle. unfold size, box_size, ccbox. cbn [fst l_size].
    replace (N.max (l_align hdr) (l_align t)) with talign by (unfold talign, halign in *; lia).
    apply pad_to_id; [apply talign_nz | apply ccbox_elem_end_aligned].
  Qed.

  (** The header fits, and a non-empty header makes the box non-empty: every box is a block of
      positive size, even for a zero-sized [T]. *)
  Theorem ccbox_hsize_le_size : hsize <= size.
  Proof. pose proof ccbox_off_ge_hsize. pose proof ccbox_elem_fits. lia. Qed.

  Theorem ccbox_size_pos : 0 < hsize -> 0 < size.
  Proof. pose proof ccbox_hsize_le_size. lia. Qed.

  (** Zero-sized [T]: the box is the header padded to [T]'s alignment and then to the box
      alignment; [elem] may sit exactly one-past-the-end ([off = size]) and that is the only way
      [off = size] can happen. *)
  Theorem ccbox_zst_size : tsize = 0 -> size = pad_to align off.
  Proof.
    intros Hz. unfold size, box_size, ccbox. cbn [fst l_size].
    fold tsize. rewrite Hz, N.add_0_r. reflexivity.
  Qed.

  Theorem ccbox_zst_overaligned : tsize = 0 -> halign <= talign -> size = off.
  Proof. intros Hz Hle. rewrite (ccbox_no_tail_pad Hle), Hz. lia. Qed.

  Theorem ccbox_off_le_size : off <= size.
  Proof. pose proof ccbox_elem_fits. lia. Qed.

  Theorem ccbox_off_eq_size_zst : off = size -> tsize = 0.
  Proof. pose proof ccbox_elem_fits. lia. Qed.

  (** *** Addresses. [base] is the address returned by the allocator for the box. *)

  (** C20: the address handed out by [Deref]/[AsRef]/[Borrow] (= [base + off], see
      [CcBox::get_elem]) is aligned for [T] whenever the allocator honoured the box alignment. *)
  Theorem elem_addr_aligned base : base mod align = 0 -> (base + off) mod talign = 0.
  Proof.
    intros Hb. pose proof talign_nz as Hnz. pose proof align_nz as Hanz.
    apply N.mod_divide; [exact Hnz|]. apply N.divide_add_r.
    - apply (N.divide_trans _ align); [apply ccbox_talign_divides|].
      apply N.mod_divide; assumption.
    - apply N.mod_divide; [exact Hnz | apply ccbox_off_aligned].
  Qed.

  (** The header fields ([next], [prev], [metadata], [counter_marker]) are aligned too. *)
  Theorem header_addr_aligned base : base mod align = 0 -> base mod halign = 0.
  Proof.
    intros Hb. pose proof halign_nz as Hnz. pose proof align_nz as Hanz.
    apply N.mod_divide; [exact Hnz|].
    apply (N.divide_trans _ align); [apply ccbox_halign_divides|].
    apply N.mod_divide; assumption.
  Qed.

  (** The bytes of [elem] lie inside the block. *)
  Theorem elem_range_in_block base :
    base <= base + off /\ base + off + tsize <= base + size.
  Proof. pose proof ccbox_elem_fits. lia. Qed.

  (** [elem] does not overlap the header. *)
  Theorem elem_after_header base : base + hsize <= base + off.
  Proof. pose proof ccbox_off_ge_hsize. lia. Qed.

  (** The elem address determines the box address ([off] is a constant of the type): two handles
      agree on [Deref] iff they agree on the box - also for zero-sized [T]. *)
  Theorem elem_addr_inj base1 base2 : base1 <> base2 -> base1 + off <> base2 + off.
  Proof. lia. Qed.

  Theorem elem_addr_eq_iff base1 base2 : base1 + off = base2 + off <-> base1 = base2.
  Proof. lia. Qed.
End CcBox.

(** Monotonicity in the payload size: a bigger payload never yields a smaller box, and the
    offset of [elem] does not depend on the payload size at all. *)
Theorem ccbox_off_indep_size hdr a s1 s2 :
  elem_off hdr {| l_size := s1; l_align := a |} = elem_off hdr {| l_size := s2; l_align := a |}.
Proof. reflexivity. Qed.

Theorem ccbox_size_mono hdr a s1 s2 :
  a <> 0 -> l_align hdr <> 0 -> s1 <= s2 ->
  box_size hdr {| l_size := s1; l_align := a |} <= box_size hdr {| l_size := s2; l_align := a |}.
Proof.
  intros Ha Hh Hle. unfold box_size, ccbox. cbn [fst l_size l_align].
  apply pad_to_mono; lia.
Qed.

(** The header hook: [CcBox<()>] (payload of size 0, alignment 1) has [elem] exactly at the end
    of the header, and [size_of::<CcBox<()>>()] is the header size rounded up to the header
    alignment. This is how the probe measures [hdr] ([off] of an align-1 payload = [l_size hdr],
    [align_of::<CcBox<()>>()] = [l_align hdr]) and cross-checks [rust_cc::verif::header_layout]. *)
Theorem ccbox_unit hdr :
  l_align hdr <> 0 ->
  ccbox hdr {| l_size := 0; l_align := 1 |} =
  ({| l_size := pad_to (l_align hdr) (l_size hdr); l_align := l_align hdr |}, l_size hdr).
Proof.
  intros Hnz. unfold ccbox. cbn [l_size l_align].
  rewrite pad_to_1, N.add_0_r. replace (N.max (l_align hdr) 1) with (l_align hdr) by lia.
  reflexivity.
Qed.

(** C03 (layout half) at the level of the model: the layout is a FUNCTION of [(hdr, T)] only, so
    the layout recomputed at release time ([Layout::for_value] through the stored vtable pointer
    of the same [CcBox<T>]) is the layout used by [cc_alloc] ([Layout::new::<CcBox<T>>()]), whatever
    happened to the object in between. That both expressions denote [ccbox hdr t] in the compiled
    crate is what the probe checks (alloc log vs dealloc log, all release routes). *)
Theorem release_layout_eq hdr t alloc_l free_l :
  alloc_l = fst (ccbox hdr t) -> free_l = fst (ccbox hdr t) -> free_l = alloc_l.
Proof. congruence. Qed.

(** ** The allocator contract and what follows from it for live boxes.

    The allocator is a Section hypothesis, never a global assumption: [live] is the list of currently live
    blocks [(base, layout)]; the allocator returns blocks aligned as requested and pairwise
    disjoint (the [GlobalAlloc] contract). *)

Definition blk_base (b : N * layout) : N := fst b.
Definition blk_size (b : N * layout) : N := l_size (snd b).
Definition blk_align (b : N * layout) : N := l_align (snd b).

Definition blk_disjoint (b1 b2 : N * layout) : Prop :=
  blk_base b1 + blk_size b1 <= blk_base b2 \/ blk_base b2 + blk_size b2 <= blk_base b1.

Section Allocator.
  Variable live : list (N * layout).

  Hypothesis live_aligned : forall i b, nth_error live i = Some b -> blk_base b mod blk_align b = 0.
  Hypothesis live_disjoint :
    forall i j b1 b2, i <> j -> nth_error live i = Some b1 -> nth_error live j = Some b2 ->
                      blk_disjoint b1 b2.

  Variables hdr t : layout.
  Hypothesis Hh : pow2 (l_align hdr).
  Hypothesis Hhs : 0 < l_size hdr.       (* the header is not empty: two pointers at least *)
  Hypothesis Ht : wf_layout t.

  Let off := elem_off hdr t.
  Let bl := fst (ccbox hdr t).

  (** Two distinct live boxes of type [CcBox<T>] have distinct base addresses, because blocks of
      positive size that are disjoint cannot start at the same address - and the box is never
      empty, even when [T] is zero-sized. *)
  Theorem live_boxes_distinct_base i j b1 b2 :
    i <> j ->
    nth_error live i = Some (b1, bl) -> nth_error live j = Some (b2, bl) ->
    b1 <> b2.
  Proof.
    intros Hij H1 H2 ->.
    pose proof (live_disjoint i j _ _ Hij H1 H2) as Hd.
    pose proof (ccbox_size_pos hdr t Hh Ht Hhs) as Hpos.
    unfold blk_disjoint, blk_base, blk_size, box_size in *. cbn [fst snd] in *.
    fold bl in Hpos. lia.
  Qed.

  (** [Cc::ptr_eq] compares the box addresses ([ptr::eq] on [inner] cast to a thin pointer). *)
  Definition ptr_eq (base1 base2 : N) : bool := base1 =? base2.

  (** C20: [ptr_eq] is true exactly for handles to the same allocation. *)
  Theorem ptr_eq_same_allocation i j b1 b2 :
    nth_error live i = Some (b1, bl) -> nth_error live j = Some (b2, bl) ->
    (ptr_eq b1 b2 = true <-> i = j).
  Proof.
    intros H1 H2. unfold ptr_eq. rewrite N.eqb_eq. split.
    - intros ->. destruct (Nat.eq_dec i j) as [|Hne]; [assumption|].
      exfalso. now apply (live_boxes_distinct_base i j b2 b2 Hne).
    - intros ->. rewrite H1 in H2. now inversion H2.
  Qed.

  (** Distinct live boxes hand out distinct [Deref] addresses - ALSO for zero-sized [T], where
      [base + off] may be one-past-the-end of the block (and so may coincide with the base of an
      adjacent block of ANOTHER type, never with the elem address of another [CcBox<T>]). *)
  Theorem live_boxes_distinct_elem i j b1 b2 :
    i <> j ->
    nth_error live i = Some (b1, bl) -> nth_error live j = Some (b2, bl) ->
    b1 + off <> b2 + off.
  Proof.
    intros Hij H1 H2. apply elem_addr_inj. now apply (live_boxes_distinct_base i j).
  Qed.

  (** The payload bytes of two distinct live boxes do not overlap. *)
  Theorem live_boxes_elem_disjoint i j b1 b2 :
    i <> j ->
    nth_error live i = Some (b1, bl) -> nth_error live j = Some (b2, bl) ->
    b1 + off + l_size t <= b2 + off \/ b2 + off + l_size t <= b1 + off.
  Proof.
    intros Hij H1 H2.
    pose proof (live_disjoint i j _ _ Hij H1 H2) as Hd.
    pose proof (ccbox_elem_fits hdr t Hh Ht) as Hfit.
    unfold blk_disjoint, blk_base, blk_size, box_size, elem_off in *. cbn [fst snd] in *.
    fold bl in Hfit. fold off in Hfit. lia.
  Qed.

  (** Every live box hands out an address aligned for [T]. *)
  Theorem live_box_elem_aligned i b :
    nth_error live i = Some (b, bl) -> (b + off) mod l_align t = 0.
  Proof.
    intros H. apply (elem_addr_aligned hdr t Hh Ht).
    apply (live_aligned i _ H).
  Qed.
End Allocator.

(** ** A ledger of allocations: "released at most once, with exactly the layout it was allocated
    with". [free] succeeds only on an exact [(base, layout)] match and removes the entry; this is
    the check the probe's logging allocator performs on the real crate. *)

Definition blk_eqb (b1 b2 : N * layout) : bool :=
  (fst b1 =? fst b2) && (l_size (snd b1) =? l_size (snd b2)) && (l_align (snd b1) =? l_align (snd b2)).

Fixpoint ledger_free (b : N * layout) (l : list (N * layout)) : option (list (N * layout)) :=
  match l with
  | [] => None
  | x :: l' =>
      if blk_eqb b x then Some l'
      else match ledger_free b l' with Some r => Some (x :: r) | None => None end
  end.

Definition ledger_has_base (base : N) (l : list (N * layout)) : bool :=
  existsb (fun x => fst x =? base) l.

Lemma ledger_free_no_base b l' :
  ledger_has_base (fst b) l' = false -> ledger_free b l' = None.
Proof.
  induction l' as [|x l' IH]; cbn; [reflexivity|].
  intros H. apply orb_false_iff in H as [Hx Hl].
  unfold blk_eqb. rewrite N.eqb_sym, Hx. cbn. now rewrite (IH Hl).
Qed.

(** If bases are unique in the ledger (disjoint blocks of positive size), a block freed once
    cannot be freed again: the second [free] of the same base is rejected. *)
Theorem ledger_no_double_free b l l' :
  NoDup (map fst l) -> ledger_free b l = Some l' -> ledger_free b l' = None.
Proof.
  revert l'. induction l as [|x l IH]; intros l' Hnd; cbn; [discriminate|].
  inversion Hnd as [|? ? Hnin Hnd']; subst.
  destruct (blk_eqb b x) eqn:Heq.
  - intros [= <-]. apply ledger_free_no_base.
    unfold blk_eqb in Heq. apply andb_prop in Heq as [Heq _]. apply andb_prop in Heq as [Heq _].
    apply N.eqb_eq in Heq. rewrite Heq.
    unfold ledger_has_base. apply not_true_is_false. intros Hex.
    apply existsb_exists in Hex as [y [Hy Hyb]]. apply N.eqb_eq in Hyb.
    apply Hnin. rewrite <- Hyb. now apply in_map.
  - destruct (ledger_free b l) as [r|] eqn:Hf; [|discriminate].
    intros [= <-]. cbn. rewrite Heq. now rewrite (IH r Hnd' eq_refl).
Qed.

(** A free with the right base but the wrong layout is rejected (e.g. size off by 8). *)
Theorem ledger_wrong_layout_rejected base lay lay' l :
  NoDup (map fst ((base, lay) :: l)) ->
  (l_size lay' <> l_size lay \/ l_align lay' <> l_align lay) ->
  ledger_free (base, lay') ((base, lay) :: l) = None.
Proof.
  intros Hnd Hne. cbn. inversion Hnd as [|? ? Hnin _]; subst.
  assert (blk_eqb (base, lay') (base, lay) = false) as ->.
  { unfold blk_eqb. cbn. rewrite N.eqb_refl. cbn.
    destruct Hne as [Hne|Hne]; apply N.eqb_neq in Hne; rewrite Hne; [reflexivity|].
    now rewrite andb_false_r. }
  rewrite (ledger_free_no_base (base, lay') l); [reflexivity|].
  cbn. unfold ledger_has_base. apply not_true_is_false. intros Hex.
  apply existsb_exists in Hex as [y [Hy Hyb]]. apply N.eqb_eq in Hyb.
  apply Hnin. cbn. rewrite <- Hyb. now apply in_map.
Qed.

(** ** Non-vacuity: concrete layouts, computed by the kernel. The header used in the examples is
    the one measured on x86_64 with `weak-ptrs` (two pointers, a fat pointer, two 16-bit words, a
    zero-sized marker: end offset 36, alignment 8). It appears ONLY in these examples. *)

Definition ex_hdr_fields : list layout :=
  [ {| l_size := 8; l_align := 8 |};     (* next *)
    {| l_size := 8; l_align := 8 |};     (* prev *)
    {| l_size := 16; l_align := 8 |};    (* metadata: fat pointer / side-record pointer union *)
    {| l_size := 4; l_align := 2 |};     (* counter_marker: two Cell<u16> *)
    {| l_size := 0; l_align := 1 |} ].   (* _phantom *)

Definition ex_hdr : layout := {| l_size := 36; l_align := 8 |}.

Example ex_hdr_is_repr_c : repr_c_go 0 1 ex_hdr_fields = (36, 8, [0; 8; 16; 32; 36]).
Proof. reflexivity. Qed.

(** [CcBox<()>]: 40 bytes, align 8, elem at 36. *)
Example ex_unit : ccbox ex_hdr {| l_size := 0; l_align := 1 |} = ({| l_size := 40; l_align := 8 |}, 36).
Proof. reflexivity. Qed.

(** [CcBox<u8>], [CcBox<u32>], [CcBox<u64>]. *)
Example ex_u8 : ccbox ex_hdr {| l_size := 1; l_align := 1 |} = ({| l_size := 40; l_align := 8 |}, 36).
Proof. reflexivity. Qed.
Example ex_u32 : ccbox ex_hdr {| l_size := 4; l_align := 4 |} = ({| l_size := 40; l_align := 8 |}, 36).
Proof. reflexivity. Qed.
Example ex_u64 : ccbox ex_hdr {| l_size := 8; l_align := 8 |} = ({| l_size := 48; l_align := 8 |}, 40).
Proof. reflexivity. Qed.

(** Over-aligned zero-sized payload: elem sits one-past-the-end of a 4096-byte block. *)
Example ex_zst_4096 : ccbox ex_hdr {| l_size := 0; l_align := 4096 |} = ({| l_size := 4096; l_align := 4096 |}, 4096).
Proof. reflexivity. Qed.

(** Over-aligned 4 KiB payload. *)
Example ex_4096_4096 : ccbox ex_hdr {| l_size := 4096; l_align := 4096 |} = ({| l_size := 8192; l_align := 4096 |}, 4096).
Proof. reflexivity. Qed.

(** Odd size, alignment 1: tail padding up to the header alignment. *)
Example ex_33_1 : ccbox ex_hdr {| l_size := 33; l_align := 1 |} = ({| l_size := 72; l_align := 8 |}, 36).
Proof. reflexivity. Qed.

(** The same through the generic algorithm. *)
Example ex_repr_c_u64 :
  repr_c (ex_hdr_fields ++ [{| l_size := 8; l_align := 8 |}]) =
  ({| l_size := 48; l_align := 8 |}, [0; 8; 16; 32; 36; 40]).
Proof. reflexivity. Qed.

(** The hypotheses of the theorems are satisfiable by these layouts. *)
Example ex_wf : wf_layout {| l_size := 4096; l_align := 4096 |} /\ wf_layout {| l_size := 0; l_align := 64 |}
                /\ pow2 (l_align ex_hdr).
Proof.
  split; [|split]; try (apply wf_layoutb_sound; reflexivity). apply pow2b_sound; reflexivity.
Qed.

(** ... and they are needed: with a size that is not a multiple of the alignment the end of
    [elem] is not aligned, with a non-power-of-two alignment the elem address is not aligned. *)
Example ex_hyp_needed_align :
  let hdr := {| l_size := 36; l_align := 8 |} in
  let t := {| l_size := 6; l_align := 6 |} in          (* 6 is not a power of two *)
  let base := 8 in                                     (* aligned for the box: align = max 8 6 = 8 *)
  base mod box_align hdr t = 0 /\ (base + elem_off hdr t) mod l_align t <> 0.
Proof. cbv. split; [reflexivity | discriminate]. Qed.

(** An allocator state satisfying the Section hypotheses, with two adjacent live boxes of a
    zero-sized over-aligned type: the elem address of the first equals the BASE of the second,
    the two elem addresses differ. *)
Example ex_adjacent_zst :
  let t := {| l_size := 0; l_align := 64 |} in
  let bl := fst (ccbox ex_hdr t) in
  let off := elem_off ex_hdr t in
  let live := [(640, bl); (704, bl)] in
  bl = {| l_size := 64; l_align := 64 |} /\ off = 64 /\
  640 + off = 704 /\ 640 + off <> 704 + off /\
  blk_disjoint (640, bl) (704, bl) /\ 640 mod 64 = 0 /\ 704 mod 64 = 0.
Proof. cbv. repeat split; try discriminate. left. discriminate. Qed.

Example ex_ledger :
  let b := (640, {| l_size := 64; l_align := 64 |}) in
  ledger_free b [b] = Some [] /\
  ledger_free b [] = None /\
  ledger_free (640, {| l_size := 72; l_align := 64 |}) [b] = None.
Proof. cbv. repeat split. Qed.
