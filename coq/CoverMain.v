(** * CoverMain: the coverage invariant holds at every top-level state of every panic-free
    history of a program expressible in safe Rust ([cover_programs]).

    The induction over [run K P n] combines the finished layers ([SafeFinal.run_okQ]: [SInv] with
    exact counts, frames; [Buf.run_buf]: the buffer invariant) with the coverage steps of
    CoverCmd.v (non-collector activations, through the guarded function of SafeCollGuard.v) and
    CoverColl.v (collector activations). *)
From Coq Require Import NArith Bool List Lia.
From stdpp Require Import base list option list_numbers.
From RecordUpdate Require Import RecordSet.
From RC Require Import Hdr Machine RunInd.
From RC Require BufBase BufPass BufStep Buf Flags3 Flags4.
From RC Require SafeCollDec SafeCollNf SafeCollGuard.
From RC Require Import Inv InvP SafeHelpers SafePrims SafeCalls SafeMain SafeColl SafeFinal.
From RC Require Import Cover Quiet QuietCover CoverStep CoverCmd CoverColl.
Import ListNotations RecordSetNotations.

Section Main.
  Context (K : conf) (P : prog).
  Hypothesis Hconf : k_clean K = true -> k_weak K = true.
  Hypothesis Hwf : wf_prog P = true.
  Hypothesis Hrust : forallb rust_script (p_scripts P) = true.

  (** ** every run *)
  Theorem run_cover n : forall E A c m,
    Pre K (PreC K) true E c m -> Q K A c m -> CvPre P E A c m ->
    (run K P n c m).2 = ONormal -> CvPost P E A c (run K P n c m).1.
  Proof.
    induction n as [|n IH]; intros E A c m Hpre HQ V; cbn [run fst snd]; [discriminate|].
    destruct (noncollector c) eqn:Hc.
    - rewrite <- (SafeCollGuard.closure K P (Qdec K) A (run K P n) c m (Buf.run_buf K P n) (SafeCollNf.run_nofuel K P n)
                    ltac:(rewrite noncoll_eq; exact Hc) HQ).
      apply (cv_step_noncollector K P Hconf Hwf Hrust A (SafeCollGuard.guarded K (Qdec K) A (run K P n))).
      + intros b' E' c' m' Hpre'. unfold SafeCollGuard.guarded.
        destruct (Qdec K A c' m') as [HQ'|HQ']; cbn [fst snd]; [apply (run_okQ K P Hconf Hwf n b' E' A c' m' Hpre' HQ') | apply fuel_ok_all].
      + intros E' c' m' Hpre' V'. unfold SafeCollGuard.guarded.
        destruct (Qdec K A c' m') as [HQ'|HQ']; cbn [fst snd]; [apply (IH E' A c' m' Hpre' HQ' V') | discriminate].
      + intros c' m' Hic. unfold SafeCollGuard.guarded.
        destruct (Qdec K A c' m') as [HQ'|HQ']; cbn [fst snd]; [|discriminate]. intros Hn.
        destruct (Buf.run_buf K P n A c' m' (proj1 HQ')) as (_ & HG & _). split.
        * specialize (HG ltac:(rewrite Hn; discriminate)). destruct c'; try discriminate Hic; exact HG.
        * apply (SafeCollNf.run_nofuel K P n c' m' (proj2 HQ')). rewrite Hn. discriminate.
      + exact Hc.
      + exact Hpre.
      + destruct HQ as [HA Hnf].
        assert (Hnb : NoBad m) by (destruct c; try discriminate Hc; rewrite Pre_nc in Hpre by reflexivity; apply Hpre).
        apply G_Ibuf; [destruct c; try discriminate Hc; exact HA | exact Hnb | exact Hnf].
      + exact V.
    - apply (cv_coll_ok K P (run K P n) (run_okQ K P Hconf Hwf n) (Buf.run_buf K P n) (SafeCollNf.run_nofuel K P n) IH Hrust
               E A c m Hc Hpre HQ V).
  Qed.

  (** ** every program *)
  Definition TopCv (m : machine) : Prop :=
    clean m = true -> no_panic_yet m = true -> Cv P [] [] [] m.

  Lemma exec_top_cover fuel c m :
    rust_cmd c = true -> TopInvQ K m -> TopCv m -> TopCv (exec_top K P fuel c m).
  Proof.
    intros Hrc HT HV Hcl Hnp. unfold exec_top in *.
    pose proof (Flags3.run_log_mono K P fuel (KCmd None c) m) as Hsuf.
    destruct (run K P fuel (KCmd None c) m) as [m1 r] eqn:Hrun. cbn [fst] in Hsuf.
    destruct r; [|cbn in Hnp; discriminate | cbn in Hcl; discriminate | cbn in Hcl; discriminate].
    assert (Hclm : clean m = true) by (unfold clean in *; eapply forallb_suffix; eauto).
    assert (Hnpm : no_panic_yet m = true) by (unfold no_panic_yet in *; eapply forallb_suffix; eauto).
    destruct (HT Hclm) as (b & Hnb & HI & Hex & HB). rewrite (Hex Hnpm) in HI.
    pose proof (clean_nofuel m Hclm) as Hn.
    assert (HQ : Q K [] (KCmd None c) m) by (split; [right; exact HB | exact Hn]).
    assert (Hpre : Pre K (PreC K) true [] (KCmd None c) m) by (rewrite Pre_nc by reflexivity; exact (conj Hnb (conj HI I))).
    pose proof (run_cover fuel [] [] (KCmd None c) m Hpre HQ (conj (HV Hclm Hnpm) Hrc)) as H.
    rewrite Hrun in H. apply H. reflexivity.
  Qed.

  Lemma TopCv_init : TopCv (init K).
  Proof.
    intros _ _. split.
    - intros o x Hx. destruct o; discriminate.
    - split; [intros o x Hx; destruct o; discriminate | intros g Hg; inversion Hg].
  Qed.

  Theorem cover_programs_gen fuel cmds :
    rust_script cmds = true ->
    let m := fold_left (fun m c => exec_top K P fuel c m) cmds (init K) in
    TopInvQ K m /\ TopCv m.
  Proof.
    intros Hr. cbv zeta. generalize (init K) (TopInvQ_init K) TopCv_init. revert Hr.
    induction cmds as [|c cs IH]; intros Hr m HT HV; [auto|].
    cbn in Hr. apply andb_true_iff in Hr as [Hr1 Hr2]. cbn [fold_left]. apply IH; [exact Hr2 | |].
    - apply (exec_top_okQ K P Hconf Hwf), HT.
    - apply exec_top_cover; assumption.
  Qed.
End Main.

(** ** The closed theorem *)
Theorem cover_programs K P fuel cmds :
  (k_clean K = true -> k_weak K = true) -> wf_prog P = true -> rust_ok P cmds = true ->
  let m := fold_left (fun m c => exec_top K P fuel c m) cmds (init K) in
  clean m = true -> no_panic_yet m = true -> Quiet.Cover P m /\ MapsOwned m.
Proof.
  intros Hconf Hwf Hr. cbv zeta. intros Hcl Hnp.
  unfold rust_ok in Hr. apply andb_true_iff in Hr as [Hr1 Hr2].
  destruct (cover_programs_gen K P Hconf Hwf Hr1 fuel cmds Hr2) as [_ HV].
  apply Cv_nil, HV; assumption.
Qed.

(** what the layers need at a top-level state is available there: the hypotheses of [run_cover]
    are satisfiable (by every state of every panic-free history) *)
Theorem top_pre K P fuel cmds c :
  (k_clean K = true -> k_weak K = true) -> wf_prog P = true -> rust_ok P cmds = true -> rust_cmd c = true ->
  let m := fold_left (fun m c => exec_top K P fuel c m) cmds (init K) in
  clean m = true -> no_panic_yet m = true ->
  Pre K (PreC K) true [] (KCmd None c) m /\ Q K [] (KCmd None c) m /\ CvPre P [] [] (KCmd None c) m.
Proof.
  intros Hconf Hwf Hr Hrc. cbv zeta. intros Hcl Hnp.
  unfold rust_ok in Hr. apply andb_true_iff in Hr as [Hr1 Hr2].
  destruct (cover_programs_gen K P Hconf Hwf Hr1 fuel cmds Hr2) as [HT HV].
  destruct (HT Hcl) as (b & Hnb & HI & Hex & HB). rewrite (Hex Hnp) in HI.
  split; [rewrite Pre_nc by reflexivity; exact (conj Hnb (conj HI I))|].
  split; [split; [right; exact HB | apply clean_nofuel, Hcl]|].
  split; [apply HV; assumption | exact Hrc].
Qed.

(** ** C02 for the [CCollect] command itself: if the top-level command [collect_cycles()] of a
    panic-free history returns and logged no finalizer / destructor / cleaning action / free,
    every allocated live object of the resulting state is program-reachable, pinned or in the
    dying set, the buffer is empty and [allocated_bytes] is the size of what remains *)
Theorem collect_cmd_complete K P n cmds :
  (k_clean K = true -> k_weak K = true) -> wf_prog P = true -> rust_ok P cmds = true ->
  let m := fold_left (fun m c => exec_top K P (S n) c m) cmds (init K) in
  let m' := exec_top K P (S n) CCollect m in
  clean m' = true -> no_panic_yet m' = true -> quiet m m' ->
  (forall o x, get m' o = Some x -> o_box x = BAlloc -> o_vst x = VLive ->
     o ∈ dead m' \/ ProgReach m' o \/ Pinned P m' o) /\
  pc m' = [] /\ st_alloc m' = BufBase.bytes K m'.
Proof.
  intros Hconf Hwf Hr. cbv zeta.
  set (m := fold_left (fun m c => exec_top K P (S n) c m) cmds (init K)).
  unfold exec_top. change (run K P (S n) (KCmd None CCollect) m) with (cmd_collect (run K P n) None m).
  unfold cmd_collect.
  pose proof (Flags3.run_log_mono K P n KCollectCycles m) as Hsuf.
  destruct (run K P n KCollectCycles m) as [m1 r] eqn:Hrun. cbn [fst] in Hsuf.
  destruct r; [|cbn; intros _ Hnp; discriminate | cbn; intros Hcl; discriminate | cbn; intros Hcl; discriminate].
  unfold ok. intros Hcl Hnp Hq.
  assert (Hclm : clean m = true).
  { unfold clean in *. cbn in Hcl. eapply forallb_suffix; eauto. }
  assert (Hnpm : no_panic_yet m = true).
  { unfold no_panic_yet in *. cbn in Hnp. eapply forallb_suffix; eauto. }
  assert (Hq1 : quiet m m1) by exact Hq.
  destruct (Quiet.C02_quiet_prog K P (S n) cmds n m1 Hconf Hwf Hclm Hnpm) as (H1 & _ & H3 & H4); auto.
  - apply (cover_programs K P (S n) cmds Hconf Hwf Hr Hclm Hnpm).
  - apply (cover_programs K P (S n) cmds Hconf Hwf Hr Hclm Hnpm).
  - assert (Hg : gsim m1 (emit (ERes ROk) m1)) by (apply gsim_refl_heap; reflexivity).
    split; [|split; [exact H3 | exact H4]].
    intros o x Hx Hb Hv. destruct (H1 o x Hx Hb Hv) as [?|[?|?]]; [left; assumption | right; left | right; right].
    + eapply gsim_ProgReach; eauto.
    + eapply gsim_Pinned; eauto.
Qed.

Print Assumptions run_cover.
Print Assumptions cover_programs.
Print Assumptions top_pre.
Print Assumptions collect_cmd_complete.
