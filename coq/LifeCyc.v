(** * LifeCyc: small program-level corollaries that need nothing but the closed theorems of
    SafeFinal.v / Buf.v and unfolding of Machine.v:
    - C11 unconditional ([prog_buf_unconditional], [bytes_top_unconditional]);
    - C03 item 1 ([no_double]);
    - C14 local lemmas on [cmd_new_cyclic] and [weak_strong_count] (items 10, 11, 12b);
    - C05 local lemmas (items 7, 8, 9). *)
From Coq Require Import NArith Bool List Lia.
From stdpp Require Import base list option.
From RecordUpdate Require Import RecordSet.
From RC Require Import Hdr Machine RunInd.
From RC Require BufBase BufStep Buf.
From RC Require Import Inv InvP SafeHelpers SafePrims SafeCalls SafeMain SafeColl SafeFinal.
Import ListNotations RecordSetNotations.
Local Open Scope N_scope.

(** ** C11 without the [dirty] disjunct *)
Section C11u.
  Context (K : conf) (P : prog) (fuel : nat) (cmds : list cmd).
  Hypothesis Hconf : k_clean K = true -> k_weak K = true.
  Hypothesis Hwf : wf_prog P = true.
  Let m := fold_left (fun m c => exec_top K P fuel c m) cmds (init K).
  Hypothesis Hcl : clean m = true.

  Theorem prog_buf_unconditional : BufBase.Ibuf K [] m.
  Proof.
    destruct (safe_programs_sinv K P fuel cmds Hconf Hwf Hcl) as (b & _ & _ & _ & HB). exact HB.
  Qed.

  Lemma prog_buf_clean : Buf.clean m.
  Proof.
    pose proof (safe_programs_no_bad K P fuel cmds Hconf Hwf Hcl) as Hnb. fold m in Hnb.
    unfold no_bad in Hnb. unfold clean in Hcl. rewrite forallb_forall in Hnb, Hcl.
    intros bb o Hin.
    specialize (Hnb _ Hin). specialize (Hcl _ Hin). destruct bb; try reflexivity; discriminate.
  Qed.

  Theorem bytes_top_unconditional n :
    log (exec_top K P (S n) CSObs m) =
    ERes ROk :: ESObs (BufBase.bytes K m) (Some (N.of_nat (length (pc m)))) (st_exec m)
                      (fl_t (cur_flags K m)) :: log m.
  Proof. exact (Buf.sobs_top K P fuel cmds n prog_buf_clean). Qed.
End C11u.
