(** * LifeCyc: small program-level corollaries that need nothing but the closed theorems of
    SafeFinal.v / Buf.v and unfolding of Machine.v:
    - C11 unconditional ([prog_buf_unconditional], [bytes_top_unconditional]);
    - C03 item 1 ([no_double]);
    - C14 local lemmas on [cmd_new_cyclic] and [weak_strong_count] (items 10, 11, 12b);
    - C05 local lemmas (items 7, 8, 9). *)
From Coq Require Import NArith Bool List Lia.
From stdpp Require Import base list option.
From RecordUpdate Require Import RecordSet.
From RC Require Import Hdr Machine RunInd.
From RC Require BufBase BufStep Buf.
From RC Require Import Inv InvP SafeHelpers SafePrims SafeCalls SafeMain SafeColl SafeFinal.
From RC Require SafeGlue SafeFinalPropsA SafeFinalProps.
From RC Require Import LifeInv.
Import ListNotations RecordSetNotations.
Local Open Scope N_scope.

(** ** C11 without the [dirty] disjunct *)
Section C11u.
  Context (K : conf) (P : prog) (fuel : nat) (cmds : list cmd).
  Hypothesis Hconf : k_clean K = true -> k_weak K = true.
  Hypothesis Hwf : wf_prog P = true.
  Let m := fold_left (fun m c => exec_top K P fuel c m) cmds (init K).
  Hypothesis Hcl : clean m = true.

  Theorem prog_buf_unconditional : BufBase.Ibuf K [] m.
  Proof.
    destruct (safe_programs_sinv K P fuel cmds Hconf Hwf Hcl) as (b & _ & _ & _ & HB). exact HB.
  Qed.

  Lemma prog_buf_clean : Buf.clean m.
  Proof.
    pose proof (safe_programs_no_bad K P fuel cmds Hconf Hwf Hcl) as Hnb. fold m in Hnb.
    unfold no_bad in Hnb. unfold clean in Hcl. rewrite forallb_forall in Hnb, Hcl.
    intros bb o Hin.
    specialize (Hnb _ Hin). specialize (Hcl _ Hin). destruct bb; try reflexivity; discriminate.
  Qed.

  Theorem bytes_top_unconditional n :
    log (exec_top K P (S n) CSObs m) =
    ERes ROk :: ESObs (BufBase.bytes K m) (Some (N.of_nat (length (pc m)))) (st_exec m)
                      (fl_t (cur_flags K m)) :: log m.
  Proof. exact (Buf.sobs_top K P fuel cmds n prog_buf_clean). Qed.
End C11u.

(** ** C03 item 1: no double drop / double free / drop of an uninitialised value / use after
    free / use after drop is ever detected *)
Theorem no_double K P fuel cmds :
  (k_clean K = true -> k_weak K = true) -> wf_prog P = true ->
  let m := fold_left (fun m c => exec_top K P fuel c m) cmds (init K) in
  clean m = true ->
  forall o, ~ In (EBad DoubleDrop o) (log m) /\ ~ In (EBad DoubleFree o) (log m) /\
            ~ In (EBad UninitDrop o) (log m) /\ ~ In (EBad UseAfterFree o) (log m) /\
            ~ In (EBad UseAfterDrop o) (log m).
Proof.
  intros Hconf Hwf m Hcl o. pose proof (safe_programs_no_bad K P fuel cmds Hconf Hwf Hcl) as Hnb. fold m in Hnb.
  unfold no_bad in Hnb. rewrite forallb_forall in Hnb.
  repeat split; intros Hin; specialize (Hnb _ Hin); discriminate.
Qed.

(** ** C05 item 7: finalizers only run on garbage *)
Section C05.
  Context (K : conf) (P : prog).

  (** reference-count path: when [Cc::drop] is about to run the finalizer (count 1, not linked in
      a collector list), no slot, bag entry, field or cleaner handle holds the object, and no
      other handle to it is in flight *)
  Theorem garbage_rc b E o m x :
    Pre K (PreC K) b E (KDropCc o) m -> get m o = Some x -> h_rc (o_hdr x) = 1 ->
    refs m o = 0%nat /\ cnt_id o E = 0%nat /\ o_box x = BAlloc.
  Proof.
    intros Hpre Hx Hrc. rewrite Pre_nc in Hpre by reflexivity. destruct Hpre as (_ & HI & _). cbn [own_of app] in HI.
    destruct (sv_E _ _ _ _ _ HI o) as (x' & Hx' & Hb); [left|]. assert (x' = x) by congruence. subst x'.
    destruct (okN_alloc K _ _ _ _ _ (sv_obj _ _ _ _ _ HI o x Hx) Hb) as (O1 & _).
    rewrite cnt_id_cons_eq, Hrc in O1. repeat split; try lia. exact Hb.
  Qed.

  (** collector path: the finalization pass starts from a closed set *)
  Theorem garbage_gc b E L old_f m :
    PreC K b E (KFinalizeList L L false old_f) m ->
    NoDup L /\ (forall g, g ∈ L -> Member m g) /\ ClosedL L E m.
  Proof. cbn. intros (_ & Hnd & _ & Hmem & Hcl). split; [exact Hnd|]. split; [exact Hmem | apply Hcl; reflexivity]. Qed.

  (** while the pass runs (at every iteration) every member is still live, allocated, linked and
      outside the dying set *)
  Theorem members_live_during_pass b E L rest any old_f m :
    PreC K b E (KFinalizeList L rest any old_f) m ->
    forall g, g ∈ L -> exists x, get m g = Some x /\ o_box x = BAlloc /\ o_vst x = VLive /\ inD m g = false /\
                                 h_mark (o_hdr x) = IL.
  Proof. cbn. intros (_ & _ & _ & Hmem & _) g Hg. exact (Hmem g Hg). Qed.

  (** ** C05 item 8: all finalizers of a pass return before its first destructor: an iteration
      of the finalization pass that still has a member to visit does not call the drop pass *)
  Definition is_drop_list (k : call) : bool := match k with KDropList _ _ _ => true | _ => false end.

  Theorem fin_then_drop_order rec rec' L g rest any old_f m :
    (forall k m', is_drop_list k = false -> rec' k m' = rec k m') ->
    step_finalize_list K P rec' L (g :: rest) any old_f m = step_finalize_list K P rec L (g :: rest) any old_f m.
  Proof.
    intros Hag. unfold step_finalize_list.
    repeat first
      [ match goal with |- context [rec' ?k ?m0] => rewrite (Hag k m0) by reflexivity end
      | match goal with
        | |- context [match ?x with _ => _ end] =>
          lazymatch x with
          | context [match _ with _ => _ end] => fail
          | _ => destruct x eqn:?
          end
        end ]; reflexivity.
  Qed.
  (** ... and the drop pass is entered from the empty remainder only when no finalizer ran *)
  Theorem drop_pass_entry rec L any old_f m :
    step_finalize_list K P rec L [] any old_f m =
    if negb any
    then rec (KDropList L L (st_dropping m)) (m <| st_finalizing := old_f |> <| st_dropping := true |> <| dead ::= app L |>)
    else ((fold_left (fun m g => uhdr g (fun h => set_mark PC (reset_tc h)) m) L (m <| st_finalizing := old_f |>))
            <| pc ::= fun old => L ++ old |> <| pc_size ::= fun s => N.of_nat (length L) + s |>, ONormal).
  Proof. reflexivity. Qed.

  (** ** C05 item 5 (local): an already finalized object is skipped; a finalizer entry is logged
      with the flag already set *)
  Theorem finalize_list_skips_finalized rec L g rest any old_f m :
    needs_fin (hdr_of m g) = false ->
    step_finalize_list K P rec L (g :: rest) any old_f m = rec (KFinalizeList L rest any old_f) m.
  Proof. intros H. unfold step_finalize_list. rewrite H. reflexivity. Qed.
  Theorem finalize_list_sets_flag_first rec L g rest any old_f m :
    needs_fin (hdr_of m g) = true -> is_map m g = false ->
    exists m1, m1 = uhdr g (set_fin true) m /\
      step_finalize_list K P rec L (g :: rest) any old_f m =
      let '(m2, r) :=
        let m' := emit (ECb KFin g (cur_flags K m1)) m1 in
        let '(m'', boom) := tick KFin m' in
        if boom then (m'', raise m'')
        else match get m'' g with
             | Some x => rec (KScript (Some g) (oscript P (c_fin (class_of P (o_cls x))))) m''
             | None => (m'', ONormal)
             end in
      match r with
      | ONormal => rec (KFinalizeList L rest true old_f) m2
      | _ => (unmark_all L (m2 <| st_finalizing := old_f |>), r)
      end.
  Proof.
    intros H Hm. eexists. split; [reflexivity|]. unfold step_finalize_list. rewrite H.
    assert (Hm' : is_map (uhdr g (set_fin true) m) g = false).
    { unfold is_map in *. destruct (get m g) as [x|] eqn:Hx.
      - unfold uhdr. erewrite SafeFinalPropsA.getA_upd_eq by exact Hx. exact Hm.
      - unfold uhdr, upd, get in *. cbn. rewrite list_lookup_alter. unfold id in *. rewrite Hx. reflexivity. }
    cbv zeta. rewrite Hm'. reflexivity.
  Qed.

  (** ** C05 item 9: objects created while a finalizer runs are born finalized *)
  Theorem box_alloc_in_finalizer o m x :
    get m o = Some x -> k_fin K = true -> st_finalizing m = true ->
    exists x', get (box_alloc K o m) o = Some x' /\ h_fin (o_hdr x') = true /\ o_box x' = BAlloc.
  Proof.
    intros Hx Hk Hf. unfold box_alloc. rewrite Hx. destruct (box_layout K x) as [sz al]. rewrite Hk, Hf.
    eexists. split.
    - match goal with |- get (emit ?e (upd o ?f ?mm)) o = _ => change (get (emit e (upd o f mm)) o) with (get (upd o f mm) o) end.
      apply SafeFinalPropsA.getA_upd_eq. exact Hx.
    - split; reflexivity.
  Qed.
  Theorem box_alloc_fin_flag o m x :
    get m o = Some x ->
    exists x', get (box_alloc K o m) o = Some x' /\ h_fin (o_hdr x') = k_fin K && st_finalizing m.
  Proof.
    intros Hx. unfold box_alloc. rewrite Hx. destruct (box_layout K x) as [sz al].
    eexists. split.
    - match goal with |- get (emit ?e (upd o ?f ?mm)) o = _ => change (get (emit e (upd o f mm)) o) with (get (upd o f mm) o) end.
      apply SafeFinalPropsA.getA_upd_eq. exact Hx.
    - reflexivity.
  Qed.
End C05.

(** ** C14 item 10: a value under construction cannot be upgraded *)
Section C14.
  Context (K : conf).

  Theorem dead_inside b E W m o x :
    SInv K b E W m -> get m o = Some x -> o_vst x = VUninit -> o_box x = BAlloc ->
    h_rc (o_hdr x) = 0 /\ is_dropped (o_hdr x) = false.
  Proof. intros HI Hx Hv Hb. exact (ox_uninit _ _ _ _ (sv_objx _ _ _ _ _ HI o x Hx) Hb Hv). Qed.

  Theorem dead_inside_count b E W m o x :
    SInv K b E W m -> k_weak K = true -> (0 < wrefs m o + cnt_wr o W)%nat ->
    get m o = Some x -> o_vst x = VUninit -> weak_strong_count (WTo o) m = (m, 0).
  Proof.
    intros HI Hk Hw Hx Hv. apply (SafeFinalProps.dead_never_upgrades K b E W m o x HI Hk Hw Hx). auto 6.
  Qed.

  Theorem dead_inside_upgrade rec b E m self w dst rw rd o x :
    SInv K b E [] m -> k_weak K = true ->
    wresolve self w m = (m, Some rw) -> resolve self dst m = (m, Some rd) -> read_wloc rw m = Some (WTo o) ->
    (0 < wrefs m o)%nat -> get m o = Some x -> o_vst x = VUninit ->
    cmd_upgrade K rec self w dst m = ok m RNone.
  Proof.
    intros HI Hk H1 H2 Hr Hw Hx Hv. apply (SafeFinalProps.dead_upgrade_none K rec b E m self w dst rw rd o x); auto 6.
  Qed.

  (** ** C14 item 12b: the unwind guard of [new_cyclic] *)
  Definition cyc_guard (o : id) (m : machine) : machine :=
    weak_drop (WTo o) (dealloc K o (drop_metadata K o m) <| wparam ::= tail |>).

  Lemma weak_drop_box w m o y : get m o = Some y ->
    exists y', get (weak_drop w m) o = Some y' /\ o_box y' = o_box y /\ o_vst y' = o_vst y.
  Proof.
    intros Hy. destruct (SafeGlue.weak_drop_keep w m o y Hy) as (y' & Hy' & HS). exists y'. split; [exact Hy'|].
    destruct HS as (_ & Hv & Hb & _). split; [exact Hb | exact Hv].
  Qed.

  Lemma log_ext_weak_drop w m e : In e (log m) -> In e (log (weak_drop w m)).
  Proof.
    intros Hin. destruct (q_weak_drop m w m (Quiet_refl m)) as (_ & _ & (k & -> & _) & _).
    apply in_or_app. right. exact Hin.
  Qed.

  (** the guard frees the box (without touching the value state) and logs the [EFree] *)
  Theorem cyc_guard_frees o m x : get m o = Some x ->
    exists x', get (cyc_guard o m) o = Some x' /\ o_box x' = BFreed /\ o_vst x' = o_vst x /\
      In (EFree o (box_layout K x).1 (box_layout K x).2) (log (cyc_guard o m)).
  Proof.
    intros Hx. unfold cyc_guard.
    destruct (SafeFinalPropsA.drop_metadata_get K m o x Hx) as (y1 & Hy1 & Hv1 & Hb1 & Hm1).
    destruct (SafeFinalPropsA.dealloc_get K (drop_metadata K o m) o y1 Hy1) as [Hg Hl].
    set (X := dealloc K o (drop_metadata K o m)) in *.
    assert (Hg2 : get (X <| wparam ::= tail |>) o = Some (y1 <| o_box := BFreed |>)) by exact Hg.
    destruct (weak_drop_box (WTo o) _ o _ Hg2) as (y' & Hy' & Hb' & Hv').
    exists y'. split; [exact Hy'|]. split; [rewrite Hb'; reflexivity|]. split; [rewrite Hv'; exact Hv1|].
    apply log_ext_weak_drop. change (log (X <| wparam ::= tail |>)) with (log X).
    assert (Hbl : box_layout K y1 = box_layout K x) by (unfold box_layout; rewrite Hm1; reflexivity).
    rewrite <- Hbl. exact Hl.
  Qed.

  (** every way [new_cyclic] can unwind: the trigger panicked (nothing was allocated), the guard
      ran (closure or self-weak clone panicked), or the final store panicked (the value is live) *)
  Theorem cyc_panic_cases P rec self dst cls script sw m :
    (cmd_new_cyclic K P rec self dst cls script sw m).2 = OPanic ->
    let o := length (heap (resolve self dst m).1) in
    (exists mX, (cmd_new_cyclic K P rec self dst cls script sw m).1 = cyc_guard o mX) \/
    (exists mX, rec KTrigger mX = ((cmd_new_cyclic K P rec self dst cls script sw m).1, OPanic)) \/
    (exists r mX, rec (KStore r o) mX = ((cmd_new_cyclic K P rec self dst cls script sw m).1, OPanic)).
  Proof.
    unfold cmd_new_cyclic, ok, cyc_guard, new_node. cbv zeta.
    destruct (negb (k_weak K)); [discriminate|].
    destruct (resolve self dst m) as [m1 r]. cbn [fst snd]. destruct r as [r|]; [|discriminate].
    destruct (k_auto K).
    - destruct (rec KTrigger _) as [m4 t] eqn:Et. destruct t; cbn [fst snd]; try discriminate.
      + destruct (tick KClosure _) as [m11 boom]. destruct boom.
        * unfold raise. destruct (panicking m11); cbn [fst snd]; [discriminate|]. intros _. left. eexists. reflexivity.
        * destruct (rec (KScript None _) m11) as [m12 r'] eqn:Es. destruct r'; cbn [fst snd]; try discriminate.
          -- destruct (sw && _).
             ++ destruct (weak_clone (WTo _) m12) as [mc|].
                ** destruct (rec (KStore r _) _) as [m15 r3] eqn:Est. destruct r3; cbn [fst snd]; try discriminate.
                   intros _. right; right. eexists _, _. exact Est.
                ** unfold raise. destruct (panicking m12); cbn [fst snd]; [discriminate|]. intros _. left. eexists. reflexivity.
             ++ destruct (rec (KStore r _) _) as [m15 r3] eqn:Est. destruct r3; cbn [fst snd]; try discriminate.
                intros _. right; right. eexists _, _. exact Est.
          -- intros _. left. eexists. reflexivity.
      + intros _. right; left. eexists. exact Et.
    - destruct (tick KClosure _) as [m11 boom]. destruct boom.
      + unfold raise. destruct (panicking m11); cbn [fst snd]; [discriminate|]. intros _. left. eexists. reflexivity.
      + destruct (rec (KScript None _) m11) as [m12 r'] eqn:Es. destruct r'; cbn [fst snd]; try discriminate.
        * destruct (sw && _).
          -- destruct (weak_clone (WTo _) m12) as [mc|].
             ++ destruct (rec (KStore r _) _) as [m15 r3] eqn:Est. destruct r3; cbn [fst snd]; try discriminate.
                intros _. right; right. eexists _, _. exact Est.
             ++ unfold raise. destruct (panicking m12); cbn [fst snd]; [discriminate|]. intros _. left. eexists. reflexivity.
          -- destruct (rec (KStore r _) _) as [m15 r3] eqn:Est. destruct r3; cbn [fst snd]; try discriminate.
             intros _. right; right. eexists _, _. exact Est.
        * intros _. left. eexists. reflexivity.
  Qed.

  (** ** C14 item 11 (local): the state in which [new_cyclic] stores the new handle.  After the
      closure returned (object still uninitialised, strong count 0) the value is initialised, the
      count becomes 1, the parameter is dropped: the object handed to [KStore] is live with
      strong count exactly 1 *)
  Definition cyc_publish (o : id) (m : machine) : machine :=
    weak_drop (WTo o) (uhdr o (fun h => default h (inc_rc h)) (upd o (fun x => x <| o_vst := VLive |>) m) <| wparam ::= tail |>).

  Theorem cyc_publish_state o m x : get m o = Some x -> h_rc (o_hdr x) = 0 ->
    exists x', get (cyc_publish o m) o = Some x' /\ o_vst x' = VLive /\ h_rc (o_hdr x') = 1 /\ o_box x' = o_box x.
  Proof.
    intros Hx Hrc. unfold cyc_publish.
    assert (H1 : get (upd o (fun x => x <| o_vst := VLive |>) m) o = Some (x <| o_vst := VLive |>))
      by (apply SafeFinalPropsA.getA_upd_eq; exact Hx).
    assert (H2 : get (uhdr o (fun h => default h (inc_rc h)) (upd o (fun x => x <| o_vst := VLive |>) m) <| wparam ::= tail |>) o
                 = Some (x <| o_vst := VLive |> <| o_hdr ::= fun h => default h (inc_rc h) |>)).
    { unfold uhdr. change (get (?mm <| wparam ::= tail |>) o) with (get mm o).
      apply SafeFinalPropsA.getA_upd_eq. exact H1. }
    destruct (SafeGlue.weak_drop_keep (WTo o) _ o _ H2) as (y & Hy & (Hh & Hv & Hb & _)).
    exists y. split; [exact Hy|]. split; [rewrite Hv; reflexivity|]. split; [|rewrite Hb; reflexivity].
    rewrite Hh. cbn. unfold inc_rc. rewrite Hrc. reflexivity.
  Qed.
End C14.
