(** * SoleMain: every activation of every safe run preserves the frame [Keep] for any fixed
    sets [U] / [R] satisfying [SI] at its entry (induction [Life.mrun_ind], then the transfer
    from the marked interpreter to [run]). *)
From Coq Require Import NArith Bool List Lia.
From stdpp Require Import base list option.
From RecordUpdate Require Import RecordSet.
From RC Require Import Hdr Machine RunInd.
From RC Require Import Inv InvP SafeHelpers SafePrims SafeCalls SafeMain SafeColl SafeFinal.
From RC Require Import LifeGhost LifeChk Life.
From RC Require Import SoleInv SolePrim SoleStep SoleWalk1 SoleWalk2 SoleWalk3 SoleWalk4 SoleWalk5 SoleChk.
Import ListNotations RecordSetNotations.
Local Open Scope N_scope.

Section Step.
  Context (K : conf) (P : prog) (U R : id -> Prop) (mu : id).
  Notation St := (St K U R mu).
  Notation Args := (Args U R).
  Notation Pre2 := (Pre2 K U R mu).
  Notation Post2 := (Post2 U R mu).
  Context (rec : call -> machine -> machine * outcome).
  Hypothesis Hrec : rec_ok Pre2 Post2 rec.

  Lemma live_alloc_spec m o : live_alloc m o = true -> exists x, get m o = Some x /\ o_vst x = VLive.
  Proof.
    unfold live_alloc. destruct (get m o) as [x|]; [|discriminate]. intros H. apply andb_true_iff in H as [H _].
    exists x. split; [reflexivity|]. unfold is_live in H. destruct (o_vst x); try discriminate. reflexivity.
  Qed.

  Lemma sole_cmd self c m : LifeChk.chk (KCmd self c) m = true ->
    St m (Args (KCmd self c)) m -> St m True (step_cmd K P rec self c m).1.
  Proof.
    intros Hc HS. destruct c; cbn [step_cmd].
    - apply c_new; assumption.
    - apply c_clone; assumption.
    - apply c_drop; assumption.
    - apply c_move; assumption.
    - apply c_mark_alive; assumption.
    - apply c_collect; assumption.
    - apply c_downgrade; assumption.
    - apply c_upgrade; assumption.
    - apply c_w_new; assumption.
    - apply c_w_clone; assumption.
    - apply c_w_drop; assumption.
    - apply c_try_unwrap; [|assumption]. intros r o Hr Ho. cbn [LifeChk.chk] in Hc. rewrite Hr, Ho in Hc.
      apply live_alloc_spec, Hc.
    - apply c_drop_value; [assumption | | assumption]. intros o Ho. cbn [LifeChk.chk] in Hc. rewrite Ho in Hc.
      destruct (get m o) as [x|]; [|discriminate]. exists x. split; [reflexivity|]. apply andb_true_iff in Hc as [_ Hc].
      unfold is_moved in Hc. destruct (o_vst x); discriminate.
    - apply c_fin_again; assumption.
    - apply c_new_cyclic; assumption.
    - apply c_register; assumption.
    - apply c_clean; assumption.
    - apply c_c_drop; assumption.
    - apply c_bag; assumption.
    - apply c_unbag; assumption.
    - apply c_borrow; assumption.
    - apply c_unborrow; assumption.
    - apply c_cfg_auto; assumption.
    - apply c_cfg_percent; assumption.
    - apply c_cfg_buffered; assumption.
    - apply c_arm; assumption.
    - apply c_panic; assumption.
    - apply c_obs; assumption.
    - apply c_w_obs; assumption.
    - apply c_s_obs; assumption.
  Qed.

  Lemma St_True m F : St m F m -> St m True m.
  Proof. intros H. apply (St_weaken K U R mu m F True m H). auto. Qed.

  Lemma sole_step c m : Pre2 c m -> chk K P c m = true -> Post2 c m (step K P rec c m).1 (step K P rec c m).2.
  Proof.
    intros Hpre Hc. unfold chk in Hc. apply andb_true_iff in Hc as [Hc Hc2].
    pose proof (St_init K U R mu c m Hpre) as HS.
    apply (St_fin K U R mu c m True). destruct c; cbn [step].
    - apply sole_cmd; assumption.
    - apply s_script; assumption.
    - apply s_store; assumption.
    - apply s_drop_cc; [assumption | | assumption]. cbn [LifeChk.chk] in Hc. destruct (get m o) as [x|]; [|discriminate].
      exists x. split; [reflexivity|]. apply andb_true_iff in Hc as [_ Hc]. apply orb_true_iff in Hc as [Hc|Hc].
      + apply orb_true_iff in Hc as [Hc|Hc]; [left; exact Hc | right; left; apply negb_true_iff, Hc].
      + right; right. unfold is_live in Hc. destruct (o_vst x); try discriminate. reflexivity.
    - apply s_drop_value; assumption.
    - apply s_drop_fields; assumption.
    - apply s_drop_map_slots; [assumption | eapply St_True; eassumption].
    - apply s_trigger; [assumption | eapply St_True; eassumption].
    - apply s_collect_cycles; [assumption | eapply St_True; eassumption].
    - apply s_collect; [assumption | eapply St_True; eassumption].
    - apply s_collect_loop; [assumption | eapply St_True; eassumption].
    - apply s_collect_once; [assumption | apply passgood_spec, Hc2 | eapply St_True; eassumption].
    - apply s_finalize_list; [assumption | | assumption]. cbn [LifeChk.chk] in Hc. rewrite forallb_forall in Hc.
      intros g Hg. apply live_alloc_spec, Hc, elem_of_list_In, Hg.
    - apply s_drop_list; [assumption | | assumption]. cbn [LifeChk.chk] in Hc. apply andb_true_iff in Hc as [Hc _].
      rewrite forallb_forall in Hc. intros g Hg. apply SafeHelpers.mem_id_elem, Hc, elem_of_list_In, Hg.
    - apply s_unbag; [assumption | eapply St_True; eassumption].
    - apply s_clean_run; [assumption | eapply St_True; eassumption].
  Qed.
End Step.

Section Run.
  Context (K : conf) (P : prog).
  Hypothesis Hconf : k_clean K = true -> k_weak K = true.
  Hypothesis Hwf : wf_prog P = true.

  Lemma sole_mrun U R mu n : rec_ok (Pre2 K U R mu) (Post2 U R mu) (mrun K P (chk K P) mu n).
  Proof.
    apply (mrun_ind K P (chk K P) (chk_dl K P) mu (Pre2 K U R mu) (Post2 U R mu)).
    - intros c m m' r Hm HN. unfold NoMu in HN. congruence.
    - intros rec Hrec c m Hp Hc. apply sole_step; assumption.
    - intros c m Hp HN. split; [exact HN | apply Keep_refl].
  Qed.

  (** a run that returns (normally or by a panic) is a run of the marked interpreter, for a
      marker beyond the final heap *)
  Lemma post_sinv b E c m m' r : Post K (PostC K) b E c m m' r ->
    r = ONormal \/ r = OPanic -> exists b', SInv K b' E [] m'.
  Proof. intros H Hr. destruct c, Hr as [-> | ->]; cbn in H; destruct H as (_ & HS & _); eauto. Qed.

  Lemma run_is_mrun n b E A c m m' r :
    Pre K (PreC K) b E c m -> Q K A c m -> run K P n c m = (m', r) -> r = ONormal \/ r = OPanic ->
    mrun K P (chk K P) (length (heap m')) n c m = (m', r).
  Proof.
    intros Hpre HQ Hrun Hr. set (mu := length (heap m')).
    destruct (mrun_eq K P (chk K P) (chk_dl K P) mu n c m) as (t & Ht & Eq). rewrite Hrun in Eq. cbn [fst snd] in Eq.
    pose proof (mrun_okQ K P Hconf Hwf (chk K P) (chk_dl K P) (chk_ok K P) mu n b E A c m Hpre HQ) as HM.
    rewrite Eq in HM. cbn [fst snd] in HM. destruct (post_sinv _ _ _ _ _ _ HM Hr) as (b' & HS).
    destruct t as [|a t]; [rewrite dl_nil in Eq; exact Eq|]. exfalso.
    inversion Ht as [|a' t' Ha _]; subst.
    destruct (sv_dead _ _ _ _ _ HS mu) as [y Hy].
    { unfold inD. rewrite dead_dl, mem_id_app, mem_id_here. apply orb_true_r. }
    rewrite get_dl in Hy. apply lookup_lt_Some in Hy. unfold mu in Hy. lia.
  Qed.

  (** THE FRAME THEOREM *)
  Theorem sole_keep U R n b E A c m m' r :
    Pre K (PreC K) b E c m -> Q K A c m -> run K P n c m = (m', r) -> r = ONormal \/ r = OPanic ->
    SI K U R m -> Args U R c -> Keep U R m m'.
  Proof.
    intros Hpre HQ Hrun Hr HSI HA. set (mu := length (heap m')).
    pose proof (run_is_mrun n b E A c m m' r Hpre HQ Hrun Hr) as Hm. fold mu in Hm.
    assert (Hp2 : Pre2 K U R mu c m) by (intros _; split; assumption).
    pose proof (sole_mrun U R mu n c m Hp2) as HP. rewrite Hm in HP. cbn [fst snd] in HP.
    apply HP. unfold NoMu. destruct (mem_id mu (dead m')) eqn:Hd; [|reflexivity]. exfalso.
    pose proof (run_okQ K P Hconf Hwf n b E A c m Hpre HQ) as HQ'. rewrite Hrun in HQ'. cbn [fst snd] in HQ'.
    destruct (post_sinv _ _ _ _ _ _ HQ' Hr) as (b' & HS).
    destruct (sv_dead _ _ _ _ _ HS mu Hd) as [y Hy]. apply lookup_lt_Some in Hy. unfold mu in Hy. lia.
  Qed.
End Run.

Print Assumptions sole_keep.
